(* Proofs/SigMk.v — bag semantics of signomials; consolidate / the constructor. *)
From Coq Require Import Reals List Bool Arith ZArith QArith Qreals Lra Lia Qabs.
From SageVerif Require Import Math.RVec Model.Signomial Model.SigExpr Proofs.SigSpec
  Proofs.SigLemmas Proofs.SigRound.
Import ListNotations.
Local Open Scope R_scope.

(* sum over a list of rows of F(r) * exp(r . x) *)
Definition bagsum (F : qrow -> R) (u : list qrow) (x : list R) : R :=
  fold_right (fun r acc => F r * exp (dot (rowR r) x) + acc) 0 u.

Definition qcsum (l : list Q) : Q := csum 0%Q qadd l.
Definition coefR (f : qsig) (r : qrow) : R := Q2R (qcsum (coeffs_at r f)).

Lemma sig_evalR_cons : forall t f x,
  sig_evalR (t :: f) x = Q2R (snd t) * exp (dot (rowR (fst t)) x) + sig_evalR f x.
Proof. reflexivity. Qed.

Lemma sig_evalR_app : forall f g x, sig_evalR (f ++ g) x = sig_evalR f x + sig_evalR g x.
Proof.
  induction f; intros; simpl app.
  - unfold sig_evalR at 2. simpl. lra.
  - rewrite !sig_evalR_cons, IHf. lra.
Qed.

Lemma bagsum_cons : forall F r u x, bagsum F (r :: u) x = F r * exp (dot (rowR r) x) + bagsum F u x.
Proof. reflexivity. Qed.

Lemma bagsum_ext : forall F G u x, (forall r, In r u -> F r = G r) -> bagsum F u x = bagsum G u x.
Proof.
  induction u; intros x H; auto. rewrite !bagsum_cons, IHu, H; auto.
  - now left.
  - intros; apply H; now right.
Qed.

Lemma bagsum_zero : forall F u x, (forall r, In r u -> F r = 0) -> bagsum F u x = 0.
Proof.
  induction u; intros x H; auto. rewrite bagsum_cons, IHu, H.
  - lra.
  - now left.
  - intros; apply H; now right.
Qed.

Lemma bagsum_plus : forall F G u x, bagsum (fun r => F r + G r) u x = bagsum F u x + bagsum G u x.
Proof. induction u; intros x; [unfold bagsum; simpl; lra|]. rewrite !bagsum_cons, IHu. lra. Qed.

Lemma bagsum_single : forall a c u x, NoDupR u -> mem_row a u = true ->
  bagsum (fun r => if qrow_eqb a r then c else 0) u x = c * exp (dot (rowR a) x).
Proof.
  induction u; intros x Hn Hm; [discriminate|].
  inversion Hn; subst. rewrite bagsum_cons. simpl in Hm.
  destruct (qrow_eqb a a0) eqn:E.
  - rewrite (qrow_eqb_rowR _ _ E). rewrite bagsum_zero; [lra|].
    intros r Hr. rewrite (qrow_eqb_compat_l _ _ r E).
    rewrite (mem_row_false _ _ H1 r Hr). reflexivity.
  - simpl in Hm. rewrite IHu; auto. lra.
Qed.

Lemma Q2R_fold_qadd : forall l a, Q2R (fold_left qadd l a) = Q2R a + fold_right (fun c acc => Q2R c + acc) 0 l.
Proof.
  induction l; intros; simpl; [lra|]. rewrite IHl, Q2R_qadd. lra.
Qed.

Lemma qcsum_nil : Q2R (qcsum []) = 0.
Proof. unfold qcsum, csum. simpl. apply Q2R_0'. Qed.

Lemma qcsum_cons : forall c l, Q2R (qcsum (c :: l)) = Q2R c + Q2R (qcsum l).
Proof.
  intros. unfold qcsum, csum. simpl. rewrite !Q2R_fold_qadd, Q2R_qadd. lra.
Qed.

Lemma coeffs_at_cons : forall r a (c : Q) f,
  coeffs_at r ((a, c) :: f) = if qrow_eqb a r then c :: coeffs_at r f else coeffs_at r f.
Proof. intros. unfold coeffs_at. simpl. destruct (qrow_eqb a r); reflexivity. Qed.

Lemma coefR_nil : forall r, coefR [] r = 0.
Proof. intros. unfold coefR. simpl. apply qcsum_nil. Qed.

Lemma coefR_cons : forall a c f r,
  coefR ((a, c) :: f) r = (if qrow_eqb a r then Q2R c else 0) + coefR f r.
Proof.
  intros. unfold coefR. rewrite coeffs_at_cons. destruct (qrow_eqb a r).
  - apply qcsum_cons.
  - lra.
Qed.

(* the bag lemma: any duplicate-free cover of the rows computes the value *)
Lemma bag_eval : forall u f x, NoDupR u ->
  (forall t, In t f -> mem_row (fst t) u = true) ->
  sig_evalR f x = bagsum (coefR f) u x.
Proof.
  intros u f x Hn. induction f as [|[a c] f IH]; intros Hc.
  - rewrite bagsum_zero; auto. intros; apply coefR_nil.
  - rewrite sig_evalR_cons, IH by (intros; apply Hc; now right).
    rewrite (bagsum_ext (coefR ((a, c) :: f)) (fun r => (if qrow_eqb a r then Q2R c else 0) + coefR f r))
      by (intros; apply coefR_cons).
    rewrite bagsum_plus, bagsum_single; auto.
    apply (Hc (a, c)). now left.
Qed.

Lemma eval_map_rows : forall (c : qrow -> Q) u x,
  sig_evalR (map (fun r => (r, c r)) u) x = bagsum (fun r => Q2R (c r)) u x.
Proof.
  induction u; intros; auto. simpl map. rewrite sig_evalR_cons, bagsum_cons, IHu. reflexivity.
Qed.

(* coefficient of a row that is not present *)
Lemma coefR_absent : forall f r, mem_row r (map fst f) = false -> coefR f r = 0.
Proof.
  induction f as [|[a c] f IH]; intros r H; [apply coefR_nil|].
  simpl in H. apply orb_false_iff in H. destruct H as [H1 H2].
  rewrite coefR_cons, IH; auto. rewrite qrow_eqb_sym, H1. lra.
Qed.

Lemma coefR_compat : forall f r r', qrow_eqb r r' = true -> coefR f r = coefR f r'.
Proof.
  induction f as [|[a c] f IH]; intros r r' H; [now rewrite !coefR_nil|].
  rewrite !coefR_cons, (IH r r' H), (qrow_eqb_compat_r a r r' H). reflexivity.
Qed.

(* ------------------------------------------------------------------ *)
(* consolidate *)
Definition qconsolidate := consolidate (C:=Q) 0%Q qadd.

Lemma consolidate_eval : forall g x, sig_evalR (qconsolidate g) x = sig_evalR g x.
Proof.
  intros g x. unfold qconsolidate, consolidate.
  destruct (Nat.eqb _ _); auto.
  rewrite (eval_map_rows (fun r => qcsum (coeffs_at r g))).
  symmetry. apply bag_eval.
  - apply sort_unique_NoDupR.
  - intros t Ht. rewrite sort_unique_mem. apply mem_row_In. now apply in_map.
Qed.

Lemma consolidate_rows : forall (P : qrow -> Prop) g,
  Forall (fun t => P (fst t)) g -> Forall (fun t => P (fst t)) (qconsolidate g).
Proof.
  intros P g H. unfold qconsolidate, consolidate.
  destruct (Nat.eqb _ _); auto.
  rewrite Forall_forall in *. intros t Ht. apply in_map_iff in Ht.
  destruct Ht as [r [<- Hr]]. simpl. apply sort_unique_In in Hr.
  apply in_map_iff in Hr. destruct Hr as [t' [<- Ht']]. auto.
Qed.

Lemma consolidate_distinct : forall g, rows_distinct (qconsolidate g).
Proof.
  intros g. unfold qconsolidate, consolidate.
  destruct (Nat.eqb _ _) eqn:E.
  - apply Nat.eqb_eq in E. apply rows_distinct_NoDupR. apply sort_unique_length_eq.
    now rewrite map_length.
  - apply rows_distinct_NoDupR. rewrite map_map. simpl. rewrite map_id. apply sort_unique_NoDupR.
Qed.

Lemma consolidate_id : forall g, rows_distinct g -> qconsolidate g = g.
Proof.
  intros g H. unfold qconsolidate, consolidate.
  apply rows_distinct_NoDupR in H. apply sort_unique_length_nodup in H.
  rewrite map_length in H. rewrite H, Nat.eqb_refl. reflexivity.
Qed.

Lemma consolidate_nonempty : forall g, g <> [] -> qconsolidate g <> [].
Proof.
  intros g H. unfold qconsolidate, consolidate.
  destruct (Nat.eqb _ _); auto.
  intros E. apply map_eq_nil in E. revert E. apply sort_unique_nonempty.
  destruct g; [congruence|discriminate].
Qed.

(* ------------------------------------------------------------------ *)
(* the constructor *)
Definition rnd (f : qsig) : qsig := map (fun t => (round_row (fst t), snd t)) f.

Lemma q_mk_unfold : forall f, q_mk f = qconsolidate (rnd f).
Proof. reflexivity. Qed.

Lemma rnd_wf : forall n f, Forall (fun t => length (fst t) = n) f -> wfsig n (rnd f).
Proof.
  intros n f H. unfold wfsig, rnd. rewrite Forall_forall in *. intros t Ht.
  apply in_map_iff in Ht. destruct Ht as [t' [<- Ht']]. simpl. split.
  - rewrite round_row_length. auto.
  - apply on_grid_row_round.
Qed.

Lemma wfsig_lengths : forall n f, wfsig n f -> Forall (fun t => length (fst t) = n) f.
Proof. intros n f H. unfold wfsig in H. rewrite Forall_forall in *. intros t Ht. now apply H. Qed.

Lemma rnd_eval_grid : forall n f x, wfsig n f -> sig_evalR (rnd f) x = sig_evalR f x.
Proof.
  intros n f x H. induction H as [|t f [_ Hg] Hf IH]; auto.
  unfold rnd in *. simpl map. rewrite !sig_evalR_cons, IH. simpl.
  now rewrite round_row_rowR.
Qed.

Lemma rnd_mem_grid : forall n f r, wfsig n f -> mem_row r (map fst (rnd f)) = mem_row r (map fst f).
Proof.
  intros n f r H. induction H as [|t f [_ Hg] Hf IH]; auto.
  unfold rnd in *. simpl. rewrite IH. f_equal.
  apply qrow_eqb_compat_r. now apply round_row_eqb.
Qed.

Lemma rnd_distinct_grid : forall n f, wfsig n f -> rows_distinct f -> rows_distinct (rnd f).
Proof.
  intros n f H. induction H as [|t f [Hl Hg] Hf IH]; auto.
  intros Hd. apply rows_distinct_cons in Hd. destruct Hd as [Hm Hd].
  change (rnd (t :: f)) with ((round_row (fst t), snd t) :: rnd f).
  apply rows_distinct_cons. split; auto. simpl fst.
  rewrite (rnd_mem_grid n); auto.
  rewrite (mem_row_compat _ (fst t)); auto. now apply round_row_eqb.
Qed.

Lemma mk_wf : forall n f, Forall (fun t => length (fst t) = n) f -> wfsig n (q_mk f).
Proof.
  intros n f H. rewrite q_mk_unfold.
  apply (consolidate_rows (fun r => length r = n /\ on_grid_row r)).
  apply (rnd_wf n f H).
Qed.

Lemma mk_distinct : forall f, rows_distinct (q_mk f).
Proof. intros. rewrite q_mk_unfold. apply consolidate_distinct. Qed.

Lemma mk_eval : forall f x, sig_evalR (q_mk f) x = sig_evalR (rnd f) x.
Proof. intros. rewrite q_mk_unfold. apply consolidate_eval. Qed.

Lemma mk_nonempty : forall f, f <> [] -> q_mk f <> [].
Proof.
  intros f H. rewrite q_mk_unfold. apply consolidate_nonempty.
  destruct f; [congruence|discriminate].
Qed.

Lemma mk_id_grid : forall n f, wfsig n f -> rows_distinct f -> q_mk f = rnd f.
Proof.
  intros n f H Hd. rewrite q_mk_unfold. apply consolidate_id. now apply (rnd_distinct_grid n).
Qed.

Lemma mk_spec : mk_spec_stmt.
Proof.
  intros n f x Hl Hx. split; [|split].
  - now apply mk_wf.
  - apply mk_distinct.
  - apply mk_eval.
Qed.

Lemma mk_eval_grid : forall n f x, wfsig n f -> sig_evalR (q_mk f) x = sig_evalR f x.
Proof. intros. rewrite mk_eval. now apply (rnd_eval_grid n). Qed.

Lemma mk_on_grid : mk_on_grid_stmt.
Proof. intros n f x H _. now apply (mk_eval_grid n). Qed.

(* constants *)
Lemma dot_zeros : forall n x, dot (rowR (repeat 0%Q n)) x = 0.
Proof.
  induction n; intros [|v x]; simpl; auto. rewrite IHn, Q2R_0'. lra.
Qed.

Lemma wfsig_const : forall n c, wfsig n [(repeat 0%Q n, c)].
Proof.
  intros. constructor; [|constructor]. simpl. split.
  - apply repeat_length.
  - apply on_grid_row_zeros.
Qed.

Lemma rows_distinct_single : forall t : qrow * Q, rows_distinct [t].
Proof. intros t i j Hij Hj. simpl in Hj. lia. Qed.

Definition qconst (n : nat) (c : Q) : qsig := q_mk (const_sig n c).

Lemma qconst_eq : forall n c, qconst n c = [(round_row (repeat 0%Q n), c)].
Proof.
  intros. unfold qconst. rewrite (mk_id_grid n).
  - reflexivity.
  - apply wfsig_const.
  - apply rows_distinct_single.
Qed.

Lemma qconst_eval : forall n c x, sig_evalR (qconst n c) x = Q2R c.
Proof.
  intros. unfold qconst. rewrite (mk_eval_grid n) by apply wfsig_const.
  unfold const_sig. rewrite sig_evalR_cons. simpl fst. simpl snd.
  rewrite dot_zeros, exp_0. unfold sig_evalR. simpl. lra.
Qed.

Lemma qconst_wf : forall n c, wfsig n (qconst n c).
Proof. intros. unfold qconst. apply mk_wf. constructor; [|constructor]. simpl. apply repeat_length. Qed.

Lemma qconst_distinct : forall n c, rows_distinct (qconst n c).
Proof. intros. apply mk_distinct. Qed.

Lemma qconst_nonempty : forall n c, qconst n c <> [].
Proof. intros. rewrite qconst_eq. discriminate. Qed.
