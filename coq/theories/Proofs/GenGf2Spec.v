(* Proofs/GenGf2Spec.v — the GF(2) routines regenerated from poly_solution_recovery.py (Gen/GenGf2.v: the imperative loops of
   mod2rref, mod2linsolve, mod2nullspace_basis over index-addressed matrices) compute, on EVERY input, what the hand-written
   functional models of Model/Gf2.v compute.  Every C18 theorem about the models is therefore a theorem about the code generated
   from the current source. *)
From Coq Require Import List Bool Arith ZArith.
From SageVerif Require Import Model.Gf2 Model.NpIdioms Gen.GenGf2.
Import ListNotations.

Definition gen_rref_equiv_stmt : Prop :=
  forall forward_only A, gen_mod2rref forward_only A = mod2rref forward_only A.

(* A has m rows of length n; the model's augmented matrix then has n + 1 columns *)
Definition gen_linsolve_equiv_stmt : Prop :=
  forall n A b, Forall (fun r => length r = n) A -> length b = length A ->
    gen_mod2linsolve n A b = mod2linsolve n A b.

Definition gen_nullspace_equiv_stmt : Prop :=
  forall n arref p, gen_mod2nullspace_basis n arref p = mod2nullspace_basis n arref p.

(* ---- the headline C18 theorems, restated for the GENERATED functions ---- *)
From SageVerif Require Import Proofs.Gf2Spec.

Definition gen_linsolve_sound_complete_stmt : Prop :=
  forall n A b, wf n A -> A <> [] -> length b = length A ->
    (forall x, gen_mod2linsolve n A b = Some x -> length x = n /\ mulmv A x = b) /\
    (gen_mod2linsolve n A b = None -> forall x, length x = n -> mulmv A x <> b).

Definition gen_rref_kernel_stmt : Prop :=
  forall fo n A R piv x, wf n A -> A <> [] -> length x = n -> gen_mod2rref fo A = (R, piv) ->
    (mulmv A x = zeros (length A) <-> mulmv R x = zeros (length R)).

(* the enumerated null space built on the generated reduction and the generated basis is exactly the kernel *)
Definition gen_nullspace_exact_stmt : Prop :=
  forall n A R piv, wf n A -> A <> [] -> gen_mod2rref false A = (R, piv) ->
    forall x, length x = n ->
      (mulmv A x = zeros (length A) <-> In x (span n (gen_mod2nullspace_basis n R piv))).

(* ---- the sign-pattern layer ---- *)
Definition gen_lsn_equiv_stmt : Prop :=
  forall n alpha moments, gen_linear_system_negatives n alpha moments = linear_system_negatives n alpha moments.

Definition gen_signs_equiv_stmt : Prop :=
  forall n alpha moments heuristic all_signs,
    gen_variable_sign_patterns n alpha moments heuristic all_signs = variable_sign_patterns n alpha moments heuristic all_signs.

(* the sign-pattern theorems of C18 for the GENERATED variable_sign_patterns: every returned pattern is consistent with the signs of the
   moments, every consistent pattern (0 on irrelevant coordinates) is returned, and nothing is returned exactly when no pattern exists *)
Definition gen_signs_exact_stmt : Prop :=
  forall n alpha moments,
    wfz n alpha -> length moments = length alpha -> even_moments_nonneg alpha moments ->
    (forall all_signs ys, gen_variable_sign_patterns n alpha moments false all_signs = SpList ys ->
       forall y, In y ys -> length y = n /\ consistent alpha moments y) /\
    (forall heur ys y, gen_variable_sign_patterns n alpha moments heur true = SpList ys ->
       length y = n -> consistent alpha moments y ->
       (forall j, j < n -> ~ relevant alpha moments j -> nth j y false = false) -> In y ys) /\
    (forall all_signs, gen_variable_sign_patterns n alpha moments false all_signs = SpList [] <->
       forall y, length y = n -> ~ consistent alpha moments y).
