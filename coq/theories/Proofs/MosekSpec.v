(* Proofs/MosekSpec.v — statements about the decision logic of the MOSEK interface, which is
   regenerated from sageopt/coniclifts/problems/solvers/mosek.py on every run (Gen/GenMosek.v).
   MOSEK cannot run in this sandbox: the translator is the only tie for this file. *)
From Coq Require Import List Bool Arith Lia.
From SageVerif Require Import Gen.GenEcosParse Gen.GenProblemSolve Gen.GenMosek Model.SolverForms.
Import ListNotations.

(* ---- the status tables, for EVERY solution status, in both forms ---- *)
Definition mosek_parse_table_stmt : Prop :=
  forall s,
    mosek_primal_parse s =
      match s with
      | MOptimal | MIntegerOptimal => (Solved, VPcost, true, ReadXX)
      | MDualInfeasCer => (Solved, VNegInf, false, ReadNone)   (* the problem handed over is unbounded *)
      | MPrimInfeasCer => (Solved, VInf, false, ReadNone)      (* ... infeasible *)
      | MOtherSolsta => (Failed, VNan, false, ReadNone)
      end /\
    mosek_dual_parse s =
      match s with
      | MOptimal | MIntegerOptimal => (Solved, VPcost, true, ReadY)
      | MDualInfeasCer => (Solved, VInf, false, ReadNone)      (* the DUAL is unbounded: sageopt's problem is infeasible *)
      | MPrimInfeasCer => (Solved, VNegInf, false, ReadNone)   (* the DUAL is infeasible: sageopt's problem is unbounded *)
      | MOtherSolsta => (Failed, VNan, false, ReadNone)
      end.

(* ---- the dual-form table is the primal-form table with the two certificates exchanged, reading the
   multipliers y of G y == h instead of the primal vector xx ---- *)
Definition swap_cert (s : solsta) : solsta :=
  match s with MDualInfeasCer => MPrimInfeasCer | MPrimInfeasCer => MDualInfeasCer | _ => s end.
Definition swap_read (r : mread) : mread :=
  match r with ReadXX => ReadY | ReadY => ReadXX | ReadNone => ReadNone end.

Definition mosek_forms_agree_stmt : Prop :=
  forall s, let '(st, v, l, r) := mosek_primal_parse (swap_cert s) in
            mosek_dual_parse s = (st, v, l, swap_read r).

(* ---- what Problem.solve reports, by sense, after its own post-processing (generated from problem.py) ---- *)
Inductive reported := RObjective (negated : bool) | RPlusInf | RMinusInf | RNaN.
Definition report (v : valkind) (p : post) : reported :=
  match p, v with
  | PNan, _ => RNaN
  | _, VNan => RNaN
  | PKeep, VPcost => RObjective false
  | PNegate, VPcost => RObjective true
  | PKeep, VInf => RPlusInf
  | PNegate, VInf => RMinusInf
  | PKeep, VNegInf => RMinusInf
  | PNegate, VNegInf => RPlusInf
  end.
Definition mosek_reported (dual_form is_min : bool) (s : solsta) : status * reported * bool :=
  let '(st, v, l, _) := if dual_form then mosek_dual_parse s else mosek_primal_parse s in
  (st, report v (solve_value_post st is_min), l).

(* semantic reading of a MOSEK status for the problem SAGEOPT posed *)
Inductive meaning := Optimum | Infeasible | Unbounded | Unknown.
Definition meaning_of (dual_form : bool) (s : solsta) : meaning :=
  match s with
  | MOptimal | MIntegerOptimal => Optimum
  | MPrimInfeasCer => if dual_form then Unbounded else Infeasible
  | MDualInfeasCer => if dual_form then Infeasible else Unbounded
  | MOtherSolsta => Unknown
  end.

Definition mosek_status_truthful_stmt : Prop :=
  forall dual_form is_min s,
    mosek_reported dual_form is_min s =
    match meaning_of dual_form s with
    | Optimum => (Solved, RObjective (negb is_min), true)
    | Infeasible => (Solved, (if is_min then RPlusInf else RMinusInf), false)
    | Unbounded => (Solved, (if is_min then RMinusInf else RPlusInf), false)
    | Unknown => (Failed, RNaN, false)
    end.

(* ---- primal versus dual form ---- *)
Definition mosek_slack_dim (K : list cone) : nat :=
  fold_right (fun co acc => (if existsb (ctag_eqb (fst co)) mosek_slack_types then snd co else 0) + acc) 0 K.

Definition mosek_decide_stmt : Prop :=
  (forall dz dv sd n, mosek_decide_dual true dz dv sd n = false) /\         (* integer constraints: always primal *)
  (forall dv sd n, mosek_decide_dual false true dv sd n = dv) /\            (* the user's choice is respected *)
  (forall dv n K, mosek_decide_dual false false dv (mosek_slack_dim K) n = decide_dual n K) /\
  (forall K, mosek_slack_dim K =
             fold_right (fun co acc => (if ctag_eqb (fst co) TExp || ctag_eqb (fst co) TSoc then snd co else 0) + acc) 0 K).
