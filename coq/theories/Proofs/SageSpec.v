(* Proofs/SageSpec.v — statements of the C01 / C02 / C03(core) / C19 theorems about Model/Sage.v:
   the rows emitted for primal and dual SAGE constraints. *)
From Coq Require Import Reals List Bool Arith ZArith QArith Qreals Lra.
From SageVerif Require Import Math.RVec Model.Expr Model.SolverForms Model.Compile Model.Sage
                              Proofs.ExprSpec Proofs.FormsSpec Proofs.CompileSpec.
Import ListNotations.
Open Scope R_scope.

Definition aR (alpha : list (list Q)) : list (list R) := map (map Q2R) alpha.
Definition cvals (rho : env) (c : list sexpr) : list R := map (value rho) c.

(* z is a point of X in lifted coordinates: z = [x; w] with A z + b in K (X = R^n when None) *)
Definition in_X (lifted_n : nat) (X : option domain) (z : list R) : Prop :=
  length z = lifted_n /\
  match X with
  | None => True
  | Some D => in_K (semK (dK D)) (vadd (mv (aR (dA D)) z) (map Q2R (db D)))
  end.

(* value at x = firstn n z of the signomial with coefficients cv over exponents alpha *)
Definition sig_at (n : nat) (alpha : list (list Q)) (cv : list R) (z : list R) : R :=
  sigeval (aR alpha) cv (firstn n z).

(* ---- well-formedness of the observed inputs ---- *)
Definition cover_ok (m i : nat) (cov : list bool) : Prop := length cov = m /\ nth i cov false = false.

Definition dom_ok (n lifted_n : nat) (X : option domain) : Prop :=
  match X with
  | None => lifted_n = n
  | Some D => (n <= lifted_n)%nat /\ Forall (fun r => length r = lifted_n) (dA D) /\
              length (db D) = length (dA D) /\ SolverForms.Ksize (dK D) = length (dA D) /\ okK (dK D)
  end.

Definition UI (c : list sexpr) : list nat := indices_where in_UI c.

Definition pids_ok (m : nat) (c : list sexpr) (X : option domain) (covers : nat -> list bool) (ids : nat -> age_ids) : Prop :=
  (forall i, In i (UI c) ->
     cover_ok m i (covers i) /\
     length (a_nu (ids i)) = length (cover_idx (covers i)) /\
     length (a_epi (ids i)) = length (cover_idx (covers i)) /\
     length (a_eta (ids i)) = match X with Some D => length (dA D) | None => 0%nat end /\
     length (a_c (ids i)) = (length (cover_idx (covers i)) + (if in_NI (nth i c (sconst 0%Q)) then 0 else 1))%nat /\
     (* an N_I index with an empty cover is rejected at construction (c_len = 0) *)
     (in_NI (nth i c (sconst 0%Q)) = true -> cover_idx (covers i) <> [])) /\
  (* the c^{(i)} variables are pairwise distinct scalar variables *)
  NoDup (flat_map (fun i => a_c (ids i)) (UI c)).

Definition primal_wf (n lifted_n : nat) (alpha : list (list Q)) (c : list sexpr) (X : option domain)
           (covers : nat -> list bool) (ids : nat -> age_ids) : Prop :=
  Forall (fun r => length r = n) alpha /\ length c = length alpha /\
  Forall affine_cell c /\ dom_ok n lifted_n X /\ pids_ok (length alpha) c X covers ids.

(* ---- C01: a satisfied primal SAGE constraint certifies nonnegativity on X ---- *)
Definition primal_rows_sound_stmt : Prop :=
  forall n lifted_n alpha c X covers ids st dummy bs rho,
    primal_wf n lifted_n alpha c X covers ids ->
    primal_blocks n lifted_n alpha c X covers ids st dummy = Some bs ->
    blocks_sat rho bs ->
    forall z, in_X lifted_n X z -> 0 <= sig_at n alpha (cvals rho c) z.

(* the exposed certificate: the AGE vectors sum to at most c, have at most one negative entry
   (their own index), and each defines a signomial nonnegative on X *)
Definition age_vals (rho : env) (alpha : list (list Q)) (c : list sexpr) (covers : nat -> list bool)
           (ids : nat -> age_ids) (i : nat) : list R :=
  map (value rho) (age_vector (length alpha) i (nth i c (sconst 0%Q)) (in_NI (nth i c (sconst 0%Q)))
                              (cover_idx (covers i)) (a_c (ids i))).

Definition vsum (m : nat) (vs : list (list R)) : list R :=
  map (fun j => rsum (map (fun v => nth j v 0) vs)) (seq 0 m).

Definition primal_certificate_stmt : Prop :=
  forall n lifted_n alpha c X covers ids st dummy bs rho,
    primal_wf n lifted_n alpha c X covers ids ->
    (2 <= length alpha)%nat ->
    (exists i, In i (UI c) /\ cover_idx (covers i) <> []) ->
    primal_blocks n lifted_n alpha c X covers ids st dummy = Some bs ->
    blocks_sat rho bs ->
    let m := length alpha in
    (* sum of the AGE vectors <= c, componentwise *)
    (forall j, (j < m)%nat ->
       nth j (vsum m (map (age_vals rho alpha c covers ids) (UI c))) 0 <= nth j (cvals rho c) 0) /\
    (* each AGE vector: nonnegative off its own index, and nonnegative signomial on X *)
    (forall i, In i (UI c) ->
       (forall j, (j < m)%nat -> j <> i -> 0 <= nth j (age_vals rho alpha c covers ids i) 0) /\
       (forall z, in_X lifted_n X z -> 0 <= sig_at n alpha (age_vals rho alpha c covers ids i) z)).

(* ---- C19: forcing equality of the AGE sum only restricts the feasible set ---- *)
Definition force_equality_restricts_stmt : Prop :=
  forall n lifted_n alpha c X covers ids dummy bs0 bs1 rho,
    primal_blocks n lifted_n alpha c X covers ids {| force_equality := true |} dummy = Some bs1 ->
    primal_blocks n lifted_n alpha c X covers ids {| force_equality := false |} dummy = Some bs0 ->
    blocks_sat rho bs1 -> blocks_sat rho bs0.

(* ---- C02: the dual SAGE constraint admits every moment vector of X ---- *)
Definition dual_wf (n lifted_n : nat) (alpha : list (list Q)) (v : list sexpr) (c : option (list sexpr)) (X : option domain)
           (covers : nat -> list bool) (ids : nat -> dual_ids) : Prop :=
  Forall (fun r => length r = n) alpha /\ length v = length alpha /\ Forall affine_cell v /\
  dom_ok n lifted_n X /\
  match c with Some cc => length cc = length alpha | None => True end /\
  (forall i, (i < length alpha)%nat ->
     cover_ok (length alpha) i (covers i) /\ length (d_mu (ids i)) = lifted_n /\
     length (d_epi (ids i)) = length (cover_idx (covers i))).

(* rho assigns v the moment vector t*exp(alpha x) and the auxiliaries the values of the statement *)
Definition moment_assignment (n : nat) (alpha : list (list Q)) (v : list sexpr)
           (covers : nat -> list bool) (ids : nat -> dual_ids) (t : R) (z : list R) (rho : env) : Prop :=
  let m := length alpha in
  (forall j, (j < m)%nat -> value rho (nth j v (sconst 0%Q)) = t * exp (dot (nth j (aR alpha) []) (firstn n z))) /\
  (forall i, (i < m)%nat ->
     (* mu_i = v_i * [x; w] *)
     map rho (d_mu (ids i)) = vscale (value rho (nth i v (sconst 0%Q))) z /\
     (* epigraph variables of the non-compact form: epi_ij = (alpha_i - alpha_j) . mu_i *)
     map rho (d_epi (ids i)) =
       map (fun j => dot (vsub (nth i (aR alpha) []) (nth j (aR alpha) []))
                         (vscale (value rho (nth i v (sconst 0%Q))) (firstn n z)))
           (cover_idx (covers i))).

Definition dual_rows_admit_moments_stmt : Prop :=
  forall n lifted_n alpha v c X covers ids st dummy rho t z,
    dual_wf n lifted_n alpha v c X covers ids ->
    0 <= t -> in_X lifted_n X z ->
    moment_assignment n alpha v covers ids t z rho ->
    blocks_sat rho (dual_blocks n lifted_n alpha v c X covers ids st dummy).

(* every solution of the dual rows has v >= 0 on the indices that matter *)
Definition dual_rows_v_nonneg_stmt : Prop :=
  forall n lifted_n alpha v X covers ids st dummy rho,
    (2 <= length alpha)%nat -> length v = length alpha -> Forall affine_cell v ->
    blocks_sat rho (dual_blocks n lifted_n alpha v None X covers ids st dummy) ->
    forall j, (j < length alpha)%nat -> 0 <= value rho (nth j v (sconst 0%Q)).

(* C19: compact and epigraph forms of the dual rows have the same projection onto (v, mu) *)
Definition compact_iff_epigraph_stmt : Prop :=
  forall n lifted_n alpha v c X covers ids dummy rho,
    dual_wf n lifted_n alpha v c X covers ids ->
    (* epigraph variables are fresh: they do not occur in v or among the mu's, and are pairwise distinct *)
    NoDup (flat_map (fun i => d_epi (ids i)) (seq 0 (length alpha))) ->
    (forall i e, (i < length alpha)%nat -> In e (d_epi (ids i)) ->
       (forall k, (k < length alpha)%nat -> ~ In e (d_mu (ids k))) /\
       (forall j, (j < length alpha)%nat -> ~ In e (scalar_variable_ids (nth j v (sconst 0%Q))))) ->
    (blocks_sat rho (dual_blocks n lifted_n alpha v c X covers ids {| compact_dual := true |} dummy) <->
     exists rho', (forall id, (forall i, (i < length alpha)%nat -> ~ In id (d_epi (ids i))) -> rho' id = rho id) /\
                  blocks_sat rho' (dual_blocks n lifted_n alpha v c X covers ids {| compact_dual := false |} dummy)).

(* ---- C03 core: weak duality between the primal and the dual rows over the same (alpha, X) ---- *)
Definition sage_pairing_stmt : Prop :=
  forall n lifted_n alpha c X pcov pids pst v dcov dids dst dummy1 dummy2 bs rho_p rho_d,
    primal_wf n lifted_n alpha c X pcov pids ->
    dual_wf n lifted_n alpha v (Some c) X dcov dids ->
    (* the dual covers contain the primal covers *)
    (forall i j, In i (UI c) -> nth j (pcov i) false = true -> nth j (dcov i) false = true) ->
    primal_blocks n lifted_n alpha c X pcov pids pst dummy1 = Some bs ->
    blocks_sat rho_p bs ->
    blocks_sat rho_d (dual_blocks n lifted_n alpha v (Some c) X dcov dids dst dummy2) ->
    (* c is numeric-or-not arbitrary on the primal side; the dual side saw the same classification *)
    0 <= dot (cvals rho_p c) (cvals rho_d v).
