(* Proofs/GenRowsSpec.v — the per-cell row loops of ElementwiseConstraint.conic_form, PrimalProductCone.conic_form and DualProductCone.conic_form
   regenerated from the source (Gen/GenRows.v), with the signs the source writes, are the model's row_of (rows of -expr for an elementwise constraint,
   rows of y for the product cones), hence the elementwise block is the model's econ_block: the C07 theorems about blocks of rows are theorems about
   the generated loops. *)
From Coq Require Import List Bool Arith ZArith QArith.
From SageVerif Require Import Model.SolverForms Model.Expr Model.Compile Gen.GenRows.
Import ListNotations.

Definition gen_row_elementwise_equiv_stmt : Prop := forall dummy e, gen_row_elementwise dummy e = row_of dummy true e.
Definition gen_row_product_equiv_stmt : Prop :=
  forall dummy e, gen_row_primal_product dummy e = prow dummy e /\ gen_row_dual_product dummy e = prow dummy e.
Definition gen_econ_block_equiv_stmt : Prop := forall dummy c, gen_econ_block dummy c = econ_block dummy c.
