(* Proofs/SigTree.v — expression trees: the interpreter denotes the pointwise value. *)
From Coq Require Import Reals List Bool Arith ZArith QArith Qreals Lra Lia Qabs.
From SageVerif Require Import Math.RVec Model.Signomial Model.SigExpr Proofs.SigSpec
  Proofs.SigLemmas Proofs.SigRound Proofs.SigMk Proofs.SigOps Proofs.SigPow.
Import ListNotations.
Local Open Scope R_scope.

(* monomials *)
Definition unit_from (i s n : nat) : qrow := map (fun j => if Nat.eqb i j then 1%Q else 0%Q) (seq s n).

Lemma unit_row_from : forall n i, unit_row n i = unit_from i 0 n.
Proof. reflexivity. Qed.

Lemma unit_from_S : forall i s n,
  unit_from i s (S n) = (if Nat.eqb i s then 1%Q else 0%Q) :: unit_from i (S s) n.
Proof. reflexivity. Qed.

Lemma dot_unit_zero : forall n i s x, (i < s)%nat -> dot (rowR (unit_from i s n)) x = 0.
Proof.
  induction n; intros i s x H; [reflexivity|]. rewrite unit_from_S.
  destruct x; [reflexivity|]. unfold rowR in *. cbn [map dot].
  rewrite IHn by lia. replace (Nat.eqb i s) with false by (symmetry; apply Nat.eqb_neq; lia).
  rewrite Q2R_0'. lra.
Qed.

Lemma dot_unit : forall n i s x, length x = n -> (s <= i < s + n)%nat ->
  dot (rowR (unit_from i s n)) x = nth (i - s) x 0.
Proof.
  induction n; intros i s x Hx H; [lia|]. rewrite unit_from_S.
  destruct x as [|v x]; [discriminate|]. simpl in Hx. unfold rowR in *. cbn [map dot].
  destruct (Nat.eqb i s) eqn:E.
  - apply Nat.eqb_eq in E. subst i. pose proof (dot_unit_zero n s (S s) x) as Z.
    unfold rowR in Z. rewrite Z by lia. rewrite Nat.sub_diag, Q2R_1'. simpl. lra.
  - apply Nat.eqb_neq in E. rewrite IHn by lia. rewrite Q2R_0'.
    replace (i - s)%nat with (S (i - S s)) by lia. simpl. lra.
Qed.

Lemma unit_from_grid : forall n i s, on_grid_row (unit_from i s n).
Proof.
  induction n; intros; [constructor|]. rewrite unit_from_S. constructor.
  - destruct (Nat.eqb i s); [apply on_grid_1|apply on_grid_0].
  - apply IHn.
Qed.

Lemma unit_from_length : forall n i s, length (unit_from i s n) = n.
Proof. intros. unfold unit_from. now rewrite map_length, seq_length. Qed.

Lemma mono_full : forall n i x, (i < n)%nat -> length x = n ->
  sig_evalR (q_mk [(unit_row n i, 1%Q)]) x = exp (nth i x 0) /\ good n (q_mk [(unit_row n i, 1%Q)]).
Proof.
  intros n i x Hi Hx.
  assert (Hw : wfsig n [(unit_row n i, 1%Q)]).
  { constructor; [|constructor]. simpl. rewrite unit_row_from. split.
    - apply unit_from_length.
    - apply unit_from_grid. }
  split.
  - rewrite (mk_eval_grid n) by assumption. rewrite sig_evalR_single, unit_row_from, dot_unit; auto; [|lia].
    rewrite Nat.sub_0_r, Q2R_1'. lra.
  - apply mk_good; auto. discriminate.
Qed.

Lemma Some_inj : forall {A} (a b : A), Some a = Some b -> a = b.
Proof. intros A a b H. now injection H. Qed.

Lemma chk_false : forall f, chk false f = Some f.
Proof. reflexivity. Qed.

Definition den (n : nat) (e : sexp) (x : list R) (f : qsig) : Prop :=
  sig_evalR f x = sem n e x /\ good n f.

Lemma pow_neg_m1 : forall n f g x, good n f -> q_pow_neg f (-1) = Some g ->
  sig_evalR g x = / sig_evalR f x /\ good n g.
Proof.
  intros n f g x [Hw _] E. pose proof (pow_neg_full n (-1) f x Hw ltac:(lia)) as H.
  rewrite E in H. destruct H as [[a [c [_ He]]] Hg]. split; auto.
  rewrite He. simpl. now rewrite Rmult_1_r.
Qed.

Lemma tree_sem_den : forall n e x, length x = n -> forall f, wfexp n e -> eval false n e = Some f -> den n e x f.
Proof.
  intros n e x Hx. unfold den.
  induction e; intros f Hwf Hev; cbn [eval wfexp] in Hwf, Hev;
    repeat match type of Hev with
    | bind (eval false ?m ?a) _ = Some _ =>
        let fa := fresh "fa" in let Ea := fresh "Ea" in
        destruct (eval false m a) as [fa|] eqn:Ea; cbn [bind] in Hev; [|discriminate]
    end;
    try rewrite chk_false in Hev.
  - (* SMono *) apply Some_inj in Hev; subst f. cbn [sem]. now apply mono_full.
  - (* SLit *) apply Some_inj in Hev; subst f. destruct Hwf as [Hne Hl]. simpl. split.
    + apply mk_eval.
    + split; [|split]; [now apply mk_wf|apply mk_distinct|now apply mk_nonempty].
  - (* SAdd *) destruct Hwf as [W1 W2]. destruct (IHe1 _ W1 eq_refl) as [E1 [Hw1 [Hd1 Hn1]]].
    destruct (IHe2 _ W2 eq_refl) as [E2 [Hw2 [Hd2 Hn2]]]. apply Some_inj in Hev; subst f. cbn [sem].
    rewrite (add_eval n), E1, E2; auto. split; auto. now apply add_good.
  - (* SSub *) destruct Hwf as [W1 W2]. destruct (IHe1 _ W1 eq_refl) as [E1 [Hw1 [Hd1 Hn1]]].
    destruct (IHe2 _ W2 eq_refl) as [E2 [Hw2 [Hd2 Hn2]]]. apply Some_inj in Hev; subst f. cbn [sem].
    rewrite (sub_eval n), E1, E2; auto. split; auto. now apply sub_good.
  - (* SMul *) destruct Hwf as [W1 W2]. destruct (IHe1 _ W1 eq_refl) as [E1 [Hw1 [Hd1 Hn1]]].
    destruct (IHe2 _ W2 eq_refl) as [E2 [Hw2 [Hd2 Hn2]]]. apply Some_inj in Hev; subst f. cbn [sem].
    rewrite (mul_eval n), E1, E2; auto. split; auto. now apply mul_good.
  - (* SDiv *) destruct Hwf as [W1 W2]. destruct (IHe1 _ W1 eq_refl) as [E1 [Hw1 [Hd1 Hn1]]].
    destruct (IHe2 _ W2 eq_refl) as [E2 G2].
    destruct (q_pow_neg fa0 (-1)) as [ib|] eqn:P; cbn [bind] in Hev; [|discriminate].
    destruct (pow_neg_m1 n fa0 ib x G2 P) as [E3 [Hw3 [Hd3 Hn3]]].
    apply Some_inj in Hev; subst f. cbn [sem].
    rewrite (mul_eval n), E1, E3, E2; auto. split; auto. now apply mul_good.
  - (* SNeg *) destruct (IHe _ Hwf eq_refl) as [E1 [Hw1 [Hd1 Hn1]]]. apply Some_inj in Hev; subst f. cbn [sem].
    rewrite (neg_eval n), E1; auto. split; auto. rewrite q_neg_unfold. now apply scale_good.
  - (* SAddQ *) destruct (IHe _ Hwf eq_refl) as [E1 [Hw1 [Hd1 Hn1]]]. apply Some_inj in Hev; subst f. cbn [sem].
    rewrite (add_scalar_eval n), E1; auto. split; auto. now apply add_scalar_good.
  - (* SRAddQ *) destruct (IHe _ Hwf eq_refl) as [E1 [Hw1 [Hd1 Hn1]]]. apply Some_inj in Hev; subst f. cbn [sem].
    rewrite (add_scalar_eval n), E1; auto. split; auto. now apply add_scalar_good.
  - (* SSubQ *) destruct (IHe _ Hwf eq_refl) as [E1 [Hw1 [Hd1 Hn1]]]. apply Some_inj in Hev; subst f. cbn [sem].
    rewrite (add_scalar_eval n), E1; auto. rewrite Q2R_Qred, Q2R_opp. split; [lra|]. now apply add_scalar_good.
  - (* SRSubQ *) destruct (IHe _ Hwf eq_refl) as [E1 [Hw1 [Hd1 Hn1]]]. apply Some_inj in Hev; subst f. cbn [sem].
    destruct (scale_good n (-1) fa Hw1 Hn1) as [_ [Hw2 [Hd2 Hn2]]].
    rewrite (add_scalar_eval n), (scale_eval n), Q2R_m1, E1; auto. split; [lra|]. now apply add_scalar_good.
  - (* SMulQ *) destruct (IHe _ Hwf eq_refl) as [E1 [Hw1 [Hd1 Hn1]]]. apply Some_inj in Hev; subst f. cbn [sem].
    rewrite (scale_eval n), E1; auto. split; [lra|]. now apply scale_good.
  - (* SDivQ *) destruct (Qeq_bool q 0) eqn:Q0; [discriminate|].
    destruct (eval false n e) as [fa|] eqn:Ea; cbn [bind] in Hev; [|discriminate].
    rewrite chk_false in Hev.
    destruct (IHe _ Hwf eq_refl) as [E1 [Hw1 [Hd1 Hn1]]]. apply Some_inj in Hev; subst f. cbn [sem].
    apply Qeq_bool_neq in Q0.
    rewrite (scale_eval n), E1, Q2R_Qred, Q2R_inv; auto. split; [unfold Rdiv; lra|]. now apply scale_good.
  - (* SRDivQ *) destruct (IHe _ Hwf eq_refl) as [E1 G1].
    destruct (q_pow_neg fa (-1)) as [ia|] eqn:P; cbn [bind] in Hev; [|discriminate].
    rewrite chk_false in Hev.
    destruct (pow_neg_m1 n fa ia x G1 P) as [E3 [Hw3 [Hd3 Hn3]]].
    apply Some_inj in Hev; subst f. cbn [sem].
    rewrite (scale_eval n), E3, E1; auto. split; [unfold Rdiv; lra|]. now apply scale_good.
  - (* SPow *) destruct (IHe _ Hwf eq_refl) as [E1 G1]. cbn [sem].
    destruct (0 <=? p)%Z eqn:Pp.
    + try rewrite chk_false in Hev. apply Some_inj in Hev; subst f.
      destruct (pow_nat_full n (Z.to_nat p) fa x G1) as [E2 G2]. rewrite E2, E1. split; auto.
    + apply Z.leb_gt in Pp. destruct G1 as [Hw1 [Hd1 Hn1]].
      pose proof (pow_neg_full n p fa x Hw1 Pp) as H.
      destruct (q_pow_neg fa p) as [r|]; cbn [bind] in Hev; [|discriminate].
      try rewrite chk_false in Hev. apply Some_inj in Hev; subst f.
      destruct H as [[a [c [_ He]]] Hg]. rewrite He, E1. split; auto.
  - (* SWithoutZeros *) destruct (IHe _ Hwf eq_refl) as [E1 [Hw1 [Hd1 Hn1]]]. apply Some_inj in Hev; subst f. cbn [sem].
    rewrite without_zeros_eval, E1; auto. split; auto.
    destruct (without_zeros_ok n fa Hw1 Hd1) as [Hok Hne]. apply result_ok_good; auto.
Qed.

Lemma tree_sem : tree_sem_stmt.
Proof.
  intros n e f x Hwf Hx Hev. exact (tree_sem_den n e x Hx f Hwf Hev).
Qed.
