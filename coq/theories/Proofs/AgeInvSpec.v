(* Proofs/AgeInvSpec.v — statements of the C06 theorems: invariances of AGE certificates (hence of the
   level-0 SAGE bound) and the closed-form circuit case.  An ordinary AGE certificate for the signomial
   c_i e^{alpha_i.x} + sum_j c_j e^{alpha_j.x}  is a witness (nu, epi) of the rows proved sound in C01. *)
From Coq Require Import Reals List Lra.
From SageVerif Require Import Math.RVec Proofs.MathSpec.
Import ListNotations.
Open Scope R_scope.

Definition age_cert (n : nat) (alpha_i : list R) (alphaJ : list (list R)) (ci : R) (cJ : list R) : Prop :=
  exists nu epi,
    0 <= ci - rsum epi /\
    Forall3 (fun e c v => Kexp (- e) (exp 1 * c) v) epi cJ nu /\
    length alphaJ = length nu /\
    tmv n (map (fun r => vsub r alpha_i) alphaJ) nu = vzero n.

(* a certificate certifies nonnegativity (restating C01's mathematical core for reference) *)
Definition age_cert_sound_stmt : Prop :=
  forall n alpha_i alphaJ ci cJ, length alpha_i = n -> wfm n alphaJ ->
    age_cert n alpha_i alphaJ ci cJ ->
    forall z, length z = n -> 0 <= ci * exp (dot alpha_i z) + sigeval alphaJ cJ z.

(* bound(a*f + k) = a*bound(f) + k for a > 0 rests on: certificates scale by a >= 0 *)
Definition age_cert_scale_stmt : Prop :=
  forall n alpha_i alphaJ ci cJ a, 0 <= a ->
    age_cert n alpha_i alphaJ ci cJ -> age_cert n alpha_i alphaJ (a * ci) (map (Rmult a) cJ).

(* coefficients may only grow *)
Definition age_cert_mono_stmt : Prop :=
  forall n alpha_i alphaJ ci cJ ci' cJ', ci <= ci' -> Forall2 Rle cJ cJ' ->
    age_cert n alpha_i alphaJ ci cJ -> age_cert n alpha_i alphaJ ci' cJ'.

(* translating x by x0 multiplies each coefficient by e^{alpha.x0}: certificates are carried along *)
Definition age_cert_translate_stmt : Prop :=
  forall n alpha_i alphaJ ci cJ x0, length alpha_i = n -> wfm n alphaJ -> length x0 = n -> length cJ = length alphaJ ->
    age_cert n alpha_i alphaJ ci cJ ->
    age_cert n alpha_i alphaJ (ci * exp (dot alpha_i x0))
             (map (fun ca => fst ca * exp (dot (snd ca) x0)) (combine cJ alphaJ)).

(* a linear change of variables x = M y replaces every exponent a by M^T a (here: rows of M act on exponents) *)
Definition age_cert_linear_stmt : Prop :=
  forall n k alpha_i alphaJ ci cJ (M : list (list R)), length alpha_i = n -> wfm n alphaJ ->
    length M = k -> wfm n M ->
    age_cert n alpha_i alphaJ ci cJ ->
    age_cert k (mv M alpha_i) (map (mv M) alphaJ) ci cJ.

(* permuting the terms of the cover *)
Definition age_cert_swap_stmt : Prop :=
  forall n alpha_i a1 a2 aJ ci c1 c2 cJ, length alpha_i = n -> length a1 = n -> length a2 = n -> wfm n aJ ->
    age_cert n alpha_i (a1 :: a2 :: aJ) ci (c1 :: c2 :: cJ) ->
    age_cert n alpha_i (a2 :: a1 :: aJ) ci (c2 :: c1 :: cJ).

(* circuit signomials (weighted AM/GM): if alpha_0 = sum lambda_j alpha_j with lambda in the open simplex and
   c_j > 0, then a certificate exists whenever beta <= Theta := prod (c_j / lambda_j)^{lambda_j} *)
Definition circuit_number (cJ lam : list R) : R :=
  exp (rsum (map (fun cl => snd cl * ln (fst cl / snd cl)) (combine cJ lam))).

Definition circuit_cert_exists_stmt : Prop :=
  forall n alpha_0 alphaJ cJ lam beta,
    length alpha_0 = n -> wfm n alphaJ -> length cJ = length alphaJ -> length lam = length alphaJ ->
    Forall (fun c => 0 < c) cJ -> Forall (fun l => 0 < l) lam -> rsum lam = 1 ->
    tmv n (map (fun r => vsub r alpha_0) alphaJ) lam = vzero n ->
    beta <= circuit_number cJ lam ->
    age_cert n alpha_0 alphaJ (- beta) cJ.

(* hence the weighted AM/GM inequality for signomials, at every point *)
Definition circuit_amgm_stmt : Prop :=
  forall n alpha_0 alphaJ cJ lam z,
    length alpha_0 = n -> wfm n alphaJ -> length cJ = length alphaJ -> length lam = length alphaJ ->
    Forall (fun c => 0 < c) cJ -> Forall (fun l => 0 < l) lam -> rsum lam = 1 ->
    tmv n (map (fun r => vsub r alpha_0) alphaJ) lam = vzero n -> length z = n ->
    circuit_number cJ lam * exp (dot alpha_0 z) <= sigeval alphaJ cJ z.

(* converse under the solvability hypothesis: if the signomial is nonnegative and the balancing point exists,
   beta is at most the circuit number (so the level-0 bound equals the closed form) *)
Definition circuit_exact_stmt : Prop :=
  forall n alpha_0 alphaJ cJ lam beta xs,
    length alpha_0 = n -> wfm n alphaJ -> length cJ = length alphaJ -> length lam = length alphaJ ->
    Forall (fun c => 0 < c) cJ -> Forall (fun l => 0 < l) lam -> rsum lam = 1 -> length xs = n ->
    (* the point where all terms are balanced: (alpha_j - alpha_0).x* = ln(lambda_j Theta / c_j) *)
    Forall2 (fun a cl => dot (vsub a alpha_0) xs = ln (snd cl * circuit_number cJ lam / fst cl)) alphaJ (combine cJ lam) ->
    (forall z, length z = n -> 0 <= - beta * exp (dot alpha_0 z) + sigeval alphaJ cJ z) ->
    beta <= circuit_number cJ lam.
