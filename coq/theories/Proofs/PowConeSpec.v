(* Proofs/PowConeSpec.v — what the rows emitted for a PowCone constraint mean. *)
From Coq Require Import List Bool Arith ZArith QArith Qabs Reals Lia.
From SageVerif Require Import Model.Expr Model.SolverForms Model.Compile Model.PowCone Proofs.ExprSpec Proofs.CompileSpec.
Import ListNotations.
Close Scope Q_scope.
Open Scope R_scope.

(* x^a for x >= 0 and a > 0 (0^a = 0) *)
Definition rpow (x a : R) : R := if Req_EM_T x 0 then 0 else Rpower x a.
Fixpoint prodpow (ws alpha : list R) : R :=
  match ws, alpha with
  | x :: ws', a :: alpha' => rpow x a * prodpow ws' alpha'
  | _, _ => 1
  end.

(* the power cone with weights alpha: { (w, z) : w >= 0, |z| <= prod_i w_i^alpha_i }, z LAST (the order MOSEK and coniclifts use) *)
Definition in_pow (alpha : list R) (v : list R) : Prop :=
  exists ws z, v = ws ++ [z] /\ length ws = length alpha /\ Forall (fun x => 0 <= x) ws /\ Rabs z <= prodpow ws alpha.

(* PowCone(w, lamb) with lamb = l1 ++ [lk] ++ l2, lk < 0 < every other entry:  prod_{i <> k} w_i ^ (lamb_i / |lamb_k|) >= |w_k|, w_i >= 0 *)
Definition pow_block_iff_stmt : Prop :=
  forall rho dummy w1 wk w2 l1 lk l2,
    length w1 = length l1 -> length w2 = length l2 ->
    Forall (fun l => (0 < l)%Q) l1 -> Forall (fun l => (0 < l)%Q) l2 -> (lk < 0)%Q ->
    (Qabs (qsum (l1 ++ lk :: l2)) <= pow_tol)%Q ->
    Forall affine_cell (w1 ++ wk :: w2) ->
    exists rows wt,
      pow_conic_form dummy (w1 ++ wk :: w2) (l1 ++ lk :: l2) = PowOk [(TPow, length (w1 ++ wk :: w2))] rows wt /\
      length rows = length (w1 ++ wk :: w2) /\
      wt = map (fun l => Qred (l / Qabs lk)%Q) (l1 ++ l2) /\
      (* the z row is the LAST row, the w rows keep their order *)
      map (rrow_val rho) rows = map (value rho) (w1 ++ w2) ++ [value rho wk] /\
      (in_pow (map Q2R wt) (map (rrow_val rho) rows) <->
       (Forall (fun e => 0 <= value rho e) (w1 ++ w2) /\
        Rabs (value rho wk) <= prodpow (map (value rho) (w1 ++ w2)) (map (fun l => Q2R l / Rabs (Q2R lk)) (l1 ++ l2)))).

(* the weights are positive, and they sum to one exactly when lamb sums to zero *)
Definition pow_weights_stmt : Prop :=
  forall l1 lk l2,
    Forall (fun l => (0 < l)%Q) l1 -> Forall (fun l => (0 < l)%Q) l2 -> (lk < 0)%Q ->
    let wt := map (fun l => Qred (l / Qabs lk)%Q) (l1 ++ l2) in
    Forall (fun a => (0 < a)%Q) wt /\
    ((qsum (l1 ++ lk :: l2) == 0)%Q -> (qsum wt == 1)%Q).

(* the constructor's refusals *)
Definition pow_errors_stmt : Prop :=
  forall dummy w lamb,
    (length w <> length lamb -> pow_conic_form dummy w lamb = PowValueError) /\
    (length w = length lamb -> Forall (fun l => (0 < l)%Q) lamb -> pow_conic_form dummy w lamb = PowValueError) /\
    (length w = length lamb -> (pow_tol < Qabs (qsum lamb))%Q -> pow_conic_form dummy w lamb = PowValueError).
