(* Proofs/RelaxConEllSpec.v — C04, PRIMAL FORM at every level ell: sig_constrained_primal multiplies the Lagrangian by the
   modulator t = (sum of exp(alpha.x) over E_1)^ell, a signomial that is positive everywhere, and asks the PRODUCT to be SAGE.
   If the product and all inequality multipliers satisfy their SAGE constraints, gamma is a lower bound of f on the feasible set. *)
From Coq Require Import Reals List Bool Arith ZArith QArith Qreals Lra.
From SageVerif Require Import Math.RVec Model.Expr Model.Signomial Model.SymSig Model.SolverForms Model.Compile Model.Sage
                              Model.RelaxSig Model.RelaxCon
                              Proofs.ExprSpec Proofs.SigSpec Proofs.SymCorrSpec Proofs.SymSigSpec Proofs.FormsSpec
                              Proofs.CompileSpec Proofs.SageSpec Proofs.RelaxSpec Proofs.RelaxConSpec.
Import ListNotations.
Open Scope R_scope.

(* the modulated Lagrangian as the implementation computes it: lagrangian * modulator (symbolic times numeric product) *)
Definition modulated_lagrangian (n : nat) (f : qsig) (g : Z) (E : list qrow)
           (gts eqs : list (qsig * list Z)) (t : qsig) : option ssig :=
  seval false n (YMul (lagrangian_tree f g E gts eqs) (YNum t)).

(* its value is the value of the Lagrangian times the value of the modulator, for every assignment and every character *)
Definition modulated_lagrangian_value_stmt : Prop :=
  forall n chi rho f g E gts eqs t L Lm,
    character n chi -> chi (repeat 0%Q n) = 1 ->
    fwf n f -> E_ok n E -> cons_ok n E gts -> cons_ok n E eqs -> fwf n t ->
    make_sig_lagrangian n f g E gts eqs = Some L ->
    modulated_lagrangian n f g E gts eqs t = Some Lm ->
    sevalchi chi rho Lm = sevalchi chi rho L * evalchi chi t.

(* PRIMAL FORM, any modulator that is positive on X (in particular t = (sum_E exp)^ell, ell >= 0) *)
Definition constrained_primal_sound_ell_stmt : Prop :=
  forall n lifted_n f g E gts eqs t L Lm X rho,
    fwf n f -> E_ok n E -> cons_ok n E gts -> cons_ok n E eqs -> fwf n t ->
    make_sig_lagrangian n f g E gts eqs = Some L ->
    modulated_lagrangian n f g E gts eqs t = Some Lm ->
    sage_feasible n lifted_n (map fst Lm) (map snd Lm) X rho ->
    (forall gi, In gi gts -> sage_feasible n lifted_n E (map svar (snd gi)) X rho) ->
    forall z, in_X lifted_n X z -> 0 < sig_evalR t (firstn n z) ->
      (forall gi, In gi gts -> 0 <= sig_evalR (fst gi) (firstn n z)) ->
      (forall hi, In hi eqs -> sig_evalR (fst hi) (firstn n z) = 0) ->
      rho g <= sig_evalR f (firstn n z).

(* the modulator of the reference hierarchy, ones on a nonempty list of exponents raised to a power, is positive everywhere *)
Definition ones_sig (rows : list qrow) : qsig := map (fun r => (r, 1%Q)) rows.
Definition ones_pow_pos_stmt : Prop :=
  forall n rows ell x, rows <> [] -> Forall (fun r => length r = n) rows -> length x = n ->
    0 < (sig_evalR (ones_sig rows) x) ^ ell.
