(* Proofs/Gf2Proofs.v — the C18 theorems, one lemma per statement of Gf2Spec.v.
   The proofs live in Gf2Lemmas / Gf2Rref / Gf2Solve / Gf2Null / Gf2Signs. *)
From SageVerif Require Import Model.Gf2 Proofs.Gf2Spec.
From SageVerif Require Export Proofs.Gf2Lemmas Proofs.Gf2Rref Proofs.Gf2Solve
  Proofs.Gf2Null Proofs.Gf2Signs.

Lemma rref_shape : rref_shape_stmt.
Proof. exact rref_shape_holds. Qed.

Lemma rref_rowspace : rref_rowspace_stmt.
Proof. exact rref_rowspace_holds. Qed.

Lemma rref_kernel : rref_kernel_stmt.
Proof. exact rref_kernel_holds. Qed.

Lemma rref_echelon : rref_echelon_stmt.
Proof. exact rref_echelon_holds. Qed.

Lemma rref_reduced : rref_reduced_stmt.
Proof. exact rref_reduced_holds. Qed.

Lemma linsolve_sound : linsolve_sound_stmt.
Proof. exact linsolve_sound_holds. Qed.

Lemma linsolve_complete : linsolve_complete_stmt.
Proof. exact linsolve_complete_holds. Qed.

Lemma nullspace_exact : nullspace_exact_stmt.
Proof. exact nullspace_exact_holds. Qed.

Lemma signs_sound : signs_sound_stmt.
Proof. exact signs_sound_holds. Qed.

Lemma signs_complete : signs_complete_stmt.
Proof. exact signs_complete_holds. Qed.

Lemma signs_none_iff : signs_none_iff_stmt.
Proof. exact signs_none_iff_holds. Qed.

Lemma signs_heuristic_only_if_inconsistent : signs_heuristic_only_if_inconsistent_stmt.
Proof. exact signs_heuristic_only_if_inconsistent_holds. Qed.
