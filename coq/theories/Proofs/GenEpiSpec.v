(* Proofs/GenEpiSpec.v — statements tying the regenerated epigraph_conic_form of every nonlinear atom (Gen/GenEpi.v) to the model's epi_block *)
From Coq Require Import List Bool Arith ZArith QArith.
From SageVerif Require Import Model.SolverForms Model.Expr Model.Compile Model.TripletIdioms Gen.GenEpi.
Import ListNotations.
Close Scope Q_scope.

Definition gen_epi_abs_equiv_stmt : Prop := forall dummy t x, gen_epi_block dummy t (ANl KAbs [x]) = epi_block dummy t (ANl KAbs [x]).
Definition gen_epi_pos_equiv_stmt : Prop := forall dummy t x, gen_epi_block dummy t (ANl KPos [x]) = epi_block dummy t (ANl KPos [x]).
Definition gen_epi_exp_equiv_stmt : Prop := forall dummy t x, gen_epi_block dummy t (ANl KExp [x]) = epi_block dummy t (ANl KExp [x]).
Definition gen_epi_relent_equiv_stmt : Prop := forall dummy t x y, gen_epi_block dummy t (ANl KRelEnt [x; y]) = epi_block dummy t (ANl KRelEnt [x; y]).
(* Vector2Norm: any number of arguments (the loop over the arguments, with its inner loop over the terms of one argument) *)
Definition gen_epi_norm2_equiv_stmt : Prop := forall dummy t args, gen_epi_block dummy t (ANl KNorm2 args) = epi_block dummy t (ANl KNorm2 args).
(* every well-formed atom at once *)
Definition atom_wf (a : atom) : bool :=
  match a with
  | ANl KNorm2 _ => true
  | ANl KRelEnt [_; _] => true
  | ANl KRelEnt _ => false
  | ANl _ [_] => true
  | ANl _ _ => false
  | AVar _ => true
  end.
Definition gen_epi_block_equiv_stmt : Prop := forall dummy t a, atom_wf a = true -> gen_epi_block dummy t a = epi_block dummy t a.
