(* Proofs/HistorySpec.v — statements of the C11 theorems about Model/History.v. *)
From Coq Require Import Reals List Bool Arith ZArith QArith Lra.
From SageVerif Require Import Math.RVec Model.Expr Model.SolverForms Model.Compile Model.History Gen.GenSettings
                              Proofs.ExprSpec Proofs.FormsSpec Proofs.CompileSpec.
Import ListNotations.

(* ---- compiling the same constraint objects again yields the same system ---- *)
(* same cone structure, and the same solutions (the two systems may differ only in which dummy
   column carries explicit zero coefficients) *)
Definition same_system (b1 b2 : list (list cone * list rrow)) : Prop :=
  map fst b1 = map fst b2 /\ forall rho, blocks_sat rho b1 <-> blocks_sat rho b2.

Definition recompile_stable_stmt : Prop :=
  forall epi d1 d2 cs cs1 b1 cs2 b2,
    compile_step epi d1 cs = (cs1, b1) -> compile_step epi d2 cs1 = (cs2, b2) ->
    same_system b1 b2 /\ cs2 = map (fun c => {| cc_op := cc_op c; cc_cells := cc_cells c; cc_subst := cc_subst c ++ [] |}) cs2.

(* any number of recompilations, with unrelated Variables created in between (different dummies) *)
Definition recompile_all_equal_stmt : Prop :=
  forall epi d ds cs b, In b (recompile epi (d :: ds) cs) ->
    same_system (snd (compile_step epi d cs)) b.

(* the first compilation of fresh constraint objects is the compilation of Model/Compile.v *)
Definition first_compile_is_compile_stmt : Prop :=
  forall epi dummy cs bs,
    all_blocks epi dummy cs [] = Some bs ->
    snd (compile_step epi dummy (map fresh_con cs)) = bs.

(* before the repair the second compilation lost the epigraph cones (finding F5) *)
Definition recompile_old_refuted_stmt : Prop :=
  exists epi d cs cs1 b1 cs2 b2,
    compile_step_old epi d cs = (cs1, b1) /\ compile_step_old epi d cs1 = (cs2, b2) /\
    map fst b1 <> map fst b2.

(* ---- generation check ---- *)
Definition generations_ok_iff_stmt : Prop :=
  forall gens, generations_ok gens = true <-> forall g h, In g gens -> In h gens -> g = h.

(* ---- settings snapshot ---- *)
Definition get_key (s : settings) (k : skey) : bool :=
  match k with
  | KHeur => heuristic_reduction s | KPresolve => presolve_trivial_age_cones s
  | KForceEq => sum_age_force_equality s | KCompact => compact_dual s | KKernel => kernel_basis s
  end.
Definition skey_eqb (a b : skey) : bool :=
  match a, b with KHeur, KHeur | KPresolve, KPresolve | KForceEq, KForceEq | KCompact, KCompact | KKernel, KKernel => true | _, _ => false end.

(* the settings a constraint compiles with are the defaults at construction overridden by its own
   keyword argument; later changes of the defaults never reach it *)
Definition settings_snapshot_stmt : Prop :=
  forall ops1 ov ops2,
    let k := length (snd (srun ops1)) in
    nth_error (snd (srun (ops1 ++ SMkSage ov :: ops2))) k =
    Some (fold_left (fun s kv => set_key s (fst kv) (snd kv)) ov (fst (srun ops1))).

Definition override_beats_default_stmt : Prop :=
  forall s ov k,
    get_key (fold_left (fun s kv => set_key s (fst kv) (snd kv)) ov s) k =
    match filter (fun kv => skey_eqb (fst kv) k) (rev ov) with
    | (_, v) :: _ => v
    | [] => get_key s k
    end.

Definition setdefault_get_stmt : Prop :=
  forall s k v k', get_key (set_key s k v) k' = if skey_eqb k k' then v else get_key s k'.
