(* Proofs/SymCorrSort.v — sort_unique returns pairwise distinct rows covering its input
   (lexicographic order on rational rows is a strict total order up to row equality). *)
From Coq Require Import List Bool Arith ZArith QArith Lqa Lia.
From SageVerif Require Import Model.Signomial Proofs.SigSpec Proofs.SymCorrBase.
Import ListNotations.
Local Open Scope Q_scope.
Local Open Scope nat_scope.

Lemma Qeq_bool_compare : forall x y, Qeq_bool x y = match (x ?= y)%Q with Eq => true | _ => false end.
Proof.
  intros x y. destruct (Qcompare_spec x y) as [H|H|H].
  - apply Qeq_bool_iff. exact H.
  - destruct (Qeq_bool x y) eqn:E; auto. apply Qeq_bool_iff in E. lra.
  - destruct (Qeq_bool x y) eqn:E; auto. apply Qeq_bool_iff in E. lra.
Qed.

Lemma ltb_cons : forall x a y b,
  qrow_ltb (x :: a) (y :: b) = match (x ?= y)%Q with Eq => qrow_ltb a b | Lt => true | Gt => false end.
Proof. intros. cbn [qrow_ltb]. rewrite Qeq_bool_compare. destruct (x ?= y)%Q; reflexivity. Qed.

Lemma eqb_cons : forall x a y b,
  qrow_eqb (x :: a) (y :: b) = match (x ?= y)%Q with Eq => qrow_eqb a b | _ => false end.
Proof. intros. cbn [qrow_eqb]. rewrite Qeq_bool_compare. destruct (x ?= y)%Q; reflexivity. Qed.

Lemma ltb_not_eqb : forall a b, qrow_ltb a b = true -> qrow_eqb a b = false.
Proof.
  induction a as [|x a IH]; intros [|y b] H; try reflexivity; try discriminate.
  rewrite ltb_cons in H. rewrite eqb_cons. destruct (x ?= y)%Q; auto.
Qed.

Lemma ltb_trans : forall a b c, qrow_ltb a b = true -> qrow_ltb b c = true -> qrow_ltb a c = true.
Proof.
  induction a as [|x a IH]; intros [|y b] [|z c] H1 H2; try reflexivity; try discriminate.
  rewrite ltb_cons in *.
  destruct (Qcompare_spec x y) as [E1|E1|E1]; try discriminate;
  destruct (Qcompare_spec y z) as [E2|E2|E2]; try discriminate;
  destruct (Qcompare_spec x z) as [E3|E3|E3]; try reflexivity; try lra.
  eapply IH; eauto.
Qed.

Lemma ltb_total : forall a b, qrow_eqb a b = false -> qrow_ltb a b = false -> qrow_ltb b a = true.
Proof.
  induction a as [|x a IH]; intros [|y b] H1 H2; try reflexivity; try discriminate.
  rewrite ltb_cons in *. rewrite eqb_cons in H1.
  destruct (Qcompare_spec x y) as [E1|E1|E1]; try discriminate;
  destruct (Qcompare_spec y x) as [E2|E2|E2]; try reflexivity; try lra.
  apply IH; auto.
Qed.

Fixpoint ssorted (l : list qrow) : Prop :=
  match l with
  | [] => True
  | x :: l' => (forall y, In y l' -> qrow_ltb x y = true) /\ ssorted l'
  end.

Lemma ssorted_insert : forall l r, ssorted l -> ssorted (insert_row r l).
Proof.
  induction l as [|x l IH]; intros r Hs.
  - simpl. split; [intros y []|exact I].
  - cbn [insert_row]. destruct Hs as [Hx Hs].
    destruct (qrow_eqb r x) eqn:E; [split; auto|].
    destruct (qrow_ltb r x) eqn:Lt.
    + split; [|split; auto]. intros y [<-|Hy]; auto. eapply ltb_trans; eauto.
    + split; [|apply IH; auto]. intros y Hy. apply In_insert_row in Hy as [->|Hy]; auto.
      apply ltb_total; auto.
Qed.

Lemma ssorted_distinct : forall l, ssorted l -> distinct l.
Proof.
  induction l as [|x l IH]; simpl; auto. intros [Hx Hs]. split; auto.
  apply mem_row_false. intros y Hy. apply ltb_not_eqb. auto.
Qed.

Lemma mem_insert_row_mono : forall l r x, mem_row x l = true -> mem_row x (insert_row r l) = true.
Proof.
  induction l as [|y l IH]; intros r x H; [discriminate|].
  cbn [insert_row]. destruct (qrow_eqb r y); auto. destruct (qrow_ltb r y).
  - cbn [mem_row] in *. rewrite H. apply orb_true_r.
  - cbn [mem_row] in *. apply orb_true_iff in H as [H|H]; [rewrite H; auto|].
    rewrite IH by auto. apply orb_true_r.
Qed.

Lemma mem_insert_row_self : forall l r, mem_row r (insert_row r l) = true.
Proof.
  induction l as [|y l IH]; intros r.
  - simpl. rewrite qrow_eqb_refl. reflexivity.
  - cbn [insert_row]. destruct (qrow_eqb r y) eqn:E; [cbn [mem_row]; rewrite E; auto|].
    destruct (qrow_ltb r y); cbn [mem_row].
    + rewrite qrow_eqb_refl. reflexivity.
    + rewrite IH. apply orb_true_r.
Qed.

Lemma su_fold_props : forall rows acc, ssorted acc ->
  let u := fold_left (fun acc r => insert_row r acc) rows acc in
  ssorted u /\
  (forall x, mem_row x acc = true \/ mem_row x rows = true -> mem_row x u = true) /\
  (forall x, In x u -> In x acc \/ In x rows).
Proof.
  induction rows as [|r rows IH]; intros acc Hs; cbn zeta.
  - simpl. repeat split; auto. intros x [H|H]; auto. discriminate.
  - cbn [fold_left]. destruct (IH (insert_row r acc) (ssorted_insert _ _ Hs)) as [H1 [H2 H3]].
    cbn zeta in *. repeat split; auto.
    + intros x [H|H]; apply H2.
      * left. apply mem_insert_row_mono. exact H.
      * cbn [mem_row] in H. apply orb_true_iff in H as [H|H]; auto.
        left. rewrite (mem_row_congr _ _ _ H). apply mem_insert_row_self.
    + intros x Hx. apply H3 in Hx as [Hx|Hx]; [|right; right; exact Hx].
      apply In_insert_row in Hx as [->|Hx]; [right; left; reflexivity | left; exact Hx].
Qed.

Lemma sort_unique_distinct : forall rows, distinct (sort_unique rows).
Proof. intros rows. apply ssorted_distinct. apply (su_fold_props rows []). exact I. Qed.

Lemma sort_unique_mem : forall rows x, mem_row x rows = true -> mem_row x (sort_unique rows) = true.
Proof. intros rows x H. apply (su_fold_props rows [] I). right. exact H. Qed.

Lemma sort_unique_In : forall rows x, In x (sort_unique rows) -> In x rows.
Proof. intros rows x H. apply (su_fold_props rows [] I) in H as [[]|H]. exact H. Qed.

(* a deduplicated cover of a list of rows *)
Fixpoint dedup (l : list qrow) : list qrow :=
  match l with
  | [] => []
  | r :: l' => if mem_row r (dedup l') then dedup l' else r :: dedup l'
  end.

Lemma dedup_mem : forall l x, mem_row x (dedup l) = mem_row x l.
Proof.
  induction l as [|r l IH]; intros x; auto. cbn [dedup mem_row].
  destruct (mem_row r (dedup l)) eqn:E.
  - rewrite IH. destruct (qrow_eqb x r) eqn:Ex; auto. simpl.
    rewrite (mem_row_congr _ _ _ Ex). rewrite <- IH. exact E.
  - cbn [mem_row]. rewrite IH. reflexivity.
Qed.

Lemma dedup_distinct : forall l, distinct (dedup l).
Proof.
  induction l as [|r l IH]; simpl; auto.
  destruct (mem_row r (dedup l)) eqn:E; auto. split; auto.
Qed.
