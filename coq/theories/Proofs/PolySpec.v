(* Proofs/PolySpec.v — statements of the C05 theorems about Model/PolyRep.v and the polynomial relaxations. *)
From Coq Require Import Reals List Bool Arith ZArith QArith Qreals Lra.
From SageVerif Require Import Math.RVec Model.Expr Model.Signomial Model.SigExpr Model.SymSig Model.PolyRep
                              Model.SolverForms Model.Compile Model.Sage Model.RelaxSig
                              Proofs.ExprSpec Proofs.SigSpec Proofs.SymSigSpec Proofs.CalcSpec
                              Proofs.FormsSpec Proofs.CompileSpec Proofs.SageSpec Proofs.RelaxSpec.
Import ListNotations.
Open Scope R_scope.

Definition no_zero_coord (x : list R) : Prop := Forall (fun v => v <> 0) x.
Definition logabs (x : list R) : list R := map (fun v => ln (Rabs v)) x.

(* polynomial with scalar-expression coefficients, evaluated after substituting rho *)
Definition spoly_eval (rho : env) (p : list (qrow * sexpr)) (x : list R) : R :=
  fold_right (fun t acc => value rho (snd t) * monoR (fst t) x + acc) 0 p.
(* signomial with scalar-expression coefficients *)
Definition ssig_eval (rho : env) (f : ssig) (y : list R) : R :=
  fold_right (fun t acc => value rho (snd t) * exp (dot (rowR (fst t)) y) + acc) 0 f.

Definition spolyrows (n : nat) (p : list (qrow * sexpr)) : Prop :=
  Forall (fun t => length (fst t) = n /\ Forall (fun q => is_nat_q q = true) (fst t)) p.

(* the side constraints of the signomial representative: c_hat <= c and c_hat <= -c *)
Definition side_ok (rho : env) (side : list (Z * sexpr)) : Prop :=
  Forall (fun hc => rho (fst hc) <= value rho (snd hc) /\ rho (fst hc) <= - value rho (snd hc)) side.

(* p(x) >= sr(log|x|) for every x with no zero coordinate: numeric coefficients (constants) and every
   assignment of variable coefficients satisfying sr's side constraints *)
Definition sigrep_lower_bound_stmt : Prop :=
  forall n p hats sr side rho x,
    spolyrows n p -> length x = n -> no_zero_coord x ->
    (length (filter (fun t => negb (row_even (fst t)) && negb (is_constant (snd t))) p) <= length hats)%nat ->
    sig_rep p hats = (sr, side) -> side_ok rho side ->
    ssig_eval rho sr (logabs x) <= spoly_eval rho p x.

(* equality on the positive orthant when all odd-monomial coefficients are <= 0 constants is not needed;
   what matters downstream: even monomials are unchanged *)
Definition sigrep_even_unchanged_stmt : Prop :=
  forall p hats r s, sig_rep_aux p hats = (r, s) ->
    map fst r = map fst p /\
    forall j, (j < length p)%nat -> row_even (fst (nth j p ([], sconst 0%Q))) = true ->
              nth j r ([], sconst 0%Q) = nth j p ([], sconst 0%Q).

(* create_covers produces admissible covers: right length, never containing the index itself, never a
   non-even monomial *)
Definition create_covers_valid_stmt : Prop :=
  forall s i cov, nth_error (create_covers s) i = Some (Some cov) ->
    length cov = length s /\ nth i cov false = false /\
    forall j, (j < length s)%nat -> row_even (fst (nth j s ([], sconst 0%Q))) = false -> nth j cov false = false.

(* even-exponent modulators are nonnegative everywhere and positive off the coordinate hyperplanes *)
Definition standard_multiplier_pos_stmt : Prop :=
  forall n rows x, Forall (fun r => length r = n /\ Forall (fun q => is_nat_q q = true) r) rows -> length x = n ->
    0 <= poly_evalR (standard_multiplier rows) x /\
    (no_zero_coord x -> (exists r, In r rows /\ row_even r = true) -> 0 < poly_evalR (standard_multiplier rows) x).

(* dual side: for real x without zero coordinates and s >= 0 the vectors v_j = s*x^{alpha_j},
   aux_j = s*|x|^{alpha_j} satisfy the links of relative_dual_sage_poly_cone (aux is a moment vector at log|x|) *)
Definition poly_dual_links_stmt : Prop :=
  forall n (rows : list qrow) s x, Forall (fun r => length r = n /\ Forall (fun q => is_nat_q q = true) r) rows ->
    length x = n -> no_zero_coord x -> 0 <= s ->
    forall r, In r rows ->
      s * monoR r (map Rabs x) = s * exp (dot (rowR r) (logabs x)) /\
      (row_even r = true -> s * monoR r x = s * monoR r (map Rabs x)) /\
      - (s * monoR r (map Rabs x)) <= s * monoR r x <= s * monoR r (map Rabs x).

(* PRIMAL FORM for numeric polynomials (poly_ell = 0): feasibility of the rows of sig_primal on the
   signomial representative bounds p on every real x without zero coordinates whose log|x| lies in X *)
Definition num_sigrep (p : qsig) : qsig :=
  map (fun t => if row_even (fst t) then t else (fst t, qabs_neg (snd t))) p.

Definition poly_primal_sound_stmt : Prop :=
  forall n lifted_n p g ms ell X covers ids st dummy bs rho,
    polyrows n p -> fwf n p -> supp_ok n ms ->
    let L := sig_primal_m n (num_sigrep p) ell g ms in
    primal_wf n lifted_n (map fst L) (map snd L) X covers ids ->
    primal_blocks n lifted_n (map fst L) (map snd L) X covers ids st dummy = Some bs ->
    blocks_sat rho bs ->
    forall x w, length x = n -> no_zero_coord x -> in_X lifted_n X (logabs x ++ w) ->
      rho g <= poly_evalR p x.

(* X = R^n: a bound valid off the coordinate hyperplanes is valid everywhere (continuity of polynomials) *)
Definition bound_extends_by_continuity_stmt : Prop :=
  forall n p gamma, polyrows n p ->
    (forall x, length x = n -> no_zero_coord x -> gamma <= poly_evalR p x) ->
    forall x, length x = n -> gamma <= poly_evalR p x.
