(* Proofs/GenProdConeProofs.v *)
From Coq Require Import List Bool Arith ZArith Lia.
From SageVerif Require Import Model.SolverForms Model.Expr Model.Compile Gen.GenProdCone Proofs.GenProdConeSpec.
Import ListNotations.

Definition pstep (d0 : sexpr) (y : list dcell) := fun (st_ : nat * list (list dcell) * bool) (co : cone) =>
  let '(start_row, y_mod, raised) := st_ in
  let stop_row := start_row + snd co in
  let '(y_mod, raised) :=
    if existsb (ctag_eqb (fst co)) [TPos; TSoc; TPsd] then (y_mod ++ [slice y start_row stop_row], raised)
    else if ctag_eqb (fst co) TExp then (y_mod ++ [[d_neg (nth (start_row + 2) y (DPlain d0)); d_scale (nth (start_row + 1) y (DPlain d0)); d_neg (nth start_row y (DPlain d0))]], raised)
    else if negb (ctag_eqb (fst co) T0) then (y_mod, true)
    else (y_mod, raised) in
  let start_row := stop_row in
  (start_row, y_mod, raised).

Lemma raised_sticks d0 y : forall K s ym, snd (fold_left (pstep d0 y) K (s, ym, true)) = true.
Proof.
  induction K as [|[t n] K IH]; intros s ym; cbn [fold_left]; [reflexivity|].
  unfold pstep at 2. cbn [fst snd].
  destruct (existsb (ctag_eqb t) [TPos; TSoc; TPsd]); [apply IH|].
  destruct (ctag_eqb t TExp); [apply IH|]. destruct (negb (ctag_eqb t T0)); apply IH.
Qed.

Lemma skipn_skipn {X} : forall a b (l : list X), skipn a (skipn b l) = skipn (b + a) l.
Proof. intros a b. revert a. induction b as [|b IH]; intros a l; [reflexivity|]. destruct l; [rewrite !skipn_nil; reflexivity|]. cbn [skipn Nat.add]. apply IH. Qed.

Lemma nth_skipn {X} : forall s k (l : list X) d, nth k (skipn s l) d = nth (s + k) l d.
Proof. induction s as [|s IH]; intros k l d; [reflexivity|]. destruct l; [destruct k; reflexivity|]. cbn [skipn Nat.add nth]. apply IH. Qed.

Lemma firstn3 {X} (l : list X) d : 3 <= length l -> firstn 3 l = [nth 0 l d; nth 1 l d; nth 2 l d].
Proof. destruct l as [|a [|b [|c l]]]; cbn [length]; intro H; try lia. reflexivity. Qed.

Lemma fold_dual dummy d0 (ys : list sexpr) : forall K s ym,
  exp_len3 K -> length ys = s + Ksize K ->
  let r := fold_left (pstep d0 (map DPlain ys)) K (s, ym, false) in
  match dual_rows dummy (skipn s ys) K with
  | None => snd r = true
  | Some (Ks, rs) => exists blocks, r = (s + Ksize K, ym ++ blocks, false) /\ map (d_row dummy) (concat blocks) = rs /\
                     Ks = filter (fun co => negb (ctag_eqb (fst co) T0)) K
  end.
Proof.
  induction K as [|[t n] K IH]; intros s ym He Hl; cbn [fold_left dual_rows].
  - exists []. cbn. rewrite Nat.add_0_r, app_nil_r. repeat split.
  - inversion He as [|co K' Hco HK]; subst. cbn [fst snd] in Hco.
    assert (Hl' : length ys = s + (n + Ksize K)) by (unfold Ksize in *; cbn [fold_right snd] in Hl; lia). clear Hl. rename Hl' into Hl.
    specialize (IH (s + n)). rewrite skipn_skipn.
    assert (Hstep : pstep d0 (map DPlain ys) (s, ym, false) (t, n) =
            if existsb (ctag_eqb t) [TPos; TSoc; TPsd] then (s + n, ym ++ [slice (map DPlain ys) s (s + n)], false)
            else if ctag_eqb t TExp then (s + n, ym ++ [[d_neg (nth (s + 2) (map DPlain ys) (DPlain d0)); d_scale (nth (s + 1) (map DPlain ys) (DPlain d0)); d_neg (nth s (map DPlain ys) (DPlain d0))]], false)
            else if negb (ctag_eqb t T0) then (s + n, ym, true) else (s + n, ym, false)).
    { unfold pstep. cbn [fst snd]. destruct (existsb (ctag_eqb t) [TPos; TSoc; TPsd]); [reflexivity|]. destruct (ctag_eqb t TExp); [reflexivity|].
      destruct (negb (ctag_eqb t T0)); reflexivity. }
    cbv zeta. rewrite Hstep. clear Hstep.
    assert (Hsl : slice (map DPlain ys) s (s + n) = map DPlain (firstn n (skipn s ys))).
    { unfold slice. replace (s + n - s) with n by lia. rewrite skipn_map, firstn_map. reflexivity. }
    assert (Hnth : forall k, nth (s + k) (map DPlain ys) (DPlain d0) = DPlain (nth k (skipn s ys) d0)).
    { intro k. rewrite nth_skipn. change (DPlain d0) with (DPlain d0). apply map_nth. }
    destruct t; cbn [existsb ctag_eqb orb negb].
    + (* T0 *) specialize (IH ym HK ltac:(lia)). cbv zeta in IH.
      destruct (dual_rows dummy (skipn (s + n) ys) K) as [[Ks rs]|].
      * destruct IH as [blocks [H1 [H2 H3]]]. exists blocks. rewrite H1. split; [f_equal; f_equal; unfold Ksize; cbn [fold_right snd]; lia|]. split; [exact H2|]. cbn [filter fst ctag_eqb negb]. exact H3.
      * exact IH.
    + (* TPos *) specialize (IH (ym ++ [slice (map DPlain ys) s (s + n)]) HK ltac:(lia)). cbv zeta in IH.
      destruct (dual_rows dummy (skipn (s + n) ys) K) as [[Ks rs]|].
      * destruct IH as [blocks [H1 [H2 H3]]]. exists (slice (map DPlain ys) s (s + n) :: blocks). rewrite H1, <- app_assoc. cbn [app].
        split; [f_equal; f_equal; unfold Ksize; cbn [fold_right snd]; lia|]. split.
        -- cbn [concat]. rewrite map_app, H2, Hsl, map_map. reflexivity.
        -- cbn [filter fst ctag_eqb negb]. f_equal. exact H3.
      * exact IH.
    + (* TSoc *) specialize (IH (ym ++ [slice (map DPlain ys) s (s + n)]) HK ltac:(lia)). cbv zeta in IH.
      destruct (dual_rows dummy (skipn (s + n) ys) K) as [[Ks rs]|].
      * destruct IH as [blocks [H1 [H2 H3]]]. exists (slice (map DPlain ys) s (s + n) :: blocks). rewrite H1, <- app_assoc. cbn [app].
        split; [f_equal; f_equal; unfold Ksize; cbn [fold_right snd]; lia|]. split.
        -- cbn [concat]. rewrite map_app, H2, Hsl, map_map. reflexivity.
        -- cbn [filter fst ctag_eqb negb]. f_equal. exact H3.
      * exact IH.
    + (* TExp *) assert (n = 3) by (apply Hco; reflexivity). subst n.
      pose proof (Hnth 0) as N0. pose proof (Hnth 1) as N1. pose proof (Hnth 2) as N2. rewrite Nat.add_0_r in N0.
      rewrite N0, N1, N2. cbn [d_neg d_scale].
      specialize (IH (ym ++ [[DNeg (nth 2 (skipn s ys) d0); DScaleE (nth 1 (skipn s ys) d0); DNeg (nth 0 (skipn s ys) d0)]]) HK ltac:(lia)). cbv zeta in IH.
      rewrite (firstn3 (skipn s ys) d0) by (rewrite skipn_length; lia).
      destruct (dual_rows dummy (skipn (s + 3) ys) K) as [[Ks rs]|].
      * destruct IH as [blocks [H1 [H2 H3]]]. eexists (_ :: blocks). rewrite H1, <- app_assoc. cbn [app].
        split; [f_equal; f_equal; unfold Ksize; cbn [fold_right snd]; lia|]. split.
        -- cbn [concat map app d_row]. rewrite H2. reflexivity.
        -- cbn [filter fst ctag_eqb negb]. f_equal. exact H3.
      * exact IH.
    + (* TDExp *) destruct (dual_rows dummy (skipn (s + n) ys) K) as [[Ks rs]|]; apply raised_sticks.
    + (* TFree *) destruct (dual_rows dummy (skipn (s + n) ys) K) as [[Ks rs]|]; apply raised_sticks.
    + (* TPsd *) specialize (IH (ym ++ [slice (map DPlain ys) s (s + n)]) HK ltac:(lia)). cbv zeta in IH.
      destruct (dual_rows dummy (skipn (s + n) ys) K) as [[Ks rs]|].
      * destruct IH as [blocks [H1 [H2 H3]]]. exists (slice (map DPlain ys) s (s + n) :: blocks). rewrite H1, <- app_assoc. cbn [app].
        split; [f_equal; f_equal; unfold Ksize; cbn [fold_right snd]; lia|]. split.
        -- cbn [concat]. rewrite map_app, H2, Hsl, map_map. reflexivity.
        -- cbn [filter fst ctag_eqb negb]. f_equal. exact H3.
      * exact IH.
    + (* TPow *) destruct (dual_rows dummy (skipn (s + n) ys) K) as [[Ks rs]|]; apply raised_sticks.
Qed.

Lemma fold_ext_pc {X Y} (f g : X -> Y -> X) : (forall s y, f s y = g s y) -> forall l s, fold_left f l s = fold_left g l s.
Proof. intros H l. induction l as [|y l IH]; intro s; cbn [fold_left]; [reflexivity|]. rewrite H. apply IH. Qed.

Lemma gen_dual_rows_equiv : gen_dual_rows_equiv_stmt.
Proof.
  intros dummy d0 y K He Hl. unfold gen_dual_ymod. cbv zeta.
  pose proof (fold_dual dummy d0 y K 0 [] He Hl) as H. cbv zeta in H. cbn [skipn] in H.
  rewrite (fold_ext_pc _ (pstep d0 (map DPlain y))) by (intros [[s_ ym_] r_] [t_ n_]; reflexivity).
  destruct (fold_left (pstep d0 (map DPlain y)) K (0, [], false)) as [[s' ym'] r'].
  destruct (dual_rows dummy y K) as [[Ks rs]|].
  - destruct H as [blocks [H1 [H2 H3]]]. injection H1 as -> -> ->. cbn [app]. cbv iota. rewrite H2, H3.
    f_equal. f_equal. symmetry. rewrite map_ext with (g := fun co => co) by (intros [a b]; reflexivity). apply map_id.
  - cbn [snd] in H. subst r'. reflexivity.
Qed.

From Coq Require Import Reals.
From SageVerif Require Import Math.RVec Proofs.ExprSpec Proofs.FormsSpec Proofs.CompileSpec Proofs.CompileBlocks.

Lemma okK_exp_len3 K : okK K -> exp_len3 K.
Proof. intro H. unfold okK in H. unfold exp_len3. eapply Forall_impl; [|exact H]. intros co [_ H3]. exact H3. Qed.

Lemma gen_dual_block_iff : gen_dual_block_iff_stmt.
Proof.
  intros rho dummy d0 y K b Hy Hok H. destruct Hok as [Hl HK]. unfold gen_dual_block in H.
  pose proof (gen_dual_rows_equiv dummy d0 y K (okK_exp_len3 K HK) Hl) as E.
  apply (dual_block_iff rho dummy y K b Hy (conj Hl HK)). cbn [smem_block]. rewrite E. exact H.
Qed.
