(* Proofs/GenAllocSpec.v — the index allocation code regenerated from base.py / __init__.py (Gen/GenAlloc.v) is Model/Alloc.v on every input:
   Variable.__new__ with its two populate methods, ScalarVariable.__init__ and clear_variable_indices, hence every history of declarations and
   clears; the C20 uniqueness theorem is restated for histories run through the GENERATED functions. *)
From Coq Require Import List Bool Arith ZArith.
From SageVerif Require Import Model.Alloc Model.AllocIdioms Gen.GenAlloc Proofs.AllocSpec.
Import ListNotations.

Definition bump_unnamed (g : gstate) (name : option nat) : gstate :=
  {| counter := counter g; generation := generation g; unnamed := match name with Some _ => unnamed g | None => S (unnamed g) end |}.

Definition gen_unstructured_equiv_stmt : Prop :=
  forall c gen sh, gen_unstructured_populate c gen sh = ((c + Z.of_nat (size_of sh))%Z, map (fun i => (c + Z.of_nat i)%Z) (seq 0 (size_of sh))).

(* the two nested loops with their running counter compute the closed form of the model (tri_offset) *)
Definition gen_symmetric_equiv_stmt : Prop :=
  forall c gen n, gen_symmetric_populate c gen [n; n] = Some ((c + Z.of_nat (sym_count n))%Z, sym_ids c n).
Definition gen_symmetric_raises_stmt : Prop :=
  forall c gen sh, gen_symmetric_populate c gen sh = None <-> forall n, sh <> [n; n].

Definition gen_new_var_equiv_stmt : Prop :=
  forall g sh sym name,
    gen_new_var g sh sym name = match new_var g sh sym name with ROk (g', v) => (g', Some v) | RErr => (bump_unnamed g name, None) end.

Definition gen_clear_equiv_stmt : Prop := forall g, gen_clear g = clear g.

Definition gen_step (st : gstate * list var) (o : op) : gstate * list var :=
  match o with
  | ONew sh sym name => let '(g', ov) := gen_new_var (fst st) sh sym name in (g', match ov with Some v => snd st ++ [v] | None => snd st end)
  | OClear => (gen_clear (fst st), snd st)
  end.
Definition gen_run (ops : list op) : gstate * list var := fold_left gen_step ops (g0, []).

Definition gen_run_equiv_stmt : Prop := forall ops, gen_run ops = run ops.

Definition gen_ids_unique_stmt : Prop :=
  forall ops,
    let '(g, vs) := gen_run ops in
    (forall v x, In v vs -> v_gen v = generation g -> In x (v_ids v) -> (0 <= x < counter g)%Z) /\
    (forall i j vi vj, i <> j -> nth_error vs i = Some vi -> nth_error vs j = Some vj ->
       v_gen vi = v_gen vj -> forall x, In x (v_ids vi) -> ~ In x (v_ids vj)) /\
    (forall v, In v vs -> (v_gen v <= generation g)%Z).
