(* Proofs/PolyConDualProofs.v — C05, dual form of the constrained polynomial relaxations: proofs of the statements of
   Proofs/PolyConDualSpec.v.  The file mirrors Proofs/RelaxConDualProofs.v; the character lemmas that use
   multiplicativity (evalchi_shifted, evalchi_prodterms, evalchi_q_mul, and the row sums of the moment-reduction array)
   are re-proved for maps that are multiplicative on rows of natural exponents only, threading the fact that all rows
   involved (those of s, h, t, and of the product q_mul n h t) are natural. *)
From Coq Require Import Reals List Bool Arith ZArith QArith Qreals Lra Lia.
From SageVerif Require Import Math.RVec Model.Signomial Model.SigExpr Model.SolverForms Model.SymCorr Model.RelaxSig
  Proofs.SigSpec Proofs.SigLemmas Proofs.SigRound Proofs.SigMk Proofs.SigOps
  Proofs.CalcSpec Proofs.CalcBase Proofs.CalcPoly
  Proofs.SymCorrSpec Proofs.SymCorrBase Proofs.SymCorrReal Proofs.SymCorrOwn Proofs.SymCorrProofs
  Proofs.RelaxSpec Proofs.RelaxBase Proofs.RelaxConDualSpec Proofs.RelaxConDualProofs Proofs.PolyConDualSpec.
Import ListNotations.
Local Open Scope R_scope.

(* ------------------------------------------------------------------ *)
(* natural rows *)
Lemma natq_add : forall e e', is_nat_q e = true -> is_nat_q e' = true ->
  natq (Qred (e + e')) = (natq e + natq e')%nat /\ is_nat_q (Qred (e + e')) = true.
Proof.
  intros e e' H H'. pose proof (is_nat_q_spec e H) as Hs. pose proof (is_nat_q_spec e' H') as Hs'.
  set (m := natq e) in *. set (m' := natq e') in *. clearbody m m'.
  apply natq_of. rewrite Qred_correct, Hs, Hs', Nat2Z.inj_add, inject_Z_plus. reflexivity.
Qed.

Lemma natrow_vaddq : forall a b, natrow a -> natrow b -> natrow (vaddq a b).
Proof.
  induction a as [|e a IH]; intros [|e' b] Ha Hb; cbn [vaddq]; try constructor.
  - inversion Ha; inversion Hb; subst. now apply natq_add.
  - inversion Ha; inversion Hb; subst. now apply IH.
Qed.

Lemma natrow_round_row : forall a, natrow a -> natrow (round_row a).
Proof. exact CalcPoly.natrow_round. Qed.

Lemma monoR_vaddq : forall a b x, length a = length b -> natrow a -> natrow b ->
  monoR (vaddq a b) x = monoR a x * monoR b x.
Proof.
  induction a as [|e a IH]; intros [|e' b] x Hl Ha Hb; simpl in Hl; try discriminate.
  - simpl. lra.
  - inversion Ha as [|? ? He Ha']; inversion Hb as [|? ? He' Hb']; subst.
    destruct x as [|v x]; [simpl; lra|].
    cbn [vaddq]. rewrite !monoR_cons, (IH b x) by (auto; lia).
    rewrite (proj1 (natq_add e e' He He')), pow_add. ring.
Qed.

(* ------------------------------------------------------------------ *)
(* 0. the monomial map is a character on natural rows *)
Lemma poly_pcharacter : poly_pcharacter_stmt.
Proof.
  intros n x _. split.
  - intros a b Ha Hb Na Nb. apply monoR_vaddq; auto. congruence.
  - intros a b H. now apply (monoR_respects x).
Qed.

Lemma poly_evalchi : poly_evalchi_stmt.
Proof. intros f x. reflexivity. Qed.

(* ------------------------------------------------------------------ *)
(* 1. relative coefficient vectors pair with chi-vectors to function values *)
Lemma dot_chi_vec : forall chi (cs : list R) (rows : list qrow) s,
  dot cs (chi_vec chi rows s) = s * dot cs (map chi rows).
Proof.
  intros chi. induction cs as [|c cs IH]; intros [|r rows] s; unfold chi_vec in *; cbn [map dot]; try lra.
  rewrite IH. ring.
Qed.

Lemma prcv_pairing : prcv_pairing_stmt.
Proof.
  intros n chi u ref s [_ Hresp] Hu Hdu [Hr1 Hr2] Hc.
  destruct (rcv_placement n u ref Hu Hdu Hr1 Hr2) as [E1 E2].
  pose proof (distinct_of_nth ref Hr2) as Hd.
  rewrite dot_chi_vec.
  rewrite (dot_Lsum chi (SymCorrReal.coefR u) ref _ E1).
  - now rewrite (Lsum_coefR chi ref u Hresp Hd (rows_contained_present u ref Hc)).
  - intros k Hk. rewrite (Qeq_eqR _ _ (E2 k Hk)).
    apply query_coeff_coefR. now apply rows_distinct_distinct.
Qed.

(* ------------------------------------------------------------------ *)
(* the character lemmas of SymCorrReal / SymCorrOwn under the restricted multiplicativity *)
Lemma pevalchi_shifted : forall n chi (h : qsig) a, pcharacter n chi -> wfsig n h -> polyrows n h ->
  length a = n -> on_grid_row a -> natrow a ->
  evalchi chi (shifted h a) = chi a * evalchi chi h.
Proof.
  intros n chi h a [Hmul Hresp] Hh Hp Ha Hg Hna. induction h as [|t h IH]; simpl; [lra|].
  inversion Hh as [|? ? [Ht Gt] Hh']; inversion Hp as [|? ? [_ Nt] Hp']; subst.
  fold (shifted h a). rewrite IH by auto.
  unfold qrow in *. rewrite (Hresp _ _ (round_row_on_grid_eqb _ (on_grid_vaddq _ _ Gt Hg))).
  rewrite Hmul by auto. lra.
Qed.

(* Crow_sum does not use multiplicativity at all *)
Lemma pCrow_sum : forall n (chi : qrow -> R) (h L : qsig) a,
  wfsig n h -> rows_distinct h -> wfL n L -> length a = n -> on_grid_row a ->
  fold_right Rplus 0 (map (fun cl => Q2R (fst cl) * chi (fst (snd cl)))
                          (combine (relative_coeff_vector (shift_sig h a) (map fst L)) L))
  = Lsum chi (SymCorrReal.coefR (shifted h a)) (map fst L).
Proof.
  intros n chi h L a Hh Hdh HL Ha Hg.
  destruct (wfsig_distinct_ref n L HL) as [HdL HgL].
  pose proof (rows_distinct_distinct h Hdh) as Hdh'.
  rewrite (shift_sig_shifted n h a) by auto.
  pose proof (distinct_shifted n h a Hh Hdh' Ha Hg) as Hds.
  pose proof (wfsig_rows_grid n _ (wfsig_shifted n h a Hh Ha)) as Hgs.
  destruct (rcv_placement_base (shifted h a) (map fst L) Hds Hgs HdL HgL) as [Hlen Hnth].
  rewrite map_length in Hlen, Hnth.
  rewrite (combine_row_sum chi (query_coeff (shifted h a)) L _ Hlen Hnth).
  apply Lsum_ext. intros l _. apply query_coeff_coefR. exact Hds.
Qed.

Lemma pevalchi_prodterms : forall n chi s h, pcharacter n chi ->
  wfsig n s -> polyrows n s -> wfsig n h -> polyrows n h ->
  evalchi chi (prodterms s h) = evalchi chi s * evalchi chi h.
Proof.
  intros n chi s h [Hmul Hresp] Hs Ps Hh Ph. rewrite !evalchi_rsum. unfold prodterms. rewrite rsum_flat_map.
  unfold wfsig, polyrows in *. rewrite Forall_forall in Hs, Hh, Ps, Ph.
  transitivity (rsum (map (fun t2 : qrow * Q =>
      rsum (map (fun t : qrow * Q => Q2R (snd t) * chi (fst t)) s) * (Q2R (snd t2) * chi (fst t2))) h)).
  - apply rsum_map_ext. intros t2 H2. rewrite map_map. cbn [fst snd].
    rewrite <- rsum_map_scal_r. apply rsum_map_ext. intros t1 H1.
    destruct (Hs _ H1) as [L1 G1]. destruct (Hh _ H2) as [L2 G2].
    destruct (Ps _ H1) as [_ N1]. destruct (Ph _ H2) as [_ N2]. unfold qrow in *.
    rewrite (Hresp _ _ (round_row_on_grid_eqb _ (on_grid_vaddq _ _ G1 G2))).
    rewrite Hmul by auto. rewrite Q2R_qmul. lra.
  - rewrite rsum_map_scal. reflexivity.
Qed.

Lemma pevalchi_q_mul : forall n chi s h, pcharacter n chi ->
  wfsig n s -> polyrows n s -> wfsig n h -> polyrows n h ->
  evalchi chi (q_mul n s h) = evalchi chi s * evalchi chi h.
Proof.
  intros n chi s h Hc Hs Ps Hh Ph.
  rewrite (evalchi_ext chi (q_mul n s h) (prodterms s h) (proj2 Hc)) by (intros; apply coefR_q_mul).
  exact (pevalchi_prodterms n chi s h Hc Hs Ps Hh Ph).
Qed.

(* the rows of a product of polynomials are natural *)
Lemma polyrows_filter : forall n p (f : qsig), polyrows n f -> polyrows n (filter p f).
Proof.
  intros n p f H. unfold polyrows in *. rewrite Forall_forall in *. intros t Ht.
  apply filter_In in Ht. now apply H.
Qed.

Lemma polyrows_prod_raw : forall n f g, polyrows n f -> polyrows n g -> polyrows n (prod_raw f g).
Proof.
  intros n f g Hf Hg. unfold polyrows, prod_raw, prod_row in *. rewrite Forall_forall in *. intros t Ht.
  apply in_flat_map in Ht as [t2 [H2 Ht]]. apply in_map_iff in Ht as [t1 [<- H1]]. cbn [fst].
  destruct (Hf _ H1) as [L1 N1]. destruct (Hg _ H2) as [L2 N2]. split.
  - rewrite round_row_length, vaddq_length; [exact L1 | transitivity n; [exact L1 | symmetry; exact L2]].
  - apply natrow_round_row. now apply natrow_vaddq.
Qed.

Lemma polyrows_q_mul : forall n f g, polyrows n f -> polyrows n g -> polyrows n (q_mul n f g).
Proof.
  intros n f g Hf Hg. rewrite SigOps.q_mul_unfold, q_prod_unfold.
  assert (Hp : polyrows n (q_mk (prod_raw f g))) by (apply polyrows_mk; now apply polyrows_prod_raw).
  destruct (wz_cases n (q_mk (prod_raw f g))) as [[-> _]|[[K ->]|[K ->]]]; auto.
  - rewrite qconst_eq. constructor; [|constructor]. cbn [fst]. split.
    + rewrite round_row_length. apply repeat_length.
    + apply natrow_round_row. apply natrow_zeros.
  - apply polyrows_mk. now apply polyrows_filter.
Qed.

(* ------------------------------------------------------------------ *)
(* 2. the rows of the moment-reduction array, at an arbitrary scaling of the chi-vector *)
Lemma pmra_row : forall n chi (s P L : qsig) C t sc,
  pcharacter n chi -> wfsig n s -> polyrows n s -> wfsig n P -> polyrows n P -> rows_distinct P -> wfL n L ->
  moment_reduction_array true n s P L = Ok C -> In t s ->
  dot (map Q2R (relative_coeff_vector (shift_sig P (fst t)) (map fst L))) (chi_vec chi (map fst L) sc) =
  sc * (chi (fst t) * evalchi chi P).
Proof.
  intros n chi s P L C t sc Hchi Hs Ps HP PP HdP HL HC Ht.
  destruct (wfsig_distinct_ref n L HL) as [HdL HgL].
  unfold wfsig in Hs. rewrite Forall_forall in Hs. destruct (Hs t Ht) as [Lt Gt].
  unfold polyrows in Ps. rewrite Forall_forall in Ps. destruct (Ps t Ht) as [_ Nt].
  rewrite dot_chi_vec, dot_combine.
  rewrite (pCrow_sum n chi P L (fst t) HP HdP HL Lt Gt).
  rewrite Lsum_coefR; [| exact (proj2 Hchi) | exact HdL |].
  - now rewrite (pevalchi_shifted n chi P (fst t) Hchi HP PP Lt Gt Nt).
  - intros u Hu. unfold shifted in Hu. apply in_map_iff in Hu as [v [<- Hv]]. cbn [fst snd].
    destruct (qiszero (snd v)) eqn:Z; [right; apply qiszero_Q2R; exact Z | left].
    rewrite vaddq_comm. destruct t as [a ca]. destruct v as [b cb].
    eapply symbolic_present; eauto.
Qed.

Lemma pmra_matvec : forall n chi (s P L : qsig) C sc,
  pcharacter n chi -> wfsig n s -> polyrows n s -> wfsig n P -> polyrows n P -> rows_distinct P -> wfL n L ->
  moment_reduction_array true n s P L = Ok C ->
  matvecQR C (chi_vec chi (map fst L) sc) = chi_vec chi (map fst s) (sc * evalchi chi P).
Proof.
  intros n chi s P L C sc Hchi Hs Ps HP PP HdP HL HC.
  assert (HCeq : C = map (fun t => relative_coeff_vector (shift_sig P (fst t)) (map fst L)) s).
  { unfold moment_reduction_array in HC. destruct (forallb _ _); [|discriminate]. inversion HC. reflexivity. }
  rewrite HCeq at 1. unfold matvecQR, chi_vec at 2. rewrite !map_map. apply map_ext_in. intros t Ht.
  rewrite (pmra_row n chi s P L C t sc Hchi Hs Ps HP PP HdP HL HC Ht). ring.
Qed.

Lemma pmultiplier : pmultiplier_stmt.
Proof.
  intros n chi s h t L C Hchi Ps Hs Hds Hsne Ph Hh Hdh Hhne Pt Ht Hdt Htne PL HL Hnz HC.
  destruct (mul_good n h t Hh Ht Hhne Htne) as [_ (Pw & Pd & _)].
  pose proof (polyrows_q_mul n h t Ph Pt) as PP.
  rewrite (pmra_matvec n chi s (q_mul n h t) L C _ Hchi Hs Ps Pw PP Pd HL HC).
  f_equal. rewrite (pevalchi_q_mul n chi h t Hchi Hh Ph Ht Pt). field. exact Hnz.
Qed.

(* ------------------------------------------------------------------ *)
(* 3. the dual point of the constrained polynomial relaxation *)
Lemma chi_vec_zero : forall chi (s : qsig), chi_vec chi (map fst s) 0 = map (fun _ => 0) s.
Proof. intros chi s. unfold chi_vec. rewrite map_map. apply map_ext. intros a. ring. Qed.

Lemma poly_constrained_dual_point : poly_constrained_dual_point_stmt.
Proof.
  intros n f t L gms hms x Hx PL HL Pf Hf Hdf Hfne Pt Ht Hdt Htne Hnz Hc1 Hc2 Hm Hg Hh chi w.
  pose proof (poly_pcharacter n x Hx) as Hchi. fold chi in Hchi.
  pose proof (wfL_ref_ok n L HL) as Hr.
  destruct (mul_good n f t Hf Ht Hfne Htne) as [_ (Pw & Pd & _)].
  assert (Et : evalchi chi t = poly_evalR t x) by reflexivity.
  assert (Ef : evalchi chi f = poly_evalR f x) by reflexivity.
  apply Forall_app in Hm as [Hmg Hmh].
  split; [|split; [|split]].
  - unfold w. rewrite (prcv_pairing n chi t (map fst L) _ Hchi Ht Hdt Hr Hc1). rewrite Et. field. exact Hnz.
  - unfold w. rewrite (prcv_pairing n chi (q_mul n f t) (map fst L) _ Hchi Pw Pd Hr Hc2).
    rewrite (pevalchi_q_mul n chi f t Hchi Hf Pf Ht Pt), Et, Ef. field. exact Hnz.
  - rewrite Forall_forall in *. intros m Hin. specialize (Hmg m Hin). specialize (Hg m Hin).
    destruct m as [[s g] C]. cbn [fst snd] in *.
    destruct Hmg as (Ps & Hs & Hds & Hsne & Pg & Hgw & Hdg & Hgne & HC).
    exists (poly_evalR g x). split; [exact Hg|].
    exact (pmultiplier n chi s g t L C Hchi Ps Hs Hds Hsne Pg Hgw Hdg Hgne Pt Ht Hdt Htne PL HL Hnz HC).
  - rewrite Forall_forall in *. intros m Hin. specialize (Hmh m Hin). specialize (Hh m Hin).
    destruct m as [[s h] C]. cbn [fst snd] in *.
    destruct Hmh as (Ps & Hs & Hds & Hsne & Ph & Hhw & Hdh & Hhne & HC).
    etransitivity;
      [exact (pmultiplier n chi s h t L C Hchi Ps Hs Hds Hsne Ph Hhw Hdh Hhne Pt Ht Hdt Htne PL HL Hnz HC)|].
    change (evalchi chi h) with (poly_evalR h x). rewrite Hh. apply chi_vec_zero.
Qed.
