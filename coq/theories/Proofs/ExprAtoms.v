(* Proofs/ExprAtoms.v — atoms of coniclifts scalar expressions: atom_eqb is an equivalence that
   preserves values; the dict ("bag") view of a term list: value_by_keys. *)
From Coq Require Import Reals List Bool Arith ZArith QArith Qreals Lra Lia.
From SageVerif Require Import Math.RVec Model.Expr Model.ExprProg Proofs.ExprSpec.
Import ListNotations.
Open Scope R_scope.

(* ------------------------------------------------------------------ *)
(* Q2R helpers *)
Lemma EQ2R_Qred : forall q, Q2R (Qred q) = Q2R q.
Proof. intros q. apply Qeq_eqR, Qred_correct. Qed.

Lemma EQ2R_0 : Q2R 0 = 0.
Proof. exact RMicromega.Q2R_0. Qed.

Lemma EQ2R_1 : Q2R 1 = 1.
Proof. exact RMicromega.Q2R_1. Qed.

Lemma EQ2R_m1 : Q2R (-1) = -1.
Proof. unfold Q2R; simpl. lra. Qed.

Lemma Qeq_bool_Q2R : forall a b, Qeq_bool a b = true -> Q2R a = Q2R b.
Proof. intros a b H. apply Qeq_eqR, Qeq_bool_iff, H. Qed.

Lemma Qeq_bool_0_Q2R : forall a, Qeq_bool a 0 = true -> Q2R a = 0.
Proof. intros a H. rewrite (Qeq_bool_Q2R _ _ H). apply EQ2R_0. Qed.

(* ------------------------------------------------------------------ *)
(* sums over lists *)
Definition rsumf {A} (f : A -> R) (l : list A) : R := fold_right (fun a acc => f a + acc) 0 l.

Lemma rsumf_app : forall A (f : A -> R) l1 l2, rsumf f (l1 ++ l2) = rsumf f l1 + rsumf f l2.
Proof. intros A f l1 l2. induction l1 as [|x l1 IH]; simpl; [lra | rewrite IH; lra]. Qed.

Lemma rsumf_rev : forall A (f : A -> R) l, rsumf f (rev l) = rsumf f l.
Proof. intros A f l. induction l as [|x l IH]; simpl; auto. rewrite rsumf_app, IH. simpl. lra. Qed.

Lemma rsumf_ext : forall A (f g : A -> R) l, (forall a, In a l -> f a = g a) -> rsumf f l = rsumf g l.
Proof.
  intros A f g l. induction l as [|x l IH]; simpl; intros H; auto.
  rewrite (H x), IH; auto.
Qed.

Lemma rsumf_plus : forall A (f g : A -> R) l, rsumf (fun a => f a + g a) l = rsumf f l + rsumf g l.
Proof. intros A f g l. induction l as [|x l IH]; simpl; [lra | rewrite IH; lra]. Qed.

Lemma rsumf_zero : forall A (f : A -> R) l, (forall a, In a l -> f a = 0) -> rsumf f l = 0.
Proof.
  intros A f l. induction l as [|x l IH]; simpl; intros H; auto.
  rewrite (H x), IH; auto. lra.
Qed.

Lemma rsumf_scale : forall A (f : A -> R) c l, rsumf (fun a => c * f a) l = c * rsumf f l.
Proof. intros A f c l. induction l as [|x l IH]; simpl; [lra | rewrite IH; lra]. Qed.

Lemma rsumf_filter : forall A (p : A -> bool) (f : A -> R) l,
  (forall a, In a l -> p a = false -> f a = 0) -> rsumf f (filter p l) = rsumf f l.
Proof.
  intros A p f l. induction l as [|x l IH]; simpl; intros H; auto.
  destruct (p x) eqn:E; simpl.
  - rewrite IH; auto.
  - rewrite IH, (H x); auto. lra.
Qed.

Lemma rsumf_map : forall A B (g : A -> B) (f : B -> R) l, rsumf f (map g l) = rsumf (fun a => f (g a)) l.
Proof. intros A B g f l. induction l as [|x l IH]; simpl; auto. now rewrite IH. Qed.

(* ------------------------------------------------------------------ *)
(* atom_eqb is an equivalence relation *)
Lemma nlkind_eqb_eq : forall a b, nlkind_eqb a b = true -> a = b.
Proof. intros [] []; simpl; intros H; try reflexivity; discriminate H. Qed.

Lemma nlkind_eqb_refl : forall a, nlkind_eqb a a = true.
Proof. intros []; reflexivity. Qed.

Lemma zq_refl : forall l, zq_list_eqb l l = true.
Proof.
  induction l as [|[i c] l IH]; simpl; auto.
  now rewrite Z.eqb_refl, Qeq_bool_refl, IH.
Qed.

Lemma zq_sym : forall a b, zq_list_eqb a b = true -> zq_list_eqb b a = true.
Proof.
  induction a as [|[i c] a IH]; intros [|[j d] b]; simpl; intros H; auto; try discriminate H.
  apply andb_prop in H as [H H3]. apply andb_prop in H as [H1 H2].
  now rewrite Z.eqb_sym, H1, (Qeq_bool_sym _ _ H2), (IH _ H3).
Qed.

Lemma zq_trans : forall a b c, zq_list_eqb a b = true -> zq_list_eqb b c = true -> zq_list_eqb a c = true.
Proof.
  induction a as [|[i c] a IH]; intros [|[j d] b] [|[k e] c']; simpl; intros H G; auto; try discriminate.
  apply andb_prop in H as [H H3]. apply andb_prop in H as [H1 H2].
  apply andb_prop in G as [G G3]. apply andb_prop in G as [G1 G2].
  apply Z.eqb_eq in H1. apply Z.eqb_eq in G1. subst.
  now rewrite Z.eqb_refl, (Qeq_bool_trans _ _ _ H2 G2), (IH _ _ H3 G3).
Qed.

Lemma aff_refl : forall a, aff_eqb a a = true.
Proof. intros a. unfold aff_eqb. now rewrite zq_refl, Qeq_bool_refl. Qed.

Lemma aff_sym : forall a b, aff_eqb a b = true -> aff_eqb b a = true.
Proof.
  unfold aff_eqb. intros a b H. apply andb_prop in H as [H1 H2].
  now rewrite (zq_sym _ _ H1), (Qeq_bool_sym _ _ H2).
Qed.

Lemma aff_trans : forall a b c, aff_eqb a b = true -> aff_eqb b c = true -> aff_eqb a c = true.
Proof.
  unfold aff_eqb. intros a b c H G. apply andb_prop in H as [H1 H2]. apply andb_prop in G as [G1 G2].
  now rewrite (zq_trans _ _ _ H1 G1), (Qeq_bool_trans _ _ _ H2 G2).
Qed.

Lemma affs_refl : forall l, affs_eqb l l = true.
Proof. induction l as [|x l IH]; simpl; auto. now rewrite aff_refl, IH. Qed.

Lemma affs_sym : forall a b, affs_eqb a b = true -> affs_eqb b a = true.
Proof.
  induction a as [|x a IH]; intros [|y b]; simpl; intros H; auto; try discriminate H.
  apply andb_prop in H as [H1 H2]. now rewrite (aff_sym _ _ H1), (IH _ H2).
Qed.

Lemma affs_trans : forall a b c, affs_eqb a b = true -> affs_eqb b c = true -> affs_eqb a c = true.
Proof.
  induction a as [|x a IH]; intros [|y b] [|z c]; simpl; intros H G; auto; try discriminate.
  apply andb_prop in H as [H1 H2]. apply andb_prop in G as [G1 G2].
  now rewrite (aff_trans _ _ _ H1 G1), (IH _ _ H2 G2).
Qed.

Lemma atom_eqb_refl : forall a, atom_eqb a a = true.
Proof. intros [i|k xs]; simpl. apply Z.eqb_refl. now rewrite nlkind_eqb_refl, affs_refl. Qed.

Lemma atom_eqb_sym : forall a b, atom_eqb a b = true -> atom_eqb b a = true.
Proof.
  intros [i|k xs] [j|l ys]; simpl; intros H; try discriminate H.
  - now rewrite Z.eqb_sym.
  - apply andb_prop in H as [H1 H2]. apply nlkind_eqb_eq in H1. subst.
    now rewrite nlkind_eqb_refl, (affs_sym _ _ H2).
Qed.

Lemma atom_eqb_trans : forall a b c, atom_eqb a b = true -> atom_eqb b c = true -> atom_eqb a c = true.
Proof.
  intros [i|k xs] [j|l ys] [m|n zs]; simpl; intros H G; try discriminate.
  - apply Z.eqb_eq in H. apply Z.eqb_eq in G. subst. apply Z.eqb_refl.
  - apply andb_prop in H as [H1 H2]. apply andb_prop in G as [G1 G2].
    apply nlkind_eqb_eq in H1. apply nlkind_eqb_eq in G1. subst.
    now rewrite nlkind_eqb_refl, (affs_trans _ _ _ H2 G2).
Qed.

(* ------------------------------------------------------------------ *)
(* equal atoms have equal values *)
Definition zqsum (rho : env) (l : list (Z * Q)) : R :=
  fold_right (fun ic acc => Q2R (snd ic) * rho (fst ic) + acc) 0 l.

Lemma aff_val_eq : forall rho a, aff_val rho a = zqsum rho (fst a) + Q2R (snd a).
Proof. reflexivity. Qed.

Lemma zq_val : forall rho a b, zq_list_eqb a b = true -> zqsum rho a = zqsum rho b.
Proof.
  intros rho. induction a as [|[i c] a IH]; intros [|[j d] b]; simpl; intros H; auto; try discriminate H.
  apply andb_prop in H as [H H3]. apply andb_prop in H as [H1 H2].
  apply Z.eqb_eq in H1. subst. now rewrite (Qeq_bool_Q2R _ _ H2), (IH _ H3).
Qed.

Lemma aff_eqb_val : forall rho a b, aff_eqb a b = true -> aff_val rho a = aff_val rho b.
Proof.
  intros rho a b H. unfold aff_eqb in H. apply andb_prop in H as [H1 H2].
  rewrite !aff_val_eq. now rewrite (zq_val rho _ _ H1), (Qeq_bool_Q2R _ _ H2).
Qed.

Lemma affs_eqb_val : forall rho a b, affs_eqb a b = true -> map (aff_val rho) a = map (aff_val rho) b.
Proof.
  intros rho. induction a as [|x a IH]; intros [|y b]; simpl; intros H; auto; try discriminate H.
  apply andb_prop in H as [H1 H2]. now rewrite (aff_eqb_val rho _ _ H1), (IH _ H2).
Qed.

Lemma atom_eqb_value : atom_eqb_value_stmt.
Proof.
  intros rho [i|k xs] [j|l ys]; simpl; intros H; try discriminate H.
  - apply Z.eqb_eq in H. now subst.
  - apply andb_prop in H as [H1 H2]. apply nlkind_eqb_eq in H1. subst.
    now rewrite (affs_eqb_val rho _ _ H2).
Qed.

(* values depend on the environment only through the variable ids of the atom *)
Lemma zqsum_ext : forall rho rho' l, (forall i, In i (map fst l) -> rho i = rho' i) -> zqsum rho l = zqsum rho' l.
Proof.
  intros rho rho'. induction l as [|[i c] l IH]; simpl; intros H; auto.
  rewrite (H i), IH; auto.
Qed.

Lemma aff_val_ext : forall rho rho' a,
  (forall i, In i (map fst (fst a)) -> rho i = rho' i) -> aff_val rho a = aff_val rho' a.
Proof. intros rho rho' a H. rewrite !aff_val_eq. now rewrite (zqsum_ext rho rho' _ H). Qed.

Lemma atom_val_ext : forall rho rho' a,
  (forall i, In i (atom_var_ids a) -> rho i = rho' i) -> atom_val rho a = atom_val rho' a.
Proof.
  intros rho rho' [i|k args]; simpl; intros H.
  - apply H. now left.
  - f_equal. apply map_ext_in. intros af Haf. apply aff_val_ext.
    intros i Hi. apply H. apply in_flat_map. exists af. split; auto.
Qed.

(* ------------------------------------------------------------------ *)
(* membership up to atom_eqb, duplicate-freeness *)
Lemma mem_atom_iff : forall a l, mem_atom a l = true <-> exists x, In x l /\ atom_eqb a x = true.
Proof.
  intros a. induction l as [|y l IH]; simpl.
  - split; [discriminate | intros [x [[] _]]].
  - rewrite orb_true_iff, IH. split.
    + intros [H | [x [H1 H2]]]; [exists y | exists x]; auto.
    + intros [x [[->|H1] H2]]; [left | right; exists x]; auto.
Qed.

Lemma mem_atom_false : forall a l, mem_atom a l = false -> forall x, In x l -> atom_eqb a x = false.
Proof.
  intros a l H x Hx. destruct (atom_eqb a x) eqn:E; auto.
  assert (mem_atom a l = true) by (apply mem_atom_iff; exists x; auto). congruence.
Qed.

Lemma mem_atom_congr : forall a b l, atom_eqb a b = true -> mem_atom b l = true -> mem_atom a l = true.
Proof.
  intros a b l H G. apply mem_atom_iff in G as [x [G1 G2]]. apply mem_atom_iff.
  exists x. split; auto. eapply atom_eqb_trans; eauto.
Qed.

Lemma mem_atom_app : forall a l1 l2, mem_atom a (l1 ++ l2) = mem_atom a l1 || mem_atom a l2.
Proof. intros a l1 l2. induction l1 as [|x l1 IH]; simpl; auto. now rewrite IH, orb_assoc. Qed.

Lemma mem_atom_rev : forall a l, mem_atom a (rev l) = mem_atom a l.
Proof.
  intros a l. induction l as [|x l IH]; simpl; auto.
  rewrite mem_atom_app, IH. simpl. rewrite orb_false_r. apply orb_comm.
Qed.

Lemma mem_atom_In : forall a l, In a l -> mem_atom a l = true.
Proof. intros a l H. apply mem_atom_iff. exists a. split; auto. apply atom_eqb_refl. Qed.

Inductive NoDupE : list atom -> Prop :=
| NDE_nil : NoDupE []
| NDE_cons : forall x l, mem_atom x l = false -> NoDupE l -> NoDupE (x :: l).

Lemma NoDupE_app : forall l1 l2, NoDupE l1 -> NoDupE l2 ->
  (forall x, In x l1 -> mem_atom x l2 = false) -> NoDupE (l1 ++ l2).
Proof.
  induction l1 as [|x l1 IH]; simpl; intros l2 H1 H2 H; auto.
  inversion H1; subst. constructor.
  - rewrite mem_atom_app, H4. simpl. apply H. now left.
  - apply IH; auto.
Qed.

Lemma NoDupE_rev : forall l, NoDupE l -> NoDupE (rev l).
Proof.
  induction 1 as [|x l Hx Hl IH]; simpl. constructor.
  apply NoDupE_app; auto.
  - constructor; [reflexivity | constructor].
  - intros y Hy. simpl. rewrite orb_false_r.
    destruct (atom_eqb y x) eqn:E; auto.
    apply atom_eqb_sym in E. apply in_rev in Hy.
    now rewrite (mem_atom_false _ _ Hx y Hy) in E.
Qed.

(* the keys of an expression are duplicate-free and cover all terms *)
Definition kstep (acc : list atom) (t : atom * Q) : list atom :=
  if mem_atom (fst t) acc then acc else fst t :: acc.

Lemma keys_eq : forall e, keys e = rev (fold_left kstep (terms e) []).
Proof. reflexivity. Qed.

Lemma kfold_inv : forall l acc, NoDupE acc ->
  NoDupE (fold_left kstep l acc) /\
  (forall a, mem_atom a acc = true -> mem_atom a (fold_left kstep l acc) = true) /\
  (forall t, In t l -> mem_atom (fst t) (fold_left kstep l acc) = true) /\
  (forall a, In a (fold_left kstep l acc) -> In a acc \/ In a (map fst l)).
Proof.
  induction l as [|t l IH]; simpl; intros acc Hacc.
  - repeat split; auto; try (intros t []; fail).
  - assert (Hs : NoDupE (kstep acc t)).
    { unfold kstep. destruct (mem_atom (fst t) acc) eqn:E; auto. now constructor. }
    assert (Hm : forall a, mem_atom a acc = true -> mem_atom a (kstep acc t) = true).
    { intros a Ha. unfold kstep. destruct (mem_atom (fst t) acc); auto. simpl. rewrite Ha. apply orb_true_r. }
    assert (Ht : mem_atom (fst t) (kstep acc t) = true).
    { unfold kstep. destruct (mem_atom (fst t) acc) eqn:E; auto. simpl. now rewrite atom_eqb_refl. }
    destruct (IH _ Hs) as (I1 & I2 & I3 & I4). repeat split; auto.
    + intros t' [<-|Ht']; auto.
    + intros a Ha. destruct (I4 a Ha) as [H|H]; auto.
      unfold kstep in H. destruct (mem_atom (fst t) acc); auto.
      destruct H as [<-|H]; auto.
Qed.

Lemma keys_nodup : forall e, NoDupE (keys e).
Proof. intros e. rewrite keys_eq. apply NoDupE_rev. apply (kfold_inv (terms e) []). constructor. Qed.

Lemma keys_cover : forall e t, In t (terms e) -> mem_atom (fst t) (keys e) = true.
Proof.
  intros e t H. rewrite keys_eq, mem_atom_rev.
  destruct (kfold_inv (terms e) [] NDE_nil) as (_ & _ & I3 & _). auto.
Qed.

Lemma keys_in_terms : forall e a, In a (keys e) -> In a (map fst (terms e)).
Proof.
  intros e a H. rewrite keys_eq in H. apply in_rev in H.
  destruct (kfold_inv (terms e) [] NDE_nil) as (_ & _ & _ & I4).
  destruct (I4 a H) as [[]|]; auto.
Qed.

(* ------------------------------------------------------------------ *)
(* coefficients as reals *)
Definition coefR (a : atom) (l : list (atom * Q)) : R :=
  fold_right (fun t s => if atom_eqb (fst t) a then Q2R (snd t) + s else s) 0 l.

Lemma coeff_of_R : forall a e, Q2R (coeff_of a e) = coefR a (terms e).
Proof.
  intros a e. unfold coeff_of. rewrite EQ2R_Qred.
  assert (G : forall l acc,
    Q2R (fold_left (fun acc t => if atom_eqb (fst t) a then (acc + snd t)%Q else acc) l acc)
    = Q2R acc + coefR a l).
  { induction l as [|t l IH]; simpl; intros acc; [lra|].
    rewrite IH. destruct (atom_eqb (fst t) a); [rewrite Q2R_plus|]; lra. }
  rewrite G, EQ2R_0. lra.
Qed.

Definition tsum (rho : env) (l : list (atom * Q)) : R :=
  rsumf (fun t => Q2R (snd t) * atom_val rho (fst t)) l.

Lemma value_eq : forall rho e, value rho e = tsum rho (terms e) + Q2R (off e).
Proof. reflexivity. Qed.

Lemma bag_single : forall rho a c ks, NoDupE ks ->
  rsumf (fun k => (if atom_eqb a k then c else 0) * atom_val rho k) ks
  = if mem_atom a ks then c * atom_val rho a else 0.
Proof.
  intros rho a c ks H. induction H as [|k ks Hk Hks IH]; simpl; auto.
  destruct (atom_eqb a k) eqn:E; simpl.
  - assert (Hf : mem_atom a ks = false).
    { destruct (mem_atom a ks) eqn:F; auto.
      rewrite (mem_atom_congr k a ks (atom_eqb_sym _ _ E) F) in Hk. discriminate. }
    rewrite IH, Hf, (atom_eqb_value rho _ _ E). lra.
  - rewrite IH. lra.
Qed.

Lemma bag : forall rho ks l, NoDupE ks ->
  rsumf (fun k => coefR k l * atom_val rho k) ks
  = rsumf (fun t => if mem_atom (fst t) ks then Q2R (snd t) * atom_val rho (fst t) else 0) l.
Proof.
  intros rho ks l H. induction l as [|t l IH]; simpl.
  - apply rsumf_zero. intros; lra.
  - rewrite <- IH, <- (bag_single rho (fst t) (Q2R (snd t)) ks H), <- rsumf_plus.
    apply rsumf_ext. intros k _. destruct (atom_eqb (fst t) k); lra.
Qed.

Lemma bag_cover : forall rho ks l, NoDupE ks ->
  (forall t, In t l -> mem_atom (fst t) ks = true) ->
  tsum rho l = rsumf (fun k => coefR k l * atom_val rho k) ks.
Proof.
  intros rho ks l H C. rewrite bag; auto. apply rsumf_ext.
  intros t Ht. now rewrite (C t Ht).
Qed.

Lemma value_by_keys : value_by_keys_stmt.
Proof.
  intros rho e. rewrite value_eq. f_equal.
  rewrite (bag_cover rho (keys e) (terms e) (keys_nodup e) (keys_cover e)).
  apply rsumf_ext. intros k _. now rewrite coeff_of_R.
Qed.

(* value over an arbitrary duplicate-free cover *)
Lemma value_by_cover : forall rho e ks, NoDupE ks ->
  (forall t, In t (terms e) -> mem_atom (fst t) ks = true) ->
  value rho e = rsumf (fun k => Q2R (coeff_of k e) * atom_val rho k) ks + Q2R (off e).
Proof.
  intros rho e ks H C. rewrite value_eq. f_equal. rewrite (bag_cover rho ks _ H C).
  apply rsumf_ext. intros k _. now rewrite coeff_of_R.
Qed.

(* only live keys matter *)
Lemma value_live : forall rho e,
  value rho e = rsumf (fun a => Q2R (coeff_of a e) * atom_val rho a) (live_keys e) + Q2R (off e).
Proof.
  intros rho e. rewrite value_by_keys. f_equal. unfold live_keys. symmetry.
  apply (rsumf_filter _ _ (fun a => Q2R (coeff_of a e) * atom_val rho a)).
  intros a _ Ha. apply negb_false_iff in Ha. rewrite (Qeq_bool_0_Q2R _ Ha). lra.
Qed.
