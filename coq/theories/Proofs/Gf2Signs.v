(* Proofs/Gf2Signs.v — linear_system_negatives / variable_sign_patterns. *)
From Coq Require Import List Bool Arith ZArith Lia.
From SageVerif Require Import Model.Gf2 Proofs.Gf2Spec Proofs.Gf2Lemmas Proofs.Gf2Rref
  Proofs.Gf2Solve Proofs.Gf2Null.
Import ListNotations.

(* ------------------------------------------------------------------ *)
(* scatter / select                                                    *)
(* ------------------------------------------------------------------ *)

Definition sc_step (v : row) (jw : nat * bool) : row := set_nth (fst jw) (snd jw) v.

Lemma scatter_unfold : forall n W xw,
  scatter n W xw = fold_left sc_step (combine W xw) (repeat false n).
Proof. reflexivity. Qed.

Lemma sc_length : forall W xw acc, length (fold_left sc_step (combine W xw) acc) = length acc.
Proof.
  induction W as [|p W IH]; intros [|v xw] acc; simpl; try reflexivity.
  rewrite IH. unfold sc_step. apply set_nth_length.
Qed.

Lemma sc_notin : forall W xw acc j, ~ In j W ->
  bit j (fold_left sc_step (combine W xw) acc) = bit j acc.
Proof.
  induction W as [|p W IH]; intros [|v xw] acc j Hnin; simpl; try reflexivity.
  rewrite IH.
  - unfold sc_step. simpl. apply bit_set_nth_neq. intro E. apply Hnin. left. symmetry. exact E.
  - intro H. apply Hnin. right. exact H.
Qed.

Lemma sc_in : forall W xw acc t, NoDup W -> (forall p, In p W -> p < length acc) ->
  t < length W -> length xw = length W ->
  bit (nth t W 0) (fold_left sc_step (combine W xw) acc) = nth t xw false.
Proof.
  induction W as [|p W IH]; intros [|v xw] acc t Hnd Hlt Ht Hl; simpl in *; try lia.
  apply NoDup_cons_iff in Hnd. destruct Hnd as [Hnin Hnd'].
  destruct t as [|t].
  - rewrite sc_notin by exact Hnin. unfold sc_step. simpl.
    apply bit_set_nth_eq. apply Hlt. left. reflexivity.
  - apply IH.
    + exact Hnd'.
    + intros q Hq. unfold sc_step. rewrite set_nth_length. apply Hlt. right. exact Hq.
    + lia.
    + lia.
Qed.

Lemma dotb_set_nth_zero : forall p r v acc, p < length acc -> bit p acc = false ->
  dotb r (set_nth p v acc) = xorb (dotb r acc) (bit p r && v).
Proof.
  induction p as [|p IH]; intros [|u r] v [|z acc] Hp Hz; simpl in *; try lia;
    rewrite ?bit_nil; try reflexivity.
  - rewrite bit_0 in Hz. subst z. rewrite bit_0.
    destruct u, v, (dotb r acc); reflexivity.
  - rewrite bit_S in Hz. rewrite bit_S. rewrite IH by (try lia; exact Hz).
    destruct (u && z), (dotb r acc), (bit p r && v); reflexivity.
Qed.

Lemma select_cons : forall (A : Type) p W (l : list A) d,
  select (p :: W) l d = nth p l d :: select W l d.
Proof. reflexivity. Qed.

Lemma select_length : forall (A : Type) W (l : list A) d, length (select W l d) = length W.
Proof. intros. unfold select. apply map_length. Qed.

Lemma select_nth : forall W (r : row) t, t < length W ->
  nth t (select W r false) false = bit (nth t W 0) r.
Proof.
  intros W r t Ht. unfold select.
  rewrite (nth_map_lt nat bool (fun i => nth i r false) W t false 0) by exact Ht. reflexivity.
Qed.

Lemma sc_dotb : forall W xw acc r, NoDup W -> (forall p, In p W -> p < length acc) ->
  (forall p, In p W -> bit p acc = false) ->
  dotb r (fold_left sc_step (combine W xw) acc) =
  xorb (dotb r acc) (dotb (select W r false) xw).
Proof.
  induction W as [|p W IH]; intros xw acc r Hnd Hlt Hz.
  - simpl. rewrite xorb_false_r. reflexivity.
  - destruct xw as [|v xw].
    + simpl. rewrite xorb_false_r. reflexivity.
    + apply NoDup_cons_iff in Hnd. destruct Hnd as [Hnin Hnd'].
      rewrite select_cons. cbn [combine fold_left dotb].
      rewrite IH.
      * unfold sc_step. cbn [fst snd].
        rewrite dotb_set_nth_zero.
        -- fold (bit p r).
           destruct (dotb r acc), (bit p r && v), (dotb (select W r false) xw); reflexivity.
        -- apply Hlt. left. reflexivity.
        -- apply Hz. left. reflexivity.
      * exact Hnd'.
      * intros q Hq. unfold sc_step. rewrite set_nth_length. apply Hlt. right. exact Hq.
      * intros q Hq. unfold sc_step. cbn [fst snd]. rewrite bit_set_nth_neq.
        apply Hz. right. exact Hq. intro E. subst q. apply Hnin. exact Hq.
Qed.

Section Scatter.
  Variables (n : nat) (W : list nat).
  Hypothesis HndW : NoDup W.
  Hypothesis HltW : forall p, In p W -> p < n.

  Lemma scatter_length : forall v, length (scatter n W v) = n.
  Proof. intro v. rewrite scatter_unfold. rewrite sc_length. apply repeat_length. Qed.

  Lemma scatter_notin : forall v j, ~ In j W -> bit j (scatter n W v) = false.
  Proof.
    intros v j Hj. rewrite scatter_unfold. rewrite sc_notin by exact Hj. apply (bit_zeros n j).
  Qed.

  Lemma scatter_in : forall v t, t < length W -> length v = length W ->
    bit (nth t W 0) (scatter n W v) = nth t v false.
  Proof.
    intros v t Ht Hl. rewrite scatter_unfold. apply sc_in.
    - exact HndW.
    - intros p Hp. rewrite repeat_length. apply HltW. exact Hp.
    - exact Ht.
    - exact Hl.
  Qed.

  Lemma dotb_scatter : forall r v, dotb r (scatter n W v) = dotb (select W r false) v.
  Proof.
    intros r v. rewrite scatter_unfold. rewrite sc_dotb.
    - change (repeat false n) with (zeros n). rewrite (dotb_zeros_r n r). apply xorb_false_l.
    - exact HndW.
    - intros p Hp. rewrite repeat_length. apply HltW. exact Hp.
    - intros p _. apply (bit_zeros n p).
  Qed.

  Lemma scatter_select : forall r, length r = n ->
    (forall j, j < n -> ~ In j W -> bit j r = false) ->
    scatter n W (select W r false) = r.
  Proof.
    intros r Lr Hz. apply row_ext.
    - rewrite scatter_length. symmetry. exact Lr.
    - intros j Hj. rewrite scatter_length in Hj.
      destruct (in_dec Nat.eq_dec j W) as [Hin|Hnin].
      + destruct (In_nth W j 0 Hin) as [t [Ht E]]. subst j.
        rewrite scatter_in.
        * apply select_nth. exact Ht.
        * exact Ht.
        * apply select_length.
      + rewrite scatter_notin by exact Hnin. symmetry. apply Hz; assumption.
  Qed.

  Lemma select_xor_scatter : forall v0 xw, length v0 = length W -> length xw = length W ->
    select W (xorrow (scatter n W v0) (scatter n W xw)) false = xorrow v0 xw.
  Proof.
    intros v0 xw L0 Lx. apply row_ext.
    - rewrite select_length. rewrite xorrow_length; lia.
    - intros t Ht. rewrite select_length in Ht.
      unfold bit at 1. rewrite select_nth by exact Ht.
      rewrite bit_xorrow by (rewrite !scatter_length; reflexivity).
      rewrite !scatter_in by assumption.
      rewrite bit_xorrow by lia. reflexivity.
  Qed.
End Scatter.

(* ------------------------------------------------------------------ *)
(* parity rows                                                         *)
(* ------------------------------------------------------------------ *)

Lemma existsb_bit : forall r : row, existsb (fun b => b) r = true <-> exists j, bit j r = true.
Proof.
  induction r as [|x r IH]; simpl.
  - split. discriminate. intros [j Hj]. rewrite bit_nil in Hj. discriminate.
  - split.
    + intros H. apply orb_true_iff in H. destruct H as [H|H].
      * exists 0. rewrite bit_0. exact H.
      * apply IH in H. destruct H as [j Hj]. exists (S j). rewrite bit_S. exact Hj.
    + intros [j Hj]. destruct j as [|j].
      * rewrite bit_0 in Hj. subst x. reflexivity.
      * rewrite bit_S in Hj. apply orb_true_iff. right. apply IH. exists j. exact Hj.
Qed.

Lemma bit_true_lt : forall j (r : row), bit j r = true -> j < length r.
Proof.
  intros j r H. destruct (Nat.lt_ge_cases j (length r)) as [Hl|Hl]. exact Hl.
  rewrite bit_overflow in H by exact Hl. discriminate.
Qed.

Lemma existsb_map_par : forall l : list Z,
  existsb (fun b => b) (map par l) = false -> forallb (fun z => negb (par z)) l = true.
Proof.
  induction l as [|z l IH]; simpl; intro H. reflexivity.
  apply orb_false_iff in H. destruct H as [H1 H2]. rewrite H1. simpl. apply IH. exact H2.
Qed.

(* ------------------------------------------------------------------ *)
(* the pieces of linear_system_negatives                               *)
(* ------------------------------------------------------------------ *)

Definition lsnU (alpha : zmat) (moments : list Z) : list nat :=
  filter (fun i => negb (Z.eqb (nth i moments 0%Z) 0)
                   && existsb (fun b => b) (nth i (parmat alpha) []))
         (seq 0 (length (parmat alpha))).

Definition lsnW (n : nat) (alpha : zmat) (moments : list Z) : list nat :=
  filter (fun j => existsb (fun r => bit j r) (select (lsnU alpha moments) (parmat alpha) []))
         (seq 0 n).

Definition lsnA1 (n : nat) (alpha : zmat) (moments : list Z) : mat :=
  map (fun r => select (lsnW n alpha moments) r false)
      (select (lsnU alpha moments) (parmat alpha) []).

Definition lsnB (alpha : zmat) (moments : list Z) : row :=
  map (fun i => Z.ltb (nth i moments 0%Z) 0) (lsnU alpha moments).

Lemma lsn_unfold : forall n alpha moments,
  linear_system_negatives n alpha moments =
  match lsnU alpha moments with
  | [] => LsnTrivial (repeat false n)
  | _ :: _ =>
    match lsnW n alpha moments with
    | [] => LsnTrivial (repeat false n)
    | _ :: _ =>
      match mod2linsolve (length (lsnW n alpha moments)) (lsnA1 n alpha moments)
                         (lsnB alpha moments) with
      | None => LsnInconsistent (lsnA1 n alpha moments) (lsnU alpha moments) (lsnW n alpha moments)
      | Some xw => LsnSolved (scatter n (lsnW n alpha moments) xw) (lsnA1 n alpha moments)
                             (lsnU alpha moments) (lsnW n alpha moments)
      end
    end
  end.
Proof. reflexivity. Qed.

Section Signs.
  Variables (n : nat) (alpha : zmat) (moments : list Z).
  Hypothesis Hwfz : wfz n alpha.
  Hypothesis Hlen : length moments = length alpha.
  Hypothesis Heven : even_moments_nonneg alpha moments.

  Local Notation U := (lsnU alpha moments).
  Local Notation W := (lsnW n alpha moments).
  Local Notation a1 := (lsnA1 n alpha moments).
  Local Notation bb := (lsnB alpha moments).
  Local Notation arow i := (nth i (parmat alpha) []).
  Local Notation mom i := (nth i moments 0%Z).

  Lemma parmat_length : length (parmat alpha) = length alpha.
  Proof. unfold parmat. apply map_length. Qed.

  Lemma arow_eq : forall i, i < length alpha -> arow i = map par (nth i alpha []).
  Proof.
    intros i Hi. unfold parmat.
    apply (nth_map_lt (list Z) row (map par) alpha i [] []). exact Hi.
  Qed.

  Lemma alpha_row_len : forall i, i < length alpha -> length (nth i alpha []) = n.
  Proof.
    intros i Hi. unfold wfz in Hwfz. rewrite Forall_forall in Hwfz. apply Hwfz.
    apply nth_In. exact Hi.
  Qed.

  Lemma arow_len : forall i, i < length alpha -> length (arow i) = n.
  Proof. intros i Hi. rewrite arow_eq by exact Hi. rewrite map_length. apply alpha_row_len. exact Hi. Qed.

  Lemma U_In : forall i, In i U <->
    i < length alpha /\ mom i <> 0%Z /\ existsb (fun b => b) (arow i) = true.
  Proof.
    intro i. unfold lsnU. rewrite filter_In. rewrite in_seq. rewrite parmat_length.
    rewrite andb_true_iff. rewrite negb_true_iff. rewrite Z.eqb_neq.
    split.
    - intros [H1 [H2 H3]]. split. lia. split; assumption.
    - intros [H1 [H2 H3]]. split. lia. split; assumption.
  Qed.

  Lemma W_In : forall j, In j W <-> j < n /\ exists i, In i U /\ bit j (arow i) = true.
  Proof.
    intro j. unfold lsnW. rewrite filter_In. rewrite in_seq. rewrite existsb_exists.
    split.
    - intros [H1 [r [Hr Hb]]]. split. lia.
      unfold select in Hr. apply in_map_iff in Hr. destruct Hr as [i [E Hi]].
      exists i. split. exact Hi. rewrite E. exact Hb.
    - intros [H1 [i [Hi Hb]]]. split. lia.
      exists (arow i). split. 2: exact Hb.
      unfold select. apply in_map_iff. exists i. split. reflexivity. exact Hi.
  Qed.

  Lemma W_NoDup : NoDup W.
  Proof. unfold lsnW. apply NoDup_filter. apply seq_NoDup. Qed.

  Lemma W_lt : forall p, In p W -> p < n.
  Proof. intros p Hp. apply W_In in Hp. destruct Hp as [H _]. exact H. Qed.

  Lemma consistent_iff_U : forall y, consistent alpha moments y <->
    (forall i, In i U -> dotb (arow i) y = Z.ltb (mom i) 0).
  Proof.
    intro y. unfold consistent, prod_negative. split.
    - intros H i Hi. apply U_In in Hi. destruct Hi as [H1 [H2 H3]].
      rewrite arow_eq by exact H1. apply H; assumption.
    - intros H i Hi Hm. rewrite <- arow_eq by exact Hi.
      destruct (existsb (fun b => b) (arow i)) eqn:Ee.
      + apply H. apply U_In. split. exact Hi. split; assumption.
      + rewrite dotb_all_false by exact Ee.
        rewrite arow_eq in Ee by exact Hi. apply existsb_map_par in Ee.
        pose proof (Heven i Hi Ee) as Hnn.
        symmetry. apply Z.ltb_ge. exact Hnn.
  Qed.

  Lemma row_offW : forall i j, In i U -> j < n -> ~ In j W -> bit j (arow i) = false.
  Proof.
    intros i j Hi Hj Hnin. destruct (bit j (arow i)) eqn:Eb. 2: reflexivity.
    exfalso. apply Hnin. apply W_In. split. exact Hj. exists i. split; assumption.
  Qed.

  Lemma dotb_select : forall i y, In i U ->
    dotb (arow i) y = dotb (select W (arow i) false) (select W y false).
  Proof.
    intros i y Hi.
    assert (i < length alpha) as Hil. { apply U_In in Hi. destruct Hi as [H _]. exact H. }
    rewrite dotb_comm.
    rewrite <- (scatter_select n W W_NoDup W_lt (arow i)) at 1.
    - rewrite (dotb_scatter n W W_NoDup W_lt). apply dotb_comm.
    - apply arow_len. exact Hil.
    - intros j Hj Hnin. apply (row_offW i j Hi Hj Hnin).
  Qed.

  Lemma a1_eq : a1 = map (fun i => select W (arow i) false) U.
  Proof. unfold lsnA1, select at 2. rewrite map_map. reflexivity. Qed.

  Lemma a1_length : length a1 = length U.
  Proof. rewrite a1_eq. apply map_length. Qed.

  Lemma bb_length : length bb = length U.
  Proof. unfold lsnB. apply map_length. Qed.

  Lemma a1_wf : wf (length W) a1.
  Proof.
    apply wf_intro. intros r Hr. rewrite a1_eq in Hr. apply in_map_iff in Hr.
    destruct Hr as [i [E _]]. subst r. apply select_length.
  Qed.

  Lemma Sat_iff : forall x, mulmv a1 x = bb <->
    (forall i, In i U -> dotb (select W (arow i) false) x = Z.ltb (mom i) 0).
  Proof.
    intro x. unfold mulmv. rewrite a1_eq. rewrite map_map. unfold lsnB.
    apply map_eq_in.
  Qed.

  Lemma Ker_iff : forall x, mulmv a1 x = zeros (length a1) <->
    (forall i, In i U -> dotb (select W (arow i) false) x = false).
  Proof.
    intro x. rewrite mulmv_zeros_ksat. unfold ksat. split.
    - intros H i Hi. apply H. rewrite a1_eq. apply in_map_iff. exists i. split. reflexivity. exact Hi.
    - intros H r Hr. rewrite a1_eq in Hr. apply in_map_iff in Hr. destruct Hr as [i [E Hi]].
      subst r. apply H. exact Hi.
  Qed.

  Lemma consistent_iff_Sat : forall y,
    consistent alpha moments y <-> mulmv a1 (select W y false) = bb.
  Proof.
    intro y. rewrite consistent_iff_U. rewrite Sat_iff. split.
    - intros H i Hi. rewrite <- dotb_select by exact Hi. apply H. exact Hi.
    - intros H i Hi. rewrite dotb_select by exact Hi. apply H. exact Hi.
  Qed.

  Lemma relevant_W : forall j, relevant alpha moments j -> In j W.
  Proof.
    intros j [i [Hi [Hm Hp]]].
    assert (j < n) as Hj.
    { destruct (Nat.lt_ge_cases j n) as [Hl|Hl]. exact Hl.
      rewrite nth_overflow in Hp. discriminate. rewrite alpha_row_len by exact Hi. exact Hl. }
    assert (bit j (arow i) = true) as Hb.
    { rewrite arow_eq by exact Hi. unfold bit.
      rewrite (nth_map_lt Z bool par (nth i alpha []) j false 0%Z). exact Hp.
      rewrite alpha_row_len by exact Hi. exact Hj. }
    apply W_In. split. exact Hj. exists i. split. 2: exact Hb.
    apply U_In. split. exact Hi. split. exact Hm. apply existsb_bit. exists j. exact Hb.
  Qed.

  Lemma U_nonempty_W_nonempty : U <> [] -> W <> [].
  Proof.
    intros HU HW. destruct U as [|i0 U'] eqn:EU. congruence.
    assert (In i0 U) as Hi0. { rewrite EU. left. reflexivity. }
    pose proof Hi0 as Hi0'. apply U_In in Hi0'. destruct Hi0' as [H1 [H2 H3]].
    apply existsb_bit in H3. destruct H3 as [j Hj].
    assert (In j W) as HjW.
    { apply W_In. split.
      - rewrite <- (arow_len i0 H1). apply bit_true_lt. exact Hj.
      - exists i0. split. exact Hi0. exact Hj. }
    rewrite HW in HjW. destruct HjW.
  Qed.

  (* --- case analysis of linear_system_negatives --- *)

  Lemma lsn_trivial : forall x, linear_system_negatives n alpha moments = LsnTrivial x ->
    x = repeat false n /\ (forall y, consistent alpha moments y) /\
    (forall j, ~ relevant alpha moments j).
  Proof using Hwfz Hlen Heven.
    intros x H. rewrite lsn_unfold in H.
    destruct U as [|i0 U'] eqn:EU.
    - injection H as H. split. symmetry. exact H. split.
      + intro y. apply consistent_iff_U. rewrite EU. intros i [].
      + intros j Hr. apply relevant_W in Hr. apply W_In in Hr.
        destruct Hr as [_ [i [Hi _]]]. rewrite EU in Hi. destruct Hi.
    - assert (W <> []) as HW. { apply U_nonempty_W_nonempty. rewrite EU. discriminate. }
      destruct W as [|j0 W'] eqn:EW. congruence.
      destruct (mod2linsolve _ _ _); discriminate.
  Qed.

  Lemma a1_nonempty : U <> [] -> a1 <> [].
  Proof.
    intros HU E. apply HU. apply length_zero_iff_nil. rewrite <- a1_length. rewrite E. reflexivity.
  Qed.

  Lemma lsn_inconsistent : forall A' U' W',
    linear_system_negatives n alpha moments = LsnInconsistent A' U' W' ->
    forall y, length y = n -> ~ consistent alpha moments y.
  Proof using Hwfz Hlen Heven.
    intros A' U' W' H y Ly Hc. rewrite lsn_unfold in H.
    destruct U as [|i0 U'0] eqn:EU. discriminate.
    destruct W as [|j0 W'0] eqn:EW. discriminate.
    destruct (mod2linsolve (length (j0 :: W'0)) a1 bb) as [xw|] eqn:EL. discriminate.
    rewrite <- EW in EL.
    assert (U <> []) as HU. { rewrite EU. discriminate. }
    apply (linsolve_complete_holds (length W) a1 bb a1_wf (a1_nonempty HU)
             (eq_trans bb_length (eq_sym a1_length)) EL (select W y false)).
    - apply select_length.
    - apply consistent_iff_Sat. exact Hc.
  Qed.

  Lemma lsn_solved : forall x A' U' W',
    linear_system_negatives n alpha moments = LsnSolved x A' U' W' ->
    A' = a1 /\ W' = W /\ a1 <> [] /\
    exists xw, x = scatter n W xw /\ length xw = length W /\ mulmv a1 xw = bb.
  Proof.
    intros x A' U' W' H. rewrite lsn_unfold in H.
    destruct U as [|i0 U'0] eqn:EU. discriminate.
    destruct W as [|j0 W'0] eqn:EW. discriminate.
    destruct (mod2linsolve (length (j0 :: W'0)) a1 bb) as [xw|] eqn:EL. 2: discriminate.
    rewrite <- EW in EL. rewrite <- EW in H. rewrite <- EW.
    assert (U <> []) as HU. { rewrite EU. discriminate. }
    injection H as E1 E2 E3 E4.
    destruct (linsolve_sound_holds (length W) a1 bb xw a1_wf (a1_nonempty HU)
                (eq_trans bb_length (eq_sym a1_length)) EL) as [Lx Hx].
    split. symmetry. exact E2. split. symmetry. exact E4. split.
    apply a1_nonempty. exact HU.
    exists xw. split. symmetry. exact E1. split. exact Lx.
    exact Hx.
  Qed.

  (* --- the solved case: patterns <-> kernel vectors --- *)

  Lemma solved_sound : forall xw v0, length xw = length W -> mulmv a1 xw = bb ->
    length v0 = length W -> mulmv a1 v0 = zeros (length a1) ->
    length (xorrow (scatter n W v0) (scatter n W xw)) = n /\
    consistent alpha moments (xorrow (scatter n W v0) (scatter n W xw)).
  Proof using Hwfz Hlen Heven.
    intros xw v0 Lx Hx L0 H0. split.
    - rewrite xorrow_length; rewrite !(scatter_length n W); reflexivity.
    - apply consistent_iff_Sat.
      rewrite (select_xor_scatter n W W_NoDup W_lt v0 xw L0 Lx).
      apply Sat_iff. intros i Hi. rewrite dotb_xorrow_r by lia.
      rewrite (proj1 (Ker_iff v0) H0 i Hi). rewrite (proj1 (Sat_iff xw) Hx i Hi).
      apply xorb_false_l.
  Qed.

  Lemma solved_complete : forall xw y, length xw = length W -> mulmv a1 xw = bb ->
    length y = n -> consistent alpha moments y ->
    (forall j, j < n -> ~ relevant alpha moments j -> nth j y false = false) ->
    exists v0, length v0 = length W /\ mulmv a1 v0 = zeros (length a1) /\
               y = xorrow (scatter n W v0) (scatter n W xw).
  Proof using Hwfz Hlen Heven.
    intros xw y Lx Hx Ly Hc Hirr.
    assert (length (select W y false) = length W) as Ls by apply select_length.
    exists (xorrow (select W y false) xw).
    assert (length (xorrow (select W y false) xw) = length W) as Lv.
    { rewrite xorrow_length; lia. }
    split. exact Lv. split.
    - apply Ker_iff. intros i Hi. rewrite dotb_xorrow_r by lia.
      apply consistent_iff_Sat in Hc.
      rewrite (proj1 (Sat_iff _) Hc i Hi). rewrite (proj1 (Sat_iff xw) Hx i Hi).
      apply xorb_nilpotent.
    - apply row_ext.
      + rewrite xorrow_length; rewrite !(scatter_length n W); lia.
      + intros j Hj. rewrite Ly in Hj.
        rewrite bit_xorrow by (rewrite !(scatter_length n W); reflexivity).
        destruct (in_dec Nat.eq_dec j W) as [Hin|Hnin].
        * destruct (In_nth W j 0 Hin) as [t [Ht E]]. subst j.
          rewrite !(scatter_in n W W_NoDup W_lt) by assumption.
          fold (bit t (xorrow (select W y false) xw)).
          rewrite bit_xorrow by lia. unfold bit at 2. rewrite select_nth by exact Ht.
          fold (bit t xw). destruct (bit (nth t W 0) y), (bit t xw); reflexivity.
        * rewrite !(scatter_notin n W) by exact Hnin.
          unfold bit. apply Hirr. exact Hj. intro Hr. apply Hnin. apply relevant_W. exact Hr.
  Qed.
End Signs.

(* ------------------------------------------------------------------ *)
(* the list N0 of kernel vectors used by variable_sign_patterns        *)
(* ------------------------------------------------------------------ *)

Definition N0_of (k : nat) (A : mat) (all_signs : bool) : list row :=
  if all_signs
  then let '(arref, p) := mod2rref false A in mod2nullspace k arref p
  else [repeat false k].

Lemma N0_spec : forall k A all_signs, wf k A -> A <> [] ->
  (forall v0, In v0 (N0_of k A all_signs) ->
      length v0 = k /\ mulmv A v0 = zeros (length A)) /\
  In (repeat false k) (N0_of k A all_signs) /\
  (all_signs = true -> forall v0, length v0 = k -> mulmv A v0 = zeros (length A) ->
      In v0 (N0_of k A all_signs)).
Proof.
  intros k A all_signs Hwf Hne.
  assert (mulmv A (repeat false k) = zeros (length A)) as Hz.
  { apply mulmv_zeros_ksat. intros r _. apply (dotb_zeros_r k r). }
  unfold N0_of. destruct all_signs.
  - destruct (mod2rref false A) as [arref p] eqn:ER.
    pose proof (nullspace_mem k A arref p Hwf Hne ER) as Hm.
    split. { intros v0 Hin. apply Hm. exact Hin. }
    split. { apply Hm. split. apply repeat_length. exact Hz. }
    intros _ v0 L0 H0. apply Hm. split; assumption.
  - split.
    { intros v0 [E|[]]. subst v0. split. apply repeat_length. exact Hz. }
    split. { left. reflexivity. }
    intro F. discriminate.
Qed.

Lemma vsp_unfold : forall n alpha moments heur all_signs,
  variable_sign_patterns n alpha moments heur all_signs =
  match linear_system_negatives n alpha moments with
  | LsnInconsistent _ _ _ => if heur then SpHeuristic else SpList []
  | LsnTrivial _ => SpList [repeat false n]
  | LsnSolved x0 A1 _ W =>
      SpList (map (fun v0 => xorrow (scatter n W v0) x0) (N0_of (length W) A1 all_signs))
  end.
Proof. reflexivity. Qed.

(* ------------------------------------------------------------------ *)
(* the theorems                                                        *)
(* ------------------------------------------------------------------ *)

Lemma signs_sound_any : forall n alpha moments heur all_signs ys,
  wfz n alpha -> length moments = length alpha -> even_moments_nonneg alpha moments ->
  variable_sign_patterns n alpha moments heur all_signs = SpList ys ->
  forall y, In y ys -> length y = n /\ consistent alpha moments y.
Proof.
  intros n alpha moments heur all_signs ys Hwfz Hlen Heven H y Hy.
  rewrite vsp_unfold in H.
  destruct (linear_system_negatives n alpha moments) as [x|A' U' W'|x A' U' W'] eqn:EL.
  - injection H as H. subst ys. destruct Hy as [E|[]]. subst y.
    destruct (lsn_trivial n alpha moments Hwfz Hlen Heven x EL) as [_ [Hc _]].
    split. apply repeat_length. apply Hc.
  - destruct heur. discriminate. injection H as H. subst ys. destruct Hy.
  - injection H as H. subst ys.
    destruct (lsn_solved n alpha moments x A' U' W' EL) as [EA [EW [Hne [xw [Ex [Lx Hx]]]]]].
    subst A' W' x.
    apply in_map_iff in Hy. destruct Hy as [v0 [E Hv0]]. subst y.
    destruct (N0_spec (length (lsnW n alpha moments)) (lsnA1 n alpha moments) all_signs
                (a1_wf n alpha moments) Hne) as [S1 _].
    destruct (S1 v0 Hv0) as [L0 H0].
    apply (solved_sound n alpha moments Hwfz Hlen Heven xw v0 Lx Hx L0 H0).
Qed.

Lemma signs_sound_holds : signs_sound_stmt.
Proof.
  intros n alpha moments all_signs ys Hwfz Hlen Heven H y Hy.
  apply (signs_sound_any n alpha moments false all_signs ys Hwfz Hlen Heven H y Hy).
Qed.

Lemma signs_complete_holds : signs_complete_stmt.
Proof.
  intros n alpha moments heur ys y Hwfz Hlen Heven H Ly Hc Hirr.
  rewrite vsp_unfold in H.
  destruct (linear_system_negatives n alpha moments) as [x|A' U' W'|x A' U' W'] eqn:EL.
  - injection H as H. subst ys.
    destruct (lsn_trivial n alpha moments Hwfz Hlen Heven x EL) as [_ [_ Hnr]].
    left. symmetry. apply (row_all_false n y Ly).
    intros j Hj. unfold bit. apply Hirr. exact Hj. apply Hnr.
  - exfalso. apply (lsn_inconsistent n alpha moments Hwfz Hlen Heven A' U' W' EL y Ly Hc).
  - injection H as H. subst ys.
    destruct (lsn_solved n alpha moments x A' U' W' EL) as [EA [EW [Hne [xw [Ex [Lx Hx]]]]]].
    subst A' W' x.
    destruct (solved_complete n alpha moments Hwfz Hlen Heven xw y Lx Hx Ly Hc Hirr)
      as [v0 [L0 [H0 Ey]]].
    apply in_map_iff. exists v0. split. symmetry. exact Ey.
    destruct (N0_spec (length (lsnW n alpha moments)) (lsnA1 n alpha moments) true
                (a1_wf n alpha moments) Hne) as [_ [_ S3]].
    apply (S3 eq_refl v0 L0 H0).
Qed.

(* either the system is inconsistent, or every call returns a non-empty list
   whose first element is a consistent pattern *)
Lemma lsn_dichotomy : forall n alpha moments,
  wfz n alpha -> length moments = length alpha -> even_moments_nonneg alpha moments ->
  ((exists A' U' W', linear_system_negatives n alpha moments = LsnInconsistent A' U' W') /\
   (forall y, length y = n -> ~ consistent alpha moments y))
  \/
  (forall heur all_signs, exists y0 ys',
      variable_sign_patterns n alpha moments heur all_signs = SpList (y0 :: ys') /\
      length y0 = n /\ consistent alpha moments y0).
Proof.
  intros n alpha moments Hwfz Hlen Heven.
  destruct (linear_system_negatives n alpha moments) as [x|A' U' W'|x A' U' W'] eqn:EL.
  - right. intros heur all_signs.
    destruct (variable_sign_patterns n alpha moments heur all_signs) as [ys|] eqn:EV.
    2: { rewrite vsp_unfold in EV. rewrite EL in EV. discriminate. }
    destruct ys as [|y0 ys'].
    { rewrite vsp_unfold in EV. rewrite EL in EV. discriminate. }
    exists y0, ys'. split. reflexivity.
    apply (signs_sound_any n alpha moments heur all_signs (y0 :: ys') Hwfz Hlen Heven EV).
    left. reflexivity.
  - left. split.
    + exists A', U', W'. reflexivity.
    + apply (lsn_inconsistent n alpha moments Hwfz Hlen Heven A' U' W' EL).
  - right. intros heur all_signs.
    destruct (variable_sign_patterns n alpha moments heur all_signs) as [ys|] eqn:EV.
    2: { rewrite vsp_unfold in EV. rewrite EL in EV. discriminate. }
    destruct ys as [|y0 ys'].
    { exfalso. rewrite vsp_unfold in EV. rewrite EL in EV. injection EV as EV.
      apply map_eq_nil in EV.
      destruct (lsn_solved n alpha moments x A' U' W' EL) as [EA [EW [Hne _]]].
      subst A' W'.
      destruct (N0_spec (length (lsnW n alpha moments)) (lsnA1 n alpha moments) all_signs
                  (a1_wf n alpha moments) Hne) as [_ [S2 _]].
      rewrite EV in S2. destruct S2. }
    exists y0, ys'. split. reflexivity.
    apply (signs_sound_any n alpha moments heur all_signs (y0 :: ys') Hwfz Hlen Heven EV).
    left. reflexivity.
Qed.

Lemma signs_none_iff_holds : signs_none_iff_stmt.
Proof.
  intros n alpha moments all_signs Hwfz Hlen Heven.
  destruct (lsn_dichotomy n alpha moments Hwfz Hlen Heven) as [[[A' [U' [W' EL]]] Hno]|Hyes].
  - split.
    + intros _. exact Hno.
    + intros _. rewrite vsp_unfold. rewrite EL. reflexivity.
  - destruct (Hyes false all_signs) as [y0 [ys' [EV [L0 C0]]]]. split.
    + intro H. rewrite EV in H. discriminate.
    + intro H. exfalso. apply (H y0 L0 C0).
Qed.

Lemma signs_heuristic_only_if_inconsistent_holds : signs_heuristic_only_if_inconsistent_stmt.
Proof.
  intros n alpha moments all_signs Hwfz Hlen Heven.
  destruct (lsn_dichotomy n alpha moments Hwfz Hlen Heven) as [[[A' [U' [W' EL]]] Hno]|Hyes].
  - split.
    + intros _. exact Hno.
    + intros _. rewrite vsp_unfold. rewrite EL. reflexivity.
  - destruct (Hyes true all_signs) as [y0 [ys' [EV [L0 C0]]]]. split.
    + intro H. rewrite EV in H. discriminate.
    + intro H. exfalso. apply (H y0 L0 C0).
Qed.
