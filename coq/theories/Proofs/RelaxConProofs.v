(* Proofs/RelaxConProofs.v — C04: constrained signomial relaxations (Model/RelaxCon.v).
   Statements: Proofs/RelaxConSpec.v.
   lagrangian_identity      : by subst_commutes (C13) applied to the Lagrangian's expression tree;
   qfold_valid              : invariant of the fold in q_fold + multiplicativity of q_mul for characters (C16);
   constrained_primal_sound : lagrangian_identity at the exponential character + primal_rows_sound (C01). *)
From Coq Require Import Reals List Bool Arith ZArith QArith Qreals Lra Lia.
From SageVerif Require Import Math.RVec Model.Expr Model.Signomial Model.SymSig Model.SolverForms Model.Compile
  Model.Sage Model.RelaxSig Model.RelaxCon
  Proofs.ExprSpec Proofs.ExprScalar Proofs.SigSpec Proofs.SigLemmas Proofs.SigMk Proofs.SigOps
  Proofs.SymCorrSpec Proofs.SymCorrBase Proofs.SymCorrReal Proofs.SymCorrOwn Proofs.SymCorrProofs
  Proofs.SymSigSpec Proofs.SymSigTree
  Proofs.FormsSpec Proofs.CompileSpec Proofs.SageSpec Proofs.SagePrimalProofs
  Proofs.RelaxSpec Proofs.RelaxConSpec.
Import ListNotations.
Local Open Scope R_scope.

(* ------------------------------------------------------------------ *)
(* rounding is invisible to characters on grid rows                     *)
(* ------------------------------------------------------------------ *)
Lemma evalchi_rounded_grid : forall n chi (f : qsig), character n chi -> wfsig n f ->
  evalchi chi (map (fun r => (round_row (fst r), snd r)) f) = evalchi chi f.
Proof.
  intros n chi f [_ Hresp] Hf. induction Hf as [|t f [_ Hg] _ IH]; [reflexivity|].
  unfold evalchi in *. cbn [map fold_right fst snd]. rewrite IH.
  f_equal. f_equal. apply Hresp. apply round_row_on_grid_eqb. exact Hg.
Qed.

Lemma sevalchi_rounded_grid : forall n chi rho (f : ssig), character n chi -> wfs n f ->
  sevalchi chi rho (map (fun r => (round_row (fst r), snd r)) f) = sevalchi chi rho f.
Proof.
  intros n chi rho f [_ Hresp] Hf. induction Hf as [|t f [_ Hg] _ IH]; [reflexivity|].
  unfold sevalchi in *. cbn [map fold_right fst snd]. rewrite IH.
  f_equal. f_equal. apply Hresp. apply round_row_on_grid_eqb. exact Hg.
Qed.

(* ------------------------------------------------------------------ *)
(* multipliers                                                          *)
(* ------------------------------------------------------------------ *)
Lemma sevalchi_multiplier : forall chi rho E ids,
  sevalchi chi rho (multiplier E ids) = mult_val chi rho E ids.
Proof.
  intros chi rho E ids. unfold multiplier, mult_val, sevalchi.
  induction (combine E ids) as [|ri l IH]; [reflexivity|].
  cbn [map fold_right fst snd]. rewrite IH, value_svar. reflexivity.
Qed.

Lemma multiplier_wfs : forall n E ids, Forall (fun r => length r = n /\ on_grid_row r) E ->
  wfs n (multiplier E ids).
Proof.
  intros n E ids HE. unfold wfs, multiplier. apply Forall_forall. intros t Ht.
  apply in_map_iff in Ht as [[r i] [<- Hin]]. cbn [fst snd].
  apply in_combine_l in Hin. rewrite Forall_forall in HE. exact (HE _ Hin).
Qed.

Lemma multiplier_nonempty : forall (E : list qrow) (ids : list Z), E <> [] -> length ids = length E ->
  multiplier E ids <> [].
Proof.
  intros E ids HE Hl. destruct E as [|r E]; [congruence|]. destruct ids as [|i ids]; [discriminate|].
  unfold multiplier. cbn [combine map]. discriminate.
Qed.

Lemma wfs_widths : forall n (f : ssig), wfs n f -> Forall (fun r => length (fst r) = n) f.
Proof. intros n f H. eapply Forall_impl; [|exact H]. intros a [Ha _]. exact Ha. Qed.

Lemma wfsig_widths : forall n (f : qsig), wfsig n f -> Forall (fun r => length (fst r) = n) f.
Proof. intros n f H. eapply Forall_impl; [|exact H]. intros a [Ha _]. exact Ha. Qed.

(* ------------------------------------------------------------------ *)
(* the Lagrangian tree                                                  *)
(* ------------------------------------------------------------------ *)
Definition lag_term (E : list qrow) (gi : qsig * list Z) : symexp :=
  YMul (YScale (YNum (fst gi)) (-1)%Q) (YSym (multiplier E (snd gi))).

Lemma wfy_sum_cons : forall n a l, wfy n (YSum (a :: l)) <-> wfy n a /\ wfy n (YSum l).
Proof. intros. simpl. tauto. Qed.

Lemma wfy_sum_nil : forall n, wfy n (YSum []).
Proof. intros. simpl. exact I. Qed.

Lemma lag_term_wfy : forall n E gi, E_ok n E -> fwf n (fst gi) -> length (snd gi) = length E ->
  wfy n (lag_term E gi).
Proof.
  intros n E gi [HEne HE] [Hw [_ Hne]] Hl. unfold lag_term. cbn [wfy]. repeat split.
  - exact Hne.
  - apply wfsig_widths. exact Hw.
  - apply multiplier_nonempty; assumption.
  - apply wfs_widths. apply multiplier_wfs. exact HE.
Qed.

Lemma lag_terms_wfy : forall n E l, E_ok n E -> cons_ok n E l -> wfy n (YSum (map (lag_term E) l)).
Proof.
  intros n E l HE Hl. induction Hl as [|gi l [Hf Hlen] _ IH]; [apply wfy_sum_nil|].
  cbn [map]. apply wfy_sum_cons. split; [apply lag_term_wfy; assumption | exact IH].
Qed.

Lemma Q2R_m1 : Q2R (-1) = -1.
Proof. unfold Q2R. simpl. lra. Qed.

Lemma lag_term_sem : forall n chi rho E gi, character n chi -> E_ok n E -> fwf n (fst gi) ->
  ysem chi rho (lag_term E gi) = - (evalchi chi (fst gi) * mult_val chi rho E (snd gi)).
Proof.
  intros n chi rho E gi Hc [_ HE] [Hw _]. unfold lag_term. cbn [ysem].
  rewrite (evalchi_rounded_grid n chi _ Hc Hw).
  rewrite (sevalchi_rounded_grid n chi rho _ Hc (multiplier_wfs n E (snd gi) HE)).
  rewrite sevalchi_multiplier, Q2R_m1. ring.
Qed.

Lemma lag_terms_sem : forall n chi rho E l, character n chi -> E_ok n E -> cons_ok n E l ->
  fold_right (fun a acc => ysem chi rho a + acc) 0 (map (lag_term E) l) =
  - fold_right (fun gi acc => evalchi chi (fst gi) * mult_val chi rho E (snd gi) + acc) 0 l.
Proof.
  intros n chi rho E l Hc HE Hl. induction Hl as [|gi l [Hf _] _ IH]; [cbn; ring|].
  cbn [map fold_right]. rewrite IH, (lag_term_sem n chi rho E gi Hc HE Hf). ring.
Qed.

Lemma cons_ok_app : forall n E a b, cons_ok n E a -> cons_ok n E b -> cons_ok n E (a ++ b).
Proof. intros. unfold cons_ok in *. apply Forall_app. split; assumption. Qed.

Lemma lagrangian_tree_eq : forall f g E gts eqs,
  lagrangian_tree f g E gts eqs = YSum (YSubE (YNum f) (svar g) :: map (lag_term E) (gts ++ eqs)).
Proof. reflexivity. Qed.

Lemma lagrangian_wfy : forall n f g E gts eqs, fwf n f -> E_ok n E -> cons_ok n E gts -> cons_ok n E eqs ->
  wfy n (lagrangian_tree f g E gts eqs).
Proof.
  intros n f g E gts eqs [Hw [_ Hne]] HE Hg Hh. rewrite lagrangian_tree_eq. apply wfy_sum_cons. split.
  - cbn [wfy]. split; [exact Hne | apply wfsig_widths; exact Hw].
  - apply lag_terms_wfy; [exact HE | apply cons_ok_app; assumption].
Qed.

Lemma lagrangian_identity : lagrangian_identity_stmt.
Proof.
  intros n chi rho f g E gts eqs L Hc Hone Hf HE Hg Hh HL.
  unfold make_sig_lagrangian in HL.
  rewrite (subst_commutes false n chi rho _ L Hc (lagrangian_wfy n f g E gts eqs Hf HE Hg Hh) Hone HL).
  rewrite lagrangian_tree_eq. cbn [ysem fold_right].
  rewrite (lag_terms_sem n chi rho E (gts ++ eqs) Hc HE (cons_ok_app _ _ _ _ Hg Hh)).
  destruct Hf as [Hw _]. rewrite (evalchi_rounded_grid n chi f Hc Hw), value_svar. ring.
Qed.

(* ------------------------------------------------------------------ *)
(* constrained_primal_sound                                             *)
(* ------------------------------------------------------------------ *)
Definition expchi (x : list R) : qrow -> R := fun a => exp (dot (rowR a) x).

Lemma evalchi_expchi : forall f x, evalchi (expchi x) f = sig_evalR f x.
Proof. reflexivity. Qed.

Lemma sig_at_sevalchi : forall n rho (L : ssig) z,
  sig_at n (map fst L) (cvals rho (map snd L)) z = sevalchi (expchi (firstn n z)) rho L.
Proof.
  intros n rho L z. unfold sig_at, cvals, aR, sevalchi, expchi, rowR.
  induction L as [|t L IH]; [reflexivity|].
  cbn [map sigeval fold_right]. rewrite IH. reflexivity.
Qed.

Lemma sig_at_mult_val : forall n rho E ids z,
  sig_at n E (cvals rho (map svar ids)) z = mult_val (expchi (firstn n z)) rho E ids.
Proof.
  intros n rho E ids z. unfold sig_at, cvals, aR, mult_val, expchi, rowR.
  revert ids. induction E as [|r E IH]; intros ids; [reflexivity|].
  destruct ids as [|i ids]; [reflexivity|].
  cbn [map sigeval combine fold_right fst snd]. rewrite IH, value_svar. reflexivity.
Qed.

Lemma sage_feasible_nonneg : forall n N alpha c X rho z,
  sage_feasible n N alpha c X rho -> in_X N X z -> 0 <= sig_at n alpha (cvals rho c) z.
Proof.
  intros n N alpha c X rho z (covers & ids & st & dummy & bs & Hwf & Hb & Hs) Hz.
  exact (primal_rows_sound n N alpha c X covers ids st dummy bs rho Hwf Hb Hs z Hz).
Qed.

Lemma sage_feasible_len : forall n N alpha c X rho z,
  sage_feasible n N alpha c X rho -> in_X N X z -> length (firstn n z) = n.
Proof.
  intros n N alpha c X rho z (covers & ids & st & dummy & bs & Hwf & _) [Hz _].
  destruct Hwf as (_ & _ & _ & Hdom & _). rewrite firstn_length, Hz.
  destruct X as [D|]; cbn [dom_ok] in Hdom.
  - destruct Hdom as [Hle _]. lia.
  - lia.
Qed.

Lemma sum_gts_nonneg : forall (ev mv : qsig * list Z -> R) (l : list (qsig * list Z)),
  (forall gi, In gi l -> 0 <= ev gi) -> (forall gi, In gi l -> 0 <= mv gi) ->
  0 <= fold_right (fun gi acc => ev gi * mv gi + acc) 0 l.
Proof.
  intros ev mv l. induction l as [|gi l IH]; intros H1 H2; cbn [fold_right]; [lra|].
  assert (0 <= ev gi * mv gi) by (apply Rmult_le_pos; [apply H1|apply H2]; left; reflexivity).
  assert (0 <= fold_right (fun gi acc => ev gi * mv gi + acc) 0 l)
    by (apply IH; intros; [apply H1|apply H2]; right; assumption).
  lra.
Qed.

Lemma sum_eqs_zero : forall (ev mv : qsig * list Z -> R) (l : list (qsig * list Z)),
  (forall gi, In gi l -> ev gi = 0) ->
  fold_right (fun gi acc => ev gi * mv gi + acc) 0 l = 0.
Proof.
  intros ev mv l. induction l as [|gi l IH]; intros H1; cbn [fold_right]; [reflexivity|].
  rewrite IH by (intros; apply H1; right; assumption).
  rewrite (H1 gi) by (left; reflexivity). ring.
Qed.

Lemma fold_right_sum_app : forall (F : qsig * list Z -> R) (a b : list (qsig * list Z)),
  fold_right (fun gi acc => F gi + acc) 0 (a ++ b) =
  fold_right (fun gi acc => F gi + acc) 0 a + fold_right (fun gi acc => F gi + acc) 0 b.
Proof. intros F a b. induction a as [|x a IH]; cbn [app fold_right]; [ring|]. rewrite IH. ring. Qed.

Lemma constrained_primal_sound : constrained_primal_sound_stmt.
Proof.
  intros n N f g E gts eqs L X rho Hf HE Hg Hh HL HsL Hmul z Hz Hge Heq.
  set (x := firstn n z) in *.
  assert (Hlen : length x = n) by exact (sage_feasible_len _ _ _ _ _ _ _ HsL Hz).
  assert (Hc : character n (expchi x)) by exact (sig_character n x Hlen).
  assert (Hone : expchi x (repeat 0%Q n) = 1) by (unfold expchi; rewrite dot_zeros; apply exp_0).
  pose proof (lagrangian_identity n (expchi x) rho f g E gts eqs L Hc Hone Hf HE Hg Hh HL) as Hid.
  pose proof (sage_feasible_nonneg _ _ _ _ _ _ _ HsL Hz) as HL0.
  rewrite sig_at_sevalchi in HL0. fold x in HL0. rewrite Hid in HL0.
  rewrite (fold_right_sum_app (fun gi => evalchi (expchi x) (fst gi) * mult_val (expchi x) rho E (snd gi))) in HL0.
  rewrite (sum_eqs_zero (fun gi => evalchi (expchi x) (fst gi)) (fun gi => mult_val (expchi x) rho E (snd gi)) eqs) in HL0
    by (intros hi Hi; rewrite evalchi_expchi; apply Heq; exact Hi).
  assert (0 <= fold_right (fun gi acc => evalchi (expchi x) (fst gi) * mult_val (expchi x) rho E (snd gi) + acc) 0 gts).
  { apply (sum_gts_nonneg (fun gi => evalchi (expchi x) (fst gi)) (fun gi => mult_val (expchi x) rho E (snd gi))).
    - intros gi Hi. rewrite evalchi_expchi. apply Hge. exact Hi.
    - intros gi Hi. unfold x. rewrite <- sig_at_mult_val.
      exact (sage_feasible_nonneg _ _ _ _ _ _ _ (Hmul gi Hi) Hz). }
  rewrite evalchi_expchi in HL0. lra.
Qed.

(* ------------------------------------------------------------------ *)
(* qfold_valid                                                          *)
(* ------------------------------------------------------------------ *)
Lemma evalchi_q_mul : forall n chi s h, character n chi -> wfsig n s -> wfsig n h ->
  evalchi chi (q_mul n s h) = evalchi chi s * evalchi chi h.
Proof.
  intros n chi s h Hc Hs Hh.
  rewrite (evalchi_ext chi (q_mul n s h) (prodterms s h) (proj2 Hc)) by (intros; apply coefR_q_mul).
  exact (evalchi_prodterms n chi s h Hc Hs Hh).
Qed.

Lemma fwf_good : forall n f, fwf n f <-> SigOps.good n f.
Proof. intros. unfold fwf, SigOps.good. tauto. Qed.

Lemma prod_fold_spec : forall n chi, character n chi -> forall hs g, fwf n g -> Forall (fwf n) hs ->
  fwf n (fold_left (fun acc h => q_mul n acc h) hs g) /\
  evalchi chi (fold_left (fun acc h => q_mul n acc h) hs g) =
    evalchi chi g * fold_right (fun h acc => evalchi chi h * acc) 1 hs.
Proof.
  intros n chi Hc hs. induction hs as [|h hs IH]; intros g Hg Hhs.
  - cbn [fold_left fold_right]. split; [exact Hg | ring].
  - inversion Hhs as [|? ? Hh Hhs']; subst. cbn [fold_left fold_right].
    destruct Hg as (Hgw & Hgd & Hgn). destruct Hh as (Hhw & Hhd & Hhn).
    assert (Hm : fwf n (q_mul n g h)).
    { apply fwf_good. exact (proj2 (SigOps.mul_good n g h Hgw Hhw Hgn Hhn)). }
    destruct (IH (q_mul n g h) Hm Hhs') as [Hw He]. split; [exact Hw|].
    rewrite He, (evalchi_q_mul n chi g h Hc Hgw Hhw). ring.
Qed.

Lemma combos_spec : forall m k lo c, In c (combos m lo k) -> length c = k /\ Forall (fun i => (i < m)%nat) c.
Proof.
  intros m k. induction k as [|k IH]; intros lo c Hc; cbn [combos] in Hc.
  - destruct Hc as [<-|[]]. split; [reflexivity|constructor].
  - apply in_flat_map in Hc as [i [Hi Hc]]. apply in_map_iff in Hc as [c' [<- Hc']].
    destruct (IH _ _ Hc') as [Hl Hf]. apply in_seq in Hi. split.
    + cbn [length]. rewrite Hl. reflexivity.
    + constructor; [lia | exact Hf].
Qed.

Definition qf_ok (chi : qrow -> R) (gs : list qsig) (q : nat) (g' : qsig) : Prop :=
  exists idx, idx <> [] /\ (length idx <= q)%nat /\ Forall (fun i => (i < length gs)%nat) idx /\
              evalchi chi g' = fold_right (fun i acc => evalchi chi (nth i gs []) * acc) 1 idx.

Lemma fold_right_map_idx : forall chi (gs : list qsig) idx,
  fold_right (fun h acc => evalchi chi h * acc) 1 (map (fun i => nth i gs []) idx) =
  fold_right (fun i acc => evalchi chi (nth i gs []) * acc) 1 idx.
Proof. intros chi gs idx. induction idx as [|i idx IH]; [reflexivity|]. cbn [map fold_right]. rewrite IH. reflexivity. Qed.

Lemma prod_sigs_ok : forall n chi gs q idx g, character n chi -> Forall (fwf n) gs ->
  Forall (fun i => (i < length gs)%nat) idx -> (length idx <= q)%nat ->
  prod_sigs n (map (fun i => nth i gs []) idx) = Some g -> qf_ok chi gs q g.
Proof.
  intros n chi gs q idx g Hc Hgs Hidx Hlen Hp.
  assert (Hnth : forall i, (i < length gs)%nat -> fwf n (nth i gs [])).
  { intros i Hi. rewrite Forall_forall in Hgs. apply Hgs. apply nth_In. exact Hi. }
  destruct idx as [|i idx]; [discriminate Hp|].
  cbn [map prod_sigs] in Hp. injection Hp as <-.
  inversion Hidx as [|? ? Hi Hidx']; subst.
  assert (Hall : Forall (fwf n) (map (fun i => nth i gs []) idx)).
  { apply Forall_forall. intros h Hh. apply in_map_iff in Hh as [j [<- Hj]].
    rewrite Forall_forall in Hidx'. apply Hnth. apply Hidx'. exact Hj. }
  destruct (prod_fold_spec n chi Hc _ _ (Hnth i Hi) Hall) as [_ He].
  exists (i :: idx). split; [discriminate|]. split; [exact Hlen|]. split; [exact Hidx|].
  rewrite He, fold_right_map_idx. reflexivity.
Qed.

Definition qf_step (acc : list qsig) (o : option qsig) : list qsig :=
  match o with
  | Some g => if Nat.ltb 1 (count_nonzero g) && negb (existsb (q_eqb g) acc) then acc ++ [g] else acc
  | None => acc
  end.

Lemma qf_fold_inv : forall (P : qsig -> Prop) all acc,
  (forall g, In (Some g) all -> P g) -> Forall P acc -> Forall P (fold_left qf_step all acc).
Proof.
  intros P all. induction all as [|o all IH]; intros acc Hall Hacc; [exact Hacc|].
  cbn [fold_left]. apply IH.
  - intros g Hg. apply Hall. right. exact Hg.
  - destruct o as [g|]; cbn [qf_step]; [|exact Hacc].
    destruct (_ && _); [|exact Hacc].
    apply Forall_app. split; [exact Hacc|]. constructor; [|constructor]. apply Hall. left. reflexivity.
Qed.

Lemma qfold_valid : qfold_valid_stmt.
Proof.
  intros n chi gs q g' Hc Hgs Hq Hin. change (qf_ok chi gs q g').
  unfold q_fold in Hin. destruct gs as [|g0 gs0]; [destruct Hin|].
  set (gs := g0 :: gs0) in *.
  destruct (Nat.eqb q 1) eqn:Eq.
  - apply Nat.eqb_eq in Eq. subst q.
    destruct (In_nth _ _ [] Hin) as [i [Hi Hnth]].
    exists [i]. split; [discriminate|]. split; [cbn; lia|]. split; [constructor; [exact Hi|constructor]|].
    cbn [fold_right]. rewrite Rmult_1_r. f_equal. symmetry. exact Hnth.
  - fold qf_step in Hin.
    match type of Hin with In _ (fold_left _ ?a _) => set (all := a) in * end.
    assert (HF : Forall (qf_ok chi gs q) (fold_left qf_step all [])).
    { apply qf_fold_inv; [|constructor].
      intros g Hg. unfold all in Hg. apply in_flat_map in Hg as [qq [Hqq Hg]].
      apply in_map_iff in Hg as [idx [Hp Hidx]]. apply in_seq in Hqq.
      destruct (combos_spec _ _ _ _ Hidx) as [Hl Hf].
      apply (prod_sigs_ok n chi gs q idx g Hc Hgs Hf); [lia | exact Hp]. }
    rewrite Forall_forall in HF. exact (HF _ Hin).
Qed.
