(* Proofs/FormsSpec.v — statements of the C10 theorems about Model/SolverForms.v
   instantiated at the reals. *)
From Coq Require Import Reals List Bool Arith Lia.
From SageVerif Require Import Math.RVec Model.SolverForms Proofs.MathSpec.
Import ListNotations.
Open Scope R_scope.

Definition sem_tag (t : ctag) : ctype :=
  match t with
  | TPos => CPos | TSoc => CSoc | TExp => CExp | _ => CZero
  end.
Definition semK (K : list cone) : list (ctype * nat) := map (fun co => (sem_tag (fst co), snd co)) K.

(* cones the standard forms are defined for; exponential cones have length 3 *)
Definition okK (K : list cone) : Prop :=
  Forall (fun co => ecos_allowed (fst co) = true /\ (fst co = TExp -> snd co = 3%nat)) K.


(* ---------------- selectors ---------------- *)
Definition selector_length_stmt : Prop :=
  forall K t, length (selector K t) = SolverForms.Ksize K.

(* runs: maximal blocks; alternate = adjacent blocks have different flags, all blocks non-empty *)
Fixpoint alternating (runs : list (bool * nat)) : Prop :=
  match runs with
  | [] => True
  | (b1, n1) :: rest =>
      (0 < n1)%nat /\
      match rest with
      | [] => True
      | (b2, _) :: _ => b1 <> b2
      end /\ alternating rest
  end.
Definition csl_spec_stmt : Prop :=
  forall runs, alternating runs ->
    contiguous_selector_lengths (flat_map (fun bn => repeat (fst bn) (snd bn)) runs)
    = map snd (filter (fun bn => fst bn) runs).

(* ---------------- ECOS.apply ---------------- *)
Definition ecos_sat (d : ecos_data (T:=R)) (x : list R) : Prop :=
  mv (eA d) x = eb d /\
  in_K ((CPos, el d) :: map (fun n => (CSoc, n)) (eq_ d) ++ repeat (CExp, 3%nat) (ee d))
       (vsub (eh d) (mv (eG d) x)).

Definition ecos_feasible_iff_stmt : Prop :=
  forall n c A b K d x,
    okK K -> wfm n A -> length x = n -> length A = SolverForms.Ksize K -> length b = SolverForms.Ksize K ->
    ecos_apply Ropp c A b K = Ok d ->
    (in_K (semK K) (vadd (mv A x) b) <-> ecos_sat d x) /\ ec d = c.

Definition ecos_error_iff_stmt : Prop :=
  forall c A b K,
    (exists e, ecos_apply Ropp c A b K = Err e) <-> exists co, In co K /\ ecos_allowed (fst co) = false.

(* ---------------- separate_cone_constraints ---------------- *)
Definition slack_total (sl : list sepcone) : nat := fold_right (fun s acc => snd (fst s) + acc)%nat 0%nat sl.
Definition pick (z : list R) (cols : list nat) : list R := map (fun j => nth j z 0) cols.

Definition separate_structure_stmt : Prop :=
  forall n (A : list (list R)) b K ds A2 b2 K2 sl,
    wfm n A -> length A = SolverForms.Ksize K ->
    separate 0 1 Ropp n A b K ds = (A2, b2, K2, sl) ->
    b2 = b /\
    K2 = map (fun co => if (ctag_eqb (fst co) T0 || ds (fst co))%bool then co else (T0, snd co)) K /\
    (* slack cones are the separated cones, in order *)
    map fst sl = filter (fun co => negb (ctag_eqb (fst co) T0 || ds (fst co))%bool) K /\
    (* their column mappings are contiguous, disjoint, in order, right after A's columns *)
    concat (map snd sl) = seq n (slack_total sl) /\
    Forall (fun s => length (snd s) = snd (fst s)) sl /\
    wfm (n + slack_total sl) A2 /\ length A2 = length A.

Definition separate_projection_stmt : Prop :=
  forall n (A : list (list R)) b K ds A2 b2 K2 sl x,
    okK K -> wfm n A -> length x = n -> length A = SolverForms.Ksize K -> length b = SolverForms.Ksize K ->
    separate 0 1 Ropp n A b K ds = (A2, b2, K2, sl) ->
    (in_K (semK K) (vadd (mv A x) b) <->
     exists y, length y = slack_total sl /\
               in_K (semK K2) (vadd (mv A2 (x ++ y)) b2) /\
               Forall (fun s => in_cone (sem_tag (fst (fst s))) (pick (x ++ y) (snd s))) sl).

(* ---------------- Mosek._primal_apply ---------------- *)
(* MOSEK's reading of the data: rows with boundkey.up satisfy (A z)_i <= b_i, rows with fx
   satisfy equality; quad cone on the listed columns; pexp cone on [cols[1], cols[2], cols[0]]
   where MOSEK's pexp is { (x0,x1,x2) : x0 >= x1 exp(x2/x1), x0,x1 >= 0 } *)
Definition mosek_pexp (x0 x1 x2 : R) : Prop := Kexp x2 x0 x1.
Definition mosek_sep_ok (z : list R) (s : sepcone) : Prop :=
  match fst (fst s) with
  | TSoc => in_cone CSoc (pick z (snd s))
  | TExp => match snd s with
            | [c0; c1; c2] => mosek_pexp (nth c1 z 0) (nth c2 z 0) (nth c0 z 0)
            | _ => False
            end
  | _ => False
  end.

Definition mosek_primal_sat (d : mosek_primal (T:=R)) (z : list R) : Prop :=
  match mpK d with
  | [(TPos, l); (T0, e)] =>
      Forall2 Rle (firstn l (mv (mpA d) z)) (firstn l (mpb d)) /\
      skipn l (mv (mpA d) z) = skipn l (mpb d) /\
      Forall (mosek_sep_ok z) (mpsep d)
  | _ => False
  end.

Definition mosek_primal_equiv_stmt : Prop :=
  forall n c (A : list (list R)) b K x,
    okK K -> wfm n A -> length x = n -> length c = n ->
    length A = SolverForms.Ksize K -> length b = SolverForms.Ksize K ->
    let d := mosek_primal_apply 0 1 Ropp n c A b K in
    (in_K (semK K) (vadd (mv A x) b) <->
     exists y, length y = slack_total (mpsep d) /\ mosek_primal_sat d (x ++ y)) /\
    (* objective padded with zeros: same value on [x;y] *)
    (forall y, length y = slack_total (mpsep d) -> dot (mpc d) (x ++ y) = dot c x) /\
    mpn d = n.

(* ---------------- dualize_problem / Mosek._dual_apply ---------------- *)
Definition dualize_shape_stmt : Prop :=
  forall n c (A : list (list R)) b K,
    dualize Ropp n c A b K = (map Ropp b, transpose n A, c, map dual_cone K).

Definition transpose_mv_stmt : Prop :=
  forall n (A : list (list R)) y, wfm n A -> length y = length A ->
    mv (transpose n A) y = tmv n A y.

(* weak duality:  min{c.x : A x + b in K}  >=  max{ -b.y : A^T y = c, y in K* } *)
Definition dualize_weak_stmt : Prop :=
  forall n c (A : list (list R)) b K x y,
    okK K -> wfm n A -> length x = n -> length A = SolverForms.Ksize K -> length b = SolverForms.Ksize K ->
    in_K (semK K) (vadd (mv A x) b) ->
    in_Kdual (semK K) y ->
    mv (transpose n A) y = c ->
    dot (map Ropp b) y <= dot c x.

(* the (+, S, de, fr) regrouping of Mosek._dual_apply is a reordering of the dual variable:
   for every y, with y' the regrouped vector, objective and equality rows agree, and y is in the
   dual cone iff y' is in the cone MOSEK is told about (lo bounds on the first md_pos entries,
   quad cones of the listed sizes, dexp on [idx+1, idx+2, idx] i.e. coniclifts' dual exponential
   cone on (idx, idx+1, idx+2), free remainder). *)
Definition regroup {X} (K : list cone) (v : list X) : list X :=
  mask (selector (map dual_cone K) TPos) v ++ mask (selector (map dual_cone K) TSoc) v ++
  mask (selector (map dual_cone K) TDExp) v ++ mask (selector (map dual_cone K) TFree) v.

(* MOSEK dexp on (a0,a1,a2) = { a0 >= -a1 exp(a2/a1 - 1), a0 >= 0, a1 <= 0 }; the code passes
   [idx+1, idx+2, idx]; we state the resulting constraint on (y0,y1,y2)=(idx,idx+1,idx+2) as
   coniclifts' dual exponential cone *)
Definition mosek_dual_cone_ok (d : mosek_dual (T:=R)) (y' : list R) : Prop :=
  in_Kdual ((CPos, md_pos d) :: map (fun k => (CSoc, k)) (md_soc d) ++ repeat (CExp, 3%nat) (md_de d) ++ [(CZero, md_fr d)]) y'.

Definition mosek_dual_reorder_stmt : Prop :=
  forall n c (A : list (list R)) b K y,
    okK K -> wfm n A -> length A = SolverForms.Ksize K -> length b = SolverForms.Ksize K -> length y = SolverForms.Ksize K ->
    let d := mosek_dual_apply Ropp n c A b K in
    dot (mdf d) (regroup K y) = dot (map Ropp b) y /\
    mv (mdG d) (regroup K y) = mv (transpose n A) y /\
    mdh d = c /\
    (in_Kdual (semK K) y <-> mosek_dual_cone_ok d (regroup K y)).
