(* Proofs/GenEpiProofs.v *)
From Coq Require Import List Bool Arith ZArith QArith Lia.
From SageVerif Require Import Model.SolverForms Model.Expr Model.Compile Model.TripletIdioms Gen.GenEpi Proofs.GenEpiSpec.
Import ListNotations.
Close Scope Q_scope.

Lemma combine_app' {X Y} : forall (a1 a2 : list X) (b1 b2 : list Y), length a1 = length b1 -> combine (a1 ++ a2) (b1 ++ b2) = combine a1 b1 ++ combine a2 b2.
Proof. induction a1 as [|x a1 IH]; intros a2 [|y b1] b2 H; cbn in *; try discriminate; [reflexivity|]. f_equal. apply IH. lia. Qed.

Lemma te_app r : forall v1 v2 r1 r2 c1 c2, length r1 = length c1 -> length c1 = length v1 ->
  trip_entries r (v1 ++ v2) (r1 ++ r2) (c1 ++ c2) = trip_entries r v1 r1 c1 ++ trip_entries r v2 r2 c2.
Proof.
  intros v1 v2 r1 r2 c1 c2 H1 H2. unfold trip_entries. rewrite (combine_app' r1 r2 c1 c2 H1), combine_app'.
  - rewrite filter_app, map_app. reflexivity.
  - rewrite combine_length, <- H1, Nat.min_id. lia.
Qed.

Lemma te_repeat r k (f : Z * Q -> Q) : forall l, trip_entries r (map f l) (repeat k (length l)) (map (fun vc => fst vc) l)
  = if Nat.eqb k r then map (fun vc => (fst vc, qe_of (f vc))) l else [].
Proof.
  induction l as [|p l IH]; unfold trip_entries in *; cbn [map length repeat combine filter fst snd].
  - destruct (Nat.eqb k r); reflexivity.
  - destruct (Nat.eqb k r) eqn:E; cbn [map fst snd]; rewrite IH; reflexivity.
Qed.

Lemma te_cons r v k c vs rs cs : trip_entries r (v :: vs) (k :: rs) (c :: cs) = (if Nat.eqb k r then [(c, qe_of v)] else []) ++ trip_entries r vs rs cs.
Proof. unfold trip_entries. cbn [combine filter fst snd]. destruct (Nat.eqb k r); reflexivity. Qed.
Lemma te_nil r : trip_entries r [] [] [] = [].
Proof. reflexivity. Qed.

Ltac te_side := rewrite ?app_length; cbn [length]; rewrite ?repeat_length, ?map_length; reflexivity.
Ltac te_go := repeat first [rewrite te_cons | rewrite te_app by te_side | rewrite te_repeat | rewrite te_nil]; cbn; rewrite ?app_nil_r; reflexivity.
(* the entry list of a non-constant argument, made opaque *)
Ltac nonconst l p l' := set (l := p :: l') in *; let H := fresh "H" in assert (H : Nat.ltb 0 (length l) = true) by reflexivity; clearbody l; rewrite !H; clear H.
Ltac rows_go := unfold trip_rows; cbn [repeat set_nthQ' length seq map nth app]; f_equal; repeat f_equal; te_go.

Lemma gen_epi_abs_equiv : gen_epi_abs_equiv_stmt.
Proof.
  intros dummy t [l off]. unfold gen_epi_block, gen_epi_abs, epi_block, aff_entries. cbv zeta. cbn [nth fst snd].
  destruct l as [|p l']; [reflexivity|]. nonconst l p l'. rows_go.
Qed.

Lemma gen_epi_pos_equiv : gen_epi_pos_equiv_stmt.
Proof.
  intros dummy t [l off]. unfold gen_epi_block, gen_epi_pos, epi_block, aff_entries. cbv zeta. cbn [nth fst snd].
  destruct l as [|p l']; [reflexivity|]. nonconst l p l'. rows_go.
Qed.

Lemma gen_epi_exp_equiv : gen_epi_exp_equiv_stmt.
Proof.
  intros dummy t [l off]. unfold gen_epi_block, gen_epi_exp, epi_block, aff_row_dummy, aff_entries. cbv zeta. cbn [nth fst snd].
  destruct l as [|p l']; [reflexivity|]. nonconst l p l'. destruct l; rows_go.
Qed.

Lemma gen_epi_relent_equiv : gen_epi_relent_equiv_stmt.
Proof.
  intros dummy t [l off] [l2 off2]. unfold gen_epi_block, gen_epi_relent, epi_block, aff_row_dummy, aff_entries. cbv zeta. cbn [nth fst snd].
  destruct l as [|p l']; destruct l2 as [|p2 l2']; [reflexivity| | |].
  - change (Nat.ltb 0 (@length (Z * Q) [])) with false. nonconst m p2 l2'. cbv iota. destruct m; rows_go.
  - change (Nat.ltb 0 (@length (Z * Q) [])) with false. nonconst l p l'. cbv iota. destruct l; rows_go.
  - nonconst l p l'. nonconst m p2 l2'. destruct l, m; rows_go.
Qed.

(* ---- Vector2Norm: the loop over the arguments ---- *)

Definition nrows (k : nat) (a : aff) : list nat := match fst a with [] => [(k + 1)%nat] | l => repeat (k + 1)%nat (length l) end.
Definition ncols (dummy : Z) (a : aff) : list Z := match fst a with [] => [dummy] | l => map (fun vc => fst vc) l end.
Definition nvals (a : aff) : list Q := match fst a with [] => [0%Q] | l => map (fun vc => snd vc) l end.
Definition nstep (dummy : Z) (st : list nat * list Z * list Q * list Q) (iarg : nat * aff) : list nat * list Z * list Q * list Q :=
  let '(R, C, V, b) := st in
  (R ++ nrows (fst iarg) (snd iarg), C ++ ncols dummy (snd iarg), V ++ nvals (snd iarg), set_nthQ' (fst iarg + 1) (snd (snd iarg)) b).

Fixpoint RR (k : nat) (l : list aff) : list nat := match l with [] => [] | a :: l' => nrows k a ++ RR (S k) l' end.
Fixpoint CC (dummy : Z) (l : list aff) : list Z := match l with [] => [] | a :: l' => ncols dummy a ++ CC dummy l' end.
Fixpoint VV (l : list aff) : list Q := match l with [] => [] | a :: l' => nvals a ++ VV l' end.
Fixpoint BB (k : nat) (l : list aff) (b : list Q) : list Q := match l with [] => b | a :: l' => BB (S k) l' (set_nthQ' (k + 1) (snd a) b) end.

Lemma fold_left_ext3 {X Y} (f g : X -> Y -> X) : (forall s y, f s y = g s y) -> forall l s, fold_left f l s = fold_left g l s.
Proof. intros H l. induction l as [|y l IH]; intro s; cbn [fold_left]; [reflexivity|]. rewrite H. apply IH. Qed.

Lemma inner_fold : forall (l : list (Z * Q)) (C : list Z) (V : list Q),
  fold_left (fun (st : list Z * list Q) (vc : Z * Q) => let '(A_cols, A_vals) := st in (A_cols ++ [fst vc], A_vals ++ [snd vc])) l (C, V)
  = (C ++ map (fun vc => fst vc) l, V ++ map (fun vc => snd vc) l).
Proof.
  induction l as [|p l IH]; intros C V; cbn [fold_left map].
  - rewrite !app_nil_r. reflexivity.
  - rewrite IH, <- !app_assoc. reflexivity.
Qed.

Lemma nfold dummy : forall l k R C V b,
  fold_left (nstep dummy) (combine (seq k (length l)) l) (R, C, V, b) = (R ++ RR k l, C ++ CC dummy l, V ++ VV l, BB k l b).
Proof.
  induction l as [|a l IH]; intros k R C V b; cbn [length seq combine fold_left RR CC VV BB].
  - rewrite !app_nil_r. reflexivity.
  - unfold nstep at 2. cbn [fst snd]. rewrite IH, <- !app_assoc. reflexivity.
Qed.

Lemma len_rc dummy k a : length (nrows k a) = length (ncols dummy a).
Proof. unfold nrows, ncols. destruct (fst a); [reflexivity|]. rewrite repeat_length, map_length. reflexivity. Qed.
Lemma len_cv dummy a : length (ncols dummy a) = length (nvals a).
Proof. unfold ncols, nvals. destruct (fst a); [reflexivity|]. rewrite !map_length. reflexivity. Qed.

Lemma te_single r k c v : trip_entries r [v] [k] [c] = if Nat.eqb k r then [(c, qe_of v)] else [].
Proof. unfold trip_entries. cbn. destruct (Nat.eqb k r); reflexivity. Qed.

Lemma te_arg dummy r k a : trip_entries r (nvals a) (nrows k a) (ncols dummy a) = if Nat.eqb (k + 1) r then fst (aff_row_dummy dummy a) else [].
Proof.
  unfold nvals, nrows, ncols, aff_row_dummy, aff_entries. destruct (fst a) as [|p l] eqn:E.
  - rewrite te_single. reflexivity.
  - rewrite (te_repeat r (k + 1) (fun vc => snd vc) (p :: l)). reflexivity.
Qed.

Definition in_rng (k n r : nat) : bool := Nat.leb (k + 1) r && Nat.ltb r (k + 1 + n).

Lemma te_args dummy r : forall l k,
  trip_entries r (VV l) (RR k l) (CC dummy l) = if in_rng k (length l) r then fst (aff_row_dummy dummy (nth (r - k - 1) l ([], 0%Q))) else [].
Proof.
  induction l as [|a l IH]; intro k; cbn [VV RR CC length].
  - unfold in_rng. destruct (Nat.leb_spec (k + 1) r), (Nat.ltb_spec r (k + 1 + 0)); cbn [andb]; try reflexivity; lia.
  - rewrite te_app by (apply len_rc || apply len_cv). rewrite te_arg, IH. unfold in_rng.
    destruct (Nat.eqb_spec (k + 1) r) as [Hr|Hr].
    + subst r. replace (k + 1 - k - 1) with 0 by lia. cbn [nth].
      destruct (Nat.leb_spec (S k + 1) (k + 1)); [lia|]. cbn [andb]. rewrite app_nil_r.
      destruct (Nat.leb_spec (k + 1) (k + 1)), (Nat.ltb_spec (k + 1) (k + 1 + S (length l))); cbn [andb]; try reflexivity; lia.
    + cbn [app].
      destruct (Nat.leb_spec (S k + 1) r), (Nat.ltb_spec r (S k + 1 + length l)), (Nat.leb_spec (k + 1) r), (Nat.ltb_spec r (k + 1 + S (length l)));
        cbn [andb]; try reflexivity; try lia.
      replace (r - k - 1) with (S (r - S k - 1)) by lia. reflexivity.
Qed.

Lemma set_len : forall b j v, length (set_nthQ' j v b) = length b.
Proof. induction b as [|y b IH]; intros [|j] v; cbn [set_nthQ' length]; try reflexivity. rewrite IH. reflexivity. Qed.
Lemma set_nth_same : forall b j v, j < length b -> nth j (set_nthQ' j v b) 0%Q = v.
Proof. induction b as [|y b IH]; intros [|j] v H; cbn [set_nthQ' nth length] in *; try lia; [reflexivity|]. apply IH. lia. Qed.
Lemma set_nth_other : forall b j r v, r <> j -> nth r (set_nthQ' j v b) 0%Q = nth r b 0%Q.
Proof. induction b as [|y b IH]; intros [|j] [|r] v H; cbn [set_nthQ' nth]; try reflexivity; try lia. apply IH. lia. Qed.

Lemma bb_len : forall l k b, length (BB k l b) = length b.
Proof. induction l as [|a l IH]; intros k b; cbn [BB]; [reflexivity|]. rewrite IH. apply set_len. Qed.

Lemma bb_nth r : forall l k b, k + 1 + length l <= length b ->
  nth r (BB k l b) 0%Q = if in_rng k (length l) r then snd (nth (r - k - 1) l ([], 0%Q)) else nth r b 0%Q.
Proof.
  induction l as [|a l IH]; intros k b H; cbn [BB length] in *.
  - unfold in_rng. destruct (Nat.leb_spec (k + 1) r), (Nat.ltb_spec r (k + 1 + 0)); cbn [andb]; try reflexivity; lia.
  - rewrite IH by (rewrite set_len; lia). unfold in_rng.
    destruct (Nat.eq_dec r (k + 1)) as [Hr|Hr].
    + subst r. replace (k + 1 - k - 1) with 0 by lia. cbn [nth].
      destruct (Nat.leb_spec (S k + 1) (k + 1)); [lia|]. cbn [andb]. rewrite set_nth_same by lia.
      destruct (Nat.leb_spec (k + 1) (k + 1)), (Nat.ltb_spec (k + 1) (k + 1 + S (length l))); cbn [andb]; try reflexivity; lia.
    + rewrite set_nth_other by exact Hr.
      destruct (Nat.leb_spec (S k + 1) r), (Nat.ltb_spec r (S k + 1 + length l)), (Nat.leb_spec (k + 1) r), (Nat.ltb_spec r (k + 1 + S (length l)));
        cbn [andb]; try reflexivity; try lia.
      replace (r - k - 1) with (S (r - S k - 1)) by lia. reflexivity.
Qed.

Lemma map_seq_nth {Y} (G : aff -> Y) : forall l k, map (fun r => G (nth (r - k) l ([], 0%Q))) (seq k (length l)) = map G l.
Proof.
  induction l as [|a l IH]; intro k; cbn [length seq map]; [reflexivity|].
  replace (k - k) with 0 by lia. cbn [nth]. f_equal. rewrite <- (IH (S k)). apply map_ext_in. intros r Hr. apply in_seq in Hr.
  replace (r - k) with (S (r - S k)) by lia. reflexivity.
Qed.

Lemma gen_epi_norm2_equiv : gen_epi_norm2_equiv_stmt.
Proof.
  intros dummy t args. unfold gen_epi_block, gen_epi_norm2, epi_block. cbv zeta.
  rewrite (fold_left_ext3 _ (nstep dummy)).
  - rewrite nfold. rewrite Nat.add_1_r. f_equal.
    unfold trip_rows. rewrite bb_len, repeat_length. cbn [seq map]. f_equal.
    + cbn [app]. rewrite te_cons. cbn [Nat.eqb app]. rewrite te_args. unfold in_rng. cbn [Nat.leb Nat.add andb].
      rewrite bb_nth by (rewrite repeat_length; lia). unfold in_rng. cbn [Nat.leb Nat.add andb]. reflexivity.
    + rewrite <- (map_seq_nth (aff_row_dummy dummy) args 1). apply map_ext_in. intros r Hr. apply in_seq in Hr.
      cbn [app]. rewrite te_cons. destruct r as [|r']; [lia|]. cbn [Nat.eqb app].
      rewrite te_args, bb_nth by (rewrite repeat_length; lia). unfold in_rng, aff in *.
      destruct (Nat.leb_spec (0 + 1) (S r')); [|lia]. destruct (Nat.ltb_spec (S r') (0 + 1 + length args)); [|lia]. cbn [andb].
      replace (S r' - 0 - 1) with (S r' - 1) by lia.
      unfold aff_row_dummy, aff in *. destruct (fst (nth (S r' - 1) args ([], 0%Q))); reflexivity.
  - intros [[[R C] V] b] [i arg]. unfold nstep, nrows, ncols, nvals. cbn [fst snd].
    destruct (fst arg) as [|p l] eqn:E.
    + reflexivity.
    + change (Nat.ltb 0 (length (p :: l))) with true. cbv iota. rewrite inner_fold. reflexivity.
Qed.

Lemma gen_epi_block_equiv : gen_epi_block_equiv_stmt.
Proof.
  intros dummy t [i|k args] H; [reflexivity|].
  destruct k; cbn [atom_wf] in H.
  - destruct args as [|x [|y r]]; try discriminate. apply gen_epi_exp_equiv.
  - destruct args as [|x [|y r]]; try discriminate. apply gen_epi_abs_equiv.
  - destruct args as [|x [|y r]]; try discriminate. apply gen_epi_pos_equiv.
  - destruct args as [|x [|y [|z r]]]; try discriminate. apply gen_epi_relent_equiv.
  - apply gen_epi_norm2_equiv.
Qed.
