(* Proofs/GenEpiProofs.v *)
From Coq Require Import List Bool Arith ZArith QArith Lia.
From SageVerif Require Import Model.SolverForms Model.Expr Model.Compile Model.TripletIdioms Gen.GenEpi Proofs.GenEpiSpec.
Import ListNotations.
Close Scope Q_scope.

Lemma combine_app' {X Y} : forall (a1 a2 : list X) (b1 b2 : list Y), length a1 = length b1 -> combine (a1 ++ a2) (b1 ++ b2) = combine a1 b1 ++ combine a2 b2.
Proof. induction a1 as [|x a1 IH]; intros a2 [|y b1] b2 H; cbn in *; try discriminate; [reflexivity|]. f_equal. apply IH. lia. Qed.

Lemma te_app r : forall v1 v2 r1 r2 c1 c2, length r1 = length c1 -> length c1 = length v1 ->
  trip_entries r (v1 ++ v2) (r1 ++ r2) (c1 ++ c2) = trip_entries r v1 r1 c1 ++ trip_entries r v2 r2 c2.
Proof.
  intros v1 v2 r1 r2 c1 c2 H1 H2. unfold trip_entries. rewrite (combine_app' r1 r2 c1 c2 H1), combine_app'.
  - rewrite filter_app, map_app. reflexivity.
  - rewrite combine_length, <- H1, Nat.min_id. lia.
Qed.

Lemma te_repeat r k (f : Z * Q -> Q) : forall l, trip_entries r (map f l) (repeat k (length l)) (map (fun vc => fst vc) l)
  = if Nat.eqb k r then map (fun vc => (fst vc, qe_of (f vc))) l else [].
Proof.
  induction l as [|p l IH]; unfold trip_entries in *; cbn [map length repeat combine filter fst snd].
  - destruct (Nat.eqb k r); reflexivity.
  - destruct (Nat.eqb k r) eqn:E; cbn [map fst snd]; rewrite IH; reflexivity.
Qed.

Lemma te_cons r v k c vs rs cs : trip_entries r (v :: vs) (k :: rs) (c :: cs) = (if Nat.eqb k r then [(c, qe_of v)] else []) ++ trip_entries r vs rs cs.
Proof. unfold trip_entries. cbn [combine filter fst snd]. destruct (Nat.eqb k r); reflexivity. Qed.
Lemma te_nil r : trip_entries r [] [] [] = [].
Proof. reflexivity. Qed.

Ltac te_side := rewrite ?app_length; cbn [length]; rewrite ?repeat_length, ?map_length; reflexivity.
Ltac te_go := repeat first [rewrite te_cons | rewrite te_app by te_side | rewrite te_repeat | rewrite te_nil]; cbn; rewrite ?app_nil_r; reflexivity.
(* the entry list of a non-constant argument, made opaque *)
Ltac nonconst l p l' := set (l := p :: l') in *; let H := fresh "H" in assert (H : Nat.ltb 0 (length l) = true) by reflexivity; clearbody l; rewrite !H; clear H.
Ltac rows_go := unfold trip_rows; cbn [repeat set_nthQ' length seq map nth app]; f_equal; repeat f_equal; te_go.

Lemma gen_epi_abs_equiv : gen_epi_abs_equiv_stmt.
Proof.
  intros dummy t [l off]. unfold gen_epi_block, gen_epi_abs, epi_block, aff_entries. cbv zeta. cbn [nth fst snd].
  destruct l as [|p l']; [reflexivity|]. nonconst l p l'. rows_go.
Qed.

Lemma gen_epi_pos_equiv : gen_epi_pos_equiv_stmt.
Proof.
  intros dummy t [l off]. unfold gen_epi_block, gen_epi_pos, epi_block, aff_entries. cbv zeta. cbn [nth fst snd].
  destruct l as [|p l']; [reflexivity|]. nonconst l p l'. rows_go.
Qed.

Lemma gen_epi_exp_equiv : gen_epi_exp_equiv_stmt.
Proof.
  intros dummy t [l off]. unfold gen_epi_block, gen_epi_exp, epi_block, aff_row_dummy, aff_entries. cbv zeta. cbn [nth fst snd].
  destruct l as [|p l']; [reflexivity|]. nonconst l p l'. destruct l; rows_go.
Qed.

Lemma gen_epi_relent_equiv : gen_epi_relent_equiv_stmt.
Proof.
  intros dummy t [l off] [l2 off2]. unfold gen_epi_block, gen_epi_relent, epi_block, aff_row_dummy, aff_entries. cbv zeta. cbn [nth fst snd].
  destruct l as [|p l']; destruct l2 as [|p2 l2']; [reflexivity| | |].
  - change (Nat.ltb 0 (@length (Z * Q) [])) with false. nonconst m p2 l2'. cbv iota. destruct m; rows_go.
  - change (Nat.ltb 0 (@length (Z * Q) [])) with false. nonconst l p l'. cbv iota. destruct l; rows_go.
  - nonconst l p l'. nonconst m p2 l2'. destruct l, m; rows_go.
Qed.
