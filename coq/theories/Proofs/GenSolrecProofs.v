(* Proofs/GenSolrecProofs.v — the regenerated is_feasible against the tolerance predicate and against Model/Solrec.
   The proof normalises the boolean skeleton (if/negb/existsb/forallb) before it looks at the comparisons, so that
   equivalent ways of writing the two tests in the source keep it valid. *)
From Coq Require Import List Bool QArith Qabs Lia.
From SageVerif Require Import Gen.GenSolrec Model.Solrec Proofs.SolrecProofs Proofs.GenSolrecSpec.
Import ListNotations.

Lemma if_false_else (a b : bool) : (if a then false else b) = negb a && b. Proof. destruct a; reflexivity. Qed.
Lemma if_true_else (a b : bool) : (if a then true else b) = a || b. Proof. destruct a; reflexivity. Qed.
Lemma if_then_false (a b : bool) : (if a then b else false) = a && b. Proof. destruct a; reflexivity. Qed.
Lemma if_then_true (a b : bool) : (if a then b else true) = negb a || b. Proof. destruct a; reflexivity. Qed.
Lemma negb_existsb {A} (f : A -> bool) l : negb (existsb f l) = forallb (fun x => negb (f x)) l.
Proof. induction l as [|x l IH]; [reflexivity|]. cbn [existsb forallb]. rewrite negb_orb, IH. reflexivity. Qed.
Lemma negb_forallb {A} (f : A -> bool) l : negb (forallb f l) = existsb (fun x => negb (f x)) l.
Proof. induction l as [|x l IH]; [reflexivity|]. cbn [existsb forallb]. rewrite negb_andb, IH. reflexivity. Qed.

Lemma Qltb_true a b : Qltb a b = true <-> (a < b)%Q.
Proof. unfold Qltb. rewrite Qlt_alt. destruct (a ?= b)%Q; split; intro H; try reflexivity; discriminate. Qed.
Lemma Qltb_false a b : negb (Qltb a b) = true <-> (b <= a)%Q.
Proof.
  rewrite negb_true_iff. split; intro H.
  - apply Qnot_lt_le. intro L. apply Qltb_true in L. congruence.
  - destruct (Qltb a b) eqn:E; [|reflexivity]. apply Qltb_true in E. exfalso. exact (Qlt_not_le _ _ E H).
Qed.
Lemma Qleb_true a b : Qleb a b = true <-> (a <= b)%Q.
Proof.
  unfold Qleb. rewrite Qle_alt. destruct (a ?= b)%Q; split; intro H; try reflexivity; try discriminate.
  exfalso. apply H. reflexivity.
Qed.

Ltac norm_bool :=
  repeat first [ rewrite negb_involutive
               | rewrite if_false_else | rewrite if_true_else | rewrite if_then_false | rewrite if_then_true
               | rewrite negb_existsb | rewrite negb_forallb | rewrite andb_true_r | rewrite orb_false_r ].

Lemma forallb_Forall_iff {A} (f : A -> bool) (P : A -> Prop) l :
  (forall x, f x = true <-> P x) -> (forallb f l = true <-> Forall P l).
Proof.
  intro H. rewrite forallb_forall, Forall_forall. split; intros G x Hx; apply H; apply G; exact Hx.
Qed.

Ltac leaf := intro; cbv beta; rewrite ?negb_involutive; first [ apply Qltb_false | apply Qleb_true ].

Lemma gen_is_feasible_spec : gen_is_feasible_spec_stmt.
Proof.
  intros gts eqs itol etol. unfold gen_is_feasible. norm_bool.
  rewrite andb_true_iff.
  rewrite (forallb_Forall_iff _ (fun g => (- itol <= g)%Q) gts) by leaf.
  rewrite (forallb_Forall_iff _ (fun h => (Qabs h <= etol)%Q) eqs) by leaf.
  reflexivity.
Qed.

Lemma gen_is_feasible_model : gen_is_feasible_model_stmt.
Proof.
  intros itol etol c.
  destruct (gen_is_feasible (c_gts c) (c_eqs c) itol etol) eqn:G; destruct (is_feasible itol etol c) eqn:M; try reflexivity; exfalso.
  - apply gen_is_feasible_spec in G. apply (proj2 (is_feasible_iff itol etol c)) in G. congruence.
  - apply is_feasible_iff in M. apply (proj2 (gen_is_feasible_spec _ _ _ _)) in M. congruence.
Qed.

Lemma default_tols_ok : default_tols_ok_stmt.
Proof.
  unfold default_tols_ok_stmt, default_tols.
  repeat split; repeat constructor; try reflexivity.
Qed.
