(* Proofs/CompileProofs.v — the C07 theorems (statements in Proofs/CompileSpec.v), collected.
   CompileRows:   canon_row_val (+ sorted id columns, index_of).
   CompileBlocks: elementwise_rows_are_slack, epi_abs_iff, epi_pos_iff, epi_exp_iff, epi_norm_iff,
                  epi_relent_iff, primal_block_iff, dual_block_iff, blocks_sized, compile_dims,
                  compile_flatten, columns_spec.
   CompileMain:   compile_complete, compile_sound, compile_nondcp_refuted. *)
From SageVerif Require Export Proofs.CompileSpec Proofs.CompileRows Proofs.CompileBlocks
  Proofs.CompileMain.

Definition C07_all :
  canon_row_val_stmt /\ blocks_sized_stmt /\ compile_dims_stmt /\ compile_flatten_stmt /\
  columns_spec_stmt /\ elementwise_rows_are_slack_stmt /\ epi_abs_iff_stmt /\ epi_pos_iff_stmt /\
  epi_exp_iff_stmt /\ epi_norm_iff_stmt /\ epi_relent_iff_stmt /\ primal_block_iff_stmt /\
  dual_block_iff_stmt /\ compile_complete_stmt /\ compile_sound_stmt /\
  compile_nondcp_refuted_stmt :=
  conj canon_row_val (conj blocks_sized (conj compile_dims (conj compile_flatten
  (conj columns_spec (conj elementwise_rows_are_slack (conj epi_abs_iff (conj epi_pos_iff
  (conj epi_exp_iff (conj epi_norm_iff (conj epi_relent_iff (conj primal_block_iff
  (conj dual_block_iff (conj compile_complete (conj compile_sound
  compile_nondcp_refuted)))))))))))))).
