(* Proofs/ConGenSpec.v — statements of the C15 theorems about Model/ConGen.v (domain inference). *)
From Coq Require Import Reals List Bool Arith ZArith QArith Qreals Lra.
From SageVerif Require Import Math.RVec Model.Signomial Model.SigExpr Model.SolverForms Model.ConGen
                              Proofs.SigSpec Proofs.RelaxSpec.
Import ListNotations.
Open Scope R_scope.

(* meaning of an emitted log-space constraint *)
Definition lcon_sat (lc : lcon) (x : list R) : Prop :=
  match lc with
  | WseLe c alpha cst => sigeval (map rowR alpha) (map Q2R c) x <= Q2R cst
  | LinLe a q => dot (rowR a) x <= ln (Q2R q)
  | LinEq a q => dot (rowR a) x = ln (Q2R q)
  end.

Definition one_positive (g : qsig) : Prop := count (fun t => is_pos (snd t)) g = 1%nat.

(* ---- selection ---- *)
(* valid_posynomial_inequalities keeps exactly the constraints with one positive coefficient (in order),
   skips those with two or more, and raises iff some constraint has none *)
Definition valid_posy_selection_stmt : Prop :=
  forall n gs,
    (forall r, valid_posy n gs = Ok r ->
       length r = length (filter (fun g => Nat.eqb (count (fun t => is_pos (snd t)) g) 1) gs) /\
       Forall (fun g => count (fun t => is_pos (snd t)) g <> 0%nat) gs) /\
    ((exists e, valid_posy n gs = Err e) <-> exists g, In g gs /\ count (fun t => is_pos (snd t)) g = 0%nat).

(* ---- normalisation preserves the constraint ---- *)
Definition posy_normalise_iff_stmt : Prop :=
  forall n g a c x, fwf n g -> length x = n -> In (a, c) g -> is_pos c = true ->
    (0 <= sig_evalR g x <-> 0 <= sig_evalR (q_mul n g (inverse_term a)) x) /\
    (sig_evalR g x = 0 <-> sig_evalR (q_mul n g (inverse_term a)) x = 0).

(* ---- emitted constraints are equivalent to the normalised ones ---- *)
(* normal form: the constant term is the only positive coefficient, the others are negative *)
Definition normal_form (g : qsig) (k : nat) : Prop :=
  const_loc g = Some k /\ is_pos (snd (nth k g ([], 0%Q))) = true /\
  forall j, (j < length g)%nat -> j <> k -> is_neg (snd (nth j g ([], 0%Q))) = true.

Definition gt_con_iff_stmt : Prop :=
  forall n g k x, wfsig n g -> length x = n -> normal_form g k ->
    match gt_con g with
    | Some (Some lc) => (0 <= sig_evalR g x <-> lcon_sat lc x)
    | Some None => 0 <= sig_evalR g x      (* a single positive constant: always satisfied, nothing emitted *)
    | None => False
    end.

Definition eq_con_iff_stmt : Prop :=
  forall n g k x, wfsig n g -> length x = n -> normal_form g k -> length g = 2%nat ->
    match eq_con g with
    | Some lc => (sig_evalR g x = 0 <-> lcon_sat lc x)
    | None => False
    end.

(* normalising a constraint with exactly one positive coefficient and distinct exponents puts it in normal form *)
Definition normalised_is_normal_stmt : Prop :=
  forall n g a c, fwf n g -> one_positive g -> In (a, c) g -> is_pos c = true ->
    no_zero_coeff g ->
    exists k, normal_form (q_mul n g (inverse_term a)) k.

(* ---- the inferred set contains every point satisfying ALL the given constraints, and is exactly the
   set cut out by the kept (convexifiable) ones ---- *)
Definition infer_exact_stmt : Prop :=
  forall n gts eqs cg ce lc x,
    Forall (fwf n) gts -> Forall (fwf n) eqs -> Forall no_zero_coeff gts -> Forall no_zero_coeff eqs ->
    length x = n ->
    infer_domain n gts eqs = Ok (cg, ce, lc) ->
    (* every kept equality has two terms (a one-term equality makes the implementation raise) *)
    Forall (fun h => length h = 2%nat) ce ->
    (Forall (fun l => lcon_sat l x) lc <->
     (Forall (fun g => 0 <= sig_evalR g x) cg /\ Forall (fun h => sig_evalR h x = 0) ce)).

Definition infer_contains_stmt : Prop :=
  forall n gts eqs cg ce lc x,
    Forall (fwf n) gts -> Forall (fwf n) eqs -> Forall no_zero_coeff gts -> Forall no_zero_coeff eqs ->
    length x = n ->
    infer_domain n gts eqs = Ok (cg, ce, lc) ->
    Forall (fun h => length h = 2%nat) ce ->
    Forall (fun g => 0 <= sig_evalR g x) gts -> Forall (fun h => sig_evalR h x = 0) eqs ->
    Forall (fun l => lcon_sat l x) lc.
