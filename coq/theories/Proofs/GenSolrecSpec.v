(* Proofs/GenSolrecSpec.v — statements tying the hand-written Model/Solrec.is_feasible to the function
   regenerated from sig_solution_recovery.py on every run (Gen/GenSolrec.v). *)
From Coq Require Import List Bool QArith Qabs.
From SageVerif Require Import Gen.GenSolrec Model.Solrec.
Import ListNotations.

(* the generated function decides exactly the tolerance predicate of the property *)
Definition gen_is_feasible_spec_stmt : Prop :=
  forall gts eqs itol etol,
    gen_is_feasible gts eqs itol etol = true <->
    (Forall (fun g => (- itol <= g)%Q) gts /\ Forall (fun h => (Qabs h <= etol)%Q) eqs).

(* ... and therefore coincides with the model on every candidate: all C17 theorems about Model/Solrec.solrec are
   theorems about the filter the source code applies *)
Definition gen_is_feasible_model_stmt : Prop :=
  forall itol etol c, gen_is_feasible (c_gts c) (c_eqs c) itol etol = is_feasible itol etol c.

(* the default tolerances are positive and the documented ones: 1e-8 / 1e-8 (is_feasible), 1e-8 / 1e-6 (sig_solrec, poly_solrec),
   as the nearest doubles *)
Definition default_tols_ok_stmt : Prop :=
  Forall (fun p => (0 < fst p)%Q /\ (0 < snd p)%Q) default_tols /\
  length default_tols = 3%nat /\
  Forall (fun p => (Qabs (fst p - (1 # 100000000)) < 1 # 1000000000000000000000000)%Q) default_tols /\
  (Qabs (snd (nth 0 default_tols (0, 0)) - (1 # 100000000)) < 1 # 1000000000000000000000000)%Q /\
  (Qabs (snd (nth 1 default_tols (0, 0)) - (1 # 1000000)) < 1 # 1000000000000000000000)%Q /\
  (Qabs (snd (nth 2 default_tols (0, 0)) - (1 # 1000000)) < 1 # 1000000000000000000000)%Q.
