(* Proofs/PolyRepProofs.v — C05: the signomial representative, covers, even modulators, dual links. *)
From Coq Require Import Reals List Bool Arith ZArith QArith Qabs Qreals Lra Lia.
From SageVerif Require Import Math.RVec Model.Expr Model.Signomial Model.SigExpr Model.SymSig Model.PolyRep
  Proofs.ExprSpec Proofs.ExprScalar Proofs.SigSpec Proofs.SigLemmas Proofs.SigRound Proofs.SigMk
  Proofs.SymCorrSpec Proofs.SymCorrReal Proofs.SymSigSpec Proofs.SymSigOps
  Proofs.CalcSpec Proofs.CalcBase Proofs.CalcPoly Proofs.PolySpec Proofs.PolyBase.
Import ListNotations.
Local Open Scope R_scope.

(* ------------------------------------------------------------------ *)
(* sig_rep_aux keeps the rows and the even terms *)
Lemma sigrep_even_unchanged : sigrep_even_unchanged_stmt.
Proof.
  intros p. induction p as [|[a c] p IH]; intros hats r s H.
  - simpl in H. injection H as <- <-. split; [reflexivity|]. intros j Hj. simpl in Hj. lia.
  - simpl in H. destruct (row_even a) eqn:Ea.
    + destruct (sig_rep_aux p hats) as [r' s'] eqn:E. injection H as <- <-.
      destruct (IH _ _ _ E) as [H1 H2]. split; [simpl; now rewrite H1|].
      intros [|j] Hj He; auto. simpl in *. apply H2; auto. lia.
    + destruct (is_constant c).
      * destruct (sig_rep_aux p hats) as [r' s'] eqn:E. injection H as <- <-.
        destruct (IH _ _ _ E) as [H1 H2]. split; [simpl; now rewrite H1|].
        intros [|j] Hj He; simpl in *; [congruence|]. apply H2; auto. lia.
      * destruct hats as [|h hats].
        -- destruct (sig_rep_aux p []) as [r' s'] eqn:E. injection H as <- <-.
           destruct (IH _ _ _ E) as [H1 H2]. split; [simpl; now rewrite H1|].
           intros [|j] Hj He; simpl in *; [congruence|]. apply H2; auto. lia.
        -- destruct (sig_rep_aux p hats) as [r' s'] eqn:E. injection H as <- <-.
           destruct (IH _ _ _ E) as [H1 H2]. split; [simpl; now rewrite H1|].
           intros [|j] Hj He; simpl in *; [congruence|]. apply H2; auto. lia.
Qed.

(* ------------------------------------------------------------------ *)
(* create_covers *)
Lemma nth_error_combine_seq : forall {A} (l : list A) s i it,
  nth_error (combine (seq s (length l)) l) i = Some it ->
  fst it = (s + i)%nat /\ nth_error l i = Some (snd it).
Proof.
  intros A l. induction l as [|a l IH]; intros s i it H.
  - destruct i; discriminate.
  - destruct i as [|i]; simpl in H.
    + injection H as <-. simpl. split; [lia|reflexivity].
    + apply IH in H. destruct H as [H1 H2]. split; auto. lia.
Qed.

Lemma nth_cover_row : forall (odd : list bool) s i j,
  nth j (map (fun jo : nat * bool => negb (Nat.eqb (fst jo) i) && negb (snd jo))
             (combine (seq s (length odd)) odd)) false
  = if Nat.ltb j (length odd) then negb (Nat.eqb (s + j) i) && negb (nth j odd false) else false.
Proof.
  induction odd as [|o odd IH]; intros s i j.
  - destruct j; reflexivity.
  - destruct j as [|j]; simpl seq; simpl combine; simpl map.
    + simpl. now rewrite Nat.add_0_r.
    + simpl nth. rewrite IH. simpl length.
      replace (S s + j)%nat with (s + S j)%nat by lia. reflexivity.
Qed.

Lemma create_covers_valid : create_covers_valid_stmt.
Proof.
  intros s i cov H. unfold create_covers in H.
  rewrite nth_error_map in H.
  destruct (nth_error (combine (seq 0 (length s)) s) i) as [it|] eqn:E; [|discriminate].
  simpl in H. apply nth_error_combine_seq in E. destruct E as [Hi _]. simpl in Hi.
  destruct (_ && _ && _); [discriminate|]. injection H as <-.
  set (odd := map (fun t : qrow * sexpr => negb (row_even (fst t))) s).
  assert (Hl : length odd = length s) by (unfold odd; apply map_length).
  rewrite <- Hl. split; [|split].
  - rewrite map_length, combine_length, seq_length. lia.
  - rewrite nth_cover_row. destruct (Nat.ltb i (length odd)); auto.
    rewrite Hi. simpl. now rewrite Nat.eqb_refl.
  - intros j Hj He. rewrite nth_cover_row. destruct (Nat.ltb j (length odd)); auto.
    replace (nth j odd false) with true; [apply andb_false_r|].
    unfold odd. rewrite Hl in Hj.
    rewrite (nth_indep _ false (negb (row_even (fst ([] : qrow, sconst 0%Q)))))
      by (rewrite map_length; auto).
    rewrite (map_nth (fun t : qrow * sexpr => negb (row_even (fst t)))). apply (f_equal negb) in He. symmetry. exact He.
Qed.

(* ------------------------------------------------------------------ *)
(* dual links *)
Lemma poly_dual_links : poly_dual_links_stmt.
Proof.
  intros n rows s x Hrows Hx Hnz Hs r Hr.
  rewrite Forall_forall in Hrows. destruct (Hrows r Hr) as [_ Hn].
  split; [|split].
  - now rewrite mono_abs_exp.
  - intros He. now rewrite (mono_even r x He).
  - pose proof (mono_between r x) as [H1 H2]. split.
    + assert (s * - monoR r (map Rabs x) <= s * monoR r x) by (now apply Rmult_le_compat_l).
      lra.
    + now apply Rmult_le_compat_l.
Qed.

(* ------------------------------------------------------------------ *)
(* the signomial representative is a lower bound *)
Lemma ssig_eval_chi : forall rho f y, ssig_eval rho f y = sevalchi (fun a => exp (dot (rowR a) y)) rho f.
Proof. reflexivity. Qed.

Lemma sig_rep_aux_bound : forall rho x p hats r side,
  Forall (fun t : qrow * sexpr => natrow (fst t)) p -> no_zero_coord x ->
  (length (filter (fun t : qrow * sexpr => negb (row_even (fst t)) && negb (is_constant (snd t))) p)
     <= length hats)%nat ->
  sig_rep_aux p hats = (r, side) -> side_ok rho side ->
  ssig_eval rho r (logabs x) <= spoly_eval rho p x.
Proof.
  intros rho x p. induction p as [|[a c] p IH]; intros hats r side Hp Hx Hlen H Hside.
  - simpl in H. injection H as <- <-. simpl. lra.
  - inversion Hp as [|? ? Ha Hp']; subst. simpl in Ha.
    simpl in H. simpl filter in Hlen. simpl fst in Hlen. simpl snd in Hlen.
    unfold spoly_eval. simpl fold_right. fold (spoly_eval rho p x).
    destruct (row_even a) eqn:Ea.
    + simpl in Hlen.
      destruct (sig_rep_aux p hats) as [r' s'] eqn:E. injection H as <- <-.
      unfold ssig_eval. simpl fold_right. fold (ssig_eval rho r' (logabs x)).
      rewrite (term_even a x Ha Hx Ea).
      pose proof (IH _ _ _ Hp' Hx Hlen E Hside). lra.
    + destruct (is_constant c) eqn:Ec.
      * simpl in Hlen.
        destruct (sig_rep_aux p hats) as [r' s'] eqn:E. injection H as <- <-.
        unfold ssig_eval. simpl fold_right. fold (ssig_eval rho r' (logabs x)).
        pose proof (IH _ _ _ Hp' Hx Hlen E Hside).
        assert (value rho (sconst (qabs_neg (off c))) * exp (dot (rowR a) (logabs x))
                <= value rho c * monoR a x); [|lra].
        apply term_bound; auto.
        rewrite value_sconst, Q2R_qabs_neg, (is_constant_sound c Ec rho). lra.
      * simpl in Hlen. destruct hats as [|h hats]; [simpl in Hlen; lia|].
        simpl in Hlen.
        destruct (sig_rep_aux p hats) as [r' s'] eqn:E. injection H as <- <-.
        unfold ssig_eval. simpl fold_right. fold (ssig_eval rho r' (logabs x)).
        unfold side_ok in Hside. inversion Hside as [|? ? [Hs1 Hs2] Hside']; subst.
        simpl in Hs1, Hs2.
        assert (Hl' : (length (filter (fun t : qrow * sexpr =>
                   negb (row_even (fst t)) && negb (is_constant (snd t))) p) <= length hats)%nat) by lia.
        pose proof (IH _ _ _ Hp' Hx Hl' E Hside').
        assert (value rho (svar h) * exp (dot (rowR a) (logabs x)) <= value rho c * monoR a x); [|lra].
        apply term_bound; auto. rewrite value_svar.
        unfold Rabs. destruct (Rcase_abs (value rho c)); lra.
Qed.

Lemma spolyrows_natrows : forall n p, spolyrows n p -> Forall (fun t : qrow * sexpr => natrow (fst t)) p.
Proof.
  intros n p H. unfold spolyrows in H. rewrite Forall_forall in *. intros t Ht. apply (H t Ht).
Qed.

Lemma Forall_fst_eq : forall {A B C} (P : A -> Prop) (r : list (A * B)) (p : list (A * C)),
  map fst r = map fst p -> Forall (fun t => P (fst t)) p -> Forall (fun t => P (fst t)) r.
Proof.
  intros A B C P. induction r as [|t r IH]; intros [|u p] E H; try discriminate; constructor.
  - simpl in E. injection E as E1 _. rewrite E1. now inversion H.
  - simpl in E. injection E as _ E2. apply (IH p E2). now inversion H.
Qed.

Lemma sigrep_lower_bound : sigrep_lower_bound_stmt.
Proof.
  intros n p hats sr side rho x Hp Hx Hnz Hlen H Hside.
  unfold sig_rep in H. destruct (sig_rep_aux p hats) as [r s] eqn:E. injection H as <- <-.
  pose proof (sig_rep_aux_bound rho x p hats r s (spolyrows_natrows n p Hp) Hnz Hlen E Hside) as Hb.
  destruct (sigrep_even_unchanged p hats r s E) as [Hrows _].
  assert (Hw : wfs n r).
  { unfold wfs. apply (Forall_fst_eq (fun a => length a = n /\ on_grid_row a) r p Hrows).
    unfold spolyrows in Hp. rewrite Forall_forall in *. intros t Ht.
    destruct (Hp t Ht) as [Hl Hn]. split; auto. now apply natrow_on_grid. }
  rewrite ssig_eval_chi.
  rewrite (s_mk_ev_grid n _ rho r (sig_character_proof n (logabs x) (eq_trans (logabs_length x) Hx)) Hw).
  rewrite <- ssig_eval_chi. exact Hb.
Qed.

(* ------------------------------------------------------------------ *)
(* even-exponent modulators *)
Lemma mono_even_nonneg : forall a x, row_even a = true -> 0 <= monoR a x.
Proof. intros a x H. rewrite (mono_even a x H). apply mono_abs_nonneg. Qed.

Lemma mono_even_pos : forall a x, row_even a = true -> no_zero_coord x -> 0 < monoR a x.
Proof. intros a x H Hx. rewrite (mono_even a x H). now apply mono_abs_pos. Qed.

Definition ones (rows : list qrow) : qsig := map (fun r => (r, 1%Q)) rows.

Lemma ones_eval_nonneg : forall rows x, Forall (fun r => row_even r = true) rows ->
  0 <= poly_evalR (ones rows) x.
Proof.
  intros rows x H. induction H as [|r rows Hr _ IH]; simpl; [lra|].
  rewrite Q2R_1'. pose proof (mono_even_nonneg r x Hr). lra.
Qed.

Lemma ones_eval_pos : forall rows x, Forall (fun r => row_even r = true) rows -> rows <> [] ->
  no_zero_coord x -> 0 < poly_evalR (ones rows) x.
Proof.
  intros rows x H Hne Hx. destruct H as [|r rows Hr Hrows]; [congruence|].
  simpl. rewrite Q2R_1'. pose proof (mono_even_pos r x Hr Hx).
  pose proof (ones_eval_nonneg rows x Hrows). unfold ones in *. lra.
Qed.

Lemma standard_multiplier_pos : standard_multiplier_pos_stmt.
Proof.
  intros n rows x Hrows Hx.
  unfold standard_multiplier. fold (ones (filter row_even rows)).
  assert (Hn : natrows (ones (filter row_even rows))).
  { unfold natrows, ones. apply Forall_map. simpl. rewrite Forall_forall in *. intros r Hr.
    apply filter_In in Hr. destruct Hr as [Hr _]. apply (Hrows r Hr). }
  rewrite (poly_mk_eval _ x Hn).
  assert (He : Forall (fun r => row_even r = true) (filter row_even rows)).
  { apply Forall_forall. intros r Hr. apply filter_In in Hr. tauto. }
  split.
  - now apply ones_eval_nonneg.
  - intros Hnz [r [Hr Her]]. apply ones_eval_pos; auto.
    intros E. assert (Hin : In r (filter row_even rows)) by (apply filter_In; auto).
    rewrite E in Hin. contradiction.
Qed.
