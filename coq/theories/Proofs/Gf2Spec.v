(* Proofs/Gf2Spec.v — the *statements* of the C18 theorems, as named Props.
   Kept apart from the proofs so that a proof can never quietly weaken them. *)
From Coq Require Import List Bool Arith ZArith Lia.
From SageVerif Require Import Model.Gf2.
Import ListNotations.

Definition wf (n : nat) (A : mat) : Prop := Forall (fun r => length r = n) A.
Definition mulmv (A : mat) (x : row) : row := map (fun r => dotb r x) A.
Definition zeros (n : nat) : row := repeat false n.

(* xor-combination of the rows selected by [sel] (rows of width n) *)
Fixpoint comb (n : nat) (sel : list bool) (rows : mat) : row :=
  match sel, rows with
  | s :: sel', r :: rows' => if s then xorrow r (comb n sel' rows') else comb n sel' rows'
  | _, _ => zeros n
  end.
Definition in_span (n : nat) (rows : mat) (r : row) : Prop :=
  exists sel, length sel = length rows /\ r = comb n sel rows.

(* --- mod2rref --- *)
Definition rref_shape_stmt : Prop :=
  forall fo n A R piv, wf n A -> mod2rref fo A = (R, piv) ->
    length R = length A /\ wf n R.

(* row-equivalence, both directions *)
Definition rref_rowspace_stmt : Prop :=
  forall fo n A R piv, wf n A -> A <> [] -> mod2rref fo A = (R, piv) ->
    (forall r, In r R -> in_span n A r) /\ (forall r, In r A -> in_span n R r).

(* same solution set for every right-hand side is a consequence; kernel version *)
Definition rref_kernel_stmt : Prop :=
  forall fo n A R piv x, wf n A -> A <> [] -> length x = n -> mod2rref fo A = (R, piv) ->
    (mulmv A x = zeros (length A) <-> mulmv R x = zeros (length R)).

Definition strictly_increasing (l : list nat) : Prop :=
  forall i j, i < j -> j < length l -> nth i l 0 < nth j l 0.

Definition rref_echelon_stmt : Prop :=
  forall fo n A R piv, wf n A -> A <> [] -> mod2rref fo A = (R, piv) ->
    strictly_increasing piv /\
    length piv <= length A /\
    (forall i, i < length piv -> nth i piv 0 < n) /\
    (* row i has its leading one at piv[i] *)
    (forall i, i < length piv ->
        bit (nth i piv 0) (nth i R []) = true /\
        forall j, j < nth i piv 0 -> bit j (nth i R []) = false) /\
    (* entries below a pivot are zero *)
    (forall i i', i < length piv -> i < i' -> i' < length R ->
        bit (nth i piv 0) (nth i' R []) = false) /\
    (* rows beyond the rank are zero *)
    (forall i, length piv <= i -> i < length R -> nth i R [] = zeros n) /\
    (* pivot columns are exactly those where the rank of the leading columns grows:
       a non-pivot column k has no row i >= (#pivots < k) with a one in it *)
    (forall k, k < n -> ~ In k piv ->
        forall i, length (filter (fun p => p <? k) piv) <= i -> i < length R ->
                  bit k (nth i R []) = false).

Definition rref_reduced_stmt : Prop :=
  forall n A R piv, wf n A -> A <> [] -> mod2rref false A = (R, piv) ->
    forall i i', i < length piv -> i' < length R -> i' <> i ->
      bit (nth i piv 0) (nth i' R []) = false.

(* --- mod2linsolve --- *)
Definition linsolve_sound_stmt : Prop :=
  forall n A b x, wf n A -> A <> [] -> length b = length A ->
    mod2linsolve n A b = Some x -> length x = n /\ mulmv A x = b.

Definition linsolve_complete_stmt : Prop :=
  forall n A b, wf n A -> A <> [] -> length b = length A ->
    mod2linsolve n A b = None -> forall x, length x = n -> mulmv A x <> b.

(* --- null space --- *)
Definition nullspace_exact_stmt : Prop :=
  forall n A R piv, wf n A -> A <> [] -> mod2rref false A = (R, piv) ->
    (forall x, length x = n ->
        (mulmv A x = zeros (length A) <-> In x (mod2nullspace n R piv))) /\
    NoDup (mod2nullspace n R piv) /\
    length (mod2nullspace n R piv) = 2 ^ (n - length piv).

(* --- sign patterns --- *)
(* y : row of bits, true = -1.  sign of prod_j y_j^alpha_ij is negative iff
   an odd number of j have y_j = -1 and alpha_ij odd. *)
Definition prod_negative (arow : list Z) (y : row) : bool := dotb (map par arow) y.

Definition consistent (alpha : zmat) (moments : list Z) (y : row) : Prop :=
  forall i, i < length alpha -> nth i moments 0%Z <> 0%Z ->
    prod_negative (nth i alpha []) y = Z.ltb (nth i moments 0%Z) 0.

(* premise of the property: moments on all-even monomials are nonnegative *)
Definition even_moments_nonneg (alpha : zmat) (moments : list Z) : Prop :=
  forall i, i < length alpha ->
    forallb (fun a => negb (par a)) (nth i alpha []) = true -> (0 <= nth i moments 0)%Z.

Definition wfz (n : nat) (alpha : zmat) : Prop := Forall (fun r => length r = n) alpha.

Definition signs_sound_stmt : Prop :=
  forall n alpha moments all_signs ys,
    wfz n alpha -> length moments = length alpha -> even_moments_nonneg alpha moments ->
    variable_sign_patterns n alpha moments false all_signs = SpList ys ->
    forall y, In y ys -> length y = n /\ consistent alpha moments y.

(* coordinates relevant to signs: those that are odd in some row with nonzero moment *)
Definition relevant (alpha : zmat) (moments : list Z) (j : nat) : Prop :=
  exists i, i < length alpha /\ nth i moments 0%Z <> 0%Z /\ par (nth j (nth i alpha []) 0%Z) = true.

Definition signs_complete_stmt : Prop :=
  forall n alpha moments heur ys y,
    wfz n alpha -> length moments = length alpha -> even_moments_nonneg alpha moments ->
    variable_sign_patterns n alpha moments heur true = SpList ys ->
    length y = n -> consistent alpha moments y ->
    (forall j, j < n -> ~ relevant alpha moments j -> nth j y false = false) ->
    In y ys.

Definition signs_none_iff_stmt : Prop :=
  forall n alpha moments all_signs,
    wfz n alpha -> length moments = length alpha -> even_moments_nonneg alpha moments ->
    (variable_sign_patterns n alpha moments false all_signs = SpList [] <->
     forall y, length y = n -> ~ consistent alpha moments y).

(* with heuristics on, an inconsistent system is the only way to reach the
   (unmodelled, real-valued) greedy routine *)
Definition signs_heuristic_only_if_inconsistent_stmt : Prop :=
  forall n alpha moments all_signs,
    wfz n alpha -> length moments = length alpha -> even_moments_nonneg alpha moments ->
    (variable_sign_patterns n alpha moments true all_signs = SpHeuristic <->
     forall y, length y = n -> ~ consistent alpha moments y).
