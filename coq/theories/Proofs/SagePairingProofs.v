(* Proofs/SagePairingProofs.v — C03 core: weak duality between the rows of a primal SAGE constraint
   (Model/Sage.v: primal_blocks) and the rows of a dual SAGE constraint (dual_blocks) over the same
   exponents and domain: every solution of the primal rows and every solution of the dual rows
   satisfy 0 <= <c, v>.  Statement: Proofs/SageSpec.v (sage_pairing_stmt).
   Combines SagePrimalProofs (primal_rows_facts, age_hyps_pairing, ...), SageDualProofs
   (dual_age_facts, dual_age_facts_padded) and MathProofs.age_pairing. *)
From Coq Require Import Reals List Bool Arith ZArith QArith Qreals Lra Lia.
From SageVerif Require Import Math.RVec Model.Expr Model.SolverForms Model.Compile Model.Sage
  Proofs.MathSpec Proofs.MathProofs Proofs.ExprSpec Proofs.FormsSpec Proofs.FormsLemmas
  Proofs.CompileSpec Proofs.ExprAtoms Proofs.ExprScalar Proofs.CompileRows Proofs.CompileBlocks
  Proofs.SageSpec Proofs.SageRows Proofs.SagePrimalProofs Proofs.SageDualRows Proofs.SageDualProofs.
Import ListNotations.
Open Scope R_scope.

(* ------------------------------------------------------------------ inner products as finite sums *)
Lemma dot_rsumf : forall u w, length u = length w ->
  dot u w = rsumf (fun j => nth j u 0 * nth j w 0) (seq 0 (length u)).
Proof.
  induction u as [|x u IH]; intros [|y w] H; try discriminate H; [reflexivity|].
  cbn [length seq dot]. rewrite (rsumf_cons _ _ 0%nat), rsumf_seq_shift. cbn [nth].
  rewrite IH by (simpl in H; lia). reflexivity.
Qed.

Lemma dot_maps : forall (f g : nat -> R) l, dot (map f l) (map g l) = rsumf (fun j => f j * g j) l.
Proof.
  induction l as [|j l IH]; [reflexivity|]. cbn [map dot]. now rewrite rsumf_cons, IH.
Qed.

(* ------------------------------------------------------------------ Forall2 over two maps of one list *)
Lemma Forall2_maps_In {A B C} (P : B -> C -> Prop) (f : A -> B) (g : A -> C) : forall l,
  Forall2 P (map f l) (map g l) -> forall j, In j l -> P (f j) (g j).
Proof.
  induction l as [|x l IH]; intros H j Hj; [destruct Hj|].
  cbn [map] in H. inversion H as [|? ? ? ? H1 H2]; subst.
  destruct Hj as [<-|Hj]; [exact H1 | now apply IH].
Qed.

Lemma Forall2_maps_intro {A B C} (P : B -> C -> Prop) (f : A -> B) (g : A -> C) : forall l,
  (forall j, In j l -> P (f j) (g j)) -> Forall2 P (map f l) (map g l).
Proof.
  induction l as [|x l IH]; intros H; cbn [map]; constructor.
  - apply H. now left.
  - apply IH. intros j Hj. apply H. now right.
Qed.

(* ------------------------------------------------------------------ classification of the entries of c *)
(* an entry that is neither in U_I nor in P_I is the constant 0 *)
Lemma class_zero : forall e rho, in_UI e = false -> in_PI e = false -> value rho e = 0.
Proof.
  intros e rho HU HP. unfold in_UI in HU. unfold in_PI in HP.
  apply orb_false_iff in HU as [HC HL]. apply negb_false_iff in HC. rewrite HC in HP. cbn [andb] in HP.
  rewrite (is_constant_sound e HC rho).
  destruct (Qcompare (off e) 0) eqn:E; try discriminate.
  apply Qeq_alt in E. rewrite (Qeq_eqR _ _ E). apply EQ2R_0.
Qed.

Lemma not_in_indices_where {X} (f : X -> bool) (d : X) : forall l j, (j < length l)%nat ->
  ~ In j (indices_where f l) -> f (nth j l d) = false.
Proof.
  intros l j Hj H. apply not_true_is_false. intros E. apply H.
  apply (indices_where_In f d). split; assumption.
Qed.

(* ------------------------------------------------------------------ the theorem *)
Lemma sage_pairing : sage_pairing_stmt.
Proof.
  intros n N alpha c X pcov pids pst v dcov dids dst dummy1 dummy2 bs rho_p rho_d
         Hpwf Hdwf Hsub Hpb Hps Hds.
  pose proof Hpwf as (Hal & Hcl & Hca & Hdom & Hpi & Hnd).
  pose proof Hdwf as (_ & Hvl & Hva & _ & _ & Hdids).
  set (cv := cvals rho_p c). set (vv := cvals rho_d v).
  assert (Lcv : length cv = length alpha) by (unfold cv, cvals; rewrite map_length; exact Hcl).
  assert (Lvv : length vv = length alpha) by (unfold vv, cvals; rewrite map_length; exact Hvl).
  assert (Hcvn : forall j, nth j cv 0 = value rho_p (nth j c (sconst 0%Q))) by (intros; apply value_nth).
  assert (Hvvn : forall j, nth j vv 0 = value rho_d (nth j v (sconst 0%Q))) by (intros; apply value_nth).
  rewrite dot_rsumf by lia. rewrite Lcv.
  destruct (le_lt_dec (length alpha) 1) as [Hm|Hm].
  { (* at most one term: both sides are elementwise nonnegative *)
    assert (Ht : trivial_case (length alpha) c pcov = true).
    { unfold trivial_case. apply orb_true_iff. left. now apply Nat.leb_le. }
    pose proof (primal_trivial_nonneg _ _ _ _ _ _ _ _ _ _ _ Hpwf Hpb Hps Ht) as Hc. fold cv in Hc.
    pose proof (proj1 (dual_blocks_sat_small rho_d n N alpha v (Some c) X dcov dids dst dummy2 Hm Hvl Hva) Hds)
      as Hsm.
    apply rsumf_nonneg. intros j Hj. apply in_seq in Hj.
    apply Rmult_le_pos.
    - rewrite Forall_forall in Hc. apply Hc, nth_In. lia.
    - rewrite Hvvn. apply (Hsm j). lia. }
  (* at least two terms *)
  destruct (dual_age_facts _ _ _ _ _ _ _ _ _ _ _ Hdwf Hm Hds) as [F0 _].
  assert (Vnn : forall j, (j < length alpha)%nat -> In j (UI c) \/ In j (indices_where in_PI c) ->
                  0 <= nth j vv 0).
  { intros j Hj Hin. rewrite Hvvn. apply F0; assumption. }
  assert (Hcase : forall j, (j < length alpha)%nat ->
                    0 <= nth j vv 0 \/ (nth j cv 0 = 0 /\ ~ In j (UI c))).
  { intros j Hj.
    destruct (in_dec Nat.eq_dec j (UI c)) as [H1|H1]; [left; apply Vnn; auto|].
    destruct (in_dec Nat.eq_dec j (indices_where in_PI c)) as [H2|H2]; [left; apply Vnn; auto|].
    right. split; [|exact H1]. rewrite Hcvn. apply class_zero.
    - apply not_in_indices_where; [lia | exact H1].
    - apply not_in_indices_where; [lia | exact H2]. }
  destruct (primal_rows_facts n N alpha c X pcov pids Hpwf pst dummy1 bs rho_p Hpb Hps)
    as [[_ Hc]|[_ [Hsum Hage]]].
  { (* trivial branch of the primal rows: c >= 0 *)
    apply rsumf_nonneg. intros j Hj. apply in_seq in Hj.
    destruct (Hcase j ltac:(lia)) as [Hv|[Hz _]].
    - apply Rmult_le_pos; [|exact Hv]. rewrite Hcvn. rewrite Forall_forall in Hc. apply Hc, nth_In. lia.
    - rewrite Hz. lra. }
  (* AGE branch *)
  set (a := fun i j => nth j (age_vals rho_p alpha c pcov pids i) 0) in *.
  assert (Hsum' : forall j, (j < length alpha)%nat -> rsumf (fun i => a i j) (UI c) <= nth j cv 0).
  { intros j Hj. rewrite Hcvn. exact (Hsum j Hj). }
  (* step 1: replace c by the sum of the AGE vectors *)
  apply Rle_trans with (rsumf (fun j => rsumf (fun i => a i j) (UI c) * nth j vv 0) (seq 0 (length alpha))).
  2:{ apply rsumf_le. intros j Hj. apply in_seq in Hj. assert (Hjm : (j < length alpha)%nat) by lia.
      destruct (Hcase j Hjm) as [Hv|[Hz Hnin]].
      - apply Rmult_le_compat_r; [exact Hv | now apply Hsum'].
      - assert (H0 : 0 <= rsumf (fun i => a i j) (UI c)).
        { apply rsumf_nonneg. intros i Hi. unfold a.
          apply (age_off_nonneg N alpha c X pcov pids rho_p i Hi (Hage i Hi) j Hjm).
          intros ->. contradiction. }
        pose proof (Hsum' j Hjm) as H1. rewrite Hz in H1 |- *.
        assert (E0 : rsumf (fun i => a i j) (UI c) = 0) by (apply Rle_antisym; assumption). rewrite E0. lra. }
  (* step 2: exchange the sums *)
  assert (E : rsumf (fun j => rsumf (fun i => a i j) (UI c) * nth j vv 0) (seq 0 (length alpha))
              = rsumf (fun i => rsumf (fun j => a i j * nth j vv 0) (seq 0 (length alpha))) (UI c)).
  { rewrite (rsumf_swap (fun i j => a i j * nth j vv 0)). apply rsumf_ext. intros j _.
    rewrite (rsumf_ext _ (fun i => a i j * nth j vv 0) (fun i => nth j vv 0 * a i j)) by (intros; ring).
    rewrite rsumf_scale. lra. }
  rewrite E. clear E.
  (* step 3: each AGE vector pairs nonnegatively with v *)
  apply rsumf_nonneg. intros i Hi.
  assert (Him : (i < length alpha)%nat) by (rewrite <- Hcl; now apply UI_lt).
  destruct (Hpi i Hi) as ([Hpl Hpii] & _).
  destruct (Hdids i Him) as ([Hdl _] & _ & _).
  assert (Hvi : 0 <= nth i vv 0) by (apply Vnn; auto).
  rewrite (rsumf_support _ (fun j => nth j (pcov i) false) (length alpha) i Him Hpii).
  2:{ intros j Hj Hne Hp. unfold a. rewrite (age_vals_off_support alpha c pcov pids rho_p i j Hi Hj Hne); [lra|].
      intros Hin. apply cover_idx_In in Hin. destruct Hin as [_ Hin]. cbv beta in Hp. congruence. }
  replace (filter (fun j => nth j (pcov i) false) (seq 0 (length alpha))) with (cover_idx (pcov i))
    by (rewrite cover_idx_filter, Hpl; reflexivity).
  assert (Hemp : cover_idx (pcov i) = [] \/ cover_idx (pcov i) <> []).
  { destruct (cover_idx (pcov i)); [now left | right; discriminate]. }
  destruct Hemp as [He|Hne].
  - (* empty primal cover: own entry nonnegative *)
    rewrite He. cbn [rsumf fold_right].
    pose proof (proj1 (Hage i Hi) He) as H0. fold (a i i) in H0.
    pose proof (Rmult_le_pos _ _ H0 Hvi). lra.
  - (* nonempty primal cover: age_pairing *)
    pose proof (proj2 (Hage i Hi) Hne) as Hfull. fold (a i i) in Hfull.
    assert (Hsubcov : forall j, In j (cover_idx (pcov i)) -> In j (cover_idx (dcov i))).
    { intros j Hj. apply cover_idx_In in Hj as [Hj1 Hj2]. apply cover_idx_In. split; [lia|].
      now apply Hsub. }
    assert (Hdne : cover_idx (dcov i) <> []).
    { destruct (cover_idx (pcov i)) as [|j0 l] eqn:E0; [contradiction|].
      intros Ed. specialize (Hsubcov j0 (or_introl eq_refl)). rewrite Ed in Hsubcov. destruct Hsubcov. }
    pose proof (dual_age_facts_padded n N alpha v (Some c) X dcov dids dst dummy2 rho_d i
                  Hdwf Hm Hds Hi Hdne) as HD.
    cbv zeta in HD. destruct HD as (Lmu & _ & HF2 & HK).
    assert (HP : 0 <= a i i * nth i vv 0
                      + dot (map (fun j => a i j) (cover_idx (pcov i)))
                            (map (fun j => nth j vv 0) (cover_idx (pcov i)))).
    { apply (age_hyps_pairing _ _ _ _ _ _ _ _ _ _ _ Hfull) with (mu := map rho_d (d_mu (dids i))).
      - exact Lmu.
      - unfold alphaJs. now rewrite !map_length.
      - exact Hvi.
      - unfold alphaJs. apply Forall2_maps_intro. intros j Hj.
        pose proof (Forall2_maps_In _ _ _ _ HF2 j (Hsubcov j Hj)) as K. cbv beta in K.
        assert (Hjm : (j < length alpha)%nat).
        { apply cover_idx_In in Hj. lia. }
        rewrite !nth_aR_pad in K by assumption. rewrite !Hvvn. unfold alphaI. exact K.
      - rewrite Hvvn. destruct X as [D|]; [exact HK | reflexivity]. }
    rewrite dot_maps in HP. exact HP.
Qed.
