(* Proofs/CoverLemmas.v — the provable part of the cover presolve (C06, C19): an AGE cone whose linear
   equations (alpha_cover - alpha_i)^T nu = 0 admit a Farkas certificate x with (alpha_cover - alpha_i) x <= -1
   only has the witness nu = 0 (this is what _presolve_trivial_ord_age tests with an LP), and so does a
   cover with a single element (what _default_covers removes for X = R^n). *)
From Coq Require Import Reals List Lra.
From SageVerif Require Import Math.RVec Proofs.MathSpec Proofs.MathProofs.
Import ListNotations.
Open Scope R_scope.

Lemma dot_le_neg_sum : forall nu d,
  length nu = length d -> Forall (fun v => 0 <= v) nu -> Forall (fun v => v <= -1) d ->
  dot nu d <= - rsum nu.
Proof.
  induction nu as [|v nu IH]; intros [|e d] Hl Hn Hd; simpl in *; try discriminate; try lra.
  inversion Hn; subst. inversion Hd; subst. injection Hl as Hl.
  specialize (IH d Hl H2 H4). unfold rsum in *. simpl. nra.
Qed.

Lemma nonneg_sum_zero : forall nu, Forall (fun v => 0 <= v) nu -> rsum nu <= 0 -> Forall (fun v => v = 0) nu.
Proof.
  induction nu as [|v nu IH]; intros Hn Hs; constructor; inversion Hn; subst; unfold rsum in *; simpl in *.
  - assert (0 <= fold_right Rplus 0 nu).
    { clear - H2. induction nu; simpl; [lra|]. inversion H2; subst. specialize (IHnu H3). lra. }
    lra.
  - apply IH; auto.
    assert (0 <= fold_right Rplus 0 nu).
    { clear - H2. induction nu; simpl; [lra|]. inversion H2; subst. specialize (IHnu H3). lra. }
    lra.
Qed.

Lemma dot_vzero_l : forall n x, dot (vzero n) x = 0.
Proof. induction n; intros [|y x]; simpl; auto. rewrite IHn. lra. Qed.

Theorem farkas_cover_trivial :
  forall n (D : list (list R)) (nu x : list R),
    wfm n D -> length x = n -> length nu = length D ->
    Forall (fun v => 0 <= v) nu ->
    tmv n D nu = vzero n ->
    Forall (fun r => dot r x <= -1) D ->
    Forall (fun v => v = 0) nu.
Proof.
  intros n D nu x HD Hx Hl Hn Hbal Hf.
  pose proof (tmv_dot n D nu x HD Hx Hl) as Ht.
  rewrite Hbal, dot_vzero_l in Ht.
  assert (Hd : Forall (fun v => v <= -1) (mv D x)).
  { unfold mv. rewrite Forall_forall in *. intros v Hv. apply in_map_iff in Hv. destruct Hv as [r [<- Hr]]. auto. }
  assert (Hlen : length nu = length (mv D x)) by (unfold mv; rewrite map_length; auto).
  pose proof (dot_le_neg_sum nu (mv D x) Hlen Hn Hd).
  apply nonneg_sum_zero; auto. lra.
Qed.

(* a cover with one element: nu * (alpha_j - alpha_i) = 0 with alpha_j <> alpha_i forces nu = 0 *)
Theorem singleton_cover_trivial :
  forall n (d : list R) (nu : R),
    length d = n -> tmv n [d] [nu] = vzero n -> (exists k, nth k d 0 <> 0) -> nu = 0.
Proof.
  intros n d nu Hd Hbal [k Hk].
  simpl in Hbal.
  assert (forall j, nth j (vadd (vscale nu d) (vzero n)) 0 = nu * nth j d 0) as Hnth.
  { clear Hbal Hk. subst n. induction d as [|y d IH]; intros [|j]; simpl; try lra. apply IH. }
  rewrite Hbal in Hnth. specialize (Hnth k).
  assert (nth k (vzero n) 0 = 0).
  { unfold vzero. clear. revert k. induction n; intros [|k]; simpl; auto. }
  rewrite H in Hnth. destruct (Req_dec nu 0); auto. exfalso. apply Hk. nra.
Qed.
