(* Proofs/ExprProgram.v — every instruction of Model/ExprProg.v, and hence every straight-line
   program, evaluates to the numpy instruction on the values (step_sound, program_sound). *)
From Coq Require Import Reals List Bool Arith ZArith QArith Qreals Lra Lia.
From SageVerif Require Import Math.RVec Model.Expr Model.ExprProg Proofs.ExprSpec
  Proofs.ExprAtoms Proofs.ExprScalar Proofs.ExprArrays.
Import ListNotations.
Open Scope R_scope.

Section Step.
  Variable rho : env.

  Lemma rv_gmap : forall r, reg_vals rho r = gmap (value rho) (snd r).
  Proof. reflexivity. Qed.

  Lemma nget_rv : forall rs i, nget (map (reg_vals rho) rs) i = option_map (reg_vals rho) (getr rs i).
  Proof. intros. unfold nget, getr. apply nth_error_map. Qed.

  Lemma lift_rmap : forall (x : res arr) z, lift x = Some z ->
    lift (rmap (value rho) x) = Some (gmap (value rho) z).
  Proof. intros [x|] z E; simpl in *; [injection E as <-; reflexivity | discriminate E]. Qed.

  Lemma lift_rmap1 : forall (x : res sexpr) z, lift x = Some z ->
    lift (rmap1 (value rho) x) = Some (value rho z).
  Proof. intros [x|] z E; simpl in *; [injection E as <-; reflexivity | discriminate E]. Qed.

  (* ---- the register-access patterns ---- *)
  Lemma un_gen : forall rs a (f : arr -> option arr) (g : nreg -> option nreg) r,
    un rs a f = Some r ->
    (forall x y, f x = Some y -> g (gmap (value rho) x) = Some (gmap (value rho) y)) ->
    obind (nget (map (reg_vals rho) rs) a) g = Some (reg_vals rho r).
  Proof.
    intros rs a f g r Hr Hfg. unfold un in Hr. rewrite nget_rv.
    destruct (getr rs a) as [ra|]; [|discriminate Hr]. cbn [obind option_map] in *.
    destruct (f (snd ra)) as [y|] eqn:E; [|discriminate Hr]. cbn [obind] in Hr.
    injection Hr as <-. rewrite !rv_gmap. cbn [snd]. now apply Hfg.
  Qed.

  Lemma un_arr_gen : forall rs a (f : arr -> option arr) (g : nreg -> option nreg) r,
    un_arr rs a f = Some r ->
    (forall x y, f x = Some y -> g (gmap (value rho) x) = Some (gmap (value rho) y)) ->
    obind (nget (map (reg_vals rho) rs) a) g = Some (reg_vals rho r).
  Proof.
    intros rs a f g r Hr Hfg. unfold un_arr in Hr. rewrite nget_rv.
    destruct (getr rs a) as [ra|]; [|discriminate Hr]. cbn [obind option_map] in *.
    destruct (f (snd ra)) as [y|] eqn:E; [|discriminate Hr]. cbn [obind] in Hr.
    injection Hr as <-. rewrite !rv_gmap. cbn [snd]. now apply Hfg.
  Qed.

  Lemma un_scalar_gen : forall rs a (f : arr -> option sexpr) (g : nreg -> option R) r,
    un_scalar rs a f = Some r ->
    (forall x e, f x = Some e -> g (gmap (value rho) x) = Some (value rho e)) ->
    obind (nget (map (reg_vals rho) rs) a)
      (fun x => obind (g x) (fun v => Some {| shape := []; cells := [v] |})) = Some (reg_vals rho r).
  Proof.
    intros rs a f g r Hr Hfg. unfold un_scalar in Hr. rewrite nget_rv.
    destruct (getr rs a) as [ra|]; [|discriminate Hr]. cbn [obind option_map] in *.
    destruct (f (snd ra)) as [e|] eqn:E; [|discriminate Hr]. cbn [obind] in Hr.
    injection Hr as <-. rewrite rv_gmap, (Hfg _ _ E). reflexivity.
  Qed.

  Lemma bin_gen : forall rs a b (f : arr -> arr -> option arr) (g : nreg -> nreg -> option nreg) r,
    bin rs a b f = Some r ->
    (forall x y z, f x y = Some z ->
       g (gmap (value rho) x) (gmap (value rho) y) = Some (gmap (value rho) z)) ->
    obind (nget (map (reg_vals rho) rs) a) (fun x => obind (nget (map (reg_vals rho) rs) b) (fun y => g x y))
    = Some (reg_vals rho r).
  Proof.
    intros rs a b f g r Hr Hfg. unfold bin in Hr. rewrite !nget_rv.
    destruct (getr rs a) as [ra|]; [|discriminate Hr]. cbn [obind option_map] in *.
    destruct (getr rs b) as [rb|]; [|discriminate Hr]. cbn [obind option_map] in *.
    destruct (f (snd ra) (snd rb)) as [z|] eqn:E; [|discriminate Hr]. cbn [obind] in Hr.
    injection Hr as <-. rewrite !rv_gmap. cbn [snd]. now apply Hfg.
  Qed.

  (* ---- all_some ---- *)
  Lemma all_some_sound : forall A (F : A -> option sexpr) (G : A -> R) l cs,
    all_some (map F l) = Some cs ->
    (forall p e, F p = Some e -> value rho e = G p) ->
    map (value rho) cs = map G l.
  Proof.
    intros A F G. induction l as [|p l IH]; simpl; intros cs E HFG.
    - injection E as <-. reflexivity.
    - destruct (F p) as [e|] eqn:Ep; [|discriminate E].
      destruct (all_some (map F l)) as [cs'|] eqn:El; [|discriminate E].
      injection E as <-. simpl. now rewrite (HFG p e Ep), (IH cs' eq_refl HFG).
  Qed.

  Lemma all_some_regs : forall rs xs l,
    all_some (map (getr rs) xs) = Some l ->
    all_some (map (nget (map (reg_vals rho) rs)) xs) = Some (map (reg_vals rho) l).
  Proof.
    intros rs. induction xs as [|x xs IH]; simpl; intros l E.
    - injection E as <-. reflexivity.
    - rewrite nget_rv. destruct (getr rs x) as [r|]; [|discriminate E].
      destruct (all_some (map (getr rs) xs)) as [l'|] eqn:El; [|discriminate E].
      injection E as <-. simpl. now rewrite (IH l' eq_refl).
  Qed.

  (* ---- sums ---- *)
  Lemma value_ssum : forall l, value rho (ssum l) = rsum (map (value rho) l).
  Proof.
    intros l. unfold ssum.
    rewrite (xsum_nat szero sadd sscale 0 Rplus rscale (value rho) (value_is_hom rho)).
    apply xsum_R.
  Qed.

  Lemma dot_combine : forall A B (f : A -> R) (g : B -> R) c l,
    dot (map f c) (map g l) = rsum (map (fun p => f (fst p) * g (snd p)) (combine c l)).
  Proof.
    intros A B f g. induction c as [|x c IH]; intros [|y l]; simpl; auto.
    rewrite IH. reflexivity.
  Qed.

  (* ---- elementwise product ---- *)
  Lemma azip_res_sound : forall x y z, azip_res smul x y = Some z ->
    nzip_res Rmult (gmap (value rho) x) (gmap (value rho) y) = Some (gmap (value rho) z).
  Proof.
    intros x y z E. unfold azip_res in E. unfold nzip_res, azip. cbn [gmap shape cells].
    destruct (bshape _ _) as [sh|]; [|discriminate E].
    match type of E with obind (all_some ?m) _ = _ => destruct (all_some m) as [cs|] eqn:Ecs end;
      [|discriminate E].
    cbn [obind] in E. injection E as <-. cbn [lift]. unfold gmap. cbn [shape cells]. f_equal. f_equal.
    rewrite <- !(broadcast_cells_map szero sadd sscale 0 Rplus rscale (value rho) (value_is_hom rho)).
    rewrite combine_map2, map_map. symmetry.
    apply (all_some_sound _ _ _ _ _ Ecs).
    intros p e Hp. cbn [fst snd]. apply value_smul.
    destruct (smul (fst p) (snd p)); simpl in Hp; [injection Hp as <-; reflexivity | discriminate Hp].
  Qed.

  Lemma amap_res_sound : forall k (g : R -> R), (forall v, nl_val k [v] = g v) ->
    forall x y, amap_res (fun e => mk_atom k [e]) x = Some y ->
    Some (amap g (gmap (value rho) x)) = Some (gmap (value rho) y).
  Proof.
    intros k g Hg x y E. unfold amap_res in E.
    destruct (all_some _) as [cs|] eqn:Ecs; [|discriminate E]. cbn [obind] in E. injection E as <-.
    f_equal. unfold amap, gmap. cbn [shape cells]. f_equal. rewrite map_map. symmetry.
    apply (all_some_sound _ _ _ _ _ Ecs). intros e r Hr.
    destruct (mk_atom k [e]) as [r'|] eqn:Er; simpl in Hr; [|discriminate Hr]. injection Hr as <-.
    rewrite (mk_atom_value k [e] r' Er rho). apply Hg.
  Qed.

  Lemma step_sound_rho : forall rs i r, step rs i = Some r ->
    nstep rho (map (reg_vals rho) rs) i = Some (reg_vals rho r).
  Proof.
    intros rs i r Hr.
    destruct (array_naturality sexpr R szero sadd sscale 0 Rplus rscale (value rho) (value_is_hom rho))
      as (N1 & N2 & N3 & N4 & N5 & N6 & N7 & N8 & N9 & N10 & N11 & N12 & N13 & N14 & N15 & N16 & N17
          & N18 & N19 & N20 & N21 & N22).
    destruct i; cbn [step nstep] in *.
    - (* IVar *)
      destruct (Nat.eqb _ _); [|discriminate Hr]. injection Hr as <-.
      unfold reg_vals. cbn [snd shape cells]. f_equal. f_equal.
      rewrite map_map. apply map_ext. intros i. symmetry. apply value_svar.
    - (* IConst *)
      destruct (Nat.eqb _ _); [|discriminate Hr]. injection Hr as <-.
      unfold reg_vals. cbn [snd shape cells]. f_equal. f_equal.
      rewrite map_map. apply map_ext. intros q. symmetry. apply value_sconst.
    - (* IAdd *)
      apply (bin_gen _ _ _ _ (fun x y => lift (aadd 0 Rplus x y)) _ Hr).
      intros x y z E. rewrite <- N1. now apply lift_rmap.
    - (* ISub *)
      apply (bin_gen _ _ _ _ (fun x y => lift (asub 0 Rplus rscale x y)) _ Hr).
      intros x y z E. rewrite <- N2. now apply lift_rmap.
    - (* IMulE *)
      apply (bin_gen _ _ _ _ (fun x y => nzip_res Rmult x y) _ Hr). apply azip_res_sound.
    - (* IMulQ *)
      apply (un_gen _ _ _ _ _ Hr). intros x y E. injection E as <-. f_equal. symmetry. apply N3.
    - (* IDivQ *)
      apply (un_gen _ _ _ _ _ Hr). intros x y E. rewrite <- N5. now apply lift_rmap.
    - (* IAddQ *)
      apply (un_gen _ _ _ _ _ Hr). intros x y E. injection E as <-. f_equal. symmetry.
      unfold e_aaddq. apply amap_nat. intros e. now rewrite value_sadd, value_sconst.
    - (* IRSubQ *)
      apply (un_gen _ _ _ _ _ Hr). intros x y E. injection E as <-. f_equal.
      unfold e_aaddq, amap, gmap. cbn [shape cells]. f_equal. rewrite !map_map. apply map_ext.
      intros e. rewrite value_sadd, value_sscale, value_sconst, EQ2R_m1. lra.
    - (* INeg *)
      apply (un_gen _ _ _ _ _ Hr). intros x y E. injection E as <-. f_equal. symmetry. apply N4.
    - (* IRMatmul *)
      apply (un_arr_gen _ _ _ _ _ Hr). intros x y E. rewrite <- N6. now apply lift_rmap.
    - (* IMatmul *)
      apply (un_arr_gen _ _ _ _ _ Hr). intros x y E. rewrite <- N7. now apply lift_rmap.
    - (* ISumAll *)
      apply (un_arr_gen _ _ _ _ _ Hr). intros x y E. injection E as <-. f_equal.
      unfold gmap at 2. cbn [shape cells map]. f_equal. f_equal. symmetry. apply N8.
    - (* ISumAxis *)
      apply (un_arr_gen _ _ _ _ _ Hr). intros x y E. rewrite <- N9. now apply lift_rmap.
    - (* IConcat *)
      destruct (all_some (map (getr rs) xs)) as [l|] eqn:El; [|discriminate Hr].
      rewrite (all_some_regs _ _ _ El). cbn [obind] in *.
      destruct (lift (aconcat1 (map snd l))) as [z|] eqn:Ez; [|discriminate Hr]. cbn [obind] in Hr.
      injection Hr as <-. rewrite rv_gmap. cbn [snd].
      replace (map (reg_vals rho) l) with (map (gmap (value rho)) (map snd l))
        by (rewrite map_map; reflexivity).
      rewrite <- N10. now apply lift_rmap.
    - (* IVstack *)
      destruct (all_some (map (getr rs) xs)) as [l|] eqn:El; [|discriminate Hr].
      rewrite (all_some_regs _ _ _ El). cbn [obind] in *.
      destruct (lift (avstack (map snd l))) as [z|] eqn:Ez; [|discriminate Hr]. cbn [obind] in Hr.
      injection Hr as <-. rewrite rv_gmap. cbn [snd].
      replace (map (reg_vals rho) l) with (map (gmap (value rho)) (map snd l))
        by (rewrite map_map; reflexivity).
      rewrite <- N11. now apply lift_rmap.
    - (* IIndex *)
      apply (un_scalar_gen _ _ _ (fun x => lift (aindex 0 x i)) _ Hr).
      intros x e E. rewrite <- N12. now apply lift_rmap1.
    - (* ISlice *)
      apply (un_arr_gen _ _ _ _ _ Hr). intros x y E. rewrite <- N13. now apply lift_rmap.
    - (* ITile *)
      apply (un_arr_gen _ _ _ _ _ Hr). intros x y E. rewrite <- N14. now apply lift_rmap.
    - (* IRepeat *)
      apply (un_arr_gen _ _ _ _ _ Hr). intros x y E. rewrite <- N15. now apply lift_rmap.
    - (* ITrace *)
      apply (un_scalar_gen _ _ _ (fun x => lift (atrace 0 Rplus x)) _ Hr).
      intros x e E. rewrite <- N16. now apply lift_rmap1.
    - (* IDiag *)
      apply (un_arr_gen _ _ _ _ _ Hr). intros x y E. rewrite <- N17. now apply lift_rmap.
    - (* ITranspose *)
      apply (un_arr_gen _ _ _ _ _ Hr). intros x y E. rewrite <- N18. now apply lift_rmap.
    - (* IDotQ *)
      apply (un_scalar_gen _ _ _ (fun x => lift (adotq 0 Rplus rscale coefs x)) _ Hr).
      intros x e E. rewrite <- N19. now apply lift_rmap1.
    - (* IOuterQ *)
      apply (un_arr_gen _ _ _ _ _ Hr). intros x y E. rewrite <- N20. now apply lift_rmap.
    - (* IKronQ *)
      apply (un_arr_gen _ _ _ _ _ Hr). intros x y E. rewrite <- N21. now apply lift_rmap.
    - (* ISetItem *)
      rewrite !nget_rv.
      destruct (getr rs a) as [ra|]; [|discriminate Hr]. cbn [obind option_map] in *.
      destruct (getr rs b) as [rb|]; [|discriminate Hr]. cbn [obind option_map] in *.
      destruct (cells (snd rb)) as [|v [|? ?]] eqn:Ec; try discriminate Hr.
      destruct (lift (asetitem (snd ra) i v)) as [z|] eqn:Ez; [|discriminate Hr]. cbn [obind] in Hr.
      injection Hr as <-. rewrite (rv_gmap rb). cbn [gmap cells]. rewrite Ec. cbn [map].
      rewrite !rv_gmap. cbn [snd]. rewrite <- N22. now apply lift_rmap.
    - (* IAbs *)
      apply (un_arr_gen _ _ _ (fun x => Some (amap Rabs x)) _ Hr).
      apply amap_res_sound. reflexivity.
    - (* IPos *)
      apply (un_arr_gen _ _ _ (fun x => Some (amap (fun v => Rmax v 0) x)) _ Hr).
      apply amap_res_sound. reflexivity.
    - (* IWse *)
      rewrite nget_rv.
      destruct (getr rs a) as [ra|]; [|discriminate Hr]. cbn [obind option_map] in *.
      destruct (negb _); [discriminate Hr|]. destruct (existsb _ c); [discriminate Hr|].
      destruct (all_some _) as [l|] eqn:El; [|discriminate Hr]. cbn [obind] in Hr.
      injection Hr as <-. unfold reg_vals. cbn [snd shape cells map]. f_equal. f_equal. f_equal.
      rewrite value_ssum, dot_combine.
      rewrite (all_some_sound _ _ (fun p => Q2R (fst p) * exp (value rho (snd p))) _ _ El).
      + rewrite combine_map_r, map_map. reflexivity.
      + intros p e Hp. destruct (Qeq_bool (fst p) 0) eqn:Eq.
        * injection Hp as <-. rewrite value_sconst, EQ2R_0, (Qeq_bool_0_Q2R _ Eq). lra.
        * destruct (mk_atom KExp [snd p]) as [at_|] eqn:Ea; simpl in Hp; [|discriminate Hp].
          injection Hp as <-. rewrite value_sscale, (mk_atom_value _ _ _ Ea rho). reflexivity.
    - (* IRelent *)
      rewrite !nget_rv.
      destruct (getr rs a) as [ra|]; [|discriminate Hr]. cbn [obind option_map] in *.
      destruct (getr rs b) as [rb|]; [|discriminate Hr]. cbn [obind option_map] in *.
      destruct (negb _); [discriminate Hr|].
      destruct (all_some _) as [l|] eqn:El; [|discriminate Hr]. cbn [obind] in Hr.
      injection Hr as <-. unfold reg_vals. cbn [snd shape cells map]. f_equal. f_equal. f_equal.
      rewrite value_ssum, combine_map2, map_map.
      rewrite (all_some_sound _ _
                 (fun p => rel_entr (value rho (fst p)) (value rho (snd p))) _ _ El); [reflexivity|].
      intros p e Hp.
      destruct (mk_atom KRelEnt [fst p; snd p]) as [at_|] eqn:Ea; simpl in Hp; [|discriminate Hp].
      injection Hp as <-. rewrite (mk_atom_value _ _ _ Ea rho). reflexivity.
    - (* INorm *)
      rewrite nget_rv.
      destruct (getr rs a) as [ra|]; [|discriminate Hr]. cbn [obind option_map] in *.
      destruct (mk_atom KNorm2 (cells (snd ra))) as [e|] eqn:Ee; simpl in Hr; [|discriminate Hr].
      injection Hr as <-. unfold reg_vals. cbn [snd shape cells map]. f_equal. f_equal. f_equal.
      rewrite (mk_atom_value _ _ _ Ee rho). reflexivity.
  Qed.
End Step.

Lemma step_sound : step_sound_stmt.
Proof. intros rho rs i r H. now apply step_sound_rho. Qed.

Lemma run_sound : forall rho p rs, nrun rho (map (reg_vals rho) rs) p (run rs p).
Proof.
  intros rho. induction p as [|i p IH]; intros rs; simpl; auto.
  destruct (step rs i) as [r|] eqn:E.
  - split; [now apply step_sound|].
    replace (map (reg_vals rho) rs ++ [reg_vals rho r]) with (map (reg_vals rho) (rs ++ [r]))
      by (now rewrite map_app). apply IH.
  - replace (map (reg_vals rho) rs ++ [reg_vals rho placeholder])
      with (map (reg_vals rho) (rs ++ [placeholder])) by (now rewrite map_app). apply IH.
Qed.

Lemma program_sound : program_sound_stmt.
Proof. intros rho p. apply (run_sound rho p []). Qed.
