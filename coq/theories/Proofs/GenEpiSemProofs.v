(* Proofs/GenEpiSemProofs.v *)
From Coq Require Import List Reals ZArith QArith.
From SageVerif Require Import Model.Expr Model.SolverForms Model.Compile Model.TripletIdioms Gen.GenEpi Math.RVec Proofs.ExprSpec Proofs.FormsSpec Proofs.CompileSpec Proofs.CompileProofs
  Proofs.GenEpiSpec Proofs.GenEpiProofs Proofs.GenEpiSemSpec.
Import ListNotations.

Lemma gen_epi_abs_iff : gen_epi_abs_iff_stmt.
Proof. intros rho dummy t x. rewrite gen_epi_abs_equiv. apply CompileBlocks.epi_abs_iff. Qed.
Lemma gen_epi_pos_iff : gen_epi_pos_iff_stmt.
Proof. intros rho dummy t x. rewrite gen_epi_pos_equiv. apply CompileBlocks.epi_pos_iff. Qed.
Lemma gen_epi_exp_iff : gen_epi_exp_iff_stmt.
Proof. intros rho dummy t x. rewrite gen_epi_exp_equiv. apply CompileBlocks.epi_exp_iff. Qed.
Lemma gen_epi_norm_iff : gen_epi_norm_iff_stmt.
Proof. intros rho dummy t args. rewrite gen_epi_norm2_equiv. apply CompileBlocks.epi_norm_iff. Qed.
Lemma gen_epi_relent_iff : gen_epi_relent_iff_stmt.
Proof. intros rho dummy t x y. rewrite gen_epi_relent_equiv. apply CompileBlocks.epi_relent_iff. Qed.
