(* Proofs/GenFormsProofs.v *)
From Coq Require Import List Bool Arith Lia.
From SageVerif Require Import Model.SolverForms Gen.GenForms Proofs.GenFormsSpec.
Import ListNotations.

Lemma set_range_zero n rest : set_range 0 n (repeat false n ++ rest) = repeat true n ++ rest.
Proof.
  induction n as [|n IH]; cbn [repeat app].
  - destruct rest; reflexivity.
  - cbn [set_range]. rewrite IH. reflexivity.
Qed.

Lemma set_range_pre (pre : list bool) n rest :
  set_range (length pre) (length pre + n) (pre ++ repeat false n ++ rest) = pre ++ repeat true n ++ rest.
Proof.
  induction pre as [|x pre IH]; cbn [length app Nat.add].
  - apply set_range_zero.
  - cbn [set_range]. rewrite IH. reflexivity.
Qed.

Lemma repeat_add {X} (x : X) a b : repeat x (a + b) = repeat x a ++ repeat x b.
Proof. induction a; cbn [repeat Nat.add app]; [reflexivity|]. rewrite IHa. reflexivity. Qed.

Lemma selector_fold t : forall K2 (pre : list bool),
  snd (fold_left (fun st co => let '(running_idx, type_selector_t) := st in
                   let type_selector_t := if ctag_eqb t (fst co) then set_range running_idx (running_idx + snd co) type_selector_t
                                          else type_selector_t in
                   let running_idx := running_idx + snd co in
                   (running_idx, type_selector_t)) K2
                 (length pre, pre ++ repeat false (fold_right (fun co acc => snd co + acc) 0 K2))) = pre ++ selector K2 t.
Proof.
  induction K2 as [|[t' n] K2 IH]; intro pre; cbn [fold_left fold_right selector fst snd].
  - reflexivity.
  - rewrite repeat_add.
    assert (E : (if ctag_eqb t t' then set_range (length pre) (length pre + n)
                                         (pre ++ repeat false n ++ repeat false (fold_right (fun co acc => snd co + acc) 0 K2))
                 else pre ++ repeat false n ++ repeat false (fold_right (fun co acc => snd co + acc) 0 K2)) =
                (pre ++ repeat (ctag_eqb t t') n) ++ repeat false (fold_right (fun co acc => snd co + acc) 0 K2)).
    { destruct (ctag_eqb t t'); [rewrite set_range_pre|]; rewrite <- app_assoc; reflexivity. }
    rewrite E.
    replace (length pre + n) with (length (pre ++ repeat (ctag_eqb t t') n)) by (rewrite app_length, repeat_length; reflexivity).
    rewrite IH. rewrite <- app_assoc. reflexivity.
Qed.

Lemma gen_selector_equiv : gen_selector_equiv_stmt.
Proof. intros K t. unfold gen_selector. exact (selector_fold t K []). Qed.

Lemma gen_allowed_eq t : gen_ecos_allowed t = ecos_allowed t.
Proof. destruct t; reflexivity. Qed.

Lemma forallb_ext' {X} (f g : X -> bool) l : (forall x, f x = g x) -> forallb f l = forallb g l.
Proof. intro H. induction l as [|x l IH]; [reflexivity|]. cbn [forallb]. rewrite H, IH. reflexivity. Qed.

Lemma gen_ecos_apply_equiv : gen_ecos_apply_equiv_stmt.
Proof.
  intros T topp c A b K. unfold gen_ecos_apply, ecos_apply.
  erewrite forallb_ext'; [|intro co; apply gen_allowed_eq].
  rewrite !gen_selector_equiv. reflexivity.
Qed.

From Coq Require Import Reals.
From SageVerif Require Import Math.RVec Proofs.MathSpec Proofs.FormsSpec Proofs.FormsEcos.

Lemma gen_ecos_feasible_iff : gen_ecos_feasible_iff_stmt.
Proof.
  intros n c A b K d x HK HA Hx HlA Hlb H. rewrite gen_ecos_apply_equiv in H.
  exact (ecos_feasible_iff n c A b K d x HK HA Hx HlA Hlb H).
Qed.
