(* Proofs/ExprArrays.v — the generic array operators of Model/Expr.v commute with every
   homomorphism of the element type (array_naturality); at R they are the numpy operations
   (lincomb_R, broadcast_add_R). *)
From Coq Require Import Reals List Bool Arith ZArith QArith Qreals Lra Lia.
From SageVerif Require Import Math.RVec Model.Expr Model.ExprProg Proofs.ExprSpec.
Import ListNotations.

(* ------------------------------------------------------------------ *)
(* list helpers *)
Lemma combine_map2 : forall A B C D (f : A -> C) (g : B -> D) l1 l2,
  combine (map f l1) (map g l2) = map (fun p => (f (fst p), g (snd p))) (combine l1 l2).
Proof.
  intros A B C D f g. induction l1 as [|x l1 IH]; intros [|y l2]; simpl; auto. now rewrite IH.
Qed.

Lemma combine_map_r : forall A B D (g : B -> D) (l1 : list A) l2,
  combine l1 (map g l2) = map (fun p => (fst p, g (snd p))) (combine l1 l2).
Proof.
  intros A B D g. induction l1 as [|x l1 IH]; intros [|y l2]; simpl; auto. now rewrite IH.
Qed.

Lemma combine_map_same : forall A B C (f : A -> B) (g : A -> C) l,
  combine (map f l) (map g l) = map (fun i => (f i, g i)) l.
Proof. intros A B C f g. induction l as [|x l IH]; simpl; auto. now rewrite IH. Qed.

Lemma map_flat_map : forall A B C (f : A -> list B) (g : B -> C) l,
  map g (flat_map f l) = flat_map (fun x => map g (f x)) l.
Proof. intros A B C f g. induction l as [|x l IH]; simpl; auto. now rewrite map_app, IH. Qed.

Lemma flat_map_map : forall A B C (f : B -> list C) (g : A -> B) l,
  flat_map f (map g l) = flat_map (fun x => f (g x)) l.
Proof. intros A B C f g. induction l as [|x l IH]; simpl; auto. now rewrite IH. Qed.

Lemma map_repeat' : forall A B (f : A -> B) x n, map f (repeat x n) = repeat (f x) n.
Proof. intros A B f x. induction n as [|n IH]; simpl; auto. now rewrite IH. Qed.

Lemma forallb_map' : forall A B (f : B -> bool) (g : A -> B) l, forallb f (map g l) = forallb (fun x => f (g x)) l.
Proof. intros A B f g. induction l as [|x l IH]; simpl; auto. now rewrite IH. Qed.

Lemma chunks_map : forall A B (f : A -> B) n k l, chunks n k (map f l) = map (map f) (chunks n k l).
Proof.
  intros A B f n. induction k as [|k IH]; intros l; simpl; auto.
  now rewrite firstn_map, skipn_map, IH.
Qed.

(* ------------------------------------------------------------------ *)
Section Nat.
  Context {X Y : Type}.
  Context (xzero : X) (xadd : X -> X -> X) (xscale : Q -> X -> X).
  Context (yzero : Y) (yadd : Y -> Y -> Y) (yscale : Q -> Y -> Y).
  Context (phi : X -> Y).
  Hypothesis H : hom xzero xadd xscale yzero yadd yscale phi.

  Let H0 : phi xzero = yzero := proj1 H.
  Let Ha : forall a b, phi (xadd a b) = yadd (phi a) (phi b) := proj1 (proj2 H).
  Let Hs : forall q a, phi (xscale q a) = yscale q (phi a) := proj2 (proj2 H).

  Lemma nth_phi : forall i l, phi (nth i l xzero) = nth i (map phi l) yzero.
  Proof. intros i l. rewrite <- H0. symmetry. apply map_nth. Qed.

  Lemma broadcast_cells_map : forall so si cs,
    map phi (broadcast_cells xzero so si cs) = broadcast_cells yzero so si (map phi cs).
  Proof.
    intros. unfold broadcast_cells. rewrite map_map. apply map_ext. intros i. apply nth_phi.
  Qed.

  Lemma azip_nat : forall (f : X -> X -> X) (g : Y -> Y -> Y),
    (forall a b, phi (f a b) = g (phi a) (phi b)) ->
    forall a b, rmap phi (azip xzero f a b) = azip yzero g (gmap phi a) (gmap phi b).
  Proof.
    intros f g Hfg a b. unfold azip, gmap. cbn [shape cells].
    destruct (bshape _ _) as [sh|]; cbn [rmap]; auto.
    unfold gmap. cbn [shape cells]. f_equal. f_equal.
    rewrite <- !broadcast_cells_map, combine_map2, !map_map. apply map_ext.
    intros p. cbn [fst snd]. apply Hfg.
  Qed.

  Lemma amap_nat : forall (f : X -> X) (g : Y -> Y), (forall a, phi (f a) = g (phi a)) ->
    forall a, gmap phi (amap f a) = amap g (gmap phi a).
  Proof.
    intros f g Hfg a. unfold amap, gmap. cbn [shape cells]. f_equal.
    rewrite !map_map. apply map_ext. intros x. apply Hfg.
  Qed.

  Lemma fold_xadd_nat : forall l acc,
    phi (fold_left xadd l acc) = fold_left yadd (map phi l) (phi acc).
  Proof. induction l as [|x l IH]; intros acc; simpl; auto. now rewrite IH, Ha. Qed.

  Lemma xsum_nat : forall l, phi (xsum xzero xadd l) = xsum yzero yadd (map phi l).
  Proof. intros l. unfold xsum. now rewrite fold_xadd_nat, H0. Qed.

  Lemma lincomb_nat : forall cs es,
    phi (lincomb xzero xadd xscale cs es) = lincomb yzero yadd yscale cs (map phi es).
  Proof.
    intros cs es. unfold lincomb. rewrite xsum_nat. f_equal.
    rewrite combine_map_r, !map_map. apply map_ext. intros p. cbn [fst snd]. apply Hs.
  Qed.

  Lemma column_phi : forall j rows,
    map phi (column j rows xzero) = column j (map (map phi) rows) yzero.
  Proof.
    intros j rows. unfold column. rewrite !map_map. apply map_ext. intros r. apply nth_phi.
  Qed.

  Lemma nth2_phi : forall i j rows,
    phi (nth i (nth j rows []) xzero) = nth i (nth j (map (map phi) rows) []) yzero.
  Proof.
    intros i j rows. rewrite nth_phi. f_equal.
    change (@nil Y) with (map phi []). now rewrite map_nth.
  Qed.

  Lemma nat_rmatmul : forall M mv a,
    rmap phi (rmatmul xzero xadd xscale M mv a) = rmatmul yzero yadd yscale M mv (gmap phi a).
  Proof.
    intros M mv a. unfold rmatmul, gmap. cbn [shape cells].
    destruct (shape a) as [|k [|c [|? ?]]]; cbn [rmap]; auto.
    - destruct (forallb _ M); cbn [rmap]; auto. unfold gmap. cbn [shape cells]. f_equal. f_equal.
      rewrite map_map. apply map_ext. intros r. apply lincomb_nat.
    - destruct (forallb _ M); cbn [rmap]; auto. unfold gmap. cbn [shape cells]. f_equal. f_equal.
      rewrite map_flat_map. apply flat_map_ext. intros r. rewrite map_map. apply map_ext. intros j.
      now rewrite lincomb_nat, column_phi, chunks_map.
  Qed.

  Lemma nat_matmul : forall a N nv,
    rmap phi (matmul xzero xadd xscale a N nv) = matmul yzero yadd yscale (gmap phi a) N nv.
  Proof.
    intros a N nv. unfold matmul, gmap. cbn [shape cells].
    destruct (shape a) as [|k [|c [|? ?]]]; cbn [rmap]; auto.
    - destruct (Nat.eqb _ _); cbn [rmap]; auto. unfold gmap. cbn [shape cells]. f_equal. f_equal.
      rewrite map_map. apply map_ext. intros j. apply lincomb_nat.
    - destruct (Nat.eqb _ _); cbn [rmap]; auto. unfold gmap. cbn [shape cells]. f_equal. f_equal.
      rewrite chunks_map, flat_map_map, map_flat_map. apply flat_map_ext. intros r.
      rewrite map_map. apply map_ext. intros j. apply lincomb_nat.
  Qed.

  Lemma nat_asum_axis : forall ax a,
    rmap phi (asum_axis xzero xadd ax a) = asum_axis yzero yadd ax (gmap phi a).
  Proof.
    intros ax a. unfold asum_axis, gmap. cbn [shape cells].
    destruct (shape a) as [|k [|c [|? ?]]]; cbn [rmap]; auto.
    - destruct ax; cbn [rmap]; auto. unfold gmap. cbn [shape cells map]. now rewrite xsum_nat.
    - destruct ax as [|[|ax]]; cbn [rmap]; auto; unfold gmap; cbn [shape cells]; f_equal; f_equal.
      + rewrite map_map. apply map_ext. intros j. now rewrite xsum_nat, column_phi, chunks_map.
      + rewrite chunks_map, !map_map. apply map_ext. intros r. apply xsum_nat.
  Qed.

  Lemma cells_gmap : forall xs : list (garr X),
    flat_map cells (map (gmap phi) xs) = map phi (flat_map cells xs).
  Proof.
    intros xs. rewrite flat_map_map, map_flat_map. apply flat_map_ext. reflexivity.
  Qed.

  Lemma nat_aconcat1 : forall xs : list (garr X),
    rmap phi (aconcat1 xs) = aconcat1 (map (gmap phi) xs).
  Proof.
    intros xs. unfold aconcat1. rewrite forallb_map'. cbn [gmap shape].
    destruct (forallb _ xs); cbn [rmap]; auto.
    unfold gmap at 1. cbn [shape cells]. now rewrite cells_gmap, map_length.
  Qed.

  Lemma nat_avstack : forall xs : list (garr X),
    rmap phi (avstack xs) = avstack (map (gmap phi) xs).
  Proof.
    intros xs. unfold avstack. destruct xs as [|a0 xs']; auto.
    change (map (gmap phi) (a0 :: xs')) with (gmap phi a0 :: map (gmap phi) xs').
    cbn [gmap shape]. destruct (shape a0) as [|n [|? ?]]; auto.
    change (gmap phi a0 :: map (gmap phi) xs') with (map (gmap phi) (a0 :: xs')).
    rewrite forallb_map'. cbn [gmap shape].
    destruct (forallb _ (a0 :: xs')); cbn [rmap]; auto.
    unfold gmap at 1. cbn [shape cells]. now rewrite cells_gmap, map_length.
  Qed.

  Lemma nat_aindex : forall a i, rmap1 phi (aindex xzero a i) = aindex yzero (gmap phi a) i.
  Proof.
    intros a i. unfold aindex, gmap. cbn [shape cells].
    destruct (shape a) as [|n [|? ?]]; cbn [rmap1]; auto.
    destruct (Nat.ltb i n); cbn [rmap1]; auto. now rewrite nth_phi.
  Qed.

  Lemma nat_aslice : forall (a : garr X) lo hi, rmap phi (aslice a lo hi) = aslice (gmap phi a) lo hi.
  Proof.
    intros a lo hi. unfold aslice, gmap. cbn [shape cells].
    destruct (shape a) as [|n [|? ?]]; cbn [rmap]; auto.
    unfold gmap. cbn [shape cells]. now rewrite skipn_map, firstn_map.
  Qed.

  Lemma nat_atile : forall (a : garr X) k, rmap phi (atile a k) = atile (gmap phi a) k.
  Proof.
    intros a k. unfold atile, gmap. cbn [shape cells].
    destruct (shape a) as [|n [|? ?]]; cbn [rmap]; auto.
    unfold gmap. cbn [shape cells]. now rewrite concat_map, map_repeat'.
  Qed.

  Lemma nat_arepeat : forall (a : garr X) k, rmap phi (arepeat a k) = arepeat (gmap phi a) k.
  Proof.
    intros a k. unfold arepeat, gmap. cbn [shape cells].
    destruct (shape a) as [|n [|? ?]]; cbn [rmap]; auto.
    unfold gmap. cbn [shape cells]. f_equal. f_equal.
    rewrite flat_map_map, map_flat_map. apply flat_map_ext. intros x. apply map_repeat'.
  Qed.

  Lemma nat_atrace : forall a, rmap1 phi (atrace xzero xadd a) = atrace yzero yadd (gmap phi a).
  Proof.
    intros a. unfold atrace, gmap. cbn [shape cells].
    destruct (shape a) as [|r [|c [|? ?]]]; cbn [rmap1]; auto.
    f_equal. rewrite xsum_nat, map_map, chunks_map. f_equal. apply map_ext. intros i. apply nth2_phi.
  Qed.

  Lemma nat_adiag : forall a, rmap phi (adiag xzero a) = adiag yzero (gmap phi a).
  Proof.
    intros a. unfold adiag, gmap. cbn [shape cells].
    destruct (shape a) as [|r [|c [|? ?]]]; cbn [rmap]; auto; unfold gmap; cbn [shape cells]; f_equal; f_equal.
    - rewrite map_flat_map. apply flat_map_ext. intros i. rewrite map_map. apply map_ext. intros j.
      destruct (Nat.eqb i j); auto. apply nth_phi.
    - rewrite map_map, chunks_map. apply map_ext. intros i. apply nth2_phi.
  Qed.

  Lemma nat_atranspose : forall a, rmap phi (atranspose xzero a) = atranspose yzero (gmap phi a).
  Proof.
    intros a. unfold atranspose. cbn [gmap shape cells].
    destruct a as [sh cs]. cbn [shape cells].
    destruct sh as [|r [|c [|? ?]]]; cbn [rmap]; auto.
    unfold gmap. cbn [shape cells]. f_equal. f_equal.
    rewrite map_flat_map, chunks_map. apply flat_map_ext. intros j. apply column_phi.
  Qed.

  Lemma nat_adotq : forall cs a,
    rmap1 phi (adotq xzero xadd xscale cs a) = adotq yzero yadd yscale cs (gmap phi a).
  Proof.
    intros cs a. unfold adotq, gmap. cbn [shape cells].
    destruct (shape a) as [|n [|? ?]]; cbn [rmap1]; auto.
    destruct (Nat.eqb _ _); cbn [rmap1]; auto. now rewrite lincomb_nat.
  Qed.

  Lemma scaled_rows_phi : forall cs (l : list X),
    map phi (flat_map (fun q => map (xscale q) l) cs) = flat_map (fun q => map (yscale q) (map phi l)) cs.
  Proof.
    intros cs l. rewrite map_flat_map. apply flat_map_ext. intros q.
    rewrite !map_map. apply map_ext. intros x. apply Hs.
  Qed.

  Lemma nat_aouterq : forall cs a, rmap phi (aouterq xscale cs a) = aouterq yscale cs (gmap phi a).
  Proof.
    intros cs a. unfold aouterq, gmap. cbn [shape cells].
    destruct (shape a) as [|n [|? ?]]; cbn [rmap]; auto.
    unfold gmap. cbn [shape cells]. now rewrite scaled_rows_phi.
  Qed.

  Lemma nat_akronq : forall cs a, rmap phi (akronq xscale cs a) = akronq yscale cs (gmap phi a).
  Proof.
    intros cs a. unfold akronq, gmap. cbn [shape cells].
    destruct (shape a) as [|n [|? ?]]; cbn [rmap]; auto.
    unfold gmap. cbn [shape cells]. now rewrite scaled_rows_phi.
  Qed.

  Lemma nat_asetitem : forall (a : garr X) i v, rmap phi (asetitem a i v) = asetitem (gmap phi a) i (phi v).
  Proof.
    intros a i v. unfold asetitem, gmap. cbn [shape cells].
    destruct (shape a) as [|n [|? ?]]; cbn [rmap]; auto.
    destruct (Nat.ltb i n); cbn [rmap]; auto.
    unfold gmap. cbn [shape cells]. now rewrite map_app, firstn_map, skipn_map.
  Qed.

  Lemma nat_adivq : forall a q, rmap phi (adivq xscale a q) = adivq yscale (gmap phi a) q.
  Proof.
    intros a q. unfold adivq. destruct (Qeq_bool q 0); cbn [rmap]; auto.
    f_equal. apply amap_nat. intros x. apply Hs.
  Qed.

  Lemma naturality_all : naturality_stmt xzero xadd xscale yzero yadd yscale phi.
  Proof.
    intros _. repeat match goal with |- _ /\ _ => split end.
    - unfold aadd. apply azip_nat. exact Ha.
    - unfold asub. apply azip_nat. intros a b. now rewrite Ha, Hs.
    - intros q a. unfold ascale. apply amap_nat. intros x. apply Hs.
    - intros a. unfold aneg. apply amap_nat. intros x. apply Hs.
    - exact nat_adivq.
    - exact nat_rmatmul.
    - exact nat_matmul.
    - intros a. unfold asum_all. apply xsum_nat.
    - exact nat_asum_axis.
    - exact nat_aconcat1.
    - exact nat_avstack.
    - exact nat_aindex.
    - exact nat_aslice.
    - exact nat_atile.
    - exact nat_arepeat.
    - exact nat_atrace.
    - exact nat_adiag.
    - exact nat_atranspose.
    - exact nat_adotq.
    - exact nat_aouterq.
    - exact nat_akronq.
    - exact nat_asetitem.
  Qed.
End Nat.

Lemma array_naturality : array_naturality_stmt.
Proof.
  intros X Y xzero xadd xscale yzero yadd yscale phi H.
  exact (naturality_all xzero xadd xscale yzero yadd yscale phi H H).
Qed.

(* ------------------------------------------------------------------ *)
(* the operators at R *)
Open Scope R_scope.

Lemma fold_Rplus_rsum : forall l acc, fold_left Rplus l acc = acc + rsum l.
Proof.
  induction l as [|x l IH]; intros acc; simpl; [lra|]. rewrite IH. unfold rsum. lra.
Qed.

Lemma xsum_R : forall l, xsum 0 Rplus l = rsum l.
Proof. intros l. unfold xsum. rewrite fold_Rplus_rsum. lra. Qed.

Lemma lincomb_R : lincomb_R_stmt.
Proof.
  intros cs vs. unfold lincomb. rewrite xsum_R. revert vs.
  induction cs as [|c cs IH]; intros [|v vs]; simpl; auto.
  unfold rsum in *. rewrite IH. reflexivity.
Qed.

Lemma nth_map_seq : forall A (F : nat -> A) n i d, (i < n)%nat -> nth i (map F (seq 0 n)) d = F i.
Proof.
  intros A F n i d Hi. rewrite (nth_indep _ d (F 0%nat)) by (now rewrite map_length, seq_length).
  rewrite map_nth, seq_nth; auto.
Qed.

Lemma broadcast_add_R : broadcast_add_R_stmt.
Proof.
  intros a b r Hr k. unfold aadd, azip in Hr. fold k in Hr.
  destruct (bshape (pad_shape k (shape a)) (pad_shape k (shape b))) as [sh|] eqn:E; [|discriminate Hr].
  injection Hr as <-. cbn [shape cells]. unfold broadcast_cells.
  rewrite combine_map_same, map_map. split; [reflexivity|]. split.
  - now rewrite map_length, seq_length.
  - intros i Hi. rewrite nth_map_seq; auto.
Qed.
