(* Proofs/SigOps.v — without_zeros, sum, product and the derived operations. *)
From Coq Require Import Reals List Bool Arith ZArith QArith Qreals Lra Lia Qabs.
From SageVerif Require Import Math.RVec Model.Signomial Model.SigExpr Proofs.SigSpec
  Proofs.SigLemmas Proofs.SigRound Proofs.SigMk.
Import ListNotations.
Local Open Scope R_scope.

Definition nz (t : qrow * Q) : bool := negb (qiszero (snd t)).

(* ------------------------------------------------------------------ *)
(* filters *)
Lemma filter_length_le' : forall {A} (p : A -> bool) l, (length (filter p l) <= length l)%nat.
Proof. induction l; simpl; auto. destruct (p a); simpl; lia. Qed.

Lemma filter_length_all : forall {A} (p : A -> bool) l,
  length (filter p l) = length l -> Forall (fun a => p a = true) l.
Proof.
  induction l; simpl; intros H; [constructor|].
  pose proof (filter_length_le' p l). destruct (p a) eqn:E; simpl in H; [|lia].
  constructor; auto.
Qed.

Lemma eval_filter_nz : forall f x, sig_evalR (filter nz f) x = sig_evalR f x.
Proof.
  induction f as [|t f IH]; intros x; auto. simpl filter. unfold nz at 1.
  destruct (qiszero (snd t)) eqn:E; simpl negb; rewrite !sig_evalR_cons, ?IH; auto.
  rewrite (qiszero_true _ E). lra.
Qed.

Lemma wfsig_filter : forall n p f, wfsig n f -> wfsig n (filter p f).
Proof.
  intros n p f H. unfold wfsig in *. rewrite Forall_forall in *. intros t Ht.
  apply filter_In in Ht. apply H. tauto.
Qed.

Lemma mem_row_filter : forall r p (f : qsig),
  mem_row r (map fst f) = false -> mem_row r (map fst (filter p f)) = false.
Proof.
  induction f; simpl; auto. intros H. apply orb_false_iff in H. destruct H.
  destruct (p a); simpl; auto. rewrite H, IHf; auto.
Qed.

Lemma rows_distinct_filter : forall p f, rows_distinct f -> rows_distinct (filter p f).
Proof.
  induction f; simpl; auto. intros H. apply rows_distinct_cons in H. destruct H as [Hm Hd].
  destruct (p a); auto. apply rows_distinct_cons. split; auto. now apply mem_row_filter.
Qed.

Lemma no_zero_filter : forall f, no_zero_coeff (filter nz f).
Proof.
  intros f. unfold no_zero_coeff. apply Forall_forall. intros t Ht. apply filter_In in Ht.
  destruct Ht as [_ Ht]. unfold nz in Ht. now apply negb_true_iff in Ht.
Qed.

Lemma no_zero_rnd : forall f, no_zero_coeff f -> no_zero_coeff (rnd f).
Proof.
  intros f H. unfold no_zero_coeff, rnd in *. rewrite Forall_forall in *. intros t Ht.
  apply in_map_iff in Ht. destruct Ht as [t' [<- Ht']]. simpl. auto.
Qed.

(* ------------------------------------------------------------------ *)
(* without_zeros *)
Lemma wz_cases : forall n f,
  (q_without_zeros n f = f /\ ((exists t, f = [t]) \/ no_zero_coeff f)) \/
  (filter nz f = [] /\ q_without_zeros n f = qconst n (qid 0)) \/
  (filter nz f <> [] /\ q_without_zeros n f = q_mk (filter nz f)).
Proof.
  intros n f. destruct f as [|t [|t' f']].
  - left. split; auto. right. constructor.
  - left. split; auto. left. eauto.
  - unfold q_without_zeros, without_zeros.
    change (filter (fun t0 : qrow * Q => negb (qiszero (snd t0))) (t :: t' :: f'))
      with (filter nz (t :: t' :: f')).
    destruct (Nat.eqb _ _) eqn:E.
    + left. split; auto. right. apply Nat.eqb_eq in E. apply filter_length_all in E.
      unfold no_zero_coeff. rewrite Forall_forall in *. intros u Hu.
      specialize (E u Hu). unfold nz in E. now apply negb_true_iff in E.
    + right. destruct (filter nz (t :: t' :: f')) eqn:K.
      * left. split; auto.
      * right. split; [discriminate|reflexivity].
Qed.

Lemma without_zeros_eval : forall n f x, wfsig n f -> sig_evalR (q_without_zeros n f) x = sig_evalR f x.
Proof.
  intros n f x H. destruct (wz_cases n f) as [[-> _]|[[K ->]|[K ->]]]; auto.
  - rewrite qconst_eval, <- (eval_filter_nz f), K. unfold qid. rewrite Q2R_Qred, Q2R_0'. reflexivity.
  - rewrite (mk_eval_grid n) by (now apply wfsig_filter). apply eval_filter_nz.
Qed.

Lemma without_zeros_spec : without_zeros_spec_stmt.
Proof. intros n f x H _. now apply without_zeros_eval. Qed.

Definition good (n : nat) (f : qsig) : Prop := wfsig n f /\ rows_distinct f /\ f <> [].

Lemma without_zeros_ok : forall n f, wfsig n f -> rows_distinct f ->
  result_ok n (q_without_zeros n f) /\ (f <> [] -> q_without_zeros n f <> []).
Proof.
  intros n f Hw Hd. destruct (wz_cases n f) as [[-> Hc]|[[K ->]|[K ->]]].
  - split; auto. split; [|split]; auto.
    destruct Hc as [[[r c] ->]|Hc]; auto.
    destruct (qiszero c) eqn:E.
    + right. eauto.
    + left. constructor; auto.
  - split; [|intros _; apply qconst_nonempty]. split; [|split].
    + apply qconst_wf.
    + apply qconst_distinct.
    + right. rewrite qconst_eq. eauto.
  - assert (Hw' : wfsig n (filter nz f)) by (now apply wfsig_filter).
    assert (Hd' : rows_distinct (filter nz f)) by (now apply rows_distinct_filter).
    split.
    + split; [|split].
      * apply mk_wf. now apply wfsig_lengths.
      * apply mk_distinct.
      * left. rewrite (mk_id_grid n); auto. apply no_zero_rnd, no_zero_filter.
    + intros _. now apply mk_nonempty.
Qed.

Lemma result_ok_good : forall n f, result_ok n f -> f <> [] -> good n f.
Proof. intros n f [? [? _]] ?. repeat split; auto. Qed.

(* ------------------------------------------------------------------ *)
(* sum of two *)
Definition sum_rows (f g : qsig) : list qrow := first_seen (concat [map fst f; map fst g]).
Definition sum_raw (f g : qsig) : qsig :=
  map (fun r => (r, qcsum [qcsum (coeffs_at r f); qcsum (coeffs_at r g)])) (sum_rows f g).

Lemma q_sum2_unfold : forall f g, q_sum [f; g] = q_mk (sum_raw f g).
Proof. reflexivity. Qed.

Lemma q_add_unfold : forall n f g, q_add n f g = q_without_zeros n (q_sum [f; g]).
Proof. reflexivity. Qed.

Lemma sum_rows_mem : forall f g r,
  mem_row r (sum_rows f g) = mem_row r (map fst f) || mem_row r (map fst g).
Proof.
  intros. unfold sum_rows. rewrite first_seen_mem. simpl. rewrite app_nil_r. apply mem_row_app.
Qed.

Lemma sum_rows_In : forall f g r, In r (sum_rows f g) -> In r (map fst f) \/ In r (map fst g).
Proof.
  intros f g r H. unfold sum_rows in H. apply first_seen_In in H. simpl in H.
  rewrite app_nil_r in H. now apply in_app_or in H.
Qed.

Lemma sum_raw_wf : forall n f g, wfsig n f -> wfsig n g -> wfsig n (sum_raw f g).
Proof.
  intros n f g Hf Hg. unfold wfsig, sum_raw in *. rewrite Forall_forall in *.
  intros t Ht. apply in_map_iff in Ht. destruct Ht as [r [<- Hr]]. simpl.
  apply sum_rows_In in Hr. destruct Hr as [Hr|Hr]; apply in_map_iff in Hr;
    destruct Hr as [t' [<- Ht']]; auto.
Qed.

Lemma sum_raw_eval : forall f g x, sig_evalR (sum_raw f g) x = sig_evalR f x + sig_evalR g x.
Proof.
  intros. unfold sum_raw.
  rewrite (eval_map_rows (fun r => qcsum [qcsum (coeffs_at r f); qcsum (coeffs_at r g)])).
  rewrite (bagsum_ext _ (fun r => coefR f r + coefR g r)).
  2:{ intros r _. rewrite !qcsum_cons, qcsum_nil. unfold coefR. lra. }
  rewrite bagsum_plus.
  rewrite <- !bag_eval; auto; try apply first_seen_NoDupR.
  - intros t Ht. fold (sum_rows f g). rewrite sum_rows_mem.
    rewrite (mem_row_In (fst t) (map fst g)), orb_true_r; auto. now apply in_map.
  - intros t Ht. fold (sum_rows f g). rewrite sum_rows_mem.
    rewrite (mem_row_In (fst t) (map fst f)); auto. now apply in_map.
Qed.

Lemma sum_raw_nonempty : forall f g, f <> [] -> sum_raw f g <> [].
Proof.
  intros f g H E. unfold sum_raw in E. apply map_eq_nil in E. revert E.
  apply first_seen_nonempty. destruct f; [congruence|discriminate].
Qed.

Lemma sum2_eval : forall n f g x, wfsig n f -> wfsig n g ->
  sig_evalR (q_sum [f; g]) x = sig_evalR f x + sig_evalR g x.
Proof.
  intros. rewrite q_sum2_unfold, (mk_eval_grid n); [apply sum_raw_eval|now apply sum_raw_wf].
Qed.

Lemma sum2_good : forall n f g, wfsig n f -> wfsig n g -> f <> [] -> good n (q_sum [f; g]).
Proof.
  intros n f g Hf Hg Hne. rewrite q_sum2_unfold. split; [|split].
  - apply mk_wf, wfsig_lengths. now apply sum_raw_wf.
  - apply mk_distinct.
  - apply mk_nonempty. now apply sum_raw_nonempty.
Qed.

Lemma sum2_wf : forall n f g, wfsig n f -> wfsig n g -> wfsig n (q_sum [f; g]).
Proof. intros. rewrite q_sum2_unfold. apply mk_wf, wfsig_lengths. now apply sum_raw_wf. Qed.

Lemma add_eval : forall n f g x, wfsig n f -> wfsig n g ->
  sig_evalR (q_add n f g) x = sig_evalR f x + sig_evalR g x.
Proof.
  intros n f g x Hf Hg. rewrite q_add_unfold.
  rewrite without_zeros_eval; [now apply (sum2_eval n)|now apply sum2_wf].
Qed.

Lemma add_good : forall n f g, wfsig n f -> wfsig n g -> f <> [] ->
  result_ok n (q_add n f g) /\ good n (q_add n f g).
Proof.
  intros n f g Hf Hg Hne. rewrite q_add_unfold.
  destruct (sum2_good n f g Hf Hg Hne) as [Hw [Hd Hn]].
  destruct (without_zeros_ok n _ Hw Hd) as [Hok Hne'].
  split; auto. apply result_ok_good; auto.
Qed.

Lemma add_spec : add_spec_stmt.
Proof.
  intros n f g x Hf Hg _ _ Hnf _ _. split.
  - now apply add_eval.
  - now apply add_good.
Qed.

(* ------------------------------------------------------------------ *)
(* product *)
Definition q_prod := sig_product (C:=Q) 0%Q qadd qmul.
Definition prod_row (t2 : qrow * Q) (f : qsig) : qsig :=
  map (fun t1 => (round_row (vaddq (fst t1) (fst t2)), qmul (snd t1) (snd t2))) f.
Definition prod_raw (f g : qsig) : qsig := flat_map (fun t2 => prod_row t2 f) g.

Lemma q_prod_unfold : forall f g, q_prod f g = q_mk (prod_raw f g).
Proof. reflexivity. Qed.

Lemma q_mul_unfold : forall n f g, q_mul n f g = q_without_zeros n (q_prod f g).
Proof. reflexivity. Qed.

Lemma vaddq_length : forall a b, length a = length b -> length (vaddq a b) = length a.
Proof. induction a; destruct b; simpl; intros H; try discriminate; auto. Qed.

Lemma dot_vaddq : forall a b x, length a = length b ->
  dot (rowR (vaddq a b)) x = dot (rowR a) x + dot (rowR b) x.
Proof.
  induction a; destruct b; intros x H; try discriminate; [simpl; lra|].
  destruct x; [simpl; lra|]. simpl in H. unfold rowR in *. cbn [vaddq map dot].
  rewrite IHa by lia. rewrite Q2R_Qred, Q2R_plus. lra.
Qed.

Lemma prod_row_wf : forall n t2 f, wfsig n f -> length (fst t2) = n -> wfsig n (prod_row t2 f).
Proof.
  intros n t2 f H Hl. unfold wfsig, prod_row in *. rewrite Forall_forall in *. intros t Ht.
  apply in_map_iff in Ht. destruct Ht as [t1 [<- Ht1]]. simpl. split.
  - destruct (H t1 Ht1) as [L1 _]. rewrite round_row_length, vaddq_length; [exact L1|].
    transitivity n; [exact L1|symmetry; exact Hl].
  - apply on_grid_row_round.
Qed.

Lemma prod_raw_wf : forall n f g, wfsig n f -> wfsig n g -> wfsig n (prod_raw f g).
Proof.
  intros n f g Hf Hg. unfold prod_raw. induction Hg as [|t2 g [Hl _] Hg IH]; [constructor|].
  simpl. apply Forall_app. split; auto. now apply prod_row_wf.
Qed.

Lemma prod_row_eval : forall n t2 f x, wfsig n f -> length (fst t2) = n -> on_grid_row (fst t2) ->
  sig_evalR (prod_row t2 f) x = sig_evalR f x * (Q2R (snd t2) * exp (dot (rowR (fst t2)) x)).
Proof.
  intros n t2 f x H Hl Hg. induction H as [|t1 f [Hl1 Hg1] Hf IH].
  - unfold sig_evalR. simpl. lra.
  - unfold prod_row in *. simpl map. rewrite !sig_evalR_cons, IH. simpl fst. simpl snd.
    rewrite round_row_rowR by (now apply on_grid_row_vaddq).
    rewrite dot_vaddq by (transitivity n; [exact Hl1|symmetry; exact Hl]). rewrite exp_plus, Q2R_qmul. unfold qrow in *. ring.
Qed.

Lemma prod_raw_eval : forall n f g x, wfsig n f -> wfsig n g ->
  sig_evalR (prod_raw f g) x = sig_evalR f x * sig_evalR g x.
Proof.
  intros n f g x Hf Hg. unfold prod_raw. induction Hg as [|t2 g [Hl Hgr] Hg IH].
  - unfold sig_evalR. simpl. lra.
  - simpl flat_map. rewrite sig_evalR_app, IH, (prod_row_eval n), sig_evalR_cons; auto. unfold qrow in *. ring.
Qed.

Lemma prod_raw_nonempty : forall f g, f <> [] -> g <> [] -> prod_raw f g <> [].
Proof.
  intros [|t1 f] [|t2 g] Hf Hg; try congruence. discriminate.
Qed.

Lemma prod_eval : forall n f g x, wfsig n f -> wfsig n g ->
  sig_evalR (q_prod f g) x = sig_evalR f x * sig_evalR g x.
Proof.
  intros. rewrite q_prod_unfold, (mk_eval_grid n); [now apply (prod_raw_eval n)|now apply prod_raw_wf].
Qed.

Lemma prod_wf : forall n f g, wfsig n f -> wfsig n g -> wfsig n (q_prod f g).
Proof. intros. rewrite q_prod_unfold. apply mk_wf, wfsig_lengths. now apply prod_raw_wf. Qed.

Lemma mul_eval : forall n f g x, wfsig n f -> wfsig n g ->
  sig_evalR (q_mul n f g) x = sig_evalR f x * sig_evalR g x.
Proof.
  intros n f g x Hf Hg. rewrite q_mul_unfold, without_zeros_eval; [now apply (prod_eval n)|now apply prod_wf].
Qed.

Lemma mul_good : forall n f g, wfsig n f -> wfsig n g -> f <> [] -> g <> [] ->
  result_ok n (q_mul n f g) /\ good n (q_mul n f g).
Proof.
  intros n f g Hf Hg Hnf Hng. rewrite q_mul_unfold.
  assert (Hw : wfsig n (q_prod f g)) by (now apply prod_wf).
  assert (Hd : rows_distinct (q_prod f g)) by (rewrite q_prod_unfold; apply mk_distinct).
  assert (Hn : q_prod f g <> []) by (rewrite q_prod_unfold; apply mk_nonempty; now apply prod_raw_nonempty).
  destruct (without_zeros_ok n _ Hw Hd) as [Hok Hne'].
  split; auto. apply result_ok_good; auto.
Qed.

Lemma mul_spec : mul_spec_stmt.
Proof.
  intros n f g x Hf Hg _ _ Hnf Hng _. split.
  - now apply mul_eval.
  - now apply mul_good.
Qed.

(* ------------------------------------------------------------------ *)
(* scale, neg, sub, add_scalar *)
Lemma q_scale_unfold : forall n q f, q_scale n q f = q_mul n f (qconst n (qid q)).
Proof. reflexivity. Qed.
Lemma q_neg_unfold : forall n f, q_neg n f = q_scale n (-1) f.
Proof. reflexivity. Qed.
Lemma q_sub_unfold : forall n f g, q_sub n f g = q_add n f (q_scale n (-1) g).
Proof. reflexivity. Qed.
Lemma q_add_scalar_unfold : forall n f q, q_add_scalar n f q = q_add n f (qconst n (qid q)).
Proof. reflexivity. Qed.

Lemma Q2R_qid : forall q, Q2R (qid q) = Q2R q.
Proof. intros. apply Q2R_Qred. Qed.

Lemma scale_eval : forall n q f x, wfsig n f -> sig_evalR (q_scale n q f) x = Q2R q * sig_evalR f x.
Proof.
  intros. rewrite q_scale_unfold, (mul_eval n), qconst_eval, Q2R_qid; auto; [lra|apply qconst_wf].
Qed.

Lemma scale_good : forall n q f, wfsig n f -> f <> [] ->
  result_ok n (q_scale n q f) /\ good n (q_scale n q f).
Proof.
  intros. rewrite q_scale_unfold. apply mul_good; auto; [apply qconst_wf|apply qconst_nonempty].
Qed.

Lemma scale_spec : scale_spec_stmt.
Proof.
  intros n q f x Hf _ Hnf _. split.
  - now apply scale_eval.
  - now apply scale_good.
Qed.

Lemma add_scalar_eval : forall n q f x, wfsig n f ->
  sig_evalR (q_add_scalar n f q) x = sig_evalR f x + Q2R q.
Proof.
  intros. rewrite q_add_scalar_unfold, (add_eval n), qconst_eval, Q2R_qid; auto. apply qconst_wf.
Qed.

Lemma add_scalar_good : forall n q f, wfsig n f -> f <> [] ->
  result_ok n (q_add_scalar n f q) /\ good n (q_add_scalar n f q).
Proof. intros. rewrite q_add_scalar_unfold. apply add_good; auto. apply qconst_wf. Qed.

Lemma add_scalar_spec : add_scalar_spec_stmt.
Proof.
  intros n q f x Hf _ Hnf _. split.
  - now apply add_scalar_eval.
  - now apply add_scalar_good.
Qed.

Lemma Q2R_m1 : Q2R (-1) = -1.
Proof. unfold Q2R. simpl. lra. Qed.

Lemma sub_eval : forall n f g x, wfsig n f -> wfsig n g -> g <> [] ->
  sig_evalR (q_sub n f g) x = sig_evalR f x - sig_evalR g x.
Proof.
  intros n f g x Hf Hg Hng. rewrite q_sub_unfold.
  destruct (scale_good n (-1) g Hg Hng) as [_ [Hw _]].
  rewrite (add_eval n), (scale_eval n), Q2R_m1; auto. lra.
Qed.

Lemma sub_good : forall n f g, wfsig n f -> wfsig n g -> f <> [] -> g <> [] ->
  result_ok n (q_sub n f g) /\ good n (q_sub n f g).
Proof.
  intros n f g Hf Hg Hnf Hng. rewrite q_sub_unfold.
  destruct (scale_good n (-1) g Hg Hng) as [_ [Hw _]].
  now apply add_good.
Qed.

Lemma sub_spec : sub_spec_stmt.
Proof.
  intros n f g x Hf Hg _ _ Hnf Hng _. split.
  - now apply sub_eval.
  - now apply sub_good.
Qed.

Lemma neg_eval : forall n f x, wfsig n f -> sig_evalR (q_neg n f) x = - sig_evalR f x.
Proof. intros. rewrite q_neg_unfold, (scale_eval n), Q2R_m1; auto. lra. Qed.
