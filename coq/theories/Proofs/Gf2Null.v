(* Proofs/Gf2Null.v — mod2nullspace enumerates exactly the kernel, without repeats. *)
From Coq Require Import List Bool Arith ZArith Lia.
From SageVerif Require Import Model.Gf2 Proofs.Gf2Spec Proofs.Gf2Lemmas Proofs.Gf2Rref.
Import ListNotations.

(* ------------------------------------------------------------------ *)
(* free columns                                                        *)
(* ------------------------------------------------------------------ *)

Lemma existsb_eqb_In : forall j l, existsb (Nat.eqb j) l = true <-> In j l.
Proof.
  intros j l. rewrite existsb_exists. split.
  - intros [x [Hin E]]. apply Nat.eqb_eq in E. subst x. exact Hin.
  - intros Hin. exists j. split. exact Hin. apply Nat.eqb_refl.
Qed.

Lemma free_cols_In : forall n piv f, In f (free_cols n piv) <-> f < n /\ ~ In f piv.
Proof.
  intros n piv f. unfold free_cols. rewrite filter_In. rewrite in_seq. rewrite negb_true_iff.
  rewrite <- not_true_iff_false. rewrite existsb_eqb_In. split.
  - intros [H1 H2]. split. lia. exact H2.
  - intros [H1 H2]. split. lia. exact H2.
Qed.

Lemma free_cols_NoDup : forall n piv, NoDup (free_cols n piv).
Proof. intros n piv. unfold free_cols. apply NoDup_filter. apply seq_NoDup. Qed.

Lemma filter_partition_length : forall (A : Type) (f : A -> bool) l,
  length (filter f l) + length (filter (fun x => negb (f x)) l) = length l.
Proof.
  intros A f l. induction l as [|x l IH]; simpl. reflexivity.
  destruct (f x); simpl; lia.
Qed.

Lemma free_cols_length : forall n piv, NoDup piv -> (forall p, In p piv -> p < n) ->
  length (free_cols n piv) = n - length piv.
Proof.
  intros n piv Hnd Hlt. unfold free_cols.
  pose proof (filter_partition_length nat (fun j => existsb (Nat.eqb j) piv) (seq 0 n)) as Hp.
  rewrite seq_length in Hp.
  assert (length (filter (fun j => existsb (Nat.eqb j) piv) (seq 0 n)) = length piv) as E.
  { apply Nat.le_antisymm.
    - apply NoDup_incl_length.
      + apply NoDup_filter. apply seq_NoDup.
      + intros j Hj. apply filter_In in Hj. destruct Hj as [_ Hj]. apply existsb_eqb_In. exact Hj.
    - apply NoDup_incl_length.
      + exact Hnd.
      + intros j Hj. apply filter_In. split.
        * apply in_seq. specialize (Hlt j Hj). lia.
        * apply existsb_eqb_In. exact Hj. }
  lia.
Qed.

(* ------------------------------------------------------------------ *)
(* span as a fold: membership, length, NoDup                           *)
(* ------------------------------------------------------------------ *)

Definition span_step (acc : list row) (v : row) : list row :=
  acc ++ map (fun w => xorrow w v) acc.

Lemma span_unfold : forall n bs, span n bs = fold_left span_step bs [repeat false n].
Proof. reflexivity. Qed.

Fixpoint reach (bs : list row) (w x : row) : Prop :=
  match bs with
  | [] => w = x
  | v :: bs' => reach bs' w x \/ reach bs' (xorrow w v) x
  end.

Lemma span_fold_In : forall bs acc x,
  In x (fold_left span_step bs acc) <-> exists w, In w acc /\ reach bs w x.
Proof.
  induction bs as [|v bs IH]; intros acc x; simpl.
  - split.
    + intros H. exists x. split. exact H. reflexivity.
    + intros [w [H E]]. subst w. exact H.
  - rewrite IH. unfold span_step. split.
    + intros [w [Hin Hr]]. apply in_app_or in Hin. destruct Hin as [Hin|Hin].
      * exists w. split. exact Hin. left. exact Hr.
      * apply in_map_iff in Hin. destruct Hin as [w0 [E Hin]]. subst w.
        exists w0. split. exact Hin. right. exact Hr.
    + intros [w [Hin [Hr|Hr]]].
      * exists w. split. apply in_or_app. left. exact Hin. exact Hr.
      * exists (xorrow w v). split.
        -- apply in_or_app. right. apply in_map_iff. exists w. split. reflexivity. exact Hin.
        -- exact Hr.
Qed.

Lemma span_fold_length : forall bs acc,
  length (fold_left span_step bs acc) = 2 ^ length bs * length acc.
Proof.
  induction bs as [|v bs IH]; intros acc; simpl.
  - lia.
  - rewrite IH. unfold span_step. rewrite app_length, map_length. lia.
Qed.

Lemma span_fold_NoDup : forall n (bv : nat -> row) fs acc,
  NoDup fs ->
  (forall f, In f fs -> length (bv f) = n) ->
  (forall f, In f fs -> bit f (bv f) = true) ->
  (forall f f', In f fs -> In f' fs -> f <> f' -> bit f' (bv f) = false) ->
  NoDup acc ->
  (forall w, In w acc -> length w = n) ->
  (forall w f, In w acc -> In f fs -> bit f w = false) ->
  NoDup (fold_left span_step (map bv fs) acc).
Proof.
  intros n bv fs. induction fs as [|f fs IH]; intros acc Hnd Hlen Hself Hoth Hacc Hal Haz; simpl.
  - exact Hacc.
  - apply NoDup_cons_iff in Hnd. destruct Hnd as [Hnin Hnd'].
    assert (In f (f :: fs)) as Hf by (left; reflexivity).
    assert (length (bv f) = n) as Lv by (apply Hlen; exact Hf).
    apply IH.
    + exact Hnd'.
    + intros g Hg. apply Hlen. right. exact Hg.
    + intros g Hg. apply Hself. right. exact Hg.
    + intros g g' Hg Hg' Hne. apply Hoth. right. exact Hg. right. exact Hg'. exact Hne.
    + unfold span_step. apply NoDup_app_intro.
      * exact Hacc.
      * apply NoDup_map_inj. 2: exact Hacc.
        intros w w' Hw Hw' E.
        rewrite <- (xorrow_invol w (bv f)). rewrite <- (xorrow_invol w' (bv f)).
        rewrite E. reflexivity.
        rewrite (Hal w' Hw'). lia. rewrite (Hal w Hw). lia.
      * intros x Hx1 Hx2. apply in_map_iff in Hx2. destruct Hx2 as [w [E Hw]].
        pose proof (Haz x f Hx1 Hf) as B1. subst x.
        rewrite bit_xorrow in B1.
        -- rewrite (Haz w f Hw Hf) in B1. rewrite (Hself f Hf) in B1. discriminate.
        -- rewrite (Hal w Hw). lia.
    + unfold span_step. intros w Hw. apply in_app_or in Hw. destruct Hw as [Hw|Hw].
      * apply Hal. exact Hw.
      * apply in_map_iff in Hw. destruct Hw as [w0 [E Hw0]]. subst w.
        rewrite xorrow_length. apply Hal. exact Hw0. rewrite (Hal w0 Hw0). lia.
    + unfold span_step. intros w g Hw Hg. apply in_app_or in Hw. destruct Hw as [Hw|Hw].
      * apply Haz. exact Hw. right. exact Hg.
      * apply in_map_iff in Hw. destruct Hw as [w0 [E Hw0]]. subst w.
        rewrite bit_xorrow.
        -- rewrite (Haz w0 g Hw0 (or_intror Hg)).
           rewrite (Hoth f g Hf (or_intror Hg)). reflexivity.
           intro E. subst g. apply Hnin. exact Hg.
        -- rewrite (Hal w0 Hw0). lia.
Qed.

(* ------------------------------------------------------------------ *)
(* basis vectors                                                       *)
(* ------------------------------------------------------------------ *)

Section BasisVec.
  Variables (R : mat) (f : nat).

  Definition bv_step (v : row) (ip : nat * nat) : row :=
    set_nth (snd ip) (bit f (nth (fst ip) R [])) v.

  Lemma bv_fold_length : forall l s v,
    length (fold_left bv_step (enumerate_from s l) v) = length v.
  Proof.
    induction l as [|p l IH]; intros s v; simpl. reflexivity.
    rewrite IH. unfold bv_step. apply set_nth_length.
  Qed.

  Lemma bv_fold_notin : forall l s v j, ~ In j l ->
    bit j (fold_left bv_step (enumerate_from s l) v) = bit j v.
  Proof.
    induction l as [|p l IH]; intros s v j Hnin; simpl. reflexivity.
    rewrite IH.
    - unfold bv_step. simpl. apply bit_set_nth_neq. intro E. apply Hnin. left. symmetry. exact E.
    - intro H. apply Hnin. right. exact H.
  Qed.

  Lemma bv_fold_in : forall l s v t, NoDup l -> (forall p, In p l -> p < length v) ->
    t < length l ->
    bit (nth t l 0) (fold_left bv_step (enumerate_from s l) v) = bit f (nth (s + t) R []).
  Proof.
    induction l as [|p l IH]; intros s v t Hnd Hlt Ht; simpl in *. lia.
    apply NoDup_cons_iff in Hnd. destruct Hnd as [Hnin Hnd'].
    destruct t as [|t].
    - rewrite bv_fold_notin by exact Hnin. unfold bv_step. simpl.
      rewrite bit_set_nth_eq. rewrite Nat.add_0_r. reflexivity.
      apply Hlt. left. reflexivity.
    - rewrite IH.
      + f_equal. f_equal. lia.
      + exact Hnd'.
      + intros q Hq. unfold bv_step. rewrite set_nth_length. apply Hlt. right. exact Hq.
      + lia.
  Qed.
End BasisVec.

Lemma basis_vec_unfold : forall n R piv f,
  basis_vec n R piv f =
  fold_left (bv_step R f) (enumerate_from 0 piv) (set_nth f true (repeat false n)).
Proof. reflexivity. Qed.

(* ------------------------------------------------------------------ *)
(* kernel of a reduced echelon matrix                                  *)
(* ------------------------------------------------------------------ *)

Section Kernel.
  Variables (n : nat) (A0 R : mat) (piv : list nat).
  Hypothesis HE : Ech n A0 R piv.
  Hypothesis HU : Unit R piv (length piv).

  Let bv := basis_vec n R piv.

  Lemma piv_NoDup : NoDup piv.
  Proof. apply si_NoDup. apply (ech_si _ _ _ _ HE). Qed.

  Lemma piv_In_lt : forall p, In p piv -> p < n.
  Proof.
    intros p Hp. destruct (In_nth piv p 0 Hp) as [i [Hi E]]. subst p.
    apply (ech_lt _ _ _ _ HE). exact Hi.
  Qed.

  Lemma bv_length : forall f, length (bv f) = n.
  Proof.
    intro f. unfold bv. rewrite basis_vec_unfold. rewrite bv_fold_length.
    rewrite set_nth_length. apply repeat_length.
  Qed.

  Lemma bv_self : forall f, f < n -> ~ In f piv -> bit f (bv f) = true.
  Proof.
    intros f Hf Hnin. unfold bv. rewrite basis_vec_unfold.
    rewrite bv_fold_notin by exact Hnin. apply bit_set_nth_eq. rewrite repeat_length. exact Hf.
  Qed.

  Lemma bv_other : forall f j, j <> f -> ~ In j piv -> bit j (bv f) = false.
  Proof.
    intros f j Hne Hnin. unfold bv. rewrite basis_vec_unfold.
    rewrite bv_fold_notin by exact Hnin. rewrite bit_set_nth_neq by exact Hne.
    apply (bit_zeros n j).
  Qed.

  Lemma bv_piv : forall f t, t < length piv -> bit (nth t piv 0) (bv f) = bit f (nth t R []).
  Proof.
    intros f t Ht. unfold bv. rewrite basis_vec_unfold.
    rewrite (bv_fold_in R f piv 0 _ t).
    - reflexivity.
    - exact piv_NoDup.
    - intros p Hp. rewrite set_nth_length. rewrite repeat_length. apply piv_In_lt. exact Hp.
    - exact Ht.
  Qed.

  Lemma row_other_piv : forall i j, i < length piv -> In j piv -> j <> nth i piv 0 ->
    bit j (nth i R []) = false.
  Proof.
    intros i j Hi Hj Hne. destruct (In_nth piv j 0 Hj) as [i' [Hi' E]]. subst j.
    apply HU. exact Hi'. pose proof (ech_rank _ _ _ _ HE). lia.
    intro E. subst i'. apply Hne. reflexivity.
  Qed.

  Lemma bv_ksat : forall f, f < n -> ~ In f piv -> ksat R (bv f).
  Proof.
    intros f Hf Hnin r Hin. destruct (In_nth R r [] Hin) as [i [Hi E]]. subst r.
    destruct (Nat.lt_ge_cases i (length piv)) as [Hl|Hl].
    - assert (f <> nth i piv 0) as Hne.
      { intro E. apply Hnin. rewrite E. apply nth_In. exact Hl. }
      rewrite (dotb_two f (nth i piv 0)).
      + rewrite (bv_self f Hf Hnin). rewrite (bv_piv f i Hl).
        destruct (ech_lead _ _ _ _ HE i Hl) as [L1 _]. rewrite L1.
        destruct (bit f (nth i R [])); reflexivity.
      + exact Hne.
      + intros j Hj1 Hj2. destruct (in_dec Nat.eq_dec j piv) as [Hj|Hj].
        * rewrite (row_other_piv i j Hl Hj Hj2). reflexivity.
        * rewrite (bv_other f j Hj1 Hj). apply andb_false_r.
    - rewrite (ech_zero _ _ _ _ HE i Hl Hi). apply dotb_zeros_l.
  Qed.

  Lemma kernel_determined : forall w x, length w = n -> length x = n ->
    ksat R w -> ksat R x ->
    (forall f, f < n -> ~ In f piv -> bit f w = bit f x) -> w = x.
  Proof.
    intros w x Lw Lx Kw Kx Hfree. apply row_ext. lia.
    intros j Hj. rewrite Lw in Hj.
    destruct (in_dec Nat.eq_dec j piv) as [Hp|Hp].
    2: { apply Hfree; assumption. }
    destruct (In_nth piv j 0 Hp) as [i [Hi E]]. subst j.
    assert (i < length R) as HiR. { pose proof (ech_rank _ _ _ _ HE). lia. }
    assert (dotb (nth i R []) (xorrow w x) = false) as Hd.
    { rewrite dotb_xorrow_r by lia.
      rewrite (Kw _ (nth_In R [] HiR)). rewrite (Kx _ (nth_In R [] HiR)). reflexivity. }
    rewrite (dotb_single (nth i piv 0)) in Hd.
    - destruct (ech_lead _ _ _ _ HE i Hi) as [L1 _]. rewrite L1 in Hd.
      rewrite bit_xorrow in Hd by lia. simpl in Hd. apply xorb_eq. exact Hd.
    - intros j Hne. destruct (in_dec Nat.eq_dec j piv) as [Hj'|Hj'].
      + rewrite (row_other_piv i j Hi Hj' Hne). reflexivity.
      + destruct (Nat.lt_ge_cases j n) as [Hl|Hl].
        * rewrite bit_xorrow by lia. rewrite (Hfree j Hl Hj'). rewrite xorb_nilpotent.
          apply andb_false_r.
        * rewrite (bit_overflow j (xorrow w x)). apply andb_false_r.
          rewrite xorrow_length; lia.
  Qed.

  Lemma reach_sound : forall fs w x,
    (forall f, In f fs -> f < n /\ ~ In f piv) ->
    length w = n -> ksat R w -> reach (map bv fs) w x -> length x = n /\ ksat R x.
  Proof.
    induction fs as [|f fs IH]; intros w x Hfs Lw Kw Hr; simpl in Hr.
    - subst x. split; assumption.
    - assert (forall g, In g fs -> g < n /\ ~ In g piv) as Hfs'.
      { intros g Hg. apply Hfs. right. exact Hg. }
      destruct Hr as [Hr|Hr].
      + apply (IH w x Hfs' Lw Kw Hr).
      + destruct (Hfs f (or_introl eq_refl)) as [Hf Hnin].
        apply (IH (xorrow w (bv f)) x Hfs').
        * rewrite xorrow_length. exact Lw. rewrite bv_length. exact Lw.
        * intros r Hin. rewrite dotb_xorrow_r.
          -- rewrite (Kw r Hin). rewrite (bv_ksat f Hf Hnin r Hin). reflexivity.
          -- rewrite bv_length. exact Lw.
        * exact Hr.
  Qed.

  Lemma reach_complete : forall fs w x, NoDup fs ->
    (forall f, In f fs -> f < n /\ ~ In f piv) ->
    length w = n -> length x = n -> ksat R w -> ksat R x ->
    (forall f, f < n -> ~ In f piv -> ~ In f fs -> bit f w = bit f x) ->
    reach (map bv fs) w x.
  Proof.
    induction fs as [|f fs IH]; intros w x Hnd Hfs Lw Lx Kw Kx Hag; simpl.
    - apply kernel_determined; try assumption.
      intros f Hf Hnin. apply Hag; try assumption. intros [].
    - apply NoDup_cons_iff in Hnd. destruct Hnd as [Hnin Hnd'].
      assert (forall g, In g fs -> g < n /\ ~ In g piv) as Hfs'.
      { intros g Hg. apply Hfs. right. exact Hg. }
      destruct (Hfs f (or_introl eq_refl)) as [Hf Hfp].
      destruct (bool_dec (bit f w) (bit f x)) as [E|E].
      + left. apply IH; try assumption.
        intros g Hg Hgp Hgn. destruct (Nat.eq_dec g f) as [Eg|Eg].
        * subst g. exact E.
        * apply Hag; try assumption. intros [H|H]. apply Eg. symmetry. exact H. apply Hgn. exact H.
      + right. apply IH; try assumption.
        * rewrite xorrow_length. exact Lw. rewrite bv_length. exact Lw.
        * intros r Hin. rewrite dotb_xorrow_r.
          -- rewrite (Kw r Hin). rewrite (bv_ksat f Hf Hfp r Hin). reflexivity.
          -- rewrite bv_length. exact Lw.
        * intros g Hg Hgp Hgn. rewrite bit_xorrow by (rewrite bv_length; exact Lw).
          destruct (Nat.eq_dec g f) as [Eg|Eg].
          -- subst g. rewrite (bv_self f Hf Hfp).
             destruct (bit f w), (bit f x); try reflexivity; exfalso; apply E; reflexivity.
          -- rewrite (bv_other f g Eg Hgp). rewrite xorb_false_r.
             apply Hag; try assumption. intros [H|H]. apply Eg. symmetry. exact H. apply Hgn. exact H.
  Qed.

  Lemma nullspace_In : forall x, length x = n -> (ksat R x <-> In x (mod2nullspace n R piv)).
  Proof using HE HU.
    intros x Lx. unfold mod2nullspace, mod2nullspace_basis. rewrite span_unfold.
    rewrite span_fold_In. fold bv. split.
    - intros Kx. exists (repeat false n). split. left. reflexivity.
      apply reach_complete.
      + apply free_cols_NoDup.
      + intros f Hf. apply free_cols_In. exact Hf.
      + apply repeat_length.
      + exact Lx.
      + intros r Hin. apply (dotb_zeros_r n r).
      + exact Kx.
      + intros f Hf Hfp Hnf. exfalso. apply Hnf. apply free_cols_In. split; assumption.
    - intros [w [[E|[]] Hr]]. subst w.
      apply (reach_sound (free_cols n piv) (repeat false n) x).
      + intros f Hf. apply free_cols_In. exact Hf.
      + apply repeat_length.
      + intros r Hin. apply (dotb_zeros_r n r).
      + exact Hr.
  Qed.

  Lemma nullspace_In_len : forall x, In x (mod2nullspace n R piv) -> length x = n.
  Proof using HE HU.
    intros x Hin. unfold mod2nullspace, mod2nullspace_basis in Hin. rewrite span_unfold in Hin.
    rewrite span_fold_In in Hin. fold bv in Hin. destruct Hin as [w [[E|[]] Hr]]. subst w.
    apply (reach_sound (free_cols n piv) (repeat false n) x).
    - intros f Hf. apply free_cols_In. exact Hf.
    - apply repeat_length.
    - intros r Hin. apply (dotb_zeros_r n r).
    - exact Hr.
  Qed.

  Lemma nullspace_NoDup : NoDup (mod2nullspace n R piv).
  Proof using HE HU.
    unfold mod2nullspace, mod2nullspace_basis. rewrite span_unfold. fold bv.
    apply (span_fold_NoDup n bv).
    - apply free_cols_NoDup.
    - intros f _. apply bv_length.
    - intros f Hf. apply free_cols_In in Hf. destruct Hf as [H1 H2]. apply bv_self; assumption.
    - intros f f' Hf Hf' Hne. apply free_cols_In in Hf'. destruct Hf' as [H1 H2].
      apply bv_other. intro E. apply Hne. symmetry. exact E. exact H2.
    - constructor. intros []. constructor.
    - intros w [E|[]]. subst w. apply repeat_length.
    - intros w f [E|[]] _. subst w. apply (bit_zeros n f).
  Qed.

  Lemma nullspace_length : length (mod2nullspace n R piv) = 2 ^ (n - length piv).
  Proof using HE HU.
    unfold mod2nullspace, mod2nullspace_basis. rewrite span_unfold.
    rewrite span_fold_length. rewrite map_length. simpl.
    rewrite free_cols_length. lia. exact piv_NoDup. exact piv_In_lt.
  Qed.
End Kernel.

Lemma nullspace_exact_holds : nullspace_exact_stmt.
Proof.
  intros n A R piv Hwf Hne H.
  destruct (rref_Ech false n A R piv Hwf Hne H) as [HE HU]. specialize (HU eq_refl).
  split.
  - intros x Lx. rewrite mulmv_zeros_ksat.
    rewrite (rref_ksat false n A R piv x Hwf Hne H).
    apply (nullspace_In n A R piv HE HU x Lx).
  - split.
    + apply (nullspace_NoDup n A R piv HE HU).
    + apply (nullspace_length n A R piv HE HU).
Qed.

Lemma nullspace_mem : forall n A R piv, wf n A -> A <> [] -> mod2rref false A = (R, piv) ->
  forall x, In x (mod2nullspace n R piv) <-> length x = n /\ mulmv A x = zeros (length A).
Proof.
  intros n A R piv Hwf Hne H x.
  destruct (rref_Ech false n A R piv Hwf Hne H) as [HE HU]. specialize (HU eq_refl).
  rewrite mulmv_zeros_ksat. rewrite (rref_ksat false n A R piv x Hwf Hne H).
  split.
  - intros Hin. pose proof (nullspace_In_len n A R piv HE HU x Hin) as Lx.
    split. exact Lx. apply (nullspace_In n A R piv HE HU x Lx). exact Hin.
  - intros [Lx Kx]. apply (nullspace_In n A R piv HE HU x Lx). exact Kx.
Qed.
