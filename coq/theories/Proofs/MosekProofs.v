(* Proofs/MosekProofs.v — proofs of the statements of Proofs/MosekSpec.v.  The tables are regenerated on
   every run: the proofs go through case analysis and computation on closed terms only. *)
From Coq Require Import List Bool Arith Lia.
From SageVerif Require Import Gen.GenEcosParse Gen.GenProblemSolve Gen.GenMosek Model.SolverForms Proofs.MosekSpec.
Import ListNotations.

Lemma mosek_parse_table : mosek_parse_table_stmt.
Proof. intros []; split; reflexivity. Qed.

Lemma mosek_forms_agree : mosek_forms_agree_stmt.
Proof. intros []; reflexivity. Qed.

Lemma mosek_status_truthful : mosek_status_truthful_stmt.
Proof. intros [] [] []; reflexivity. Qed.

Lemma slack_types_spec t :
  existsb (ctag_eqb t) mosek_slack_types = (ctag_eqb t TExp || ctag_eqb t TSoc).
Proof. destruct t; reflexivity. Qed.

Lemma mosek_slack_dim_spec K :
  mosek_slack_dim K =
  fold_right (fun co acc => (if ctag_eqb (fst co) TExp || ctag_eqb (fst co) TSoc then snd co else 0) + acc) 0 K.
Proof.
  unfold mosek_slack_dim. induction K as [|co K IH]; [reflexivity|].
  cbn [fold_right]. rewrite IH, slack_types_spec. reflexivity.
Qed.

Lemma mosek_decide : mosek_decide_stmt.
Proof.
  split; [intros [] [] sd n; reflexivity|].
  split; [intros [] sd n; reflexivity|].
  split; [|exact mosek_slack_dim_spec].
  intros dv n K. unfold decide_dual. rewrite <- mosek_slack_dim_spec.
  unfold mosek_decide_dual. cbv iota.
  destruct (Nat.ltb n (mosek_slack_dim K)); reflexivity.
Qed.
