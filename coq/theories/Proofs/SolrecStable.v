(* Proofs/SolrecStable.v — C17: the sort is STABLE: candidates with equal objective value keep the order in which the
   generators proposed them.  Together with solrec_sorted and solrec_complete this determines the returned list. *)
From Coq Require Import List Bool Arith ZArith QArith Qabs Permutation Sorted Lia.
From SageVerif Require Import Model.Solrec Proofs.SolrecProofs.
Import ListNotations.

Definition keyeq (v : Q) (c : cand) : bool := Qeq_bool (c_f c) v.

Lemma keyeq_true : forall v c, keyeq v c = true <-> (c_f c == v)%Q.
Proof. intros. unfold keyeq. apply Qeq_bool_iff. Qed.

Lemma filter_none : forall v l, (forall d, In d l -> keyeq v d = false) -> filter (keyeq v) l = [].
Proof.
  intros v l H. induction l as [|d l IH]; simpl; auto.
  rewrite (H d (or_introl eq_refl)). apply IH. intros e He. apply H. right. exact He.
Qed.

Lemma insert_stable : forall v c l, sortedf l ->
  filter (keyeq v) (insert_sorted c l) = filter (keyeq v) l ++ (if keyeq v c then [c] else []).
Proof.
  intros v c l Hs. induction Hs as [|d l Hs IH Hd]; simpl.
  - destruct (keyeq v c); reflexivity.
  - destruct (Qcompare (c_f c) (c_f d)) eqn:E.
    + simpl. destruct (keyeq v d); rewrite IH; reflexivity.
    + (* c < d: c goes in front; nothing in d :: l has c's key *)
      destruct (keyeq v c) eqn:Kc.
      * assert (N : filter (keyeq v) (d :: l) = []).
        { apply filter_none. intros e He. destruct (keyeq v e) eqn:Ke; auto. exfalso.
          apply keyeq_true in Kc. apply keyeq_true in Ke. apply Qlt_alt in E.
          assert (Hle : (c_f d <= c_f e)%Q).
          { destruct He as [<-|He]; [apply Qle_refl|]. rewrite Forall_forall in Hd. apply Hd. exact He. }
          apply (Qlt_not_le _ _ E). rewrite Kc. rewrite <- Ke. exact Hle. }
        simpl. rewrite Kc. simpl in N. rewrite N. reflexivity.
      * simpl. rewrite Kc. rewrite app_nil_r. reflexivity.
    + simpl. destruct (keyeq v d); rewrite IH; reflexivity.
Qed.

Lemma fold_stable : forall v l acc, sortedf acc ->
  filter (keyeq v) (fold_left (fun acc c => insert_sorted c acc) l acc) = filter (keyeq v) acc ++ filter (keyeq v) l.
Proof.
  intros v l. induction l as [|c l IH]; intros acc Ha; simpl.
  - rewrite app_nil_r. reflexivity.
  - rewrite IH by (apply insert_sorted_sorted; exact Ha).
    rewrite insert_stable by exact Ha. rewrite <- app_assoc. destruct (keyeq v c); reflexivity.
Qed.

(* stability: for every objective value v, the returned candidates with that value are exactly the feasible candidates
   with that value, in their original order *)
Theorem solrec_stable : forall itol etol cands v,
  filter (keyeq v) (solrec itol etol cands) = filter (keyeq v) (filter (is_feasible itol etol) cands).
Proof.
  intros. unfold solrec, sort_by_f. rewrite fold_stable by constructor. reflexivity.
Qed.
