(* Proofs/PowConeProofs.v — proofs of Proofs/PowConeSpec.v *)
From Coq Require Import List Bool Arith ZArith QArith Qabs Qreals Reals Lia Lra.
From SageVerif Require Import Model.Expr Model.SolverForms Model.Compile Model.PowCone Proofs.ExprSpec Proofs.CompileSpec
     Proofs.CompileBlocks Proofs.PowConeSpec.
Import ListNotations.
Close Scope Q_scope.
Open Scope R_scope.

Lemma qpos_true q : qpos q = true <-> (0 < q)%Q.
Proof. unfold qpos. rewrite Qlt_alt. destruct (0 ?= q)%Q; split; intro H; try reflexivity; discriminate. Qed.
Lemma qneg_true q : qneg q = true <-> (q < 0)%Q.
Proof. unfold qneg. rewrite Qlt_alt. destruct (q ?= 0)%Q; split; intro H; try reflexivity; discriminate. Qed.
Lemma qpos_false_of_neg q : (q < 0)%Q -> qpos q = false.
Proof.
  intro H. destruct (qpos q) eqn:E; [|reflexivity]. apply qpos_true in E.
  exfalso. apply (Qlt_irrefl 0). apply Qlt_trans with q; assumption.
Qed.
Lemma qneg_false_of_pos q : (0 < q)%Q -> qneg q = false.
Proof.
  intro H. destruct (qneg q) eqn:E; [|reflexivity]. apply qneg_true in E.
  exfalso. apply (Qlt_irrefl 0). apply Qlt_trans with q; assumption.
Qed.

Lemma mask_pos_all {X} (l : list Q) (x : list X) (rest_s : list bool) (rest_x : list X) :
  length x = length l -> Forall (fun q => (0 < q)%Q) l ->
  mask (map qpos l ++ rest_s) (x ++ rest_x) = x ++ mask rest_s rest_x.
Proof.
  revert x. induction l as [|q l IH]; intros [|a x] Hl Hf; simpl in Hl; try discriminate; [reflexivity|].
  inversion Hf as [|? ? Hq Hf']; subst. cbn [map app mask].
  rewrite (proj2 (qpos_true q) Hq). f_equal. apply IH; [lia | assumption].
Qed.
Lemma mask_neg_none {X} (l : list Q) (x : list X) (rest_s : list bool) (rest_x : list X) :
  length x = length l -> Forall (fun q => (0 < q)%Q) l ->
  mask (map qneg l ++ rest_s) (x ++ rest_x) = mask rest_s rest_x.
Proof.
  revert x. induction l as [|q l IH]; intros [|a x] Hl Hf; simpl in Hl; try discriminate; [reflexivity|].
  inversion Hf as [|? ? Hq Hf']; subst. cbn [map app mask].
  rewrite (qneg_false_of_pos q Hq). apply IH; [lia | assumption].
Qed.

Lemma mask_pos_split {X} l1 lk l2 (x1 : list X) xk x2 :
  length x1 = length l1 -> length x2 = length l2 ->
  Forall (fun q => (0 < q)%Q) l1 -> Forall (fun q => (0 < q)%Q) l2 -> (lk < 0)%Q ->
  mask (map qpos (l1 ++ lk :: l2)) (x1 ++ xk :: x2) = x1 ++ x2.
Proof.
  intros H1 H2 F1 F2 Hk. rewrite map_app. cbn [map].
  rewrite (mask_pos_all l1 x1 _ _ H1 F1). f_equal. cbn [mask]. rewrite (qpos_false_of_neg lk Hk).
  pose proof (mask_pos_all l2 x2 [] [] H2 F2) as E. rewrite !app_nil_r in E. cbn [mask] in E.
  rewrite E. destruct x2; reflexivity.
Qed.
Lemma mask_neg_split {X} l1 lk l2 (x1 : list X) xk x2 :
  length x1 = length l1 -> length x2 = length l2 ->
  Forall (fun q => (0 < q)%Q) l1 -> Forall (fun q => (0 < q)%Q) l2 -> (lk < 0)%Q ->
  mask (map qneg (l1 ++ lk :: l2)) (x1 ++ xk :: x2) = [xk].
Proof.
  intros H1 H2 F1 F2 Hk. rewrite map_app. cbn [map].
  rewrite (mask_neg_none l1 x1 _ _ H1 F1). cbn [mask]. rewrite (proj2 (qneg_true lk) Hk). f_equal.
  pose proof (mask_neg_none l2 x2 [] [] H2 F2) as E. rewrite !app_nil_r in E. cbn [mask] in E.
  rewrite E. destruct x2; reflexivity.
Qed.

Lemma forallb_qpos_false l1 lk l2 : (lk < 0)%Q -> forallb qpos (l1 ++ lk :: l2) = false.
Proof.
  intro Hk. rewrite forallb_app. cbn [forallb]. rewrite (qpos_false_of_neg lk Hk).
  rewrite andb_false_r. reflexivity.
Qed.

Lemma tol_ok s : (Qabs s <= pow_tol)%Q -> qpos (Qabs s - pow_tol)%Q = false.
Proof.
  intro H. destruct (qpos (Qabs s - pow_tol)%Q) eqn:E; [|reflexivity]. apply qpos_true in E.
  exfalso. apply (Qlt_not_le _ _ E). apply Qle_minus_iff in H. 
  setoid_replace (Qabs s - pow_tol)%Q with (- (pow_tol + - Qabs s))%Q by ring.
  apply Qopp_le_compat in H. setoid_replace (- 0)%Q with 0%Q in H by ring. exact H.
Qed.

Lemma prow_val rho dummy e : affine_cell e -> rrow_val rho (prow dummy e) = value rho e.
Proof. intro H. exact (proj2 (elementwise_rows_are_slack rho dummy e H)). Qed.

Lemma map_prow_val rho dummy l : Forall affine_cell l -> map (rrow_val rho) (map (prow dummy) l) = map (value rho) l.
Proof.
  induction l as [|e l IH]; intro H; [reflexivity|]. inversion H; subst. cbn [map].
  rewrite prow_val by assumption. f_equal. apply IH. assumption.
Qed.

Lemma Q2R_abs_neg q : (q < 0)%Q -> Q2R (Qabs q) = Rabs (Q2R q).
Proof.
  intro H. assert (Hq : (Qabs q == - q)%Q) by (apply Qabs_neg; apply Qlt_le_weak; exact H).
  rewrite (Qeq_eqR _ _ Hq), Q2R_opp.
  apply Qlt_Rlt in H. replace (Q2R 0) with 0 in H by (unfold Q2R; simpl; lra).
  rewrite Rabs_left by exact H. reflexivity.
Qed.

Lemma weight_R lk l : (lk < 0)%Q -> Q2R (Qred (l / Qabs lk)%Q) = Q2R l / Rabs (Q2R lk).
Proof.
  intro H. rewrite (Qeq_eqR _ _ (Qred_correct _)).
  assert (Hn : ~ (Qabs lk == 0)%Q).
  { rewrite (Qabs_neg lk) by (apply Qlt_le_weak; exact H). intro E.
    assert (Z0 : (lk == 0)%Q) by (setoid_replace lk with (- - lk)%Q by ring; rewrite E; ring).
    rewrite Z0 in H. exact (Qlt_irrefl 0 H). }
  rewrite Q2R_div by exact Hn. rewrite Q2R_abs_neg by exact H. reflexivity.
Qed.

Lemma in_pow_snoc alpha vs z :
  length vs = length alpha ->
  (in_pow alpha (vs ++ [z]) <-> (Forall (fun x => 0 <= x) vs /\ Rabs z <= prodpow vs alpha)).
Proof.
  intro Hl. split.
  - intros (ws & z' & E & _ & Hf & Hz). apply app_inj_tail in E. destruct E as [-> ->]. split; assumption.
  - intros [Hf Hz]. exists vs, z. repeat split; assumption.
Qed.

Lemma pow_block_iff : pow_block_iff_stmt.
Proof.
  intros rho dummy w1 wk w2 l1 lk l2 H1 H2 F1 F2 Hk Hs Haff.
  assert (Hlen : length (w1 ++ wk :: w2) = length (l1 ++ lk :: l2)).
  { rewrite !app_length. cbn [length]. lia. }
  exists (map (prow dummy) ((w1 ++ w2) ++ [wk])), (map (fun l => Qred (l / Qabs lk)%Q) (l1 ++ l2)).
  assert (Hform : pow_conic_form dummy (w1 ++ wk :: w2) (l1 ++ lk :: l2) =
                  PowOk [(TPow, length (w1 ++ wk :: w2))] (map (prow dummy) ((w1 ++ w2) ++ [wk]))
                        (map (fun l => Qred (l / Qabs lk)%Q) (l1 ++ l2))).
  { unfold pow_conic_form. rewrite Hlen, Nat.eqb_refl. cbn [negb].
    rewrite (forallb_qpos_false l1 lk l2 Hk). rewrite (tol_ok _ Hs).
    rewrite (mask_neg_split l1 lk l2 l1 lk l2 eq_refl eq_refl F1 F2 Hk).
    rewrite (mask_pos_split l1 lk l2 l1 lk l2 eq_refl eq_refl F1 F2 Hk).
    replace (length (l1 ++ l2) + 1 =? length (l1 ++ lk :: l2))%nat with true
      by (symmetry; apply Nat.eqb_eq; rewrite !app_length; cbn [length]; lia).
    rewrite (mask_pos_split l1 lk l2 w1 wk w2 H1 H2 F1 F2 Hk).
    rewrite (mask_neg_split l1 lk l2 w1 wk w2 H1 H2 F1 F2 Hk). reflexivity. }
  assert (Haff' : Forall affine_cell ((w1 ++ w2) ++ [wk])).
  { rewrite Forall_forall in *. intros e He. apply Haff. rewrite in_app_iff in *. cbn [In] in *.
    destruct He as [He|[->|[]]]; [|right; left; reflexivity]. rewrite in_app_iff in He. destruct He; [left|right; right]; assumption. }
  assert (Hvals : map (rrow_val rho) (map (prow dummy) ((w1 ++ w2) ++ [wk])) = map (value rho) (w1 ++ w2) ++ [value rho wk]).
  { rewrite map_prow_val by exact Haff'. rewrite map_app. reflexivity. }
  split; [exact Hform|]. split; [rewrite map_length, !app_length; cbn [length]; lia|].
  split; [reflexivity|]. split; [exact Hvals|].
  rewrite Hvals.
  assert (Hw : map Q2R (map (fun l => Qred (l / Qabs lk)%Q) (l1 ++ l2)) = map (fun l => Q2R l / Rabs (Q2R lk)) (l1 ++ l2)).
  { rewrite map_map. apply map_ext. intro l. apply weight_R. exact Hk. }
  rewrite Hw. rewrite in_pow_snoc by (rewrite !map_length, !app_length; lia).
  rewrite Forall_map. reflexivity.
Qed.

Open Scope Q_scope.
Lemma qsum_app a b : qsum (a ++ b) == qsum a + qsum b.
Proof. unfold qsum. induction a as [|x a IH]; cbn [app fold_right]; [ring|]. rewrite IH. ring. Qed.

Lemma qsum_scaled a L : ~ a == 0 -> qsum (map (fun l => Qred (l / a)) L) == qsum L / a.
Proof.
  intro Ha. unfold qsum. induction L as [|x L IH]; cbn [map fold_right].
  - field. exact Ha.
  - rewrite IH, Qred_correct. field. exact Ha.
Qed.

Lemma pow_weights : pow_weights_stmt.
Proof.
  intros l1 lk l2 F1 F2 Hk wt.
  assert (Ha : 0 < Qabs lk).
  { rewrite (Qabs_neg lk) by (apply Qlt_le_weak; exact Hk).
    setoid_replace 0 with (- 0) by ring. apply Qopp_lt_compat. exact Hk. }
  assert (Hn : ~ Qabs lk == 0) by (intro E; rewrite E in Ha; exact (Qlt_irrefl 0 Ha)).
  split.
  - unfold wt. rewrite Forall_map. rewrite Forall_forall. intros l Hl.
    rewrite Qred_correct. apply Qlt_shift_div_l; [exact Ha|]. rewrite Qmult_0_l.
    apply in_app_or in Hl. rewrite Forall_forall in F1, F2. destruct Hl; auto.
  - intro Hs. unfold wt. rewrite qsum_scaled by exact Hn.
    rewrite qsum_app in Hs. cbn [qsum fold_right] in Hs. fold (qsum l2) in Hs.
    rewrite qsum_app.
    assert (E : qsum l1 + qsum l2 == Qabs lk).
    { rewrite (Qabs_neg lk) by (apply Qlt_le_weak; exact Hk).
      setoid_replace (qsum l1 + qsum l2) with ((qsum l1 + (lk + qsum l2)) - lk) by ring. rewrite Hs. ring. }
    rewrite E. field. exact Hn.
Qed.

Lemma forallb_qpos_all l : Forall (fun q => 0 < q) l -> forallb qpos l = true.
Proof.
  intro H. apply forallb_forall. rewrite Forall_forall in H. intros x Hx. apply qpos_true. auto.
Qed.

Lemma pow_errors : pow_errors_stmt.
Proof.
  intros dummy w lamb. split; [|split].
  - intro H. unfold pow_conic_form. apply Nat.eqb_neq in H. rewrite H. reflexivity.
  - intros H F. unfold pow_conic_form. rewrite H, Nat.eqb_refl. cbn [negb].
    rewrite (forallb_qpos_all lamb F). reflexivity.
  - intros H T. unfold pow_conic_form. rewrite H, Nat.eqb_refl. cbn [negb].
    destruct (forallb qpos lamb); [reflexivity|].
    assert (P : qpos (Qabs (qsum lamb) - pow_tol) = true).
    { apply qpos_true. apply Qlt_minus_iff in T. exact T. }
    rewrite P. reflexivity.
Qed.
