(* Proofs/RelaxSpec.v — statements of the C03 theorems: sig_relaxation gives valid lower bounds in
   primal and dual form, and primal <= dual (weak duality), by composition of the theorems about the
   symbolic algebra (C13), the moment-reduction helpers (C16) and the SAGE rows (C01, C02). *)
From Coq Require Import Reals List Bool Arith ZArith QArith Qreals Lra.
From SageVerif Require Import Math.RVec Model.Expr Model.Signomial Model.SymSig Model.SolverForms Model.SymCorr
                              Model.Compile Model.Sage Model.RelaxSig
                              Proofs.ExprSpec Proofs.SigSpec Proofs.FormsSpec Proofs.CompileSpec Proofs.SageSpec.
Import ListNotations.
Open Scope R_scope.

Definition fwf (n : nat) (f : qsig) : Prop := wfsig n f /\ rows_distinct f /\ f <> [].
Definition supp_ok (n : nat) (ms : option (list qrow)) : Prop :=
  match ms with
  | Some rows => rows <> [] /\ Forall (fun r => length r = n /\ on_grid_row r) rows
  | None => True
  end.

(* the modulator t^ell is positive everywhere *)
Definition modulator_pos_stmt : Prop :=
  forall n f g ms ell x, fwf n f -> supp_ok n ms -> length x = n ->
    0 < sig_evalR (modulator n f g ms ell) x.

(* the coefficient vector given to the primal SAGE cone denotes (f - gamma) * t^ell, for every gamma *)
Definition primal_coeffs_denote_stmt : Prop :=
  forall n f g ms ell rho x, fwf n f -> supp_ok n ms -> length x = n ->
    let L := sig_primal_m n f ell g ms in
    sigeval (aR (map fst L)) (cvals rho (map snd L)) x =
    (sig_evalR f x - rho g) * sig_evalR (modulator n (q_without_zeros n f) g ms ell) x.

(* PRIMAL FORM: every feasible point of the problem built by sig_primal has gamma <= f(x) on X,
   at every level ell, for every cover / settings / domain *)
Definition sig_primal_sound_stmt : Prop :=
  forall n lifted_n f g ms ell X covers ids st dummy bs rho,
    fwf n f -> supp_ok n ms ->
    let L := sig_primal_m n f ell g ms in
    primal_wf n lifted_n (map fst L) (map snd L) X covers ids ->
    primal_blocks n lifted_n (map fst L) (map snd L) X covers ids st dummy = Some bs ->
    blocks_sat rho bs ->
    forall z, in_X lifted_n X z -> rho g <= sig_evalR f (firstn n z).

(* DUAL FORM: for every x in X the scaled moment vector w = exp(alpha_L x) / t^ell(x) satisfies the
   normalisation a.w = 1 and has objective value obj.w = f(x); by C02 it satisfies the dual SAGE rows.
   Hence the dual problem is feasible whenever X is non-empty and its optimal value is <= f(x). *)
Definition moment_vec (alpha : list qrow) (s : R) (x : list R) : list R :=
  map (fun a => s * exp (dot (rowR a) x)) alpha.

Definition sig_dual_point_stmt : Prop :=
  forall n f g ms ell x, fwf n f -> supp_ok n ms -> length x = n ->
    let '(L, a, obj) := sig_dual_m n f ell g ms in
    let t := modulator n (q_without_zeros n f) g ms ell in
    rows_contained t (map fst L) = true ->
    rows_contained (q_mul n (q_without_zeros n f) t) (map fst L) = true ->
    let w := moment_vec (map fst L) (/ sig_evalR t x) x in
    dot (map Q2R a) w = 1 /\ dot (map Q2R obj) w = sig_evalR f x.

(* the Lagrangian's coefficients are  obj - gamma * a  in the basis of the modulated Lagrangian *)
Definition lagrangian_coeffs_stmt : Prop :=
  forall n f g ms ell rho, fwf n f -> supp_ok n ms ->
    let '(L, a, obj) := sig_dual_m n f ell g ms in
    let t := modulator n (q_without_zeros n f) g ms ell in
    rows_contained t (map fst L) = true ->
    rows_contained (q_mul n (q_without_zeros n f) t) (map fst L) = true ->
    length a = length L /\ length obj = length L /\
    forall j, (j < length L)%nat ->
      value rho (snd (nth j L ([], sconst 0%Q))) = Q2R (nth j obj 0%Q) - rho g * Q2R (nth j a 0%Q).

(* WEAK DUALITY: any primal-feasible gamma is at most any dual-feasible objective value *)
Definition sig_weak_duality_stmt : Prop :=
  forall n lifted_n f g ms ell X pcov pids pst dummy1 bs rho_p v dcov dids dst dummy2 rho_d,
    fwf n f -> supp_ok n ms ->
    let '(L, a, obj) := sig_dual_m n f ell g ms in
    let t := modulator n (q_without_zeros n f) g ms ell in
    rows_contained t (map fst L) = true ->
    rows_contained (q_mul n (q_without_zeros n f) t) (map fst L) = true ->
    primal_wf n lifted_n (map fst L) (map snd L) X pcov pids ->
    dual_wf n lifted_n (map fst L) v (Some (map snd L)) X dcov dids ->
    (forall i j, In i (UI (map snd L)) -> nth j (pcov i) false = true -> nth j (dcov i) false = true) ->
    primal_blocks n lifted_n (map fst L) (map snd L) X pcov pids pst dummy1 = Some bs ->
    blocks_sat rho_p bs ->
    blocks_sat rho_d (dual_blocks n lifted_n (map fst L) v (Some (map snd L)) X dcov dids dst dummy2) ->
    (* normalisation constraint a.v == 1 of the dual problem *)
    dot (map Q2R a) (cvals rho_d v) = 1 ->
    rho_p g <= dot (map Q2R obj) (cvals rho_d v).
