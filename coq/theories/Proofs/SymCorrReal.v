(* Proofs/SymCorrReal.v — real-valued part of the C16 proofs: characters, finite sums,
   the coefficient function of a term list, and the moment-reduction identity (builders' case). *)
From Coq Require Import Reals List Bool Arith ZArith QArith Qreals Lra Lia.
From SageVerif Require Import Math.RVec Model.Signomial Model.SolverForms Model.SymCorr
  Proofs.SigSpec Proofs.SymCorrSpec Proofs.SymCorrBase.
Import ListNotations.
Local Open Scope R_scope.

(* ------------------------------------------------------------------ *)
(* Q2R                                                                 *)
(* ------------------------------------------------------------------ *)
Lemma Q2R_Qred : forall q, Q2R (Qred q) = Q2R q.
Proof. intros q. apply Qeq_eqR. apply Qred_correct. Qed.

Lemma Q2R_zero : Q2R 0 = 0.
Proof. unfold Q2R. simpl. lra. Qed.

Lemma Q2R_qadd : forall a b, Q2R (qadd a b) = Q2R a + Q2R b.
Proof. intros. unfold qadd. rewrite Q2R_Qred. apply Q2R_plus. Qed.

Lemma Q2R_qmul : forall a b, Q2R (qmul a b) = Q2R a * Q2R b.
Proof. intros. unfold qmul. rewrite Q2R_Qred. apply Q2R_mult. Qed.

Lemma qiszero_Q2R : forall c, qiszero c = true -> Q2R c = 0.
Proof.
  intros c H. unfold qiszero in H. apply Qeq_bool_iff in H. rewrite (Qeq_eqR _ _ H). apply Q2R_zero.
Qed.

(* ------------------------------------------------------------------ *)
(* the signomial character                                             *)
(* ------------------------------------------------------------------ *)
Lemma rowR_eqb : forall a b, qrow_eqb a b = true -> rowR a = rowR b.
Proof.
  induction a as [|x a IH]; intros [|y b] H; simpl in H; try discriminate; auto.
  apply andb_true_iff in H as [H1 H2]. unfold rowR. cbn [map]. f_equal.
  - apply Qeq_eqR. apply Qeq_bool_iff. exact H1.
  - apply IH. exact H2.
Qed.

Lemma dot_vaddq : forall a b x, length a = length b ->
  dot (rowR (vaddq a b)) x = dot (rowR a) x + dot (rowR b) x.
Proof.
  induction a as [|u a IH]; intros [|v b] x H; simpl in H; try discriminate.
  - simpl. lra.
  - cbn [vaddq rowR map]. destruct x as [|w x]; cbn [dot]; [lra|].
    fold (rowR (vaddq a b)). fold (rowR a). fold (rowR b).
    rewrite IH by lia. rewrite Q2R_Qred, Q2R_plus. lra.
Qed.

Lemma sig_character_proof : sig_character_stmt.
Proof.
  intros n x Hx. split.
  - intros a b Ha Hb. rewrite dot_vaddq by congruence. apply exp_plus.
  - intros a b H. rewrite (rowR_eqb a b H). reflexivity.
Qed.

(* ------------------------------------------------------------------ *)
(* finite sums                                                         *)
(* ------------------------------------------------------------------ *)
Section Sums.
  Context {A : Type}.

  Lemma rsum_map_add : forall (F G : A -> R) l,
    rsum (map (fun x => F x + G x) l) = rsum (map F l) + rsum (map G l).
  Proof. induction l as [|x l IH]; simpl; [lra|]. unfold rsum in *. simpl. rewrite IH. lra. Qed.

  Lemma rsum_map_scal : forall (F : A -> R) c l,
    rsum (map (fun x => c * F x) l) = c * rsum (map F l).
  Proof. induction l as [|x l IH]; simpl; [unfold rsum; simpl; lra|]. unfold rsum in *. simpl. rewrite IH. lra. Qed.

  Lemma rsum_map_scal_r : forall (F : A -> R) c l,
    rsum (map (fun x => F x * c) l) = rsum (map F l) * c.
  Proof. induction l as [|x l IH]; simpl; [unfold rsum; simpl; lra|]. unfold rsum in *. simpl. rewrite IH. lra. Qed.

  Lemma rsum_map_ext : forall (F G : A -> R) l, (forall x, In x l -> F x = G x) ->
    rsum (map F l) = rsum (map G l).
  Proof. intros F G l H. f_equal. apply map_ext_in. exact H. Qed.

  Lemma rsum_map_zero : forall (F : A -> R) l, (forall x, In x l -> F x = 0) -> rsum (map F l) = 0.
  Proof.
    induction l as [|x l IH]; intros H; unfold rsum in *; simpl; auto.
    rewrite IH, H; simpl; auto; [lra|]. intros; apply H; simpl; auto.
  Qed.

  Lemma rsum_app : forall l1 l2 : list R, rsum (l1 ++ l2) = rsum l1 + rsum l2.
  Proof. induction l1 as [|x l IH]; intros; unfold rsum in *; simpl; [lra|]. rewrite IH. lra. Qed.
End Sums.

Lemma rsum_flat_map : forall (A B : Type) (F : B -> R) (g : A -> list B) l,
  rsum (map F (flat_map g l)) = rsum (map (fun x => rsum (map F (g x))) l).
Proof.
  induction l as [|x l IH]; simpl; auto. rewrite map_app, rsum_app, IH. reflexivity.
Qed.

Lemma rsum_swap : forall (A B : Type) (F : A -> B -> R) la lb,
  rsum (map (fun a => rsum (map (fun b => F a b) lb)) la) =
  rsum (map (fun b => rsum (map (fun a => F a b) la)) lb).
Proof.
  induction la as [|a la IH]; intros lb.
  - simpl. symmetry. apply rsum_map_zero. reflexivity.
  - cbn [map]. rewrite (rsum_map_add (fun b => F a b) (fun b => rsum (map (fun a0 => F a0 b) la))).
    rewrite <- IH. reflexivity.
Qed.

Lemma evalchi_rsum : forall chi f, evalchi chi f = rsum (map (fun t => Q2R (snd t) * chi (fst t)) f).
Proof. induction f as [|t f IH]; simpl; auto. unfold rsum in *. simpl. rewrite IH. reflexivity. Qed.

(* ------------------------------------------------------------------ *)
(* coefficient function of a term list                                 *)
(* ------------------------------------------------------------------ *)
Definition coefR (f : qsig) (r : qrow) : R :=
  rsum (map (fun t => if qrow_eqb (fst t) r then Q2R (snd t) else 0) f).

Lemma coefR_cons : forall t f r,
  coefR (t :: f) r = (if qrow_eqb (fst t) r then Q2R (snd t) else 0) + coefR f r.
Proof. reflexivity. Qed.

Lemma coefR_nomatch : forall f r, mem_row r (map fst f) = false -> coefR f r = 0.
Proof.
  intros f r H. unfold coefR. apply rsum_map_zero. intros t Ht.
  rewrite mem_row_false in H. rewrite qrow_eqb_sym, H; auto. apply in_map. exact Ht.
Qed.

Lemma coefR_congr : forall f r r', qrow_eqb r r' = true -> coefR f r = coefR f r'.
Proof.
  intros f r r' H. unfold coefR. apply rsum_map_ext. intros t _.
  rewrite (qrow_eqb_congr_r r r' _ H). reflexivity.
Qed.

Lemma query_coeff_coefR : forall g r, distinct (map fst g) -> Q2R (query_coeff g r) = coefR g r.
Proof.
  induction g as [|t g IH]; intros r Hd.
  - unfold query_coeff, coefR. simpl. apply Q2R_zero.
  - cbn [map distinct] in Hd. destruct Hd as [Ht Hd]. rewrite coefR_cons.
    unfold query_coeff. cbn [filter]. destruct (qrow_eqb (fst t) r) eqn:E.
    + rewrite coefR_nomatch; [destruct t; cbn [snd]; lra|].
      rewrite <- (mem_row_congr _ _ _ E). exact Ht.
    + fold (query_coeff g r). rewrite IH by auto. lra.
Qed.

(* Lsum chi F L = sum over the rows l of L of F l * chi l *)
Definition Lsum (chi : qrow -> R) (F : qrow -> R) (L : list qrow) : R :=
  rsum (map (fun l => F l * chi l) L).

Definition respects (chi : qrow -> R) : Prop := forall a b, qrow_eqb a b = true -> chi a = chi b.

Lemma single_sum : forall chi L r c, respects chi -> distinct L ->
  (mem_row r L = true \/ c = 0) ->
  Lsum chi (fun l => if qrow_eqb r l then c else 0) L = c * chi r.
Proof.
  intros chi L r c Hchi. unfold Lsum. induction L as [|x L IH]; intros Hd H.
  - destruct H as [H|H]; [discriminate|]. subst. unfold rsum. simpl. lra.
  - cbn [distinct] in Hd. destruct Hd as [Hx Hd]. cbn [map]. unfold rsum in *. cbn [fold_right].
    destruct (qrow_eqb r x) eqn:E.
    + rewrite (Hchi r x E).
      assert (Z : fold_right Rplus 0 (map (fun l => (if qrow_eqb r l then c else 0) * chi l) L) = 0).
      { apply (rsum_map_zero (fun l => (if qrow_eqb r l then c else 0) * chi l)). intros l Hl.
        rewrite (qrow_eqb_congr_l r x l E). rewrite mem_row_false in Hx. rewrite Hx by auto. lra. }
      rewrite Z. lra.
    + rewrite IH; auto; [lra|]. destruct H as [H|H]; auto. left.
      cbn [mem_row] in H. rewrite E in H. exact H.
Qed.

(* Claim A *)
Lemma Lsum_coefR : forall chi L f, respects chi -> distinct L ->
  (forall t, In t f -> mem_row (fst t) L = true \/ Q2R (snd t) = 0) ->
  Lsum chi (coefR f) L = evalchi chi f.
Proof.
  intros chi L f Hchi Hd. induction f as [|t f IH]; intros H.
  - unfold Lsum. simpl. apply rsum_map_zero. intros. unfold coefR, rsum. simpl. lra.
  - cbn [evalchi fold_right]. fold (evalchi chi f). rewrite <- IH by (intros; apply H; simpl; auto).
    rewrite <- (single_sum chi L (fst t) (Q2R (snd t)) Hchi Hd) by (apply H; simpl; auto).
    unfold Lsum. rewrite <- rsum_map_add. apply rsum_map_ext. intros l _.
    rewrite coefR_cons. lra.
Qed.

Lemma Lsum_ext : forall chi F G L, (forall l, In l L -> F l = G l) -> Lsum chi F L = Lsum chi G L.
Proof. intros. unfold Lsum. apply rsum_map_ext. intros l Hl. rewrite H; auto. Qed.

(* ------------------------------------------------------------------ *)
(* rows of C                                                           *)
(* ------------------------------------------------------------------ *)
Lemma combine_row_sum : forall chi (F : qrow -> Q) (L : qsig) (Ci : list Q),
  length Ci = length L ->
  (forall k, (k < length L)%nat -> nth k Ci 0%Q = F (nth k (map fst L) [])) ->
  fold_right Rplus 0 (map (fun cl => Q2R (fst cl) * chi (fst (snd cl))) (combine Ci L)) =
  Lsum chi (fun l => Q2R (F l)) (map fst L).
Proof.
  intros chi F. induction L as [|l L IH]; intros [|c Ci] Hlen Hn; simpl in Hlen; try discriminate.
  - reflexivity.
  - cbn [combine map fold_right]. unfold Lsum in *. cbn [map]. unfold rsum in *. cbn [fold_right fst snd].
    rewrite IH; [|lia|].
    + assert (H0 : c = F (fst l)) by (apply (Hn 0%nat); simpl; lia). rewrite H0. reflexivity.
    + intros k Hk. apply (Hn (S k)). simpl. lia.
Qed.

Lemma evalchi_shifted : forall n chi (h : qsig) a, character n chi -> wfsig n h -> length a = n -> on_grid_row a ->
  evalchi chi (shifted h a) = chi a * evalchi chi h.
Proof.
  intros n chi h a [Hmul Hresp] Hh Ha Hg. induction h as [|t h IH]; simpl; [lra|].
  inversion Hh as [|? ? [Ht Gt] Hh']; subst. fold (shifted h a). rewrite IH by auto.
  unfold qrow in *. rewrite (Hresp _ _ (round_row_on_grid_eqb _ (on_grid_vaddq _ _ Gt Hg))).
  rewrite Hmul by auto. lra.
Qed.

Lemma wfsig_distinct_ref : forall n (L : qsig), wfL n L ->
  distinct (map fst L) /\ Forall on_grid_row (map fst L).
Proof.
  intros n L [Hw Hd]. split; [apply rows_distinct_distinct; auto | eapply wfsig_rows_grid; eauto].
Qed.

(* a row of C summed against the basis is the restricted value of the shifted h *)
Lemma Crow_sum : forall n chi (h L : qsig) a, character n chi ->
  wfsig n h -> rows_distinct h -> wfL n L -> length a = n -> on_grid_row a ->
  fold_right Rplus 0 (map (fun cl => Q2R (fst cl) * chi (fst (snd cl)))
                          (combine (relative_coeff_vector (shift_sig h a) (map fst L)) L))
  = Lsum chi (coefR (shifted h a)) (map fst L).
Proof.
  intros n chi h L a Hchi Hh Hdh HL Ha Hg.
  destruct (wfsig_distinct_ref n L HL) as [HdL HgL].
  pose proof (rows_distinct_distinct h Hdh) as Hdh'.
  rewrite (shift_sig_shifted n h a) by auto.
  pose proof (distinct_shifted n h a Hh Hdh' Ha Hg) as Hds.
  pose proof (wfsig_rows_grid n _ (wfsig_shifted n h a Hh Ha)) as Hgs.
  destruct (rcv_placement_base (shifted h a) (map fst L) Hds Hgs HdL HgL) as [Hlen Hnth].
  rewrite map_length in Hlen, Hnth.
  rewrite (combine_row_sum chi (query_coeff (shifted h a)) L _ Hlen Hnth).
  apply Lsum_ext. intros l _. apply query_coeff_coefR. exact Hds.
Qed.

Lemma pairing_const : forall chi (s : qsig) cs E,
  pairing cs (map (fun t => chi (fst t) * E) s) = evalchi chi (with_coeffs s cs) * E.
Proof.
  intros chi. induction s as [|t s IH]; intros cs E.
  - destruct cs; unfold pairing, with_coeffs; simpl; lra.
  - destruct cs as [|c cs]; [unfold pairing, with_coeffs; simpl; lra|].
    unfold pairing, with_coeffs in *. cbn [map combine fold_right evalchi fst snd].
    rewrite IH. unfold evalchi. lra.
Qed.

(* every tested pair is present in L *)
Lemma symbolic_present : forall n (s h L : qsig) C a ca b cb,
  moment_reduction_array true n s h L = Ok C ->
  In (a, ca) s -> In (b, cb) h -> qiszero cb = false ->
  mem_row (round_row (vaddq a b)) (map fst L) = true.
Proof.
  intros n s h L C a ca b cb HC Ha Hb Hz. unfold moment_reduction_array in HC.
  destruct (forallb _ _) eqn:E; [|discriminate]. rewrite forallb_forall in E.
  pose proof (symbolic_rows_cover n s h a b ca cb Ha Hb Hz) as Hm.
  apply mem_row_ex in Hm as [r [Hr He]]. rewrite (mem_row_congr _ _ _ He). apply E. exact Hr.
Qed.

Lemma moment_reduction_identity_proof : moment_reduction_identity_stmt.
Proof.
  intros n chi s h L C Hchi Hs Hds Hh Hdh HL Hsne Hhne HC cs Hcs.
  assert (HCeq : C = map (fun t => relative_coeff_vector (shift_sig h (fst t)) (map fst L)) s).
  { unfold moment_reduction_array in HC. destruct (forallb _ _); [|discriminate]. inversion HC. reflexivity. }
  destruct (wfsig_distinct_ref n L HL) as [HdL HgL].
  assert (Hrows : rowsC C chi L = map (fun t => chi (fst t) * evalchi chi h) s).
  { rewrite HCeq. unfold rowsC. rewrite map_map. apply map_ext_in. intros t Ht.
    unfold wfsig in Hs. rewrite Forall_forall in Hs. destruct (Hs t Ht) as [Lt Gt].
    rewrite (Crow_sum n chi h L (fst t)) by auto.
    rewrite Lsum_coefR; [eapply evalchi_shifted; eauto | exact (proj2 Hchi) | exact HdL |].
    intros u Hu. unfold shifted in Hu. apply in_map_iff in Hu as [v [<- Hv]]. cbn [fst snd].
    destruct (qiszero (snd v)) eqn:Z; [right; apply qiszero_Q2R; exact Z | left].
    rewrite vaddq_comm. destruct t as [a ca]. destruct v as [b cb].
    eapply symbolic_present; eauto. }
  rewrite Hrows. rewrite pairing_const. reflexivity.
Qed.
