(* Proofs/SymSigBag.v — the generic model Model/Signomial.v over an arbitrary coefficient type C,
   evaluated through a semantic map phi : C -> R that is additive, at a character chi.
   The "bag lemma" (evaluation is invariant under regrouping by qrow_eqb classes), consolidate,
   the constructor, sums of lists, products and without_zeros.  Everything is stated inside one
   Section whose hypotheses are discharged in Proofs/SymSigOps.v with phi := value rho. *)
From Coq Require Import Reals List Bool Arith ZArith QArith Qreals Lra Lia.
From SageVerif Require Import Math.RVec Model.Signomial Proofs.SigSpec Proofs.SigLemmas Proofs.SigRound.
Import ListNotations.
Local Open Scope R_scope.

Section Gen.
  Context {C : Type}.
  Variables (czero : C) (cadd : C -> C -> C) (phi : C -> R) (chi : qrow -> R).
  Hypothesis phi_zero : phi czero = 0.
  Hypothesis phi_add : forall a b, phi (cadd a b) = phi a + phi b.
  Hypothesis chi_resp : forall a b, qrow_eqb a b = true -> chi a = chi b.

  Definition gev (f : list (qrow * C)) : R :=
    fold_right (fun t acc => phi (snd t) * chi (fst t) + acc) 0 f.
  Definition gbag (F : qrow -> R) (u : list qrow) : R :=
    fold_right (fun r acc => F r * chi r + acc) 0 u.
  Definition gcoef (f : list (qrow * C)) (r : qrow) : R := phi (csum czero cadd (coeffs_at r f)).
  Definition gwf (n : nat) (f : list (qrow * C)) : Prop :=
    Forall (fun t => length (fst t) = n /\ on_grid_row (fst t)) f.
  Definition grnd (f : list (qrow * C)) : list (qrow * C) := map (fun t => (round_row (fst t), snd t)) f.

  Lemma gev_nil : gev [] = 0.
  Proof. reflexivity. Qed.

  Lemma gev_cons : forall t f, gev (t :: f) = phi (snd t) * chi (fst t) + gev f.
  Proof. reflexivity. Qed.

  Lemma gev_app : forall f g, gev (f ++ g) = gev f + gev g.
  Proof.
    induction f; intros; simpl app.
    - rewrite gev_nil. lra.
    - rewrite !gev_cons, IHf. lra.
  Qed.

  Lemma gbag_cons : forall F r u, gbag F (r :: u) = F r * chi r + gbag F u.
  Proof. reflexivity. Qed.

  Lemma gbag_ext : forall F G u, (forall r, In r u -> F r = G r) -> gbag F u = gbag G u.
  Proof.
    induction u; intros H; auto. rewrite !gbag_cons, IHu, H; auto.
    - now left.
    - intros; apply H; now right.
  Qed.

  Lemma gbag_zero : forall F u, (forall r, In r u -> F r = 0) -> gbag F u = 0.
  Proof.
    induction u; intros H; auto. rewrite gbag_cons, IHu, H.
    - lra.
    - now left.
    - intros; apply H; now right.
  Qed.

  Lemma gbag_plus : forall F G u, gbag (fun r => F r + G r) u = gbag F u + gbag G u.
  Proof. induction u; [unfold gbag; simpl; lra|]. rewrite !gbag_cons, IHu. lra. Qed.

  Lemma gbag_single : forall a c u, NoDupR u -> mem_row a u = true ->
    gbag (fun r => if qrow_eqb a r then c else 0) u = c * chi a.
  Proof.
    induction u; intros Hn Hm; [discriminate|].
    inversion Hn; subst. rewrite gbag_cons. simpl in Hm.
    destruct (qrow_eqb a a0) eqn:E.
    - rewrite (chi_resp _ _ E). rewrite gbag_zero; [lra|].
      intros r Hr. rewrite (qrow_eqb_compat_l _ _ r E).
      rewrite (mem_row_false _ _ H1 r Hr). reflexivity.
    - simpl in Hm. rewrite IHu; auto. lra.
  Qed.

  Lemma phi_fold : forall l a,
    phi (fold_left cadd l a) = phi a + fold_right (fun c acc => phi c + acc) 0 l.
  Proof. induction l; intros; simpl; [lra|]. rewrite IHl, phi_add. lra. Qed.

  Lemma phi_csum : forall l, phi (csum czero cadd l) = fold_right (fun c acc => phi c + acc) 0 l.
  Proof. intros. unfold csum. rewrite phi_fold, phi_zero. lra. Qed.

  Lemma gcoef_nil : forall r, gcoef [] r = 0.
  Proof. intros. unfold gcoef. rewrite phi_csum. reflexivity. Qed.

  Lemma gcoef_cons : forall a c f r,
    gcoef ((a, c) :: f) r = (if qrow_eqb a r then phi c else 0) + gcoef f r.
  Proof.
    intros. unfold gcoef. rewrite !phi_csum. unfold coeffs_at. simpl.
    destruct (qrow_eqb a r); simpl; lra.
  Qed.

  (* the bag lemma: any duplicate-free cover of the rows computes the value *)
  Lemma gbag_eval : forall u f, NoDupR u ->
    (forall t, In t f -> mem_row (fst t) u = true) ->
    gev f = gbag (gcoef f) u.
  Proof.
    intros u f Hn. induction f as [|[a c] f IH]; intros Hc.
    - rewrite gbag_zero; [reflexivity|intros; apply gcoef_nil].
    - rewrite gev_cons, IH by (intros; apply Hc; now right).
      rewrite (gbag_ext (gcoef ((a, c) :: f)) (fun r => (if qrow_eqb a r then phi c else 0) + gcoef f r))
        by (intros; apply gcoef_cons).
      rewrite gbag_plus, gbag_single; auto.
      apply (Hc (a, c)). now left.
  Qed.

  Lemma gev_map_rows : forall (c : qrow -> C) u,
    gev (map (fun r => (r, c r)) u) = gbag (fun r => phi (c r)) u.
  Proof.
    induction u; auto. simpl map. rewrite gev_cons, gbag_cons, IHu. reflexivity.
  Qed.

  (* ------------------------------------------------------------------ *)
  (* consolidate *)
  Lemma gconsolidate_eval : forall g, gev (consolidate czero cadd g) = gev g.
  Proof.
    intros g. unfold consolidate.
    destruct (Nat.eqb _ _); auto.
    rewrite (gev_map_rows (fun r => csum czero cadd (coeffs_at r g))).
    symmetry. apply gbag_eval.
    - apply sort_unique_NoDupR.
    - intros t Ht. rewrite sort_unique_mem. apply mem_row_In. now apply in_map.
  Qed.

  Lemma gconsolidate_rows : forall (P : qrow -> Prop) g,
    Forall (fun t => P (fst t)) g -> Forall (fun t => P (fst t)) (consolidate czero cadd g).
  Proof.
    intros P g H. unfold consolidate.
    destruct (Nat.eqb _ _); auto.
    rewrite Forall_forall in *. intros t Ht. apply in_map_iff in Ht.
    destruct Ht as [r [<- Hr]]. simpl. apply sort_unique_In in Hr.
    apply in_map_iff in Hr. destruct Hr as [t' [<- Ht']]. auto.
  Qed.

  Lemma gconsolidate_nodup : forall g, NoDupR (map fst (consolidate czero cadd g)).
  Proof.
    intros g. unfold consolidate.
    destruct (Nat.eqb _ _) eqn:E.
    - apply Nat.eqb_eq in E. apply sort_unique_length_eq. now rewrite map_length.
    - rewrite map_map. simpl. rewrite map_id. apply sort_unique_NoDupR.
  Qed.

  Lemma gconsolidate_id : forall g, NoDupR (map fst g) -> consolidate czero cadd g = g.
  Proof.
    intros g H. unfold consolidate.
    apply sort_unique_length_nodup in H.
    rewrite map_length in H. rewrite H, Nat.eqb_refl. reflexivity.
  Qed.

  Lemma gconsolidate_nonempty : forall g, g <> [] -> consolidate czero cadd g <> [].
  Proof.
    intros g H. unfold consolidate.
    destruct (Nat.eqb _ _); auto.
    intros E. apply map_eq_nil in E. revert E. apply sort_unique_nonempty.
    destruct g; [congruence|discriminate].
  Qed.

  (* ------------------------------------------------------------------ *)
  (* the constructor *)
  Lemma gmk_unfold : forall f, mk czero cadd f = consolidate czero cadd (grnd f).
  Proof. reflexivity. Qed.

  Lemma grnd_wf : forall n f, Forall (fun t => length (fst t) = n) f -> gwf n (grnd f).
  Proof.
    intros n f H. unfold gwf, grnd. rewrite Forall_forall in *. intros t Ht.
    apply in_map_iff in Ht. destruct Ht as [t' [<- Ht']]. simpl. split.
    - rewrite round_row_length. auto.
    - apply on_grid_row_round.
  Qed.

  Lemma gwf_lengths : forall n f, gwf n f -> Forall (fun t => length (fst t) = n) f.
  Proof. intros n f H. unfold gwf in H. rewrite Forall_forall in *. intros t Ht. now apply H. Qed.

  Lemma grnd_eval_grid : forall n f, gwf n f -> gev (grnd f) = gev f.
  Proof.
    intros n f H. induction H as [|t f [_ Hg] Hf IH]; auto.
    unfold grnd in *. simpl map. rewrite !gev_cons, IH. cbn [fst snd].
    f_equal. f_equal. apply chi_resp. now apply round_row_eqb.
  Qed.

  Lemma grnd_mem_grid : forall n f r, gwf n f -> mem_row r (map fst (grnd f)) = mem_row r (map fst f).
  Proof.
    intros n f r H. induction H as [|t f [_ Hg] Hf IH]; auto.
    unfold grnd in *. simpl. rewrite IH. f_equal.
    apply qrow_eqb_compat_r. now apply round_row_eqb.
  Qed.

  Lemma grnd_nodup_grid : forall n f, gwf n f -> NoDupR (map fst f) -> NoDupR (map fst (grnd f)).
  Proof.
    intros n f H. induction H as [|t f [_ Hg] Hf IH]; auto.
    intros Hd. simpl in Hd. inversion Hd; subst.
    change (grnd (t :: f)) with ((round_row (fst t), snd t) :: grnd f).
    simpl. constructor; auto.
    rewrite (grnd_mem_grid n); auto.
    rewrite (mem_row_compat _ (fst t)); auto. now apply round_row_eqb.
  Qed.

  Lemma gmk_wf : forall n f, Forall (fun t => length (fst t) = n) f -> gwf n (mk czero cadd f).
  Proof.
    intros n f H. rewrite gmk_unfold.
    apply (gconsolidate_rows (fun r => length r = n /\ on_grid_row r)).
    apply (grnd_wf n f H).
  Qed.

  Lemma gmk_nodup : forall f, NoDupR (map fst (mk czero cadd f)).
  Proof. intros. rewrite gmk_unfold. apply gconsolidate_nodup. Qed.

  Lemma gmk_eval : forall f, gev (mk czero cadd f) = gev (grnd f).
  Proof. intros. rewrite gmk_unfold. apply gconsolidate_eval. Qed.

  Lemma gmk_nonempty : forall f, f <> [] -> mk czero cadd f <> [].
  Proof.
    intros f H. rewrite gmk_unfold. apply gconsolidate_nonempty.
    destruct f; [congruence|discriminate].
  Qed.

  Lemma gmk_id_grid : forall n f, gwf n f -> NoDupR (map fst f) -> mk czero cadd f = grnd f.
  Proof.
    intros n f H Hd. rewrite gmk_unfold. apply gconsolidate_id. now apply (grnd_nodup_grid n).
  Qed.

  Lemma gmk_eval_grid : forall n f, gwf n f -> gev (mk czero cadd f) = gev f.
  Proof. intros. rewrite gmk_eval. now apply (grnd_eval_grid n). Qed.

  Lemma gmk_wf_grid : forall n f, gwf n f -> gwf n (mk czero cadd f).
  Proof. intros. apply gmk_wf. now apply gwf_lengths. Qed.

  (* constants *)
  Lemma gwf_const : forall n (c : C), gwf n (const_sig n c).
  Proof.
    intros. constructor; [|constructor]. simpl. split.
    - apply repeat_length.
    - apply on_grid_row_zeros.
  Qed.

  Lemma gconst_eq : forall n (c : C), mk czero cadd (const_sig n c) = [(round_row (repeat 0%Q n), c)].
  Proof.
    intros. rewrite (gmk_id_grid n).
    - reflexivity.
    - apply gwf_const.
    - simpl. constructor; [reflexivity|constructor].
  Qed.

  Lemma gconst_eval : forall n c, gev (mk czero cadd (const_sig n c)) = phi c * chi (repeat 0%Q n).
  Proof.
    intros. rewrite (gmk_eval_grid n) by apply gwf_const.
    unfold const_sig, gev. simpl. lra.
  Qed.

  Lemma gconst_wf : forall n c, gwf n (mk czero cadd (const_sig n c)).
  Proof. intros. apply gmk_wf_grid, gwf_const. Qed.

  Lemma gconst_nonempty : forall n (c : C), mk czero cadd (const_sig n c) <> [].
  Proof. intros. rewrite gconst_eq. discriminate. Qed.

  (* ------------------------------------------------------------------ *)
  (* sums of lists *)
  Definition gsum_rows (fs : list (list (qrow * C))) : list qrow := first_seen (concat (map (map fst) fs)).
  Definition gsum_raw (fs : list (list (qrow * C))) : list (qrow * C) :=
    map (fun r => (r, csum czero cadd (map (fun f => csum czero cadd (coeffs_at r f)) fs))) (gsum_rows fs).

  Definition gsumev (fs : list (list (qrow * C))) : R := fold_right (fun f acc => gev f + acc) 0 fs.

  Lemma gsum_cases : forall fs, (exists f, fs = [f] /\ sig_sum czero cadd fs = f) \/
                                sig_sum czero cadd fs = mk czero cadd (gsum_raw fs).
  Proof.
    intros [|f [|g fs]].
    - right. reflexivity.
    - left. exists f. auto.
    - right. reflexivity.
  Qed.

  Lemma gsum_rows_In : forall fs r, In r (gsum_rows fs) -> exists f t, In f fs /\ In t f /\ fst t = r.
  Proof.
    intros fs r H. unfold gsum_rows in H. apply first_seen_In in H.
    apply in_concat in H. destruct H as [l [Hl Hr]]. apply in_map_iff in Hl.
    destruct Hl as [f [<- Hf]]. apply in_map_iff in Hr. destruct Hr as [t [<- Ht]].
    exists f, t. auto.
  Qed.

  Lemma gsum_rows_cover : forall fs f t, In f fs -> In t f -> mem_row (fst t) (gsum_rows fs) = true.
  Proof.
    intros fs f t Hf Ht. unfold gsum_rows. rewrite first_seen_mem. apply mem_row_In.
    apply in_concat. exists (map fst f). split; apply in_map; auto.
  Qed.

  Lemma gsum_raw_wf : forall n fs, Forall (gwf n) fs -> gwf n (gsum_raw fs).
  Proof.
    intros n fs H. unfold gwf, gsum_raw. rewrite Forall_forall. intros t Ht.
    apply in_map_iff in Ht. destruct Ht as [r [<- Hr]]. simpl.
    apply gsum_rows_In in Hr. destruct Hr as [f [t [Hf [Ht <-]]]].
    rewrite Forall_forall in H. specialize (H f Hf). unfold gwf in H. rewrite Forall_forall in H. auto.
  Qed.

  Lemma gbag_sum_list : forall u (fs : list (list (qrow * C))),
    gbag (fun r => fold_right (fun f acc => gcoef f r + acc) 0 fs) u
    = fold_right (fun f acc => gbag (gcoef f) u + acc) 0 fs.
  Proof.
    intros u fs. induction fs as [|f fs IH]; simpl.
    - apply gbag_zero. auto.
    - rewrite gbag_plus, IH. reflexivity.
  Qed.

  Lemma gsum_raw_eval : forall fs, gev (gsum_raw fs) = gsumev fs.
  Proof.
    intros fs. unfold gsum_raw.
    rewrite (gev_map_rows (fun r => csum czero cadd (map (fun f => csum czero cadd (coeffs_at r f)) fs))).
    rewrite (gbag_ext _ (fun r => fold_right (fun f acc => gcoef f r + acc) 0 fs)).
    2:{ intros r _. rewrite phi_csum. clear. induction fs; simpl; auto. rewrite IHfs. reflexivity. }
    rewrite gbag_sum_list. unfold gsumev.
    assert (G : forall gs, (forall f, In f gs -> In f fs) ->
              fold_right (fun f acc => gbag (gcoef f) (gsum_rows fs) + acc) 0 gs
              = fold_right (fun f acc => gev f + acc) 0 gs).
    { induction gs as [|g gs IH]; intros Hin; simpl; auto.
      rewrite IH by (intros; apply Hin; now right).
      rewrite <- (gbag_eval (gsum_rows fs) g); auto.
      - apply first_seen_NoDupR.
      - intros t Ht. apply (gsum_rows_cover fs g); auto. apply Hin. now left. }
    apply G. auto.
  Qed.

  Lemma gsum_raw_nonempty : forall fs, (exists f, In f fs /\ f <> []) -> gsum_raw fs <> [].
  Proof.
    intros fs [f [Hf Hne]] E. unfold gsum_raw in E. apply map_eq_nil in E. revert E.
    apply first_seen_nonempty. destruct f as [|t f]; [congruence|].
    intros E. assert (In (fst t) (concat (map (map fst) fs))).
    { apply in_concat. exists (map fst (t :: f)). split; [now apply in_map|now left]. }
    rewrite E in H. contradiction.
  Qed.

  Lemma gsum_eval : forall n fs, Forall (gwf n) fs -> gev (sig_sum czero cadd fs) = gsumev fs.
  Proof.
    intros n fs H. destruct (gsum_cases fs) as [[f [-> ->]]| ->].
    - unfold gsumev. simpl. lra.
    - rewrite (gmk_eval_grid n); [apply gsum_raw_eval|now apply gsum_raw_wf].
  Qed.

  Lemma gsum_wf : forall n fs, Forall (gwf n) fs -> gwf n (sig_sum czero cadd fs).
  Proof.
    intros n fs H. destruct (gsum_cases fs) as [[f [-> ->]]| ->].
    - now inversion H.
    - apply gmk_wf_grid. now apply gsum_raw_wf.
  Qed.

  Lemma gsum_nonempty : forall fs, fs <> [] -> Forall (fun f => f <> []) fs -> sig_sum czero cadd fs <> [].
  Proof.
    intros fs Hne H. destruct (gsum_cases fs) as [[f [-> ->]]| ->].
    - now inversion H.
    - apply gmk_nonempty, gsum_raw_nonempty. destruct fs as [|f fs]; [congruence|].
      exists f. split; [now left|now inversion H].
  Qed.

  Lemma gsum_nodup2 : forall f g, NoDupR (map fst (sig_sum czero cadd [f; g])).
  Proof. intros. apply gmk_nodup. Qed.

  (* ------------------------------------------------------------------ *)
  (* without_zeros *)
  Variables (cofq : Q -> C) (ciszero : C -> bool).
  Hypothesis iszero_phi : forall c, ciszero c = true -> phi c = 0.
  Hypothesis cofq0_phi : phi (cofq 0%Q) = 0.

  Definition gnz (t : qrow * C) : bool := negb (ciszero (snd t)).
  Notation gwz := (without_zeros czero cadd cofq ciszero).

  Lemma gfilter_length_le : forall {A} (p : A -> bool) l, (length (filter p l) <= length l)%nat.
  Proof. induction l; simpl; auto. destruct (p a); simpl; lia. Qed.

  Lemma gfilter_length_all : forall {A} (p : A -> bool) l,
    length (filter p l) = length l -> Forall (fun a => p a = true) l.
  Proof.
    induction l; simpl; intros H; [constructor|].
    pose proof (gfilter_length_le p l). destruct (p a) eqn:E; simpl in H; [|lia].
    constructor; auto.
  Qed.

  Lemma gev_filter_nz : forall f, gev (filter gnz f) = gev f.
  Proof.
    induction f as [|t f IH]; auto. simpl filter. unfold gnz at 1.
    destruct (ciszero (snd t)) eqn:E; simpl negb; rewrite !gev_cons, ?IH; auto.
    rewrite (iszero_phi _ E). lra.
  Qed.

  Lemma gwf_filter : forall m p f, gwf m f -> gwf m (filter p f).
  Proof.
    intros m p f H. unfold gwf in *. rewrite Forall_forall in *. intros t Ht.
    apply filter_In in Ht. apply H. tauto.
  Qed.

  Lemma gmem_row_filter : forall r p (f : list (qrow * C)),
    mem_row r (map fst f) = false -> mem_row r (map fst (filter p f)) = false.
  Proof.
    induction f; simpl; auto. intros H. apply orb_false_iff in H. destruct H.
    destruct (p a); simpl; auto. rewrite H, IHf; auto.
  Qed.

  Lemma gnodup_filter : forall p (f : list (qrow * C)), NoDupR (map fst f) -> NoDupR (map fst (filter p f)).
  Proof.
    induction f; simpl; auto. intros H. inversion H; subst.
    destruct (p a); auto. simpl. constructor; auto. now apply gmem_row_filter.
  Qed.

  Lemma gwz_cases : forall m f,
    (gwz m f = f /\ ((exists t, f = [t]) \/ Forall (fun t => ciszero (snd t) = false) f)) \/
    (filter gnz f = [] /\ (2 <= length f)%nat /\ gwz m f = mk czero cadd (const_sig m (cofq 0%Q))) \/
    (filter gnz f <> [] /\ (2 <= length f)%nat /\ gwz m f = mk czero cadd (filter gnz f)).
  Proof.
    intros m f. destruct f as [|t [|t' f']].
    - left. split; auto.
    - left. split; auto. left. eauto.
    - unfold without_zeros.
      change (filter (fun t0 : qrow * C => negb (ciszero (snd t0))) (t :: t' :: f'))
        with (filter gnz (t :: t' :: f')).
      destruct (Nat.eqb _ _) eqn:E.
      + left. split; auto. right. apply Nat.eqb_eq in E. apply gfilter_length_all in E.
        rewrite Forall_forall in *. intros u Hu.
        specialize (E u Hu). unfold gnz in E. now apply negb_true_iff in E.
      + right. destruct (filter gnz (t :: t' :: f')) eqn:K.
        * left. split; auto. split; auto. simpl. lia.
        * right. split; [discriminate|]. split; [simpl; lia|reflexivity].
  Qed.

  Lemma gwz_eval : forall m f, gwf m f -> gev (gwz m f) = gev f.
  Proof.
    intros m f H. destruct (gwz_cases m f) as [[-> _]|[[K [_ ->]]|[K [_ ->]]]]; auto.
    - rewrite gconst_eval, <- (gev_filter_nz f), K, cofq0_phi. unfold gev. simpl. lra.
    - rewrite (gmk_eval_grid m) by (now apply gwf_filter). apply gev_filter_nz.
  Qed.

  Lemma gwz_wf : forall m f, gwf m f -> gwf m (gwz m f).
  Proof.
    intros m f H. destruct (gwz_cases m f) as [[-> _]|[[K [_ ->]]|[K [_ ->]]]]; auto.
    - apply gconst_wf.
    - apply gmk_wf_grid. now apply gwf_filter.
  Qed.

  Lemma gwz_nonempty : forall m f, f <> [] -> gwz m f <> [].
  Proof.
    intros m f H. destruct (gwz_cases m f) as [[-> _]|[[K [_ ->]]|[K [_ ->]]]]; auto.
    - apply gconst_nonempty.
    - now apply gmk_nonempty.
  Qed.

  Lemma gwz_nodup : forall m f, NoDupR (map fst f) -> NoDupR (map fst (gwz m f)).
  Proof.
    intros m f H. destruct (gwz_cases m f) as [[-> _]|[[K [_ ->]]|[K [_ ->]]]]; auto; apply gmk_nodup.
  Qed.

  (* the terms of the result, when the rows of the operand are pairwise distinct *)
  Lemma gwz_terms : forall m f, gwf m f -> NoDupR (map fst f) ->
    forall t, In t (gwz m f) -> (2 <= length f)%nat ->
      (ciszero (snd t) = false /\
       exists t', In t' f /\ (t = t' \/ t = (round_row (fst t'), snd t'))) \/
      gwz m f = mk czero cadd (const_sig m (cofq 0%Q)).
  Proof.
    intros m f Hw Hd t Ht Hlen.
    destruct (gwz_cases m f) as [[E Hc]|[[K [_ E]]|[K [_ E]]]].
    - left. rewrite E in Ht. destruct Hc as [[u ->]|Hc]; [simpl in Hlen; lia|].
      rewrite Forall_forall in Hc. split; auto. exists t. auto.
    - right. exact E.
    - left. rewrite E in Ht. rewrite (gmk_id_grid m) in Ht.
      + unfold grnd in Ht. apply in_map_iff in Ht. destruct Ht as [t' [<- Ht']].
        apply filter_In in Ht'. destruct Ht' as [Hin Hnz]. simpl. split.
        * unfold gnz in Hnz. now apply negb_true_iff in Hnz.
        * exists t'. auto.
      + now apply gwf_filter.
      + now apply gnodup_filter.
  Qed.

  (* ------------------------------------------------------------------ *)
  (* product *)
  Variable n : nat.
  Hypothesis chi_mult : forall a b, length a = n -> length b = n -> chi (vaddq a b) = chi a * chi b.
  Variable cmul : C -> C -> C.

  Definition gprod_row (t2 : qrow * C) (f : list (qrow * C)) : list (qrow * C) :=
    map (fun t1 => (round_row (vaddq (fst t1) (fst t2)), cmul (snd t1) (snd t2))) f.
  Definition gprod_raw (f g : list (qrow * C)) : list (qrow * C) := flat_map (fun t2 => gprod_row t2 f) g.

  Lemma gprod_unfold : forall f g, sig_product czero cadd cmul f g = mk czero cadd (gprod_raw f g).
  Proof. reflexivity. Qed.

  Lemma gvaddq_length : forall a b, length a = length b -> length (vaddq a b) = length a.
  Proof. induction a; destruct b; simpl; intros H; try discriminate; auto. Qed.

  Lemma gprod_row_wf : forall t2 f, gwf n f -> length (fst t2) = n -> gwf n (gprod_row t2 f).
  Proof.
    intros t2 f H Hl. unfold gwf, gprod_row in *. rewrite Forall_forall in *. intros t Ht.
    apply in_map_iff in Ht. destruct Ht as [t1 [<- Ht1]]. simpl. split.
    - destruct (H t1 Ht1) as [L1 _]. rewrite round_row_length, gvaddq_length; [exact L1|].
      transitivity n; [exact L1|symmetry; exact Hl].
    - apply on_grid_row_round.
  Qed.

  Lemma gprod_raw_wf : forall f g, gwf n f -> gwf n g -> gwf n (gprod_raw f g).
  Proof.
    intros f g Hf Hg. unfold gprod_raw. induction Hg as [|t2 g [Hl _] Hg IH]; [constructor|].
    simpl. apply Forall_app. split; auto. now apply gprod_row_wf.
  Qed.

  Lemma gprod_row_eval : forall t2 f, gwf n f -> length (fst t2) = n -> on_grid_row (fst t2) ->
    (forall t1, In t1 f -> phi (cmul (snd t1) (snd t2)) = phi (snd t1) * phi (snd t2)) ->
    gev (gprod_row t2 f) = gev f * (phi (snd t2) * chi (fst t2)).
  Proof.
    intros t2 f H Hl Hg. induction H as [|t1 f [Hl1 Hg1] Hf IH]; intros Hm.
    - unfold gev. simpl. lra.
    - unfold gprod_row in *. simpl map. rewrite !gev_cons, IH by (intros; apply Hm; now right).
      cbn [fst snd].
      assert (E1 : chi (round_row (vaddq (fst t1) (fst t2))) = chi (fst t1) * chi (fst t2)).
      { transitivity (chi (vaddq (fst t1) (fst t2))).
        - apply chi_resp, round_row_eqb. now apply on_grid_row_vaddq.
        - apply chi_mult; auto. }
      assert (E2 := Hm t1 (or_introl eq_refl)).
      etransitivity.
      { apply f_equal2; [apply f_equal2; [exact E2 | exact E1] | reflexivity]. }
      unfold qrow. ring.
  Qed.

  Lemma gprod_raw_eval : forall f g, gwf n f -> gwf n g ->
    (forall t1 t2, In t1 f -> In t2 g -> phi (cmul (snd t1) (snd t2)) = phi (snd t1) * phi (snd t2)) ->
    gev (gprod_raw f g) = gev f * gev g.
  Proof.
    intros f g Hf Hg. unfold gprod_raw. induction Hg as [|t2 g [Hl Hgr] Hg IH]; intros Hm.
    - unfold gev. simpl. lra.
    - simpl flat_map. rewrite gev_app, IH, gprod_row_eval, gev_cons; auto.
      + unfold qrow. ring.
      + intros. apply Hm; auto. now left.
      + intros. apply Hm; auto. now right.
  Qed.

  Lemma gprod_raw_nonempty : forall f g, f <> [] -> g <> [] -> gprod_raw f g <> [].
  Proof. intros [|t1 f] [|t2 g] Hf Hg; try congruence. discriminate. Qed.

  Lemma gprod_eval : forall f g, gwf n f -> gwf n g ->
    (forall t1 t2, In t1 f -> In t2 g -> phi (cmul (snd t1) (snd t2)) = phi (snd t1) * phi (snd t2)) ->
    gev (sig_product czero cadd cmul f g) = gev f * gev g.
  Proof.
    intros. rewrite gprod_unfold, (gmk_eval_grid n); [now apply gprod_raw_eval|now apply gprod_raw_wf].
  Qed.

  Lemma gprod_wf : forall f g, gwf n f -> gwf n g -> gwf n (sig_product czero cadd cmul f g).
  Proof. intros. rewrite gprod_unfold. apply gmk_wf_grid. now apply gprod_raw_wf. Qed.

  Lemma gprod_nonempty : forall f g, f <> [] -> g <> [] -> sig_product czero cadd cmul f g <> [].
  Proof. intros. rewrite gprod_unfold. apply gmk_nonempty. now apply gprod_raw_nonempty. Qed.

  (* ------------------------------------------------------------------ *)
  (* derived operations *)
  Lemma gadd_unfold : forall m f g,
    sig_add czero cadd cofq ciszero m f g = gwz m (sig_sum czero cadd [f; g]).
  Proof. reflexivity. Qed.

  Lemma gadd_eval : forall m f g, gwf m f -> gwf m g ->
    gev (sig_add czero cadd cofq ciszero m f g) = gev f + gev g.
  Proof.
    intros m f g Hf Hg. rewrite gadd_unfold, gwz_eval.
    - rewrite (gsum_eval m) by (repeat constructor; auto). unfold gsumev. simpl. lra.
    - apply gsum_wf. repeat constructor; auto.
  Qed.

  Lemma gadd_wf : forall m f g, gwf m f -> gwf m g -> gwf m (sig_add czero cadd cofq ciszero m f g).
  Proof. intros. rewrite gadd_unfold. apply gwz_wf, gsum_wf. repeat constructor; auto. Qed.

  Lemma gadd_nonempty : forall m f g, f <> [] -> g <> [] -> sig_add czero cadd cofq ciszero m f g <> [].
  Proof.
    intros. rewrite gadd_unfold. apply gwz_nonempty, gsum_nonempty; [discriminate|].
    repeat constructor; auto.
  Qed.

  Lemma gmul_unfold : forall f g,
    sig_mul czero cadd cmul cofq ciszero n f g = gwz n (sig_product czero cadd cmul f g).
  Proof. reflexivity. Qed.

  Lemma gmul_eval : forall f g, gwf n f -> gwf n g ->
    (forall t1 t2, In t1 f -> In t2 g -> phi (cmul (snd t1) (snd t2)) = phi (snd t1) * phi (snd t2)) ->
    gev (sig_mul czero cadd cmul cofq ciszero n f g) = gev f * gev g.
  Proof.
    intros f g Hf Hg Hm. rewrite gmul_unfold, gwz_eval; [now apply gprod_eval|now apply gprod_wf].
  Qed.

  Lemma gmul_wf : forall f g, gwf n f -> gwf n g -> gwf n (sig_mul czero cadd cmul cofq ciszero n f g).
  Proof. intros. rewrite gmul_unfold. apply gwz_wf. now apply gprod_wf. Qed.

  Lemma gmul_nonempty : forall f g, f <> [] -> g <> [] -> sig_mul czero cadd cmul cofq ciszero n f g <> [].
  Proof. intros. rewrite gmul_unfold. apply gwz_nonempty. now apply gprod_nonempty. Qed.
End Gen.
