(* Proofs/MathProofs.v — re-exports the proofs of every statement of Proofs/MathSpec.v. *)
From SageVerif Require Export Math.RVec Proofs.MathSpec Proofs.MathVec Proofs.MathExp
  Proofs.MathCones Proofs.MathAge.

(* one proof per statement of MathSpec.v *)
Lemma all_math_stmts_proved :
  kexp_fenchel_stmt /\ kexp_second_nonneg_stmt /\ kexp_scale_stmt /\ kexp_dual_pair_stmt /\
  exp_epi_iff_stmt /\ relent_epi_iff_stmt /\ soc_epi_iff_stmt /\
  in_K_length_stmt /\ in_K_scale_stmt /\ dualK_pair_stmt /\ tmv_dot_stmt /\
  age_cert_nonneg_stmt /\ age_cert_nonneg_ord_stmt /\ age_cover_nonneg_stmt /\
  dual_moment_row_stmt /\ dual_moment_domain_stmt /\ age_pairing_stmt.
Proof.
  exact (conj kexp_fenchel (conj kexp_second_nonneg (conj kexp_scale (conj kexp_dual_pair
  (conj exp_epi_iff (conj relent_epi_iff (conj soc_epi_iff
  (conj in_K_length (conj in_K_scale (conj dualK_pair (conj tmv_dot
  (conj age_cert_nonneg (conj age_cert_nonneg_ord (conj age_cover_nonneg
  (conj dual_moment_row (conj dual_moment_domain age_pairing)))))))))))))))).
Qed.
