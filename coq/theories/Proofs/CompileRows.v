(* Proofs/CompileRows.v — C07, part 1: values of sparse rows over ids (qe coefficients a + b*e),
   canonical rows, sorted id columns and index_of. *)
From Coq Require Import Reals List Bool Arith ZArith QArith Qreals Lra Lia.
From SageVerif Require Import Math.RVec Model.Expr Model.SolverForms Model.Compile
  Proofs.ExprSpec Proofs.FormsSpec Proofs.CompileSpec Proofs.ExprAtoms.
Import ListNotations.
Open Scope R_scope.

(* ------------------------------------------------------------------ coefficients a + b*e *)
Lemma qe_val_of : forall q, qe_val (qe_of q) = Q2R q.
Proof. intros q. unfold qe_val, qe_of; cbn [fst snd]. rewrite EQ2R_Qred, EQ2R_0. lra. Qed.

Lemma qe_val_add : forall x y, qe_val (qe_add x y) = qe_val x + qe_val y.
Proof.
  intros [a b] [c d]. unfold qe_val, qe_add; cbn [fst snd]. rewrite !EQ2R_Qred, !Q2R_plus. lra.
Qed.

Lemma qe_iszero_val : forall x, qe_iszero x = true -> qe_val x = 0.
Proof.
  intros [a b] H. unfold qe_iszero in H; simpl in H. apply andb_prop in H as [H1 H2].
  unfold qe_val; simpl. rewrite (Qeq_bool_0_Q2R _ H1), (Qeq_bool_0_Q2R _ H2). lra.
Qed.

Lemma qe_val_e : forall a, qe_val (0%Q, a) = exp 1 * Q2R a.
Proof. intros a. unfold qe_val; simpl. rewrite EQ2R_0. lra. Qed.

(* ------------------------------------------------------------------ rows *)
Definition esum (rho : env) (l : list (Z * qe)) : R :=
  rsumf (fun ic => qe_val (snd ic) * rho (fst ic)) l.

Lemma rrow_val_eq : forall rho r, rrow_val rho r = esum rho (fst r) + qe_val (snd r).
Proof. reflexivity. Qed.

Lemma rrow_val_pair : forall rho l b, rrow_val rho (l, b) = esum rho l + qe_val b.
Proof. reflexivity. Qed.

Lemma esum_cons : forall rho ic l, esum rho (ic :: l) = qe_val (snd ic) * rho (fst ic) + esum rho l.
Proof. reflexivity. Qed.

Lemma esum_nil : forall rho, esum rho [] = 0.
Proof. reflexivity. Qed.

(* ------------------------------------------------------------------ sorted insertion *)
Inductive ssorted : list Z -> Prop :=
| ss_nil : ssorted []
| ss_cons : forall x l, (forall y, In y l -> (x < y)%Z) -> ssorted l -> ssorted (x :: l).

Lemma insertZ_In : forall x l y, In y (insertZ x l) <-> y = x \/ In y l.
Proof.
  intros x l y. induction l as [|z l IH]; simpl.
  - intuition.
  - destruct (Z.eqb_spec x z) as [->|Hne].
    + simpl. intuition.
    + destruct (x <? z)%Z; simpl; [intuition|]. rewrite IH. intuition.
Qed.

Lemma insertZ_sorted : forall x l, ssorted l -> ssorted (insertZ x l).
Proof.
  intros x l H. induction H as [|z l Hz Hl IH]; simpl.
  - constructor; [intros y []|constructor].
  - destruct (Z.eqb_spec x z) as [->|Hne]; [now constructor|].
    destruct (Z.ltb_spec x z) as [Hlt|Hge].
    + constructor; [|now constructor].
      intros y [<-|Hy]; auto. specialize (Hz y Hy). lia.
    + constructor; auto.
      intros y Hy. apply insertZ_In in Hy as [->|Hy]; [lia | auto].
Qed.

Lemma ssorted_NoDup : forall l, ssorted l -> NoDup l.
Proof.
  induction 1 as [|x l Hx Hl IH]; constructor; auto.
  intros Hin. specialize (Hx x Hin). lia.
Qed.

Lemma ssorted_strict : forall l, ssorted l -> strictly_sorted l.
Proof.
  induction 1 as [|x l Hx Hl IH]; intros i j Hij Hj; simpl in Hj; [lia|].
  destruct j as [|j]; [lia|]. destruct i as [|i]; simpl.
  - apply Hx. apply nth_In. lia.
  - apply IH; lia.
Qed.

Section FoldInsert.
  Context {A : Type} (f : A -> Z).
  Lemma fold_insert_In : forall l acc y,
    In y (fold_left (fun acc a => insertZ (f a) acc) l acc) <-> In y acc \/ In y (map f l).
  Proof.
    induction l as [|a l IH]; simpl; intros acc y; [intuition|].
    rewrite IH, insertZ_In. intuition.
  Qed.
  Lemma fold_insert_sorted : forall l acc, ssorted acc ->
    ssorted (fold_left (fun acc a => insertZ (f a) acc) l acc).
  Proof.
    induction l as [|a l IH]; simpl; intros acc H; auto. apply IH. now apply insertZ_sorted.
  Qed.
End FoldInsert.

(* ------------------------------------------------------------------ canonical rows *)
Definition cR (i : Z) (l : list (Z * qe)) : R :=
  rsumf (fun ic => if Z.eqb (fst ic) i then qe_val (snd ic) else 0) l.

Lemma canon_coeff_val : forall i l s,
  qe_val (fold_left (fun s ic => if Z.eqb (fst ic) i then qe_add s (snd ic) else s) l s)
  = qe_val s + cR i l.
Proof.
  intros i. induction l as [|ic l IH]; intros s; simpl; [unfold cR; simpl; lra|].
  rewrite IH. unfold cR; simpl. destruct (Z.eqb (fst ic) i); [rewrite qe_val_add|]; lra.
Qed.

Lemma pick_single : forall (rho : env) a c ids, NoDup ids -> In a ids ->
  rsumf (fun i => (if Z.eqb a i then c else 0) * rho i) ids = c * rho a.
Proof.
  intros rho a c ids H. induction H as [|i ids Hi Hn IH]; intros Ha; [destruct Ha|].
  simpl. destruct Ha as [->|Ha].
  - rewrite Z.eqb_refl. rewrite rsumf_zero; [lra|].
    intros j Hj. destruct (Z.eqb_spec a j) as [->|]; [contradiction | lra].
  - destruct (Z.eqb_spec a i) as [->|]; [contradiction|]. rewrite IH; auto. lra.
Qed.

Lemma regroup_ids : forall (rho : env) ids, NoDup ids -> forall l,
  (forall ic, In ic l -> In (fst ic) ids) ->
  rsumf (fun i => cR i l * rho i) ids = esum rho l.
Proof.
  intros rho ids Hn. induction l as [|ic l IH]; intros Hc.
  - unfold cR; simpl. apply rsumf_zero. intros; lra.
  - rewrite esum_cons, <- IH by (intros; apply Hc; now right).
    rewrite <- (pick_single rho (fst ic) (qe_val (snd ic)) ids Hn) by (apply Hc; now left).
    rewrite <- rsumf_plus. apply rsumf_ext. intros i _. unfold cR; simpl.
    destruct (Z.eqb (fst ic) i); lra.
Qed.

Lemma canon_row_val : canon_row_val_stmt.
Proof.
  intros rho [l b]. unfold canon_row. rewrite !rrow_val_pair. simpl fst; simpl snd. f_equal.
  unfold esum at 1. rewrite rsumf_filter.
  2:{ intros [i c] _ H. simpl in *. apply negb_false_iff in H. rewrite (qe_iszero_val _ H). lra. }
  rewrite rsumf_map. simpl.
  set (ids := fold_left (fun acc ic => insertZ (fst ic) acc) l []).
  rewrite <- (regroup_ids rho ids).
  - apply rsumf_ext. intros i _. rewrite canon_coeff_val, qe_val_of, EQ2R_0. lra.
  - apply ssorted_NoDup. apply (fold_insert_sorted (A:=Z*qe) (@fst Z qe)). constructor.
  - intros ic Hic. apply (fold_insert_In (A:=Z*qe) (@fst Z qe)). right. now apply in_map.
Qed.

(* ------------------------------------------------------------------ sorted_ids, index_of *)
Lemma sorted_ids_acc : forall rows acc,
  fold_left (fun acc r => fold_left (fun acc2 ic => insertZ (fst ic) acc2) (fst r) acc) rows acc
  = fold_left (fun acc (ic : Z * qe) => insertZ (fst ic) acc) (flat_map (@fst (list (Z*qe)) qe) rows) acc.
Proof.
  induction rows as [|r rows IH]; intros acc; simpl; auto.
  rewrite fold_left_app. apply IH.
Qed.

Lemma sorted_ids_eq : forall rows : list rrow,
  sorted_ids rows = fold_left (fun acc (ic : Z * qe) => insertZ (fst ic) acc) (flat_map (@fst (list (Z*qe)) qe) rows) [].
Proof. intros. apply sorted_ids_acc. Qed.

Lemma sorted_ids_sorted : forall rows, ssorted (sorted_ids rows).
Proof. intros. rewrite sorted_ids_eq. apply (fold_insert_sorted (A:=Z*qe) (@fst Z qe)). constructor. Qed.

Lemma sorted_ids_In : forall rows id,
  In id (sorted_ids rows) <-> exists r q, In r rows /\ In (id, q) (fst r).
Proof.
  intros rows id. rewrite sorted_ids_eq, (fold_insert_In (A:=Z*qe) (@fst Z qe)). split.
  - intros [[]|H]. apply in_map_iff in H as [[i q] [<- H]]. apply in_flat_map in H as [r [H1 H2]].
    exists r, q. auto.
  - intros [r [q [H1 H2]]]. right. apply in_map_iff. exists (id, q). split; auto.
    apply in_flat_map. exists r. auto.
Qed.

Lemma index_of_in : forall x l k, In x l ->
  (k <= index_of x l k < k + Z.of_nat (length l))%Z /\
  nth (Z.to_nat (index_of x l k - k)) l 0%Z = x.
Proof.
  intros x. induction l as [|y l IH]; intros k H; [destruct H|].
  simpl index_of. destruct (Z.eqb_spec x y) as [->|Hne].
  - split; [simpl length; lia|]. now rewrite Z.sub_diag.
  - destruct H as [->|H]; [contradiction|]. destruct (IH (k + 1)%Z H) as [I1 I2].
    split; [simpl length; lia|].
    replace (index_of x l (k + 1) - k)%Z with (Z.succ (index_of x l (k + 1) - (k + 1)))%Z by lia.
    rewrite Z2Nat.inj_succ by lia. simpl. exact I2.
Qed.

Lemma index_of_notin : forall x l k, ~ In x l -> index_of x l k = (-1)%Z.
Proof.
  intros x. induction l as [|y l IH]; intros k H; simpl; auto.
  destruct (Z.eqb_spec x y) as [->|Hne]; [exfalso; apply H; now left|].
  apply IH. intros Hin. apply H. now right.
Qed.
