(* Proofs/GenConGenProofs.v — proofs of Proofs/GenConGenSpec.v by case analysis on the tests of the generated functions. *)
From Coq Require Import List Bool Arith QArith Lia.
From SageVerif Require Import Model.Signomial Model.SolverForms Model.ConGen Model.PolyDom Gen.GenConGen Proofs.GenConGenSpec.
Import ListNotations.
Close Scope Q_scope.

Lemma count_snd (f : Q -> bool) (g : qsig) : count f (cvec g) = count (fun t => f (snd t)) g.
Proof.
  unfold count, cvec. induction g as [|t g IH]; [reflexivity|]. cbn [map filter].
  destruct (f (snd t)); cbn [length]; rewrite IH; reflexivity.
Qed.

Lemma count_filter_len {X} (f : X -> bool) l : count f l = length (filter f l).
Proof. reflexivity. Qed.

Ltac tests :=
  repeat match goal with
         | |- context [Nat.leb ?a ?b] => destruct (Nat.leb_spec a b)
         | |- context [Nat.ltb ?a ?b] => destruct (Nat.ltb_spec a b)
         | |- context [Nat.eqb ?a ?b] => destruct (Nat.eqb_spec a b)
         end; cbn [andb orb negb]; try reflexivity; try lia.

Ltac split_tests0 :=
  repeat match goal with
         | |- context [Nat.leb ?a ?b] => destruct (Nat.leb_spec a b)
         | |- context [Nat.ltb ?a ?b] => destruct (Nat.ltb_spec a b)
         | |- context [Nat.eqb ?a ?b] => destruct (Nat.eqb_spec a b)
         end; cbn [andb orb negb]; try reflexivity; try lia.

Lemma gen_posy_step : gen_posy_step_stmt.
Proof.
  intros n g gs. cbn [valid_posy]. unfold gen_posy_sel. rewrite !count_snd.
  set (np := count (fun t => is_pos (snd t)) g). set (nn := count (fun t => is_neg (snd t)) g).
  tests.
Qed.

Lemma gen_monoeq_step : gen_monoeq_step_stmt.
Proof.
  intros n g eqs. unfold valid_mono_eqs at 1. cbn [flat_map]. fold (valid_mono_eqs n eqs). f_equal.
  unfold gen_monoeq_sel. rewrite !count_snd.
  set (nz := count (fun t => negb (qiszero (snd t))) g).
  destruct (Nat.ltb_spec 2 nz); [reflexivity|].
  unfold count. destruct (filter (fun t => is_pos (snd t)) g) as [|[a c0] [|t2 l]]; cbn [length Nat.eqb]; reflexivity.
Qed.

Lemma gen_polyineq_step : gen_polyineq_step_stmt.
Proof.
  intros g gs. cbn [valid_gp_poly_ineqs]. unfold gen_polyineq_sel. rewrite !count_snd.
  set (np := count (fun t => is_pos (snd t)) g).
  destruct (all_even g); destruct (Qeq_bool (value_at_zero g) 0%Q); cbn [andb negb]; tests.
Qed.

Lemma gen_polyeq_step : gen_polyeq_step_stmt.
Proof.
  intros g eqs. unfold valid_gp_poly_eqs. cbn [filter]. unfold gen_polyeq_sel. rewrite !count_snd.
  set (nz := count (fun t => negb (qiszero (snd t))) g). set (np := count (fun t => is_pos (snd t)) g).
  destruct (all_even g); cbn [andb]; split_tests0.
Qed.

Ltac split_tests :=
  repeat match goal with
         | |- context [Nat.leb ?a ?b] => destruct (Nat.leb_spec a b)
         | |- context [Nat.ltb ?a ?b] => destruct (Nat.ltb_spec a b)
         | |- context [Nat.eqb ?a ?b] => destruct (Nat.eqb_spec a b)
         | |- context [if ?b then _ else _] => is_var b; destruct b
         | |- context [?b && _] => is_var b; destruct b
         | |- context [_ && ?b] => is_var b; destruct b
         end; cbn [andb orb negb].

Lemma gen_sel_ranges : gen_sel_ranges_stmt.
Proof.
  split; [|split; [|split]].
  - intro c. unfold gen_monoeq_sel. split_tests; auto; lia.
  - intros e c. unfold gen_polyeq_sel. split_tests; auto.
  - intros c. unfold gen_posy_sel. split_tests; intro HH; try discriminate; lia.
  - intros e z c. unfold gen_polyineq_sel. split_tests; discriminate.
Qed.
