(* Proofs/FormsDual.v — dualize_problem, transpose, weak duality, Mosek._dual_apply regrouping. *)
From Coq Require Import Reals List Bool Arith Lia Lra.
From SageVerif Require Import Math.RVec Model.SolverForms Proofs.MathSpec Proofs.MathProofs
  Proofs.FormsSpec Proofs.FormsLemmas.
Import ListNotations.
Open Scope R_scope.

Lemma dualize_shape : dualize_shape_stmt.
Proof. intros n c A b K. reflexivity. Qed.

(* ------------------------------------------------------------------ transpose *)
Lemma transpose_row : forall (r : list R) (T' : list (list R)) e y,
  mv (map (fun p => fst p :: snd p) (combine r T')) (e :: y) = vadd (vscale e r) (mv T' y).
Proof.
  induction r as [|a r IH]; intros [|t T'] e y; simpl; try reflexivity.
  f_equal; [ring | apply IH].
Qed.

Lemma transpose_mv : transpose_mv_stmt.
Proof.
  intros n A. unfold transpose. induction A as [|r A IH]; intros y HA Hy.
  - destruct y; [|discriminate]. simpl. unfold mv, vzero.
    rewrite map_repeat'. reflexivity.
  - destruct y as [|e y]; [discriminate|]. simpl in Hy. injection Hy as Hy.
    inversion HA; subst. simpl transpose_aux. rewrite transpose_row.
    simpl tmv. rewrite IH by assumption. reflexivity.
Qed.

Lemma transpose_rows : forall n (A : list (list R)),
  Forall (fun row => length row = length A) (transpose n A).
Proof.
  intros n A. unfold transpose. induction A as [|r A IH]; simpl.
  - apply Forall_forall. intros x Hx. apply repeat_spec in Hx. subst. reflexivity.
  - revert IH. generalize (transpose_aux n A). intros T' HT. revert T' HT.
    induction r as [|a r IHr]; intros [|t T'] HT; simpl; constructor.
    + simpl. inversion HT; subst. congruence.
    + apply IHr. inversion HT; auto.
Qed.

(* ------------------------------------------------------------------ weak duality *)
Lemma dualize_weak : dualize_weak_stmt.
Proof.
  intros n c A b K x y HK HA Hx HlA Hlb Hp Hd Hc.
  assert (Hly : length y = length A).
  { rewrite in_Kdual_eq in Hd. apply in_Kg_length in Hd. rewrite KsizeR_semK in Hd. congruence. }
  rewrite transpose_mv in Hc by assumption. subst c.
  rewrite (tmv_dot n A y x HA Hx Hly).
  pose proof (dualK_pair _ _ _ Hd Hp) as H.
  rewrite f_dot_vadd_r in H; try (rewrite f_length_mv; congruence).
  rewrite f_dot_opp_l, (f_dot_comm b y). lra.
Qed.

(* ------------------------------------------------------------------ Mosek._dual_apply *)
Lemma selector_dual : forall K, okK K ->
  selector (map dual_cone K) TPos = selector K TPos /\
  selector (map dual_cone K) TSoc = selector K TSoc /\
  selector (map dual_cone K) TDExp = selector K TExp /\
  selector (map dual_cone K) TFree = selector K T0.
Proof.
  induction K as [|[t n] K IH]; intros HK; [simpl; auto|].
  apply okK_cons in HK. destruct HK as [Hal [Hn HK]].
  destruct (IH HK) as [H1 [H2 [H3 H4]]].
  change (map dual_cone ((t, n) :: K)) with (dual_cone (t, n) :: map dual_cone K).
  destruct t; try discriminate Hal; try rewrite (Hn eq_refl);
    cbn [dual_cone fst snd selector ctag_eqb]; rewrite H1, H2, H3, H4; auto.
Qed.

Lemma blocks_dual : forall K, okK K ->
  map snd (filter (fun co : cone => ctag_eqb (fst co) TSoc) (map dual_cone K)) = blocks K /\
  length (filter (fun co : cone => ctag_eqb (fst co) TDExp) (map dual_cone K)) = nexp K.
Proof.
  unfold blocks, nexp.
  induction K as [|[t n] K IH]; intros HK; [simpl; auto|].
  apply okK_cons in HK. destruct HK as [Hal [Hn HK]].
  destruct (IH HK) as [H1 H2].
  change (map dual_cone ((t, n) :: K)) with (dual_cone (t, n) :: map dual_cone K).
  destruct t; try discriminate Hal;
    cbn [dual_cone fst snd filter ctag_eqb map length]; rewrite ?H1, ?H2; auto.
Qed.

Lemma regroup_eq {X} : forall K (v : list X), okK K ->
  regroup K v = mask (selector K TPos) v ++ mask (selector K TSoc) v ++
                mask (selector K TExp) v ++ mask (selector K T0) v.
Proof.
  intros K v HK. unfold regroup.
  destruct (selector_dual K HK) as [-> [-> [-> ->]]]. reflexivity.
Qed.

Lemma dot_partition : forall K f y, okK K -> length f = KsizeM K -> length y = KsizeM K ->
  dot f y = dot (mask (selector K TPos) f) (mask (selector K TPos) y) +
            dot (mask (selector K TSoc) f) (mask (selector K TSoc) y) +
            dot (mask (selector K TExp) f) (mask (selector K TExp) y) +
            dot (mask (selector K T0) f) (mask (selector K T0) y).
Proof.
  induction K as [|[t n] K IH]; intros f y HK Hf Hy; simpl in Hf, Hy.
  - destruct f; [|discriminate]. simpl. ring.
  - apply okK_cons in HK. destruct HK as [Hal [Hn HK]].
    destruct (split_len _ _ _ Hf) as [fa [fb [-> [Hfa Hfb]]]].
    destruct (split_len _ _ _ Hy) as [ya [yb [-> [Hya Hyb]]]].
    rewrite !mask_selector_cons by assumption.
    rewrite f_dot_app by congruence. rewrite (IH fb yb HK Hfb Hyb).
    destruct t; try discriminate Hal; cbn [ctag_eqb app];
      rewrite f_dot_app by congruence; ring.
Qed.

Lemma dot_regroup : forall K f y, okK K -> length f = KsizeM K -> length y = KsizeM K ->
  dot (regroup K f) (regroup K y) = dot f y.
Proof.
  intros K f y HK Hf Hy. rewrite !regroup_eq by assumption.
  rewrite !f_dot_app by (apply mask_length_eq; congruence).
  rewrite (dot_partition K f y HK Hf Hy). ring.
Qed.

Lemma nth_map_mask {X} : forall s (G : list (list X)) i,
  nth i (map (mask s) G) [] = mask s (nth i G []).
Proof.
  intros. transitivity (nth i (map (mask s) G) (mask s [])).
  - now rewrite mask_nil_r.
  - apply map_nth.
Qed.

Lemma hcat4 {X} : forall s1 s2 s3 s4 (G : list (list X)),
  hcat [cols s1 G; cols s2 G; cols s3 G; cols s4 G]
  = map (fun row => mask s1 row ++ mask s2 row ++ mask s3 row ++ mask s4 row) G.
Proof.
  intros. unfold hcat, cols. rewrite map_length.
  rewrite <- (map_nth_seq (fun row => mask s1 row ++ mask s2 row ++ mask s3 row ++ mask s4 row) [] G).
  apply map_ext. intros i. simpl.
  rewrite app_nil_r, !nth_map_mask. reflexivity.
Qed.

Lemma in_Kdual_free : forall k v, length v = k -> in_Kdual [(CZero, k)] v.
Proof.
  intros k v H. subst k. simpl. rewrite firstn_all, skipn_all. auto.
Qed.

Lemma mosek_dual_reorder : mosek_dual_reorder_stmt.
Proof.
  intros n c A b K y HK HA HlA Hlb Hy d. subst d.
  unfold mosek_dual_apply, dualize. cbv beta iota zeta.
  cbn [mdf mdG mdh md_pos md_soc md_de md_fr].
  split; [|split; [|split]].
  - apply (dot_regroup K (map Ropp b) y HK); [rewrite map_length|]; assumption.
  - rewrite hcat4. unfold mv. rewrite map_map. apply map_ext_in.
    intros row Hrow.
    pose proof (transpose_rows n A) as HT. rewrite Forall_forall in HT. apply HT in Hrow.
    apply (dot_regroup K row y HK); congruence.
  - reflexivity.
  - destruct (selector_dual K HK) as [Hsp [Hss [Hsd Hsf]]].
    destruct (blocks_dual K HK) as [Hb He].
    unfold mosek_dual_cone_ok. cbn [md_pos md_soc md_de md_fr].
    match goal with |- context [map snd (filter ?f (map dual_cone K))] =>
      rewrite (Hb : map snd (filter f (map dual_cone K)) = blocks K) end.
    match goal with |- context [length (filter ?f (map dual_cone K))] =>
      rewrite (He : length (filter f (map dual_cone K)) = nexp K) end.
    rewrite Hsp, Hsf. rewrite regroup_eq by assumption.
    change (map (fun k : nat => (CSoc, k)) (blocks K)) with (socK K).
    change (repeat (CExp, 3%nat) (nexp K)) with (expK K).
    rewrite (partition_dual K y HK Hy).
    assert (Hl : forall t, length (mask (selector K t) y) = count_true (selector K t)).
    { intros t. apply mask_length. rewrite selector_length. congruence. }
    rewrite !in_Kdual_eq.
    rewrite in_Kg_cons_app by apply Hl.
    rewrite in_Kg_app by (rewrite <- count_soc; apply Hl).
    rewrite in_Kg_app by (rewrite KsizeR_expK, <- count_exp by assumption; apply Hl).
    rewrite <- (in_Kdual_eq [(CZero, count_true (selector K T0))]).
    pose proof (in_Kdual_free _ _ (Hl T0)). simpl in_dual_cone. tauto.
Qed.
