(* Proofs/RelaxDual.v — C03, part 3: the dual-form point and weak duality, from the coefficient identity
   of Proofs/RelaxCoef.v, the evaluation of the modulated Lagrangian (Proofs/RelaxBase.v) and the
   pairing theorem for the SAGE rows (Proofs/SagePairingProofs.v). *)
From Coq Require Import Reals List Bool Arith ZArith QArith Qreals Lra Lia.
From SageVerif Require Import Math.RVec Model.Expr Model.Signomial Model.SymSig Model.SolverForms Model.SymCorr
  Model.Compile Model.Sage Model.RelaxSig
  Proofs.ExprSpec Proofs.ExprAtoms Proofs.ExprScalar
  Proofs.SigSpec Proofs.SigLemmas Proofs.SigRound Proofs.SigMk Proofs.SigOps Proofs.SigPow
  Proofs.SymCorrSpec Proofs.SymSigSpec Proofs.SymSigBag Proofs.SymSigOps
  Proofs.FormsSpec Proofs.CompileSpec Proofs.SageSpec Proofs.RelaxSpec Proofs.RelaxBase Proofs.RelaxCoef.
From SageVerif Require Proofs.SagePairingProofs.
Import ListNotations.
Local Open Scope R_scope.

(* ------------------------------------------------------------------ *)
(* linear algebra on lists *)
Lemma dot_lin : forall (vs os aa xs : list R) c,
  length os = length vs -> length aa = length vs -> length xs = length vs ->
  (forall j, (j < length vs)%nat -> nth j vs 0 = nth j os 0 - c * nth j aa 0) ->
  dot vs xs = dot os xs - c * dot aa xs.
Proof.
  induction vs as [|v vs IH]; intros [|o os] [|a aa] [|x xs] c H1 H2 H3 H; try discriminate.
  - simpl. lra.
  - cbn [dot]. rewrite (IH os aa xs c); try (simpl in *; lia).
    + pose proof (H 0%nat ltac:(simpl; lia)) as H0. cbn [nth] in H0. rewrite H0. ring.
    + intros j Hj. apply (H (S j)). simpl. lia.
Qed.

Lemma nth_map_lt : forall (A B : Type) (f : A -> B) l d d' j, (j < length l)%nat ->
  nth j (map f l) d' = f (nth j l d).
Proof.
  intros A B f l d d' j Hj. rewrite (nth_indep _ d' (f d)) by (now rewrite map_length). apply map_nth.
Qed.

Lemma dot_moment : forall (cs : list R) (rows : list qrow) s x,
  dot cs (moment_vec rows s x) = s * dot cs (map (chix x) rows).
Proof.
  induction cs as [|c cs IH]; intros [|r rows] s x; unfold moment_vec in *; cbn [map dot]; try lra.
  rewrite IH. unfold chix. ring.
Qed.

Lemma sevalchi_dot : forall chi rho (L : ssig),
  sevalchi chi rho L = dot (cvals rho (map snd L)) (map chi (map fst L)).
Proof.
  intros chi rho L. induction L as [|[a c] L IH]; [reflexivity|].
  unfold sevalchi, cvals in *. cbn [map fst snd fold_right dot]. rewrite IH. reflexivity.
Qed.

(* the cells are obj - gamma * a, as vectors *)
Lemma cells_lin : forall rho (L : ssig) (a obj : list Q) c (xs : list R),
  length a = length L -> length obj = length L -> length xs = length L ->
  (forall j, (j < length L)%nat ->
     value rho (snd (nth j L ([], sconst 0%Q))) = Q2R (nth j obj 0%Q) - c * Q2R (nth j a 0%Q)) ->
  dot (cvals rho (map snd L)) xs = dot (map Q2R obj) xs - c * dot (map Q2R a) xs.
Proof.
  intros rho L a obj c xs Ha Ho Hx H.
  assert (Hl : length (cvals rho (map snd L)) = length L) by (unfold cvals; now rewrite !map_length).
  apply dot_lin; rewrite ?Hl, ?map_length; auto.
  intros j Hj. unfold cvals. rewrite map_map.
  rewrite (nth_map_lt _ _ (fun u => value rho (snd u)) L ([], sconst 0%Q) 0 j Hj).
  rewrite (nth_map_lt _ _ Q2R obj 0%Q 0 j) by lia.
  rewrite (nth_map_lt _ _ Q2R a 0%Q 0 j) by lia.
  now apply H.
Qed.

(* ------------------------------------------------------------------ *)
(* DUAL FORM *)
Lemma mlag_dual_point : forall n f' g t x, good n f' -> good n t -> length x = n ->
  0 < sig_evalR t x ->
  let L := mlag n f' g t in
  let a := relative_coeff_vector t (map fst L) in
  let obj := relative_coeff_vector (q_mul n f' t) (map fst L) in
  let w := moment_vec (map fst L) (/ sig_evalR t x) x in
  dot (map Q2R a) w = 1 /\ dot (map Q2R obj) w = sig_evalR f' x.
Proof.
  intros n f' g t x Hf Ht Hx Hpos L a obj w.
  assert (K : forall rho,
            (sig_evalR f' x - rho g) * sig_evalR t x =
            dot (map Q2R obj) (map (chix x) (map fst L)) - rho g * dot (map Q2R a) (map (chix x) (map fst L))).
  { intros rho. destruct (mlag_coeffs n f' g t rho Hf Ht) as (A1 & O1 & E). fold L a obj in A1, O1, E.
    destruct Hf as (Hw & _ & Hne). destruct Ht as (Hwt & _ & Hnt).
    rewrite <- (mlag_ev n f' g t rho x Hx Hw Hne Hwt Hnt). fold L.
    rewrite sevalchi_dot. apply cells_lin; auto. now rewrite !map_length. }
  pose proof (K (fun _ => 0)) as K0. pose proof (K (fun _ => 1)) as K1. cbv beta in K0, K1.
  set (O := dot (map Q2R obj) (map (chix x) (map fst L))) in *.
  set (A := dot (map Q2R a) (map (chix x) (map fst L))) in *.
  set (T := sig_evalR t x) in *. set (F := sig_evalR f' x) in *.
  assert (EA : A = T) by lra. assert (EO : O = F * T) by lra.
  unfold w. rewrite !dot_moment. fold O A. rewrite EA, EO. split; field; lra.
Qed.

Lemma sig_dual_point : sig_dual_point_stmt.
Proof.
  intros n f g ms ell x Hf Hs Hx. rewrite sig_dual_unfold. cbv beta iota zeta. intros _ _.
  destruct (fwf_wz n f Hf) as (Hw' & Hd' & Hne').
  destruct (modulator_good n (q_without_zeros n f) g ms ell Hw' Hne' Hs) as [Hgt Hpos].
  rewrite <- (without_zeros_eval n f x (proj1 Hf)).
  exact (mlag_dual_point n _ g _ x (conj Hw' (conj Hd' Hne')) Hgt Hx (Hpos x)).
Qed.

(* ------------------------------------------------------------------ *)
(* WEAK DUALITY *)
Lemma sig_weak_duality_from_coeffs : lagrangian_coeffs_stmt -> sig_weak_duality_stmt.
Proof.
  intros LC n lifted_n f g ms ell X pcov pids pst dummy1 bs rho_p v dcov dids dst dummy2 rho_d Hf Hs.
  pose proof (LC n f g ms ell rho_p Hf Hs) as C. revert C.
  rewrite sig_dual_unfold. cbv beta iota zeta.
  set (f' := q_without_zeros n f). set (t := modulator n f' g ms ell). set (L := mlag n f' g t).
  set (a := relative_coeff_vector t (map fst L)).
  set (obj := relative_coeff_vector (q_mul n f' t) (map fst L)).
  intros C Hc1 Hc2 Hpwf Hdwf Hcov Hpb Hsatp Hsatd Hnorm.
  destruct (C Hc1 Hc2) as (A1 & O1 & E).
  pose proof (SagePairingProofs.sage_pairing n lifted_n (map fst L) (map snd L) X pcov pids pst v dcov dids dst
                dummy1 dummy2 bs rho_p rho_d Hpwf Hdwf Hcov Hpb Hsatp Hsatd) as P.
  assert (Hv : length (cvals rho_d v) = length L).
  { destruct Hdwf as (_ & Hlv & _). unfold cvals. now rewrite map_length, Hlv, map_length. }
  rewrite (cells_lin rho_p L a obj (rho_p g) (cvals rho_d v) A1 O1 Hv E) in P.
  rewrite Hnorm in P. lra.
Qed.

Lemma sig_weak_duality : sig_weak_duality_stmt.
Proof. exact (sig_weak_duality_from_coeffs lagrangian_coeffs). Qed.
