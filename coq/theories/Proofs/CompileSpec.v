(* Proofs/CompileSpec.v — statements of the C07 theorems about Model/Compile.v. *)
From Coq Require Import Reals List Bool Arith ZArith QArith Qreals Lra.
From SageVerif Require Import Math.RVec Model.Expr Model.SolverForms Model.Compile
                              Proofs.ExprSpec Proofs.FormsSpec.
Import ListNotations.
Open Scope R_scope.

(* ---- semantics of rows ---- *)
Definition qe_val (x : qe) : R := Q2R (fst x) + Q2R (snd x) * exp 1.
Definition rrow_val (rho : env) (r : rrow) : R :=
  fold_right (fun ic acc => qe_val (snd ic) * rho (fst ic) + acc) 0 (fst r) + qe_val (snd r).

Definition block := (list cone * list rrow)%type.
Definition block_sat (rho : env) (b : block) : Prop := in_K (semK (fst b)) (map (rrow_val rho) (snd b)).
Definition blocks_sat (rho : env) (bs : list block) : Prop := Forall (block_sat rho) bs.

(* the compiled system A x + b in K, read over ids: the assignment rho of all scalar variables
   (user and auxiliary) satisfies it *)
Definition compiled_sat (rho : env) (c : compiled) : Prop :=
  in_K (semK (c_K c)) (map (rrow_val rho) (c_rows c)).

(* ---- bookkeeping ---- *)
Definition canon_row_val_stmt : Prop :=
  forall rho r, rrow_val rho (canon_row r) = rrow_val rho r.

(* product-cone constructors check y.size == sum of cone lengths; exponential cones have length 3 *)
Definition smem_ok (s : smem) : Prop :=
  match s with
  | SPrimal y K => length y = SolverForms.Ksize K /\ okK K
  | SDual y K => length y = SolverForms.Ksize K /\ okK K
  end.

Definition block_sized (b : block) : Prop := length (snd b) = SolverForms.Ksize (fst b).

Definition blocks_sized_stmt : Prop :=
  forall epi dummy cs ss bs, Forall smem_ok ss -> all_blocks epi dummy cs ss = Some bs ->
    Forall block_sized bs.

(* row dimensions of A, b, K agree; flattening the blocks loses nothing *)
Definition compile_dims_stmt : Prop :=
  forall epi dummy cs ss vars c, Forall smem_ok ss -> compile epi dummy cs ss vars = Some c ->
    length (c_rows c) = SolverForms.Ksize (c_K c).

Definition compile_flatten_stmt : Prop :=
  forall epi dummy cs ss vars c bs rho, Forall smem_ok ss ->
    compile epi dummy cs ss vars = Some c -> all_blocks epi dummy cs ss = Some bs ->
    (compiled_sat rho c <-> blocks_sat rho bs).

(* columns: the sorted distinct ids seen; variable_map sends a component to the rank of its id,
   distinct ids to distinct columns, and to -1 exactly the ids that occur in no triplet *)
Definition strictly_sorted (l : list Z) : Prop :=
  forall i j, (i < j)%nat -> (j < length l)%nat -> (nth i l 0 < nth j l 0)%Z.

Definition columns_spec_stmt : Prop :=
  forall epi dummy cs ss vars c bs, compile epi dummy cs ss vars = Some c ->
    all_blocks epi dummy cs ss = Some bs ->
    strictly_sorted (c_cols c) /\
    (forall id, In id (c_cols c) <-> exists b r q, In b bs /\ In r (snd b) /\ In (id, q) (fst r)) /\
    (forall id, In id (c_cols c) -> (0 <= index_of id (c_cols c) 0 < Z.of_nat (length (c_cols c)))%Z /\
                                    nth (Z.to_nat (index_of id (c_cols c) 0)) (c_cols c) 0%Z = id) /\
    (forall id, ~ In id (c_cols c) -> index_of id (c_cols c) 0 = (-1)%Z) /\
    (forall id1 id2, In id1 (c_cols c) -> In id2 (c_cols c) ->
                     index_of id1 (c_cols c) 0 = index_of id2 (c_cols c) 0 -> id1 = id2) /\
    c_varmap c = map (fun v => (fst v, map (fun i => index_of i (c_cols c) 0%Z) (snd v))) vars.

(* ---- rows of affine constraints equal the slack identically ---- *)
Definition affine_cell (e : sexpr) : Prop := forallb is_var (keys e) = true.

Definition elementwise_rows_are_slack_stmt : Prop :=
  forall rho dummy e, affine_cell e ->
    rrow_val rho (row_of dummy true e) = - value rho e /\
    rrow_val rho (row_of dummy false e) = value rho e.

(* ---- per-atom epigraph cones ---- *)
Definition epi_abs_iff_stmt : Prop :=
  forall rho dummy t x,
    block_sat rho (epi_block dummy t (ANl KAbs [x])) <-> Rabs (aff_val rho x) <= rho t.

Definition epi_pos_iff_stmt : Prop :=
  forall rho dummy t x,
    block_sat rho (epi_block dummy t (ANl KPos [x])) <-> Rmax (aff_val rho x) 0 <= rho t.

Definition epi_exp_iff_stmt : Prop :=
  forall rho dummy t x,
    block_sat rho (epi_block dummy t (ANl KExp [x])) <-> exp (aff_val rho x) <= rho t.

Definition epi_norm_iff_stmt : Prop :=
  forall rho dummy t args,
    block_sat rho (epi_block dummy t (ANl KNorm2 args)) <-> sqrt (sumsq (map (aff_val rho) args)) <= rho t.

(* relative entropy: the cone forces the arguments into rel_entr's finite domain *)
Definition epi_relent_iff_stmt : Prop :=
  forall rho dummy t x y,
    block_sat rho (epi_block dummy t (ANl KRelEnt [x; y])) <->
    ((0 < aff_val rho x /\ 0 < aff_val rho y /\ rel_entr (aff_val rho x) (aff_val rho y) <= rho t) \/
     (aff_val rho x = 0 /\ 0 <= aff_val rho y /\ 0 <= rho t)).

(* ---- product cones ---- *)
Definition primal_block_iff_stmt : Prop :=
  forall rho dummy y K b, Forall affine_cell y -> smem_ok (SPrimal y K) ->
    smem_block dummy (SPrimal y K) = Some b ->
    (block_sat rho b <-> in_K (semK K) (map (value rho) y)).

Definition dual_block_iff_stmt : Prop :=
  forall rho dummy y K b, Forall affine_cell y -> smem_ok (SDual y K) ->
    smem_block dummy (SDual y K) = Some b ->
    (block_sat rho b <-> in_Kdual (semK K) (map (value rho) y)).

(* ---- the whole system ---- *)
(* high-level meaning of the constraints *)
Definition in_domain (rho : env) (a : atom) : Prop :=
  match a with
  | ANl KRelEnt [x; y] => (0 < aff_val rho x /\ 0 < aff_val rho y) \/ (aff_val rho x = 0 /\ 0 <= aff_val rho y)
  | _ => True
  end.
Definition econ_sat (rho : env) (c : econ) : Prop :=
  Forall (fun e => (forall a, In a (keys e) -> in_domain rho a) /\
                   match e_op c with OpEq => value rho e = 0 | OpLe => value rho e <= 0 end) (e_cells c).
Definition smem_sat (rho : env) (s : smem) : Prop :=
  match s with
  | SPrimal y K => in_K (semK K) (map (value rho) y)
  | SDual y K => in_Kdual (semK K) (map (value rho) y)
  end.

(* well-formedness of the inputs observed from the implementation *)
Definition atom_ok (a : atom) : Prop :=
  match a with
  | AVar _ => True
  | ANl KAbs [_] | ANl KPos [_] | ANl KExp [_] | ANl KRelEnt [_; _] => True
  | ANl KNorm2 _ => True
  | _ => False
  end.
Definition user_ids (cs : list econ) (ss : list smem) : list Z :=
  flat_map (fun c => flat_map (fun e => flat_map atom_var_ids (keys e)) (e_cells c)) cs ++
  flat_map (fun s => match s with SPrimal y _ | SDual y _ => flat_map (fun e => flat_map atom_var_ids (keys e)) y end) ss.

Definition epi_fresh (epi : atom -> Z) (cs : list econ) (ss : list smem) : Prop :=
  (forall a, In a (nl_atoms cs) -> ~ In (epi a) (user_ids cs ss)) /\
  (forall a b, In a (nl_atoms cs) -> In b (nl_atoms cs) -> epi a = epi b -> atom_eqb a b = true) /\
  (forall a b, atom_eqb a b = true -> epi a = epi b).

Definition inputs_ok (cs : list econ) (ss : list smem) : Prop :=
  Forall (fun c => Forall (fun e => Forall atom_ok (keys e)) (e_cells c)) cs /\
  Forall smem_ok ss /\
  Forall (fun s => match s with SPrimal y _ | SDual y _ => Forall affine_cell y end) ss.

(* assignment of the auxiliary (epigraph) variables by the atoms' values *)
Definition extend (rho : env) (epi : atom -> Z) (atoms : list atom) : env :=
  fun i => match filter (fun a => Z.eqb (epi a) i) atoms with
           | a :: _ => atom_val rho a
           | [] => rho i
           end.

(* (=>) every assignment satisfying the constraints extends to a solution of the conic system *)
Definition compile_complete_stmt : Prop :=
  forall epi dummy cs ss bs rho,
    inputs_ok cs ss -> epi_fresh epi cs ss -> all_blocks epi dummy cs ss = Some bs ->
    (forall c, In c cs -> econ_sat rho c) -> (forall s, In s ss -> smem_sat rho s) ->
    blocks_sat (extend rho epi (nl_atoms cs)) bs.

(* DCP guard: nonlinear atoms occur only in <= cells and with nonnegative coefficient *)
Definition dcp (cs : list econ) : Prop :=
  forall c, In c cs -> forall e, In e (e_cells c) -> forall a, In a (keys e) -> is_nl a = true ->
    e_op c = OpLe /\ (0 <= Q2R (coeff_of a e)).

(* (<=) every solution of the conic system satisfies the constraints (on the user's variables) *)
Definition compile_sound_stmt : Prop :=
  forall epi dummy cs ss bs rho,
    inputs_ok cs ss -> epi_fresh epi cs ss -> dcp cs -> all_blocks epi dummy cs ss = Some bs ->
    blocks_sat rho bs ->
    (forall c, In c cs -> econ_sat rho c) /\ (forall s, In s ss -> smem_sat rho s).

(* outside the guard the equivalence is false of the faithful model (finding F8):
   the single constraint  1 - |z| <= 0  compiles to a system satisfied by z = 0, t = 1 *)
Definition compile_nondcp_refuted_stmt : Prop :=
  exists epi dummy cs bs rho,
    all_blocks epi dummy cs [] = Some bs /\ blocks_sat rho bs /\ ~ (forall c, In c cs -> econ_sat rho c).
