(* Proofs/FormsMosek.v — Mosek._primal_apply. *)
From Coq Require Import Reals List Bool Arith Lia Lra.
From SageVerif Require Import Math.RVec Model.SolverForms Proofs.MathSpec Proofs.FormsSpec
  Proofs.FormsLemmas Proofs.FormsSeparate.
Import ListNotations.
Open Scope R_scope.

Definition lin_tag (co : cone) : Prop := fst co = T0 \/ fst co = TPos.

Lemma partition_lin : forall K v, Forall lin_tag K -> length v = KsizeM K ->
  (in_K (semK K) v <->
   Forall (fun x => 0 <= x) (mask (selector K TPos) v) /\
   Forall (fun x => x = 0) (mask (selector K T0) v)).
Proof.
  induction K as [|[t m] K IH]; intros v HK Hl; simpl in Hl.
  - destruct v; [|discriminate]. simpl. split; auto.
  - inversion HK as [|? ? Ht HK']; subst.
    destruct (split_len _ _ _ Hl) as [a [b [-> [Ha Hb]]]].
    rewrite !mask_selector_cons by assumption.
    change (semK ((t, m) :: K)) with ((sem_tag t, m) :: semK K).
    rewrite in_K_cons_app by assumption. rewrite (IH b HK' Hb).
    destruct Ht as [Ht | Ht]; simpl in Ht; subst t; cbn [ctag_eqb sem_tag app in_cone];
      rewrite Forall_app; tauto.
Qed.

Lemma mosek_K2_lin : forall K : list cone,
  Forall lin_tag
    (map (fun co : cone => if (ctag_eqb (fst co) T0 || dont_sep_mosek (fst co))%bool
                           then co else (T0, snd co)) K).
Proof.
  intros K. apply Forall_forall. intros co Hin. apply in_map_iff in Hin.
  destruct Hin as [[t m] [<- _]]. unfold lin_tag. destruct t; simpl; auto.
Qed.

Definition sep_tag (s : sepcone) : Prop :=
  fst (fst s) = TSoc \/ (fst (fst s) = TExp /\ length (snd s) = 3%nat).

Lemma mosek_sl_tags : forall K (sl : list sepcone), okK K ->
  map fst sl = filter (fun co : cone => negb (ctag_eqb (fst co) T0 || dont_sep_mosek (fst co))%bool) K ->
  Forall (fun s : sepcone => length (snd s) = snd (fst s)) sl ->
  Forall sep_tag sl.
Proof.
  intros K sl HK Hm Hlen. apply Forall_forall. intros s Hs.
  rewrite Forall_forall in Hlen. specialize (Hlen s Hs).
  assert (Hin : In (fst s) (map fst sl)) by (apply in_map; exact Hs).
  rewrite Hm in Hin. apply filter_In in Hin. destruct Hin as [Hin Hna].
  unfold okK in HK. rewrite Forall_forall in HK. destruct (HK _ Hin) as [Hal Hexp].
  unfold sep_tag. destruct (fst (fst s)); simpl in *; try discriminate; auto.
  right. split; auto. rewrite Hlen. apply Hexp. reflexivity.
Qed.

Lemma sl_ok_iff : forall z sl, Forall sep_tag sl ->
  (sl_ok z sl <-> Forall (mosek_sep_ok z) sl).
Proof.
  intros z. unfold sl_ok. induction sl as [|s sl IH]; intros H.
  - split; constructor.
  - inversion H as [|? ? Hs H']; subst. rewrite !Forall_cons_iff, (IH H').
    assert (in_cone (sem_tag (fst (fst s))) (pick z (snd s)) <-> mosek_sep_ok z s); [|tauto].
    unfold mosek_sep_ok. destruct Hs as [Hs | [Hs Hl]]; rewrite Hs.
    + reflexivity.
    + destruct (snd s) as [|c0 [|c1 [|c2 [|c3 l]]]]; try discriminate Hl.
      simpl. unfold mosek_pexp. reflexivity.
Qed.

Lemma mosek_sat_equiv : forall (K2 : list cone) (A2 : list (list R)) b z sl c2 n,
  Forall lin_tag K2 -> length A2 = KsizeM K2 -> length b = KsizeM K2 -> Forall sep_tag sl ->
  ((in_K (semK K2) (vadd (mv A2 z) b) /\ sl_ok z sl) <->
   mosek_primal_sat
     {| mpA := negm Ropp (mask (selector K2 TPos) A2 ++ mask (selector K2 T0) A2);
        mpb := mask (selector K2 TPos) b ++ mask (selector K2 T0) b;
        mpK := [(TPos, length (mask (selector K2 TPos) A2)); (T0, length (mask (selector K2 T0) A2))];
        mpsep := sl; mpc := c2; mpn := n |} z).
Proof.
  intros K2 A2 b z sl c2 n HK HlA Hlb Hsl.
  unfold mosek_primal_sat. cbn [mpA mpb mpK mpsep].
  assert (Hlm : forall s, length (mask s (mv A2 z)) = length (mask s b)).
  { intros s. apply mask_length_eq. rewrite f_length_mv. congruence. }
  rewrite f_mv_negm, f_mv_app, map_app, !f_mv_mask.
  assert (H1 : length (map Ropp (mask (selector K2 TPos) (mv A2 z))) = length (mask (selector K2 TPos) A2)).
  { rewrite map_length, <- f_mv_mask. apply f_length_mv. }
  assert (H2 : length (mask (selector K2 TPos) b) = length (mask (selector K2 TPos) A2)).
  { apply mask_length_eq. congruence. }
  rewrite (firstn_app_len' _ _ _ H1), (skipn_app_len' _ _ _ H1).
  rewrite (firstn_app_len' _ _ _ H2), (skipn_app_len' _ _ _ H2).
  rewrite opp_le_iff, opp_eq_iff by apply Hlm.
  rewrite <- !mask_vadd.
  rewrite (sl_ok_iff z sl Hsl).
  rewrite (partition_lin K2 (vadd (mv A2 z) b) HK)
    by (rewrite f_length_vadd; rewrite f_length_mv; congruence).
  tauto.
Qed.

Lemma mosek_primal_equiv : mosek_primal_equiv_stmt.
Proof.
  intros n c A b K x HK HA Hx Hc HlA Hlb.
  unfold mosek_primal_apply.
  destruct (separate 0 1 Ropp n A b K dont_sep_mosek) as [[[A2 b2] K2] sl] eqn:E.
  cbv beta iota zeta. cbn [mpsep mpc mpn].
  destruct (separate_structure n A b K dont_sep_mosek A2 b2 K2 sl HA HlA E)
    as [Hb2 [HK2 [Hsl [Hcols [Hlens [HwA2 HlA2]]]]]].
  pose proof (separate_projection n A b K dont_sep_mosek A2 b2 K2 sl x HK HA Hx HlA Hlb E) as Hproj.
  assert (Hlin : Forall lin_tag K2) by (rewrite HK2; apply mosek_K2_lin).
  assert (Htags : Forall sep_tag sl) by (eapply mosek_sl_tags; eauto).
  assert (HsK2 : KsizeM K2 = KsizeM K).
  { rewrite HK2. clear. induction K as [|[t m] K IH]; simpl; auto.
    destruct (ctag_eqb t T0 || dont_sep_mosek t)%bool; simpl; congruence. }
  subst b2.
  assert (HlA2' : length A2 = KsizeM K2) by (rewrite HsK2, <- HlA; exact HlA2).
  assert (Hlb2 : length b = KsizeM K2) by (rewrite HsK2; exact Hlb).
  split; [|split].
  - rewrite Hproj. fold (slack_total sl).
    split; intros [y [Hy H]]; exists y; (split; [exact Hy|]).
    + apply mosek_sat_equiv; auto.
    + apply mosek_sat_equiv in H; auto.
  - intros y Hy. rewrite f_dot_app by congruence. rewrite f_dot_repeat0_l. ring.
  - reflexivity.
Qed.
