(* Proofs/GenMFormsSpec.v — reformulators.separate_cone_constraints / dualize_problem and Mosek._primal_apply / _dual_apply regenerated from the
   source (Gen/GenMosekForms.v: control flow, index arithmetic and cone bookkeeping translated structurally, array idioms through
   Model/FormIdioms.v) are the models of Model/SolverForms.v on every input, so the C10 theorems about separation, dualisation and the two
   MOSEK standard forms are theorems about the code generated from the current reformulators.py / mosek.py. *)
From Coq Require Import List Bool Arith.
From SageVerif Require Import Model.SolverForms Model.FormIdioms Gen.GenForms Gen.GenMosekForms.
Import ListNotations.

Definition ds_list (ds : option (list ctag)) : list ctag := match ds with None => [T0] | Some d => d end.

Definition gen_dualize_equiv_stmt : Prop :=
  forall (T : Type) (topp : T -> T) n c A b K, gen_dualize topp n c A b K = dualize topp n c A b K.

Definition gen_mosek_dual_apply_equiv_stmt : Prop :=
  forall (T : Type) (topp : T -> T) n c A b K, gen_mosek_dual_apply topp n c A b K = mosek_dual_apply topp n c A b K.

(* the scalar type only has to satisfy v + 0 = v (the COO constructor sums the entries given for one coordinate, starting from 0);
   A has one row per row of K (the documented precondition sum(co.len) == m) *)
Definition gen_separate_equiv_stmt : Prop :=
  forall (T : Type) (tzero tone : T) (topp : T -> T) (tplus : T -> T -> T),
    (forall v, tplus v tzero = v) ->
    forall n A b K ds, length A = Ksize K ->
      gen_separate tzero tone topp tplus n A b K ds
      = separate tzero tone topp n A b K (fun t => existsb (ctag_eqb t) (ds_list ds)).

Definition gen_mosek_primal_apply_equiv_stmt : Prop :=
  forall (T : Type) (tzero tone : T) (topp : T -> T) (tplus : T -> T -> T),
    (forall v, tplus v tzero = v) ->
    forall n c A b K, length A = Ksize K ->
      gen_mosek_primal_apply tzero tone topp tplus n c A b K = mosek_primal_apply tzero tone topp n c A b K.

(* ---- the C10 theorems restated for the GENERATED functions at the reals ---- *)
From Coq Require Import Reals.
From SageVerif Require Import Math.RVec Proofs.MathSpec Proofs.FormsSpec.

Definition gen_separate_projection_stmt : Prop :=
  forall n (A : list (list R)) b K ds A2 b2 K2 sl x,
    okK K -> wfm n A -> length x = n -> length A = SolverForms.Ksize K -> length b = SolverForms.Ksize K ->
    gen_separate 0%R 1%R Ropp Rplus n A b K ds = (A2, b2, K2, sl) ->
    (in_K (semK K) (vadd (mv A x) b) <->
     exists y, length y = slack_total sl /\
               in_K (semK K2) (vadd (mv A2 (x ++ y)) b2) /\
               Forall (fun s => in_cone (sem_tag (fst (fst s))) (pick (x ++ y) (snd s))) sl).

Definition gen_mosek_primal_equiv_stmt : Prop :=
  forall n c (A : list (list R)) b K x,
    okK K -> wfm n A -> length x = n -> length c = n ->
    length A = SolverForms.Ksize K -> length b = SolverForms.Ksize K ->
    let d := gen_mosek_primal_apply 0%R 1%R Ropp Rplus n c A b K in
    (in_K (semK K) (vadd (mv A x) b) <->
     exists y, length y = slack_total (mpsep d) /\ mosek_primal_sat d (x ++ y)) /\
    (forall y, length y = slack_total (mpsep d) -> dot (mpc d) (x ++ y) = dot c x) /\
    mpn d = n.

Definition gen_dualize_weak_stmt : Prop :=
  forall n c (A : list (list R)) b K x y f G h Kd,
    okK K -> wfm n A -> length x = n -> length A = SolverForms.Ksize K -> length b = SolverForms.Ksize K ->
    gen_dualize Ropp n c A b K = (f, G, h, Kd) ->
    in_K (semK K) (vadd (mv A x) b) ->
    in_Kdual (semK K) y ->
    mv G y = h ->
    (dot f y <= dot c x)%R.

Definition gen_mosek_dual_reorder_stmt : Prop :=
  forall n c (A : list (list R)) b K y,
    okK K -> wfm n A -> length A = SolverForms.Ksize K -> length b = SolverForms.Ksize K -> length y = SolverForms.Ksize K ->
    let d := gen_mosek_dual_apply Ropp n c A b K in
    dot (mdf d) (regroup K y) = dot (map Ropp b) y /\
    mv (mdG d) (regroup K y) = mv (transpose n A) y /\
    mdh d = c /\
    (in_Kdual (semK K) y <-> mosek_dual_cone_ok d (regroup K y)).
