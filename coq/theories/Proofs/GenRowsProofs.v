(* Proofs/GenRowsProofs.v *)
From Coq Require Import List Bool Arith ZArith QArith Lia.
From SageVerif Require Import Model.SolverForms Model.Expr Model.Compile Gen.GenRows Proofs.GenRowsSpec.
Import ListNotations.

Lemma Qmult_m1 (x : Q) : Qmult (Qmake (-1) 1) x = Qopp x.
Proof. destruct x as [n d]. unfold Qmult, Qopp. cbn [Qnum Qden]. f_equal; try (destruct n; reflexivity). Qed.
Lemma Qmult_1 (x : Q) : Qmult (Qmake 1 1) x = x.
Proof. destruct x as [n d]. unfold Qmult. cbn [Qnum Qden]. f_equal; try (destruct n; reflexivity). Qed.

(* (-1) * x and - x, 1 * x and x are convertible on Q (the multiplication by a literal unit reduces), so the generated rows and the model's rows are
   equal by computation once the dictionary keys are case-split *)
Lemma gen_row_elementwise_equiv : gen_row_elementwise_equiv_stmt.
Proof. intros dummy e. unfold gen_row_elementwise, row_of. cbv zeta iota. destruct (keys e) as [|k ks]; reflexivity. Qed.

Lemma Qmult_1' (x : Q) : x = Qmult (Qmake 1 1) x.
Proof. destruct x as [n d]. destruct n; reflexivity. Qed.

Lemma gen_row_product_equiv : gen_row_product_equiv_stmt.
Proof.
  intros dummy e. unfold gen_row_primal_product, gen_row_dual_product, prow, row_of. cbv zeta iota.
  assert (H : match keys e with
              | [] => ([(dummy, qe_of 0)], qe_of (off e))
              | k :: ks => (map (fun a => (var_id a, qe_of (coeff_of a e))) (k :: ks), qe_of (off e))
              end =
              match keys e with
              | [] => ([(dummy, qe_of 0)], qe_of (1 * off e)%Q)
              | k :: ks => (map (fun a => (var_id a, qe_of (1 * coeff_of a e)%Q)) (k :: ks), qe_of (1 * off e)%Q)
              end).
  { destruct (keys e) as [|k ks].
    - rewrite <- (Qmult_1' (off e)). reflexivity.
    - rewrite <- (Qmult_1' (off e)). f_equal. apply map_ext. intro a. rewrite <- (Qmult_1' (coeff_of a e)). reflexivity. }
  split; exact H.
Qed.

Lemma gen_econ_block_equiv : gen_econ_block_equiv_stmt.
Proof.
  intros dummy c. unfold gen_econ_block, econ_block. cbv zeta.
  rewrite (map_ext (gen_row_elementwise dummy) (row_of dummy true) (gen_row_elementwise_equiv dummy)).
  destruct (e_op c); reflexivity.
Qed.
