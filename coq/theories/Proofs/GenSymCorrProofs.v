(* Proofs/GenSymCorrProofs.v *)
From Coq Require Import List Bool Arith ZArith QArith Qabs Lia.
From SageVerif Require Import Model.Signomial Model.SolverForms Model.SymCorr Model.SymCorrIdioms Gen.GenConsts Gen.GenSymCorr Proofs.GenSymCorrSpec.
Import ListNotations.

Lemma gen_etol_is_model : gen_etol_is_model_stmt.
Proof. reflexivity. Qed.

Lemma row_within_etol : forall a b, row_within etol a b = rows_close a b.
Proof. induction a as [|x a IH]; intros [|y b]; cbn [row_within rows_close]; try reflexivity. rewrite IH. reflexivity. Qed.

Lemma close_from_find row : forall rows k,
  match find_close row rows k with
  | Some loc => hd 0%nat (close_from etol row rows k) = loc /\ Nat.ltb 0 (length (close_from etol row rows k)) = true
  | None => close_from etol row rows k = []
  end.
Proof.
  induction rows as [|x rows IH]; intro k; cbn [find_close close_from]; [reflexivity|].
  rewrite row_within_etol. destruct (rows_close row x); [split; reflexivity|apply IH].
Qed.

Definition rc_stepR (alpha2 : list qrow) := fun (ir : nat * qrow) (acc : list nat * list nat) =>
  match find_close (snd ir) alpha2 0 with
  | Some loc => (fst ir :: fst acc, loc :: snd acc)
  | None => acc
  end.
Definition rc_stepL (alpha2 : list qrow) := fun (st : list nat * list nat) (ir : nat * qrow) =>
  match find_close (snd ir) alpha2 0 with
  | Some loc => (fst st ++ [fst ir], snd st ++ [loc])
  | None => st
  end.

Lemma rc_fold alpha2 : forall l c a,
  fold_left (rc_stepL alpha2) l (c, a) = (c ++ fst (fold_right (rc_stepR alpha2) ([], []) l), a ++ snd (fold_right (rc_stepR alpha2) ([], []) l)).
Proof.
  induction l as [|ir l IH]; intros c a; cbn [fold_left fold_right].
  - rewrite !app_nil_r. reflexivity.
  - unfold rc_stepL at 2, rc_stepR at 1 3. destruct (find_close (snd ir) alpha2 0) as [loc|]; cbn [fst snd].
    + rewrite IH, <- !app_assoc. reflexivity.
    + apply IH.
Qed.

Lemma fold_left_ext2 {X Y} (f g : X -> Y -> X) : (forall s y, f s y = g s y) -> forall l s, fold_left f l s = fold_left g l s.
Proof. intros H l. induction l as [|y l IH]; intro s; cbn [fold_left]; [reflexivity|]. rewrite H. apply IH. Qed.

Lemma gen_row_correspondence_equiv : gen_row_correspondence_equiv_stmt.
Proof.
  intros a1 a2. unfold gen_row_correspondence, row_correspondence. cbv zeta.
  rewrite (fold_left_ext2 _ (rc_stepL a2)).
  - rewrite rc_fold. cbn [app]. fold (rc_stepR a2). destruct (fold_right (rc_stepR a2) _ _); reflexivity.
  - intros [c a] [i row]. unfold rc_stepL. cbn [fst snd]. rewrite gen_etol_is_model. unfold close_rows.
    pose proof (close_from_find row a2 0) as H. destruct (find_close row a2 0) as [loc|].
    + destruct H as [H1 H2]. rewrite H2, H1. reflexivity.
    + rewrite H. reflexivity.
Qed.

Lemma fancy_fold (f : qsig) : forall common corr c,
  fold_left (fun c iv => set_nthQ (fst iv) (snd iv) c) (combine corr (take_idx (map snd f) common)) c
  = fold_left (fun c ij => set_nthQ (snd ij) (snd (nth (fst ij) f ([], 0%Q))) c) (combine common corr) c.
Proof.
  induction common as [|i common IH]; intros corr c.
  - destruct corr; reflexivity.
  - destruct corr as [|k corr]; [reflexivity|]. cbn [take_idx map combine fold_left fst snd]. 
    change (map (fun i0 => nth i0 (map snd f) 0%Q) common) with (take_idx (map snd f) common). rewrite IH.
    f_equal. f_equal. change 0%Q with (snd (@nil Q, 0%Q)). apply map_nth.
Qed.

Lemma gen_rcv_equiv : gen_rcv_equiv_stmt.
Proof.
  intros s ref. unfold gen_relative_coeff_vector, relative_coeff_vector. cbv zeta.
  rewrite gen_row_correspondence_equiv. destruct (row_correspondence (map fst s) ref) as [common corr].
  unfold fancy_assign. apply fancy_fold.
Qed.

Lemma fold_append_map2 {X Y} (f : Y -> X) : forall l acc, fold_left (fun acc y => acc ++ [f y]) l acc = acc ++ map f l.
Proof.
  induction l as [|y l IH]; intro acc; cbn [fold_left map].
  - symmetry. apply app_nil_r.
  - rewrite IH, <- app_assoc. reflexivity.
Qed.

Lemma existsb_negb_forallb {X} (p : X -> bool) : forall l, existsb (fun x => negb (p x)) l = negb (forallb p l).
Proof. induction l as [|x l IH]; cbn [existsb forallb]; [reflexivity|]. rewrite IH. destruct (p x); reflexivity. Qed.

Lemma gen_mra_equiv : gen_mra_equiv_stmt.
Proof.
  intros sy n s h L. unfold gen_moment_reduction_array, moment_reduction_array. cbv zeta.
  rewrite existsb_negb_forallb. destruct (forallb _ _); cbn [negb]; [|reflexivity].
  rewrite (fold_left_ext2 _ (fun acc a => acc ++ [relative_coeff_vector (shift_sig h a) (map fst L)])) by (intros acc a; rewrite gen_rcv_equiv; reflexivity).
  rewrite fold_append_map2. cbn [app]. rewrite map_map. reflexivity.
Qed.

From Coq Require Import Reals.
From SageVerif Require Import Math.RVec Proofs.SigSpec Proofs.SymCorrSpec Proofs.SymCorrProofs.

Lemma gen_moment_reduction_identity : gen_moment_reduction_identity_stmt.
Proof.
  intros n chi s h L C Hchi Hs Hds Hh Hdh HL Hsn Hhn H. rewrite gen_mra_equiv in H.
  exact (moment_reduction_identity n chi s h L C Hchi Hs Hds Hh Hdh HL Hsn Hhn H).
Qed.

Lemma gen_missing_exponent_is_error : gen_missing_exponent_is_error_stmt.
Proof.
  intros sy n s h L [r [Hin Hm]]. rewrite gen_mra_equiv. unfold moment_reduction_array.
  destruct (forallb (fun r0 => mem_row r0 (map fst L)) (product_rows sy n s h)) eqn:E.
  - rewrite forallb_forall in E. rewrite (E r Hin) in Hm. discriminate.
  - exists 1%nat. reflexivity.
Qed.
