(* Proofs/GenMFormsProofs.v *)
From Coq Require Import List Bool Arith Lia.
From SageVerif Require Import Model.SolverForms Model.FormIdioms Gen.GenForms Gen.GenMosekForms Proofs.GenFormsSpec Proofs.GenFormsProofs
  Proofs.GenMFormsSpec.
Import ListNotations.

Lemma fold_left_ext {X Y} (f g : X -> Y -> X) : (forall s y, f s y = g s y) -> forall l s, fold_left f l s = fold_left g l s.
Proof. intros H l. induction l as [|y l IH]; intro s; cbn [fold_left]; [reflexivity|]. rewrite H. apply IH. Qed.

Lemma fold_append_map {X Y} (f : Y -> X) : forall l acc, fold_left (fun acc y => acc ++ [f y]) l acc = acc ++ map f l.
Proof.
  induction l as [|y l IH]; intro acc; cbn [fold_left map].
  - symmetry. apply app_nil_r.
  - rewrite IH, <- app_assoc. reflexivity.
Qed.

(* ------------------------------------------------------------------ dualize_problem *)
Lemma gen_dualize_equiv : gen_dualize_equiv_stmt.
Proof.
  intros T topp n c A b K. unfold gen_dualize, dualize.
  rewrite (fold_left_ext _ (fun acc Ki => acc ++ [dual_cone Ki])).
  - rewrite fold_append_map. reflexivity.
  - intros acc [t l]. unfold dual_cone. cbn [fst snd]. destruct t; reflexivity.
Qed.

Lemma gen_mosek_dual_apply_equiv : gen_mosek_dual_apply_equiv_stmt.
Proof.
  intros T topp n c A b K. unfold gen_mosek_dual_apply, mosek_dual_apply.
  rewrite gen_dualize_equiv. unfold dualize. rewrite !gen_selector_equiv.
  reflexivity.
Qed.

(* ------------------------------------------------------------------ separate_cone_constraints *)
From SageVerif Require Import Proofs.FormsLemmas Proofs.FormsSeparate.

Lemma map_fst_combine {X Y} : forall (a : list X) (b : list Y), length a = length b -> map fst (combine a b) = a.
Proof. induction a as [|x a IH]; intros [|y b] H; cbn in *; try discriminate; [reflexivity|]. f_equal. apply IH. lia. Qed.
Lemma map_snd_combine {X Y} : forall (a : list X) (b : list Y), length a = length b -> map snd (combine a b) = b.
Proof. induction a as [|x a IH]; intros [|y b] H; cbn in *; try discriminate; [reflexivity|]. f_equal. apply IH. lia. Qed.
Lemma combine_map_r {X Y Z} (f : Y -> Z) : forall (a : list X) (b : list Y),
  combine a (map f b) = map (fun p => (fst p, f (snd p))) (combine a b).
Proof. induction a as [|x a IH]; intros [|y b]; cbn; try reflexivity. f_equal. apply IH. Qed.

Fixpoint coords (r0 : nat) (rows : list (option nat)) : list (nat * nat) :=
  match rows with
  | [] => []
  | None :: t => coords (S r0) t
  | Some k :: t => (r0, k) :: coords (S r0) t
  end.

Lemma coords_app : forall a r0 b, coords r0 (a ++ b) = coords r0 a ++ coords (r0 + length a) b.
Proof.
  induction a as [|[k|] a IH]; intros r0 b; cbn [app coords length].
  - rewrite Nat.add_0_r. reflexivity.
  - rewrite IH. cbn [app]. replace (r0 + S (length a)) with (S r0 + length a) by lia. reflexivity.
  - rewrite IH. replace (r0 + S (length a)) with (S r0 + length a) by lia. reflexivity.
Qed.
Lemma coords_none : forall l r0, coords r0 (repeat None l) = [].
Proof. induction l as [|l IH]; intro r0; cbn [repeat coords]; [reflexivity|apply IH]. Qed.
Lemma coords_some_seq : forall l r0 k, coords r0 (map Some (seq k l)) = combine (seq r0 l) (seq k l).
Proof. induction l as [|l IH]; intros r0 k; cbn [seq map coords combine]; [reflexivity|]. rewrite IH. reflexivity. Qed.
Lemma coords_ge : forall rows r0 e, In e (coords r0 rows) -> r0 <= fst e.
Proof.
  induction rows as [|[k|] rows IH]; intros r0 e H; cbn [coords] in H.
  - destruct H.
  - destruct H as [<-|H]; [cbn; lia|]. apply IH in H. lia.
  - apply IH in H. lia.
Qed.

Definition sstate := (list cone * nat * list (list nat) * list sepcone * list (list nat) * nat)%type.
Definition spec_step (n : nat) (allowed : ctag -> bool) (st : sstate) (co : cone) : sstate :=
  let '(Kout, rnv, a2, sl, a1, rri) := st in
  if allowed (fst co) then (Kout ++ [co], rnv, a2, sl, a1, rri + snd co)
  else (Kout ++ [(T0, snd co)], rnv + snd co, a2 ++ [seq rnv (snd co)],
        sl ++ [(fst co, snd co, map (fun j => n + j) (seq rnv (snd co)))], a1 ++ [seq rri (snd co)], rri + snd co).

Lemma concat_snoc {X} (l : list (list X)) x : concat (l ++ [x]) = concat l ++ x.
Proof. rewrite concat_app. cbn [concat]. rewrite app_nil_r. reflexivity. Qed.

Lemma fold_scan n allowed : forall K Kout rnv a2 sl a1 rri K2 sl2 rows,
  sep_scan K allowed n rnv = (K2, sl2, rows) ->
  exists a1' a2', fold_left (spec_step n allowed) K (Kout, rnv, a2, sl, a1, rri)
                  = (Kout ++ K2, rnv + sep_total sl2, a2', sl ++ sl2, a1', rri + Ksize K)
    /\ concat a1' = concat a1 ++ map fst (coords rri rows) /\ concat a2' = concat a2 ++ map snd (coords rri rows).
Proof.
  induction K as [|[t l] K IH]; intros Kout rnv a2 sl a1 rri K2 sl2 rows H; cbn [sep_scan] in H.
  - injection H as <- <- <-. exists a1, a2. cbn [fold_left sep_total fold_right Ksize coords map].
    rewrite !app_nil_r, !Nat.add_0_r. repeat split.
  - cbn [fold_left].
    assert (Hs : spec_step n allowed (Kout, rnv, a2, sl, a1, rri) (t, l) =
                 if allowed t then (Kout ++ [(t, l)], rnv, a2, sl, a1, rri + l)
                 else (Kout ++ [(T0, l)], rnv + l, a2 ++ [seq rnv l], sl ++ [(t, l, map (fun j => n + j) (seq rnv l))], a1 ++ [seq rri l], rri + l))
      by reflexivity.
    rewrite Hs. clear Hs. destruct (allowed t) eqn:Ea.
    + destruct (sep_scan K allowed n rnv) as [[K2' sl'] rows'] eqn:E. injection H as <- <- <-.
      destruct (IH (Kout ++ [(t, l)]) rnv a2 sl a1 (rri + l) _ _ _ E) as [a1' [a2' [Hf [H1 H2]]]].
      exists a1', a2'. rewrite Hf. split; [|split].
      * rewrite <- app_assoc. cbn [app]. f_equal. unfold Ksize. cbn [fold_right snd]. lia.
      * rewrite H1, coords_app, coords_none, repeat_length. reflexivity.
      * rewrite H2, coords_app, coords_none, repeat_length. reflexivity.
    + destruct (sep_scan K allowed n (rnv + l)) as [[K2' sl'] rows'] eqn:E. injection H as <- <- <-.
      destruct (IH (Kout ++ [(T0, l)]) (rnv + l) (a2 ++ [seq rnv l]) (sl ++ [(t, l, map (fun j => n + j) (seq rnv l))]) (a1 ++ [seq rri l]) (rri + l) _ _ _ E)
        as [a1' [a2' [Hf [H1 H2]]]].
      exists a1', a2'. rewrite Hf. split; [|split].
      * rewrite <- !app_assoc. cbn [app].
        assert (E1 : rri + l + Ksize K = rri + Ksize ((t, l) :: K)) by (unfold Ksize; cbn [fold_right snd]; lia).
        assert (E2 : rnv + l + sep_total sl' = rnv + sep_total ((t, l, map (fun j => n + j) (seq rnv l)) :: sl'))
          by (unfold sep_total; cbn [fold_right snd fst]; lia).
        rewrite E1, E2. reflexivity.
      * rewrite H1, concat_snoc, coords_app, coords_some_seq, map_length, seq_length, map_app, map_fst_combine, <- app_assoc by (rewrite !seq_length; reflexivity). reflexivity.
      * rewrite H2, concat_snoc, coords_app, coords_some_seq, map_length, seq_length, map_app, map_snd_combine, <- app_assoc by (rewrite !seq_length; reflexivity). reflexivity.
Qed.

Section Coo.
  Context {T : Type} (tzero : T) (tplus : T -> T -> T).
  Hypothesis plus0 : forall v, tplus v tzero = v.

  Definition unit_row (v : T) (w : nat) (j : option nat) : list T :=
    match j with None => repeat tzero w | Some k => repeat tzero k ++ [v] ++ repeat tzero (w - k - 1) end.

  Definition coo_f (r c : nat) := (fun (e : T * (nat * nat)) acc => if (Nat.eqb (fst (snd e)) r && Nat.eqb (snd (snd e)) c)%bool then tplus (fst e) acc else acc).

  Lemma coo_skip r c : forall a acc, (forall e, In e a -> fst (snd e) <> r) -> fold_right (coo_f r c) acc a = acc.
  Proof.
    induction a as [|e a IH]; intros acc H; cbn [fold_right]; [reflexivity|].
    rewrite IH by (intros e' He'; apply H; right; exact He').
    unfold coo_f. destruct (Nat.eqb_spec (fst (snd e)) r) as [E|E]; [exfalso; apply (H e); [left; reflexivity|exact E]|reflexivity].
  Qed.

  Lemma coo_entry_app a b r c : (forall e, In e a -> fst (snd e) <> r) -> coo_entry tzero tplus (a ++ b) r c = coo_entry tzero tplus b r c.
  Proof. intro H. unfold coo_entry. rewrite fold_right_app. apply (coo_skip r c a _ H). Qed.

  Lemma coo_entry_none a r c : (forall e, In e a -> fst (snd e) <> r) -> coo_entry tzero tplus a r c = tzero.
  Proof. intro H. apply (coo_skip r c a _ H). Qed.

  Lemma map_const_seq {Y} (y : Y) : forall n s, map (fun _ => y) (seq s n) = repeat y n.
  Proof. induction n as [|n IH]; intro s; cbn [seq map repeat]; [reflexivity|]. rewrite IH. reflexivity. Qed.

  Lemma unit_map v k : forall w, k < w ->
    map (fun c => if Nat.eqb k c then v else tzero) (seq 0 w) = repeat tzero k ++ [v] ++ repeat tzero (w - k - 1).
  Proof.
    intros w H. replace w with (k + (1 + (w - k - 1))) at 1 by lia.
    rewrite !seq_app, !map_app. cbn [seq map Nat.add]. rewrite Nat.eqb_refl. f_equal; [|f_equal].
    - rewrite <- (map_const_seq tzero k 0). apply map_ext_in. intros c Hc. apply in_seq in Hc.
      destruct (Nat.eqb_spec k c); [lia|reflexivity].
    - rewrite <- (map_const_seq tzero (w - k - 1) (k + 1)). apply map_ext_in. intros c Hc. apply in_seq in Hc.
      destruct (Nat.eqb_spec k c); [lia|reflexivity].
  Qed.

  Lemma coo_rows v ncols : forall rows r0 pre,
    (forall e, In e pre -> fst (snd e) < r0) -> Forall (row_bound ncols) rows ->
    map (fun r => map (fun c => coo_entry tzero tplus (pre ++ map (fun rc => (v, rc)) (coords r0 rows)) r c) (seq 0 ncols)) (seq r0 (length rows))
    = map (unit_row v ncols) rows.
  Proof.
    induction rows as [|o rows IH]; intros r0 pre Hpre Hb; [reflexivity|].
    inversion Hb as [|o' rows' Ho Hrows]; subst.
    assert (Htail : forall e, In e (map (fun rc => (v, rc)) (coords (S r0) rows)) -> fst (snd e) <> r0).
    { intros e He. apply in_map_iff in He. destruct He as [rc [<- Hrc]]. apply coords_ge in Hrc. cbn [fst snd]. lia. }
    assert (Hpre' : forall e, In e pre -> fst (snd e) <> r0) by (intros e He; apply Hpre in He; lia).
    cbn [length seq map]. f_equal.
    - destruct o as [k|]; cbn [coords map unit_row].
      + rewrite <- (unit_map v k ncols Ho). apply map_ext. intro c.
        rewrite coo_entry_app by exact Hpre'. unfold coo_entry. cbn [fold_right fst snd].
        fold (coo_f r0 c). rewrite (coo_skip r0 c _ _ Htail). rewrite Nat.eqb_refl. cbn [andb].
        destruct (Nat.eqb k c); [apply plus0|reflexivity].
      + rewrite <- (map_const_seq tzero ncols 0). apply map_ext. intro c.
        rewrite coo_entry_app by exact Hpre'. apply coo_entry_none. exact Htail.
    - destruct o as [k|]; cbn [coords map].
      + rewrite <- (IH (S r0) (pre ++ [(v, (r0, k))])); [|intros e He; apply in_app_iff in He; destruct He as [He|[<-|[]]]; [apply Hpre in He; lia|cbn; lia]|exact Hrows].
        apply map_ext. intro r. apply map_ext. intro c. rewrite <- app_assoc. reflexivity.
      + rewrite <- (IH (S r0) pre); [reflexivity|intros e He; apply Hpre in He; lia|exact Hrows].
  Qed.
End Coo.

Lemma hcat2_combine {X Y} (f : Y -> list X) : forall (A : list (list X)) (rows : list Y), length A = length rows ->
  hcat [A; map f rows] = map (fun rj => fst rj ++ f (snd rj)) (combine A rows).
Proof.
  intros A rows H. unfold hcat. unfold matT, rowT in *.
  assert (E : forall i, concat (map (fun G => nth i G []) [A; map f rows]) = (fun p => fst p ++ snd p) (nth i (combine A (map f rows)) ([], []))).
  { intro i. cbn [map concat]. rewrite app_nil_r. rewrite combine_nth by (rewrite map_length; exact H). reflexivity. }
  rewrite (map_ext _ _ E).
  assert (EL : length (combine A (map f rows)) = length A) by (rewrite combine_length, map_length; lia).
  rewrite <- EL.
  rewrite (map_nth_seq (fun p => fst p ++ snd p) ([], []) (combine A (map f rows))).
  rewrite combine_map_r, map_map. reflexivity.
Qed.

Lemma sep_scan_ext (f g : ctag -> bool) (Hfg : forall t, f t = g t) n : forall K next, sep_scan K f n next = sep_scan K g n next.
Proof.
  induction K as [|[t l] K IH]; intro next; cbn [sep_scan]; [reflexivity|].
  rewrite Hfg, !IH. reflexivity.
Qed.

Lemma arange_len a l : arange a (a + l) = seq a l.
Proof. unfold arange. f_equal. lia. Qed.

Lemma gen_separate_equiv : gen_separate_equiv_stmt.
Proof.
  intros T tzero tone topp tplus plus0 n A b K ds HA.
  unfold gen_separate, separate. cbv zeta.
  set (allowed := fun t => (ctag_eqb t T0 || existsb (ctag_eqb t) (ds_list ds))%bool).
  rewrite (fold_left_ext _ (spec_step n allowed)).
  2:{ intros [[[[[Kout rnv] a2] sl] a1] rri] [t l]. cbn [fst snd spec_step].
      assert (Ea : existsb (ctag_eqb t) ([T0] ++ ds_list ds) = allowed t) by reflexivity.
      unfold ds_list in Ea. rewrite Ea. rewrite !arange_len. destruct (allowed t); reflexivity. }
  destruct (sep_scan K allowed n 0) as [[K2 sl2] rows] eqn:E.
  destruct (fold_scan n allowed K [] 0 [] [] [] 0 K2 sl2 rows E) as [a1' [a2' [Hf [H1 H2]]]].
  match goal with |- context [fold_left ?f ?l ?s] => change (fold_left f l s) with (fold_left (spec_step n allowed) K ([], 0, [], [], [], 0)) end.
  rewrite Hf. cbn [app Nat.add concat] in *.
  destruct (sep_scan_struct allowed n K 0 K2 sl2 rows E) as [_ [_ [_ [_ [Hlen Hb]]]]].
  unfold sep_total, FormsSpec.slack_total, sepcone, cone in *. cbn [Nat.add] in Hb.
  destruct (fold_right _ 0 sl2) as [|tot] eqn:Et; [reflexivity|].
  cbn [Nat.ltb Nat.leb Nat.eqb]. f_equal. f_equal. f_equal.
  rewrite H1, H2.
  assert (Ec : combine (repeat (topp tone) (length (map fst (coords 0 rows)))) (combine (map fst (coords 0 rows)) (map snd (coords 0 rows)))
               = map (fun rc => (topp tone, rc)) (coords 0 rows)).
  { generalize (coords 0 rows). induction l as [|[r c] l IHl]; cbn; [reflexivity|]. f_equal. exact IHl. }
  unfold coo_matrix. rewrite Ec.
  replace (length A) with (length rows) by (rewrite Hlen; symmetry; exact HA).
  pose proof (coo_rows tzero tplus plus0 (topp tone) (S tot) rows 0 [] (fun e He => match He with end) Hb) as Hc.
  cbn [app] in Hc. rewrite Hc.
  rewrite hcat2_combine by (rewrite Hlen; exact HA). reflexivity.
Qed.

(* ------------------------------------------------------------------ Mosek._primal_apply *)
Lemma separate_ext {T} (tzero tone : T) topp (f g : ctag -> bool) (Hfg : forall t, f t = g t) n A b K :
  separate tzero tone topp n A b K f = separate tzero tone topp n A b K g.
Proof.
  unfold separate. rewrite (sep_scan_ext (fun t => (ctag_eqb t T0 || f t)%bool) (fun t => (ctag_eqb t T0 || g t)%bool)) by (intro t; rewrite Hfg; reflexivity).
  reflexivity.
Qed.

Lemma gen_mosek_primal_apply_equiv : gen_mosek_primal_apply_equiv_stmt.
Proof.
  intros T tzero tone topp tplus plus0 n c A b K HA.
  unfold gen_mosek_primal_apply, mosek_primal_apply.
  rewrite (gen_separate_equiv T tzero tone topp tplus plus0 n A b K (Some [T0; TPos]) HA).
  rewrite (separate_ext tzero tone topp _ dont_sep_mosek) by (intro t; destruct t; reflexivity).
  destruct (separate tzero tone topp n A b K dont_sep_mosek) as [[[A2 b2] K2] sl].
  rewrite !gen_selector_equiv. reflexivity.
Qed.

(* ------------------------------------------------------------------ the C10 theorems for the generated functions *)
From Coq Require Import Reals.
From SageVerif Require Import Math.RVec Proofs.MathSpec Proofs.FormsSpec Proofs.FormsMosek Proofs.FormsDual.

Lemma Rplus0 : forall v : R, (v + 0 = v)%R.
Proof. intro v. apply Rplus_0_r. Qed.

Lemma gen_separate_projection : gen_separate_projection_stmt.
Proof.
  intros n A b K ds A2 b2 K2 sl x HK HA Hx HlA Hlb H.
  rewrite (gen_separate_equiv R 0%R 1%R Ropp Rplus Rplus0 n A b K ds HlA) in H.
  exact (separate_projection n A b K _ A2 b2 K2 sl x HK HA Hx HlA Hlb H).
Qed.

Lemma gen_mosek_primal_equiv : gen_mosek_primal_equiv_stmt.
Proof.
  intros n c A b K x HK HA Hx Hc HlA Hlb.
  rewrite (gen_mosek_primal_apply_equiv R 0%R 1%R Ropp Rplus Rplus0 n c A b K HlA).
  exact (mosek_primal_equiv n c A b K x HK HA Hx Hc HlA Hlb).
Qed.

Lemma gen_dualize_weak : gen_dualize_weak_stmt.
Proof.
  intros n c A b K x y f G h Kd HK HA Hx HlA Hlb H Hin Hy HG.
  rewrite gen_dualize_equiv in H. unfold dualize in H. injection H as <- <- <- <-.
  exact (dualize_weak n c A b K x y HK HA Hx HlA Hlb Hin Hy HG).
Qed.

Lemma gen_mosek_dual_reorder : gen_mosek_dual_reorder_stmt.
Proof.
  intros n c A b K y HK HA HlA Hlb Hy.
  rewrite gen_mosek_dual_apply_equiv.
  exact (mosek_dual_reorder n c A b K y HK HA HlA Hlb Hy).
Qed.
