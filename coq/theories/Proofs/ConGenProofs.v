(* Proofs/ConGenProofs.v — C15: domain inference (Model/ConGen.v).  Collects the proofs of all
   statements of Proofs/ConGenSpec.v. *)
From SageVerif Require Export Proofs.ConGenSpec Proofs.ConGenBase Proofs.ConGenCons Proofs.ConGenNorm
  Proofs.ConGenInfer.

Lemma C15_all :
  valid_posy_selection_stmt /\ posy_normalise_iff_stmt /\ gt_con_iff_stmt /\ eq_con_iff_stmt /\
  normalised_is_normal_stmt /\ infer_exact_stmt /\ infer_contains_stmt.
Proof.
  exact (conj valid_posy_selection (conj posy_normalise_iff (conj gt_con_iff (conj eq_con_iff
  (conj normalised_is_normal (conj infer_exact infer_contains)))))).
Qed.
