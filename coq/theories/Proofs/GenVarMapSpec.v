(* Proofs/GenVarMapSpec.v — compilers.make_variable_map regenerated from the source (Gen/GenVarMap.v): read in row-major order, the index array it
   stores for a Variable is the list of columns it was given; with C20's allocation theorems (scalar_variable_ids are row-major) this says that
   variable_map[name][idx] is the column of component idx, for every shape. *)
From Coq Require Import List Bool Arith ZArith.
From SageVerif Require Import Model.Alloc Model.AllocIdioms Gen.GenVarMap.
Import ListNotations.

Definition index_tuples_nodup_stmt : Prop := forall sh, NoDup (index_tuples sh).

Definition gen_variable_map_row_major_stmt : Prop :=
  forall sh (cols : list Z), length cols = size_of sh ->
    map (gen_variable_map_entry sh cols) (index_tuples sh) = cols.

(* entry by entry: the k-th index tuple (row-major) is mapped to the k-th column *)
Definition gen_variable_map_entrywise_stmt : Prop :=
  forall sh (cols : list Z) k, length cols = size_of sh -> k < size_of sh ->
    gen_variable_map_entry sh cols (nth k (index_tuples sh) []) = nth k cols 0%Z.

(* composition with the generated allocation code (Gen/GenAlloc.v): for an unstructured Variable declared when the counter is c, the entry of
   variable_map at the k-th index tuple is the column of the scalar variable with index c + k, whatever the column assignment col_of is *)
From SageVerif Require Import Gen.GenAlloc.
Definition gen_component_placement_stmt : Prop :=
  forall sh c gen (col_of : Z -> Z) k, k < size_of sh ->
    gen_variable_map_entry sh (map col_of (snd (gen_unstructured_populate c gen sh))) (nth k (index_tuples sh) []) = col_of (c + Z.of_nat k)%Z.
