(* Proofs/Gf2Solve.v — soundness and completeness of mod2linsolve. *)
From Coq Require Import List Bool Arith ZArith Lia.
From SageVerif Require Import Model.Gf2 Proofs.Gf2Spec Proofs.Gf2Lemmas Proofs.Gf2Rref.
Import ListNotations.

(* ------------------------------------------------------------------ *)
(* augment                                                             *)
(* ------------------------------------------------------------------ *)

Lemma augment_cons : forall r A v b, augment (r :: A) (v :: b) = (r ++ [v]) :: augment A b.
Proof. reflexivity. Qed.

Lemma augment_length : forall A b, length b = length A -> length (augment A b) = length A.
Proof.
  intros A b H. unfold augment. rewrite map_length. rewrite combine_length. lia.
Qed.

Lemma augment_wf : forall n A b, wf n A -> length b = length A -> wf (S n) (augment A b).
Proof.
  intros n A. induction A as [|r A IH]; intros b Hwf Hb.
  - destruct b; constructor.
  - destruct b as [|v b]; simpl in Hb; try discriminate.
    rewrite augment_cons. pose proof (Forall_inv Hwf) as Hr. pose proof (Forall_inv_tail Hwf) as HA.
    simpl in Hr. constructor.
    + rewrite app_length. simpl. lia.
    + apply IH. exact HA. lia.
Qed.

Lemma augment_ksat : forall n A b x, wf n A -> length b = length A -> length x = n ->
  (mulmv A x = b <-> ksat (augment A b) (x ++ [true])).
Proof.
  intros n A. induction A as [|r A IH]; intros b x Hwf Hb Hx.
  - destruct b; simpl in Hb; try discriminate. simpl. split.
    + intros _ r [].
    + intros _. reflexivity.
  - destruct b as [|v b]; simpl in Hb; try discriminate.
    rewrite augment_cons. pose proof (Forall_inv Hwf) as Hr. pose proof (Forall_inv_tail Hwf) as HA.
    simpl in Hr.
    assert (dotb (r ++ [v]) (x ++ [true]) = xorb (dotb r x) v) as Hd.
    { rewrite dotb_app by lia. simpl. destruct v; reflexivity. }
    specialize (IH b x HA ltac:(lia) Hx).
    simpl. split.
    + intros H. injection H as E1 E2. intros r0 [E|Hin].
      * subst r0. rewrite Hd. rewrite E1. apply xorb_nilpotent.
      * apply IH. exact E2. exact Hin.
    + intros H. f_equal.
      * assert (dotb (r ++ [v]) (x ++ [true]) = false) as H0. { apply H. left. reflexivity. }
        rewrite Hd in H0. apply xorb_eq. exact H0.
      * apply IH. intros r0 Hin. apply H. right. exact Hin.
Qed.

(* ------------------------------------------------------------------ *)
(* enumerate_from / desc                                               *)
(* ------------------------------------------------------------------ *)

Lemma enum_In : forall l s r pc, In (r, pc) (enumerate_from s l) ->
  s <= r /\ r - s < length l /\ pc = nth (r - s) l 0.
Proof.
  induction l as [|p l IH]; intros s r pc Hin; simpl in Hin.
  - destruct Hin.
  - destruct Hin as [E|Hin].
    + injection E as E1 E2. subst r pc. replace (s - s) with 0 by lia. simpl.
      split. lia. split. lia. reflexivity.
    + destruct (IH (S s) r pc Hin) as [H1 [H2 H3]].
      replace (r - s) with (S (r - S s)) by lia. simpl.
      split. lia. split. lia. exact H3.
Qed.

Lemma enum_In0 : forall l r pc, In (r, pc) (enumerate_from 0 l) ->
  r < length l /\ pc = nth r l 0.
Proof.
  intros l r pc Hin. destruct (enum_In l 0 r pc Hin) as [_ [H2 H3]].
  rewrite Nat.sub_0_r in H2, H3. split; assumption.
Qed.

Fixpoint desc (rp : list (nat * nat)) : Prop :=
  match rp with
  | [] => True
  | (_, pc) :: rp' => (forall r' pc', In (r', pc') rp' -> pc' < pc) /\ desc rp'
  end.

Lemma desc_snoc : forall rp r pc, desc rp ->
  (forall r' pc', In (r', pc') rp -> pc < pc') -> desc (rp ++ [(r, pc)]).
Proof.
  induction rp as [|[r0 pc0] rp IH]; intros r pc Hd Hlt; simpl.
  - split. intros r' pc' []. exact I.
  - destruct Hd as [Hd1 Hd2]. split.
    + intros r' pc' Hin. apply in_app_or in Hin. destruct Hin as [Hin|Hin].
      * apply (Hd1 r' pc' Hin).
      * destruct Hin as [E|[]]. injection E as E1 E2. subst r' pc'.
        apply (Hlt r0 pc0). left. reflexivity.
    + apply IH. exact Hd2. intros r' pc' Hin. apply (Hlt r' pc'). right. exact Hin.
Qed.

Lemma desc_rev_enum : forall l s, strictly_increasing l -> desc (rev (enumerate_from s l)).
Proof.
  induction l as [|p l IH]; intros s Hsi; simpl.
  - exact I.
  - destruct (si_cons_inv p l Hsi) as [Hsi' Hlt].
    apply desc_snoc.
    + apply IH. exact Hsi'.
    + intros r' pc' Hin. apply in_rev in Hin. apply enum_In in Hin.
      destruct Hin as [_ [H2 H3]]. apply Hlt. subst pc'. apply nth_In. exact H2.
Qed.

(* ------------------------------------------------------------------ *)
(* backsolve                                                           *)
(* ------------------------------------------------------------------ *)

Lemma xorb_cancel_r : forall u w, xorb (xorb u w) w = u.
Proof. intros [|] [|]; reflexivity. Qed.

Lemma backsolve_spec : forall M b rp x,
  (forall r pc, In (r, pc) rp ->
     pc < length x /\ bit pc (nth r M []) = true /\
     forall j, j < pc -> bit j (nth r M []) = false) ->
  desc rp ->
  length (backsolve M b rp x) = length x /\
  (forall a, (forall r pc, In (r, pc) rp -> bit pc a = false) ->
             dotb a (backsolve M b rp x) = dotb a x) /\
  (forall r pc, In (r, pc) rp -> dotb (nth r M []) (backsolve M b rp x) = nth r b false).
Proof.
  intros M b rp. induction rp as [|[r0 pc0] rp IH]; intros x Hrows Hd.
  - simpl. split. reflexivity. split. intros a _. reflexivity. intros r pc [].
  - cbn [backsolve].
    match goal with |- context [set_nth pc0 ?w x] => set (v := w) end.
    destruct Hd as [Hd1 Hd2].
    destruct (Hrows r0 pc0 (or_introl eq_refl)) as [Hpc [Hone Hlow]].
    destruct (IH (set_nth pc0 v x)) as [I1 [I2 I3]].
    + intros r pc Hin. destruct (Hrows r pc (or_intror Hin)) as [G1 [G2 G3]].
      rewrite set_nth_length. repeat split; assumption.
    + exact Hd2.
    + split.
      * rewrite I1. apply set_nth_length.
      * split.
        -- intros a Ha. rewrite I2.
           ++ apply dotb_set_nth_unused. apply (Ha r0 pc0). left. reflexivity.
           ++ intros r pc Hin. apply (Ha r pc). right. exact Hin.
        -- intros r pc [E|Hin].
           ++ injection E as E1 E2. subst r pc. rewrite I2.
              ** rewrite dotb_lead by assumption. unfold v.
                 exact (xorb_cancel_r _ _).
              ** intros r pc Hin. apply Hlow. apply (Hd1 r pc Hin).
           ++ apply (I3 r pc Hin).
Qed.

(* ------------------------------------------------------------------ *)
(* the pivot test                                                      *)
(* ------------------------------------------------------------------ *)

Definition last_is (n : nat) (piv : list nat) : bool :=
  match rev piv with last :: _ => last =? n | [] => false end.

Lemma last_is_true : forall n piv, last_is n piv = true ->
  exists i, i < length piv /\ nth i piv 0 = n.
Proof.
  intros n piv H. unfold last_is in H. destruct (rev piv) as [|last l] eqn:Er.
  - discriminate.
  - apply Nat.eqb_eq in H. subst last.
    assert (piv = rev l ++ [n]) as E.
    { rewrite <- (rev_involutive piv). rewrite Er. reflexivity. }
    exists (length (rev l)). split.
    + rewrite E. rewrite app_length. simpl. lia.
    + rewrite E. apply nth_middle.
Qed.

Lemma last_is_false : forall n piv, last_is n piv = false -> strictly_increasing piv ->
  (forall i, i < length piv -> nth i piv 0 < S n) ->
  forall i, i < length piv -> nth i piv 0 < n.
Proof.
  intros n piv H Hsi Hlt i Hi. unfold last_is in H. destruct (rev piv) as [|last l] eqn:Er.
  - assert (piv = []) as E. { rewrite <- (rev_involutive piv). rewrite Er. reflexivity. }
    subst piv. simpl in Hi. lia.
  - apply Nat.eqb_neq in H.
    assert (piv = rev l ++ [last]) as E.
    { rewrite <- (rev_involutive piv). rewrite Er. reflexivity. }
    assert (length piv = S (length (rev l))) as HL.
    { rewrite E. rewrite app_length. simpl. lia. }
    assert (nth (length (rev l)) piv 0 = last) as Hlast.
    { rewrite E. apply nth_middle. }
    assert (last < n) as Hl.
    { specialize (Hlt (length (rev l)) ltac:(lia)). rewrite Hlast in Hlt. lia. }
    destruct (Nat.eq_dec i (length (rev l))) as [Ei|Ei].
    + subst i. rewrite Hlast. exact Hl.
    + assert (nth i piv 0 < nth (length (rev l)) piv 0) as Hlt2. { apply Hsi; lia. }
      rewrite Hlast in Hlt2. lia.
Qed.

(* ------------------------------------------------------------------ *)
(* main results                                                        *)
(* ------------------------------------------------------------------ *)

Lemma bit_last_true : forall n (x : row), length x = n -> bit n (x ++ [true]) = true.
Proof. intros n x Hx. subst n. unfold bit. apply nth_middle. Qed.

Lemma linsolve_unfold : forall n A b,
  mod2linsolve n A b =
  let '(A1, piv) := fwd (S n) 0 [] (augment A b) [] in
  if last_is n piv then None
  else Some (backsolve (map (firstn n) (firstn n A1))
                       (map (fun r => nth n r false) (firstn n A1))
                       (rev (enumerate_from 0 piv)) (repeat false n)).
Proof. reflexivity. Qed.

Lemma linsolve_sound_holds : linsolve_sound_stmt.
Proof.
  intros n A b x Hwf Hne Hb H.
  rewrite linsolve_unfold in H.
  destruct (fwd (S n) 0 [] (augment A b) []) as [A1 piv] eqn:Ef.
  destruct (last_is n piv) eqn:El. discriminate.
  injection H as H.
  pose proof (augment_wf n A b Hwf Hb) as HwfA0.
  pose proof (fwd_Ech (S n) (augment A b) A1 piv HwfA0 Ef) as HE.
  pose proof (ech_rank _ _ _ _ HE) as Hrank.
  pose proof (last_is_false n piv El (ech_si _ _ _ _ HE) (ech_lt _ _ _ _ HE)) as Hpivlt.
  pose proof (si_length_le piv n (ech_si _ _ _ _ HE) Hpivlt) as Hhn.
  set (M := map (firstn n) (firstn n A1)) in *.
  set (b1 := map (fun r => nth n r false) (firstn n A1)) in *.
  assert (forall r, r < length piv -> nth r M [] = firstn n (nth r A1 [])) as HM.
  { intros r Hr. unfold M. rewrite (nth_map_lt _ _ (firstn n) (firstn n A1) r [] []).
    - rewrite nth_firstn_lt by lia. reflexivity.
    - rewrite firstn_length. lia. }
  assert (forall r, r < length piv -> nth r b1 false = bit n (nth r A1 [])) as Hb1.
  { intros r Hr. unfold b1.
    rewrite (nth_map_lt _ _ (fun r0 => nth n r0 false) (firstn n A1) r false []).
    - rewrite nth_firstn_lt by lia. reflexivity.
    - rewrite firstn_length. lia. }
  destruct (backsolve_spec M b1 (rev (enumerate_from 0 piv)) (repeat false n)) as [S1 [S2 S3]].
  { intros r pc Hin. apply in_rev in Hin. apply enum_In0 in Hin. destruct Hin as [Hr Hpc].
    subst pc. pose proof (Hpivlt r Hr) as Hlt.
    destruct (ech_lead _ _ _ _ HE r Hr) as [L1 L2].
    rewrite repeat_length. rewrite (HM r Hr). split. exact Hlt. split.
    - rewrite bit_firstn by exact Hlt. exact L1.
    - intros j Hj. rewrite bit_firstn by lia. apply L2. exact Hj. }
  { apply desc_rev_enum. apply (ech_si _ _ _ _ HE). }
  rewrite H in S1, S2, S3. rewrite repeat_length in S1.
  split. exact S1.
  apply (augment_ksat n A b x Hwf Hb S1).
  destruct (ech_req _ _ _ _ HE) as [_ Hsub].
  apply (sub_ksat (S n) (augment A b) A1 (x ++ [true]) (ech_wf _ _ _ _ HE) Hsub).
  intros r Hin. destruct (In_nth A1 r [] Hin) as [i [Hi E]]. subst r.
  destruct (Nat.lt_ge_cases i (length piv)) as [Hl|Hl].
  - assert (length (nth i A1 []) = S n) as Lr. { apply wf_nth. apply (ech_wf _ _ _ _ HE). exact Hi. }
    rewrite (row_split_last n (nth i A1 []) Lr).
    rewrite dotb_app.
    + rewrite <- (HM i Hl).
      rewrite (S3 i (nth i piv 0)).
      * rewrite (Hb1 i Hl). simpl. destruct (bit n (nth i A1 [])); reflexivity.
      * apply -> in_rev. clear -Hl. revert i Hl.
        assert (forall l s i, i < length l -> In (s + i, nth i l 0) (enumerate_from s l)) as G.
        { induction l as [|p l IH]; intros s i Hi; simpl in *. lia.
          destruct i as [|i]. left. rewrite Nat.add_0_r. reflexivity.
          right. replace (s + S i) with (S s + i) by lia. apply IH. lia. }
        intros i Hl. apply (G piv 0 i Hl).
    + rewrite firstn_length. lia.
  - rewrite (ech_zero _ _ _ _ HE i Hl Hi). apply dotb_zeros_l.
Qed.

Lemma linsolve_complete_holds : linsolve_complete_stmt.
Proof.
  intros n A b Hwf Hne Hb H x Hx Hmul.
  rewrite linsolve_unfold in H.
  destruct (fwd (S n) 0 [] (augment A b) []) as [A1 piv] eqn:Ef.
  destruct (last_is n piv) eqn:El. 2: discriminate.
  pose proof (augment_wf n A b Hwf Hb) as HwfA0.
  pose proof (fwd_Ech (S n) (augment A b) A1 piv HwfA0 Ef) as HE.
  pose proof (ech_rank _ _ _ _ HE) as Hrank.
  destruct (last_is_true n piv El) as [i [Hi Hpi]].
  apply (augment_ksat n A b x Hwf Hb Hx) in Hmul.
  destruct (ech_req _ _ _ _ HE) as [Hsub _].
  pose proof (sub_ksat (S n) A1 (augment A b) (x ++ [true]) HwfA0 Hsub Hmul) as Hk.
  assert (dotb (nth i A1 []) (x ++ [true]) = false) as H0.
  { apply Hk. apply nth_In. lia. }
  destruct (ech_lead _ _ _ _ HE i Hi) as [L1 L2]. rewrite Hpi in L1, L2.
  rewrite (dotb_single n) in H0.
  - rewrite L1 in H0. rewrite (bit_last_true n x Hx) in H0. discriminate.
  - intros j Hj. destruct (Nat.lt_ge_cases j n) as [Hl|Hl].
    + rewrite L2 by exact Hl. reflexivity.
    + rewrite (bit_overflow j (x ++ [true])). apply andb_false_r.
      rewrite app_length. simpl. lia.
Qed.
