(* Proofs/RelaxProofs.v — the C03 theorems (statements in Proofs/RelaxSpec.v), collected.
   RelaxBase: modulator_pos, primal_coeffs_denote, sig_primal_sound.
   RelaxCoef: lagrangian_coeffs (coefficient identities via indicator "characters").
   RelaxDual: sig_dual_point, sig_weak_duality. *)
From SageVerif Require Export Proofs.RelaxSpec Proofs.RelaxBase Proofs.RelaxCoef Proofs.RelaxDual.

Definition C03_all :
  modulator_pos_stmt /\ primal_coeffs_denote_stmt /\ sig_primal_sound_stmt /\
  sig_dual_point_stmt /\ lagrangian_coeffs_stmt /\ sig_weak_duality_stmt :=
  conj modulator_pos (conj primal_coeffs_denote (conj sig_primal_sound
  (conj sig_dual_point (conj lagrangian_coeffs sig_weak_duality)))).
