(* Proofs/SymCorrSpec.v — statements of the C16 theorems about Model/SymCorr.v. *)
From Coq Require Import Reals List Bool Arith ZArith QArith Qreals Lra.
From SageVerif Require Import Math.RVec Model.Signomial Model.SolverForms Model.SymCorr Proofs.SigSpec.
Import ListNotations.
Open Scope R_scope.

(* A "character": how an exponent row denotes a basis function value at a fixed point.
   Signomials: chi a = exp(a.x); polynomials: chi a = prod x_k^a_k.  The theorems hold for every
   map that is multiplicative and respects row equality. *)
Definition character (n : nat) (chi : qrow -> R) : Prop :=
  (forall a b, length a = n -> length b = n -> chi (vaddq a b) = chi a * chi b) /\
  (forall a b, qrow_eqb a b = true -> chi a = chi b).

Definition evalchi (chi : qrow -> R) (f : qsig) : R :=
  fold_right (fun t acc => Q2R (snd t) * chi (fst t) + acc) 0 f.

(* the signomial character is one *)
Definition sig_character_stmt : Prop :=
  forall n x, length x = n -> character n (fun a => exp (dot (rowR a) x)).

(* ---- row matching ---- *)
(* on the 10^-7 grid the 10^-8 tolerance test is equality *)
Definition row_corr_grid_stmt : Prop :=
  forall a b, on_grid_row a -> on_grid_row b -> rows_close a b = qrow_eqb a b.

(* relative_coeff_vector places g's coefficients at the matching rows of the reference, zero
   elsewhere; this characterisation does not mention the order of the rows (row-order independence) *)
Definition rcv_placement_stmt : Prop :=
  forall n (g : qsig) (ref : list qrow),
    wfsig n g -> rows_distinct g ->
    Forall (fun r => length r = n /\ on_grid_row r) ref ->
    (forall i j, (i < j)%nat -> (j < length ref)%nat -> qrow_eqb (nth i ref []) (nth j ref []) = false) ->
    length (relative_coeff_vector g ref) = length ref /\
    forall k, (k < length ref)%nat ->
      Qeq (nth k (relative_coeff_vector g ref) 0%Q) (query_coeff g (nth k ref [])).

(* ---- moment reduction ---- *)
Definition rowsC (C : list (list Q)) (chi : qrow -> R) (L : qsig) : list R :=
  map (fun Ci => fold_right Rplus 0 (map (fun cl => Q2R (fst cl) * chi (fst (snd cl))) (combine Ci L))) C.

(* s.c . (C G_L) for a coefficient vector cs *)
Definition pairing (cs : list Q) (v : list R) : R :=
  fold_right Rplus 0 (map (fun cv => Q2R (fst cv) * snd cv) (combine cs v)).

Definition with_coeffs (s : qsig) (cs : list Q) : qsig := map (fun tc => (fst (fst tc), snd tc)) (combine s cs).

Definition wfL (n : nat) (L : qsig) : Prop := wfsig n L /\ rows_distinct L.

(* builders' case (s_h has Variable coefficients): if no error is raised, the identity holds for
   EVERY coefficient vector of s *)
Definition moment_reduction_identity_stmt : Prop :=
  forall n chi (s h L : qsig) C,
    character n chi -> wfsig n s -> rows_distinct s -> wfsig n h -> rows_distinct h -> wfL n L ->
    s <> [] -> h <> [] ->
    moment_reduction_array true n s h L = Ok C ->
    forall cs, length cs = length s ->
      evalchi chi (with_coeffs s cs) * evalchi chi h = pairing cs (rowsC C chi L).

(* numeric s_h: if no error is raised the identity holds for s's own coefficients *)
Definition moment_reduction_own_stmt : Prop :=
  forall n chi (s h L : qsig) C,
    character n chi -> wfsig n s -> rows_distinct s -> wfsig n h -> rows_distinct h -> wfL n L ->
    s <> [] -> h <> [] ->
    moment_reduction_array false n s h L = Ok C ->
    evalchi chi s * evalchi chi h = pairing (map snd s) (rowsC C chi L).

(* a missing exponent is an error: the array is returned only when every exponent of the
   product (as product_rows computes it) occurs among L's exponents *)
Definition missing_exponent_is_error_stmt : Prop :=
  forall sy n (s h L : qsig),
    (exists e, moment_reduction_array sy n s h L = Err e) <->
    exists r, In r (product_rows sy n s h) /\ mem_row r (map fst L) = false.

(* in the builders' case every pairwise sum alpha_s + alpha_h with nonzero h coefficient is tested *)
Definition symbolic_rows_complete_stmt : Prop :=
  forall n (s h : qsig) a b ca cb,
    In (a, ca) s -> In (b, cb) h -> qiszero cb = false -> (2 <= length s * length h)%nat ->
    mem_row (round_row (vaddq a b)) (product_rows true n s h) = true.
