(* Proofs/MathAge.v — AGE certificate soundness and primal/dual AGE pairing. *)
From Coq Require Import Reals List Lra Lia.
From SageVerif Require Import Math.RVec Proofs.MathSpec Proofs.MathVec Proofs.MathExp
  Proofs.MathCones.
Import ListNotations.
Open Scope R_scope.

Lemma age_cover_nonneg : age_cover_nonneg_stmt.
Proof.
  intros epi cJ nu HF. induction HF as [|e c v le lc lv HK HF IH]; constructor; auto.
  destruct (kexp_second_nonneg _ _ _ HK) as [Hy _].
  pose proof (exp_pos 1) as He.
  destruct (Rle_or_lt 0 c) as [H|H]; auto.
  exfalso. assert (exp 1 * c < exp 1 * 0) by (apply Rmult_lt_compat_l; lra). lra.
Qed.

(* Row-wise pairing of the primal exponential-cone rows (-epi_j, e c_j, nu_j)
   with dual-side rows (d_j, v_j, vi), summed over j. *)
Lemma kexp_rows_sum : forall vi epi cJ nu,
  Forall3 (fun e c v => Kexp (- e) (exp 1 * c) v) epi cJ nu ->
  forall ds vJ, Forall2 (fun d vj => Kexp d vj vi) ds vJ -> length ds = length nu ->
  dot nu ds - vi * rsum epi <= dot cJ vJ.
Proof.
  intros vi epi cJ nu HF.
  induction HF as [|e c v le lc lv HK HF IH]; intros ds vJ H2 Hlen.
  - simpl. lra.
  - destruct H2 as [|d vj ds' vJ' Hrow H2']; simpl in Hlen; try discriminate.
    simpl.
    assert (Hlen' : length ds' = length lv) by (now injection Hlen).
    specialize (IH ds' vJ' H2' Hlen').
    assert (HD : KexpDual (- v) c e).
    { unfold KexpDual. rewrite Ropp_involutive. exact HK. }
    pose proof (kexp_dual_pair _ _ _ _ _ _ HD Hrow) as Hp.
    unfold rsum in *. lra.
Qed.

Definition shiftM (alpha_i : list R) (alphaJ : list (list R)) : list (list R) :=
  map (fun r => vsub r alpha_i) alphaJ.

Lemma wfm_shiftM : forall n alpha_i alphaJ, length alpha_i = n -> wfm n alphaJ ->
  wfm n (shiftM alpha_i alphaJ).
Proof.
  intros n alpha_i alphaJ Hi Hwf. unfold wfm, shiftM in *.
  apply Forall_map. eapply Forall_impl; [|exact Hwf].
  intros r Hr. simpl in *. rewrite length_vsub; congruence.
Qed.

(* common core of age_cert_nonneg and age_pairing *)
Lemma age_core :
  forall (n : nat) (alpha_i : list R) (alphaJ : list (list R)) (ci : R) (cJ nu epi : list R)
         (A : list (list R)) (b eta : list R) (K : list (ctype * nat))
         (vi : R) (vJ mu : list R),
    length alpha_i = n -> wfm n alphaJ -> wfm n A ->
    length b = length A -> length eta = length A ->
    0 <= ci - dot eta b - rsum epi ->
    Forall3 (fun e c v => Kexp (- e) (exp 1 * c) v) epi cJ nu ->
    length alphaJ = length nu ->
    vsub (tmv n (shiftM alpha_i alphaJ) nu) (tmv n A eta) = vzero n ->
    in_Kdual K eta ->
    length mu = n -> 0 <= vi ->
    Forall2 (fun d vj => Kexp d vj vi) (mv (shiftM alpha_i alphaJ) mu) vJ ->
    in_K K (vadd (mv A mu) (vscale vi b)) ->
    0 <= ci * vi + dot cJ vJ.
Proof.
  intros n alpha_i alphaJ ci cJ nu epi A b eta K vi vJ mu
         Hi HwJ HwA Hb Heta Hrow0 HF HlenJ Hbal HKd Hmu Hvi HF2 HK.
  pose proof (wfm_shiftM n alpha_i alphaJ Hi HwJ) as HwM.
  set (M := shiftM alpha_i alphaJ) in *.
  assert (HlenM : length M = length nu).
  { unfold M, shiftM. rewrite map_length. exact HlenJ. }
  (* rows *)
  assert (Hsum : dot nu (mv M mu) - vi * rsum epi <= dot cJ vJ).
  { apply kexp_rows_sum; try assumption. rewrite length_mv. exact HlenM. }
  (* balance *)
  assert (Hbal' : tmv n M nu = tmv n A eta).
  { apply (vsub_eq_zero n); try assumption; apply length_tmv; assumption. }
  assert (Htr : dot nu (mv M mu) = dot eta (mv A mu)).
  { rewrite <- (tmv_dot n M nu mu HwM Hmu (eq_sym HlenM)).
    rewrite Hbal'. apply tmv_dot; assumption. }
  (* cone pairing *)
  pose proof (dualK_pair K eta _ HKd HK) as Hpair.
  rewrite dot_vadd_r in Hpair by (rewrite length_mv, length_vscale; congruence).
  rewrite dot_vscale_r in Hpair.
  pose proof (Rmult_le_pos _ _ Hvi Hrow0) as Hprod.
  replace (vi * (ci - dot eta b - rsum epi))
    with (ci * vi - vi * dot eta b - vi * rsum epi) in Hprod by ring.
  lra.
Qed.

Lemma exp_rows : forall ds, Forall2 (fun d vj => Kexp d vj 1) ds (map exp ds).
Proof.
  induction ds as [|d ds IH]; simpl; constructor; auto.
  apply exp_epi_iff. lra.
Qed.

Lemma sigeval_factor : forall n alpha_i z, length alpha_i = n -> length z = n ->
  forall alphaJ cJ, wfm n alphaJ ->
  sigeval alphaJ cJ z
  = exp (dot alpha_i z) * dot cJ (map exp (mv (shiftM alpha_i alphaJ) z)).
Proof.
  intros n alpha_i z Hi Hz.
  induction alphaJ as [|a alphaJ IH]; intros cJ Hwf; simpl.
  - rewrite dot_nil_r. ring.
  - destruct cJ as [|c cJ]; simpl; [ring|].
    inversion Hwf as [|a' l' Ha Hwf']; subst.
    rewrite (IH cJ Hwf').
    rewrite dot_vsub_l by congruence.
    replace (exp (dot a z)) with (exp (dot alpha_i z) * exp (dot a z - dot alpha_i z)).
    + fold (shiftM alpha_i alphaJ). ring.
    + rewrite <- exp_plus. f_equal. ring.
Qed.

Lemma age_cert_nonneg : age_cert_nonneg_stmt.
Proof.
  intros n alpha_i alphaJ ci cJ nu epi A b eta K
         Hi HwJ HwA Hb Heta Hrow0 HF HlenJ Hbal HKd z Hz HK.
  fold (shiftM alpha_i alphaJ) in Hbal.
  rewrite (sigeval_factor n alpha_i z Hi Hz alphaJ cJ HwJ).
  set (ds := mv (shiftM alpha_i alphaJ) z).
  assert (Hcore : 0 <= ci * 1 + dot cJ (map exp ds)).
  { apply (age_core n alpha_i alphaJ ci cJ nu epi A b eta K 1 (map exp ds) z);
      try assumption; try lra.
    - apply exp_rows.
    - rewrite vscale_1. exact HK. }
  pose proof (exp_pos (dot alpha_i z)) as HE.
  replace (ci * exp (dot alpha_i z) + exp (dot alpha_i z) * dot cJ (map exp ds))
    with (exp (dot alpha_i z) * (ci * 1 + dot cJ (map exp ds))) by ring.
  apply Rmult_le_pos; lra.
Qed.

Lemma age_cert_nonneg_ord : age_cert_nonneg_ord_stmt.
Proof.
  intros n alpha_i alphaJ ci cJ nu epi Hi HwJ Hrow0 HF HlenJ Hbal z Hz.
  apply (age_cert_nonneg n alpha_i alphaJ ci cJ nu epi [] [] [] []); try assumption;
    try reflexivity.
  - constructor.
  - simpl. lra.
  - simpl. rewrite Hbal. apply vsub_vzero_r. apply length_vzero.
Qed.

Lemma pairing_rows : forall n alpha_i mu vi, length alpha_i = n ->
  forall alphaJ vJ, wfm n alphaJ ->
  Forall2 (fun aj vj => Kexp (- dot (vsub alpha_i aj) mu) vj vi) alphaJ vJ ->
  Forall2 (fun d vj => Kexp d vj vi) (mv (shiftM alpha_i alphaJ) mu) vJ.
Proof.
  intros n alpha_i mu vi Hi alphaJ vJ Hwf HF2.
  induction HF2 as [|aj vj alphaJ vJ Hrow HF2 IH]; simpl; constructor.
  - inversion Hwf as [|a' l' Ha Hwf']; subst.
    rewrite dot_vsub_l in Hrow by congruence.
    rewrite dot_vsub_l by congruence.
    replace (dot aj mu - dot alpha_i mu) with (- (dot alpha_i mu - dot aj mu)) by ring.
    exact Hrow.
  - apply IH. inversion Hwf; assumption.
Qed.

Lemma age_pairing : age_pairing_stmt.
Proof.
  intros n alpha_i alphaJ ci cJ nu epi A b eta K vi vJ mu
         Hi HwJ HwA Hb Heta Hrow0 HF HlenJ Hbal HKd Hmu HlenV Hvi HF2 HK.
  fold (shiftM alpha_i alphaJ) in Hbal.
  apply (age_core n alpha_i alphaJ ci cJ nu epi A b eta K vi vJ mu); try assumption.
  apply (pairing_rows n); assumption.
Qed.
