(* Proofs/PolyProofs.v — the C05 theorems (statements in Proofs/PolySpec.v), collected.
   PolyBase: monomials at |x| and log|x|, parity, |q| for rationals, termwise comparison.
   PolyRepProofs: sigrep_even_unchanged, create_covers_valid, poly_dual_links, sigrep_lower_bound,
                  standard_multiplier_pos.
   PolyRelax: poly_primal_sound, bound_extends_by_continuity. *)
From SageVerif Require Export Proofs.PolySpec Proofs.PolyBase Proofs.PolyRepProofs Proofs.PolyRelax.

Definition C05_all :
  sigrep_even_unchanged_stmt /\ create_covers_valid_stmt /\ poly_dual_links_stmt /\
  sigrep_lower_bound_stmt /\ standard_multiplier_pos_stmt /\ poly_primal_sound_stmt /\
  bound_extends_by_continuity_stmt :=
  conj sigrep_even_unchanged (conj create_covers_valid (conj poly_dual_links
  (conj sigrep_lower_bound (conj standard_multiplier_pos (conj poly_primal_sound
   bound_extends_by_continuity))))).
