(* Proofs/SymSigOps.v — C13: the instance of Proofs/SymSigBag.v at C := sexpr, phi := value rho.
   Zero detection, the constructor, sum, add, scale, mul, sub and without_zeros commute with
   substitution of values for the Variables. *)
From Coq Require Import Reals List Bool Arith ZArith QArith Qreals Lra Lia.
From SageVerif Require Import Math.RVec Model.Expr Model.Signomial Model.SymSig
  Proofs.ExprSpec Proofs.ExprAtoms Proofs.ExprScalar Proofs.SigSpec Proofs.SigLemmas Proofs.SigRound
  Proofs.SymCorrSpec Proofs.SymSigSpec Proofs.SymSigBag.
Import ListNotations.
Local Open Scope R_scope.

(* ------------------------------------------------------------------ *)
(* the semantic map value rho : sexpr -> R *)
Lemma v_zero : forall rho, value rho (sconst 0%Q) = 0.
Proof. intros. rewrite value_sconst. apply EQ2R_0. Qed.

Lemma v_iszero : forall rho c, s_iszero c = true -> value rho c = 0.
Proof.
  intros rho c H. unfold s_iszero in H. apply andb_prop in H as [Hc Ho].
  rewrite (is_constant_sound c Hc rho). now apply Qeq_bool_0_Q2R.
Qed.

Lemma v_mul : forall rho a b, s_mul_ok a b = true -> value rho (s_mul a b) = value rho a * value rho b.
Proof.
  intros rho a b H. unfold s_mul. destruct (smul a b) as [r|] eqn:E.
  - now apply value_smul.
  - exfalso. unfold smul in E. unfold s_mul_ok in H.
    destruct (is_constant b); [discriminate E|].
    destruct (is_constant a); [discriminate E|]. discriminate H.
Qed.

Lemma is_constant_sconst : forall q, is_constant (sconst q) = true.
Proof. reflexivity. Qed.

Lemma sev_gev : forall chi rho f, sevalchi chi rho f = gev (value rho) chi f.
Proof. reflexivity. Qed.

Lemma wfs_gwf : forall n f, wfs n f <-> gwf n f.
Proof. intros. reflexivity. Qed.

(* ------------------------------------------------------------------ *)
(* zero detection *)
Lemma NoDupE_filter : forall p l, NoDupE l -> NoDupE (filter p l).
Proof.
  intros p l H. induction H as [|x l Hx Hl IH]; simpl; [constructor|].
  destruct (p x); auto. constructor; auto.
  destruct (mem_atom x (filter p l)) eqn:E; auto.
  apply mem_atom_iff in E as [y [Hy1 Hy2]]. apply filter_In in Hy1 as [Hy1 _].
  now rewrite (mem_atom_false _ _ Hx y Hy1) in Hy2.
Qed.

Lemma live_keys_nodup : forall e, NoDupE (live_keys e).
Proof. intros. unfold live_keys. apply NoDupE_filter, keys_nodup. Qed.

Lemma Q2R_nonzero : forall q, ~ Qeq q 0 -> Q2R q <> 0.
Proof.
  intros q H E. apply H. apply eqR_Qeq. rewrite E. symmetry. apply EQ2R_0.
Qed.

Lemma rsumf_cons : forall A (f : A -> R) a l, rsumf f (a :: l) = f a + rsumf f l.
Proof. reflexivity. Qed.

Lemma iszero_iff_identically_zero : iszero_iff_identically_zero_stmt.
Proof.
  intros e Ha. split.
  - intros H rho. now apply v_iszero.
  - intros H. destruct (is_affine_exact e Ha) as [_ [Hlive _]].
    pose proof (value_affine e Ha) as Hval.
    assert (Hoff : Q2R (off e) = 0).
    { pose proof (H (fun _ => 0)) as H0. rewrite Hval in H0.
      rewrite rsumf_zero in H0; [lra|]. intros; lra. }
    unfold s_iszero. apply andb_true_intro. split.
    + unfold is_constant. destruct (live_keys e) as [|a l] eqn:L; auto. exfalso.
      destruct (Hlive a) as [Hva Hca]; [now left|].
      pose proof (live_keys_nodup e) as Hnd. rewrite L in Hnd. inversion Hnd as [|? ? Hm Hl']; subst.
      destruct a as [i|k xs]; [|discriminate Hva].
      pose proof (H (fun j => if Z.eqb i j then 1 else 0)) as Hi. rewrite Hval in Hi. rewrite ?L in Hi.
      rewrite rsumf_cons in Hi. cbv beta in Hi. simpl var_id in Hi. rewrite Z.eqb_refl in Hi.
      rewrite rsumf_zero in Hi.
      * apply (Q2R_nonzero _ Hca). lra.
      * intros b Hb. destruct (Hlive b) as [Hvb _]; [now right|].
        destruct b as [j|k xs]; [|discriminate Hvb]. simpl var_id.
        pose proof (mem_atom_false _ _ Hm (AVar j) Hb) as Hne. simpl in Hne. rewrite Hne. lra.
    + apply Qeq_bool_iff. apply eqR_Qeq. rewrite Hoff. symmetry. apply EQ2R_0.
Qed.

(* ------------------------------------------------------------------ *)
(* the constructor *)
Lemma s_mk_wf : forall n f, widths n f -> wfs n (s_mk f).
Proof. intros n f H. apply (gmk_wf (sconst 0%Q) sadd n f H). Qed.

Lemma s_mk_nonempty : forall f, f <> [] -> s_mk f <> [].
Proof. intros f H. apply (gmk_nonempty (sconst 0%Q) sadd f H). Qed.

Lemma s_mk_ev : forall n chi rho f, character n chi ->
  sevalchi chi rho (s_mk f) = sevalchi chi rho (map (fun t => (round_row (fst t), snd t)) f).
Proof.
  intros n chi rho f [_ Hr].
  exact (gmk_eval (sconst 0%Q) sadd (value rho) chi (v_zero rho) (value_sadd rho) Hr f).
Qed.

Lemma s_mk_eval : s_mk_eval_stmt.
Proof.
  intros n chi rho f Hc Hw. split.
  - now apply s_mk_wf.
  - now apply (s_mk_ev n).
Qed.

Lemma s_mk_ev_grid : forall n chi rho f, character n chi -> wfs n f ->
  sevalchi chi rho (s_mk f) = sevalchi chi rho f.
Proof.
  intros n chi rho f [_ Hr] Hw.
  exact (gmk_eval_grid (sconst 0%Q) sadd (value rho) chi (v_zero rho) (value_sadd rho) Hr n f Hw).
Qed.

(* ------------------------------------------------------------------ *)
(* without_zeros *)
Lemma s_wz_ev : forall n chi rho f, character n chi -> wfs n f ->
  sevalchi chi rho (s_without_zeros n f) = sevalchi chi rho f.
Proof.
  intros n chi rho f [_ Hr] Hw.
  exact (gwz_eval (sconst 0%Q) sadd (value rho) chi (v_zero rho) (value_sadd rho) Hr
           sconst s_iszero (v_iszero rho) (v_zero rho) n f Hw).
Qed.

Lemma s_wz_wf : forall n f, wfs n f -> wfs n (s_without_zeros n f).
Proof. intros n f H. exact (gwz_wf (sconst 0%Q) sadd sconst s_iszero n f H). Qed.

Lemma s_wz_nonempty : forall n f, f <> [] -> s_without_zeros n f <> [].
Proof. intros n f H. exact (gwz_nonempty (sconst 0%Q) sadd sconst s_iszero n f H). Qed.

(* ------------------------------------------------------------------ *)
(* sums *)
Lemma s_sum_eval : s_sum_eval_stmt.
Proof.
  intros n chi rho fs [_ Hr] Hw Hne Hfs. split; [|split].
  - exact (gsum_eval (sconst 0%Q) sadd (value rho) chi (v_zero rho) (value_sadd rho) Hr n fs Hw).
  - exact (gsum_wf (sconst 0%Q) sadd n fs Hw).
  - exact (gsum_nonempty (sconst 0%Q) sadd fs Hfs Hne).
Qed.

Lemma s_add_eval : s_add_eval_stmt.
Proof.
  intros n chi rho f g [_ Hr] Hf Hg Hnf Hng. split; [|split].
  - exact (gadd_eval (sconst 0%Q) sadd (value rho) chi (v_zero rho) (value_sadd rho) Hr
             sconst s_iszero (v_iszero rho) (v_zero rho) n f g Hf Hg).
  - exact (gadd_wf (sconst 0%Q) sadd sconst s_iszero n f g Hf Hg).
  - exact (gadd_nonempty (sconst 0%Q) sadd sconst s_iszero n f g Hnf Hng).
Qed.

(* ------------------------------------------------------------------ *)
(* products *)
Lemma product_defined_pairs : forall f g, product_defined f g = true ->
  forall t1 t2, In t1 f -> In t2 g -> s_mul_ok (snd t1) (snd t2) = true.
Proof.
  intros f g H t1 t2 H1 H2. unfold product_defined in H.
  rewrite forallb_forall in H. specialize (H t1 H1). rewrite forallb_forall in H. now apply H.
Qed.

Lemma s_mul_gen : forall n chi rho f g, character n chi -> wfs n f -> wfs n g -> f <> [] -> g <> [] ->
  (forall t1 t2, In t1 f -> In t2 g -> s_mul_ok (snd t1) (snd t2) = true) ->
  sevalchi chi rho (s_mul_sig n f g) = sevalchi chi rho f * sevalchi chi rho g /\
  wfs n (s_mul_sig n f g) /\ s_mul_sig n f g <> [].
Proof.
  intros n chi rho f g [Hm Hr] Hf Hg Hnf Hng Hp. split; [|split].
  - apply (gmul_eval (sconst 0%Q) sadd (value rho) chi (v_zero rho) (value_sadd rho) Hr
             sconst s_iszero (v_iszero rho) (v_zero rho) n Hm s_mul f g Hf Hg).
    intros t1 t2 H1 H2. apply v_mul. now apply Hp.
  - exact (gmul_wf (sconst 0%Q) sadd sconst s_iszero n s_mul f g Hf Hg).
  - exact (gmul_nonempty (sconst 0%Q) sadd sconst s_iszero n s_mul f g Hnf Hng).
Qed.

Lemma s_mul_eval : s_mul_eval_stmt.
Proof.
  intros n chi rho f g Hc Hf Hg Hnf Hng Hp. apply s_mul_gen; auto.
  now apply product_defined_pairs.
Qed.

(* the constant function: one term at the zero row *)
Lemma const_ssig_eq : forall n e, const_ssig n e = [(round_row (repeat 0%Q n), e)].
Proof. intros. exact (gconst_eq (sconst 0%Q) sadd n e). Qed.

Lemma const_ssig_wf : forall n e, wfs n (const_ssig n e).
Proof. intros. exact (gconst_wf (sconst 0%Q) sadd n e). Qed.

Lemma const_ssig_nonempty : forall n e, const_ssig n e <> [].
Proof. intros. rewrite const_ssig_eq. discriminate. Qed.

Lemma const_ssig_ev : forall n chi rho e, character n chi ->
  sevalchi chi rho (const_ssig n e) = value rho e * chi (repeat 0%Q n).
Proof.
  intros n chi rho e [_ Hr].
  exact (gconst_eval (sconst 0%Q) sadd (value rho) chi (v_zero rho) (value_sadd rho) Hr n e).
Qed.

(* chi(0) acts as 1 on every function of width n *)
Lemma vaddq_zeros : forall a, qrow_eqb (vaddq a (repeat 0%Q (length a))) a = true.
Proof.
  induction a as [|x a IH]; [reflexivity|]. cbn [length repeat vaddq qrow_eqb].
  apply andb_true_intro. split; auto.
  apply Qeq_bool_iff. apply (Qeq_trans _ (x + 0)%Q); [apply Qred_correct | apply Qplus_0_r].
Qed.

Lemma chi_zeros_unit : forall n chi a, character n chi -> length a = n ->
  chi a * chi (repeat 0%Q n) = chi a.
Proof.
  intros n chi a [Hm Hr] Hl. rewrite <- Hm; auto; [|apply repeat_length].
  apply Hr. subst n. apply vaddq_zeros.
Qed.

Lemma sev_zeros_unit : forall n chi rho f, character n chi -> wfs n f ->
  sevalchi chi rho f * chi (repeat 0%Q n) = sevalchi chi rho f.
Proof.
  intros n chi rho f Hc Hw. induction Hw as [|t f [Hl _] Hw IH].
  - unfold sevalchi. simpl. lra.
  - unfold sevalchi in *. cbn [fold_right]. rewrite Rmult_plus_distr_r, IH, Rmult_assoc.
    f_equal. f_equal. exact (chi_zeros_unit n chi (fst t) Hc Hl).
Qed.

Lemma s_scale_unfold : forall n q f, s_scale n q f = s_mul_sig n f (const_ssig n (sconst q)).
Proof. reflexivity. Qed.

Lemma s_scale_eval : s_scale_eval_stmt.
Proof.
  intros n chi rho q f Hc Hf Hnf. rewrite s_scale_unfold.
  destruct (s_mul_gen n chi rho f (const_ssig n (sconst q)) Hc Hf (const_ssig_wf n _) Hnf
              (const_ssig_nonempty n _)) as [He [Hw Hn]].
  - intros t1 t2 _ H2. rewrite const_ssig_eq in H2. destruct H2 as [<-|[]]. simpl.
    unfold s_mul_ok. rewrite is_constant_sconst. apply orb_true_r.
  - split; [|split]; auto.
    rewrite He, (const_ssig_ev n), value_sconst by auto.
    rewrite <- (sev_zeros_unit n chi rho f Hc Hf) at 2. ring.
Qed.

Lemma s_sub_unfold : forall n f g, s_sub n f g = s_add n f (s_scale n (-1)%Q g).
Proof. reflexivity. Qed.

Lemma s_sub_eval : s_sub_eval_stmt.
Proof.
  intros n chi rho f g Hc Hf Hg Hnf Hng. rewrite s_sub_unfold.
  destruct (s_scale_eval n chi rho (-1)%Q g Hc Hg Hng) as [He [Hw Hn]].
  destruct (s_add_eval n chi rho f _ Hc Hf Hw Hnf Hn) as [He' [Hw' Hn']].
  split; [|split]; auto. rewrite He', He, EQ2R_m1. lra.
Qed.

(* ------------------------------------------------------------------ *)
(* without_zeros: the specification as stated is false (rows that are on the grid but not in
   canonical form are re-rounded; coinciding rows are merged).  Counterexample and corrected
   statements. *)
Lemma without_zeros_spec_s_loose_refuted : ~ without_zeros_spec_s_loose_stmt.
Proof.
  intros H.
  set (f := [([2 # 2]%Q, svar 1%Z); ([0%Q], sconst 0%Q)] : ssig).
  assert (Hc : character 1 (fun _ => 1)) by (split; intros; lra).
  assert (Hw : wfs 1 f).
  { unfold f. repeat constructor; simpl; unfold Qeq; vm_compute; reflexivity. }
  destruct (H 1%nat (fun _ => 1) (fun _ => 0) f Hc Hw) as [_ H2].
  assert (E : s_without_zeros 1 f = [([1%Q], svar 1%Z)]) by (vm_compute; reflexivity).
  specialize (H2 ([1%Q], svar 1%Z)). rewrite E in H2.
  destruct H2 as [[_ Hin]|Heq]; [now left|simpl; lia| |].
  - unfold f in Hin. destruct Hin as [Hin|[Hin|[]]]; discriminate Hin.
  - vm_compute in Heq. discriminate Heq.
Qed.

(* corrected: for operands with pairwise distinct rows, every term of the result has a nonzero
   coefficient and is a term of the operand up to the (value-preserving) re-rounding of its row *)
Definition without_zeros_spec_s_corrected_stmt : Prop :=
  forall n chi rho f, character n chi -> wfs n f -> NoDupR (map fst f) ->
    sevalchi chi rho (s_without_zeros n f) = sevalchi chi rho f /\
    (forall t, In t (s_without_zeros n f) -> (2 <= length f)%nat ->
       (s_iszero (snd t) = false /\
        exists t', In t' f /\ snd t = snd t' /\ qrow_eqb (fst t) (fst t') = true) \/
       (s_without_zeros n f = s_mk [(repeat 0%Q n, sconst 0%Q)])).

Lemma without_zeros_spec_s_corrected : without_zeros_spec_s_corrected_stmt.
Proof.
  intros n chi rho f Hc Hw Hd. split; [now apply s_wz_ev|].
  intros t Ht Hlen.
  destruct (gwz_terms (sconst 0%Q) sadd sconst s_iszero n f Hw Hd t Ht Hlen) as [[Hz [t' [Hin Ht']]]|E].
  - left. split; auto. exists t'. split; auto. destruct Ht' as [->| ->].
    + split; auto. apply qrow_eqb_refl.
    + simpl. split; auto. apply round_row_eqb.
      unfold wfs in Hw. rewrite Forall_forall in Hw. now apply Hw.
  - right. exact E.
Qed.

(* the statement as written holds when, in addition, the rows are in canonical (rounded) form,
   which is what the constructor produces *)
Definition without_zeros_spec_s_canonical_stmt : Prop :=
  forall n chi rho f, character n chi -> wfs n f -> NoDupR (map fst f) ->
    Forall (fun t => round_row (fst t) = fst t) f ->
    sevalchi chi rho (s_without_zeros n f) = sevalchi chi rho f /\
    (forall t, In t (s_without_zeros n f) -> (2 <= length f)%nat ->
       (s_iszero (snd t) = false /\ In t f) \/ (s_without_zeros n f = s_mk [(repeat 0%Q n, sconst 0%Q)])).

Lemma without_zeros_spec_s_canonical : without_zeros_spec_s_canonical_stmt.
Proof.
  intros n chi rho f Hc Hw Hd Hcan. split; [now apply s_wz_ev|].
  intros t Ht Hlen.
  destruct (gwz_terms (sconst 0%Q) sadd sconst s_iszero n f Hw Hd t Ht Hlen) as [[Hz [t' [Hin Ht']]]|E].
  - left. split; auto. destruct Ht' as [->| ->]; auto.
    rewrite Forall_forall in Hcan. rewrite (Hcan t' Hin). now destruct t'.
  - right. exact E.
Qed.

(* the value-preservation half of the original statement holds unconditionally *)
Lemma without_zeros_eval_s : forall n chi rho f, character n chi -> wfs n f ->
  sevalchi chi rho (s_without_zeros n f) = sevalchi chi rho f.
Proof. exact s_wz_ev. Qed.

(* the statement of Proofs/SymSigSpec.v (canonical rows) *)
Lemma without_zeros_spec_s : without_zeros_spec_s_stmt.
Proof. exact without_zeros_spec_s_canonical. Qed.
