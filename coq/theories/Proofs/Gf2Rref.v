(* Proofs/Gf2Rref.v — forward elimination / back substitution invariants and the
   mod2rref theorems. *)
From Coq Require Import List Bool Arith ZArith Lia.
From SageVerif Require Import Model.Gf2 Proofs.Gf2Spec Proofs.Gf2Lemmas.
Import ListNotations.

(* ------------------------------------------------------------------ *)
(* split_first_one, others, elim_below                                 *)
(* ------------------------------------------------------------------ *)

Lemma sfo_none : forall k rows, split_first_one k rows = None ->
  forall r, In r rows -> bit k r = false.
Proof.
  intros k rows. induction rows as [|r0 rows IH]; intros H r Hin; cbn [split_first_one] in H.
  - destruct Hin.
  - destruct (bit k r0) eqn:Eb. discriminate.
    destruct (split_first_one k rows) as [[[pre p] post]|] eqn:Es. discriminate.
    destruct Hin as [E|Hin]. subst r. exact Eb. apply IH. reflexivity. exact Hin.
Qed.

Lemma sfo_some : forall k rows pre p post, split_first_one k rows = Some (pre, p, post) ->
  rows = pre ++ p :: post /\ bit k p = true.
Proof.
  intros k rows. induction rows as [|r0 rows IH]; intros pre p post H; cbn [split_first_one] in H.
  - discriminate.
  - destruct (bit k r0) eqn:Eb.
    + injection H as E1 E2 E3. subst pre p post. split. reflexivity. exact Eb.
    + destruct (split_first_one k rows) as [[[pre' p'] post']|] eqn:Es; try discriminate.
      injection H as E1 E2 E3. subst pre p post.
      destruct (IH pre' p' post' eq_refl) as [F1 F2]. split.
      * simpl. rewrite <- F1. reflexivity.
      * exact F2.
Qed.

Definition others (pre post : mat) : mat :=
  match pre with [] => post | r0 :: pre' => pre' ++ r0 :: post end.

Lemma others_In : forall pre post r, In r (others pre post) <-> In r pre \/ In r post.
Proof.
  intros [|r0 pre] post r; simpl.
  - tauto.
  - rewrite in_app_iff. simpl. tauto.
Qed.

Lemma others_length : forall pre post, length (others pre post) = length pre + length post.
Proof.
  intros [|r0 pre] post; simpl. reflexivity. rewrite app_length. simpl. lia.
Qed.

Lemma split_In : forall (pre : mat) p post r,
  In r (pre ++ p :: post) <-> r = p \/ In r (others pre post).
Proof.
  intros pre p post r. rewrite others_In. rewrite in_app_iff. simpl.
  split.
  - intros [H|[H|H]]; auto.
  - intros [H|[H|H]]; auto.
Qed.

Lemma fwd_S : forall f k top rest piv,
  fwd (S f) k top rest piv =
  match rest with
  | [] => (top, piv)
  | _ :: _ =>
      match split_first_one k rest with
      | None => fwd f (S k) top rest piv
      | Some (pre, p, post) =>
          fwd f (S k) (top ++ [p]) (elim_below k p (others pre post)) (piv ++ [k])
      end
  end.
Proof. reflexivity. Qed.

Lemma elim_below_In : forall k p rows r', In r' (elim_below k p rows) <->
  exists r, In r rows /\ r' = (if bit k r then xorrow r p else r).
Proof.
  intros k p rows r'. unfold elim_below. rewrite in_map_iff. split.
  - intros [r [E Hin]]. exists r. split. exact Hin. symmetry. exact E.
  - intros [r [Hin E]]. exists r. split. symmetry. exact E. exact Hin.
Qed.

(* ------------------------------------------------------------------ *)
(* The loop invariant of fwd                                           *)
(* ------------------------------------------------------------------ *)

Record Inv (n : nat) (A0 : mat) (k : nat) (top rest : mat) (piv : list nat) : Prop := {
  inv_wf_top : wf n top;
  inv_wf_rest : wf n rest;
  inv_len : length (top ++ rest) = length A0;
  inv_req : req n (top ++ rest) A0;
  inv_pivlen : length piv = length top;
  inv_si : strictly_increasing piv;
  inv_lt : forall i, i < length piv -> nth i piv 0 < k;
  inv_lead : forall i, i < length top ->
      bit (nth i piv 0) (nth i top []) = true /\
      forall j, j < nth i piv 0 -> bit j (nth i top []) = false;
  inv_below : forall i i', i < i' -> i' < length top ->
      bit (nth i piv 0) (nth i' top []) = false;
  inv_rest_piv : forall i r, i < length top -> In r rest -> bit (nth i piv 0) r = false;
  inv_rest_zero : forall r j, In r rest -> j < k -> bit j r = false
}.

Lemma Inv_init : forall n A, wf n A -> Inv n A 0 [] A [].
Proof.
  intros n A Hwf. constructor; simpl.
  - constructor.
  - exact Hwf.
  - reflexivity.
  - apply req_refl.
  - reflexivity.
  - apply si_nil.
  - intros i Hi. lia.
  - intros i Hi. lia.
  - intros i i' H1 H2. lia.
  - intros i r Hi. lia.
  - intros r j _ Hj. lia.
Qed.

Lemma Inv_nil_mono : forall n A0 k k' top piv, k <= k' ->
  Inv n A0 k top [] piv -> Inv n A0 k' top [] piv.
Proof.
  intros n A0 k k' top piv Hk H. destruct H. constructor; try assumption.
  - intros i Hi. specialize (inv_lt0 i Hi). lia.
  - intros r j [].
Qed.

Lemma Inv_skip : forall n A0 k top rest piv,
  Inv n A0 k top rest piv -> split_first_one k rest = None ->
  Inv n A0 (S k) top rest piv.
Proof.
  intros n A0 k top rest piv H Hs. destruct H. constructor; try assumption.
  - intros i Hi. specialize (inv_lt0 i Hi). lia.
  - intros r j Hin Hj. destruct (Nat.eq_dec j k) as [E|E].
    + subst j. apply (sfo_none k rest Hs r Hin).
    + apply inv_rest_zero0. exact Hin. lia.
Qed.

Lemma step_req : forall n k top pre p post, wf n (pre ++ p :: post) ->
  req n ((top ++ [p]) ++ elim_below k p (others pre post)) (top ++ pre ++ p :: post).
Proof.
  intros n k top pre p post Hwf.
  assert (In p (pre ++ p :: post)) as Hp. { apply split_In. left. reflexivity. }
  split.
  - intros r Hin. apply in_app_or in Hin. destruct Hin as [Hin|Hin].
    + apply in_app_or in Hin. destruct Hin as [Hin|Hin].
      * apply Span_in. apply in_or_app. left. exact Hin.
      * destruct Hin as [E|[]]. subst r. apply Span_in. apply in_or_app. right. exact Hp.
    + apply elim_below_In in Hin. destruct Hin as [r0 [Hr0 E]].
      assert (In r0 (top ++ pre ++ p :: post)) as Hr0'.
      { apply in_or_app. right. apply split_In. right. exact Hr0. }
      subst r. destruct (bit k r0).
      * apply Span_xor. apply Span_in. exact Hr0'. apply Span_in. apply in_or_app. right. exact Hp.
      * apply Span_in. exact Hr0'.
  - intros r Hin. apply in_app_or in Hin. destruct Hin as [Hin|Hin].
    + apply Span_in. apply in_or_app. left. apply in_or_app. left. exact Hin.
    + assert (In p ((top ++ [p]) ++ elim_below k p (others pre post))) as Hp'.
      { apply in_or_app. left. apply in_or_app. right. left. reflexivity. }
      assert (length r = n) as Lr. { apply (wf_in n _ r Hwf Hin). }
      assert (length p = n) as Lp. { apply (wf_in n _ p Hwf Hp). }
      apply split_In in Hin. destruct Hin as [E|Hin].
      * subst r. apply Span_in. exact Hp'.
      * assert (In (if bit k r then xorrow r p else r)
                   ((top ++ [p]) ++ elim_below k p (others pre post))) as Hr'.
        { apply in_or_app. right. apply elim_below_In. exists r. split. exact Hin. reflexivity. }
        destruct (bit k r).
        -- rewrite <- (xorrow_invol r p) by lia.
           apply Span_xor. apply Span_in. exact Hr'. apply Span_in. exact Hp'.
        -- apply Span_in. exact Hr'.
Qed.

Lemma Inv_pivot : forall n A0 k top pre p post piv,
  Inv n A0 k top (pre ++ p :: post) piv -> bit k p = true ->
  Inv n A0 (S k) (top ++ [p]) (elim_below k p (others pre post)) (piv ++ [k]).
Proof.
  intros n A0 k top pre p post piv H Hkp. destruct H.
  assert (In p (pre ++ p :: post)) as Hp. { apply split_In. left. reflexivity. }
  assert (length p = n) as Lp. { apply (wf_in n _ p inv_wf_rest0 Hp). }
  assert (forall r, In r (others pre post) -> In r (pre ++ p :: post)) as Hoth.
  { intros r Hr. apply split_In. right. exact Hr. }
  constructor.
  - (* wf top *)
    apply wf_app. split. exact inv_wf_top0. constructor. exact Lp. constructor.
  - (* wf rest *)
    apply wf_intro. intros r' Hin. apply elim_below_In in Hin. destruct Hin as [r [Hr E]].
    assert (length r = n) as Lr. { apply (wf_in n _ r inv_wf_rest0). apply Hoth. exact Hr. }
    subst r'. destruct (bit k r). rewrite xorrow_length; lia. exact Lr.
  - (* length *)
    rewrite <- inv_len0. rewrite !app_length. unfold elim_below. rewrite map_length.
    rewrite others_length. simpl. lia.
  - (* req *)
    apply (req_trans n _ (top ++ pre ++ p :: post)).
    + apply step_req. exact inv_wf_rest0.
    + exact inv_req0.
  - rewrite !app_length. simpl. lia.
  - apply si_snoc. exact inv_si0. exact inv_lt0.
  - (* pivots < S k *)
    intros i Hi. rewrite app_length in Hi. simpl in Hi.
    destruct (Nat.lt_ge_cases i (length piv)) as [Hl|Hl].
    + rewrite app_nth1 by exact Hl. specialize (inv_lt0 i Hl). lia.
    + assert (i = length piv) as E by lia. subst i. rewrite nth_middle. lia.
  - (* leading ones *)
    intros i Hi. rewrite app_length in Hi. simpl in Hi.
    destruct (Nat.lt_ge_cases i (length top)) as [Hl|Hl].
    + rewrite (app_nth1 piv) by lia. rewrite (app_nth1 top) by lia. apply inv_lead0. exact Hl.
    + assert (i = length top) as E by lia. subst i.
      rewrite (nth_middle top). rewrite <- inv_pivlen0. rewrite (nth_middle piv).
      split. exact Hkp. intros j Hj. apply (inv_rest_zero0 p j Hp Hj).
  - (* below *)
    intros i i' Hii' Hi'. rewrite app_length in Hi'. simpl in Hi'.
    rewrite (app_nth1 piv) by lia.
    destruct (Nat.lt_ge_cases i' (length top)) as [Hl|Hl].
    + rewrite (app_nth1 top) by lia. apply inv_below0; lia.
    + assert (i' = length top) as E by lia. subst i'.
      rewrite (nth_middle top). apply inv_rest_piv0. lia. exact Hp.
  - (* rest is zero in pivot columns *)
    intros i r' Hi Hin. rewrite app_length in Hi. simpl in Hi.
    apply elim_below_In in Hin. destruct Hin as [r [Hr E]].
    assert (In r (pre ++ p :: post)) as Hr'. { apply Hoth. exact Hr. }
    assert (length r = n) as Lr. { apply (wf_in n _ r inv_wf_rest0 Hr'). }
    destruct (Nat.lt_ge_cases i (length top)) as [Hl|Hl].
    + rewrite (app_nth1 piv) by lia.
      assert (bit (nth i piv 0) r = false) as B1. { apply inv_rest_piv0. exact Hl. exact Hr'. }
      assert (bit (nth i piv 0) p = false) as B2. { apply inv_rest_piv0. exact Hl. exact Hp. }
      subst r'. destruct (bit k r).
      * rewrite bit_xorrow by lia. rewrite B1, B2. reflexivity.
      * exact B1.
    + assert (i = length piv) as E' by lia. subst i. rewrite nth_middle.
      subst r'. destruct (bit k r) eqn:Eb.
      * rewrite bit_xorrow by lia. rewrite Eb, Hkp. reflexivity.
      * exact Eb.
  - (* rest is zero left of S k *)
    intros r' j Hin Hj.
    apply elim_below_In in Hin. destruct Hin as [r [Hr E]].
    assert (In r (pre ++ p :: post)) as Hr'. { apply Hoth. exact Hr. }
    assert (length r = n) as Lr. { apply (wf_in n _ r inv_wf_rest0 Hr'). }
    destruct (Nat.eq_dec j k) as [Ej|Ej].
    + subst j. subst r'. destruct (bit k r) eqn:Eb.
      * rewrite bit_xorrow by lia. rewrite Eb, Hkp. reflexivity.
      * exact Eb.
    + assert (bit j r = false) as B1. { apply inv_rest_zero0. exact Hr'. lia. }
      assert (bit j p = false) as B2. { apply inv_rest_zero0. exact Hp. lia. }
      subst r'. destruct (bit k r).
      * rewrite bit_xorrow by lia. rewrite B1, B2. reflexivity.
      * exact B1.
Qed.

Lemma fwd_inv : forall n A0 fuel k top rest piv R piv',
  fuel + k = n -> Inv n A0 k top rest piv -> fwd fuel k top rest piv = (R, piv') ->
  exists top' rest', R = top' ++ rest' /\ Inv n A0 n top' rest' piv'.
Proof.
  intros n A0 fuel. induction fuel as [|f IH]; intros k top rest piv R piv' Hk HI Hf.
  - simpl in Hf. injection Hf as E1 E2. subst R piv'. simpl in Hk. subst k.
    exists top, rest. split. reflexivity. exact HI.
  - rewrite fwd_S in Hf. destruct rest as [|r0 rest0].
    + injection Hf as E1 E2. subst R piv'. exists top, []. split.
      * rewrite app_nil_r. reflexivity.
      * apply (Inv_nil_mono n A0 k n). lia. exact HI.
    + destruct (split_first_one k (r0 :: rest0)) as [[[pre p] post]|] eqn:Es.
      * destruct (sfo_some k _ pre p post Es) as [E Hkp].
        apply (IH (S k) (top ++ [p]) (elim_below k p (others pre post)) (piv ++ [k]) R piv').
        -- lia.
        -- apply Inv_pivot. rewrite <- E. exact HI. exact Hkp.
        -- exact Hf.
      * apply (IH (S k) top (r0 :: rest0) piv R piv').
        -- lia.
        -- apply Inv_skip. exact HI. exact Es.
        -- exact Hf.
Qed.

(* ------------------------------------------------------------------ *)
(* Echelon form of a whole matrix                                      *)
(* ------------------------------------------------------------------ *)

Record Ech (n : nat) (A0 R : mat) (piv : list nat) : Prop := {
  ech_wf : wf n R;
  ech_len : length R = length A0;
  ech_req : req n R A0;
  ech_rank : length piv <= length R;
  ech_si : strictly_increasing piv;
  ech_lt : forall i, i < length piv -> nth i piv 0 < n;
  ech_lead : forall i, i < length piv ->
      bit (nth i piv 0) (nth i R []) = true /\
      forall j, j < nth i piv 0 -> bit j (nth i R []) = false;
  ech_below : forall i i', i < length piv -> i < i' -> i' < length R ->
      bit (nth i piv 0) (nth i' R []) = false;
  ech_zero : forall i, length piv <= i -> i < length R -> nth i R [] = zeros n
}.

Lemma Inv_Ech : forall n A0 top rest piv, Inv n A0 n top rest piv -> Ech n A0 (top ++ rest) piv.
Proof.
  intros n A0 top rest piv H. destruct H. constructor.
  - apply wf_app. split; assumption.
  - exact inv_len0.
  - exact inv_req0.
  - rewrite app_length. lia.
  - exact inv_si0.
  - exact inv_lt0.
  - intros i Hi. rewrite app_nth1 by lia. apply inv_lead0. lia.
  - intros i i' Hi Hii' Hi'. rewrite app_length in Hi'.
    destruct (Nat.lt_ge_cases i' (length top)) as [Hl|Hl].
    + rewrite app_nth1 by lia. apply inv_below0; lia.
    + rewrite app_nth2 by lia. apply inv_rest_piv0. lia. apply nth_In. lia.
  - intros i Hi Hi'. rewrite app_length in Hi'. rewrite app_nth2 by lia.
    assert (In (nth (i - length top) rest []) rest) as Hin. { apply nth_In. lia. }
    apply row_all_false.
    + apply (wf_in n rest _ inv_wf_rest0 Hin).
    + intros j Hj. apply (inv_rest_zero0 _ j Hin Hj).
Qed.

Lemma fwd_Ech : forall n A R piv, wf n A -> fwd n 0 [] A [] = (R, piv) -> Ech n A R piv.
Proof.
  intros n A R piv Hwf Hf.
  destruct (fwd_inv n A n 0 [] A [] R piv) as [top [rest [E HI]]].
  - lia.
  - apply Inv_init. exact Hwf.
  - exact Hf.
  - subst R. apply Inv_Ech. exact HI.
Qed.

(* ------------------------------------------------------------------ *)
(* Back substitution                                                   *)
(* ------------------------------------------------------------------ *)

Definition Unit (R : mat) (piv : list nat) (pr : nat) : Prop :=
  forall i i', i < pr -> i' < length R -> i' <> i -> bit (nth i piv 0) (nth i' R []) = false.

Section BackStep.
  Variables (n : nat) (A0 R : mat) (piv : list nat) (pr : nat).
  Hypothesis HE : Ech n A0 R piv.
  Hypothesis Hpr : pr < length piv.
  Hypothesis HU : Unit R piv pr.

  Let pc := nth pr piv 0.
  Let R' := back_step R pr pc.

  Lemma bs_length : length R' = length R.
  Proof. unfold R', back_step. apply mapi_length. Qed.

  Lemma bs_prow_len : length (nth pr R []) = n.
  Proof. apply wf_nth. apply (ech_wf _ _ _ _ HE). pose proof (ech_rank _ _ _ _ HE). lia. Qed.

  Lemma bs_prow_low : forall j, j < pc -> bit j (nth pr R []) = false.
  Proof. intros j Hj. apply (ech_lead _ _ _ _ HE pr Hpr). exact Hj. Qed.

  Lemma bs_prow_pc : bit pc (nth pr R []) = true.
  Proof. apply (ech_lead _ _ _ _ HE pr Hpr). Qed.

  Lemma bs_nth : forall i, i < length R ->
    nth i R' [] = if (i <? pr) && bit pc (nth i R [])
                  then xorrow (nth i R []) (nth pr R []) else nth i R [].
  Proof.
    intros i Hi. unfold R', back_step. cbv zeta.
    rewrite (mapi_nth row row _ R i [] []) by exact Hi.
    destruct ((i <? pr) && bit pc (nth i R [])).
    - apply xor_from_xorrow.
      + rewrite bs_prow_len. apply wf_nth. apply (ech_wf _ _ _ _ HE). exact Hi.
      + exact bs_prow_low.
    - reflexivity.
  Qed.

  Lemma bs_row_len : forall i, i < length R -> length (nth i R []) = n.
  Proof. intros i Hi. apply wf_nth. apply (ech_wf _ _ _ _ HE). exact Hi. Qed.

  Lemma bs_nth_ge : forall i, i < length R -> pr <= i -> nth i R' [] = nth i R [].
  Proof.
    intros i Hi Hge. rewrite bs_nth by exact Hi.
    assert (i <? pr = false) as E. { apply Nat.ltb_ge. exact Hge. }
    rewrite E. reflexivity.
  Qed.

  Lemma bs_bit_low : forall i j, i < length R -> j < pc -> bit j (nth i R' []) = bit j (nth i R []).
  Proof.
    intros i j Hi Hj. rewrite bs_nth by exact Hi.
    destruct ((i <? pr) && bit pc (nth i R [])).
    - rewrite bit_xorrow.
      + rewrite bs_prow_low by exact Hj. apply xorb_false_r.
      + rewrite bs_prow_len. apply bs_row_len. exact Hi.
    - reflexivity.
  Qed.

  Lemma bs_bit_pc : forall i, i < pr -> bit pc (nth i R' []) = false.
  Proof.
    intros i Hi.
    assert (i < length R) as Hi'. { pose proof (ech_rank _ _ _ _ HE). lia. }
    rewrite bs_nth by exact Hi'.
    assert (i <? pr = true) as E. { apply Nat.ltb_lt. exact Hi. }
    rewrite E. simpl. destruct (bit pc (nth i R [])) eqn:Eb.
    - rewrite bit_xorrow.
      + rewrite Eb, bs_prow_pc. reflexivity.
      + rewrite bs_prow_len. apply bs_row_len. exact Hi'.
    - exact Eb.
  Qed.

  Lemma bs_piv_lt : forall i, i < pr -> nth i piv 0 < pc.
  Proof. intros i Hi. apply (ech_si _ _ _ _ HE). exact Hi. exact Hpr. Qed.

  Lemma bs_wf : wf n R'.
  Proof.
    apply wf_intro. intros r Hin. destruct (In_nth R' r [] Hin) as [i [Hi E]].
    rewrite bs_length in Hi. subst r. rewrite bs_nth by exact Hi.
    destruct ((i <? pr) && bit pc (nth i R [])).
    - rewrite xorrow_length. apply bs_row_len. exact Hi.
      rewrite bs_prow_len. apply bs_row_len. exact Hi.
    - apply bs_row_len. exact Hi.
  Qed.

  Lemma bs_req : req n R' R.
  Proof.
    assert (pr < length R) as HprR. { pose proof (ech_rank _ _ _ _ HE). lia. }
    split.
    - intros r Hin. destruct (In_nth R' r [] Hin) as [i [Hi E]].
      rewrite bs_length in Hi. subst r. rewrite bs_nth by exact Hi.
      destruct ((i <? pr) && bit pc (nth i R [])).
      + apply Span_xor; apply Span_in; apply nth_In; assumption.
      + apply Span_in. apply nth_In. exact Hi.
    - intros r Hin. destruct (In_nth R r [] Hin) as [i [Hi E]]. subst r.
      assert (In (nth i R' []) R') as H1. { apply nth_In. rewrite bs_length. exact Hi. }
      assert (In (nth pr R' []) R') as H2. { apply nth_In. rewrite bs_length. exact HprR. }
      rewrite (bs_nth_ge pr HprR (le_n pr)) in H2.
      rewrite bs_nth in H1 by exact Hi.
      destruct ((i <? pr) && bit pc (nth i R [])).
      + rewrite <- (xorrow_invol (nth i R []) (nth pr R [])).
        * apply Span_xor; apply Span_in; assumption.
        * rewrite bs_prow_len. apply bs_row_len. exact Hi.
      + apply Span_in. exact H1.
  Qed.

  Lemma back_step_Ech : Ech n A0 R' piv.
  Proof.
    pose proof (ech_rank _ _ _ _ HE) as Hrank.
    constructor.
    - exact bs_wf.
    - rewrite bs_length. apply (ech_len _ _ _ _ HE).
    - apply (req_trans n R' R A0). exact bs_req. apply (ech_req _ _ _ _ HE).
    - rewrite bs_length. exact Hrank.
    - apply (ech_si _ _ _ _ HE).
    - apply (ech_lt _ _ _ _ HE).
    - intros i Hi.
      destruct (Nat.lt_ge_cases i pr) as [Hl|Hl].
      + pose proof (bs_piv_lt i Hl) as Hlt. split.
        * rewrite bs_bit_low by lia. apply (ech_lead _ _ _ _ HE i Hi).
        * intros j Hj. rewrite bs_bit_low by lia. apply (ech_lead _ _ _ _ HE i Hi). exact Hj.
      + rewrite bs_nth_ge by lia. apply (ech_lead _ _ _ _ HE i Hi).
    - intros i i' Hi Hii' Hi'. rewrite bs_length in Hi'.
      destruct (Nat.lt_ge_cases i' pr) as [Hl|Hl].
      + assert (nth i piv 0 < pc) as Hlt. { apply bs_piv_lt. lia. }
        rewrite bs_bit_low by lia. apply (ech_below _ _ _ _ HE); assumption.
      + rewrite bs_nth_ge by lia. apply (ech_below _ _ _ _ HE); assumption.
    - intros i Hi Hi'. rewrite bs_length in Hi'. rewrite bs_nth_ge by lia.
      apply (ech_zero _ _ _ _ HE); assumption.
  Qed.

  Lemma back_step_Unit : Unit R' piv (S pr).
  Proof.
    pose proof (ech_rank _ _ _ _ HE) as Hrank.
    intros i i' Hi Hi' Hne. rewrite bs_length in Hi'.
    destruct (Nat.lt_ge_cases i pr) as [Hl|Hl].
    - pose proof (bs_piv_lt i Hl) as Hlt.
      rewrite bs_bit_low by lia. apply HU; assumption.
    - assert (i = pr) as E by lia. subst i. fold pc.
      destruct (Nat.lt_ge_cases i' pr) as [Hl'|Hl'].
      + apply bs_bit_pc. exact Hl'.
      + rewrite bs_nth_ge by lia. apply (ech_below _ _ _ _ HE). exact Hpr. lia. exact Hi'.
  Qed.
End BackStep.

Lemma back_subst_aux_Ech : forall n A0 piv rest_piv done R,
  piv = done ++ rest_piv -> Ech n A0 R piv -> Unit R piv (length done) ->
  Ech n A0 (back_subst_aux R (length done) rest_piv) piv /\
  Unit (back_subst_aux R (length done) rest_piv) piv (length piv).
Proof.
  intros n A0 piv rest_piv. induction rest_piv as [|pc rest_piv IH]; intros done R Hp HE HU.
  - simpl. rewrite app_nil_r in Hp. subst done. split; assumption.
  - cbn [back_subst_aux].
    assert (length done < length piv) as Hlt.
    { rewrite Hp. rewrite app_length. simpl. lia. }
    assert (nth (length done) piv 0 = pc) as Hpc.
    { rewrite Hp. apply nth_middle. }
    rewrite <- Hpc.
    replace (S (length done)) with (length (done ++ [pc])) by (rewrite app_length; simpl; lia).
    apply IH.
    + rewrite <- app_assoc. simpl. exact Hp.
    + apply back_step_Ech; assumption.
    + rewrite app_length. simpl. rewrite Nat.add_1_r. apply (back_step_Unit n A0); assumption.
Qed.

Lemma ncols_wf : forall n A, wf n A -> A <> [] -> ncols A = n.
Proof.
  intros n [|r A] Hwf Hne. congruence. simpl. apply (wf_in n (r :: A)). exact Hwf. left. reflexivity.
Qed.

Lemma rref_Ech : forall fo n A R piv, wf n A -> A <> [] -> mod2rref fo A = (R, piv) ->
  Ech n A R piv /\ (fo = false -> Unit R piv (length piv)).
Proof.
  intros fo n A R piv Hwf Hne H. unfold mod2rref in H.
  rewrite (ncols_wf n A Hwf Hne) in H.
  destruct (fwd n 0 [] A []) as [A1 piv1] eqn:Ef.
  pose proof (fwd_Ech n A A1 piv1 Hwf Ef) as HE.
  destruct fo.
  - injection H as E1 E2. subst R piv. split. exact HE. intro F. discriminate.
  - injection H as E1 E2. subst R piv1. unfold back_subst.
    destruct (back_subst_aux_Ech n A piv piv [] A1) as [H1 H2].
    + reflexivity.
    + exact HE.
    + intros i i' Hi. simpl in Hi. lia.
    + simpl in H1, H2. split. exact H1. intros _. exact H2.
Qed.

(* ------------------------------------------------------------------ *)
(* The mod2rref theorems                                               *)
(* ------------------------------------------------------------------ *)

Lemma rref_shape_holds : rref_shape_stmt.
Proof.
  intros fo n A R piv Hwf H.
  destruct A as [|r A].
  - unfold mod2rref in H. simpl in H. destruct fo; injection H as E1 E2; subst R piv.
    + split. reflexivity. constructor.
    + split. reflexivity. constructor.
  - destruct (rref_Ech fo n (r :: A) R piv Hwf) as [HE _]. discriminate. exact H.
    split. apply (ech_len _ _ _ _ HE). apply (ech_wf _ _ _ _ HE).
Qed.

Lemma rref_rowspace_holds : rref_rowspace_stmt.
Proof.
  intros fo n A R piv Hwf Hne H.
  destruct (rref_Ech fo n A R piv Hwf Hne H) as [HE _].
  destruct (ech_req _ _ _ _ HE) as [H1 H2]. split.
  - intros r Hin. apply Span_in_span. exact Hwf. apply H1. exact Hin.
  - intros r Hin. apply Span_in_span. apply (ech_wf _ _ _ _ HE). apply H2. exact Hin.
Qed.

Lemma rref_ksat : forall fo n A R piv x, wf n A -> A <> [] -> mod2rref fo A = (R, piv) ->
  (ksat A x <-> ksat R x).
Proof.
  intros fo n A R piv x Hwf Hne H.
  destruct (rref_Ech fo n A R piv Hwf Hne H) as [HE _].
  symmetry. apply (req_ksat n R A x). apply (ech_wf _ _ _ _ HE). exact Hwf. apply (ech_req _ _ _ _ HE).
Qed.

Lemma rref_kernel_holds : rref_kernel_stmt.
Proof.
  intros fo n A R piv x Hwf Hne Hx H.
  rewrite !mulmv_zeros_ksat. apply (rref_ksat fo n A R piv x Hwf Hne H).
Qed.

Lemma piv_ge_of_count : forall piv k i, strictly_increasing piv -> i < length piv ->
  length (filter (fun p => p <? k) piv) <= i -> k <= nth i piv 0.
Proof.
  intros piv k i Hsi Hi Hc.
  destruct (Nat.lt_ge_cases (nth i piv 0) k) as [Hl|Hl]. 2: exact Hl.
  exfalso.
  assert (i < length (filter (fun p => p <? k) piv)) as Hcontra.
  { apply filter_lt_count. exact Hi. intros j Hj.
    destruct (Nat.eq_dec j i) as [E|E]. subst j. exact Hl.
    assert (nth j piv 0 < nth i piv 0) as Hlt. { apply Hsi; lia. }
    lia. }
  lia.
Qed.

Lemma rref_echelon_holds : rref_echelon_stmt.
Proof.
  intros fo n A R piv Hwf Hne H.
  destruct (rref_Ech fo n A R piv Hwf Hne H) as [HE _].
  pose proof (ech_rank _ _ _ _ HE) as Hrank.
  pose proof (ech_len _ _ _ _ HE) as Hlen.
  split. apply (ech_si _ _ _ _ HE).
  split. lia.
  split. apply (ech_lt _ _ _ _ HE).
  split. apply (ech_lead _ _ _ _ HE).
  split. apply (ech_below _ _ _ _ HE).
  split. apply (ech_zero _ _ _ _ HE).
  intros k Hk Hnin i Hc Hi.
  destruct (Nat.lt_ge_cases i (length piv)) as [Hl|Hl].
  - pose proof (piv_ge_of_count piv k i (ech_si _ _ _ _ HE) Hl Hc) as Hge.
    assert (nth i piv 0 <> k) as Hneq.
    { intro E. apply Hnin. rewrite <- E. apply nth_In. exact Hl. }
    apply (ech_lead _ _ _ _ HE i Hl). lia.
  - rewrite (ech_zero _ _ _ _ HE i Hl Hi). apply bit_zeros.
Qed.

Lemma rref_reduced_holds : rref_reduced_stmt.
Proof.
  intros n A R piv Hwf Hne H i i' Hi Hi' Hneq.
  destruct (rref_Ech false n A R piv Hwf Hne H) as [HE HU].
  apply (HU eq_refl); assumption.
Qed.
