(* Proofs/ProblemProofs.v — proofs of the C09 theorems stated in Proofs/ProblemSpec.v.
   The decision tables (Gen/GenEcosParse.v, Gen/GenProblemSolve.v) are regenerated on every
   run: the proofs about them go through case analysis on the flag / computation on closed
   terms only, never through the shape of the generated ifs. *)
From Coq Require Import ZArith QArith List Bool Lia.
From SageVerif Require Import Gen.GenEcosParse Gen.GenProblemSolve Model.ProblemSM Proofs.ProblemSpec.
Import ListNotations.

(* ------------------------------------------------------------------------------------ *)
(* decision tables                                                                      *)
(* ------------------------------------------------------------------------------------ *)

Ltac flagcase f k := destruct (Z.eqb_spec f k) as [->|?].

Lemma parse_table : parse_table_stmt.
Proof.
  intro flag. unfold ecos_parse. cbn [existsb].
  flagcase flag 0%Z; [reflexivity|].
  flagcase flag 1%Z; [reflexivity|].
  flagcase flag 2%Z; [reflexivity|].
  flagcase flag 10%Z; [reflexivity|].
  flagcase flag 11%Z; [reflexivity|].
  flagcase flag 12%Z; [reflexivity|].
  reflexivity.
Qed.

Lemma post_table : post_table_stmt.
Proof.
  split; [intros []; reflexivity|].
  split; [|split; reflexivity].
  intros [] H; try (exfalso; apply H; reflexivity); split; reflexivity.
Qed.

(* ------------------------------------------------------------------------------------ *)
(* store / load                                                                         *)
(* ------------------------------------------------------------------------------------ *)

Lemma lookup_store s id v id' :
  lookup (store s id v) id' = if (id =? id')%Z then Some v else lookup s id'.
Proof. reflexivity. Qed.

Lemma py_index_ok x c :
  (-1 <= c < Z.of_nat (length x))%Z ->
  py_index (x ++ [0%Q]) c = Some (expected_comp x c).
Proof.
  intros H. unfold py_index, expected_comp. rewrite app_length. simpl length.
  destruct (Z.eqb_spec c (-1)) as [->|Hne].
  - change (0 <=? -1)%Z with false. cbv iota.
    destruct (Z.leb_spec (- Z.of_nat (length x + 1)) (-1)); [|lia].
    replace (Z.to_nat (Z.of_nat (length x + 1) + -1)) with (length x) by lia.
    rewrite nth_error_app2 by lia.
    replace (length x - length x)%nat with O by lia. reflexivity.
  - destruct (Z.leb_spec 0 c); [|lia].
    destruct (Z.ltb_spec c (Z.of_nat (length x + 1))); [|lia].
    rewrite nth_error_app1 by lia. apply nth_error_nth'. lia.
Qed.

Lemma load_fold x l : forall s,
  (forall id c, In (id, c) l -> (-1 <= c < Z.of_nat (length x))%Z) ->
  (forall id c1 c2, In (id, c1) l -> In (id, c2) l -> c1 = c2) ->
  exists s', fold_left (load_comp (x ++ [0%Q])) l (Some s) = Some s' /\
    (forall id c, In (id, c) l -> lookup s' id = Some (Fin (expected_comp x c))) /\
    (forall id, (forall c, ~ In (id, c) l) -> lookup s' id = lookup s id).
Proof.
  induction l as [|[id0 c0] l IH] using rev_ind; intros s Hok Hcons.
  - exists s. simpl. split; [reflexivity|]. split; [intros ? ? []|reflexivity].
  - assert (Hlast : In (id0, c0) (l ++ [(id0, c0)])) by (apply in_or_app; right; left; reflexivity).
    destruct (IH s) as (s1 & Hf & Hin & Hout).
    + intros id c Hi. apply (Hok id c). apply in_or_app; left; exact Hi.
    + intros id c1 c2 H1 H2. apply (Hcons id c1 c2); apply in_or_app; left; assumption.
    + assert (Hfold : fold_left (load_comp (x ++ [0%Q])) (l ++ [(id0, c0)]) (Some s)
                      = Some (store s1 id0 (Fin (expected_comp x c0)))).
      { rewrite fold_left_app, Hf. simpl. rewrite (py_index_ok x c0) by (apply (Hok id0 c0 Hlast)).
        reflexivity. }
      eexists; split; [exact Hfold|]. split.
      * intros id c Hi. rewrite lookup_store. destruct (Z.eqb_spec id0 id) as [->|Hne].
        -- rewrite (Hcons id c c0 Hi Hlast). reflexivity.
        -- apply in_app_or in Hi. destruct Hi as [Hi|[Hi|[]]].
           ++ apply Hin; exact Hi.
           ++ exfalso. apply Hne. congruence.
      * intros id Hno. rewrite lookup_store. destruct (Z.eqb_spec id0 id) as [->|Hne].
        -- exfalso. apply (Hno c0). exact Hlast.
        -- apply Hout. intros c Hi. apply (Hno c). apply in_or_app; left; exact Hi.
Qed.

Lemma nan_fold (l : list (Z * Z)) : forall s,
  (forall id c, In (id, c) l ->
     lookup (fold_left (fun s' (c : Z * Z) => store s' (fst c) NaN) l s) id = Some NaN) /\
  (forall id, (forall c, ~ In (id, c) l) ->
     lookup (fold_left (fun s' (c : Z * Z) => store s' (fst c) NaN) l s) id = lookup s id).
Proof.
  induction l as [|[id0 c0] l IH] using rev_ind; intros s.
  - simpl. split; [intros ? ? []|reflexivity].
  - destruct (IH s) as [Hin Hout]. rewrite fold_left_app. cbn [fold_left fst]. split.
    + intros id c Hi. rewrite lookup_store. destruct (Z.eqb_spec id0 id) as [->|Hne]; [reflexivity|].
      apply in_app_or in Hi. destruct Hi as [Hi|[Hi|[]]].
      * apply (Hin id c Hi).
      * exfalso. apply Hne. congruence.
    + intros id Hno. rewrite lookup_store. destruct (Z.eqb_spec id0 id) as [->|Hne].
      * exfalso. apply (Hno c0). apply in_or_app; right; left; reflexivity.
      * apply Hout. intros c Hi. apply (Hno c). apply in_or_app; left; exact Hi.
Qed.

(* ------------------------------------------------------------------------------------ *)
(* one solve                                                                            *)
(* ------------------------------------------------------------------------------------ *)

Definition post_value (st : status) (is_min : bool) (pv : xval) : xval :=
  match solve_value_post st is_min with PKeep => pv | PNegate => xneg pv | PNan => NaN end.

Lemma solve_step_load s p x pc f st vk :
  p_vars p <> [] -> ecos_parse f = (st, vk, true) ->
  solve_step s p {| a_flag := f; a_x := x; a_pcost := pc |} =
  match fold_left (load_comp (x ++ [0%Q])) (flat_map pv_comps (p_vars p)) (Some s) with
  | Some s' => (s', Out st (post_value st (p_min p) (parsed_value vk pc)))
  | None => (s, IndexError)
  end.
Proof.
  intros Hv Hp. unfold solve_step. simpl a_flag. rewrite Hp.
  destruct p as [m [|v vs]]; [exfalso; apply Hv; reflexivity|]. reflexivity.
Qed.

Lemma solve_step_nan s p x pc f st vk :
  ecos_parse f = (st, vk, false) ->
  solve_step s p {| a_flag := f; a_x := x; a_pcost := pc |} =
  (fill_nan p s, Out st (post_value st (p_min p) (parsed_value vk pc))).
Proof.
  intros Hp. unfold solve_step. simpl a_flag. rewrite Hp. reflexivity.
Qed.

(* the two tactics used in the seven flag cases of solve_spec *)
Ltac load_case Hload :=
  let Hok := fresh "Hok" in let Hp := fresh "Hp" in let Hd := fresh "Hd" in
  intros Hok Hp; cbv iota in Hp; specialize (Hok eq_refl);
  destruct (Hload _ _ Hp Hok) as (-> & Hin & Hout);
  split; [unfold post_value; destruct (p_min _); reflexivity|];
  split; [intros _; exact Hin|];
  split; [intros Hd; simpl in Hd; discriminate Hd|exact Hout].
Ltac nan_case Hnan :=
  let Hok := fresh "Hok" in let Hp := fresh "Hp" in let Hd := fresh "Hd" in
  intros Hok Hp; cbv iota in Hp;
  destruct (Hnan _ _ Hp) as (-> & Hin & Hout);
  split; [unfold post_value; destruct (p_min _); reflexivity|];
  split; [intros Hd; simpl in Hd; discriminate Hd|];
  split; [intros _; exact Hin|exact Hout].

Lemma solve_spec : solve_spec_stmt.
Proof.
  intros s p [f x pc] s' o Hv Hc Hcons Hok Hstep.
  unfold expected_outcome, loads, consistent, cols_ok, comps in *.
  simpl a_flag in *; simpl a_x in *; simpl a_pcost in *.
  pose proof (parse_table f) as Hp. revert Hok Hp.
  assert (Hload : forall st vk,
    ecos_parse f = (st, vk, true) ->
    (forall id c, In (id, c) (flat_map pv_comps (p_vars p)) -> (-1 <= c < Z.of_nat (length x))%Z) ->
    o = Out st (post_value st (p_min p) (parsed_value vk pc)) /\
    (forall id c, In (id, c) (flat_map pv_comps (p_vars p)) ->
       lookup s' id = Some (Fin (expected_comp x c))) /\
    (forall id, (forall c, ~ In (id, c) (flat_map pv_comps (p_vars p))) -> lookup s' id = lookup s id)).
  { intros st vk Hp Hok. rewrite (solve_step_load s p x pc f st vk Hv Hp) in Hstep.
    destruct (load_fold x _ s Hok Hcons) as (s1 & Hf & Hin & Hout).
    rewrite Hf in Hstep. injection Hstep as <- <-. auto. }
  assert (Hnan : forall st vk,
    ecos_parse f = (st, vk, false) ->
    o = Out st (post_value st (p_min p) (parsed_value vk pc)) /\
    (forall id c, In (id, c) (flat_map pv_comps (p_vars p)) -> lookup s' id = Some NaN) /\
    (forall id, (forall c, ~ In (id, c) (flat_map pv_comps (p_vars p))) -> lookup s' id = lookup s id)).
  { intros st vk Hp. rewrite (solve_step_nan s p x pc f st vk Hp) in Hstep.
    injection Hstep as <- <-.
    destruct (nan_fold (flat_map pv_comps (p_vars p)) s) as [Hin Hout]. auto. }
  destruct (Z.eqb_spec f 0) as [E|?]; [subst f; load_case Hload|].
  destruct (Z.eqb_spec f 1) as [E|?]; [subst f; nan_case Hnan|].
  destruct (Z.eqb_spec f 2) as [E|?]; [subst f; nan_case Hnan|].
  destruct (Z.eqb_spec f 10) as [E|?]; [subst f; load_case Hload|].
  destruct (Z.eqb_spec f 11) as [E|?]; [subst f; nan_case Hnan|].
  destruct (Z.eqb_spec f 12) as [E|?]; [subst f; nan_case Hnan|].
  nan_case Hnan.
Qed.

(* ------------------------------------------------------------------------------------ *)
(* histories                                                                            *)
(* ------------------------------------------------------------------------------------ *)

Lemma run_snoc ops op s0 :
  run (ops ++ [op]) s0 =
  let '(s', o) := solve_step (fst (run ops s0)) (fst op) (snd op) in (s', snd (run ops s0) ++ [o]).
Proof. unfold run. rewrite fold_left_app. reflexivity. Qed.

Lemma solve_history : solve_history_stmt.
Proof.
  intros ops s0 p ans Hv Hc Hcons Hok.
  rewrite run_snoc. destruct (run ops s0) as [s1 outs1]. simpl fst. simpl snd.
  destruct (solve_step s1 p ans) as [s2 o] eqn:E.
  destruct (solve_spec s1 p ans s2 o Hv Hc Hcons Hok E) as (-> & H1 & H2 & _).
  split; [reflexivity|]. split; assumption.
Qed.

(* ------------------------------------------------------------------------------------ *)
(* the reported value is the objective at the loaded values                             *)
(* ------------------------------------------------------------------------------------ *)

Lemma set_nthq_length k v c : length (set_nthq k v c) = length c.
Proof. revert k; induction c as [|y c IH]; intros [|k]; simpl; auto. Qed.

Lemma nth_set_other j k v c d : j <> k -> nth j (set_nthq k v c) d = nth j c d.
Proof.
  revert j k; induction c as [|y c IH]; intros j k Hne.
  - destruct k; reflexivity.
  - destruct k, j; simpl; try reflexivity; try congruence. apply IH. congruence.
Qed.

Lemma nth_repeat0 k n : nth k (repeat 0%Q n) 0%Q = 0%Q.
Proof. revert k; induction n; intros [|k]; simpl; auto. Qed.

Lemma qdot_set k v : forall c x, length c = length x -> (k < length c)%nat ->
  qdot (set_nthq k v c) x == qdot c x + (v - nth k c 0) * nth k x 0.
Proof.
  induction k as [|k IH]; intros [|y c] [|z x] Hl Hk; simpl in *; try lia; try discriminate.
  - ring.
  - rewrite IH by lia. ring.
Qed.

Lemma qdot_repeat0 n : forall x, qdot (repeat 0%Q n) x == 0.
Proof.
  induction n as [|n IH]; intros [|z x]; simpl; try reflexivity.
  rewrite IH. ring.
Qed.

Lemma qdot_neg : forall c x, qdot (map (fun q => Qred (- q)) c) x == - qdot c x.
Proof.
  induction c as [|y c IH]; intros [|z x]; simpl; try reflexivity.
  rewrite IH. rewrite (Qred_correct (- y)). ring.
Qed.

Definition osum (g : Z -> nat) (x : list Q) (l : list (Z * Q)) : Q :=
  fold_right (fun ic acc => snd ic * nth (g (fst ic)) x 0 + acc) 0 l.

Lemma qdot_fold (g : Z -> nat) x : forall (l : list (Z * Q)) c,
  length c = length x ->
  NoDup (map (fun ic => g (fst ic)) l) ->
  (forall ic, In ic l -> (g (fst ic) < length c)%nat /\ nth (g (fst ic)) c 0 = 0) ->
  qdot (fold_left (fun c ic => set_nthq (g (fst ic)) (snd ic) c) l c) x == qdot c x + osum g x l.
Proof.
  induction l as [|a l IH]; intros c Hl Hnd Hz; simpl.
  - ring.
  - inversion Hnd as [|? ? Hnin Hnd']; subst.
    destruct (Hz a (or_introl eq_refl)) as [Hlt Hzero].
    rewrite IH.
    + rewrite qdot_set by assumption. rewrite Hzero. ring.
    + rewrite set_nthq_length. exact Hl.
    + exact Hnd'.
    + intros ic Hi. destruct (Hz ic (or_intror Hi)) as [Hlt' Hzero'].
      rewrite set_nthq_length. split; [exact Hlt'|].
      rewrite nth_set_other; [exact Hzero'|].
      intros Heq. apply Hnin. rewrite <- Heq.
      apply (in_map (fun ic => g (fst ic)) l ic Hi).
Qed.

Lemma nodup_cols (col : Z -> Z) (lo : list (Z * Q)) :
  NoDup (map fst lo) ->
  (forall ic, In ic lo -> (0 <= col (fst ic))%Z) ->
  (forall ic1 ic2, In ic1 lo -> In ic2 lo -> col (fst ic1) = col (fst ic2) -> fst ic1 = fst ic2) ->
  NoDup (map (fun ic => Z.to_nat (col (fst ic))) lo).
Proof.
  induction lo as [|a lo IH]; intros Hnd Hpos Hinj; simpl.
  - constructor.
  - inversion Hnd as [|? ? Hnin Hnd']; subst. constructor.
    + intros Hi. apply in_map_iff in Hi. destruct Hi as (b & Heq & Hb).
      apply Hnin. rewrite (Hinj a b (or_introl eq_refl) (or_intror Hb)).
      * apply in_map; exact Hb.
      * pose proof (Hpos a (or_introl eq_refl)). pose proof (Hpos b (or_intror Hb)). lia.
    + apply IH; [exact Hnd'| |].
      * intros ic Hi. apply Hpos. right; exact Hi.
      * intros ic1 ic2 H1 H2. apply Hinj; right; assumption.
Qed.

Lemma obj_at_sum s' (g : Z -> nat) x off : forall lo : list (Z * Q),
  (forall ic, In ic lo -> lookup s' (fst ic) = Some (Fin (nth (g (fst ic)) x 0))) ->
  obj_at s' (lo, off) = Some (osum g x lo).
Proof.
  unfold obj_at, osum. simpl fst.
  induction lo as [|a lo IH]; intros H; simpl.
  - reflexivity.
  - rewrite IH by (intros ic Hi; apply H; right; exact Hi).
    rewrite (H a (or_introl eq_refl)). reflexivity.
Qed.

Lemma value_is_objective : value_is_objective_stmt.
Proof.
  intros s p [f x pc] s' o n svid2col [lo off0] c off
         Hv Hc Hcons Hok Hflag Hlen Hobj Hnd Hinj Hcomp Hpc Hstep.
  simpl in Hok, Hflag, Hlen, Hobj, Hnd, Hinj, Hpc. subst f.
  destruct (solve_spec s p {| a_flag := 0; a_x := x; a_pcost := pc |} s' o Hv Hc Hcons (fun _ => Hok) Hstep) as (Ho & Hload & _ & _).
  specialize (Hload eq_refl). simpl a_x in Hload.
  unfold expected_outcome in Ho. simpl in Ho.
  unfold compile_objective in Hcomp. simpl fst in Hcomp. simpl snd in Hcomp.
  destruct (forallb _ lo) eqn:Hfa; [|discriminate].
  injection Hcomp as Hc' Hoff. rewrite forallb_forall in Hfa.
  set (g := fun id => Z.to_nat (svid2col id)).
  assert (Hpos : forall ic, In ic lo -> (0 <= svid2col (fst ic))%Z).
  { intros ic Hi. apply Z.leb_le. apply (Hfa ic Hi). }
  assert (Hlt : forall ic, In ic lo -> (svid2col (fst ic) < Z.of_nat (length x))%Z).
  { intros [id co] Hi. simpl. apply (Hok id (svid2col id)). apply (Hobj id co Hi). }
  (* the objective at the loaded values *)
  assert (Hov : obj_at s' (lo, off0) = Some (osum g x lo)).
  { apply obj_at_sum. intros [id co] Hi. simpl fst.
    rewrite (Hload id (svid2col id) (Hobj id co Hi)).
    unfold expected_comp, g.
    pose proof (Hpos (id, co) Hi) as Hp0. simpl in Hp0.
    destruct (Z.eqb_spec (svid2col id) (-1)); [lia|reflexivity]. }
  (* the vector handed to the solver, at x *)
  assert (Hq : qdot c x == osum g x lo).
  { rewrite <- Hc'.
    change (fun (c0 : list Q) (ic : Z * Q) => set_nthq (Z.to_nat (svid2col (fst ic))) (snd ic) c0)
      with (fun (c0 : list Q) (ic : Z * Q) => set_nthq (g (fst ic)) (snd ic) c0).
    rewrite qdot_fold.
    - rewrite qdot_repeat0. ring.
    - rewrite repeat_length. symmetry; exact Hlen.
    - apply nodup_cols; [exact Hnd|exact Hpos|].
      intros [i1 c1] [i2 c2] H1 H2. simpl. apply (Hinj i1 i2 c1 c2 H1 H2).
    - intros ic Hi. rewrite repeat_length. split; [|apply nth_repeat0].
      unfold g. pose proof (Hpos ic Hi). pose proof (Hlt ic Hi). lia. }
  rewrite Hpc in Ho. unfold problem_c in Ho.
  destruct (p_min p).
  - change (objective_negated true) with false in Ho. cbv iota in Ho.
    exists (qdot c x), (osum g x lo). split; [exact Ho|]. split; [exact Hov|exact Hq].
  - change (objective_negated false) with true in Ho. cbv iota in Ho. simpl xneg in Ho.
    eexists _, (osum g x lo). split; [exact Ho|]. split; [exact Hov|].
    rewrite (Qred_correct (- qdot (map (fun q : Q => Qred (- q)) c) x)). rewrite qdot_neg, Hq. ring.
Qed.

Print Assumptions parse_table.
Print Assumptions post_table.
Print Assumptions solve_spec.
Print Assumptions solve_history.
Print Assumptions value_is_objective.
