(* Proofs/PolyRelax.v — C05: soundness of the primal-form polynomial relaxation (through the numeric
   signomial representative and sig_primal_sound) and extension of a bound to the coordinate
   hyperplanes by continuity of polynomials. *)
From Coq Require Import Reals List Bool Arith ZArith QArith Qabs Qreals Lra Lia.
From SageVerif Require Import Math.RVec Model.Expr Model.Signomial Model.SigExpr Model.SymSig Model.PolyRep
  Model.SolverForms Model.Compile Model.Sage Model.RelaxSig
  Proofs.ExprSpec Proofs.SigSpec Proofs.SigLemmas Proofs.SigRound Proofs.SigMk
  Proofs.CalcSpec Proofs.CalcBase Proofs.CalcPoly
  Proofs.FormsSpec Proofs.CompileSpec Proofs.SageSpec Proofs.RelaxSpec Proofs.RelaxBase
  Proofs.PolySpec Proofs.PolyBase.
Import ListNotations.
Local Open Scope R_scope.

(* ------------------------------------------------------------------ *)
(* the numeric signomial representative *)
Definition nsr (t : qrow * Q) : qrow * Q := if row_even (fst t) then t else (fst t, qabs_neg (snd t)).

Lemma num_sigrep_unfold : forall p, num_sigrep p = map nsr p.
Proof. reflexivity. Qed.

Lemma nsr_fst : forall t, fst (nsr t) = fst t.
Proof. intros t. unfold nsr. destruct (row_even (fst t)); reflexivity. Qed.

Lemma nsr_default : nsr ([], 0%Q) = ([], 0%Q).
Proof. reflexivity. Qed.

Lemma num_sigrep_fwf : forall n p, fwf n p -> fwf n (num_sigrep p).
Proof.
  intros n p [Hw [Hd Hne]]. rewrite num_sigrep_unfold. split; [|split].
  - unfold wfsig in *. apply Forall_map. rewrite Forall_forall in *. intros t Ht.
    rewrite nsr_fst. auto.
  - unfold rows_distinct in *. intros i j Hij Hj. rewrite map_length in Hj.
    rewrite <- nsr_default, !map_nth, !nsr_fst. auto.
  - destruct p; [congruence|discriminate].
Qed.

Lemma num_sigrep_bound : forall p x, natrows p -> no_zero_coord x ->
  sig_evalR (num_sigrep p) (logabs x) <= poly_evalR p x.
Proof.
  intros p x Hp Hx. induction Hp as [|[a c] p Ha _ IH]; [simpl; lra|].
  rewrite num_sigrep_unfold in *. simpl map. rewrite sig_evalR_cons, poly_evalR_cons.
  simpl in Ha.
  assert (Hs : snd (nsr (a, c)) = if row_even a then c else qabs_neg c).
  { unfold nsr. cbn [fst snd]. destruct (row_even a); reflexivity. }
  rewrite nsr_fst, Hs. cbn [fst snd].
  destruct (row_even a) eqn:Ea.
  - rewrite (term_even a x Ha Hx Ea). lra.
  - assert (Q2R (qabs_neg c) * exp (dot (rowR a) (logabs x)) <= Q2R c * monoR a x); [|lra].
    apply term_bound; auto. rewrite Q2R_qabs_neg. lra.
Qed.

Lemma firstn_app_exact : forall {A} (l w : list A), firstn (length l) (l ++ w) = l.
Proof. intros A l w. induction l; simpl; auto. now rewrite IHl. Qed.

Lemma poly_primal_sound : poly_primal_sound_stmt.
Proof.
  intros n lifted_n p g ms ell X covers ids st dummy bs rho Hp Hf Hs L Hwf Hb Hsat x w Hx Hnz HX.
  pose proof (sig_primal_sound n lifted_n (num_sigrep p) g ms ell X covers ids st dummy bs rho
                (num_sigrep_fwf n p Hf) Hs Hwf Hb Hsat (logabs x ++ w) HX) as H.
  assert (E : firstn n (logabs x ++ w) = logabs x).
  { rewrite <- Hx, <- (logabs_length x). apply firstn_app_exact. }
  rewrite E in H. eapply Rle_trans; [exact H|].
  apply num_sigrep_bound; auto. now apply (polyrows_natrows n).
Qed.

(* ------------------------------------------------------------------ *)
(* continuity *)
Definition fill (x : list R) (eps : R) : list R :=
  map (fun v => if Req_EM_T v 0 then eps else v) x.

Lemma fill_length : forall x eps, length (fill x eps) = length x.
Proof. intros. unfold fill. apply map_length. Qed.

Lemma fill_0 : forall x, fill x 0 = x.
Proof.
  induction x as [|v x IH]; auto. unfold fill in *. simpl. rewrite IH.
  destruct (Req_EM_T v 0); congruence.
Qed.

Lemma fill_no_zero : forall x eps, eps <> 0 -> no_zero_coord (fill x eps).
Proof.
  intros x eps He. unfold no_zero_coord, fill. apply Forall_forall. intros v Hv.
  apply in_map_iff in Hv. destruct Hv as [u [<- _]]. destruct (Req_EM_T u 0); auto.
Qed.

Lemma mono_fill_continuous : forall a x, continuity (fun eps => monoR a (fill x eps)).
Proof.
  induction a as [|e a IH]; intros x.
  - apply continuity_const. intros u v. reflexivity.
  - destruct x as [|v x].
    + apply continuity_const. intros u w. reflexivity.
    + apply (continuity_mult (fun eps => (if Req_EM_T v 0 then eps else v) ^ natq e)
                             (fun eps => monoR a (fill x eps))); [|apply IH].
      destruct (Req_EM_T v 0).
      * apply derivable_continuous. apply derivable_pow.
      * apply continuity_const. intros u w. reflexivity.
Qed.

Lemma poly_fill_continuous : forall p x, continuity (fun eps => poly_evalR p (fill x eps)).
Proof.
  induction p as [|t p IH]; intros x.
  - apply continuity_const. intros u v. reflexivity.
  - apply (continuity_plus (fun eps => Q2R (snd t) * monoR (fst t) (fill x eps))
                           (fun eps => poly_evalR p (fill x eps))); [|apply IH].
    apply (continuity_mult (fun _ => Q2R (snd t)) (fun eps => monoR (fst t) (fill x eps))).
    + apply continuity_const. intros u v. reflexivity.
    + apply mono_fill_continuous.
Qed.

(* a function continuous at 0 and bounded below on (0, +oo) is bounded below at 0 *)
Lemma cont_lower : forall f gamma, continuity_pt f 0 -> (forall e, 0 < e -> gamma <= f e) -> gamma <= f 0.
Proof.
  intros f gamma Hc H. destruct (Rle_lt_dec gamma (f 0)) as [|Hlt]; auto. exfalso.
  unfold continuity_pt, continue_in, limit1_in, limit_in in Hc. simpl in Hc.
  destruct (Hc (gamma - f 0)) as [d [Hd Hcl]]; [lra|].
  assert (Hd2 : 0 < d / 2) by lra.
  specialize (Hcl (d / 2)).
  assert (Hr : R_dist (f (d / 2)) (f 0) < gamma - f 0).
  { apply Hcl. split.
    - split; [exact I|lra].
    - unfold R_dist. rewrite Rabs_right; lra. }
  specialize (H (d / 2) Hd2).
  unfold R_dist, Rabs in Hr. destruct (Rcase_abs (f (d / 2) - f 0)); lra.
Qed.

Lemma bound_extends_by_continuity : bound_extends_by_continuity_stmt.
Proof.
  intros n p gamma Hp Hb x Hx.
  rewrite <- (fill_0 x).
  apply (cont_lower (fun eps => poly_evalR p (fill x eps)) gamma).
  - apply poly_fill_continuous.
  - intros e He. apply Hb.
    + now rewrite fill_length.
    + apply fill_no_zero. lra.
Qed.
