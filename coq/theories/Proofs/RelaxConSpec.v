(* Proofs/RelaxConSpec.v — statements of the C04 theorems about Model/RelaxCon.v. *)
From Coq Require Import Reals List Bool Arith ZArith QArith Qreals Lra.
From SageVerif Require Import Math.RVec Model.Expr Model.Signomial Model.SymSig Model.SolverForms Model.Compile Model.Sage
                              Model.RelaxSig Model.RelaxCon
                              Proofs.ExprSpec Proofs.SigSpec Proofs.SymCorrSpec Proofs.SymSigSpec Proofs.FormsSpec
                              Proofs.CompileSpec Proofs.SageSpec Proofs.RelaxSpec.
Import ListNotations.
Open Scope R_scope.

(* value at chi of a multiplier with Variable coefficients ids over the exponents E, under rho *)
Definition mult_val (chi : qrow -> R) (rho : env) (E : list qrow) (ids : list Z) : R :=
  fold_right (fun ri acc => rho (snd ri) * chi (fst ri) + acc) 0 (combine E ids).

Definition cons_ok (n : nat) (E : list qrow) (gs : list (qsig * list Z)) : Prop :=
  Forall (fun gi => fwf n (fst gi) /\ length (snd gi) = length E) gs.

Definition E_ok (n : nat) (E : list qrow) : Prop :=
  E <> [] /\ Forall (fun r => length r = n /\ on_grid_row r) E.

(* The Lagrangian equals f - gamma - sum s_g*g - sum z_h*h as a function of x, for EVERY assignment of
   gamma and of the multiplier coefficients (chi ranges over all characters: signomials and polynomials) *)
Definition lagrangian_identity_stmt : Prop :=
  forall n chi rho f g E gts eqs L,
    character n chi -> chi (repeat 0%Q n) = 1 ->
    fwf n f -> E_ok n E -> cons_ok n E gts -> cons_ok n E eqs ->
    make_sig_lagrangian n f g E gts eqs = Some L ->
    sevalchi chi rho L =
      evalchi chi f - rho g
      - fold_right (fun gi acc => evalchi chi (fst gi) * mult_val chi rho E (snd gi) + acc) 0 (gts ++ eqs).

(* every folded constraint is a product of between 1 and q of the given constraints *)
Definition qfold_valid_stmt : Prop :=
  forall n chi gs q g', character n chi -> Forall (fwf n) gs -> (1 <= q)%nat ->
    In g' (q_fold n gs q) ->
    exists idx, idx <> [] /\ (length idx <= q)%nat /\ Forall (fun i => (i < length gs)%nat) idx /\
                evalchi chi g' = fold_right (fun i acc => evalchi chi (nth i gs []) * acc) 1 idx.

(* a SAGE constraint on (alpha, c) over X is satisfied by rho for SOME cover / auxiliary ids / settings *)
Definition sage_feasible (n lifted_n : nat) (alpha : list qrow) (c : list sexpr) (X : option domain) (rho : env) : Prop :=
  exists covers ids st dummy bs,
    primal_wf n lifted_n alpha c X covers ids /\
    primal_blocks n lifted_n alpha c X covers ids st dummy = Some bs /\ blocks_sat rho bs.

(* PRIMAL FORM (ell = 0): if the Lagrangian and all inequality multipliers satisfy their SAGE constraints,
   gamma is a lower bound of f on the feasible set { x in X : g(x) >= 0, h(x) = 0 } for the folded constraints *)
Definition constrained_primal_sound_stmt : Prop :=
  forall n lifted_n f g E gts eqs L X rho,
    fwf n f -> E_ok n E -> cons_ok n E gts -> cons_ok n E eqs ->
    make_sig_lagrangian n f g E gts eqs = Some L ->
    sage_feasible n lifted_n (map fst L) (map snd L) X rho ->
    (forall gi, In gi gts -> sage_feasible n lifted_n E (map svar (snd gi)) X rho) ->
    forall z, in_X lifted_n X z ->
      (forall gi, In gi gts -> 0 <= sig_evalR (fst gi) (firstn n z)) ->
      (forall hi, In hi eqs -> sig_evalR (fst hi) (firstn n z) = 0) ->
      rho g <= sig_evalR f (firstn n z).
