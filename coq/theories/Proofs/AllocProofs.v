(* Proofs/AllocProofs.v — proofs of the C20 statements in Proofs/AllocSpec.v about Model/Alloc.v. *)
From Coq Require Import List Bool Arith ZArith Lia.
From SageVerif Require Import Model.Alloc Proofs.AllocSpec.
Import ListNotations.

(* ------------------------------------------------------------------ *)
(* clear, pickling                                                     *)
(* ------------------------------------------------------------------ *)
Lemma clear_separates : clear_separates_stmt.
Proof. intros g. unfold clear; simpl. repeat split. Qed.

Lemma reduce_setstate : reduce_setstate_stmt.
Proof.
  intros base v. unfold setstate, reduce_state, from_end.
  rewrite rev_app_distr. simpl.
  rewrite app_length. simpl length.
  replace (length base + 5 - 5) with (length base) by lia.
  rewrite firstn_app, Nat.sub_diag, firstn_all. simpl. rewrite app_nil_r.
  destruct v; reflexivity.
Qed.

Lemma sv_roundtrip : sv_roundtrip_stmt.
Proof.
  intros n s H. destruct s as [i g v ix p]. simpl in H. subst p.
  reflexivity.
Qed.

Lemma sv_getstate_drops_parent : sv_getstate_drops_parent_stmt.
Proof.
  intros s. split.
  - unfold sv_getstate. simpl. tauto.
  - intros p H. unfold sv_getstate in H. simpl in H.
    repeat (destruct H as [H|H]; [discriminate H|]). exact H.
Qed.

(* ------------------------------------------------------------------ *)
(* unstructured Variables                                              *)
(* ------------------------------------------------------------------ *)
Lemma NoDup_map_inj {A B} (f : A -> B) (l : list A) :
  (forall a b, f a = f b -> a = b) -> NoDup l -> NoDup (map f l).
Proof.
  intros Hinj H. induction H as [|a l Hn Hd IH]; simpl; constructor; auto.
  intros Hin. apply in_map_iff in Hin. destruct Hin as [b [Hb Hin]].
  apply Hinj in Hb. subst b. contradiction.
Qed.

Lemma new_var_unstructured : new_var_unstructured_stmt.
Proof.
  intros g sh name g' v H. unfold new_var in H.
  destruct (Nat.eqb (size_of sh) 0) eqn:E; [discriminate|].
  inversion H; subst; clear H. simpl.
  rewrite map_length, seq_length.
  split; [reflexivity|]. split.
  - apply NoDup_map_inj; [intros a b; lia | apply seq_NoDup].
  - split.
    + intros i Hi. apply in_map_iff in Hi. destruct Hi as [k [Hk Hin]].
      apply in_seq in Hin. lia.
    + repeat split; lia.
Qed.

(* ------------------------------------------------------------------ *)
(* errors                                                              *)
(* ------------------------------------------------------------------ *)
Lemma new_var_errors : new_var_errors_stmt.
Proof.
  intros g sh sym name. unfold new_var. destruct sym.
  - split.
    + intros H. right. split; [reflexivity|]. intros n.
      destruct (Nat.eq_dec n 0) as [Hn|Hn]; [right; exact Hn|]. left. intros ->.
      rewrite Nat.eqb_refl in H. apply Nat.eqb_neq in Hn. rewrite Hn in H. discriminate.
    + intros [[H _]|[_ H]]; [discriminate|].
      destruct sh as [|n [|m [|? ?]]]; try reflexivity.
      destruct (Nat.eqb n m) eqn:E; [|reflexivity].
      apply Nat.eqb_eq in E. subst m.
      destruct (H n) as [Hc|Hc]; [congruence|]. subst n. reflexivity.
  - split.
    + intros H. left. split; [reflexivity|].
      destruct (Nat.eqb (size_of sh) 0) eqn:E; [apply Nat.eqb_eq; exact E|discriminate].
    + intros [[_ H]|[H _]]; [|discriminate]. rewrite H. reflexivity.
Qed.

(* ------------------------------------------------------------------ *)
(* symmetric Variables                                                 *)
(* ------------------------------------------------------------------ *)
Lemma fold_add_acc (l : list nat) (a : nat) :
  fold_right Nat.add a l = fold_right Nat.add 0 l + a.
Proof. induction l as [|x l IH]; simpl; [reflexivity|]. rewrite IH. lia. Qed.

Lemma tri_offset_S n i : tri_offset n (S i) = tri_offset n i + (n - i).
Proof.
  unfold tri_offset. rewrite seq_S, map_app, fold_right_app. simpl.
  rewrite fold_add_acc. lia.
Qed.

Lemma tri_offset_mono n lo lo' : lo <= lo' -> tri_offset n lo <= tri_offset n lo'.
Proof.
  induction 1 as [|m Hle IH]; [lia|]. rewrite tri_offset_S. lia.
Qed.

Lemma tri_offset_rows n lo lo' : lo < lo' -> tri_offset n lo + (n - lo) <= tri_offset n lo'.
Proof.
  intros H. rewrite <- tri_offset_S. apply tri_offset_mono. lia.
Qed.

Lemma tri_inj n lo hi lo' hi' :
  lo <= hi -> hi < n -> lo' <= hi' -> hi' < n ->
  tri_offset n lo + (hi - lo) = tri_offset n lo' + (hi' - lo') -> lo = lo' /\ hi = hi'.
Proof.
  intros H1 H2 H3 H4 E.
  destruct (Nat.lt_trichotomy lo lo') as [L|[L|L]].
  - pose proof (tri_offset_rows n lo lo' L). lia.
  - subst lo'. lia.
  - pose proof (tri_offset_rows n lo' lo L). lia.
Qed.

Lemma nth_map_seq {A} (g : nat -> A) n j d : j < n -> nth j (map g (seq 0 n)) d = g j.
Proof.
  intros H. rewrite (nth_indep _ d (g 0)) by (rewrite map_length, seq_length; exact H).
  rewrite map_nth, seq_nth by exact H. reflexivity.
Qed.

Lemma nth_flat_rows {A} (f : nat -> nat -> A) n d : forall m s i j, i < m -> j < n ->
  nth (i * n + j) (flat_map (fun i => map (f i) (seq 0 n)) (seq s m)) d = f (s + i) j.
Proof.
  induction m as [|m IH]; intros s i j Hi Hj; [lia|].
  simpl. destruct i as [|i].
  - rewrite app_nth1 by (rewrite map_length, seq_length; simpl; exact Hj).
    simpl. rewrite nth_map_seq by exact Hj. f_equal. lia.
  - rewrite app_nth2 by (rewrite map_length, seq_length; simpl; lia).
    rewrite map_length, seq_length.
    replace (S i * n + j - n) with (i * n + j) by (simpl; lia).
    rewrite IH by lia. f_equal. lia.
Qed.

Lemma length_flat_rows {A} (f : nat -> nat -> A) n : forall m s,
  length (flat_map (fun i => map (f i) (seq 0 n)) (seq s m)) = m * n.
Proof.
  induction m as [|m IH]; intros s; simpl; [reflexivity|].
  rewrite app_length, map_length, seq_length, IH. reflexivity.
Qed.

Lemma entry_sym_ids base n i j : i < n -> j < n ->
  entry n (sym_ids base n) i j = sym_id base n i j.
Proof.
  intros Hi Hj. unfold entry, sym_ids.
  rewrite (nth_flat_rows (fun i j => sym_id base n i j) n 0%Z n 0 i j Hi Hj). reflexivity.
Qed.

Lemma sym_id_comm base n i j : sym_id base n i j = sym_id base n j i.
Proof. unfold sym_id. rewrite (Nat.min_comm i j), (Nat.max_comm i j). reflexivity. Qed.

Lemma sym_id_bounds base n i j : i < n -> j < n ->
  (base <= sym_id base n i j < base + Z.of_nat (sym_count n))%Z.
Proof.
  intros Hi Hj. unfold sym_id, sym_count.
  assert (Hlo : Nat.min i j < n) by lia.
  pose proof (tri_offset_rows n (Nat.min i j) n Hlo). lia.
Qed.

Lemma sym_id_inj base n i j k l : i < n -> j < n -> k < n -> l < n ->
  sym_id base n i j = sym_id base n k l -> (i = k /\ j = l) \/ (i = l /\ j = k).
Proof.
  intros Hi Hj Hk Hl E. unfold sym_id in E.
  assert (E' : tri_offset n (Nat.min i j) + (Nat.max i j - Nat.min i j) =
               tri_offset n (Nat.min k l) + (Nat.max k l - Nat.min k l)) by lia.
  apply tri_inj in E'; lia.
Qed.

Lemma new_var_symmetric : new_var_symmetric_stmt.
Proof.
  intros g n name g' v H. unfold new_var in H.
  rewrite Nat.eqb_refl in H.
  destruct (Nat.eqb n 0) eqn:E; simpl in H; [discriminate|].
  inversion H; subst; clear H. simpl.
  split; [unfold sym_ids; apply length_flat_rows|].
  split.
  { intros i j Hi Hj. rewrite !entry_sym_ids by assumption. apply sym_id_comm. }
  split.
  { intros i j k l Hi Hj Hk Hl. rewrite !entry_sym_ids by assumption.
    apply sym_id_inj; assumption. }
  split; [|reflexivity].
  intros x Hx. unfold sym_ids in Hx. apply in_flat_map in Hx.
  destruct Hx as [i [Hi Hx]]. apply in_map_iff in Hx. destruct Hx as [j [Hx Hj]].
  apply in_seq in Hi. apply in_seq in Hj. subst x.
  apply sym_id_bounds; lia.
Qed.

(* ------------------------------------------------------------------ *)
(* histories                                                           *)
(* ------------------------------------------------------------------ *)
Lemma new_var_ok_facts g sh sym name g' v :
  new_var g sh sym name = ROk (g', v) ->
  v_gen v = generation g /\ generation g' = generation g /\ (counter g <= counter g')%Z /\
  (forall x, In x (v_ids v) -> (counter g <= x < counter g')%Z).
Proof.
  intros H. destruct sym.
  - assert (exists n, sh = [n; n]) as [n ->].
    { unfold new_var in H. destruct sh as [|n [|m [|? ?]]]; try discriminate.
      destruct (Nat.eqb n m) eqn:E; simpl in H; [|discriminate].
      apply Nat.eqb_eq in E. subst m. exists n. reflexivity. }
    pose proof (new_var_symmetric g n name g' v H) as [_ [_ [_ [Hb Hg]]]].
    assert (generation g' = generation g /\ (counter g <= counter g')%Z) as [? ?].
    { unfold new_var in H. rewrite Nat.eqb_refl in H.
      destruct (Nat.eqb n 0); simpl in H; [discriminate|].
      inversion H; subst; simpl. split; [reflexivity|lia]. }
    auto.
  - pose proof (new_var_unstructured g sh name g' v H) as [_ [_ [Hb [Hg [Hg' Hc]]]]].
    auto.
Qed.

Lemma new_var_err_facts g sh sym name g' v :
  new_var g sh sym name = ROk (g', v) ->
  unnamed g <= unnamed g' /\
  (forall k, v_name v = Unnamed k -> k = unnamed g /\ unnamed g' = S (unnamed g)).
Proof.
  unfold new_var. intros H.
  destruct sym.
  - destruct sh as [|n [|m [|? ?]]]; try discriminate.
    destruct (Nat.eqb n m && negb (Nat.eqb n 0)); [|discriminate].
    destruct name; inversion H; subst; simpl; (split; [lia|]); intros k Hk; inversion Hk; auto.
  - destruct (Nat.eqb (size_of sh) 0); [discriminate|].
    destruct name; inversion H; subst; simpl; (split; [lia|]); intros k Hk; inversion Hk; auto.
Qed.

Lemma nth_error_snoc {A} (l : list A) (a x : A) i :
  nth_error (l ++ [a]) i = Some x ->
  (i < length l /\ nth_error l i = Some x) \/ (i = length l /\ x = a).
Proof.
  intros H. destruct (Nat.lt_ge_cases i (length l)) as [L|L].
  - left. rewrite nth_error_app1 in H by exact L. auto.
  - right. rewrite nth_error_app2 in H by exact L.
    destruct (i - length l) as [|d] eqn:E.
    + simpl in H. inversion H. split; [lia|reflexivity].
    + simpl in H. destruct d; discriminate.
Qed.

Definition IdInv (st : gstate * list var) : Prop :=
  let g := fst st in let vs := snd st in
  (0 <= counter g)%Z /\
  (forall v x, In v vs -> v_gen v = generation g -> In x (v_ids v) -> (0 <= x < counter g)%Z) /\
  (forall i j vi vj, i <> j -> nth_error vs i = Some vi -> nth_error vs j = Some vj ->
     v_gen vi = v_gen vj -> forall x, In x (v_ids vi) -> ~ In x (v_ids vj)) /\
  (forall v, In v vs -> (v_gen v <= generation g)%Z).

Lemma IdInv_step st o : IdInv st -> IdInv (step_faithful st o).
Proof.
  destruct st as [g vs]. intros (Hc & Hcur & Hpw & Hgen). unfold IdInv in *. simpl in *.
  destruct o as [sh sym name|]; simpl.
  - destruct (new_var g sh sym name) as [[g' v]|] eqn:E; simpl.
    + apply new_var_ok_facts in E. destruct E as (Eg & Eg' & Ec & Eb).
      split; [lia|]. split; [|split].
      * intros v0 x Hin Hg0 Hx. apply in_app_or in Hin. destruct Hin as [Hin|[<-|[]]].
        -- rewrite Eg' in Hg0. specialize (Hcur v0 x Hin Hg0 Hx). lia.
        -- specialize (Eb x Hx). lia.
      * intros i j vi vj Hij Hi Hj Hg0 x Hxi Hxj.
        apply nth_error_snoc in Hi. apply nth_error_snoc in Hj.
        destruct Hi as [[Li Hi]|[Li ->]]; destruct Hj as [[Lj Hj]|[Lj ->]].
        -- exact (Hpw i j vi vj Hij Hi Hj Hg0 x Hxi Hxj).
        -- apply nth_error_In in Hi. rewrite Eg in Hg0.
           specialize (Hcur vi x Hi Hg0 Hxi). specialize (Eb x Hxj). lia.
        -- apply nth_error_In in Hj. rewrite Eg in Hg0. symmetry in Hg0.
           specialize (Hcur vj x Hj Hg0 Hxj). specialize (Eb x Hxi). lia.
        -- lia.
      * intros v0 Hin. apply in_app_or in Hin. destruct Hin as [Hin|[<-|[]]].
        -- specialize (Hgen v0 Hin). lia.
        -- lia.
    + repeat split; auto. apply (Hcur v x); assumption. apply (Hcur v x); assumption.
  - split; [lia|]. split; [|split].
    + intros v x Hin Hg0. specialize (Hgen v Hin). lia.
    + exact Hpw.
    + intros v Hin. specialize (Hgen v Hin). lia.
Qed.

Lemma IdInv_fold ops : forall st, IdInv st -> IdInv (fold_left step_faithful ops st).
Proof.
  induction ops as [|o ops IH]; intros st H; simpl; [exact H|].
  apply IH. apply IdInv_step. exact H.
Qed.

Lemma IdInv_init : IdInv (g0, []).
Proof.
  unfold IdInv; simpl. split; [lia|]. split; [|split].
  - intros v x [].
  - intros i j vi vj _ Hi. destruct i; discriminate.
  - intros v [].
Qed.

Lemma ids_unique : ids_unique_stmt.
Proof.
  intros ops. pose proof (IdInv_fold ops _ IdInv_init) as H.
  fold (run ops) in H. destruct (run ops) as [g vs].
  unfold IdInv in H. simpl in H. destruct H as (_ & H1 & H2 & H3).
  split; [exact H1|]. split; [exact H2|exact H3].
Qed.

Definition NmInv (st : gstate * list var) : Prop :=
  let g := fst st in let vs := snd st in
  (forall v k, In v vs -> v_name v = Unnamed k -> k < unnamed g) /\
  (forall i j vi vj ki kj, i <> j -> nth_error vs i = Some vi -> nth_error vs j = Some vj ->
     v_name vi = Unnamed ki -> v_name vj = Unnamed kj -> ki <> kj).

Lemma NmInv_step st o : NmInv st -> NmInv (step_faithful st o).
Proof.
  destruct st as [g vs]. intros (Hlt & Hpw). unfold NmInv in *. simpl in *.
  destruct o as [sh sym name|]; simpl.
  - destruct (new_var g sh sym name) as [[g' v]|] eqn:E; simpl.
    + apply new_var_err_facts in E. destruct E as (Ele & Enm).
      split.
      * intros v0 k Hin Hk. apply in_app_or in Hin. destruct Hin as [Hin|[<-|[]]].
        -- specialize (Hlt v0 k Hin Hk). lia.
        -- specialize (Enm k Hk). lia.
      * intros i j vi vj ki kj Hij Hi Hj Hki Hkj.
        apply nth_error_snoc in Hi. apply nth_error_snoc in Hj.
        destruct Hi as [[Li Hi]|[Li ->]]; destruct Hj as [[Lj Hj]|[Lj ->]].
        -- exact (Hpw i j vi vj ki kj Hij Hi Hj Hki Hkj).
        -- apply nth_error_In in Hi. specialize (Hlt vi ki Hi Hki). specialize (Enm kj Hkj). lia.
        -- apply nth_error_In in Hj. specialize (Hlt vj kj Hj Hkj). specialize (Enm ki Hki). lia.
        -- lia.
    + split; [|exact Hpw]. intros v k Hin Hk. specialize (Hlt v k Hin Hk).
      destruct name; lia.
  - split; assumption.
Qed.

Lemma NmInv_fold ops : forall st, NmInv st -> NmInv (fold_left step_faithful ops st).
Proof.
  induction ops as [|o ops IH]; intros st H; simpl; [exact H|].
  apply IH. apply NmInv_step. exact H.
Qed.

Lemma NmInv_init : NmInv (g0, []).
Proof.
  unfold NmInv; simpl. split.
  - intros v k [].
  - intros i j vi vj ki kj _ Hi. destruct i; discriminate.
Qed.

Lemma unnamed_distinct : unnamed_distinct_stmt.
Proof.
  intros ops i j vi vj ki kj Hij Hi Hj Hki Hkj.
  pose proof (NmInv_fold ops _ NmInv_init) as [_ H]. fold (run ops) in H.
  exact (H i j vi vj ki kj Hij Hi Hj Hki Hkj).
Qed.

Print Assumptions clear_separates.
Print Assumptions reduce_setstate.
Print Assumptions sv_roundtrip.
Print Assumptions sv_getstate_drops_parent.
Print Assumptions new_var_unstructured.
Print Assumptions new_var_errors.
Print Assumptions ids_unique.
Print Assumptions unnamed_distinct.
Print Assumptions new_var_symmetric.
