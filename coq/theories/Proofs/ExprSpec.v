(* Proofs/ExprSpec.v — statements of the C08 theorems: coniclifts Expression arithmetic
   (Model/Expr.v, Model/ExprProg.v) is numpy arithmetic on the values. *)
From Coq Require Import Reals List Bool Arith ZArith QArith Qreals Lra.
From SageVerif Require Import Math.RVec Model.Expr Model.ExprProg.
Import ListNotations.
Open Scope R_scope.

(* ---- values ---- *)
Definition env := Z -> R.

Definition aff_val (rho : env) (a : aff) : R :=
  fold_right (fun ic acc => Q2R (snd ic) * rho (fst ic) + acc) 0 (fst a) + Q2R (snd a).

(* scipy.special.rel_entr on its finite domain; 0 is returned off the domain (where scipy gives +inf) *)
Definition rel_entr (x y : R) : R :=
  if Rlt_dec 0 x then (if Rlt_dec 0 y then x * ln (x / y) else 0) else 0.

Definition nl_val (k : nlkind) (vs : list R) : R :=
  match k, vs with
  | KExp, [v] => exp v
  | KAbs, [v] => Rabs v
  | KPos, [v] => Rmax v 0
  | KRelEnt, [x; y] => rel_entr x y
  | KNorm2, _ => sqrt (sumsq vs)
  | _, _ => 0
  end.

Definition atom_val (rho : env) (a : atom) : R :=
  match a with
  | AVar i => rho i
  | ANl k args => nl_val k (map (aff_val rho) args)
  end.

Definition value (rho : env) (e : sexpr) : R :=
  fold_right (fun t acc => Q2R (snd t) * atom_val rho (fst t) + acc) 0 (terms e) + Q2R (off e).

(* ---- scalar arithmetic is arithmetic on values ---- *)
Definition scalar_hom_stmt : Prop :=
  forall rho a b q,
    value rho (sadd a b) = value rho a + value rho b /\
    value rho (ssub a b) = value rho a - value rho b /\
    value rho (sneg a) = - value rho a /\
    value rho (sscale q a) = Q2R q * value rho a /\
    value rho (sconst q) = Q2R q /\
    (forall r, smul a b = ROk r -> value rho r = value rho a * value rho b) /\
    (forall r, sdiv a q = ROk r -> value rho r = value rho a / Q2R q).

(* the error branches are exactly the complements *)
Definition scalar_errors_stmt : Prop :=
  forall a b q,
    (smul a b = RErr <-> (is_constant a = false /\ is_constant b = false)) /\
    (sdiv a q = RErr <-> Qeq q 0).

(* atoms with equal parsed arguments are the same atom and have the same value *)
Definition atom_eqb_value_stmt : Prop :=
  forall rho a b, atom_eqb a b = true -> atom_val rho a = atom_val rho b.

(* the dict view: the coefficient of an atom is the sum of its entries; the value is the
   coefficient-weighted sum over the distinct keys *)
Definition value_by_keys_stmt : Prop :=
  forall rho e,
    value rho e = fold_right (fun a acc => Q2R (coeff_of a e) * atom_val rho a + acc) 0 (keys e) + Q2R (off e).

(* the comparison used by the correspondence check is sound: equal canonical forms, equal functions *)
Definition sexpr_eqb_sound_stmt : Prop :=
  forall a b, sexpr_eqb a b = true -> forall rho, value rho a = value rho b.

(* ---- introspection ---- *)
Definition is_constant_sound_stmt : Prop :=
  forall e, is_constant e = true -> forall rho, value rho e = Q2R (off e).

(* the value depends only on the reported scalar variables *)
Definition introspection_sound_stmt : Prop :=
  forall e rho rho',
    (forall i, In i (scalar_variable_ids e) -> rho i = rho' i) -> value rho e = value rho' e.

(* affine expressions: the value is the affine form, and every reported variable has a
   nonzero coefficient (the value really depends on it) *)
Definition is_affine_exact_stmt : Prop :=
  forall e, is_affine e = true ->
    (forall rho, value rho e =
       fold_right (fun a acc => Q2R (coeff_of a e) * rho (var_id a) + acc) 0 (live_keys e) + Q2R (off e)) /\
    (forall a, In a (live_keys e) -> is_var a = true /\ ~ Qeq (coeff_of a e) 0) /\
    (forall i, In i (scalar_variable_ids e) <-> exists a, In a (live_keys e) /\ var_id a = i).

(* ---- nonlinear operators evaluate to their mathematical definitions ---- *)
Definition parse_arg_value_stmt : Prop :=
  forall e a, parse_arg e = ROk a -> forall rho, aff_val rho a = value rho e.

Definition mk_atom_value_stmt : Prop :=
  forall k es r, mk_atom k es = ROk r ->
    forall rho, value rho r = nl_val k (map (value rho) es).

(* ---- arrays: every generic array operator commutes with any homomorphism of elements;
   instantiated with (sexpr -> R) = value it says: the Expression result evaluates to the numpy
   operation applied to the values ---- *)
Section Naturality.
  Context {X Y : Type}.
  Context (xzero : X) (xadd : X -> X -> X) (xscale : Q -> X -> X).
  Context (yzero : Y) (yadd : Y -> Y -> Y) (yscale : Q -> Y -> Y).
  Context (phi : X -> Y).

  Definition hom : Prop :=
    phi xzero = yzero /\ (forall a b, phi (xadd a b) = yadd (phi a) (phi b)) /\
    (forall q a, phi (xscale q a) = yscale q (phi a)).

  Definition gmap (a : garr X) : garr Y := {| shape := shape a; cells := map phi (cells a) |}.
  Definition rmap (r : res (garr X)) : res (garr Y) := match r with ROk a => ROk (gmap a) | RErr => RErr end.
  Definition rmap1 (r : res X) : res Y := match r with ROk a => ROk (phi a) | RErr => RErr end.

  Definition naturality_stmt : Prop :=
    hom ->
    (forall a b, rmap (aadd xzero xadd a b) = aadd yzero yadd (gmap a) (gmap b)) /\
    (forall a b, rmap (asub xzero xadd xscale a b) = asub yzero yadd yscale (gmap a) (gmap b)) /\
    (forall q a, gmap (ascale xscale q a) = ascale yscale q (gmap a)) /\
    (forall a, gmap (aneg xscale a) = aneg yscale (gmap a)) /\
    (forall a q, rmap (adivq xscale a q) = adivq yscale (gmap a) q) /\
    (forall M mv a, rmap (rmatmul xzero xadd xscale M mv a) = rmatmul yzero yadd yscale M mv (gmap a)) /\
    (forall a N nv, rmap (matmul xzero xadd xscale a N nv) = matmul yzero yadd yscale (gmap a) N nv) /\
    (forall a, phi (asum_all xzero xadd a) = asum_all yzero yadd (gmap a)) /\
    (forall ax a, rmap (asum_axis xzero xadd ax a) = asum_axis yzero yadd ax (gmap a)) /\
    (forall xs, rmap (aconcat1 xs) = aconcat1 (map gmap xs)) /\
    (forall xs, rmap (avstack xs) = avstack (map gmap xs)) /\
    (forall a i, rmap1 (aindex xzero a i) = aindex yzero (gmap a) i) /\
    (forall a lo hi, rmap (aslice a lo hi) = aslice (gmap a) lo hi) /\
    (forall a k, rmap (atile a k) = atile (gmap a) k) /\
    (forall a k, rmap (arepeat a k) = arepeat (gmap a) k) /\
    (forall a, rmap1 (atrace xzero xadd a) = atrace yzero yadd (gmap a)) /\
    (forall a, rmap (adiag xzero a) = adiag yzero (gmap a)) /\
    (forall a, rmap (atranspose xzero a) = atranspose yzero (gmap a)) /\
    (forall cs a, rmap1 (adotq xzero xadd xscale cs a) = adotq yzero yadd yscale cs (gmap a)) /\
    (forall cs a, rmap (aouterq xscale cs a) = aouterq yscale cs (gmap a)) /\
    (forall cs a, rmap (akronq xscale cs a) = akronq yscale cs (gmap a)) /\
    (forall a i v, rmap (asetitem a i v) = asetitem (gmap a) i (phi v)).
End Naturality.

Definition array_naturality_stmt : Prop :=
  forall (X Y : Type) xzero xadd xscale yzero yadd yscale (phi : X -> Y),
    naturality_stmt xzero xadd xscale yzero yadd yscale phi.

(* value is such a homomorphism from (sexpr, sconst 0, sadd, sscale) to (R, 0, +, scaling) *)
Definition rscale (q : Q) (x : R) : R := Q2R q * x.
Definition value_is_hom_stmt : Prop :=
  forall rho, hom szero sadd sscale 0 Rplus rscale (value rho).

(* the generic operators at R are numpy's: e.g. matrix-vector product and broadcasting addition *)
Definition lincomb_R_stmt : Prop :=
  forall cs vs, lincomb 0 Rplus rscale cs vs = dot (map Q2R cs) vs.

Definition broadcast_add_R_stmt : Prop :=
  forall (a b r : garr R), aadd 0 Rplus a b = ROk r ->
    let k := Nat.max (length (shape a)) (length (shape b)) in
    bshape (pad_shape k (shape a)) (pad_shape k (shape b)) = Some (shape r) /\
    length (cells r) = size_of (shape r) /\
    forall i, (i < size_of (shape r))%nat ->
      nth i (cells r) 0 =
      nth (bravel (pad_shape k (shape a)) (unravel (shape r) i)) (cells a) 0 +
      nth (bravel (pad_shape k (shape b)) (unravel (shape r) i)) (cells b) 0.

(* ---- any composition: programs ---- *)
(* numpy semantics of a program on arrays of reals *)
Definition nreg := garr R.
Definition nget (rs : list nreg) (i : nat) : option nreg := nth_error rs i.

Definition nzip_res (f : R -> R -> R) (a b : nreg) : option nreg := lift (azip 0 f a b).

Definition nstep (rho : env) (rs : list nreg) (i : instr) : option nreg :=
  match i with
  | IVar sh ids => if Nat.eqb (size_of sh) (length ids) then Some {| shape := sh; cells := map rho ids |} else None
  | IConst sh vals => if Nat.eqb (size_of sh) (length vals) then Some {| shape := sh; cells := map Q2R vals |} else None
  | IAdd a b => obind (nget rs a) (fun x => obind (nget rs b) (fun y => lift (aadd 0 Rplus x y)))
  | ISub a b => obind (nget rs a) (fun x => obind (nget rs b) (fun y => lift (asub 0 Rplus rscale x y)))
  | IMulE a b => obind (nget rs a) (fun x => obind (nget rs b) (fun y => nzip_res Rmult x y))
  | IMulQ a q => obind (nget rs a) (fun x => Some (ascale rscale q x))
  | IDivQ a q => obind (nget rs a) (fun x => lift (adivq rscale x q))
  | IAddQ a q => obind (nget rs a) (fun x => Some (amap (fun v => v + Q2R q) x))
  | IRSubQ q a => obind (nget rs a) (fun x => Some (amap (fun v => Q2R q - v) x))
  | INeg a => obind (nget rs a) (fun x => Some (aneg rscale x))
  | IRMatmul M mv a => obind (nget rs a) (fun x => lift (rmatmul 0 Rplus rscale M mv x))
  | IMatmul a N nv => obind (nget rs a) (fun x => lift (matmul 0 Rplus rscale x N nv))
  | ISumAll a => obind (nget rs a) (fun x => Some {| shape := []; cells := [asum_all 0 Rplus x] |})
  | ISumAxis ax a => obind (nget rs a) (fun x => lift (asum_axis 0 Rplus ax x))
  | IConcat xs => obind (all_some (map (nget rs) xs)) (fun l => lift (aconcat1 l))
  | IVstack xs => obind (all_some (map (nget rs) xs)) (fun l => lift (avstack l))
  | IIndex a i => obind (nget rs a) (fun x => obind (lift (aindex 0 x i)) (fun v => Some {| shape := []; cells := [v] |}))
  | ISlice a lo hi => obind (nget rs a) (fun x => lift (aslice x lo hi))
  | ITile a k => obind (nget rs a) (fun x => lift (atile x k))
  | IRepeat a k => obind (nget rs a) (fun x => lift (arepeat x k))
  | ITrace a => obind (nget rs a) (fun x => obind (lift (atrace 0 Rplus x)) (fun v => Some {| shape := []; cells := [v] |}))
  | IDiag a => obind (nget rs a) (fun x => lift (adiag 0 x))
  | ITranspose a => obind (nget rs a) (fun x => lift (atranspose 0 x))
  | IDotQ cs a => obind (nget rs a) (fun x => obind (lift (adotq 0 Rplus rscale cs x)) (fun v => Some {| shape := []; cells := [v] |}))
  | IOuterQ cs a => obind (nget rs a) (fun x => lift (aouterq rscale cs x))
  | IKronQ cs a => obind (nget rs a) (fun x => lift (akronq rscale cs x))
  | ISetItem a i b => obind (nget rs a) (fun x => obind (nget rs b) (fun y =>
                        match cells y with [v] => lift (asetitem x i v) | _ => None end))
  | IAbs a => obind (nget rs a) (fun x => Some (amap Rabs x))
  | IPos a => obind (nget rs a) (fun x => Some (amap (fun v => Rmax v 0) x))
  | IWse c a => obind (nget rs a) (fun x => Some {| shape := []; cells := [dot (map Q2R c) (map exp (cells x))] |})
  | IRelent a b => obind (nget rs a) (fun x => obind (nget rs b) (fun y =>
                     Some {| shape := []; cells := [rsum (map (fun p => rel_entr (fst p) (snd p)) (combine (cells x) (cells y)))] |}))
  | INorm a => obind (nget rs a) (fun x => Some {| shape := []; cells := [sqrt (sumsq (cells x))] |})
  end.

Definition reg_vals (rho : env) (r : reg) : nreg := {| shape := shape (snd r); cells := map (value rho) (cells (snd r)) |}.

(* one step: whenever the Expression instruction succeeds, the numpy instruction on the values
   succeeds and gives the values of the result (same shape, same entries) *)
Definition step_sound_stmt : Prop :=
  forall rho rs i r, step rs i = Some r ->
    nstep rho (map (reg_vals rho) rs) i = Some (reg_vals rho r).

(* whole programs, any length *)
Fixpoint nrun (rho : env) (rs : list nreg) (p : list instr) (tr : list (option reg)) : Prop :=
  match p, tr with
  | [], [] => True
  | i :: p', Some r :: tr' => nstep rho rs i = Some (reg_vals rho r) /\ nrun rho (rs ++ [reg_vals rho r]) p' tr'
  | i :: p', None :: tr' => nrun rho (rs ++ [reg_vals rho placeholder]) p' tr'
  | _, _ => False
  end.

Definition program_sound_stmt : Prop :=
  forall rho p, nrun rho [] p (run [] p).
