(* Proofs/ConGenCons.v — C15: the emitted log-space constraints are equivalent to the
   normalised constraints (gt_con, eq_con). *)
From Coq Require Import Reals List Bool Arith ZArith QArith Qreals Lra Lia Qabs.
From SageVerif Require Import Math.RVec Model.Signomial Model.SigExpr Model.SolverForms Model.ConGen
  Proofs.SigSpec Proofs.RelaxSpec Proofs.SigLemmas Proofs.SigRound Proofs.SigMk Proofs.SigOps
  Proofs.ConGenSpec Proofs.ConGenBase.
Import ListNotations.
Local Open Scope R_scope.

Notation dflt := (@nil Q, 0%Q).

(* ------------------------------------------------------------------ *)
(* constant_location *)
Lemma const_loc_aux : forall (g : qsig) s k,
  match filter (fun it : nat * (qrow * Q) => is_zero_row (fst (snd it))) (combine (seq s (length g)) g) with
  | (i, _) :: _ => Some i
  | [] => None
  end = Some k <->
  exists j, k = (s + j)%nat /\ (j < length g)%nat /\ is_zero_row (fst (nth j g dflt)) = true /\
            forall i, (i < j)%nat -> is_zero_row (fst (nth i g dflt)) = false.
Proof.
  induction g as [|t g IH]; intros s k.
  - simpl. split; [discriminate|]. intros [j [_ [H _]]]. lia.
  - cbn [length seq combine filter snd]. destruct (is_zero_row (fst t)) eqn:E.
    + split.
      * intros H. inversion H; subst k. exists 0%nat. repeat split; auto; simpl; try lia.
      * intros [j [-> [Hj [Hz Hb]]]]. destruct j as [|j]; [f_equal; lia|].
        specialize (Hb 0%nat). simpl in Hb. rewrite Hb in E; [discriminate|lia].
    + rewrite IH. split.
      * intros [j [-> [Hj [Hz Hb]]]]. exists (S j). repeat split; auto; simpl; try lia.
        intros [|i] Hi; auto. apply Hb. lia.
      * intros [j [-> [Hj [Hz Hb]]]]. destruct j as [|j]; [simpl in Hz; congruence|].
        exists j. repeat split; auto; simpl in *; try lia.
        intros i Hi. apply (Hb (S i)). lia.
Qed.

Lemma const_loc_spec : forall g k,
  const_loc g = Some k <->
  ((k < length g)%nat /\ is_zero_row (fst (nth k g dflt)) = true /\
   forall i, (i < k)%nat -> is_zero_row (fst (nth i g dflt)) = false).
Proof.
  intros g k. unfold const_loc. rewrite const_loc_aux. split.
  - intros [j [-> H]]. exact H.
  - intros H. exists k. split; auto.
Qed.

Lemma zero_row_dot : forall a x, is_zero_row a = true -> dot (rowR a) x = 0.
Proof.
  induction a as [|q a IH]; intros [|v x] H; try reflexivity.
  simpl in H. apply andb_true_iff in H. destruct H as [H1 H2].
  unfold rowR. cbn [map dot]. fold (rowR a). rewrite (IH x H2). apply Qeq_bool_iff in H1.
  rewrite (Qeq_eqR _ _ H1), Q2R_0'. lra.
Qed.

(* ------------------------------------------------------------------ *)
(* remove_nth *)
Lemma remove_nth_nil : forall {X} k, @remove_nth X k [] = [].
Proof. intros. unfold remove_nth. now rewrite firstn_nil, skipn_nil. Qed.

Lemma remove_nth_0 : forall {X} (t : X) l, remove_nth 0 (t :: l) = l.
Proof. reflexivity. Qed.

Lemma remove_nth_S : forall {X} k (t : X) l, remove_nth (S k) (t :: l) = t :: remove_nth k l.
Proof. reflexivity. Qed.

Lemma eval_remove_nth : forall g k x, (k < length g)%nat ->
  sig_evalR g x = Q2R (snd (nth k g dflt)) * exp (dot (rowR (fst (nth k g dflt))) x)
                  + sig_evalR (remove_nth k g) x.
Proof.
  induction g as [|t g IH]; intros k x H; [simpl in H; lia|].
  destruct k as [|k].
  - rewrite remove_nth_0, sig_evalR_cons. reflexivity.
  - rewrite remove_nth_S, !sig_evalR_cons. simpl in H. rewrite (IH k x) by lia. simpl nth. lra.
Qed.

Lemma Forall_remove_nth : forall {X} (P : X -> Prop) d (g : list X) k,
  (forall j, (j < length g)%nat -> j <> k -> P (nth j g d)) -> Forall P (remove_nth k g).
Proof.
  intros X P d. induction g as [|t g IH]; intros k H.
  - rewrite remove_nth_nil. constructor.
  - destruct k as [|k].
    + rewrite remove_nth_0. apply Forall_forall. intros y Hy.
      destruct (In_nth _ _ d Hy) as [j [Hj <-]]. apply (H (S j)); simpl; lia.
    + rewrite remove_nth_S. constructor.
      * apply (H 0%nat); simpl; lia.
      * apply IH. intros j Hj Hne. apply (H (S j)); simpl; lia.
Qed.

(* ------------------------------------------------------------------ *)
(* real-number facts *)
Lemma exp_le_iff : forall u v, exp u <= exp v <-> u <= v.
Proof.
  intros u v. split; intros H.
  - destruct (Rle_or_lt u v) as [K|K]; auto. apply exp_increasing in K. lra.
  - destruct H as [H|H]; [left; now apply exp_increasing|right; now rewrite H].
Qed.

Lemma Q2R_ratio : forall c0 c1, Q2R c1 < 0 ->
  Q2R (Qred (c0 / Qabs c1)) = Q2R c0 / - Q2R c1.
Proof.
  intros c0 c1 H1. assert (L : (c1 < 0)%Q) by (apply Rlt_Qlt; now rewrite Q2R_0').
  assert (E : (Qabs c1 == - c1)%Q) by (apply Qabs_neg; now apply Qlt_le_weak).
  rewrite Q2R_Qred, Q2R_div.
  - now rewrite (Qeq_eqR _ _ E), Q2R_opp.
  - rewrite E. intros K.
    assert (Z : (c1 == 0)%Q) by (rewrite <- (Qopp_involutive c1), K; reflexivity).
    rewrite Z in L. now apply Qlt_irrefl in L.
Qed.

Section OneTerm.
  Variables c0 c1 : Q.
  Variable d : R.
  Hypothesis H0 : 0 < Q2R c0.
  Hypothesis H1 : Q2R c1 < 0.

  Let r := Q2R c0 / - Q2R c1.

  Lemma ratio_pos : 0 < r.
  Proof. unfold r. apply Rdiv_lt_0_compat; lra. Qed.

  Lemma ratio_mul : r * (- Q2R c1) = Q2R c0.
  Proof. unfold r. field. lra. Qed.

  Lemma one_term_le : 0 <= Q2R c0 + Q2R c1 * exp d <-> d <= ln (Q2R (Qred (c0 / Qabs c1))).
  Proof.
    rewrite Q2R_ratio by auto. fold r. pose proof ratio_pos as P. pose proof ratio_mul as M.
    rewrite <- (exp_le_iff d (ln r)), (exp_ln r P). pose proof (exp_pos d).
    split; intros K; nra.
  Qed.

  Lemma one_term_eq : Q2R c0 + Q2R c1 * exp d = 0 <-> d = ln (Q2R (Qred (c0 / Qabs c1))).
  Proof.
    rewrite Q2R_ratio by auto. fold r. pose proof ratio_pos as P. pose proof ratio_mul as M.
    split; intros K.
    - assert (E : exp d = r) by nra. rewrite <- E. now rewrite ln_exp.
    - rewrite K, (exp_ln r P). nra.
  Qed.
End OneTerm.

Lemma sigeval_neg : forall (rest : qsig) x,
  sigeval (map rowR (map fst rest)) (map Q2R (map (fun t => Qred (- snd t)%Q) rest)) x
  = - sig_evalR rest x.
Proof.
  induction rest as [|t rest IH]; intros x.
  - unfold sig_evalR. simpl. lra.
  - rewrite sig_evalR_cons. cbn [map sigeval]. rewrite IH, Q2R_Qred, Q2R_opp. lra.
Qed.

Lemma neg_sum_nonpos : forall (rest : qsig) x,
  Forall (fun t => is_neg (snd t) = true) rest -> sig_evalR rest x <= 0.
Proof.
  induction 1 as [|t rest Ht _ IH].
  - unfold sig_evalR. simpl. lra.
  - rewrite sig_evalR_cons. apply is_neg_R in Ht.
    pose proof (exp_pos (dot (rowR (fst t)) x)). nra.
Qed.

(* ------------------------------------------------------------------ *)
Lemma gt_con_iff : gt_con_iff_stmt.
Proof.
  intros n g k x Hw Hx [Hc [Hp Hn]]. unfold gt_con. rewrite Hc. cbv zeta.
  apply const_loc_spec in Hc. destruct Hc as [Hk [Hz _]].
  pose proof (eval_remove_nth g k x Hk) as E. rewrite (zero_row_dot _ x Hz), exp_0, Rmult_1_r in E.
  assert (F : Forall (fun t : qrow * Q => is_neg (snd t) = true) (remove_nth k g))
    by (apply (Forall_remove_nth _ dflt); auto).
  apply is_pos_R in Hp. rewrite E. clear E.
  set (cst := snd (nth k g dflt)) in *.
  destruct (remove_nth k g) as [|[a c1] [|t2 rest]].
  - unfold sig_evalR. simpl. lra.
  - inversion F as [|? ? F1 _]; subst. simpl in F1. apply is_neg_R in F1.
    rewrite sig_evalR_cons. unfold sig_evalR at 1. simpl fold_right. simpl fst; simpl snd.
    unfold lcon_sat. rewrite <- (one_term_le cst c1 _ Hp F1).
    rewrite Rplus_0_r. reflexivity.
  - unfold lcon_sat. rewrite sigeval_neg. split; intros; lra.
Qed.

Lemma eq_con_iff : eq_con_iff_stmt.
Proof.
  intros n g k x Hw Hx [Hc [Hp Hn]] Hl.
  destruct g as [|[a0 c0] [|[a1 c1] [|? ?]]]; try discriminate.
  unfold eq_con. rewrite Hc. apply const_loc_spec in Hc. destruct Hc as [Hk [Hz _]].
  rewrite !sig_evalR_cons. unfold sig_evalR at 1. simpl fold_right. simpl fst; simpl snd.
  rewrite Rplus_0_r. simpl in Hk.
  destruct k as [|[|k]]; [| |lia].
  - simpl in Hz, Hp. apply is_pos_R in Hp.
    assert (N : is_neg c1 = true) by (apply (Hn 1%nat); simpl; lia). apply is_neg_R in N.
    unfold lcon_sat. rewrite <- (one_term_eq c0 c1 _ Hp N).
    rewrite (zero_row_dot _ x Hz), exp_0. split; intros; lra.
  - simpl in Hz, Hp. apply is_pos_R in Hp.
    assert (N : is_neg c0 = true) by (apply (Hn 0%nat); simpl; lia). apply is_neg_R in N.
    unfold lcon_sat. rewrite <- (one_term_eq c1 c0 _ Hp N).
    rewrite (zero_row_dot _ x Hz), exp_0. split; intros; lra.
Qed.
