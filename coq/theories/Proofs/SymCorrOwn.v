(* Proofs/SymCorrOwn.v — moment reduction with numeric coefficients: the coefficient function
   of q_mul's result is that of the list of all pairwise product terms, hence the identity
   s(x) h(x) = s.c . (C G_L(x)) whenever q_mul's rows all occur in L. *)
From Coq Require Import Reals List Bool Arith ZArith QArith Qreals Lra Lia.
From SageVerif Require Import Math.RVec Model.Signomial Model.SolverForms Model.SymCorr
  Proofs.SigSpec Proofs.SymCorrSpec Proofs.SymCorrBase Proofs.SymCorrSort Proofs.SymCorrReal.
Import ListNotations.
Local Open Scope R_scope.

(* ------------------------------------------------------------------ *)
(* coefficient sums                                                    *)
(* ------------------------------------------------------------------ *)
Lemma Q2R_csum_gen : forall l a, Q2R (fold_left qadd l a) = Q2R a + rsum (map Q2R l).
Proof.
  induction l as [|x l IH]; intros a; unfold rsum in *; simpl; [lra|].
  rewrite IH, Q2R_qadd. lra.
Qed.

Lemma Q2R_csum : forall l, Q2R (csum 0%Q qadd l) = rsum (map Q2R l).
Proof. intros. unfold csum. rewrite Q2R_csum_gen, Q2R_zero. lra. Qed.

Lemma coeffs_at_sum : forall (f : qsig) r, rsum (map Q2R (coeffs_at r f)) = coefR f r.
Proof.
  induction f as [|t f IH]; intros r; [reflexivity|].
  rewrite coefR_cons. unfold coeffs_at in *. cbn [filter].
  destruct (qrow_eqb (fst t) r); cbn [map]; unfold rsum in *; cbn [fold_right]; rewrite IH; lra.
Qed.

Lemma respects_one : respects (fun _ => 1).
Proof. intros a b _. reflexivity. Qed.

Lemma coefR_consolidate : forall (f : qsig) r, coefR (consolidate 0%Q qadd f) r = coefR f r.
Proof.
  intros f r. unfold consolidate. destruct (Nat.eqb _ _); [reflexivity|].
  set (u := sort_unique (map fst f)).
  unfold coefR at 1. rewrite map_map. cbn [fst snd].
  transitivity (Lsum (fun _ => 1) (fun l => if qrow_eqb r l then coefR f r else 0) u).
  - unfold Lsum. apply rsum_map_ext. intros x _. rewrite (qrow_eqb_sym x r).
    destruct (qrow_eqb r x) eqn:E; [|lra].
    rewrite Q2R_csum, coeffs_at_sum. rewrite (coefR_congr f r x E). lra.
  - rewrite single_sum; [lra | apply respects_one | apply sort_unique_distinct |].
    destruct (mem_row r (map fst f)) eqn:M.
    + left. apply sort_unique_mem. exact M.
    + right. apply coefR_nomatch. exact M.
Qed.

Definition rounded (f : qsig) : qsig := map (fun t => (round_row (fst t), snd t)) f.

Lemma coefR_rounded : forall (f : qsig) r, Forall on_grid_row (map fst f) -> coefR (rounded f) r = coefR f r.
Proof.
  intros f r H. unfold coefR, rounded. rewrite map_map. cbn [fst snd]. apply rsum_map_ext.
  intros t Ht. rewrite Forall_forall in H.
  rewrite (qrow_eqb_congr_l _ _ r (round_row_on_grid_eqb (fst t) (H _ (in_map fst _ _ Ht)))).
  reflexivity.
Qed.

Lemma coefR_mk : forall (f : qsig) r, Forall on_grid_row (map fst f) -> coefR (mk 0%Q qadd f) r = coefR f r.
Proof. intros f r H. unfold mk. fold (rounded f). rewrite coefR_consolidate. apply coefR_rounded. exact H. Qed.

Lemma grid_consolidate : forall (f : qsig), Forall on_grid_row (map fst f) ->
  Forall on_grid_row (map fst (consolidate 0%Q qadd f)).
Proof.
  intros f H. unfold consolidate. destruct (Nat.eqb _ _); [exact H|].
  rewrite map_map. cbn [fst]. rewrite map_id. apply Forall_forall. intros x Hx.
  apply sort_unique_In in Hx. rewrite Forall_forall in H. apply H. exact Hx.
Qed.

Lemma grid_rounded : forall (f : qsig), Forall on_grid_row (map fst (rounded f)).
Proof.
  intros f. unfold rounded. rewrite map_map. cbn [fst]. apply Forall_forall. intros x Hx.
  apply in_map_iff in Hx as [t [<- _]]. apply on_grid_round_row.
Qed.

Lemma grid_mk : forall (f : qsig), Forall on_grid_row (map fst (mk 0%Q qadd f)).
Proof. intros f. unfold mk. fold (rounded f). apply grid_consolidate. apply grid_rounded. Qed.

(* ------------------------------------------------------------------ *)
(* without_zeros                                                       *)
(* ------------------------------------------------------------------ *)
Definition nonzero_terms (f : qsig) : qsig := filter (fun t => negb (qiszero (snd t))) f.

Lemma coefR_nonzero_terms : forall f r, coefR (nonzero_terms f) r = coefR f r.
Proof.
  induction f as [|t f IH]; intros r; [reflexivity|].
  unfold nonzero_terms in *. cbn [filter]. destruct (qiszero (snd t)) eqn:Z; cbn [negb].
  - rewrite coefR_cons, IH, (qiszero_Q2R _ Z). destruct (qrow_eqb (fst t) r); lra.
  - rewrite !coefR_cons, IH. reflexivity.
Qed.

Lemma grid_nonzero_terms : forall f, Forall on_grid_row (map fst f) -> Forall on_grid_row (map fst (nonzero_terms f)).
Proof.
  intros f H. rewrite Forall_forall in *. intros x Hx. apply in_map_iff in Hx as [t [<- Ht]].
  unfold nonzero_terms in Ht. apply filter_In in Ht as [Ht _]. apply H. apply in_map. exact Ht.
Qed.

Definition wz_body (n : nat) (f : qsig) : qsig :=
  let keep := nonzero_terms f in
  if Nat.eqb (length keep) (length f) then f
  else match keep with
       | [] => mk 0%Q qadd (const_sig n (qid 0))
       | _ => mk 0%Q qadd keep
       end.

Lemma without_zeros_unfold : forall n (f : qsig),
  without_zeros 0%Q qadd qid qiszero n f = match f with [_] => f | _ => wz_body n f end.
Proof. intros n f. destruct f as [|t [|t' f]]; reflexivity. Qed.

Lemma coefR_wz_body : forall n f r, Forall on_grid_row (map fst f) -> coefR (wz_body n f) r = coefR f r.
Proof.
  intros n f r H. unfold wz_body. cbn zeta. destruct (Nat.eqb _ _); [reflexivity|].
  pose proof (coefR_nonzero_terms f r) as Hk. pose proof (grid_nonzero_terms f H) as Hg.
  destruct (nonzero_terms f) as [|k keep].
  - rewrite <- Hk. unfold mk, const_sig. cbn [map]. rewrite coefR_consolidate.
    rewrite coefR_cons. cbn [snd]. unfold qid. rewrite Q2R_Qred, Q2R_zero.
    destruct (qrow_eqb _ r); unfold coefR, rsum; simpl; lra.
  - rewrite coefR_mk by exact Hg. exact Hk.
Qed.

Lemma coefR_without_zeros : forall n f r, Forall on_grid_row (map fst f) ->
  coefR (without_zeros 0%Q qadd qid qiszero n f) r = coefR f r.
Proof.
  intros n f r H. rewrite without_zeros_unfold.
  destruct f as [|t [|t' f]]; try reflexivity; apply coefR_wz_body; exact H.
Qed.

(* ------------------------------------------------------------------ *)
(* the product                                                         *)
(* ------------------------------------------------------------------ *)
Definition prodterms (s h : qsig) : qsig :=
  flat_map (fun t2 => map (fun t1 => (round_row (vaddq (fst t1) (fst t2)), qmul (snd t1) (snd t2))) s) h.

Lemma q_mul_unfold : forall n s h,
  q_mul n s h = without_zeros 0%Q qadd qid qiszero n (mk 0%Q qadd (prodterms s h)).
Proof. reflexivity. Qed.

Lemma grid_prodterms : forall s h, Forall on_grid_row (map fst (prodterms s h)).
Proof.
  intros s h. apply Forall_forall. intros x Hx. apply in_map_iff in Hx as [t [<- Ht]].
  unfold prodterms in Ht. apply in_flat_map in Ht as [t2 [_ Ht]]. apply in_map_iff in Ht as [t1 [<- _]].
  apply on_grid_round_row.
Qed.

Lemma coefR_q_mul : forall n s h r, coefR (q_mul n s h) r = coefR (prodterms s h) r.
Proof.
  intros n s h r. rewrite q_mul_unfold. rewrite coefR_without_zeros by apply grid_mk.
  apply coefR_mk. apply grid_prodterms.
Qed.

Lemma coefR_prodterms : forall s h l,
  coefR (prodterms s h) l = rsum (map (fun t => Q2R (snd t) * coefR (shifted h (fst t)) l) s).
Proof.
  intros s h l. unfold coefR at 1. unfold prodterms. rewrite rsum_flat_map.
  transitivity (rsum (map (fun t2 : qrow * Q => rsum (map (fun t1 : qrow * Q =>
      Q2R (snd t1) * (if qrow_eqb (round_row (vaddq (fst t2) (fst t1))) l then Q2R (snd t2) else 0)) s)) h)).
  - apply rsum_map_ext. intros t2 _. rewrite map_map. cbn [fst snd]. apply rsum_map_ext. intros t1 _.
    rewrite (vaddq_comm (fst t2) (fst t1)), Q2R_qmul.
    destruct (qrow_eqb _ l); lra.
  - rewrite rsum_swap. apply rsum_map_ext. intros t1 _.
    rewrite rsum_map_scal. f_equal. unfold coefR, shifted. rewrite map_map. reflexivity.
Qed.

Lemma evalchi_prodterms : forall n chi s h, character n chi -> wfsig n s -> wfsig n h ->
  evalchi chi (prodterms s h) = evalchi chi s * evalchi chi h.
Proof.
  intros n chi s h [Hmul Hresp] Hs Hh. rewrite !evalchi_rsum. unfold prodterms. rewrite rsum_flat_map.
  unfold wfsig in *. rewrite Forall_forall in Hs, Hh.
  transitivity (rsum (map (fun t2 : qrow * Q =>
      rsum (map (fun t : qrow * Q => Q2R (snd t) * chi (fst t)) s) * (Q2R (snd t2) * chi (fst t2))) h)).
  - apply rsum_map_ext. intros t2 H2. rewrite map_map. cbn [fst snd].
    rewrite <- rsum_map_scal_r. apply rsum_map_ext. intros t1 H1.
    destruct (Hs _ H1) as [L1 G1]. destruct (Hh _ H2) as [L2 G2]. unfold qrow in *.
    rewrite (Hresp _ _ (round_row_on_grid_eqb _ (on_grid_vaddq _ _ G1 G2))).
    rewrite Hmul by auto. rewrite Q2R_qmul. lra.
  - rewrite rsum_map_scal. reflexivity.
Qed.

(* values are determined by the coefficient function *)
Lemma evalchi_ext : forall chi f g, respects chi -> (forall r, coefR f r = coefR g r) ->
  evalchi chi f = evalchi chi g.
Proof.
  intros chi f g Hchi H.
  set (U := dedup (map fst f ++ map fst g)).
  assert (HU : distinct U) by apply dedup_distinct.
  rewrite <- (Lsum_coefR chi U f Hchi HU), <- (Lsum_coefR chi U g Hchi HU).
  - apply Lsum_ext. intros; apply H.
  - intros t Ht. left. unfold U. rewrite dedup_mem. apply mem_row_In. apply in_or_app. right. apply in_map. exact Ht.
  - intros t Ht. left. unfold U. rewrite dedup_mem. apply mem_row_In. apply in_or_app. left. apply in_map. exact Ht.
Qed.

Lemma pairing_own : forall (G : qrow * Q -> R) (s : qsig),
  pairing (map snd s) (map G s) = rsum (map (fun t => Q2R (snd t) * G t) s).
Proof.
  intros G. induction s as [|t s IH]; [reflexivity|].
  unfold pairing, rsum in *. cbn [map combine fold_right fst snd]. rewrite IH. reflexivity.
Qed.

Lemma moment_reduction_own_proof : moment_reduction_own_stmt.
Proof.
  intros n chi s h L C Hchi Hs Hds Hh Hdh HL Hsne Hhne HC.
  assert (Hresp : respects chi) by exact (proj2 Hchi).
  unfold moment_reduction_array in HC. cbn [product_rows] in HC.
  destruct (forallb _ _) eqn:Hall; [|discriminate]. inversion HC as [HCeq]. clear HC.
  rewrite forallb_forall in Hall.
  destruct (wfsig_distinct_ref n L HL) as [HdL HgL].
  assert (Hrows : rowsC (map (fun t => relative_coeff_vector (shift_sig h (fst t)) (map fst L)) s) chi L
                  = map (fun t => Lsum chi (coefR (shifted h (fst t))) (map fst L)) s).
  { unfold rowsC. rewrite map_map. apply map_ext_in. intros t Ht.
    unfold wfsig in Hs. rewrite Forall_forall in Hs. destruct (Hs t Ht) as [Lt Gt].
    apply (Crow_sum n chi h L (fst t)); auto. }
  rewrite Hrows, pairing_own.
  transitivity (Lsum chi (coefR (prodterms s h)) (map fst L)).
  - rewrite <- (evalchi_prodterms n chi s h Hchi Hs Hh).
    rewrite (evalchi_ext chi (prodterms s h) (q_mul n s h) Hresp) by (intros; symmetry; apply coefR_q_mul).
    rewrite <- (Lsum_coefR chi (map fst L) (q_mul n s h) Hresp HdL).
    + apply Lsum_ext. intros; apply coefR_q_mul.
    + intros t Ht. left. apply Hall. apply in_map. exact Ht.
  - unfold Lsum.
    transitivity (rsum (map (fun l => rsum (map (fun t : qrow * Q =>
                     Q2R (snd t) * (coefR (shifted h (fst t)) l * chi l)) s)) (map fst L))).
    + apply rsum_map_ext. intros l _. rewrite coefR_prodterms. rewrite <- rsum_map_scal_r.
      apply rsum_map_ext. intros; lra.
    + rewrite <- rsum_swap. apply rsum_map_ext. intros t _. rewrite rsum_map_scal. reflexivity.
Qed.
