(* Proofs/RelaxConEllProofs.v — C04, primal form at every level ell (statements: Proofs/RelaxConEllSpec.v).
   modulated_lagrangian_value   : subst_commutes (C13) on the tree YMul (lagrangian_tree ..) (YNum t);
   constrained_primal_sound_ell : the ell = 0 argument (RelaxConProofs.constrained_primal_sound) after dividing the
                                  nonnegative product by the positive modulator value;
   ones_pow_pos                 : a nonempty sum of exponentials is positive, and so is each of its powers. *)
From Coq Require Import Reals List Bool Arith ZArith QArith Qreals Lra Lia.
From SageVerif Require Import Math.RVec Model.Expr Model.Signomial Model.SymSig Model.SolverForms Model.Compile
  Model.Sage Model.RelaxSig Model.RelaxCon
  Proofs.ExprSpec Proofs.SigSpec Proofs.SigLemmas Proofs.SigMk
  Proofs.SymCorrSpec Proofs.SymCorrProofs
  Proofs.SymSigSpec Proofs.SymSigTree
  Proofs.FormsSpec Proofs.CompileSpec Proofs.SageSpec Proofs.SagePrimalProofs
  Proofs.RelaxSpec Proofs.RelaxConSpec Proofs.RelaxConProofs Proofs.RelaxConEllSpec.
Import ListNotations.
Local Open Scope R_scope.

Lemma modulated_wfy : forall n f g E gts eqs t,
  fwf n f -> E_ok n E -> cons_ok n E gts -> cons_ok n E eqs -> fwf n t ->
  wfy n (YMul (lagrangian_tree f g E gts eqs) (YNum t)).
Proof.
  intros n f g E gts eqs t Hf HE Hg Hh [Hw [_ Hne]].
  change (wfy n (lagrangian_tree f g E gts eqs) /\ (t <> [] /\ Forall (fun r => length (fst r) = n) t)).
  split; [apply lagrangian_wfy; assumption|]. split; [exact Hne | apply wfsig_widths; exact Hw].
Qed.

Lemma modulated_lagrangian_value : modulated_lagrangian_value_stmt.
Proof.
  intros n chi rho f g E gts eqs t L Lm Hc Hone Hf HE Hg Hh Ht HL HLm.
  unfold modulated_lagrangian in HLm. unfold make_sig_lagrangian in HL.
  rewrite (subst_commutes false n chi rho _ Lm Hc (modulated_wfy n f g E gts eqs t Hf HE Hg Hh Ht) Hone HLm).
  rewrite (subst_commutes false n chi rho _ L Hc (lagrangian_wfy n f g E gts eqs Hf HE Hg Hh) Hone HL).
  change (ysem chi rho (YMul (lagrangian_tree f g E gts eqs) (YNum t)))
    with (ysem chi rho (lagrangian_tree f g E gts eqs) *
          evalchi chi (map (fun r => (round_row (fst r), snd r)) t)).
  destruct Ht as [Hw _]. rewrite (evalchi_rounded_grid n chi t Hc Hw). reflexivity.
Qed.

Lemma constrained_primal_sound_ell : constrained_primal_sound_ell_stmt.
Proof.
  intros n N f g E gts eqs t L Lm X rho Hf HE Hg Hh Ht HL HLm HsL Hmul z Hz Htpos Hge Heq.
  set (x := firstn n z) in *.
  assert (Hlen : length x = n) by exact (sage_feasible_len _ _ _ _ _ _ _ HsL Hz).
  assert (Hc : character n (expchi x)) by exact (sig_character n x Hlen).
  assert (Hone : expchi x (repeat 0%Q n) = 1) by (unfold expchi; rewrite dot_zeros; apply exp_0).
  pose proof (lagrangian_identity n (expchi x) rho f g E gts eqs L Hc Hone Hf HE Hg Hh HL) as Hid.
  pose proof (modulated_lagrangian_value n (expchi x) rho f g E gts eqs t L Lm Hc Hone Hf HE Hg Hh Ht HL HLm) as Hm.
  pose proof (sage_feasible_nonneg _ _ _ _ _ _ _ HsL Hz) as HL0.
  rewrite sig_at_sevalchi in HL0. fold x in HL0. rewrite Hm, evalchi_expchi in HL0.
  assert (HL1 : 0 <= sevalchi (expchi x) rho L).
  { destruct (Rle_or_lt 0 (sevalchi (expchi x) rho L)) as [H|H]; [exact H|].
    exfalso. assert (sevalchi (expchi x) rho L * sig_evalR t x < 0); [|lra].
    replace 0 with (0 * sig_evalR t x) by ring. apply Rmult_lt_compat_r; assumption. }
  clear HL0 Hm. rewrite Hid in HL1.
  rewrite (fold_right_sum_app (fun gi => evalchi (expchi x) (fst gi) * mult_val (expchi x) rho E (snd gi))) in HL1.
  rewrite (sum_eqs_zero (fun gi => evalchi (expchi x) (fst gi)) (fun gi => mult_val (expchi x) rho E (snd gi)) eqs) in HL1
    by (intros hi Hi; rewrite evalchi_expchi; apply Heq; exact Hi).
  assert (0 <= fold_right (fun gi acc => evalchi (expchi x) (fst gi) * mult_val (expchi x) rho E (snd gi) + acc) 0 gts).
  { apply (sum_gts_nonneg (fun gi => evalchi (expchi x) (fst gi)) (fun gi => mult_val (expchi x) rho E (snd gi))).
    - intros gi Hi. rewrite evalchi_expchi. apply Hge. exact Hi.
    - intros gi Hi. unfold x. rewrite <- sig_at_mult_val.
      exact (sage_feasible_nonneg _ _ _ _ _ _ _ (Hmul gi Hi) Hz). }
  rewrite evalchi_expchi in HL1. lra.
Qed.

Lemma ones_nonneg : forall (rows : list qrow) x, 0 <= sig_evalR (RelaxConEllSpec.ones_sig rows) x.
Proof.
  intros rows x. induction rows as [|r rows IH]; [simpl; lra|].
  unfold RelaxConEllSpec.ones_sig, sig_evalR in *. cbn [map fold_right fst snd].
  pose proof (exp_pos (dot (rowR r) x)). replace (Q2R 1) with 1 by (unfold Q2R; simpl; lra). lra.
Qed.

Lemma ones_pow_pos : ones_pow_pos_stmt.
Proof.
  intros n rows ell x Hne _ _. apply pow_lt.
  destruct rows as [|r rows]; [congruence|].
  pose proof (ones_nonneg rows x) as H0.
  unfold RelaxConEllSpec.ones_sig, sig_evalR in *. cbn [map fold_right fst snd].
  pose proof (exp_pos (dot (rowR r) x)). replace (Q2R 1) with 1 by (unfold Q2R; simpl; lra). lra.
Qed.
