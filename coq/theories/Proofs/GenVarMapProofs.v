(* Proofs/GenVarMapProofs.v *)
From Coq Require Import List Bool Arith ZArith Lia.
From SageVerif Require Import Model.Alloc Model.AllocIdioms Gen.GenVarMap Proofs.GenVarMapSpec Proofs.GenAllocProofs.
Import ListNotations.

Lemma tup_eqb_eq : forall a b, tup_eqb a b = true <-> a = b.
Proof.
  induction a as [|x a IH]; intros [|y b]; cbn [tup_eqb]; split; intro H; try reflexivity; try discriminate.
  - apply andb_true_iff in H. destruct H as [H1 H2]. apply Nat.eqb_eq in H1. apply IH in H2. congruence.
  - injection H as -> ->. rewrite Nat.eqb_refl. cbn [andb]. apply IH. reflexivity.
Qed.

Lemma NoDup_map_cons (i : nat) : forall l : list (list nat), NoDup l -> NoDup (map (cons i) l).
Proof.
  induction l as [|t l IH]; intro H; cbn [map]; [constructor|].
  inversion H as [|t' l' Hnin Hnd]; subst. constructor; [|apply IH; exact Hnd].
  intro Hin. apply in_map_iff in Hin. destruct Hin as [u [Hu Hin]]. injection Hu as ->. exact (Hnin Hin).
Qed.

Lemma NoDup_app' {X} : forall a b : list X, NoDup a -> NoDup b -> (forall x, In x a -> ~ In x b) -> NoDup (a ++ b).
Proof.
  induction a as [|x a IH]; intros b Ha Hb Hd; cbn [app]; [exact Hb|].
  inversion Ha as [|x' a' Hnin Hnd]; subst. constructor.
  - intro Hin. apply in_app_iff in Hin. destruct Hin as [Hin|Hin]; [exact (Hnin Hin)|exact (Hd x (or_introl eq_refl) Hin)].
  - apply IH; [exact Hnd|exact Hb|]. intros y Hy. apply Hd. right. exact Hy.
Qed.

Lemma index_tuples_nodup : index_tuples_nodup_stmt.
Proof.
  intro sh. induction sh as [|d sh IH]; cbn [index_tuples]; [repeat constructor; intros []|].
  assert (H : forall s, NoDup (flat_map (fun i => map (cons i) (index_tuples sh)) (seq s d)) /\
                    forall t, In t (flat_map (fun i => map (cons i) (index_tuples sh)) (seq s d)) -> exists i u, t = i :: u /\ s <= i).
  { induction d as [|d IHd]; intro s; cbn [seq flat_map]; [split; [constructor|intros t []]|].
    destruct (IHd (S s)) as [N1 N2]. split.
    - apply NoDup_app'; [apply NoDup_map_cons; exact IH|exact N1|].
      intros t Ht Ht2. apply in_map_iff in Ht. destruct Ht as [u [<- _]].
      destruct (N2 _ Ht2) as [i [u' [E Hle]]]. injection E as -> _. lia.
    - intros t Ht. apply in_app_iff in Ht. destruct Ht as [Ht|Ht].
      + apply in_map_iff in Ht. destruct Ht as [u [<- _]]. exists s, u. split; [reflexivity|lia].
      + destruct (N2 _ Ht) as [i [u [E Hle]]]. exists i, u. split; [exact E|lia]. }
  exact (proj1 (H 0)).
Qed.

Definition vm_step (cols : list Z) := fun (st_ : arrT * nat) (tup : list nat) =>
  let '(temp, j) := st_ in
  let temp := updT temp tup (nth j cols 0%Z) in
  let j := j + 1 in (temp, j).

Lemma vm_loop cols : forall l, NoDup l -> forall (temp : arrT) j0,
  let r := fold_left (vm_step cols) l (temp, j0) in
  snd r = j0 + length l /\
  (forall k, k < length l -> fst r (nth k l []) = nth (j0 + k) cols 0%Z) /\
  (forall t, ~ In t l -> fst r t = temp t).
Proof.
  induction l as [|t0 l IH]; intros Hnd temp j0; cbn [fold_left length].
  - cbn [fst snd]. split; [lia|split; [intros k Hk; lia|intros; reflexivity]].
  - inversion Hnd as [|t0' l' Hnin Hnd']; subst.
    change (vm_step cols (temp, j0) t0) with (updT temp t0 (nth j0 cols 0%Z), j0 + 1). cbv zeta.
    destruct (IH Hnd' (updT temp t0 (nth j0 cols 0%Z)) (j0 + 1)) as [H1 [H2 H3]]. cbv zeta in H1, H2, H3.
    split; [rewrite H1; lia|split].
    + intros [|k] Hk; cbn [nth].
      * rewrite (H3 t0 Hnin). unfold updT. rewrite (proj2 (tup_eqb_eq t0 t0) eq_refl). f_equal. lia.
      * rewrite H2 by lia. f_equal. lia.
    + intros t Ht. rewrite H3 by (intro Hin; apply Ht; right; exact Hin). unfold updT.
      destruct (tup_eqb t t0) eqn:E; [|reflexivity]. apply tup_eqb_eq in E. subst. exfalso. apply Ht. left. reflexivity.
Qed.

Lemma gen_variable_map_entrywise : gen_variable_map_entrywise_stmt.
Proof.
  intros sh cols k Hlen Hk. unfold gen_variable_map_entry.
  pose proof (vm_loop cols (index_tuples sh) (index_tuples_nodup sh) zerosT 0) as H. cbv zeta in H |- *.
  change (fun (st_ : arrT * nat) (tup : list nat) => _) with (vm_step cols).
  destruct (fold_left (vm_step cols) (index_tuples sh) (zerosT, 0)) as [temp j]. cbn [fst snd] in H.
  destruct H as [_ [H2 _]]. rewrite H2 by (rewrite index_tuples_length; exact Hk). reflexivity.
Qed.

Lemma gen_variable_map_row_major : gen_variable_map_row_major_stmt.
Proof.
  intros sh cols Hlen.
  apply (nth_ext _ _ 0%Z 0%Z); [rewrite map_length, index_tuples_length; symmetry; exact Hlen|].
  intros k Hk. rewrite map_length, index_tuples_length in Hk.
  rewrite (nth_indep _ 0%Z (gen_variable_map_entry sh cols [])) by (rewrite map_length, index_tuples_length; exact Hk).
  rewrite map_nth. apply gen_variable_map_entrywise; assumption.
Qed.

From SageVerif Require Import Gen.GenAlloc Proofs.GenAllocSpec.
Lemma nth_map_lt {X Y} (f : X -> Y) : forall l k d d', k < length l -> nth k (map f l) d = f (nth k l d').
Proof. induction l as [|x l IH]; intros [|k] d d' H; cbn [length map nth] in *; try lia; [reflexivity|]. apply IH. lia. Qed.

Lemma gen_component_placement : gen_component_placement_stmt.
Proof.
  intros sh c gen col_of k Hk. rewrite gen_unstructured_equiv. cbn [snd].
  set (ids := map (fun i => (c + Z.of_nat i)%Z) (seq 0 (size_of sh))).
  assert (Hl : length ids = size_of sh) by (unfold ids; rewrite map_length, seq_length; reflexivity).
  rewrite gen_variable_map_entrywise; [|rewrite map_length; exact Hl|exact Hk].
  rewrite (nth_map_lt col_of ids k 0%Z 0%Z) by (rewrite Hl; exact Hk).
  unfold ids. rewrite (nth_map_lt _ _ k 0%Z 0) by (rewrite seq_length; exact Hk).
  rewrite seq_nth by exact Hk. reflexivity.
Qed.
