(* Proofs/GenAllocProofs.v *)
From Coq Require Import List Bool Arith ZArith Lia.
From SageVerif Require Import Model.Alloc Model.AllocIdioms Gen.GenAlloc Proofs.AllocSpec Proofs.AllocProofs Proofs.GenAllocSpec.
Import ListNotations.

Lemma fold_ext3 {X Y} (f g : X -> Y -> X) : (forall s y, f s y = g s y) -> forall l s, fold_left f l s = fold_left g l s.
Proof. intros H l. induction l as [|y l IH]; intro s; cbn [fold_left]; [reflexivity|]. rewrite H. apply IH. Qed.

Lemma index_tuples_length : forall sh, length (index_tuples sh) = size_of sh.
Proof.
  induction sh as [|d sh IH]; [reflexivity|]. cbn [index_tuples size_of fold_right]. fold (size_of sh).
  assert (H : forall s, length (flat_map (fun i => map (cons i) (index_tuples sh)) (seq s d)) = d * size_of sh).
  { induction d as [|d IHd]; intro s; cbn [seq flat_map]; [reflexivity|]. rewrite app_length, map_length, IH, IHd. lia. }
  apply H.
Qed.

(* ------------------------------------------------------------------ unstructured *)
Lemma alloc_loop {Y} : forall (l : list Y) c gen ids (t : arr2),
  fold_left (fun st_ (_ : Y) => let '(counter, ids, temp_id_array) := st_ in
                let '(counter, v_idgen) := gen_scalar_variable counter gen in
                let v_id := fst v_idgen in let ids := ids ++ [v_id] in (counter, ids, temp_id_array)) l (c, ids, t)
  = ((c + Z.of_nat (length l))%Z, ids ++ map (fun i => (c + Z.of_nat i)%Z) (seq 0 (length l)), t).
Proof.
  induction l as [|y l IH]; intros c gen ids t; cbn [fold_left length seq map].
  - rewrite Z.add_0_r, app_nil_r. reflexivity.
  - unfold gen_scalar_variable at 2. cbn [fst snd]. rewrite IH.
    replace (c + 1 + Z.of_nat (length l))%Z with (c + Z.of_nat (S (length l)))%Z by lia.
    rewrite <- app_assoc. cbn [app]. rewrite Z.add_0_r.
    rewrite <- seq_shift, map_map.
    rewrite (map_ext (fun i => (c + 1 + Z.of_nat i)%Z) (fun x => (c + Z.of_nat (S x))%Z)) by (intro i; lia).
    reflexivity.
Qed.

Lemma gen_unstructured_equiv : gen_unstructured_equiv_stmt.
Proof.
  intros c gen sh. unfold gen_unstructured_populate. destruct sh as [|d sh].
  - cbn. rewrite Z.add_0_r. reflexivity.
  - pose proof (alloc_loop (index_tuples (d :: sh)) c gen [] zeros2) as H. cbv zeta in H |- *. rewrite H.
    rewrite index_tuples_length. reflexivity.
Qed.

(* ------------------------------------------------------------------ symmetric *)
(* inner loop over j = j0 .. j0+len-1 for a fixed row i: pointwise description of the array, the counter advances by len, ids untouched *)
Definition inner_step (gen : Z) (i : nat) := fun (st_ : Z * list Z * arr2) (j : nat) =>
  let '(counter, ids, temp_id_array) := st_ in
  let '(counter, v_idgen) := gen_scalar_variable counter gen in
  let v_id := fst v_idgen in
  let temp_id_array := upd2 temp_id_array i j v_id in
  let temp_id_array := upd2 temp_id_array j i v_id in
  (counter, ids, temp_id_array).

Lemma inner_loop gen i : forall len j0 c ids (t : arr2), i < j0 ->
  let r := fold_left (inner_step gen i) (seq j0 len) (c, ids, t) in
  fst (fst r) = (c + Z.of_nat len)%Z /\ snd (fst r) = ids /\
  forall a b, snd r a b =
    if (Nat.eqb a i && Nat.leb j0 b && Nat.ltb b (j0 + len))%bool then (c + Z.of_nat (b - j0))%Z
    else if (Nat.eqb b i && Nat.leb j0 a && Nat.ltb a (j0 + len))%bool then (c + Z.of_nat (a - j0))%Z
    else t a b.
Proof.
  induction len as [|len IH]; intros j0 c ids t Hij; cbn [seq fold_left].
  - cbn [fst snd]. split; [lia|split; [reflexivity|]]. intros a b.
    destruct (Nat.eqb a i), (Nat.eqb b i), (Nat.leb j0 b) eqn:E1, (Nat.leb j0 a) eqn:E2, (Nat.ltb b (j0 + 0)) eqn:E3, (Nat.ltb a (j0 + 0)) eqn:E4;
      cbn [andb]; try reflexivity;
      repeat match goal with H : Nat.leb _ _ = true |- _ => apply Nat.leb_le in H | H : Nat.ltb _ _ = true |- _ => apply Nat.ltb_lt in H end; lia.
  - unfold inner_step at 2. unfold gen_scalar_variable. cbn [fst snd].
    specialize (IH (S j0) (c + 1)%Z ids (upd2 (upd2 t i j0 c) j0 i c) ltac:(lia)). cbv zeta in IH.
    destruct IH as [H1 [H2 H3]]. cbv zeta. split; [rewrite H1; lia|split; [exact H2|]].
    intros a b. rewrite H3. unfold upd2.
    destruct (Nat.eqb_spec a i) as [Ea|Ea], (Nat.eqb_spec b i) as [Eb|Eb];
      destruct (Nat.leb_spec (S j0) b), (Nat.ltb_spec b (S j0 + len)), (Nat.leb_spec (S j0) a), (Nat.ltb_spec a (S j0 + len)),
               (Nat.leb_spec j0 b), (Nat.ltb_spec b (j0 + S len)), (Nat.leb_spec j0 a), (Nat.ltb_spec a (j0 + S len)),
               (Nat.eqb_spec a j0), (Nat.eqb_spec b j0); cbn [andb]; try lia; try reflexivity; try (f_equal; lia).
Qed.

Definition outer_step (gen : Z) (n : nat) := fun (st_ : Z * list Z * arr2) (i : nat) =>
  let '(counter, ids, temp_id_array) := st_ in
  let '(counter, v_idgen) := gen_scalar_variable counter gen in
  let v_id := fst v_idgen in
  let temp_id_array := upd2 temp_id_array i i v_id in
  let '(counter, ids, temp_id_array) := fold_left (inner_step gen i) (seq (i + 1) (n - (i + 1))) (counter, ids, temp_id_array) in
  (counter, ids, temp_id_array).

Lemma tri_offset_S n k : tri_offset n (S k) = tri_offset n k + (n - k).
Proof.
  unfold tri_offset. rewrite seq_S, map_app, fold_right_app. cbn [map fold_right Nat.add].
  generalize (map (fun r => n - r) (seq 0 k)). induction l as [|x l IH]; cbn [fold_right]; [lia|]. rewrite IH. lia.
Qed.

Lemma outer_loop gen n c0 ids : forall k, k <= n ->
  let r := fold_left (outer_step gen n) (seq 0 k) (c0, ids, zeros2) in
  fst (fst r) = (c0 + Z.of_nat (tri_offset n k))%Z /\ snd (fst r) = ids /\
  forall a b, a < n -> b < n -> snd r a b = if Nat.ltb (Nat.min a b) k then sym_id c0 n a b else 0%Z.
Proof.
  induction k as [|k IH]; intro Hk.
  - cbn. split; [lia|split; [reflexivity|]]. intros; reflexivity.
  - specialize (IH ltac:(lia)). cbv zeta in IH |- *. rewrite seq_S, fold_left_app. cbn [fold_left Nat.add].
    destruct (fold_left (outer_step gen n) (seq 0 k) (c0, ids, zeros2)) as [[c ids'] t] eqn:E. cbn [fst snd] in IH.
    destruct IH as [H1 [H2 H3]]. subst ids'.
    unfold outer_step. unfold gen_scalar_variable. cbn [fst snd].
    pose proof (inner_loop gen k (n - (k + 1)) (k + 1) (c + 1)%Z ids (upd2 t k k c) ltac:(lia)) as HI. cbv zeta in HI.
    destruct (fold_left (inner_step gen k) (seq (k + 1) (n - (k + 1))) ((c + 1)%Z, ids, upd2 t k k c)) as [[c2 ids2] t2]. cbn [fst snd] in HI |- *.
    destruct HI as [I1 [I2 I3]]. split; [|split; [exact I2|]].
    + rewrite I1, H1, tri_offset_S. lia.
    + intros a b Ha Hb. rewrite I3. unfold upd2. rewrite (H3 a b Ha Hb). unfold sym_id. rewrite H1.
      destruct (Nat.min_spec a b) as [[Hlt Hm]|[Hlt Hm]]; destruct (Nat.max_spec a b) as [[Hlt2 HM]|[Hlt2 HM]]; rewrite Hm, HM; try lia;
      destruct (Nat.eqb_spec a k), (Nat.eqb_spec b k), (Nat.leb_spec (k + 1) b), (Nat.ltb_spec b (k + 1 + (n - (k + 1)))),
               (Nat.leb_spec (k + 1) a), (Nat.ltb_spec a (k + 1 + (n - (k + 1))));
        cbn [andb]; subst;
        repeat match goal with |- context [Nat.ltb ?x ?y] => destruct (Nat.ltb_spec x y) end;
        try lia; try reflexivity; try (f_equal; lia).
Qed.

Lemma collect_loop (t : arr2) : forall (l : list (list nat)) (c : Z) ids,
  fold_left (fun st_ tup => let '(counter, ids, temp_id_array) := st_ in
               let ids := ids ++ [get_tup temp_id_array tup] in (counter, ids, temp_id_array)) l (c, ids, t)
  = (c, ids ++ map (get_tup t) l, t).
Proof.
  induction l as [|tup l IH]; intros c ids; cbn [fold_left map].
  - rewrite app_nil_r. reflexivity.
  - rewrite IH, <- app_assoc. reflexivity.
Qed.

Lemma map_flat_map' {X Y Z0} (f : Y -> Z0) (g : X -> list Y) : forall l, map f (flat_map g l) = flat_map (fun x => map f (g x)) l.
Proof. induction l as [|x l IH]; cbn [flat_map map]; [reflexivity|]. rewrite map_app, IH. reflexivity. Qed.

Lemma index_tuples_2 (t : arr2) n m : map (get_tup t) (index_tuples [n; m]) = flat_map (fun a => map (fun b => t a b) (seq 0 m)) (seq 0 n).
Proof.
  cbn [index_tuples]. rewrite map_flat_map'. apply flat_map_ext. intro a.
  rewrite map_map, map_flat_map'. cbn [map]. 
  generalize (seq 0 m). induction l as [|b l IH]; cbn [flat_map map app]; [reflexivity|]. rewrite IH. reflexivity.
Qed.

Lemma flat_map_ext_in {X Y} (f g : X -> list Y) : forall l, (forall x, In x l -> f x = g x) -> flat_map f l = flat_map g l.
Proof.
  induction l as [|x l IH]; intro H; cbn [flat_map]; [reflexivity|].
  rewrite (H x (or_introl eq_refl)), IH; [reflexivity|]. intros y Hy. apply H. right. exact Hy.
Qed.

Lemma gen_symmetric_equiv : gen_symmetric_equiv_stmt.
Proof.
  intros c gen n. unfold gen_symmetric_populate. cbn [length nth]. rewrite !Nat.eqb_refl. cbn [negb orb].
  pose proof (outer_loop gen n c [] n (le_n n)) as HO. cbv zeta in HO |- *. rewrite Nat.sub_0_r.
  change (fun (st_ : Z * list Z * arr2) (i : nat) => _) with (outer_step gen n) at 1.
  destruct (fold_left (outer_step gen n) (seq 0 n) (c, [], zeros2)) as [[c1 ids1] t1]. cbn [fst snd] in HO.
  destruct HO as [H1 [H2 H3]]. subst ids1.
  pose proof (collect_loop t1 (index_tuples [n; n]) c1 []) as HC. cbv zeta in HC. rewrite HC. clear HC. cbn [app]. rewrite H1. unfold sym_count. f_equal. f_equal.
  rewrite index_tuples_2. unfold sym_ids. apply flat_map_ext_in. intros a Ha. apply map_ext_in. intros b Hb.
  apply in_seq in Ha. apply in_seq in Hb. rewrite H3 by lia.
  destruct (Nat.ltb_spec (Nat.min a b) n); [reflexivity|lia].
Qed.

Lemma gen_symmetric_raises : gen_symmetric_raises_stmt.
Proof.
  intros c gen sh. split.
  - intros H n ->. rewrite gen_symmetric_equiv in H. discriminate.
  - intro H. unfold gen_symmetric_populate.
    destruct sh as [|a [|b [|x sh]]]; cbn [length nth Nat.eqb negb orb]; try reflexivity.
    destruct (Nat.eqb_spec a b) as [->|Hab]; [exfalso; exact (H b eq_refl)|reflexivity].
Qed.

Lemma gen_clear_equiv : gen_clear_equiv_stmt.
Proof. intro g. reflexivity. Qed.

Lemma gen_new_var_equiv : gen_new_var_equiv_stmt.
Proof.
  intros g sh sym name. unfold gen_new_var, new_var, bump_unnamed. destruct sym; cbn [negb].
  - (* symmetric *)
    destruct sh as [|n [|m [|x sh]]].
    + destruct name; reflexivity.
    + destruct name; reflexivity.
    + destruct (Nat.eqb_spec n m) as [->|Hnm].
      * rewrite gen_symmetric_equiv. cbn [andb size_of fold_right]. rewrite Nat.mul_1_r.
        destruct m as [|m].
        -- destruct name, g; cbn; rewrite Z.add_0_r; reflexivity.
        -- destruct name; cbn [Nat.eqb negb Nat.mul Nat.add]; reflexivity.
      * assert (E : gen_symmetric_populate (counter g) (generation g) [n; m] = None)
          by (apply gen_symmetric_raises; intros k Hk; injection Hk as -> ->; congruence).
        destruct name; cbv zeta; rewrite E; reflexivity.
    + assert (E : gen_symmetric_populate (counter g) (generation g) (n :: m :: x :: sh) = None)
        by (apply gen_symmetric_raises; intros k Hk; discriminate).
      destruct name; cbv zeta; rewrite E; reflexivity.
  - (* unstructured *)
    destruct name; cbv zeta; rewrite gen_unstructured_equiv; destruct (Nat.eqb (size_of sh) 0) eqn:E; try reflexivity;
      apply Nat.eqb_eq in E; rewrite E; cbn; rewrite Z.add_0_r; destruct g; reflexivity.
Qed.

Lemma gen_step_equiv st o : gen_step st o = step_faithful st o.
Proof.
  destruct o as [sh sym name|]; cbn [gen_step step_faithful]; [|rewrite gen_clear_equiv; reflexivity].
  rewrite gen_new_var_equiv. destruct (new_var (fst st) sh sym name) as [[g' v]|]; reflexivity.
Qed.

Lemma gen_run_equiv : gen_run_equiv_stmt.
Proof. intro ops. unfold gen_run, run. apply fold_ext3. exact gen_step_equiv. Qed.

Lemma gen_ids_unique : gen_ids_unique_stmt.
Proof. intro ops. rewrite gen_run_equiv. exact (ids_unique ops). Qed.
