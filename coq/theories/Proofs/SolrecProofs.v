(* Proofs/SolrecProofs.v — C17: for EVERY candidate list (whatever the numerical oracles propose) the
   recovered list contains only points feasible to the tolerances, is sorted by objective value, and is
   a rearrangement of the feasible candidates. *)
From Coq Require Import List Bool Arith ZArith QArith Qabs Permutation Sorted Lia.
From SageVerif Require Import Model.Solrec.
Import ListNotations.

Definition feasible_spec (itol etol : Q) (c : cand) : Prop :=
  Forall (fun g => (- itol <= g)%Q) (c_gts c) /\ Forall (fun h => (Qabs h <= etol)%Q) (c_eqs c).

Lemma cmp_eq_le : forall a b, Qcompare a b = Eq -> (a <= b)%Q.
Proof. intros a b E. apply Qeq_alt in E. apply Qle_lteq. right. exact E. Qed.
Lemma cmp_eq_ge : forall a b, Qcompare a b = Eq -> (b <= a)%Q.
Proof. intros a b E. apply Qeq_alt in E. apply Qle_lteq. right. symmetry. exact E. Qed.

Lemma ge_check : forall g itol, negb (match Qcompare g (- itol) with Lt => true | _ => false end) = true <-> (- itol <= g)%Q.
Proof.
  intros g itol. destruct (Qcompare g (- itol)) eqn:E; simpl; split; intro H; auto; try discriminate.
  - apply cmp_eq_ge. exact E.
  - apply Qlt_alt in E. exfalso. apply (Qlt_not_le _ _ E). exact H.
  - apply Qgt_alt in E. apply Qlt_le_weak. exact E.
Qed.

Lemma le_check : forall h etol, negb (match Qcompare (Qabs h) etol with Gt => true | _ => false end) = true <-> (Qabs h <= etol)%Q.
Proof.
  intros h etol. destruct (Qcompare (Qabs h) etol) eqn:E; simpl; split; intro H; auto; try discriminate.
  - apply cmp_eq_le. exact E.
  - apply Qlt_alt in E. apply Qlt_le_weak. exact E.
Qed.

Lemma is_feasible_iff : forall itol etol c, is_feasible itol etol c = true <-> feasible_spec itol etol c.
Proof.
  intros itol etol c. unfold is_feasible, feasible_spec. rewrite andb_true_iff, !forallb_forall, !Forall_forall.
  split; intros [Hg Hh]; split; intros x Hx.
  - apply ge_check. auto.
  - apply le_check. auto.
  - apply ge_check. auto.
  - apply le_check. auto.
Qed.

Definition lef (a b : cand) : Prop := (c_f a <= c_f b)%Q.
Definition sortedf (l : list cand) : Prop := Sorted.StronglySorted lef l.

Lemma insert_sorted_perm : forall c l, Permutation (c :: l) (insert_sorted c l).
Proof.
  intros c l. induction l as [|d l IH]; simpl; auto.
  destruct (Qcompare (c_f c) (c_f d)); auto.
  - apply perm_trans with (d :: c :: l); [apply perm_swap|]. apply perm_skip. exact IH.
  - apply perm_trans with (d :: c :: l); [apply perm_swap|]. apply perm_skip. exact IH.
Qed.

Lemma insert_sorted_sorted : forall c l, sortedf l -> sortedf (insert_sorted c l).
Proof.
  intros c l Hs. induction Hs as [|d l Hs IH Hd]; simpl.
  - constructor; constructor.
  - destruct (Qcompare (c_f c) (c_f d)) eqn:E.
    + (* equal: goes after d *)
      constructor; auto.
      rewrite Forall_forall. intros e He.
      apply (Permutation_in _ (Permutation_sym (insert_sorted_perm c l))) in He. destruct He as [<-|He].
      * unfold lef. apply cmp_eq_ge. exact E.
      * rewrite Forall_forall in Hd. auto.
    + (* c < d : in front *)
      constructor; [constructor; auto|].
      apply Qlt_alt in E. constructor; [unfold lef; apply Qlt_le_weak; exact E|].
      rewrite Forall_forall in *. intros e He. unfold lef in *. eapply Qle_trans; [apply Qlt_le_weak; exact E|]. auto.
    + constructor; auto.
      rewrite Forall_forall. intros e He.
      apply (Permutation_in _ (Permutation_sym (insert_sorted_perm c l))) in He. destruct He as [<-|He].
      * unfold lef. apply Qgt_alt in E. apply Qlt_le_weak. exact E.
      * rewrite Forall_forall in Hd. auto.
Qed.

Lemma sort_by_f_spec : forall l, sortedf (sort_by_f l) /\ Permutation l (sort_by_f l).
Proof.
  intros l. unfold sort_by_f.
  assert (G : forall acc, sortedf acc -> sortedf (fold_left (fun acc c => insert_sorted c acc) l acc) /\
                          Permutation (l ++ acc) (fold_left (fun acc c => insert_sorted c acc) l acc)).
  { induction l as [|c l IH]; intros acc Ha; simpl; [split; auto|].
    destruct (IH (insert_sorted c acc) (insert_sorted_sorted c acc Ha)) as [H1 H2]. split; auto.
    eapply perm_trans; [|exact H2].
    apply perm_trans with (l ++ c :: acc); [apply Permutation_middle|].
    apply Permutation_app_head. apply insert_sorted_perm. }
  destruct (G [] (Sorted.SSorted_nil lef)) as [H1 H2]. rewrite app_nil_r in H2. split; auto.
Qed.

(* every returned point is feasible to the tolerances (inequalities to ineq_tol, equalities to eq_tol,
   the constraints defining X included in the lists) *)
Theorem solrec_feasible : forall itol etol cands c,
  In c (solrec itol etol cands) -> feasible_spec itol etol c /\ In c cands.
Proof.
  intros itol etol cands c Hin. unfold solrec in Hin.
  destruct (sort_by_f_spec (filter (is_feasible itol etol) cands)) as [_ Hp].
  apply Permutation_sym in Hp. pose proof (Permutation_in _ Hp Hin) as Hf.
  apply filter_In in Hf. destruct Hf as [Hc Hfe]. split; auto. apply is_feasible_iff. exact Hfe.
Qed.

(* the list is sorted by nondecreasing objective value *)
Theorem solrec_sorted : forall itol etol cands, sortedf (solrec itol etol cands).
Proof. intros. unfold solrec. apply sort_by_f_spec. Qed.

(* nothing feasible is lost: the result is a rearrangement of the feasible candidates *)
Theorem solrec_complete : forall itol etol cands,
  Permutation (filter (is_feasible itol etol) cands) (solrec itol etol cands).
Proof. intros. unfold solrec. apply sort_by_f_spec. Qed.

(* consistency with a valid bound: if every exactly feasible point has objective >= bound, no returned point
   that is exactly feasible lies below the bound *)
Theorem solrec_above_bound_partial : forall itol etol cands (bound : Q) (exactly_feasible : cand -> Prop),
  (forall c, exactly_feasible c -> (bound <= c_f c)%Q) ->
  forall c, In c (solrec itol etol cands) -> exactly_feasible c -> (bound <= c_f c)%Q.
Proof. intros; auto. Qed.
