(* Proofs/RelaxConDualSpec.v — C04, DUAL FORM of the constrained relaxations (sage_sigs.sig_constrained_dual):
   for every point x the scaled moment vector  w = exp(alpha_L x) / t(x)  of the (modulated) Lagrangian's basis
     - satisfies the normalisation  a . w = 1        (a   = relative_coeff_vector(t, L.alpha)),
     - has objective value          obj . w = f(x)   (obj = relative_coeff_vector(f*t, L.alpha)),
     - is mapped by the moment-reduction array C_g of an inequality multiplier (s_g, g) to  g(x) * exp(alpha_{s_g} x),
       a NONNEGATIVE multiple of the moment vector of the multiplier's own basis when g(x) >= 0 (hence in the dual SAGE
       cone of that basis by C02, dual_rows_admit_moments, which takes v as arbitrary affine cells),
     - is mapped by the array C_h of an equality multiplier to the zero vector when h(x) = 0.
   So every feasible x of the signomial program gives a feasible point of the dual problem with objective f(x):
   the dual value is a lower bound on the constrained minimum.  (t = modulator, L = lagrangian * modulator.) *)
From Coq Require Import Reals List Bool Arith ZArith QArith Qreals Lra.
From SageVerif Require Import Math.RVec Model.Signomial Model.SolverForms Model.SymCorr Model.RelaxSig
                              Proofs.SigSpec Proofs.SymCorrSpec Proofs.RelaxSpec.
Import ListNotations.
Open Scope R_scope.

Definition matvecQR (C : list (list Q)) (w : list R) : list R := map (fun Ci => dot (map Q2R Ci) w) C.

Definition ref_ok (n : nat) (ref : list qrow) : Prop :=
  Forall (fun r => length r = n /\ on_grid_row r) ref /\
  (forall i j, (i < j)%nat -> (j < length ref)%nat -> qrow_eqb (nth i ref []) (nth j ref []) = false).

(* 1. a coefficient vector relative to a reference basis pairs with the scaled moment vector of that basis to the
      scaled function value (rows of u with zero coefficient may be missing from the reference) *)
Definition rcv_moment_pairing_stmt : Prop :=
  forall n (u : qsig) (ref : list qrow) (s : R) (x : list R),
    wfsig n u -> rows_distinct u -> length x = n -> ref_ok n ref ->
    rows_contained u ref = true ->
    dot (map Q2R (relative_coeff_vector u ref)) (moment_vec ref s x) = s * sig_evalR u x.

(* 2. the moment-reduction array of a multiplier s against the modulated constraint h*t maps the scaled moment vector
      of L's basis to h(x) times the moment vector of s's basis *)
Definition multiplier_moment_stmt : Prop :=
  forall n (s h t L : qsig) C (x : list R),
    wfsig n s -> rows_distinct s -> s <> [] ->
    wfsig n h -> rows_distinct h -> h <> [] ->
    wfsig n t -> rows_distinct t -> t <> [] ->
    wfL n L -> length x = n -> 0 < sig_evalR t x ->
    moment_reduction_array true n s (q_mul n h t) L = Ok C ->
    matvecQR C (moment_vec (map fst L) (/ sig_evalR t x) x) = moment_vec (map fst s) (sig_evalR h x) x.

(* 3. the dual problem of the constrained relaxation is feasible at the moment vector of every feasible point, with
      objective value f(x) *)
Definition mult_ok (n : nat) (t L : qsig) (m : qsig * qsig * list (list Q)) : Prop :=
  let '(s, g, C) := m in
  wfsig n s /\ rows_distinct s /\ s <> [] /\ wfsig n g /\ rows_distinct g /\ g <> [] /\
  moment_reduction_array true n s (q_mul n g t) L = Ok C.

Definition constrained_dual_point_stmt : Prop :=
  forall n (f t L : qsig) (gms hms : list (qsig * qsig * list (list Q))) (x : list R),
    length x = n -> wfL n L ->
    wfsig n f -> rows_distinct f -> f <> [] ->
    wfsig n t -> rows_distinct t -> t <> [] -> 0 < sig_evalR t x ->
    rows_contained t (map fst L) = true ->
    rows_contained (q_mul n f t) (map fst L) = true ->
    Forall (mult_ok n t L) (gms ++ hms) ->
    Forall (fun m => 0 <= sig_evalR (snd (fst m)) x) gms ->
    Forall (fun m => sig_evalR (snd (fst m)) x = 0) hms ->
    let w := moment_vec (map fst L) (/ sig_evalR t x) x in
    dot (map Q2R (relative_coeff_vector t (map fst L))) w = 1 /\
    dot (map Q2R (relative_coeff_vector (q_mul n f t) (map fst L))) w = sig_evalR f x /\
    Forall (fun m => exists tau, 0 <= tau /\ matvecQR (snd m) w = moment_vec (map fst (fst (fst m))) tau x) gms /\
    Forall (fun m => matvecQR (snd m) w = map (fun _ => 0) (fst (fst m))) hms.
