(* Proofs/CalcSpec.v — statements of the C14 theorems about Model/Calculus.v. *)
From Coq Require Import Reals List Bool Arith ZArith QArith Qreals Lra.
From SageVerif Require Import Math.RVec Model.Signomial Model.SigExpr Model.Calculus Proofs.SigSpec.
Import ListNotations.
Open Scope R_scope.

(* x with its i-th coordinate replaced by t *)
Fixpoint upd (x : list R) (i : nat) (t : R) : list R :=
  match x, i with
  | [], _ => []
  | _ :: x', O => t :: x'
  | y :: x', S i' => y :: upd x' i' t
  end.

(* ---- signomials ---- *)
Definition sig_partial_wf_stmt : Prop :=
  forall n i f, wfsig n f -> (i < n)%nat -> wfsig n (sig_partial n i f) /\ sig_partial n i f <> [].

(* the symbolic partial derivative IS the partial derivative, at every point *)
Definition sig_partial_derive_stmt : Prop :=
  forall n i f x, wfsig n f -> (i < n)%nat -> length x = n ->
    derivable_pt_lim (fun t => sig_evalR f (upd x i t)) (nth i x 0) (sig_evalR (sig_partial n i f) x).

(* second derivatives: the (i,k) entry of hess is the derivative in x_k of the i-th partial; symmetric *)
Definition sig_hess_derive_stmt : Prop :=
  forall n i k f x, wfsig n f -> (i < n)%nat -> (k < n)%nat -> length x = n ->
    derivable_pt_lim (fun t => sig_evalR (sig_partial n i f) (upd x k t)) (nth k x 0)
                     (sig_evalR (sig_partial n k (sig_partial n i f)) x) /\
    sig_evalR (sig_partial n k (sig_partial n i f)) x = sig_evalR (sig_partial n i (sig_partial n k f)) x.

(* grad_val / hess_val closed forms  alpha^T (c . exp(alpha x)),  alpha^T diag(c . exp(alpha x)) alpha *)
Definition grad_val_closed_form_stmt : Prop :=
  forall n i f x, wfsig n f -> (i < n)%nat -> length x = n ->
    sig_evalR (nth i (grad_weights n f) []) x = sig_evalR (sig_partial n i f) x.

Definition hess_val_closed_form_stmt : Prop :=
  forall n i k f x, wfsig n f -> (i < n)%nat -> (k < n)%nat -> length x = n ->
    sig_evalR (nth k (nth i (hess_weights n f) []) []) x = sig_evalR (sig_partial n k (sig_partial n i f)) x.

(* shift_coordinates(x0) represents x |-> f(x + x0) *)
Definition shifted_eval (g : list (qrow * (Q * Q))) (x : list R) : R :=
  fold_right (fun t acc => Q2R (fst (snd t)) * exp (Q2R (snd (snd t))) * exp (dot (rowR (fst t)) x) + acc) 0 g.

Definition shift_correct_stmt : Prop :=
  forall n f x0 x, wfsig n f -> length x0 = n -> length x = n ->
    shifted_eval (shift f x0) x = sig_evalR f (vadd x (map Q2R x0)).

(* as_polynomial: f(x) = p(exp x); the error branch is exactly "some exponent is not a natural number" *)
Definition as_poly_correct_stmt : Prop :=
  forall n f, wfsig n f -> rows_distinct f ->
    match as_polynomial f with
    | Some p => poly_ok f = true /\ forall x, length x = n -> poly_evalR p (map exp x) = sig_evalR f x
    | None => poly_ok f = false
    end.

(* ---- polynomials (all real points, including negative and zero coordinates) ---- *)
Definition polyrows (n : nat) (f : qsig) : Prop :=
  Forall (fun t => length (fst t) = n /\ Forall (fun q => is_nat_q q = true) (fst t)) f.

Definition poly_partial_derive_stmt : Prop :=
  forall n i f x, polyrows n f -> (i < n)%nat -> length x = n ->
    polyrows n (poly_partial n i f) /\
    derivable_pt_lim (fun t => poly_evalR f (upd x i t)) (nth i x 0) (poly_evalR (poly_partial n i f) x).

(* exact rational evaluation agrees with real evaluation, for exponent rows in lowest terms (what the
   constructor produces: round7 ends in Qred).  A first version without the lowest-terms hypothesis was
   refuted in Coq (poly_eval reads the raw numerator of an exponent): poly_call_exact_loose_stmt. *)
Definition reduced_rows_spec (f : qsig) : Prop := Forall (fun t => Forall (fun q => Qred q = q) (fst t)) f.
Definition poly_call_exact_stmt : Prop :=
  forall n f x, polyrows n f -> reduced_rows_spec f -> length x = n ->
    Q2R (poly_call f x) = poly_evalR f (map Q2R x).
Definition poly_call_exact_loose_stmt : Prop :=
  forall n f x, polyrows n f -> length x = n ->
    Q2R (poly_call f x) = poly_evalR f (map Q2R x).
