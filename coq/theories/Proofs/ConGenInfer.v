(* Proofs/ConGenInfer.v — C15: the set described by the emitted constraints is exactly the set cut
   out by the kept constraints and contains every point satisfying all the given ones. *)
From Coq Require Import Reals List Bool Arith ZArith QArith Qreals Lra Lia Qabs.
From SageVerif Require Import Math.RVec Model.Signomial Model.SigExpr Model.SolverForms Model.ConGen
  Proofs.SigSpec Proofs.RelaxSpec Proofs.SigLemmas Proofs.SigRound Proofs.SigMk Proofs.SigOps
  Proofs.ConGenSpec Proofs.ConGenBase Proofs.ConGenCons Proofs.ConGenNorm.
Import ListNotations.
Local Open Scope R_scope.

(* h' is the normalisation of a constraint of src with exactly one positive coefficient *)
Definition kept (n : nat) (src : list qsig) (h' : qsig) : Prop :=
  exists h a c, In h src /\ In (a, c) h /\ is_pos c = true /\ npos h = 1%nat /\
                h' = q_mul n h (inverse_term a).

Lemma filter_head_In : forall {X} (p : X -> bool) l t r, filter p l = t :: r -> In t l /\ p t = true.
Proof.
  intros X p l t r H. apply filter_In. rewrite H. now left.
Qed.

Lemma valid_posy_kept : forall n gts cg, valid_posy n gts = Ok cg -> Forall (kept n gts) cg.
Proof.
  intros n gts cg H. destruct (valid_posy_ok n gts cg H) as [-> _].
  apply Forall_forall. intros g' Hg'. apply in_map_iff in Hg'. destruct Hg' as [g [<- Hg]].
  apply filter_In in Hg. destruct Hg as [Hin E1]. apply Nat.eqb_eq in E1.
  unfold norm1. destruct (filter _ g) as [|[a c] r] eqn:EF.
  - exfalso. unfold npos, count in E1. rewrite EF in E1. discriminate.
  - destruct (filter_head_In _ _ _ _ EF) as [Hi Hp]. exists g, a, c. repeat split; auto.
Qed.

Lemma valid_mono_kept : forall n eqs, Forall (kept n eqs) (valid_mono_eqs n eqs).
Proof.
  intros n eqs. apply Forall_forall. intros h' Hh'. unfold valid_mono_eqs in Hh'.
  apply in_flat_map in Hh'. destruct Hh' as [h [Hin Hh']].
  destruct (Nat.ltb 2 _); [destruct Hh'|].
  destruct (filter _ h) as [|[a c] [|? ?]] eqn:EF; [destruct Hh'| |destruct Hh'].
  destruct Hh' as [<-|[]].
  destruct (filter_head_In _ _ _ _ EF) as [Hi Hp]. exists h, a, c. repeat split; auto.
  unfold npos, count. now rewrite EF.
Qed.

Lemma kept_props : forall n src h' x, Forall (fwf n) src -> Forall no_zero_coeff src -> length x = n ->
  kept n src h' ->
  wfsig n h' /\ (exists k, normal_form h' k) /\
  exists h, In h src /\ (0 <= sig_evalR h x <-> 0 <= sig_evalR h' x) /\
                        (sig_evalR h x = 0 <-> sig_evalR h' x = 0).
Proof.
  intros n src h' x Hf Hz Hx [h [a [c [Hin [Hi [Hp [H1 ->]]]]]]].
  rewrite Forall_forall in Hf, Hz. pose proof (Hf h Hin) as F. pose proof (Hz h Hin) as Z.
  destruct F as [Hw [Hd Hne]]. destruct (In_wfsig n h a c Hw Hi) as [La Ga].
  split; [|split].
  - destruct (mul_good n h (inverse_term a) Hw (inverse_term_wf n a La) Hne
                (inverse_term_nonempty a)) as [_ [W _]]. exact W.
  - apply (normalised_is_normal n h a c); auto; repeat split; auto.
  - exists h. split; auto. apply (posy_normalise_iff n h a c x); auto; repeat split; auto.
Qed.

(* ------------------------------------------------------------------ *)
Definition gt_emit (g : qsig) : list lcon := match gt_con g with Some (Some c) => [c] | _ => [] end.
Definition eq_emit (g : qsig) : list lcon := match eq_con g with Some c => [c] | None => [] end.

Lemma gt_part : forall n x cg, length x = n ->
  Forall (fun g => wfsig n g /\ exists k, normal_form g k) cg ->
  (Forall (fun l => lcon_sat l x) (flat_map gt_emit cg) <-> Forall (fun g => 0 <= sig_evalR g x) cg).
Proof.
  intros n x cg Hx H. induction H as [|g cg [Hw [k Hk]] _ IH].
  - simpl. split; constructor.
  - cbn [flat_map]. rewrite Forall_app, Forall_cons_iff, IH.
    pose proof (gt_con_iff n g k x Hw Hx Hk) as G. unfold gt_emit.
    destruct (gt_con g) as [[lc|]|]; [| |destruct G].
    + rewrite Forall_cons_iff. rewrite G. split; [intros [[A _] B]|intros [A B]]; auto.
    + split; [intros [_ B]|intros [_ B]]; auto.
Qed.

Lemma eq_part : forall n x ce, length x = n ->
  Forall (fun h => wfsig n h /\ (exists k, normal_form h k) /\ length h = 2%nat) ce ->
  (Forall (fun l => lcon_sat l x) (flat_map eq_emit ce) <-> Forall (fun h => sig_evalR h x = 0) ce).
Proof.
  intros n x ce Hx H. induction H as [|h ce [Hw [[k Hk] Hl]] _ IH].
  - simpl. split; constructor.
  - cbn [flat_map]. rewrite Forall_app, Forall_cons_iff, IH.
    pose proof (eq_con_iff n h k x Hw Hx Hk Hl) as G. unfold eq_emit.
    destruct (eq_con h) as [lc|]; [|destruct G].
    rewrite Forall_cons_iff. rewrite G. split; [intros [[A _] B]|intros [A B]]; auto.
Qed.

Lemma infer_domain_ok : forall n gts eqs cg ce lc, infer_domain n gts eqs = Ok (cg, ce, lc) ->
  valid_posy n gts = Ok cg /\ ce = valid_mono_eqs n eqs /\
  lc = flat_map gt_emit cg ++ flat_map eq_emit ce.
Proof.
  intros n gts eqs cg ce lc H. unfold infer_domain in H.
  destruct (valid_posy n gts) as [r|e]; [|discriminate]. inversion H; subst. auto.
Qed.

Lemma infer_exact : infer_exact_stmt.
Proof.
  intros n gts eqs cg ce lc x Fg Fe Zg Ze Hx H L2.
  destruct (infer_domain_ok _ _ _ _ _ _ H) as [Hv [Hce ->]].
  pose proof (valid_posy_kept n gts cg Hv) as Kg.
  pose proof (valid_mono_kept n eqs) as Ke. rewrite <- Hce in Ke.
  rewrite Forall_app. rewrite (gt_part n x cg Hx), (eq_part n x ce Hx); [reflexivity| |].
  - rewrite Forall_forall in Ke, L2. apply Forall_forall. intros h Hh.
    destruct (kept_props n eqs h x Fe Ze Hx (Ke h Hh)) as [Hw [Hn _]]. auto.
  - rewrite Forall_forall in Kg. apply Forall_forall. intros g Hg.
    destruct (kept_props n gts g x Fg Zg Hx (Kg g Hg)) as [Hw [Hn _]]. auto.
Qed.

Lemma infer_contains : infer_contains_stmt.
Proof.
  intros n gts eqs cg ce lc x Fg Fe Zg Ze Hx H L2 Sg Se.
  apply (infer_exact n gts eqs cg ce lc x Fg Fe Zg Ze Hx H L2).
  destruct (infer_domain_ok _ _ _ _ _ _ H) as [Hv [Hce _]].
  pose proof (valid_posy_kept n gts cg Hv) as Kg.
  pose proof (valid_mono_kept n eqs) as Ke. rewrite <- Hce in Ke.
  split.
  - rewrite Forall_forall in Kg, Sg. apply Forall_forall. intros g Hg.
    destruct (kept_props n gts g x Fg Zg Hx (Kg g Hg)) as [_ [_ [g0 [Hin [E _]]]]].
    apply E. now apply Sg.
  - rewrite Forall_forall in Ke, Se. apply Forall_forall. intros h Hh.
    destruct (kept_props n eqs h x Fe Ze Hx (Ke h Hh)) as [_ [_ [h0 [Hin [_ E]]]]].
    apply E. now apply Se.
Qed.
