(* Proofs/CalcProofs.v — C14: calculus of Signomials / Polynomials (re-exports).
   Proved against Proofs/CalcSpec.v:
     sig_partial_wf, sig_partial_derive, sig_hess_derive, grad_val_closed_form,
     hess_val_closed_form, shift_correct                         (CalcSig.v)
     as_poly_correct, poly_partial_derive                        (CalcPoly.v)
   poly_call_exact_stmt is FALSE as stated (poly_call_exact_counterexample); the corrected
   statement poly_call_exact_corrected (exponents stored in lowest terms) and its instance
   poly_call_exact_mk for constructor outputs are proved in CalcPoly.v. *)
From SageVerif Require Export Proofs.CalcSpec Proofs.CalcBase Proofs.CalcSig Proofs.CalcPoly.
