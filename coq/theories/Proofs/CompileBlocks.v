(* Proofs/CompileBlocks.v — C07, part 2: rows of affine cells are the slack; per-atom epigraph
   cones; product-cone blocks; block sizes, dimensions, flattening, columns. *)
From Coq Require Import Reals List Bool Arith ZArith QArith Qreals Lra Lia.
From SageVerif Require Import Math.RVec Model.Expr Model.SolverForms Model.Compile
  Proofs.MathSpec Proofs.MathProofs Proofs.ExprSpec Proofs.FormsSpec Proofs.FormsLemmas
  Proofs.CompileSpec Proofs.ExprAtoms Proofs.ExprScalar Proofs.CompileRows.
Import ListNotations.
Open Scope R_scope.

(* ------------------------------------------------------------------ affine arguments as rows *)
Lemma rsumf_cons : forall A (f : A -> R) x l, rsumf f (x :: l) = f x + rsumf f l.
Proof. reflexivity. Qed.

Lemma esum_aff_entries : forall rho neg x,
  esum rho (aff_entries neg x) = (if neg then -1 else 1) * zqsum rho (fst x).
Proof.
  intros rho neg [l b]. unfold aff_entries, esum. cbn [fst]. rewrite rsumf_map. cbn [fst snd].
  induction l as [|[i c] l IH].
  - simpl. destruct neg; lra.
  - rewrite rsumf_cons, IH. cbn [fst snd]. rewrite qe_val_of.
    change (zqsum rho ((i, c) :: l)) with (Q2R c * rho i + zqsum rho l).
    destruct neg; [rewrite Q2R_opp|]; lra.
Qed.

Lemma aff_row_dummy_val : forall rho dummy x, rrow_val rho (aff_row_dummy dummy x) = aff_val rho x.
Proof.
  intros rho dummy [l b]. unfold aff_row_dummy. cbn [fst snd]. rewrite aff_val_eq. cbn [fst snd].
  destruct l as [|ic l].
  - rewrite rrow_val_pair, esum_cons, esum_nil. cbn [fst snd]. rewrite !qe_val_of, EQ2R_0.
    simpl. lra.
  - rewrite rrow_val_pair, esum_aff_entries, qe_val_of. cbn [fst]. lra.
Qed.

Lemma row_t_val : forall rho t q, rrow_val rho ([(t, qe_of q)], qe_of 0%Q) = Q2R q * rho t.
Proof.
  intros. rewrite rrow_val_pair, esum_cons, esum_nil. cbn [fst snd]. rewrite !qe_val_of, EQ2R_0. lra.
Qed.

Lemma row_const_val : forall rho d q, rrow_val rho ([(d, qe_of 0%Q)], qe_of q) = Q2R q.
Proof.
  intros. rewrite rrow_val_pair, esum_cons, esum_nil. cbn [fst snd]. rewrite !qe_val_of, EQ2R_0. lra.
Qed.

Lemma row_t_aff_val : forall rho t neg x,
  rrow_val rho ((t, qe_of 1%Q) :: aff_entries neg x, qe_of (if neg then (- snd x)%Q else snd x))
  = rho t + (if neg then -1 else 1) * aff_val rho x.
Proof.
  intros. rewrite rrow_val_pair, esum_cons, esum_aff_entries. cbn [fst snd].
  rewrite !qe_val_of, EQ2R_1, aff_val_eq. destruct neg; [rewrite Q2R_opp|]; lra.
Qed.

(* ------------------------------------------------------------------ elementwise rows *)
Lemma row_of_val : forall rho dummy neg e, affine_cell e ->
  rrow_val rho (row_of dummy neg e) = (if neg then -1 else 1) * value rho e.
Proof.
  intros rho dummy neg e Ha. rewrite value_by_keys.
  change (fold_right (fun a acc => Q2R (coeff_of a e) * atom_val rho a + acc) 0 (keys e))
    with (rsumf (fun a => Q2R (coeff_of a e) * atom_val rho a) (keys e)).
  set (sgn := if neg then (-1)%Q else 1%Q).
  assert (Hs : Q2R sgn = if neg then -1 else 1).
  { unfold sgn. destruct neg; [apply EQ2R_m1 | apply EQ2R_1]. }
  assert (G : forall ks, forallb is_var ks = true ->
    esum rho (map (fun a => (var_id a, qe_of (sgn * coeff_of a e)%Q)) ks)
    = Q2R sgn * rsumf (fun a => Q2R (coeff_of a e) * atom_val rho a) ks).
  { induction ks as [|a ks IH]; intros Hv.
    - simpl. unfold esum; simpl. lra.
    - simpl in Hv. apply andb_prop in Hv as [Hv1 Hv2].
      cbn [map]. rewrite esum_cons, rsumf_cons, (IH Hv2). cbn [fst snd].
      rewrite qe_val_of, Q2R_mult, (is_var_val rho a Hv1). lra. }
  unfold affine_cell in Ha. unfold row_of. fold sgn.
  destruct (keys e) as [|a ks] eqn:K.
  - rewrite row_const_val, Q2R_mult, Hs. simpl. lra.
  - rewrite rrow_val_pair, (G _ Ha), qe_val_of, Q2R_mult, Hs. lra.
Qed.

Lemma elementwise_rows_are_slack : elementwise_rows_are_slack_stmt.
Proof.
  intros rho dummy e Ha. split; rewrite row_of_val by assumption; lra.
Qed.

(* ------------------------------------------------------------------ single-cone blocks *)
Lemma in_K_single : forall t n v, length v = n -> (in_K [(t, n)] v <-> in_cone t v).
Proof.
  intros t n v H. simpl. rewrite firstn_all2, skipn_all2 by lia. tauto.
Qed.

Lemma block_single : forall rho t n rows, length rows = n ->
  (block_sat rho ([(t, n)], rows) <-> in_cone (sem_tag t) (map (rrow_val rho) rows)).
Proof.
  intros rho t n rows H. unfold block_sat. cbn [fst snd semK map].
  apply in_K_single. now rewrite map_length.
Qed.

Lemma Forall_two : forall (P : R -> Prop) a b, Forall P [a; b] <-> P a /\ P b.
Proof.
  intros. split.
  - intros H. inversion H as [|? ? H1 H2]; subst. inversion H2; subst. auto.
  - intros [H1 H2]. repeat constructor; auto.
Qed.

Lemma epi_abs_iff : epi_abs_iff_stmt.
Proof.
  intros rho dummy t x. unfold epi_block. rewrite block_single by reflexivity.
  cbn [map sem_tag in_cone].
  rewrite (row_t_aff_val rho t false x), (row_t_aff_val rho t true x).
  rewrite Forall_two. generalize (aff_val rho x) (rho t). intros v tt. split.
  - intros [H1 H2]. unfold Rabs. destruct (Rcase_abs v); lra.
  - intros H. unfold Rabs in H. destruct (Rcase_abs v); lra.
Qed.

Lemma epi_pos_iff : epi_pos_iff_stmt.
Proof.
  intros rho dummy t x. unfold epi_block. rewrite block_single by reflexivity.
  cbn [map sem_tag in_cone].
  rewrite row_t_val, (row_t_aff_val rho t true x), EQ2R_1.
  rewrite Forall_two. generalize (aff_val rho x) (rho t). intros v tt. split.
  - intros [H1 H2]. apply Rmax_lub; lra.
  - intros H. pose proof (Rmax_l v 0). pose proof (Rmax_r v 0). lra.
Qed.

Lemma epi_exp_iff : epi_exp_iff_stmt.
Proof.
  intros rho dummy t x. unfold epi_block. rewrite block_single by reflexivity.
  cbn [map sem_tag in_cone].
  rewrite aff_row_dummy_val, row_t_val, row_const_val, EQ2R_1, Rmult_1_l.
  apply exp_epi_iff.
Qed.

Lemma rel_entr_pos : forall x y, 0 < x -> 0 < y -> rel_entr x y = x * ln (x / y).
Proof.
  intros x y Hx Hy. unfold rel_entr.
  destruct (Rlt_dec 0 x); [|contradiction]. destruct (Rlt_dec 0 y); [|contradiction]. reflexivity.
Qed.

Lemma rel_entr_zero : forall y, rel_entr 0 y = 0.
Proof. intros y. unfold rel_entr. destruct (Rlt_dec 0 0); [lra | reflexivity]. Qed.

Lemma epi_relent_iff : epi_relent_iff_stmt.
Proof.
  intros rho dummy t x y. unfold epi_block. rewrite block_single by reflexivity.
  cbn [map sem_tag in_cone].
  rewrite !aff_row_dummy_val, row_t_val, EQ2R_m1.
  replace (-1 * rho t) with (- rho t) by lra.
  rewrite (relent_epi_iff (aff_val rho x) (aff_val rho y) (rho t)). generalize (aff_val rho x) (aff_val rho y) (rho t). intros vx vy tt.
  split.
  - intros [[H1 [H2 H3]]|H]; [left | right; exact H].
    rewrite rel_entr_pos by assumption. auto.
  - intros [[H1 [H2 H3]]|H]; [left | right; exact H].
    rewrite rel_entr_pos in H3 by assumption. auto.
Qed.

Lemma epi_norm_iff : epi_norm_iff_stmt.
Proof.
  intros rho dummy t args. unfold epi_block.
  rewrite block_single by (cbn [length]; now rewrite map_length).
  cbn [map sem_tag]. rewrite row_t_val, EQ2R_1, Rmult_1_l, map_map.
  rewrite (map_ext _ (aff_val rho) (aff_row_dummy_val rho dummy)).
  apply soc_epi_iff.
Qed.

(* ------------------------------------------------------------------ product cones *)
Lemma prow_vals : forall rho dummy y, Forall affine_cell y ->
  map (rrow_val rho) (map (prow dummy) y) = map (value rho) y.
Proof.
  intros rho dummy y H. rewrite map_map. apply map_ext_in. intros e He.
  rewrite Forall_forall in H. unfold prow. rewrite row_of_val by auto. lra.
Qed.

Lemma primal_block_iff : primal_block_iff_stmt.
Proof.
  intros rho dummy y K b Ha _ Hb. simpl in Hb. injection Hb as <-.
  unfold block_sat. cbn [fst snd]. now rewrite prow_vals.
Qed.

Definition rational_row (r : rrow) : Prop :=
  Forall (fun ic => snd (snd ic) = 0%Q) (fst r) /\ snd (snd r) = 0%Q.

Lemma qe_val_rat : forall c : qe, snd c = 0%Q -> qe_val c = Q2R (fst c).
Proof. intros [a b] H. simpl in H. subst. unfold qe_val; simpl. rewrite EQ2R_0. lra. Qed.

Lemma scale_rrow_e_val : forall rho r, rational_row r ->
  rrow_val rho (scale_rrow_e r) = exp 1 * rrow_val rho r.
Proof.
  intros rho [l b] [H1 H2]. cbn [fst snd] in *. unfold scale_rrow_e. cbn [fst snd].
  rewrite !rrow_val_pair, qe_val_e, (qe_val_rat b H2).
  assert (G : esum rho (map (fun ic : Z * qe => (fst ic, (0%Q, fst (snd ic)))) l) = exp 1 * esum rho l).
  { clear H2. induction l as [|[i [a c]] l IH]; [unfold esum; simpl; lra|].
    inversion H1 as [|? ? Hic Hl]; subst. cbn [fst snd] in Hic. subst c.
    cbn [map]. rewrite !esum_cons, (IH Hl). cbn [fst snd]. rewrite qe_val_e.
    unfold qe_val. cbn [fst snd]. rewrite EQ2R_0. lra. }
  transitivity (exp 1 * esum rho l + exp 1 * Q2R (fst b)); [|lra].
  apply (f_equal (fun z => z + exp 1 * Q2R (fst b))). exact G.
Qed.

Lemma row_of_rational : forall dummy neg e, rational_row (row_of dummy neg e).
Proof.
  intros dummy neg e. unfold row_of, rational_row.
  destruct (keys e) as [|a ks]; cbn [fst snd]; split; try reflexivity.
  - repeat constructor.
  - apply Forall_forall. intros ic Hic. apply in_map_iff in Hic as [k [<- _]]. reflexivity.
Qed.

Lemma Ksize_app : forall K1 K2, KsizeM (K1 ++ K2) = (KsizeM K1 + KsizeM K2)%nat.
Proof. induction K1 as [|c K1 IH]; intros K2; simpl; auto. rewrite IH. lia. Qed.

Lemma dual_rows_spec : forall rho dummy K y Ks rs,
  Forall affine_cell y -> length y = KsizeM K -> okK K ->
  dual_rows dummy y K = Some (Ks, rs) ->
  length rs = KsizeM Ks /\
  (in_K (semK Ks) (map (rrow_val rho) rs) <-> in_Kdual (semK K) (map (value rho) y)).
Proof.
  intros rho dummy. induction K as [|[t n] K IH]; intros y Ks rs Ha Hl HK H.
  - simpl in H. injection H as <- <-. simpl in Hl. destruct y; [|discriminate]. simpl. tauto.
  - apply okK_cons in HK as [Hal [Hn HK]]. simpl in Hl.
    destruct (split_len _ _ _ Hl) as [blk [rest [-> [Hb Hr]]]]. subst n.
    apply Forall_app in Ha as [Ha1 Ha2].
    cbn [dual_rows] in H. rewrite firstn_app_len, skipn_app_len in H.
    destruct (dual_rows dummy rest K) as [[Ks' rs']|] eqn:E; [|discriminate].
    destruct (IH rest Ks' rs' Ha2 Hr HK E) as [IL IE].
    change (semK ((t, length blk) :: K)) with ((sem_tag t, length blk) :: semK K).
    rewrite map_app, in_Kdual_eq, in_Kg_cons_app by (now rewrite map_length).
    rewrite <- in_Kdual_eq, <- IE.
    destruct t; try discriminate Hal; cbn [sem_tag].
    + (* zero cone: dropped *)
      injection H as <- <-. split; auto. simpl. tauto.
    + injection H as <- <-. split.
      * rewrite app_length, map_length. simpl. lia.
      * change (semK ((TPos, length blk) :: Ks')) with ((CPos, length blk) :: semK Ks').
        rewrite map_app, in_K_cons_app by (now rewrite !map_length).
        rewrite prow_vals by assumption. simpl. tauto.
    + injection H as <- <-. split.
      * rewrite app_length, map_length. simpl. lia.
      * change (semK ((TSoc, length blk) :: Ks')) with ((CSoc, length blk) :: semK Ks').
        rewrite map_app, in_K_cons_app by (now rewrite !map_length).
        rewrite prow_vals by assumption. simpl. tauto.
    + specialize (Hn eq_refl).
      destruct blk as [|y0 [|y1 [|y2 [|y3 blk]]]]; try discriminate Hn.
      injection H as <- <-. split.
      * simpl. lia.
      * change (semK ((TExp, 3%nat) :: Ks')) with ((CExp, 3%nat) :: semK Ks').
        inversion Ha1 as [|? ? A0 Ha1']; subst. inversion Ha1' as [|? ? A1 Ha1'']; subst.
        inversion Ha1'' as [|? ? A2 _]; subst.
        cbn [map app in_K firstn skipn length in_cone in_dual_cone]. unfold KexpDual, neg_rrow, prow.
        rewrite scale_rrow_e_val by apply row_of_rational.
        rewrite !row_of_val by assumption.
        replace (-1 * value rho y2) with (- value rho y2) by lra.
        replace (-1 * value rho y0) with (- value rho y0) by lra.
        replace (1 * value rho y1) with (value rho y1) by lra. intuition.
Qed.

Lemma dual_block_iff : dual_block_iff_stmt.
Proof.
  intros rho dummy y K [Ks rs] Ha [Hl HK] Hb. simpl in Hb.
  unfold block_sat. cbn [fst snd].
  exact (proj2 (dual_rows_spec rho dummy K y Ks rs Ha Hl HK Hb)).
Qed.

(* ------------------------------------------------------------------ sizes *)
Lemma econ_block_sized : forall dummy c, block_sized (econ_block dummy c).
Proof. intros. unfold block_sized, econ_block. cbn [fst snd]. rewrite map_length. simpl. lia. Qed.

Lemma epi_block_sized : forall dummy t a, block_sized (epi_block dummy t a).
Proof.
  intros dummy t [i|k args]; unfold block_sized; [reflexivity|].
  destruct k; destruct args as [|x [|y [|z args]]]; try reflexivity;
    cbn [epi_block fst snd length]; rewrite map_length; simpl; lia.
Qed.

Lemma smem_block_sized : forall dummy s b, smem_ok s -> smem_block dummy s = Some b -> block_sized b.
Proof.
  intros dummy [y K|y K] b [Hl HK] H; simpl in H.
  - injection H as <-. unfold block_sized. cbn [fst snd]. now rewrite map_length.
  - destruct b as [Ks rs]. unfold block_sized. cbn [fst snd].
    (* sizes do not depend on affinity: replay the recursion *)
    clear -Hl HK H. revert y Ks rs Hl H.
    induction K as [|[t n] K IH]; intros y Ks rs Hl H.
    + simpl in H. injection H as <- <-. reflexivity.
    + apply okK_cons in HK as [Hal [Hn HK]]. simpl in Hl.
      destruct (split_len _ _ _ Hl) as [blk [rest [-> [Hb Hr]]]]. subst n.
      cbn [dual_rows] in H. rewrite firstn_app_len, skipn_app_len in H.
      destruct (dual_rows dummy rest K) as [[Ks' rs']|] eqn:E; [|discriminate].
      specialize (IH HK rest Ks' rs' Hr E).
      destruct t; try discriminate Hal.
      * injection H as <- <-. exact IH.
      * injection H as <- <-. rewrite app_length, map_length. simpl. lia.
      * injection H as <- <-. rewrite app_length, map_length. simpl. lia.
      * specialize (Hn eq_refl).
        destruct blk as [|y0 [|y1 [|y2 [|y3 blk]]]]; try discriminate Hn.
        injection H as <- <-. simpl. lia.
Qed.

Lemma smem_blocks_spec : forall dummy ss sbs, smem_blocks dummy ss = Some sbs ->
  Forall2 (fun s b => smem_block dummy s = Some b) ss sbs.
Proof.
  intros dummy. induction ss as [|s ss IH]; intros sbs H; simpl in H.
  - injection H as <-. constructor.
  - destruct (smem_block dummy s) as [b|] eqn:E; [|discriminate].
    destruct (smem_blocks dummy ss) as [bs|]; [|discriminate].
    injection H as <-. constructor; auto.
Qed.

Lemma all_blocks_inv : forall epi dummy cs ss bs, all_blocks epi dummy cs ss = Some bs ->
  exists sbs, smem_blocks dummy ss = Some sbs /\
    bs = map (econ_block dummy) (map (subst_econ epi) cs)
         ++ map (fun a => epi_block dummy (epi a) a) (nl_atoms cs) ++ sbs.
Proof.
  intros epi dummy cs ss bs H. unfold all_blocks in H.
  destruct (smem_blocks dummy ss) as [sbs|]; [|discriminate].
  injection H as <-. exists sbs. auto.
Qed.

Lemma blocks_sized : blocks_sized_stmt.
Proof.
  intros epi dummy cs ss bs Hok H.
  apply all_blocks_inv in H as [sbs [Hs ->]].
  apply Forall_app. split; [|apply Forall_app; split].
  - apply Forall_forall. intros b Hb. apply in_map_iff in Hb as [c [<- _]]. apply econ_block_sized.
  - apply Forall_forall. intros b Hb. apply in_map_iff in Hb as [a [<- _]]. apply epi_block_sized.
  - apply smem_blocks_spec in Hs. clear -Hok Hs.
    induction Hs as [|s b ss sbs Hsb Hs IH]; constructor.
    + inversion Hok; subst. eapply smem_block_sized; eauto.
    + apply IH. now inversion Hok.
Qed.

Lemma compile_inv : forall epi dummy cs ss vars c, compile epi dummy cs ss vars = Some c ->
  exists bs, all_blocks epi dummy cs ss = Some bs /\
    c_K c = flat_map fst bs /\ c_rows c = map canon_row (flat_map snd bs) /\
    c_cols c = sorted_ids (flat_map snd bs) /\
    c_varmap c = map (fun v => (fst v, map (fun i => index_of i (sorted_ids (flat_map snd bs)) 0%Z) (snd v))) vars.
Proof.
  intros epi dummy cs ss vars c H. unfold compile in H.
  destruct (all_blocks epi dummy cs ss) as [bs|]; [|discriminate].
  injection H as <-. exists bs. simpl. auto.
Qed.

Lemma flat_sized : forall bs : list block, Forall block_sized bs ->
  length (flat_map snd bs) = KsizeM (flat_map fst bs).
Proof.
  induction 1 as [|b bs Hb Hbs IH]; simpl; auto.
  rewrite app_length, Ksize_app, IH, Hb. reflexivity.
Qed.

Lemma compile_dims : compile_dims_stmt.
Proof.
  intros epi dummy cs ss vars c Hok H.
  apply compile_inv in H as [bs [Hb [HK [Hr _]]]].
  rewrite HK, Hr, map_length. apply flat_sized. eapply blocks_sized; eauto.
Qed.

Lemma flatten_sat : forall rho (bs : list block), Forall block_sized bs ->
  (in_K (semK (flat_map fst bs)) (map (rrow_val rho) (flat_map snd bs)) <-> blocks_sat rho bs).
Proof.
  intros rho bs H. unfold blocks_sat. induction H as [|b bs Hb Hbs IH]; simpl.
  - split; auto.
  - unfold semK at 1. rewrite map_app. fold (semK (fst b)). fold (semK (flat_map fst bs)).
    rewrite map_app, in_K_eq, in_Kg_app.
    + rewrite <- !in_K_eq, IH. rewrite Forall_cons_iff. unfold block_sat. tauto.
    + rewrite map_length, KsizeR_semK. exact Hb.
Qed.

Lemma compile_flatten : compile_flatten_stmt.
Proof.
  intros epi dummy cs ss vars c bs rho Hok H Hbs.
  apply compile_inv in H as [bs' [Hb [HK [Hr _]]]]. rewrite Hbs in Hb. injection Hb as <-.
  unfold compiled_sat. rewrite HK, Hr, map_map.
  rewrite (map_ext _ (rrow_val rho) (canon_row_val rho)).
  apply flatten_sat. eapply blocks_sized; eauto.
Qed.

(* ------------------------------------------------------------------ columns *)
Lemma columns_spec : columns_spec_stmt.
Proof.
  intros epi dummy cs ss vars c bs H Hbs.
  apply compile_inv in H as [bs' [Hb [_ [_ [Hc Hv]]]]]. rewrite Hbs in Hb. injection Hb as <-.
  rewrite Hc. set (cols := sorted_ids (flat_map snd bs)) in *.
  assert (Hs : ssorted cols) by apply sorted_ids_sorted.
  assert (Hin : forall id, In id cols ->
     (0 <= index_of id cols 0 < Z.of_nat (length cols))%Z /\
     nth (Z.to_nat (index_of id cols 0)) cols 0%Z = id).
  { intros id Hid. destruct (index_of_in id cols 0%Z Hid) as [I1 I2].
    rewrite Z.sub_0_r in I2. split; [lia | exact I2]. }
  split; [now apply ssorted_strict|]. split; [|split; [exact Hin|split; [|split]]].
  - intros id. unfold cols. rewrite sorted_ids_In. split.
    + intros [r [q [H1 H2]]]. apply in_flat_map in H1 as [b [H0 H1]]. exists b, r, q. auto.
    + intros [b [r [q [H0 [H1 H2]]]]]. exists r, q. split; auto. apply in_flat_map. exists b. auto.
  - intros id Hid. now apply index_of_notin.
  - intros id1 id2 H1 H2 He. rewrite <- (proj2 (Hin id1 H1)), <- (proj2 (Hin id2 H2)), He. reflexivity.
  - exact Hv.
Qed.
