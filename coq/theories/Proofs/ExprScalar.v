(* Proofs/ExprScalar.v — scalar expressions: the comparison, the introspection functions, the
   nonlinear-atom constructors and the arithmetic of Model/Expr.v are sound for [value]. *)
From Coq Require Import Reals List Bool Arith ZArith QArith Qreals Lra Lia.
From SageVerif Require Import Math.RVec Model.Expr Model.ExprProg Proofs.ExprSpec Proofs.ExprAtoms.
Import ListNotations.
Open Scope R_scope.

(* ------------------------------------------------------------------ *)
(* sexpr_eqb *)
Lemma sexpr_eqb_sound : sexpr_eqb_sound_stmt.
Proof.
  intros a b H rho. unfold sexpr_eqb in H. apply andb_prop in H as [Hoff Hc].
  rewrite forallb_forall in Hc.
  set (U := keys a ++ filter (fun k => negb (mem_atom k (keys a))) (keys b)).
  assert (HU : NoDupE U).
  { unfold U. apply NoDupE_app.
    - apply keys_nodup.
    - generalize (keys_nodup b). generalize (keys b) as l.
      induction 1 as [|x l Hx Hl IH]; simpl; [constructor|].
      destruct (negb (mem_atom x (keys a))); auto. constructor; auto.
      destruct (mem_atom x (filter (fun k => negb (mem_atom k (keys a))) l)) eqn:E; auto.
      apply mem_atom_iff in E as [y [Hy1 Hy2]]. apply filter_In in Hy1 as [Hy1 _].
      now rewrite (mem_atom_false _ _ Hx y Hy1) in Hy2.
    - intros x Hx. destruct (mem_atom x (filter _ (keys b))) eqn:E; auto.
      apply mem_atom_iff in E as [y [Hy1 Hy2]]. apply filter_In in Hy1 as [_ Hy1].
      apply negb_true_iff in Hy1. apply atom_eqb_sym in Hy2.
      now rewrite (mem_atom_congr y x _ Hy2 (mem_atom_In _ _ Hx)) in Hy1. }
  assert (Ca : forall t, In t (terms a) -> mem_atom (fst t) U = true).
  { intros t Ht. unfold U. rewrite mem_atom_app, (keys_cover a t Ht). reflexivity. }
  assert (Cb : forall t, In t (terms b) -> mem_atom (fst t) U = true).
  { intros t Ht. unfold U. rewrite mem_atom_app.
    destruct (mem_atom (fst t) (keys a)) eqn:E; auto. simpl.
    pose proof (keys_cover b t Ht) as Hk. apply mem_atom_iff in Hk as [y [Hy1 Hy2]].
    apply mem_atom_iff. exists y. split; auto. apply filter_In. split; auto.
    apply negb_true_iff. destruct (mem_atom y (keys a)) eqn:F; auto.
    now rewrite (mem_atom_congr _ _ _ Hy2 F) in E. }
  rewrite (value_by_cover rho a U HU Ca), (value_by_cover rho b U HU Cb).
  rewrite (Qeq_bool_Q2R _ _ Hoff). f_equal. apply rsumf_ext.
  intros k Hk. rewrite (Qeq_bool_Q2R (coeff_of k a) (coeff_of k b)); auto.
  apply Hc. unfold U in Hk. apply in_app_or in Hk as [Hk|Hk]; apply in_or_app; auto.
  right. now apply filter_In in Hk.
Qed.

(* ------------------------------------------------------------------ *)
(* introspection *)
Lemma is_constant_sound : is_constant_sound_stmt.
Proof.
  intros e H rho. rewrite value_live. unfold is_constant in H.
  destruct (live_keys e); [simpl; lra | discriminate H].
Qed.

Lemma In_dedupZ : forall x l, In x (dedupZ l) <-> In x l.
Proof.
  intros x. induction l as [|y l IH]; simpl; [tauto|].
  destruct (existsb (Z.eqb y) l) eqn:E; simpl; rewrite IH; [|tauto].
  split; auto. intros [<-|H]; auto.
  apply existsb_exists in E as [z [Hz1 Hz2]]. apply Z.eqb_eq in Hz2. now subst.
Qed.

Lemma introspection_sound : introspection_sound_stmt.
Proof.
  intros e rho rho' H. rewrite !value_live. f_equal. apply rsumf_ext.
  intros a Ha. f_equal. apply atom_val_ext. intros i Hi. apply H.
  unfold scalar_variable_ids. apply In_dedupZ. apply in_flat_map. exists a. auto.
Qed.

Lemma is_var_val : forall rho a, is_var a = true -> atom_val rho a = rho (var_id a).
Proof. intros rho [i|k xs]; simpl; auto; discriminate. Qed.

Lemma value_affine : forall e, is_affine e = true -> forall rho,
  value rho e = rsumf (fun a => Q2R (coeff_of a e) * rho (var_id a)) (live_keys e) + Q2R (off e).
Proof.
  intros e H rho. rewrite value_live. f_equal. apply rsumf_ext. intros a Ha.
  unfold is_affine in H. rewrite forallb_forall in H. now rewrite (is_var_val rho a (H a Ha)).
Qed.

Lemma is_affine_exact : is_affine_exact_stmt.
Proof.
  intros e H. split; [|split].
  - intros rho. apply (value_affine e H rho).
  - intros a Ha. unfold is_affine in H. rewrite forallb_forall in H. split; auto.
    unfold live_keys in Ha. apply filter_In in Ha as [_ Ha].
    apply negb_true_iff in Ha. now apply Qeq_bool_neq.
  - intros i. unfold scalar_variable_ids. rewrite In_dedupZ, in_flat_map.
    unfold is_affine in H. rewrite forallb_forall in H.
    split; intros [a [Ha1 Ha2]]; exists a; split; auto;
      specialize (H a Ha1); destruct a as [j|k xs]; try discriminate H; simpl in *.
    + destruct Ha2 as [Ha2|[]]; auto.
    + now left.
Qed.

(* ------------------------------------------------------------------ *)
(* parse_arg / mk_atom *)
Lemma zqsum_insert : forall rho x l, zqsum rho (insert_zq x l) = Q2R (snd x) * rho (fst x) + zqsum rho l.
Proof.
  intros rho x. induction l as [|y l IH]; simpl; auto.
  destruct (fst x <? fst y)%Z; simpl; auto. rewrite IH. lra.
Qed.

Lemma zqsum_sort : forall rho l, zqsum rho (fold_right insert_zq [] l) = zqsum rho l.
Proof.
  intros rho. induction l as [|x l IH]; simpl; auto. now rewrite zqsum_insert, IH.
Qed.

Lemma affine_raw_affine : forall e, is_affine_raw e = true -> is_affine e = true.
Proof.
  intros e H. unfold is_affine, is_affine_raw in *. rewrite forallb_forall in *.
  intros a Ha. apply H. unfold live_keys in Ha. now apply filter_In in Ha.
Qed.

Lemma parse_arg_value : parse_arg_value_stmt.
Proof.
  intros e a H rho. unfold parse_arg in H.
  destruct (is_affine_raw e) eqn:E; [|discriminate H].
  injection H as <-. rewrite aff_val_eq. simpl fst; simpl snd.
  rewrite zqsum_sort, EQ2R_Qred, (value_affine e (affine_raw_affine e E) rho). f_equal.
  induction (live_keys e) as [|k l IH]; simpl; auto. now rewrite IH.
Qed.

Lemma parse_args_value : forall es args, parse_args es = ROk args ->
  forall rho, map (aff_val rho) args = map (value rho) es.
Proof.
  induction es as [|e es IH]; simpl; intros args H rho.
  - injection H as <-. reflexivity.
  - destruct (parse_arg e) as [a|] eqn:Ea; [|discriminate H].
    destruct (parse_args es) as [l|] eqn:El; [|discriminate H].
    injection H as <-. simpl. now rewrite (parse_arg_value e a Ea rho), (IH l eq_refl rho).
Qed.

Lemma mk_atom_value : mk_atom_value_stmt.
Proof.
  intros k es r H rho. unfold mk_atom in H.
  destruct (parse_args es) as [args|] eqn:E; [|discriminate H].
  injection H as <-. rewrite value_eq. unfold satom, tsum. simpl.
  rewrite (parse_args_value es args E rho), EQ2R_1, EQ2R_0. lra.
Qed.

(* ------------------------------------------------------------------ *)
(* arithmetic *)
Lemma tsum_app : forall rho l1 l2, tsum rho (l1 ++ l2) = tsum rho l1 + tsum rho l2.
Proof. intros. apply rsumf_app. Qed.

Lemma tsum_scale : forall rho q l,
  tsum rho (map (fun t => (fst t, Qred (q * snd t)%Q)) l) = Q2R q * tsum rho l.
Proof.
  intros rho q l. unfold tsum. rewrite rsumf_map, <- rsumf_scale. apply rsumf_ext.
  intros t _. cbv beta. cbn [fst snd]. rewrite EQ2R_Qred, Q2R_mult. lra.
Qed.

Lemma value_sadd : forall rho a b, value rho (sadd a b) = value rho a + value rho b.
Proof.
  intros. rewrite !value_eq. unfold sadd. cbn [terms off]. rewrite tsum_app, EQ2R_Qred, Q2R_plus. lra.
Qed.

Lemma value_sscale_raw : forall rho q a, value rho (sscale_raw q a) = Q2R q * value rho a.
Proof.
  intros. rewrite !value_eq. unfold sscale_raw. cbn [terms off]. rewrite tsum_scale, EQ2R_Qred, Q2R_mult. lra.
Qed.

Lemma value_sconst : forall rho q, value rho (sconst q) = Q2R q.
Proof. intros. unfold value, sconst. simpl. lra. Qed.

Lemma value_sscale : forall rho q a, value rho (sscale q a) = Q2R q * value rho a.
Proof.
  intros. unfold sscale. destruct (Qeq_bool q 0) eqn:E.
  - rewrite value_sconst, EQ2R_0, (Qeq_bool_0_Q2R _ E). lra.
  - apply value_sscale_raw.
Qed.

Lemma value_svar : forall rho i, value rho (svar i) = rho i.
Proof. intros. unfold value, svar. simpl. rewrite EQ2R_1, EQ2R_0. lra. Qed.

Lemma value_smul : forall rho a b r, smul a b = ROk r -> value rho r = value rho a * value rho b.
Proof.
  intros rho a b r H. unfold smul in H. destruct (is_constant b) eqn:Eb.
  - injection H as <-. rewrite value_sscale, (is_constant_sound b Eb rho). lra.
  - destruct (is_constant a) eqn:Ea; [|discriminate H].
    injection H as <-. rewrite value_sscale, (is_constant_sound a Ea rho). lra.
Qed.

Lemma scalar_hom : scalar_hom_stmt.
Proof.
  intros rho a b q. repeat split.
  - apply value_sadd.
  - unfold ssub. rewrite value_sadd, value_sscale_raw, EQ2R_m1. lra.
  - unfold sneg. rewrite value_sscale_raw, EQ2R_m1. lra.
  - apply value_sscale.
  - apply value_sconst.
  - apply value_smul.
  - intros r H. unfold sdiv in H. destruct (Qeq_bool q 0) eqn:E; [discriminate H|].
    injection H as <-. rewrite value_sscale, EQ2R_Qred, Q2R_inv; [unfold Rdiv; lra|].
    now apply Qeq_bool_neq.
Qed.

Lemma scalar_errors : scalar_errors_stmt.
Proof.
  intros a b q. split.
  - unfold smul. destruct (is_constant b), (is_constant a); split; intros H; try discriminate H; auto;
      destruct H; discriminate.
  - unfold sdiv. destruct (Qeq_bool q 0) eqn:E; split; intros H; auto; try discriminate H.
    + now apply Qeq_bool_iff.
    + apply Qeq_bool_neq in E. contradiction.
Qed.

Lemma value_is_hom : value_is_hom_stmt.
Proof.
  intros rho. unfold hom. split; [|split].
  - unfold szero. rewrite value_sconst. apply EQ2R_0.
  - apply value_sadd.
  - intros q a. unfold rscale. apply value_sscale.
Qed.
