(* Proofs/ExprProofs.v — the C08 theorems (statements in Proofs/ExprSpec.v), collected.
   ExprAtoms: atom_eqb_value, value_by_keys.
   ExprScalar: sexpr_eqb_sound, is_constant_sound, introspection_sound, is_affine_exact,
               parse_arg_value, mk_atom_value, scalar_hom, scalar_errors, value_is_hom.
   ExprArrays: array_naturality, lincomb_R, broadcast_add_R.
   ExprProgram: step_sound, program_sound. *)
From SageVerif Require Export Proofs.ExprSpec Proofs.ExprAtoms Proofs.ExprScalar Proofs.ExprArrays
  Proofs.ExprProgram.

Definition C08_all :
  scalar_hom_stmt /\ scalar_errors_stmt /\ atom_eqb_value_stmt /\ value_by_keys_stmt /\
  sexpr_eqb_sound_stmt /\ is_constant_sound_stmt /\ introspection_sound_stmt /\ is_affine_exact_stmt /\
  parse_arg_value_stmt /\ mk_atom_value_stmt /\ array_naturality_stmt /\ value_is_hom_stmt /\
  lincomb_R_stmt /\ broadcast_add_R_stmt /\ step_sound_stmt /\ program_sound_stmt :=
  conj scalar_hom (conj scalar_errors (conj atom_eqb_value (conj value_by_keys
  (conj sexpr_eqb_sound (conj is_constant_sound (conj introspection_sound (conj is_affine_exact
  (conj parse_arg_value (conj mk_atom_value (conj array_naturality (conj value_is_hom
  (conj lincomb_R (conj broadcast_add_R (conj step_sound program_sound)))))))))))))).
