(* Proofs/SageDualRows.v — C02, part 1: values of the raw rows that Model/Sage.v emits for a dual
   SAGE constraint (entries, matvec_sexprs, matvec_rows, the domain rows), list helpers, blocks of
   exponential cones, monotonicity of Kexp in its first argument, and the semantic reading
   of [dual_age_blocks] / [dual_blocks]. *)
From Coq Require Import Reals List Bool Arith ZArith QArith Qreals Lra Lia.
From SageVerif Require Import Math.RVec Model.Expr Model.SolverForms Model.Compile Model.Sage
  Proofs.MathSpec Proofs.MathProofs Proofs.ExprSpec Proofs.FormsSpec Proofs.FormsLemmas
  Proofs.CompileSpec Proofs.ExprAtoms Proofs.ExprScalar Proofs.CompileRows Proofs.CompileBlocks
  Proofs.SageSpec.
Import ListNotations.
Open Scope R_scope.

(* ------------------------------------------------------------------ list helpers *)
Lemma combine_map_r {A B C} (f : B -> C) : forall (a : list A) (b : list B),
  combine a (map f b) = map (fun p => (fst p, f (snd p))) (combine a b).
Proof.
  induction a as [|x a IH]; intros [|y b]; simpl; auto. now rewrite IH.
Qed.

Lemma combine_map_l {A B C} (f : A -> C) : forall (a : list A) (b : list B),
  combine (map f a) b = map (fun p => (f (fst p), snd p)) (combine a b).
Proof.
  induction a as [|x a IH]; intros [|y b]; simpl; auto. now rewrite IH.
Qed.

Lemma combine_map_same {A B C} (f : A -> B) (g : A -> C) : forall l,
  combine (map f l) (map g l) = map (fun x => (f x, g x)) l.
Proof. induction l as [|x l IH]; simpl; auto. now rewrite IH. Qed.

Lemma flat_map_map' {A B C} (f : A -> B) (g : B -> list C) : forall l,
  flat_map g (map f l) = flat_map (fun x => g (f x)) l.
Proof. induction l as [|x l IH]; simpl; auto. now rewrite IH. Qed.

Lemma Forall_combine_snd {A B} (P : B -> Prop) : forall (a : list A) (b : list B),
  length a = length b -> Forall (fun p => P (snd p)) (combine a b) -> Forall P b.
Proof.
  induction a as [|x a IH]; intros [|y b] Hl H; simpl in *; try discriminate; auto.
  inversion H; subst. constructor; auto.
Qed.

Lemma map_fst_combine {A B} : forall (a : list A) (b : list B),
  length a = length b -> map fst (combine a b) = a.
Proof.
  induction a as [|x a IH]; intros [|y b] Hl; simpl in *; try discriminate; auto.
  now rewrite IH by lia.
Qed.

Lemma indices_where_lt {X} (f : X -> bool) : forall l i, In i (indices_where f l) -> (i < length l)%nat.
Proof.
  intros l i H. unfold indices_where in H. apply in_map_iff in H as [[k x] [<- H]].
  apply filter_In in H as [H _]. apply in_combine_l in H. apply in_seq in H. simpl. lia.
Qed.

Lemma cover_idx_lt : forall cov j, In j (cover_idx cov) -> (j < length cov)%nat.
Proof. intros cov j. apply indices_where_lt. Qed.

(* ------------------------------------------------------------------ Q -> R conversions *)
Lemma EQ2R_vsubQ : forall a b, map Q2R (vsubQ a b) = vsub (map Q2R a) (map Q2R b).
Proof.
  unfold vsubQ. induction a as [|x a IH]; intros [|y b]; cbn [map combine vsub fst snd]; auto.
  rewrite IH, EQ2R_Qred, Q2R_minus. reflexivity.
Qed.

Lemma nth_aR : forall alpha j, nth j (aR alpha) [] = map Q2R (nth j alpha []).
Proof. intros alpha j. unfold aR. change (@nil R) with (map Q2R []) at 1. apply map_nth. Qed.

Lemma vsubQ_aR : forall alpha i j,
  map Q2R (vsubQ (nth i alpha []) (nth j alpha [])) = vsub (nth i (aR alpha) []) (nth j (aR alpha) []).
Proof. intros. now rewrite EQ2R_vsubQ, !nth_aR. Qed.

Lemma firstn_vscale : forall n s z, firstn n (vscale s z) = vscale s (firstn n z).
Proof. intros. unfold vscale. apply firstn_map. Qed.

(* ------------------------------------------------------------------ rows *)
Lemma esum_app : forall rho l1 l2, esum rho (l1 ++ l2) = esum rho l1 + esum rho l2.
Proof. intros. unfold esum. apply rsumf_app. Qed.

Lemma qe_val_qzero : qe_val qzero = 0.
Proof. unfold qzero. rewrite qe_val_of. apply EQ2R_0. Qed.

Lemma qe_val_qmone : qe_val qmone = -1.
Proof. unfold qmone. rewrite qe_val_of. apply EQ2R_m1. Qed.

Lemma affine_nth_sexpr : forall v j, Forall affine_cell v -> affine_cell (nth_sexpr v j).
Proof.
  intros v j H. unfold nth_sexpr. destruct (nth_in_or_default j v (sconst 0%Q)) as [Hin|He].
  - rewrite Forall_forall in H. now apply H.
  - rewrite He. reflexivity.
Qed.

(* the linear part of an affine expression, summed over its dict keys *)
Lemma keys_lin : forall rho e, affine_cell e ->
  rsumf (fun a => Q2R (coeff_of a e) * rho (var_id a)) (keys e) = value rho e - Q2R (off e).
Proof.
  intros rho e Ha. rewrite (value_by_keys rho e).
  change (fold_right (fun a acc => Q2R (coeff_of a e) * atom_val rho a + acc) 0 (keys e))
    with (rsumf (fun a => Q2R (coeff_of a e) * atom_val rho a) (keys e)).
  unfold affine_cell in Ha. rewrite forallb_forall in Ha.
  rewrite (rsumf_ext _ (fun a => Q2R (coeff_of a e) * rho (var_id a))
                       (fun a => Q2R (coeff_of a e) * atom_val rho a)).
  - lra.
  - intros a Hin. now rewrite (is_var_val rho a (Ha a Hin)).
Qed.

Lemma entries_esum : forall rho neg e, affine_cell e ->
  esum rho (entries neg e) = (if neg then -1 else 1) * (value rho e - Q2R (off e)).
Proof.
  intros rho neg e Ha. rewrite <- (keys_lin rho e Ha). unfold entries, esum.
  rewrite rsumf_map, <- rsumf_scale. apply rsumf_ext. intros a _. cbn [fst snd].
  rewrite qe_val_of. destruct neg; [rewrite Q2R_opp|]; lra.
Qed.

Lemma entries_row_val : forall rho e, affine_cell e ->
  rrow_val rho (entries false e, qe_of (off e)) = value rho e.
Proof. intros rho e Ha. rewrite rrow_val_pair, entries_esum, qe_val_of by assumption. lra. Qed.

Lemma entries_neg_row_val : forall rho e, affine_cell e -> off e = 0%Q ->
  rrow_val rho (entries true e, qe_of (off e)) = - value rho e.
Proof.
  intros rho e Ha H0. rewrite rrow_val_pair, entries_esum, qe_val_of by assumption.
  rewrite H0, EQ2R_0. lra.
Qed.

Lemma epi_row_val : forall rho e, rrow_val rho ([(e, qmone)], qzero) = - rho e.
Proof.
  intros. rewrite rrow_val_pair, esum_cons, esum_nil. cbn [fst snd].
  rewrite qe_val_qmone, qe_val_qzero. lra.
Qed.

(* a row of mat @ vars *)
Definition mrow (r : list Q) (ids : list Z) : sexpr :=
  {| terms := map (fun p => (AVar (snd p), fst p))
                  (filter (fun p => negb (Qeq_bool (fst p) 0%Q)) (combine r ids));
     off := 0%Q |}.

Lemma matvec_sexprs_eq : forall mat ids, matvec_sexprs mat ids = map (fun r => mrow r ids) mat.
Proof. reflexivity. Qed.

Lemma dot_combine : forall (rho : env) r ids,
  rsumf (fun p : Q * Z => Q2R (fst p) * rho (snd p)) (combine r ids) = dot (map Q2R r) (map rho ids).
Proof.
  intros rho. induction r as [|q r IH]; intros [|i ids]; simpl; auto. now rewrite IH.
Qed.

Lemma mrow_val : forall rho r ids, value rho (mrow r ids) = dot (map Q2R r) (map rho ids).
Proof.
  intros rho r ids. rewrite value_eq. unfold mrow. cbn [terms off]. rewrite EQ2R_0.
  unfold tsum. rewrite rsumf_map. cbn [fst snd atom_val].
  rewrite (rsumf_filter _ _ (fun p : Q * Z => Q2R (fst p) * rho (snd p))).
  - rewrite dot_combine. lra.
  - intros p _ Hp. apply negb_false_iff in Hp. rewrite (Qeq_bool_0_Q2R _ Hp). lra.
Qed.

Lemma mrow_affine : forall r ids, affine_cell (mrow r ids).
Proof.
  intros r ids. unfold affine_cell. apply forallb_forall. intros a Ha.
  apply keys_in_terms in Ha. unfold mrow in Ha. cbn [terms] in Ha. rewrite map_map in Ha.
  apply in_map_iff in Ha as [p [<- _]]. reflexivity.
Qed.

Lemma matvec_row_esum : forall rho r ids,
  esum rho (map (fun ci : Q * Z => (snd ci, qe_of (fst ci))) (combine r ids))
  = dot (map Q2R r) (map rho ids).
Proof.
  intros rho r ids. unfold esum. rewrite rsumf_map. cbn [fst snd]. rewrite <- dot_combine.
  apply rsumf_ext. intros p _. now rewrite qe_val_of.
Qed.

Definition mvrow (r : list Q) (ids : list Z) : rrow :=
  (map (fun ci : Q * Z => (snd ci, qe_of (fst ci))) (combine r ids), qzero).

Lemma matvec_rows_eq : forall mat ids, matvec_rows mat ids = map (fun r => mvrow r ids) mat.
Proof. reflexivity. Qed.

(* rows of the '+' block of the epigraph form *)
Lemma epi_pos_row_val : forall rho r ids e,
  rrow_val rho (fst (mvrow r ids) ++ [(e, qmone)], qzero) = dot (map Q2R r) (map rho ids) - rho e.
Proof.
  intros. rewrite rrow_val_pair, esum_app. unfold mvrow. cbn [fst].
  rewrite matvec_row_esum, esum_cons, esum_nil. cbn [fst snd].
  rewrite qe_val_qmone, qe_val_qzero. lra.
Qed.

(* rows of the domain block: A mu + b * v_i *)
Lemma dom_row_val : forall rho r ids b vi, affine_cell vi ->
  rrow_val rho (fst (mvrow r ids) ++ map (fun a => (var_id a, qe_of (b * coeff_of a vi)%Q)) (keys vi),
                qe_of (off vi * b)%Q)
  = dot (map Q2R r) (map rho ids) + value rho vi * Q2R b.
Proof.
  intros rho r ids b vi Ha. rewrite rrow_val_pair, esum_app. unfold mvrow. cbn [fst].
  rewrite matvec_row_esum, qe_val_of, Q2R_mult.
  assert (G : esum rho (map (fun a => (var_id a, qe_of (b * coeff_of a vi)%Q)) (keys vi))
              = Q2R b * (value rho vi - Q2R (off vi))).
  { rewrite <- (keys_lin rho vi Ha). unfold esum. rewrite rsumf_map, <- rsumf_scale.
    apply rsumf_ext. intros a _. cbn [fst snd]. rewrite qe_val_of, Q2R_mult. lra. }
  rewrite G. lra.
Qed.

Lemma dom_rows_vals : forall rho A ids b vi, affine_cell vi ->
  map (rrow_val rho)
      (map (fun rb : rrow * Q =>
              (fst (fst rb) ++ map (fun a => (var_id a, qe_of (snd rb * coeff_of a vi)%Q)) (keys vi),
               qe_of (off vi * snd rb)%Q))
           (combine (matvec_rows A ids) b))
  = vadd (mv (aR A) (map rho ids)) (vscale (value rho vi) (map Q2R b)).
Proof.
  intros rho A ids b vi Ha. rewrite matvec_rows_eq. revert b.
  induction A as [|r A IH]; intros [|q b]; simpl; auto.
  rewrite IH. f_equal. cbn [fst snd]. apply dom_row_val. exact Ha.
Qed.

(* ------------------------------------------------------------------ cones *)
Lemma semK_repeat_exp : forall k, semK (repeat (TExp, 3%nat) k) = repeat (CExp, 3%nat) k.
Proof. intros k. unfold semK. now rewrite map_repeat'. Qed.

Lemma in_K_exp_triples {T} (f1 f2 f3 : T -> R) : forall l k,
  in_K (repeat (CExp, 3%nat) k) (flat_map (fun t => [f1 t; f2 t; f3 t]) l)
  <-> length l = k /\ Forall (fun t => Kexp (f1 t) (f2 t) (f3 t)) l.
Proof.
  induction l as [|t l IH]; intros [|k]; simpl.
  - split; auto.
  - split; [intros [H _]; discriminate H | intros [H _]; discriminate H].
  - split; [intros H; discriminate H | intros [H _]; discriminate H].
  - rewrite IH. split.
    + intros [_ [H1 [H2 H3]]]. split; [now f_equal | now constructor].
    + intros [H1 H2]. inversion H2; subst. injection H1 as H1. auto.
Qed.

Lemma exp_block_sat {T} (g1 g2 g3 : T -> rrow) : forall rho l k,
  block_sat rho (repeat (TExp, 3%nat) k, flat_map (fun t => [g1 t; g2 t; g3 t]) l)
  <-> length l = k /\
      Forall (fun t => Kexp (rrow_val rho (g1 t)) (rrow_val rho (g2 t)) (rrow_val rho (g3 t))) l.
Proof.
  intros rho l k. unfold block_sat. cbn [fst snd]. rewrite semK_repeat_exp.
  rewrite <- (in_K_exp_triples (fun t => rrow_val rho (g1 t)) (fun t => rrow_val rho (g2 t))
                               (fun t => rrow_val rho (g3 t))).
  assert (E : map (rrow_val rho) (flat_map (fun t => [g1 t; g2 t; g3 t]) l)
              = flat_map (fun t => [rrow_val rho (g1 t); rrow_val rho (g2 t); rrow_val rho (g3 t)]) l).
  { induction l as [|t l IH]; simpl; auto. now rewrite IH. }
  now rewrite E.
Qed.

Lemma pos_block_sat : forall rho rows k, length rows = k ->
  (block_sat rho ([(TPos, k)], rows) <-> Forall (fun r => 0 <= rrow_val rho r) rows).
Proof.
  intros rho rows k H. rewrite block_single by assumption. cbn [sem_tag in_cone].
  now rewrite Forall_map.
Qed.

(* Kexp is monotone (decreasing) in its first argument *)
Lemma kexp_mono_first : forall x x' y z, x' <= x -> Kexp x y z -> Kexp x' y z.
Proof.
  intros x x' y z Hx [[Hz H]|[Hz [H1 H2]]].
  - left. split; auto. apply Rle_trans with (z * exp (x / z)); auto.
    apply Rmult_le_compat_l; [lra|]. apply exp_le.
    unfold Rdiv. apply Rmult_le_compat_r; auto. left. now apply Rinv_0_lt_compat.
  - right. repeat split; auto. lra.
Qed.

(* ------------------------------------------------------------------ more list helpers *)
Lemma Forall_iff_ext {A} (P Q : A -> Prop) : forall l,
  (forall x, In x l -> (P x <-> Q x)) -> (Forall P l <-> Forall Q l).
Proof.
  intros l H. rewrite !Forall_forall. split; intros G x Hx; apply (H x Hx); auto.
Qed.

Lemma Forall_conj {A} (P Q : A -> Prop) : forall l,
  Forall (fun x => P x /\ Q x) l <-> Forall P l /\ Forall Q l.
Proof.
  intros l. rewrite !Forall_forall. split.
  - intros H. split; intros x Hx; apply (H x Hx).
  - intros [H1 H2] x Hx. split; auto.
Qed.

Lemma combine_swap {A B} : forall (a : list A) (b : list B),
  combine b a = map (fun p => (snd p, fst p)) (combine a b).
Proof. induction a as [|x a IH]; intros [|y b]; simpl; auto. now rewrite IH. Qed.

(* ------------------------------------------------------------------ one dual AGE cone *)
Definition Vval (rho : env) (v : list sexpr) (j : nat) : R := value rho (nth_sexpr v j).

(* (alpha_i - alpha_j) . mu_i[:n] *)
Definition Mval (rho : env) (n : nat) (alpha : list (list Q)) (ids : dual_ids) (i j : nat) : R :=
  dot (map Q2R (vsubQ (nth i alpha []) (nth j alpha []))) (map rho (firstn n (d_mu ids))).

Definition dom_sat (rho : env) (v : list sexpr) (X : option domain) (i : nat) (ids : dual_ids) : Prop :=
  match X with
  | None => True
  | Some D => in_K (semK (dK D))
                   (vadd (mv (aR (dA D)) (map rho (d_mu ids))) (vscale (Vval rho v i) (map Q2R (db D))))
  end.

Definition rel_sat (rho : env) (n : nat) (alpha : list (list Q)) (v : list sexpr) (st : dsettings)
           (i : nat) (cov : list nat) (ids : dual_ids) : Prop :=
  if compact_dual st then
    Forall (fun j => Kexp (- Mval rho n alpha ids i j) (Vval rho v j) (Vval rho v i)) cov
  else
    Forall (fun ej => Kexp (- rho (fst ej)) (Vval rho v (snd ej)) (Vval rho v i) /\
                      0 <= Mval rho n alpha ids i (snd ej) - rho (fst ej))
           (combine (d_epi ids) cov).

Definition relent_part (n : nat) (alpha : list (list Q)) (v : list sexpr) (st : dsettings)
           (i : nat) (cov : list nat) (ids : dual_ids) : list block :=
  let vi := nth_sexpr v i in
  let mat := map (fun j => vsubQ (nth i alpha []) (nth j alpha [])) cov in
  let mu_n := firstn n (d_mu ids) in
  if compact_dual st then
    [ (repeat (TExp, 3%nat) (length cov),
       flat_map (fun zj => [ (entries true (fst zj), qe_of (off (fst zj)));
                             (entries false (snd zj), qe_of (off (snd zj)));
                             (entries false vi, qe_of (off vi)) ])
                (combine (matvec_sexprs mat mu_n) (map (nth_sexpr v) cov))) ]
  else
    [ (repeat (TExp, 3%nat) (length cov),
       flat_map (fun ej => [ ([(fst ej, qmone)], qzero);
                             (entries false (snd ej), qe_of (off (snd ej)));
                             (entries false vi, qe_of (off vi)) ])
                (combine (d_epi ids) (map (nth_sexpr v) cov)));
      ([(TPos, length cov)],
       map (fun re => (fst (fst re) ++ [(snd re, qmone)], qzero))
           (combine (matvec_rows mat mu_n) (d_epi ids))) ].

Definition dom_part (v : list sexpr) (X : option domain) (i : nat) (ids : dual_ids) : list block :=
  let vi := nth_sexpr v i in
  match X with
  | None => []
  | Some D =>
      [ (dK D,
         map (fun rb => (fst (fst rb) ++ map (fun a => (var_id a, qe_of (snd rb * coeff_of a vi)%Q)) (keys vi),
                         qe_of (off vi * snd rb)%Q))
             (combine (matvec_rows (dA D) (d_mu ids)) (db D))) ]
  end.

Lemma dual_age_blocks_eq : forall n lifted_n alpha v X st dummy i cov ids, cov <> [] ->
  dual_age_blocks n lifted_n alpha v X st dummy i cov ids
  = relent_part n alpha v st i cov ids ++ dom_part v X i ids.
Proof. intros. destruct cov; [contradiction | reflexivity]. Qed.

Lemma dom_part_sat : forall rho v X i ids, Forall affine_cell v ->
  (blocks_sat rho (dom_part v X i ids) <-> dom_sat rho v X i ids).
Proof.
  intros rho v X i ids Ha. unfold dom_part, dom_sat, blocks_sat. destruct X as [D|].
  - rewrite Forall_cons_iff. unfold block_sat at 1. cbn [fst snd].
    rewrite dom_rows_vals by (now apply affine_nth_sexpr). unfold Vval.
    split; [tauto | intros H; split; [exact H | constructor]].
  - split; auto.
Qed.

Lemma relent_compact_sat : forall rho n alpha v i cov ids, Forall affine_cell v ->
  (blocks_sat rho (relent_part n alpha v {| compact_dual := true |} i cov ids)
   <-> rel_sat rho n alpha v {| compact_dual := true |} i cov ids).
Proof.
  intros rho n alpha v i cov ids Ha. unfold relent_part, rel_sat, blocks_sat. cbn [compact_dual].
  rewrite Forall_cons_iff.
  rewrite matvec_sexprs_eq, map_map, combine_map_same, flat_map_map'. cbn [fst snd].
  rewrite (exp_block_sat
             (fun j => (entries true (mrow (vsubQ (nth i alpha []) (nth j alpha [])) (firstn n (d_mu ids))),
                        qe_of (off (mrow (vsubQ (nth i alpha []) (nth j alpha [])) (firstn n (d_mu ids))))))
             (fun j => (entries false (nth_sexpr v j), qe_of (off (nth_sexpr v j))))
             (fun j => (entries false (nth_sexpr v i), qe_of (off (nth_sexpr v i))))).
  split.
  - intros [[_ H] _]. revert H. apply Forall_iff_ext. intros j _.
    rewrite entries_neg_row_val by (apply mrow_affine || reflexivity).
    rewrite !entries_row_val by (now apply affine_nth_sexpr). rewrite mrow_val. reflexivity.
  - intros H. split; [split; [reflexivity|] | constructor]. revert H. apply Forall_iff_ext. intros j _.
    rewrite entries_neg_row_val by (apply mrow_affine || reflexivity).
    rewrite !entries_row_val by (now apply affine_nth_sexpr). rewrite mrow_val. reflexivity.
Qed.

Lemma relent_epi_sat : forall rho n alpha v i cov ids, Forall affine_cell v ->
  length (d_epi ids) = length cov ->
  (blocks_sat rho (relent_part n alpha v {| compact_dual := false |} i cov ids)
   <-> rel_sat rho n alpha v {| compact_dual := false |} i cov ids).
Proof.
  intros rho n alpha v i cov ids Ha Hl. unfold relent_part, rel_sat, blocks_sat. cbn [compact_dual].
  rewrite !Forall_cons_iff.
  rewrite combine_map_r, flat_map_map'. cbn [fst snd].
  rewrite (exp_block_sat
             (fun ej : Z * nat => ([(fst ej, qmone)], qzero))
             (fun ej : Z * nat => (entries false (nth_sexpr v (snd ej)), qe_of (off (nth_sexpr v (snd ej)))))
             (fun ej : Z * nat => (entries false (nth_sexpr v i), qe_of (off (nth_sexpr v i))))).
  rewrite pos_block_sat.
  2:{ rewrite map_length, combine_length, matvec_rows_eq, !map_length. lia. }
  rewrite matvec_rows_eq, map_map, combine_map_l, (combine_swap (d_epi ids) cov), !map_map, Forall_map.
  cbn [fst snd]. rewrite Forall_conj.
  assert (E1 : forall ej : Z * nat,
    Kexp (rrow_val rho ([(fst ej, qmone)], qzero))
         (rrow_val rho (entries false (nth_sexpr v (snd ej)), qe_of (off (nth_sexpr v (snd ej)))))
         (rrow_val rho (entries false (nth_sexpr v i), qe_of (off (nth_sexpr v i))))
    <-> Kexp (- rho (fst ej)) (Vval rho v (snd ej)) (Vval rho v i)).
  { intros ej. rewrite epi_row_val, !entries_row_val by (now apply affine_nth_sexpr). reflexivity. }
  assert (E2 : forall ej : Z * nat,
    0 <= rrow_val rho (fst (mvrow (vsubQ (nth i alpha []) (nth (snd ej) alpha [])) (firstn n (d_mu ids)))
                        ++ [(fst ej, qmone)], qzero)
    <-> 0 <= Mval rho n alpha ids i (snd ej) - rho (fst ej)).
  { intros ej. rewrite epi_pos_row_val. reflexivity. }
  rewrite (Forall_iff_ext _ _ _ (fun ej _ => E1 ej)), (Forall_iff_ext _ _ _ (fun ej _ => E2 ej)).
  rewrite combine_length, Hl, Nat.min_id. intuition.
Qed.

(* semantic reading of the rows of one dual AGE cone *)
Definition age_sem (rho : env) (n : nat) (alpha : list (list Q)) (v : list sexpr) (X : option domain)
           (st : dsettings) (i : nat) (cov : list nat) (ids : dual_ids) : Prop :=
  cov <> [] -> rel_sat rho n alpha v st i cov ids /\ dom_sat rho v X i ids.

Lemma dual_age_blocks_sat : forall rho n lifted_n alpha v X st dummy i cov ids,
  Forall affine_cell v -> length (d_epi ids) = length cov ->
  (blocks_sat rho (dual_age_blocks n lifted_n alpha v X st dummy i cov ids)
   <-> age_sem rho n alpha v X st i cov ids).
Proof.
  intros rho n lifted_n alpha v X st dummy i cov ids Ha Hl. unfold age_sem.
  destruct cov as [|j0 cov'] eqn:E.
  - simpl. split; [intros _ H; now contradiction H | intros _; constructor].
  - rewrite <- E in *. assert (Hne : cov <> []) by (rewrite E; discriminate).
    rewrite dual_age_blocks_eq by assumption. unfold blocks_sat. rewrite Forall_app.
    fold (blocks_sat rho (relent_part n alpha v st i cov ids)).
    fold (blocks_sat rho (dom_part v X i ids)).
    rewrite dom_part_sat by assumption.
    destruct st as [[|]].
    + rewrite relent_compact_sat by assumption. tauto.
    + rewrite relent_epi_sat by assumption. tauto.
Qed.

(* ------------------------------------------------------------------ the whole constraint *)
Definition dUI (m : nat) (c : option (list sexpr)) : list nat :=
  match c with Some cc => indices_where in_UI cc | None => seq 0 m end.
Definition dPI (c : option (list sexpr)) : list nat :=
  match c with Some cc => indices_where in_PI cc | None => [] end.
Definition dnontriv (m : nat) (c : option (list sexpr)) : list nat :=
  filter (fun i => existsb (Nat.eqb i) (dUI m c) || existsb (Nat.eqb i) (dPI c)) (seq 0 m).

Lemma dual_blocks_small : forall n lifted_n alpha v c X covers ids st dummy,
  (length alpha <= 1)%nat ->
  dual_blocks n lifted_n alpha v c X covers ids st dummy
  = [ ([(TPos, length alpha)], map (row_of dummy false) v) ].
Proof.
  intros. unfold dual_blocks. destruct (Nat.leb_spec (length alpha) 1); [reflexivity | lia].
Qed.

Lemma dual_blocks_big : forall n lifted_n alpha v c X covers ids st dummy,
  (2 <= length alpha)%nat ->
  dual_blocks n lifted_n alpha v c X covers ids st dummy
  = ([(TPos, length (dnontriv (length alpha) c))],
     map (fun i => row_of dummy false (nth_sexpr v i)) (dnontriv (length alpha) c))
    :: flat_map (fun i => dual_age_blocks n lifted_n alpha v X st dummy i (cover_idx (covers i)) (ids i))
                (dUI (length alpha) c).
Proof.
  intros. unfold dual_blocks. destruct (Nat.leb_spec (length alpha) 1); [lia | reflexivity].
Qed.

Lemma dUI_lt : forall m c i,
  match c with Some cc => length cc = m | None => True end -> In i (dUI m c) -> (i < m)%nat.
Proof.
  intros m [cc|] i H Hi; simpl in Hi.
  - apply indices_where_lt in Hi. lia.
  - apply in_seq in Hi. lia.
Qed.

Lemma dnontriv_lt : forall m c i, In i (dnontriv m c) -> (i < m)%nat.
Proof. intros m c i H. apply filter_In in H as [H _]. apply in_seq in H. lia. Qed.

Lemma dnontriv_in : forall m c i, (i < m)%nat -> In i (dUI m c) \/ In i (dPI c) -> In i (dnontriv m c).
Proof.
  intros m c i Hi H. apply filter_In. split; [apply in_seq; lia|].
  apply orb_true_iff. destruct H as [H|H]; [left | right]; apply existsb_exists; exists i;
    (split; [exact H | apply Nat.eqb_refl]).
Qed.

Lemma dual_blocks_sat_small : forall rho n lifted_n alpha v c X covers ids st dummy,
  (length alpha <= 1)%nat -> length v = length alpha -> Forall affine_cell v ->
  (blocks_sat rho (dual_blocks n lifted_n alpha v c X covers ids st dummy)
   <-> forall j, (j < length alpha)%nat -> 0 <= Vval rho v j).
Proof.
  intros rho n lifted_n alpha v c X covers ids st dummy Hm Hv Ha.
  rewrite dual_blocks_small by assumption. unfold blocks_sat.
  rewrite Forall_cons_iff, pos_block_sat by (now rewrite map_length).
  rewrite Forall_map. split.
  - intros [H _] j Hj. rewrite Forall_forall in H. unfold Vval, nth_sexpr.
    assert (Hin : In (nth j v (sconst 0%Q)) v) by (apply nth_In; lia).
    specialize (H _ Hin). rewrite row_of_val in H; [lra|].
    rewrite Forall_forall in Ha. now apply Ha.
  - intros H. split; [|constructor]. apply Forall_forall. intros e He.
    destruct (In_nth _ _ (sconst 0%Q) He) as [j [Hj <-]].
    rewrite row_of_val by (apply (affine_nth_sexpr v j Ha)).
    specialize (H j). unfold Vval, nth_sexpr in H. rewrite Hv in Hj. specialize (H Hj). lra.
Qed.

Lemma dual_blocks_sat_big : forall rho n lifted_n alpha v c X covers ids st dummy,
  (2 <= length alpha)%nat -> Forall affine_cell v ->
  (blocks_sat rho (dual_blocks n lifted_n alpha v c X covers ids st dummy)
   <-> Forall (fun i => 0 <= Vval rho v i) (dnontriv (length alpha) c) /\
       Forall (fun i => blocks_sat rho (dual_age_blocks n lifted_n alpha v X st dummy i
                                                         (cover_idx (covers i)) (ids i)))
              (dUI (length alpha) c)).
Proof.
  intros rho n lifted_n alpha v c X covers ids st dummy Hm Ha.
  rewrite dual_blocks_big by assumption. unfold blocks_sat.
  rewrite Forall_cons_iff, Forall_flat_map, pos_block_sat by (now rewrite map_length).
  rewrite Forall_map.
  rewrite (Forall_iff_ext (fun i => 0 <= rrow_val rho (row_of dummy false (nth_sexpr v i)))
                          (fun i => 0 <= Vval rho v i)).
  - reflexivity.
  - intros i _. rewrite row_of_val by (now apply affine_nth_sexpr). unfold Vval.
    split; intros; lra.
Qed.
