(* Proofs/SigRound.v — exponent rounding to the 10^-7 grid. *)
From Coq Require Import Reals List Bool Arith ZArith QArith Qreals Lra Lia Qabs.
From SageVerif Require Import Math.RVec Model.Signomial Model.SigExpr Proofs.SigSpec Proofs.SigLemmas.
Import ListNotations.
Local Open Scope Q_scope.

Definition gridp : positive := Z.to_pos grid.

Lemma round_half_even_exact : forall (n k : Z) (d : positive),
  (n = k * Zpos d)%Z -> round_half_even (n # d) = k.
Proof.
  intros n k d H. unfold round_half_even. cbn [Qnum Qden]. subst n.
  rewrite Z.div_mul by (pose proof (Pos2Z.is_pos d); lia).
  rewrite Z.mod_mul by (pose proof (Pos2Z.is_pos d); lia).
  reflexivity.
Qed.

Lemma round7_of_grid : forall q k, q == k # gridp -> round7 q = Qred (k # gridp).
Proof.
  intros [n d] k H. unfold round7. fold gridp. f_equal. f_equal.
  unfold Qmult. cbn [Qnum Qden]. apply round_half_even_exact.
  unfold Qeq in H. cbn [Qnum Qden] in H.
  rewrite Pos.mul_1_r. change (Zpos gridp) with grid in H. lia.
Qed.

Lemma round7_is_grid : forall q, exists k, round7 q = Qred (k # gridp).
Proof. intros q. eexists. unfold round7. fold gridp. reflexivity. Qed.

Definition on_grid (q : Q) : Prop := round7 q == q.

Lemma on_grid_iff : forall q, on_grid q <-> exists k, q == k # gridp.
Proof.
  intros q. unfold on_grid. split.
  - intros H. destruct (round7_is_grid q) as [k Hk]. exists k.
    rewrite <- H, Hk. apply Qred_correct.
  - intros [k Hk]. rewrite (round7_of_grid q k Hk), Qred_correct. now symmetry.
Qed.

Lemma round7_on_grid : forall q, on_grid (round7 q).
Proof.
  intros q. apply on_grid_iff. destruct (round7_is_grid q) as [k Hk]. exists k.
  rewrite Hk. apply Qred_correct.
Qed.

Lemma round7_idem : round7_idem_stmt.
Proof. intros q. apply round7_on_grid. Qed.

Lemma on_grid_compat : forall q q', q == q' -> on_grid q -> on_grid q'.
Proof.
  intros q q' E H. apply on_grid_iff in H. apply on_grid_iff. destruct H as [k Hk].
  exists k. now rewrite <- E.
Qed.

Lemma grid_plus : forall (k1 k2 : Z) (g : positive), (k1 # g) + (k2 # g) == (k1 + k2) # g.
Proof.
  intros. unfold Qeq, Qplus. cbn [Qnum Qden]. rewrite Pos2Z.inj_mul. ring.
Qed.

Lemma grid_scale : forall (p k : Z) (g : positive), inject_Z p * (k # g) == (p * k) # g.
Proof.
  intros. unfold Qeq, Qmult, inject_Z. cbn [Qnum Qden]. rewrite Pos.mul_1_l. reflexivity.
Qed.

Lemma on_grid_plus : forall a b, on_grid a -> on_grid b -> on_grid (Qred (a + b)).
Proof.
  intros a b Ha Hb. apply on_grid_iff in Ha, Hb. destruct Ha as [k1 H1], Hb as [k2 H2].
  apply on_grid_iff. exists (k1 + k2)%Z. rewrite Qred_correct, H1, H2. apply grid_plus.
Qed.

Lemma on_grid_scale : forall p a, on_grid a -> on_grid (Qred (inject_Z p * a)).
Proof.
  intros p a Ha. apply on_grid_iff in Ha. destruct Ha as [k1 H1].
  apply on_grid_iff. exists (p * k1)%Z. rewrite Qred_correct, H1. apply grid_scale.
Qed.

Lemma on_grid_0 : on_grid 0.
Proof. apply on_grid_iff. exists 0%Z. reflexivity. Qed.

Lemma on_grid_1 : on_grid 1.
Proof. apply on_grid_iff. exists grid. reflexivity. Qed.

(* rows *)
Lemma on_grid_row_round : forall r, on_grid_row (round_row r).
Proof.
  intros r. unfold on_grid_row, round_row. apply Forall_forall. intros q Hq.
  apply in_map_iff in Hq. destruct Hq as [q' [<- _]]. apply round7_on_grid.
Qed.

Lemma round_row_length : forall r, length (round_row r) = length r.
Proof. intros. unfold round_row. apply map_length. Qed.

Lemma round_row_eqb : forall r, on_grid_row r -> qrow_eqb (round_row r) r = true.
Proof.
  induction r; simpl; intros H; auto. inversion H; subst.
  apply andb_true_iff. split; auto. now apply Qeq_bool_iff.
Qed.

Lemma round_row_rowR : forall r, on_grid_row r -> rowR (round_row r) = rowR r.
Proof. intros. now apply qrow_eqb_rowR, round_row_eqb. Qed.

Lemma on_grid_row_vaddq : forall a b, on_grid_row a -> on_grid_row b -> on_grid_row (vaddq a b).
Proof.
  induction a; destruct b; simpl; intros Ha Hb; try constructor.
  - inversion Ha; inversion Hb; subst. now apply on_grid_plus.
  - inversion Ha; inversion Hb; subst. now apply IHa.
Qed.

Lemma on_grid_row_scale : forall p a, on_grid_row a -> on_grid_row (map (fun x => Qred (inject_Z p * x)) a).
Proof.
  induction a; simpl; intros Ha; constructor; inversion Ha; subst.
  - now apply on_grid_scale.
  - now apply IHa.
Qed.

Lemma on_grid_row_zeros : forall n, on_grid_row (repeat 0 n).
Proof. induction n; simpl; constructor; auto. apply on_grid_0. Qed.
