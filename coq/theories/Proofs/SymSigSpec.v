(* Proofs/SymSigSpec.v — statements of the C13 theorems: arithmetic on Signomials/Polynomials whose
   coefficients are coniclifts Expressions commutes with substituting values for the Variables. *)
From Coq Require Import Reals List Bool Arith ZArith QArith Qreals Lra.
From SageVerif Require Import Math.RVec Model.Expr Model.Signomial Model.SymSig
                              Proofs.ExprSpec Proofs.SigSpec Proofs.SymCorrSpec Proofs.SigLemmas.
Import ListNotations.
Open Scope R_scope.

(* value of a symbolic-coefficient function after substituting rho, at the point described by the
   character chi (chi a = exp(a.x) for signomials, prod x^a for polynomials) *)
Definition sevalchi (chi : qrow -> R) (rho : env) (f : ssig) : R :=
  fold_right (fun t acc => value rho (snd t) * chi (fst t) + acc) 0 f.

Definition wfs (n : nat) (f : ssig) : Prop :=
  Forall (fun t => length (fst t) = n /\ on_grid_row (fst t)) f.
Definition widths (n : nat) (f : ssig) : Prop := Forall (fun t => length (fst t) = n) f.

(* ---- zero detection never looks at values: a coefficient is dropped iff it is identically zero ---- *)
Definition iszero_iff_identically_zero_stmt : Prop :=
  forall e, is_affine e = true ->
    (s_iszero e = true <-> forall rho, value rho e = 0).

(* without_zeros removes exactly the terms with identically-zero coefficient (or returns the
   single-term zero function when all are), and never changes the function.  Stated for what the
   constructor produces: canonical (rounded) pairwise distinct rows.  (A first version of this
   statement without the canonical-rows hypotheses was refuted in Coq: SymSigOps.without_zeros_spec_s_stmt_false.) *)
Definition without_zeros_spec_s_stmt : Prop :=
  forall n chi rho f, character n chi -> wfs n f -> NoDupR (map fst f) ->
    Forall (fun t => round_row (fst t) = fst t) f ->
    sevalchi chi rho (s_without_zeros n f) = sevalchi chi rho f /\
    (forall t, In t (s_without_zeros n f) -> (2 <= length f)%nat ->
       (s_iszero (snd t) = false /\ In t f) \/ (s_without_zeros n f = s_mk [(repeat 0%Q n, sconst 0%Q)])).

(* REFUTED (kept for the record): the same statement without canonical, pairwise distinct rows.  wfs only asks
   for rows on the grid up to Qeq, so the constructor may re-round or merge rows. *)
Definition without_zeros_spec_s_loose_stmt : Prop :=
  forall n chi rho f, character n chi -> wfs n f ->
    sevalchi chi rho (s_without_zeros n f) = sevalchi chi rho f /\
    (forall t, In t (s_without_zeros n f) -> (2 <= length f)%nat ->
       (s_iszero (snd t) = false /\ In t f) \/ (s_without_zeros n f = s_mk [(repeat 0%Q n, sconst 0%Q)])).

(* ---- constructor and arithmetic commute with substitution ---- *)
Definition s_mk_eval_stmt : Prop :=
  forall n chi rho f, character n chi -> widths n f ->
    wfs n (s_mk f) /\
    sevalchi chi rho (s_mk f) = sevalchi chi rho (map (fun t => (round_row (fst t), snd t)) f).

Definition s_add_eval_stmt : Prop :=
  forall n chi rho f g, character n chi -> wfs n f -> wfs n g -> f <> [] -> g <> [] ->
    sevalchi chi rho (s_add n f g) = sevalchi chi rho f + sevalchi chi rho g /\ wfs n (s_add n f g) /\ s_add n f g <> [].

Definition s_sub_eval_stmt : Prop :=
  forall n chi rho f g, character n chi -> wfs n f -> wfs n g -> f <> [] -> g <> [] ->
    sevalchi chi rho (s_sub n f g) = sevalchi chi rho f - sevalchi chi rho g /\ wfs n (s_sub n f g) /\ s_sub n f g <> [].

Definition s_mul_eval_stmt : Prop :=
  forall n chi rho f g, character n chi -> wfs n f -> wfs n g -> f <> [] -> g <> [] ->
    product_defined f g = true ->
    sevalchi chi rho (s_mul_sig n f g) = sevalchi chi rho f * sevalchi chi rho g /\
    wfs n (s_mul_sig n f g) /\ s_mul_sig n f g <> [].

Definition s_scale_eval_stmt : Prop :=
  forall n chi rho q f, character n chi -> wfs n f -> f <> [] ->
    sevalchi chi rho (s_scale n q f) = Q2R q * sevalchi chi rho f /\ wfs n (s_scale n q f) /\ s_scale n q f <> [].

Definition s_sum_eval_stmt : Prop :=
  forall n chi rho fs, character n chi -> Forall (wfs n) fs -> Forall (fun f => f <> []) fs -> fs <> [] ->
    sevalchi chi rho (s_sum fs) = fold_right (fun f acc => sevalchi chi rho f + acc) 0 fs /\ wfs n (s_sum fs) /\ s_sum fs <> [].

(* ---- any composition ---- *)
Fixpoint ysem (chi : qrow -> R) (rho : env) (t : symexp) : R :=
  match t with
  | YNum rows => evalchi chi (map (fun r => (round_row (fst r), snd r)) rows)
  | YSym rows => sevalchi chi rho (map (fun r => (round_row (fst r), snd r)) rows)
  | YAdd a b => ysem chi rho a + ysem chi rho b
  | YSub a b => ysem chi rho a - ysem chi rho b
  | YMul a b => ysem chi rho a * ysem chi rho b
  | YScale a q => ysem chi rho a * Q2R q
  | YAddE a e => ysem chi rho a + value rho e
  | YSubE a e => ysem chi rho a - value rho e
  | YMulE a e => ysem chi rho a * value rho e
  | YSum l => fold_right (fun a acc => ysem chi rho a + acc) 0 l
  | YWithoutZeros a => ysem chi rho a
  end.

Fixpoint wfy (n : nat) (t : symexp) : Prop :=
  match t with
  | YNum rows => rows <> [] /\ Forall (fun r => length (fst r) = n) rows
  | YSym rows => rows <> [] /\ Forall (fun r => length (fst r) = n) rows
  | YAdd a b | YSub a b | YMul a b => wfy n a /\ wfy n b
  | YScale a _ | YAddE a _ | YSubE a _ | YMulE a _ | YWithoutZeros a => wfy n a
  | YSum l => (fix all (l : list symexp) : Prop := match l with [] => True | a :: l' => wfy n a /\ all l' end) l
  end.

(* compute symbolically, then substitute  =  substitute, then compute (pointwise), for every
   assignment rho of the Variables and every tree *)
Definition subst_commutes_stmt : Prop :=
  forall poly n chi rho t f, character n chi -> wfy n t -> chi (repeat 0%Q n) = 1 ->
    seval poly n t = Some f ->
    sevalchi chi rho f = ysem chi rho t.
