(* Proofs/PolyDomSpec.v — C15 for polynomials: sage_polys.infer_domain returns a set (in y = log|x| space) that contains
   log|x| for every real x without zero coordinates satisfying ALL the given polynomial constraints, and that is exactly
   the set cut out by the kept constraints.  Reduction to the signomial theorems of ConGenSpec through the fact that a
   polynomial all of whose exponents are even naturals depends on |x| only. *)
From Coq Require Import Reals List Bool Arith ZArith QArith Qreals Lra.
From SageVerif Require Import Math.RVec Model.Signomial Model.SigExpr Model.SolverForms Model.ConGen Model.PolyDom
                              Proofs.SigSpec Proofs.RelaxSpec Proofs.ConGenSpec.
Import ListNotations.
Open Scope R_scope.

Definition logabs (x : list R) : list R := map (fun v => ln (Rabs v)) x.
Definition nonzero_coords (x : list R) : Prop := Forall (fun v => v <> 0) x.

(* 1. a monomial with even natural exponents is the exponential of its exponent vector against log|x| *)
Definition even_mono_logabs_stmt : Prop :=
  forall (a : qrow) (x : list R),
    even_row a = true -> length a = length x -> nonzero_coords x ->
    monoR a x = exp (dot (rowR a) (logabs x)).

(* 2. hence an even polynomial evaluated at x is its (alpha, c) data read as a signomial, evaluated at log|x| *)
Definition even_poly_as_sig_stmt : Prop :=
  forall n (g : qsig) (x : list R),
    all_even g = true -> Forall (fun t => length (fst t) = n) g -> length x = n -> nonzero_coords x ->
    poly_evalR g x = sig_evalR g (logabs x).

(* 3. selection: when no error is raised the kept inequalities are exactly the even ones with one positive coefficient, in
   order; an error is raised iff some even constraint has no positive coefficient and does not vanish at the origin *)
Definition gp_poly_selection_stmt : Prop :=
  forall gs,
    (forall r, valid_gp_poly_ineqs gs = Ok r ->
       r = filter (fun g => all_even g && Nat.eqb (count (fun t => is_pos (snd t)) g) 1) gs) /\
    ((exists e, valid_gp_poly_ineqs gs = Err e) <->
       exists g, In g gs /\ all_even g = true /\ count (fun t => is_pos (snd t)) g = 0%nat /\
                 Qeq_bool (value_at_zero g) 0%Q = false).

(* an even polynomial without a positive coefficient that does not vanish at the origin is negative everywhere off the
   coordinate hyperplanes... and at the origin: refusing it is sound (the feasible set is empty) *)
Definition gp_poly_error_sound_stmt : Prop :=
  forall n (g : qsig) (x : list R),
    all_even g = true -> Forall (fun t => length (fst t) = n) g -> length x = n -> nonzero_coords x ->
    count (fun t => is_pos (snd t)) g = 0%nat ->
    poly_evalR g x <= 0.

(* 4. the inferred PolyDomain contains log|x| for every x (no zero coordinate) satisfying all given constraints *)
Definition poly_infer_contains_stmt : Prop :=
  forall n gts eqs gg ge cg ce lc (x : list R),
    Forall (fwf n) gts -> Forall (fwf n) eqs -> Forall no_zero_coeff gts -> Forall no_zero_coeff eqs ->
    length x = n -> nonzero_coords x ->
    poly_infer_domain n gts eqs = Ok (gg, ge, (cg, ce, lc)) ->
    Forall (fun h => length h = 2%nat) ce ->
    Forall (fun g => 0 <= poly_evalR g x) gts -> Forall (fun h => poly_evalR h x = 0) eqs ->
    Forall (fun l => lcon_sat l (logabs x)) lc.

(* 5. and it is exactly the set cut out by the kept polynomial constraints *)
Definition poly_infer_exact_stmt : Prop :=
  forall n gts eqs gg ge cg ce lc (x : list R),
    Forall (fwf n) gts -> Forall (fwf n) eqs -> Forall no_zero_coeff gts -> Forall no_zero_coeff eqs ->
    length x = n -> nonzero_coords x ->
    poly_infer_domain n gts eqs = Ok (gg, ge, (cg, ce, lc)) ->
    Forall (fun h => length h = 2%nat) ce ->
    (Forall (fun l => lcon_sat l (logabs x)) lc <->
     (Forall (fun g => 0 <= poly_evalR g x) gg /\ Forall (fun h => poly_evalR h x = 0) ge)).
