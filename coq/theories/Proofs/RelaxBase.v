(* Proofs/RelaxBase.v — C03, part 1: the modulator is positive, the coefficient cells handed to the
   primal SAGE cone denote (f - gamma) * t^ell, and the primal-form bound.  Everything is obtained by
   composing the C12 / C13 / C16 / C01 theorems; nothing about the builders is re-specified. *)
From Coq Require Import Reals List Bool Arith ZArith QArith Qreals Lra Lia.
From SageVerif Require Import Math.RVec Model.Expr Model.Signomial Model.SymSig Model.SolverForms Model.SymCorr
  Model.Compile Model.Sage Model.RelaxSig
  Proofs.ExprSpec Proofs.ExprAtoms Proofs.ExprScalar
  Proofs.SigSpec Proofs.SigLemmas Proofs.SigRound Proofs.SigMk Proofs.SigOps Proofs.SigPow
  Proofs.SymCorrSpec Proofs.SymSigSpec Proofs.SymSigBag Proofs.SymSigOps
  Proofs.FormsSpec Proofs.CompileSpec Proofs.SageSpec Proofs.RelaxSpec.
From SageVerif Require Proofs.SymCorrProofs Proofs.SagePrimalProofs.
Import ListNotations.
Local Open Scope R_scope.

(* ------------------------------------------------------------------ *)
(* the signomial character at x *)
Definition chix (x : list R) : qrow -> R := fun a => exp (dot (rowR a) x).

Lemma chix_char : forall n x, length x = n -> character n (chix x).
Proof. intros n x H. exact (SymCorrProofs.sig_character n x H). Qed.

Lemma chix_resp : forall x a b, qrow_eqb a b = true -> chix x a = chix x b.
Proof. intros x a b H. unfold chix. now rewrite (qrow_eqb_rowR a b H). Qed.

Lemma chix_zeros : forall n x, chix x (repeat 0%Q n) = 1.
Proof. intros. unfold chix. rewrite dot_zeros. apply exp_0. Qed.

Lemma chix_rzeros : forall n x, chix x (round_row (repeat 0%Q n)) = 1.
Proof.
  intros. rewrite <- (chix_zeros n x). apply chix_resp, round_row_eqb, on_grid_row_zeros.
Qed.

Lemma sigeval_sevalchi : forall rho x (L : ssig),
  sigeval (aR (map fst L)) (cvals rho (map snd L)) x = sevalchi (chix x) rho L.
Proof.
  intros rho x L. induction L as [|[a c] L IH]; [reflexivity|].
  unfold aR, cvals, sevalchi in *. cbn [map fst snd sigeval fold_right]. rewrite IH. reflexivity.
Qed.

Lemma evalchi_chix : forall x t, evalchi (chix x) t = sig_evalR t x.
Proof. reflexivity. Qed.

(* ------------------------------------------------------------------ *)
(* numeric functions seen as symbolic ones *)
Lemma of_numeric_wfs : forall n t, wfsig n t -> wfs n (of_numeric t).
Proof.
  intros n t H. unfold wfs, wfsig, of_numeric in *. rewrite Forall_forall in *. intros u Hu.
  apply in_map_iff in Hu as [v [<- Hv]]. cbn [fst]. now apply H.
Qed.

Lemma of_numeric_sev : forall chi rho t, sevalchi chi rho (of_numeric t) = evalchi chi t.
Proof.
  intros chi rho t. induction t as [|[a c] t IH]; [reflexivity|].
  unfold sevalchi, evalchi, of_numeric in *. cbn [map fst snd fold_right].
  rewrite IH, value_sconst. reflexivity.
Qed.

Lemma of_numeric_nonempty : forall t : qsig, t <> [] -> of_numeric t <> [].
Proof. intros [|u t] H; [congruence|discriminate]. Qed.

Lemma of_numeric_rows : forall t : qsig, map fst (of_numeric t) = map fst t.
Proof. intros. unfold of_numeric. rewrite map_map. reflexivity. Qed.

Lemma numeric_pairs_ok : forall (F : ssig) (t : qsig) t1 t2,
  In t1 F -> In t2 (of_numeric t) -> s_mul_ok (snd t1) (snd t2) = true.
Proof.
  intros F t t1 t2 _ H2. unfold of_numeric in H2. apply in_map_iff in H2 as [u [<- _]].
  cbn [snd]. unfold s_mul_ok. rewrite is_constant_sconst. apply orb_true_r.
Qed.

Lemma product_defined_numeric : forall (F : ssig) (t : qsig), product_defined F (of_numeric t) = true.
Proof.
  intros F t. unfold product_defined. apply forallb_forall. intros t1 H1.
  apply forallb_forall. intros t2 H2. now apply (numeric_pairs_ok F t).
Qed.

(* ------------------------------------------------------------------ *)
(* the Lagrangian f - gamma *)
Definition gam (g : Z) : sexpr := sscale (-1)%Q (svar g).

Lemma value_gam : forall rho g, value rho (gam g) = - rho g.
Proof. intros. unfold gam. rewrite value_sscale, value_svar, EQ2R_m1. lra. Qed.

Lemma lag0_unfold : forall n f g,
  lagrangian0 n f g =
  without_zeros (sconst 0%Q) sadd sconst s_iszero n
    (sig_sum (sconst 0%Q) sadd [s_mk (of_numeric f); const_ssig n (gam g)]).
Proof. reflexivity. Qed.

Lemma smk_numeric_wfs : forall n f, wfsig n f -> wfs n (s_mk (of_numeric f)).
Proof.
  intros n f H. apply s_mk_wf. apply of_numeric_wfs in H.
  unfold widths, wfs in *. rewrite Forall_forall in *. intros u Hu. now apply H.
Qed.

Lemma lag0_ok : forall n f g, wfsig n f -> f <> [] ->
  wfs n (lagrangian0 n f g) /\ lagrangian0 n f g <> [] /\ NoDupR (map fst (lagrangian0 n f g)).
Proof.
  intros n f g Hw Hne. split; [|split].
  - exact (gadd_wf (sconst 0%Q) sadd sconst s_iszero n _ _ (smk_numeric_wfs n f Hw) (const_ssig_wf n (gam g))).
  - apply (gadd_nonempty (sconst 0%Q) sadd sconst s_iszero n).
    + apply s_mk_nonempty. now apply of_numeric_nonempty.
    + apply const_ssig_nonempty.
  - rewrite lag0_unfold. apply gwz_nodup. apply gsum_nodup2.
Qed.

(* evaluation of the Lagrangian at ANY map chi that respects row equality (not only characters) *)
Lemma lag0_ev : forall n f g chi rho, (forall a b, qrow_eqb a b = true -> chi a = chi b) ->
  wfsig n f ->
  sevalchi chi rho (lagrangian0 n f g) = evalchi chi f - rho g * chi (round_row (repeat 0%Q n)).
Proof.
  intros n f g chi rho Hr Hw.
  change (sevalchi chi rho (lagrangian0 n f g))
    with (gev (value rho) chi (sig_add (sconst 0%Q) sadd sconst s_iszero n
                                 (s_mk (of_numeric f)) (const_ssig n (gam g)))).
  rewrite (gadd_eval (sconst 0%Q) sadd (value rho) chi (v_zero rho) (value_sadd rho) Hr
             sconst s_iszero (v_iszero rho) (v_zero rho) n _ _
             (smk_numeric_wfs n f Hw) (const_ssig_wf n (gam g))).
  unfold s_mk.
  rewrite (gmk_eval_grid (sconst 0%Q) sadd (value rho) chi (v_zero rho) (value_sadd rho) Hr n
             (of_numeric f) (of_numeric_wfs n f Hw)).
  rewrite const_ssig_eq.
  change (gev (value rho) chi (of_numeric f)) with (sevalchi chi rho (of_numeric f)).
  rewrite of_numeric_sev. unfold gev. cbn [fold_right fst snd]. rewrite value_gam. lra.
Qed.

(* ------------------------------------------------------------------ *)
(* without_zeros keeps a well-formed function well formed *)
Lemma fwf_wz : forall n f, fwf n f -> fwf n (q_without_zeros n f).
Proof.
  intros n f (Hw & Hd & Hne). destruct (without_zeros_ok n f Hw Hd) as [(Hw' & Hd' & _) Hne'].
  split; [|split]; auto.
Qed.

(* ------------------------------------------------------------------ *)
(* the modulator *)
Definition msupp (n : nat) (f : qsig) (g : Z) (ms : option (list qrow)) : list qrow :=
  match ms with Some r => r | None => map fst (lagrangian0 n f g) end.

Lemma modulator_unfold : forall n f g ms ell,
  modulator n f g ms ell = q_pow_nat n (ones_sig (msupp n f g ms)) ell.
Proof. reflexivity. Qed.

Lemma msupp_ok : forall n f g ms, wfsig n f -> f <> [] -> supp_ok n ms ->
  msupp n f g ms <> [] /\ Forall (fun r => length r = n /\ on_grid_row r) (msupp n f g ms).
Proof.
  intros n f g [rows|] Hw Hne Hs; cbn [msupp].
  - exact Hs.
  - destruct (lag0_ok n f g Hw Hne) as (H1 & H2 & _). split.
    + intros E. apply map_eq_nil in E. contradiction.
    + unfold wfs in H1. rewrite Forall_forall in *. intros r Hr.
      apply in_map_iff in Hr as [u [<- Hu]]. now apply H1.
Qed.

Lemma sig_nonneg_terms : forall (F : qsig) x, Forall (fun t => 0 < Q2R (snd t)) F -> 0 <= sig_evalR F x.
Proof.
  intros F x H. induction H as [|t F Ht HF IH]; [simpl; lra|].
  rewrite sig_evalR_cons. pose proof (exp_pos (dot (rowR (fst t)) x)).
  assert (0 < Q2R (snd t) * exp (dot (rowR (fst t)) x)) by (apply Rmult_lt_0_compat; auto). lra.
Qed.

Lemma sig_pos_terms : forall (F : qsig) x, F <> [] -> Forall (fun t => 0 < Q2R (snd t)) F -> 0 < sig_evalR F x.
Proof.
  intros [|t F] x Hne H; [congruence|]. inversion H; subst.
  rewrite sig_evalR_cons. pose proof (exp_pos (dot (rowR (fst t)) x)).
  assert (0 < Q2R (snd t) * exp (dot (rowR (fst t)) x)) by (apply Rmult_lt_0_compat; auto).
  pose proof (sig_nonneg_terms F x H3). lra.
Qed.

Lemma ones_good : forall n rows, rows <> [] -> Forall (fun r => length r = n /\ on_grid_row r) rows ->
  good n (ones_sig rows) /\ forall x, 0 < sig_evalR (ones_sig rows) x.
Proof.
  intros n rows Hne Hr. unfold ones_sig. split.
  - split; [|split].
    + apply mk_wf. rewrite Forall_forall in *. intros t Ht.
      apply in_map_iff in Ht as [r [<- Hin]]. cbn [fst]. now apply Hr.
    + apply mk_distinct.
    + apply mk_nonempty. destruct rows; [congruence|discriminate].
  - intros x. rewrite mk_eval. apply sig_pos_terms.
    + destruct rows; [congruence|discriminate].
    + unfold rnd. rewrite Forall_forall. intros t Ht.
      apply in_map_iff in Ht as [u [<- Hu]]. apply in_map_iff in Hu as [r [<- _]].
      cbn [snd]. rewrite EQ2R_1. lra.
Qed.

Lemma modulator_good : forall n f g ms ell, wfsig n f -> f <> [] -> supp_ok n ms ->
  good n (modulator n f g ms ell) /\ forall x, 0 < sig_evalR (modulator n f g ms ell) x.
Proof.
  intros n f g ms ell Hw Hne Hs. rewrite modulator_unfold.
  destruct (msupp_ok n f g ms Hw Hne Hs) as [H1 H2].
  destruct (ones_good n _ H1 H2) as [Hg Hp]. split.
  - exact (proj2 (pow_nat_full n ell _ [] Hg)).
  - intros x. rewrite (proj1 (pow_nat_full n ell _ x Hg)). apply pow_lt, Hp.
Qed.

Lemma modulator_pos : modulator_pos_stmt.
Proof.
  intros n f g ms ell x (Hw & _ & Hne) Hs _. apply modulator_good; auto.
Qed.

(* ------------------------------------------------------------------ *)
(* the modulated Lagrangian *)
Definition mlag (n : nat) (f' : qsig) (g : Z) (t : qsig) : ssig :=
  s_mul_sig n (lagrangian0 n f' g) (of_numeric t).

Lemma sig_primal_unfold : forall n f ell g ms,
  sig_primal_m n f ell g ms =
  mlag n (q_without_zeros n f) g (modulator n (q_without_zeros n f) g ms ell).
Proof. reflexivity. Qed.

Lemma sig_dual_unfold : forall n f ell g ms,
  sig_dual_m n f ell g ms =
  (let f' := q_without_zeros n f in
   let t := modulator n f' g ms ell in
   (mlag n f' g t, relative_coeff_vector t (map fst (mlag n f' g t)),
    relative_coeff_vector (q_mul n f' t) (map fst (mlag n f' g t)))).
Proof. reflexivity. Qed.

Lemma mlag_ev : forall n f' g t rho x, length x = n -> wfsig n f' -> f' <> [] -> wfsig n t -> t <> [] ->
  sevalchi (chix x) rho (mlag n f' g t) = (sig_evalR f' x - rho g) * sig_evalR t x.
Proof.
  intros n f' g t rho x Hx Hw Hne Hwt Hnt. unfold mlag.
  destruct (lag0_ok n f' g Hw Hne) as (L1 & L2 & _).
  destruct (s_mul_eval n (chix x) rho (lagrangian0 n f' g) (of_numeric t) (chix_char n x Hx) L1
              (of_numeric_wfs n t Hwt) L2 (of_numeric_nonempty t Hnt)
              (product_defined_numeric _ _)) as [E _].
  rewrite E, (lag0_ev n f' g (chix x) rho (chix_resp x) Hw), of_numeric_sev, chix_rzeros,
    !evalchi_chix. ring.
Qed.

Lemma primal_coeffs_denote : primal_coeffs_denote_stmt.
Proof.
  intros n f g ms ell rho x Hf Hs Hx L. unfold L. clear L.
  rewrite sig_primal_unfold, sigeval_sevalchi.
  destruct (fwf_wz n f Hf) as (Hw' & Hd' & Hne').
  destruct (modulator_good n (q_without_zeros n f) g ms ell Hw' Hne' Hs) as [(Hwt & _ & Hnt) _].
  rewrite (mlag_ev n _ g _ rho x Hx Hw' Hne' Hwt Hnt).
  rewrite (without_zeros_eval n f x (proj1 Hf)). reflexivity.
Qed.

(* ------------------------------------------------------------------ *)
(* PRIMAL FORM *)
Lemma sig_primal_sound : sig_primal_sound_stmt.
Proof.
  intros n lifted_n f g ms ell X covers ids st dummy bs rho Hf Hs L Hwf Hpb Hsat z Hz.
  pose proof (SagePrimalProofs.primal_rows_sound n lifted_n (map fst L) (map snd L) X covers ids st dummy bs rho
                Hwf Hpb Hsat z Hz) as Hnn.
  unfold sig_at in Hnn.
  assert (Hx : length (firstn n z) = n).
  { destruct Hz as [Hlz _]. destruct Hwf as (_ & _ & _ & Hdom & _).
    rewrite firstn_length, Hlz. destruct X as [D|]; cbn [dom_ok] in Hdom.
    - destruct Hdom as [Hle _]. lia.
    - lia. }
  pose proof (primal_coeffs_denote n f g ms ell rho (firstn n z) Hf Hs Hx) as E.
  cbv zeta in E. fold L in E. rewrite E in Hnn.
  destruct (fwf_wz n f Hf) as (Hw' & _ & Hne').
  pose proof (proj2 (modulator_good n (q_without_zeros n f) g ms ell Hw' Hne' Hs) (firstn n z)) as Hpos.
  set (T := sig_evalR (modulator n (q_without_zeros n f) g ms ell) (firstn n z)) in *.
  set (F := sig_evalR f (firstn n z)) in *.
  destruct (Rle_or_lt (rho g) F) as [Hle|Hlt]; [exact Hle|exfalso].
  assert ((F - rho g) * T < 0).
  { replace ((F - rho g) * T) with (- ((rho g - F) * T)) by ring.
    assert (0 < (rho g - F) * T) by (apply Rmult_lt_0_compat; lra). lra. }
  lra.
Qed.
