(* Proofs/ProblemSpec.v — statements of the C09 theorems about Model/ProblemSM.v and the
   generated decision tables. *)
From Coq Require Import ZArith QArith List Bool Lia.
From SageVerif Require Import Gen.GenEcosParse Gen.GenProblemSolve Model.ProblemSM.
Import ListNotations.

(* ---- the regenerated tables say what the property requires, for EVERY integer flag ---- *)
Definition parse_table_stmt : Prop :=
  forall flag : Z,
    ecos_parse flag =
    if (flag =? 0)%Z then (Solved, VPcost, true)
    else if (flag =? 1)%Z then (Solved, VInf, false)
    else if (flag =? 2)%Z then (Solved, VNegInf, false)
    else if (flag =? 10)%Z then (Inaccurate, VPcost, true)
    else if (flag =? 11)%Z then (Inaccurate, VInf, false)
    else if (flag =? 12)%Z then (Inaccurate, VNegInf, false)
    else (Failed, VNan, false).

Definition post_table_stmt : Prop :=
  (forall is_min, solve_value_post Failed is_min = PNan) /\
  (forall st, st <> Failed -> solve_value_post st true = PKeep /\ solve_value_post st false = PNegate) /\
  objective_negated true = false /\ objective_negated false = true.

(* ---- one solve ---- *)
Definition comps (p : problem) : list (Z * Z) := flat_map pv_comps (p_vars p).

(* the same scalar variable always sits in the same column (mirrored entries of a symmetric
   Variable repeat an id with the same column) *)
Definition consistent (p : problem) : Prop :=
  forall id c1 c2, In (id, c1) (comps p) -> In (id, c2) (comps p) -> c1 = c2.

(* columns are -1 (not participating) or valid positions of the solver vector *)
Definition cols_ok (p : problem) (x : list Q) : Prop :=
  forall id c, In (id, c) (comps p) -> (-1 <= c < Z.of_nat (length x))%Z.

Definition expected_comp (x : list Q) (col : Z) : Q :=
  if (col =? -1)%Z then 0%Q else nth (Z.to_nat col) x 0%Q.

Definition loads (flag : Z) : bool := (flag =? 0)%Z || (flag =? 10)%Z.

(* the (status, value) pair required by the property, given the sense and the solver's answer *)
Definition expected_outcome (is_min : bool) (ans : answer) : outcome :=
  let f := a_flag ans in
  if (f =? 0)%Z then Out Solved (if is_min then a_pcost ans else xneg (a_pcost ans))
  else if (f =? 10)%Z then Out Inaccurate (if is_min then a_pcost ans else xneg (a_pcost ans))
  else if (f =? 1)%Z then Out Solved (if is_min then PInf else NInf)       (* infeasible *)
  else if (f =? 11)%Z then Out Inaccurate (if is_min then PInf else NInf)
  else if (f =? 2)%Z then Out Solved (if is_min then NInf else PInf)       (* unbounded *)
  else if (f =? 12)%Z then Out Inaccurate (if is_min then NInf else PInf)
  else Out Failed NaN.

Definition solve_spec_stmt : Prop :=
  forall s p ans s' o,
    p_vars p <> [] -> comps p <> [] -> consistent p ->
    (loads (a_flag ans) = true -> cols_ok p (a_x ans)) ->
    solve_step s p ans = (s', o) ->
    o = expected_outcome (p_min p) ans /\
    (* optimal / near-optimal: every component holds x[col], or 0 when it does not participate *)
    (loads (a_flag ans) = true ->
       forall id c, In (id, c) (comps p) -> lookup s' id = Some (Fin (expected_comp (a_x ans) c))) /\
    (* infeasible, unbounded, failed: every component is NaN *)
    (loads (a_flag ans) = false ->
       forall id c, In (id, c) (comps p) -> lookup s' id = Some NaN) /\
    (* scalar variables of other problems are untouched *)
    (forall id, (forall c, ~ In (id, c) (comps p)) -> lookup s' id = lookup s id).

(* ---- histories: after ANY sequence of solves (shared variables, failures interleaved with
   successes), the variables of the most recently solved problem reflect that solve only ---- *)
Definition solve_history_stmt : Prop :=
  forall ops s0 p ans,
    p_vars p <> [] -> comps p <> [] -> consistent p ->
    (loads (a_flag ans) = true -> cols_ok p (a_x ans)) ->
    (* earlier solves did not raise *)
    let '(s1, outs1) := run ops s0 in
    let '(s2, outs2) := run (ops ++ [(p, ans)]) s0 in
    outs2 = outs1 ++ [expected_outcome (p_min p) ans] /\
    (loads (a_flag ans) = true ->
       forall id c, In (id, c) (comps p) -> lookup s2 id = Some (Fin (expected_comp (a_x ans) c))) /\
    (loads (a_flag ans) = false ->
       forall id c, In (id, c) (comps p) -> lookup s2 id = Some NaN).

(* ---- the reported value is the objective at the loaded values, less the dropped constant ---- *)
Fixpoint qdot (a b : list Q) : Q :=
  match a, b with
  | x :: a', y :: b' => x * y + qdot a' b'
  | _, _ => 0
  end.

Definition obj_at (s : vstate) (obj : objective) : option Q :=
  fold_right (fun ic acc => match acc, lookup s (fst ic) with
                            | Some a, Some (Fin v) => Some (snd ic * v + a)
                            | _, _ => None
                            end) (Some 0%Q) (fst obj).

Definition value_is_objective_stmt : Prop :=
  forall s p ans s' o n svid2col obj c off,
    p_vars p <> [] -> comps p <> [] -> consistent p -> cols_ok p (a_x ans) ->
    a_flag ans = 0%Z -> length (a_x ans) = n ->
    (* the objective's scalar variables belong to the problem, with the same columns *)
    (forall id co, In (id, co) (fst obj) -> In (id, svid2col id) (comps p)) ->
    NoDup (map fst (fst obj)) ->
    (forall id1 id2 c1 c2, In (id1, c1) (fst obj) -> In (id2, c2) (fst obj) -> svid2col id1 = svid2col id2 -> id1 = id2) ->
    compile_objective n svid2col obj = Some (c, off) ->
    (* the solver's pcost is the value of the vector it was given, at x *)
    a_pcost ans = Fin (qdot (problem_c (p_min p) c) (a_x ans)) ->
    solve_step s p ans = (s', o) ->
    exists v ov, o = Out Solved (Fin v) /\ obj_at s' obj = Some ov /\ Qeq v ov.
