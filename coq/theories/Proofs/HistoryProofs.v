(* Proofs/HistoryProofs.v — C11: proofs of the statements of Proofs/HistorySpec.v about
   Model/History.v (recompilation of shared constraint objects, generation check, settings snapshot). *)
From Coq Require Import Reals List Bool Arith ZArith QArith Qreals Lra Lia.
From SageVerif Require Import Math.RVec Model.Expr Model.SolverForms Model.Compile Model.History
  Gen.GenSettings Proofs.ExprSpec Proofs.FormsSpec Proofs.CompileSpec Proofs.ExprAtoms
  Proofs.CompileRows Proofs.CompileBlocks Proofs.CompileMain Proofs.HistorySpec.
Import ListNotations.
Close Scope R_scope.
Close Scope Q_scope.

(* ================================================================== settings *)
Lemma setdefault_get : setdefault_get_stmt.
Proof. intros s k v k'. destruct k, k'; reflexivity. Qed.

Lemma override_beats_default : override_beats_default_stmt.
Proof.
  intros s ov k. induction ov as [|kv ov IH] using rev_ind.
  - reflexivity.
  - rewrite fold_left_app, rev_app_distr.
    cbn [fold_left].
    rewrite setdefault_get.
    change (rev [kv] ++ rev ov) with (kv :: rev ov).
    cbn [filter]. destruct kv as [k0 v0]. cbn [fst snd].
    destruct (skey_eqb k0 k); [reflexivity | exact IH].
Qed.

Lemma sstep_keeps : forall ops st k x,
  nth_error (snd st) k = Some x -> nth_error (snd (fold_left sstep ops st)) k = Some x.
Proof.
  induction ops as [|o ops IH]; intros st k x H; [exact H|].
  cbn [fold_left]. apply IH. destruct o as [k0 v|ov]; cbn [sstep snd]; [exact H|].
  rewrite nth_error_app1; [exact H|]. apply nth_error_Some. rewrite H. discriminate.
Qed.

Lemma settings_snapshot : settings_snapshot_stmt.
Proof.
  intros ops1 ov ops2 k. subst k. unfold srun. rewrite fold_left_app.
  cbn [fold_left]. apply sstep_keeps. cbn [sstep snd].
  rewrite nth_error_app2 by apply Nat.le_refl. rewrite Nat.sub_diag. reflexivity.
Qed.

(* ================================================================== generation check *)
Lemma generations_ok_iff : generations_ok_iff_stmt.
Proof.
  intros gens. destruct gens as [|g rest]; cbn [generations_ok].
  - split; [intros _ g h []| reflexivity].
  - rewrite forallb_forall. split.
    + intros H a b Ha Hb.
      assert (E : forall x, In x (g :: rest) -> x = g).
      { intros x [->|Hx]; [reflexivity|]. apply H in Hx. apply Z.eqb_eq in Hx. auto. }
      rewrite (E a Ha), (E b Hb). reflexivity.
    + intros H x Hx. apply Z.eqb_eq. apply H; [left|right]; auto.
Qed.

(* ================================================================== the old behaviour (F5) *)
Lemma recompile_old_refuted : recompile_old_refuted_stmt.
Proof.
  set (epi := fun _ : atom => 7%Z).
  set (cs := [ {| cc_op := OpLe;
                  cc_cells := [ {| terms := [(ANl KAbs [([(0%Z, 1%Q)], 0%Q)], 1%Q)]; off := (-1)%Q |} ];
                  cc_subst := [] |} ]).
  exists epi, 9%Z, cs.
  exists (fst (compile_step_old epi 9%Z cs)), (snd (compile_step_old epi 9%Z cs)).
  exists (fst (compile_step_old epi 9%Z (fst (compile_step_old epi 9%Z cs)))),
         (snd (compile_step_old epi 9%Z (fst (compile_step_old epi 9%Z cs)))).
  split; [reflexivity|]. split; [reflexivity|].
  vm_compute. discriminate.
Qed.

(* ================================================================== substitution is idempotent *)
Lemma subst_terms_not_nl : forall epi e t, In t (terms (subst_cell epi e)) -> is_nl (fst t) = false.
Proof.
  intros epi e t H. cbn [subst_cell terms] in H. apply in_map_iff in H.
  destruct H as [u [<- _]]. destruct (is_nl (fst u)) eqn:E; [reflexivity | exact E].
Qed.

Lemma subst_cell_fix : forall epi e,
  (forall t, In t (terms e) -> is_nl (fst t) = false) -> subst_cell epi e = e.
Proof.
  intros epi [ts o] H. unfold subst_cell. cbn [terms off] in *. f_equal.
  rewrite <- (map_id ts) at 2. apply map_ext_in. intros t Ht. rewrite (H t Ht). reflexivity.
Qed.

Lemma subst_cell_idem : forall epi e, subst_cell epi (subst_cell epi e) = subst_cell epi e.
Proof. intros. apply subst_cell_fix. apply subst_terms_not_nl. Qed.

Lemma filter_none : forall A (p : A -> bool) l, (forall x, In x l -> p x = false) -> filter p l = [].
Proof.
  intros A p l. induction l as [|a l IH]; intros H; [reflexivity|].
  cbn [filter]. rewrite (H a (or_introl eq_refl)). apply IH. intros x Hx. apply H. right; exact Hx.
Qed.

Lemma nl_keys_subst : forall epi cells, nl_keys (map (subst_cell epi) cells) = [].
Proof.
  intros epi cells. unfold nl_keys. apply filter_none. intros a Ha.
  apply in_flat_map in Ha. destruct Ha as [e' [He' Ha]].
  apply in_map_iff in He'. destruct He' as [e [<- _]].
  apply keys_in_terms in Ha. apply in_map_iff in Ha. destruct Ha as [t [<- Ht]].
  apply (subst_terms_not_nl epi e t Ht).
Qed.

Lemma step_atoms_step : forall epi cs, step_atoms (map (step_con epi) cs) = step_atoms cs.
Proof.
  intros epi cs. unfold step_atoms. f_equal.
  induction cs as [|c cs IH]; [reflexivity|].
  cbn [map flat_map]. rewrite IH. f_equal.
  cbn [step_con cc_subst cc_cells]. rewrite nl_keys_subst. apply app_nil_r.
Qed.

(* ================================================================== blocks that differ in the dummy id *)
Definition blk_eq (b1 b2 : block) : Prop :=
  fst b1 = fst b2 /\ forall rho, map (rrow_val rho) (snd b1) = map (rrow_val rho) (snd b2).

Lemma row_of_dummy : forall rho d1 d2 neg e,
  rrow_val rho (row_of d1 neg e) = rrow_val rho (row_of d2 neg e).
Proof.
  intros. unfold row_of. destruct (keys e); [|reflexivity].
  rewrite !row_const_val. reflexivity.
Qed.

Lemma aff_row_dummy_eq : forall rho d1 d2 x,
  rrow_val rho (aff_row_dummy d1 x) = rrow_val rho (aff_row_dummy d2 x).
Proof. intros. rewrite !aff_row_dummy_val. reflexivity. Qed.

Lemma row_const_eq : forall rho d1 d2 q,
  rrow_val rho ([(d1, qe_of 0%Q)], qe_of q) = rrow_val rho ([(d2, qe_of 0%Q)], qe_of q).
Proof. intros. rewrite !row_const_val. reflexivity. Qed.

Lemma econ_block_dummy : forall d1 d2 c, blk_eq (econ_block d1 c) (econ_block d2 c).
Proof.
  intros. split; [reflexivity|]. intros rho. unfold econ_block. cbn [snd].
  rewrite !map_map. apply map_ext. intros e. apply row_of_dummy.
Qed.

Lemma epi_block_dummy : forall d1 d2 t a, blk_eq (epi_block d1 t a) (epi_block d2 t a).
Proof.
  intros d1 d2 t a. destruct a as [i|k args]; [split; reflexivity|].
  destruct k.
  - (* exp *)
    destruct args as [|x [|y r]]; try (split; reflexivity).
    split; [reflexivity|]. intros rho. cbn [epi_block snd map].
    rewrite (aff_row_dummy_eq rho d1 d2), (row_const_eq rho d1 d2). reflexivity.
  - (* abs *)
    destruct args as [|x [|y r]]; split; reflexivity.
  - (* pos *)
    destruct args as [|x [|y r]]; split; reflexivity.
  - (* relent *)
    destruct args as [|x [|y [|z r]]]; try (split; reflexivity).
    split; [reflexivity|]. intros rho. cbn [epi_block snd map].
    rewrite (aff_row_dummy_eq rho d1 d2 x), (aff_row_dummy_eq rho d1 d2 y). reflexivity.
  - (* norm2 *)
    split; [reflexivity|]. intros rho. cbn [epi_block snd map]. f_equal.
    rewrite !map_map. apply map_ext. intros x. apply aff_row_dummy_eq.
Qed.

Lemma blk_eq_sat : forall rho b1 b2, blk_eq b1 b2 -> (block_sat rho b1 <-> block_sat rho b2).
Proof. intros rho b1 b2 [H1 H2]. unfold block_sat. rewrite H1, (H2 rho). reflexivity. Qed.

Lemma blk_eq_same : forall b1 b2, Forall2 blk_eq b1 b2 -> same_system b1 b2.
Proof.
  intros b1 b2 H. induction H as [|x y l l' Hxy Hl IH].
  - split; [reflexivity|]. intros rho. reflexivity.
  - destruct IH as [I1 I2]. split.
    + cbn [map]. rewrite I1. destruct Hxy as [-> _]. reflexivity.
    + intros rho. unfold blocks_sat in *. rewrite !Forall_cons_iff.
      rewrite (blk_eq_sat rho x y Hxy), (I2 rho). reflexivity.
Qed.

Lemma Forall2_map_same : forall A B (R : B -> B -> Prop) (f g : A -> B) l,
  (forall x, R (f x) (g x)) -> Forall2 R (map f l) (map g l).
Proof. intros A B R f g l H. induction l; cbn [map]; constructor; auto. Qed.

Lemma same_system_refl : forall b, same_system b b.
Proof. intros b. split; [reflexivity|]. intros rho. reflexivity. Qed.

Lemma same_system_sym : forall a b, same_system a b -> same_system b a.
Proof. intros a b [H1 H2]. split; [symmetry; exact H1|]. intros rho. symmetry. apply H2. Qed.

Lemma same_system_trans : forall a b c, same_system a b -> same_system b c -> same_system a c.
Proof.
  intros a b c [H1 H2] [H3 H4]. split; [rewrite H1; exact H3|].
  intros rho. rewrite (H2 rho). apply H4.
Qed.

(* ================================================================== recompilation *)
Lemma step_blocks_same : forall epi d1 d2 cs,
  same_system (snd (compile_step epi d1 cs)) (snd (compile_step epi d2 (map (step_con epi) cs))).
Proof.
  intros epi d1 d2 cs. unfold compile_step. cbn [snd].
  apply blk_eq_same. apply Forall2_app.
  - rewrite !map_map. apply Forall2_map_same. intros c.
    cbn [step_con cc_op cc_cells]. rewrite map_map.
    rewrite (map_ext _ _ (subst_cell_idem epi)). apply econ_block_dummy.
  - rewrite step_atoms_step. apply Forall2_map_same. intros a. apply epi_block_dummy.
Qed.

Lemma recompile_stable : recompile_stable_stmt.
Proof.
  intros epi d1 d2 cs cs1 b1 cs2 b2 H1 H2. split.
  - pose proof (step_blocks_same epi d1 d2 cs) as H.
    rewrite H1 in H. unfold compile_step in H1. injection H1 as E1 _.
    rewrite E1 in H. rewrite H2 in H. exact H.
  - clear. symmetry. rewrite <- (map_id cs2) at 2. apply map_ext.
    intros [o c s]. cbn [cc_op cc_cells cc_subst]. rewrite app_nil_r. reflexivity.
Qed.

Lemma recompile_later : forall epi ds cs d b,
  In b (recompile epi ds (map (step_con epi) cs)) -> same_system (snd (compile_step epi d cs)) b.
Proof.
  intros epi ds. induction ds as [|d' ds IH]; intros cs d b H; [destruct H|].
  cbn [recompile] in H. unfold compile_step in H at 1. destruct H as [<-|H].
  - apply (step_blocks_same epi d d' cs).
  - apply same_system_trans with (snd (compile_step epi d' (map (step_con epi) cs))).
    + apply step_blocks_same.
    + apply IH. exact H.
Qed.

Lemma recompile_all_equal : recompile_all_equal_stmt.
Proof.
  intros epi d ds cs b H. cbn [recompile] in H. unfold compile_step in H at 1.
  destruct H as [<-|H].
  - apply same_system_refl.
  - apply recompile_later with ds. exact H.
Qed.

(* ================================================================== first compilation *)
Lemma filter_flat_map : forall A B (p : B -> bool) (f : A -> list B) l,
  filter p (flat_map f l) = flat_map (fun x => filter p (f x)) l.
Proof.
  intros A B p f l. induction l as [|a l IH]; [reflexivity|].
  cbn [flat_map]. rewrite filter_app, IH. reflexivity.
Qed.

Lemma dedup_filter_nl : forall l acc,
  fold_left (fun acc a => if mem_atom a acc then acc else a :: acc) (filter is_nl l) acc =
  fold_left nstep l acc.
Proof.
  induction l as [|a l IH]; intros acc; [reflexivity|].
  cbn [filter fold_left]. unfold nstep at 2. destruct (is_nl a); cbn [andb fold_left].
  - rewrite IH. destruct (mem_atom a acc); reflexivity.
  - apply IH.
Qed.

Lemma step_atoms_fresh : forall cs, step_atoms (map fresh_con cs) = nl_atoms cs.
Proof.
  intros cs. rewrite nl_atoms_eq. unfold step_atoms, dedup_atoms. f_equal.
  rewrite <- dedup_filter_nl. f_equal.
  unfold all_keys. rewrite filter_flat_map.
  induction cs as [|c cs IH]; [reflexivity|].
  cbn [map flat_map]. rewrite IH. reflexivity.
Qed.

Lemma first_compile_is_compile : first_compile_is_compile_stmt.
Proof.
  intros epi dummy cs bs H. unfold all_blocks in H. cbn [smem_blocks] in H.
  injection H as <-. rewrite app_nil_r.
  unfold compile_step. cbn [snd]. rewrite step_atoms_fresh. f_equal.
  rewrite !map_map. apply map_ext. intros c. reflexivity.
Qed.
