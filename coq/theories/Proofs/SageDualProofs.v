(* Proofs/SageDualProofs.v — C02 / C19(dual): the rows of a dual SAGE constraint (Model/Sage.v,
   dual_blocks) admit every moment vector of X, force v >= 0, and their compact and epigraph
   formats have the same projection.  Also exports [dual_age_facts], the reading of satisfied dual
   rows used by the weak-duality pairing (C03).  Statements in Proofs/SageSpec.v. *)
From Coq Require Import Reals List Bool Arith ZArith QArith Qreals Lra Lia.
From SageVerif Require Import Math.RVec Model.Expr Model.SolverForms Model.Compile Model.Sage
  Proofs.MathSpec Proofs.MathProofs Proofs.ExprSpec Proofs.FormsSpec Proofs.FormsLemmas
  Proofs.CompileSpec Proofs.ExprAtoms Proofs.ExprScalar Proofs.CompileRows Proofs.CompileBlocks
  Proofs.SageSpec Proofs.SageDualRows.
Import ListNotations.
Open Scope R_scope.

(* ------------------------------------------------------------------ the rows, read semantically *)
Lemma dual_wf_epi_len : forall n lifted_n alpha v c X covers ids,
  dual_wf n lifted_n alpha v c X covers ids ->
  forall i, (i < length alpha)%nat -> length (d_epi (ids i)) = length (cover_idx (covers i)).
Proof. intros n lifted_n alpha v c X covers ids (_ & _ & _ & _ & _ & H) i Hi. apply (H i Hi). Qed.

Lemma dual_wf_UI_lt : forall n lifted_n alpha v c X covers ids,
  dual_wf n lifted_n alpha v c X covers ids ->
  forall i, In i (dUI (length alpha) c) -> (i < length alpha)%nat.
Proof. intros n lifted_n alpha v c X covers ids (_ & _ & _ & _ & Hc & _) i. now apply dUI_lt. Qed.

Lemma dual_wf_cover_lt : forall n lifted_n alpha v c X covers ids,
  dual_wf n lifted_n alpha v c X covers ids ->
  forall i j, (i < length alpha)%nat -> In j (cover_idx (covers i)) -> (j < length alpha)%nat.
Proof.
  intros n lifted_n alpha v c X covers ids (_ & _ & _ & _ & _ & H) i j Hi Hj.
  destruct (H i Hi) as [[Hl _] _]. apply cover_idx_lt in Hj. lia.
Qed.

Lemma dual_blocks_sem : forall rho n lifted_n alpha v c X covers ids st dummy,
  dual_wf n lifted_n alpha v c X covers ids -> (2 <= length alpha)%nat ->
  (blocks_sat rho (dual_blocks n lifted_n alpha v c X covers ids st dummy)
   <-> Forall (fun i => 0 <= Vval rho v i) (dnontriv (length alpha) c) /\
       Forall (fun i => age_sem rho n alpha v X st i (cover_idx (covers i)) (ids i))
              (dUI (length alpha) c)).
Proof.
  intros rho n lifted_n alpha v c X covers ids st dummy Hwf Hm.
  assert (Ha : Forall affine_cell v) by apply Hwf.
  rewrite dual_blocks_sat_big by assumption.
  rewrite (Forall_iff_ext
             (fun i => blocks_sat rho (dual_age_blocks n lifted_n alpha v X st dummy i
                                                        (cover_idx (covers i)) (ids i)))
             (fun i => age_sem rho n alpha v X st i (cover_idx (covers i)) (ids i))).
  - reflexivity.
  - intros i Hi. apply dual_age_blocks_sat; auto.
    eapply dual_wf_epi_len; eauto. eapply dual_wf_UI_lt; eauto.
Qed.

Lemma Mval_real : forall rho n alpha ids i j,
  Mval rho n alpha ids i j
  = dot (vsub (nth i (aR alpha) []) (nth j (aR alpha) [])) (firstn n (map rho (d_mu ids))).
Proof. intros. unfold Mval. now rewrite vsubQ_aR, firstn_map. Qed.

(* both formats give the compact facts (epigraph: by monotonicity of Kexp) *)
Lemma rel_sat_kexp : forall rho n alpha v st i cov ids, length (d_epi ids) = length cov ->
  rel_sat rho n alpha v st i cov ids ->
  Forall (fun j => Kexp (- Mval rho n alpha ids i j) (Vval rho v j) (Vval rho v i)) cov.
Proof.
  intros rho n alpha v [[|]] i cov ids Hl H; unfold rel_sat in H; cbn [compact_dual] in H; auto.
  apply (Forall_combine_snd _ (d_epi ids) cov Hl).
  revert H. apply Forall_impl. intros [e j] [H1 H2]. cbn [fst snd] in *.
  apply kexp_mono_first with (x := - rho e); [lra | exact H1].
Qed.

(* ------------------------------------------------------------------ v >= 0 *)
Lemma dual_rows_v_nonneg : dual_rows_v_nonneg_stmt.
Proof.
  intros n lifted_n alpha v X covers ids st dummy rho Hm Hv Ha H j Hj.
  apply dual_blocks_sat_big in H as [H _]; auto.
  rewrite Forall_forall in H. apply (H j). apply dnontriv_in; auto.
  left. simpl. apply in_seq. lia.
Qed.

(* ------------------------------------------------------------------ the bridging lemma (C03) *)
(* What a solution rho of the dual rows gives: v >= 0 on U_I and P_I, and for every i in U_I with a
   nonempty cover, with mu = mu_i(rho) and v_j = v_j(rho):
   (v_j, v_i, (alpha_i - alpha_j).mu[:n]) in the exponential cone for j in the cover, and
   A mu + v_i b in K when X is conic.  Holds for both row formats. *)
Lemma dual_age_facts :
  forall n lifted_n alpha v c X covers ids st dummy rho,
    dual_wf n lifted_n alpha v c X covers ids -> (2 <= length alpha)%nat ->
    blocks_sat rho (dual_blocks n lifted_n alpha v c X covers ids st dummy) ->
    (forall j, (j < length alpha)%nat -> In j (dUI (length alpha) c) \/ In j (dPI c) ->
       0 <= value rho (nth j v (sconst 0%Q))) /\
    (forall i, In i (dUI (length alpha) c) -> cover_idx (covers i) <> [] ->
       let mu := map rho (d_mu (ids i)) in
       let vi := value rho (nth i v (sconst 0%Q)) in
       (forall j, In j (cover_idx (covers i)) ->
          Kexp (- dot (vsub (nth i (aR alpha) []) (nth j (aR alpha) [])) (firstn n mu))
               (value rho (nth j v (sconst 0%Q))) vi) /\
       match X with
       | None => True
       | Some D => in_K (semK (dK D)) (vadd (mv (aR (dA D)) mu) (vscale vi (map Q2R (db D))))
       end).
Proof.
  intros n lifted_n alpha v c X covers ids st dummy rho Hwf Hm H.
  apply dual_blocks_sem in H as [H1 H2]; auto. split.
  - intros j Hj Hin. rewrite Forall_forall in H1. apply (H1 j). now apply dnontriv_in.
  - intros i Hi Hne mu vi. rewrite Forall_forall in H2. destruct (H2 i Hi Hne) as [R D]. split.
    + intros j Hj. apply rel_sat_kexp in R.
      * rewrite Forall_forall in R. specialize (R j Hj). rewrite Mval_real in R. exact R.
      * eapply dual_wf_epi_len; eauto. eapply dual_wf_UI_lt; eauto.
    + exact D.
Qed.

(* the same facts in the shape of MathSpec.age_pairing_stmt (dual side), over the cover *)
Lemma dual_age_facts_Forall2 :
  forall n lifted_n alpha v c X covers ids st dummy rho i,
    dual_wf n lifted_n alpha v c X covers ids -> (2 <= length alpha)%nat ->
    blocks_sat rho (dual_blocks n lifted_n alpha v c X covers ids st dummy) ->
    In i (dUI (length alpha) c) -> cover_idx (covers i) <> [] ->
    Forall2 (fun aj vj => Kexp (- dot (vsub (nth i (aR alpha) []) aj) (firstn n (map rho (d_mu (ids i)))))
                               vj (value rho (nth i v (sconst 0%Q))))
            (map (fun j => nth j (aR alpha) []) (cover_idx (covers i)))
            (map (fun j => value rho (nth j v (sconst 0%Q))) (cover_idx (covers i))).
Proof.
  intros n lifted_n alpha v c X covers ids st dummy rho i Hwf Hm H Hi Hne.
  destruct (dual_age_facts _ _ _ _ _ _ _ _ _ _ _ Hwf Hm H) as [_ F].
  destruct (F i Hi Hne) as [F1 _]. clear F. revert F1.
  generalize (cover_idx (covers i)). induction l as [|j l IH]; intros F1; simpl; constructor.
  - apply F1. now left.
  - apply IH. intros j' Hj'. apply F1. now right.
Qed.

(* zero-padded exponents (as the primal rows use them, width lifted_n) against the whole mu *)
Lemma vsub_repeat0 : forall k, vsub (repeat 0 k) (repeat 0 k) = repeat 0 k.
Proof. induction k as [|k IH]; simpl; auto. rewrite IH. f_equal. lra. Qed.

Lemma dot_pad : forall L a b mu, length a = length b ->
  dot (vsub (map Q2R (pad L a)) (map Q2R (pad L b))) mu
  = dot (vsub (map Q2R a) (map Q2R b)) (firstn (length a) mu).
Proof.
  intros L a b mu Hl. unfold pad. rewrite <- Hl, !map_app, !map_repeat', EQ2R_0.
  rewrite f_vsub_app by (now rewrite !map_length). rewrite vsub_repeat0.
  set (x := vsub (map Q2R a) (map Q2R b)).
  assert (Hx : length x = length a).
  { unfold x. rewrite f_length_vsub; now rewrite !map_length. }
  rewrite (dot_firstn_skipn (length a) (x ++ _) mu).
  rewrite <- Hx, firstn_app_len, skipn_app_len, f_dot_repeat0_l. lra.
Qed.

Lemma nth_aR_pad : forall L alpha j, (j < length alpha)%nat ->
  nth j (aR (map (pad L) alpha)) [] = map Q2R (pad L (nth j alpha [])).
Proof.
  intros L alpha j Hj. rewrite nth_aR. f_equal.
  rewrite (nth_indep _ [] (pad L [])) by (now rewrite map_length). apply map_nth.
Qed.

(* the dual-side hypotheses of MathSpec.age_pairing_stmt at width lifted_n *)
Lemma dual_age_facts_padded :
  forall n lifted_n alpha v c X covers ids st dummy rho i,
    dual_wf n lifted_n alpha v c X covers ids -> (2 <= length alpha)%nat ->
    blocks_sat rho (dual_blocks n lifted_n alpha v c X covers ids st dummy) ->
    In i (dUI (length alpha) c) -> cover_idx (covers i) <> [] ->
    let alpha_l := aR (map (pad lifted_n) alpha) in
    let mu := map rho (d_mu (ids i)) in
    let vi := value rho (nth i v (sconst 0%Q)) in
    length mu = lifted_n /\ 0 <= vi /\
    Forall2 (fun aj vj => Kexp (- dot (vsub (nth i alpha_l []) aj) mu) vj vi)
            (map (fun j => nth j alpha_l []) (cover_idx (covers i)))
            (map (fun j => value rho (nth j v (sconst 0%Q))) (cover_idx (covers i))) /\
    match X with
    | None => True
    | Some D => in_K (semK (dK D)) (vadd (mv (aR (dA D)) mu) (vscale vi (map Q2R (db D))))
    end.
Proof.
  intros n lifted_n alpha v c X covers ids st dummy rho i Hwf Hm H Hi Hne alpha_l mu vi.
  assert (Him : (i < length alpha)%nat) by (eapply dual_wf_UI_lt; eauto).
  destruct (dual_age_facts _ _ _ _ _ _ _ _ _ _ _ Hwf Hm H) as [F0 F].
  destruct (F i Hi Hne) as [F1 F2]. clear F. fold mu vi in F1, F2.
  pose proof Hwf as (Hal & _ & _ & _ & _ & Hids).
  split; [|split; [|split]].
  - unfold mu. rewrite map_length. apply (Hids i Him).
  - apply F0; auto.
  - assert (G : forall j, In j (cover_idx (covers i)) ->
      Kexp (- dot (vsub (nth i alpha_l []) (nth j alpha_l [])) mu)
           (value rho (nth j v (sconst 0%Q))) vi).
    { intros j Hj. assert (Hjm : (j < length alpha)%nat) by (eapply dual_wf_cover_lt; eauto).
      unfold alpha_l. rewrite !nth_aR_pad by assumption.
      rewrite Forall_forall in Hal.
      assert (Li : length (nth i alpha []) = n) by (apply Hal, nth_In; exact Him).
      assert (Lj : length (nth j alpha []) = n) by (apply Hal, nth_In; exact Hjm).
      rewrite dot_pad by lia. rewrite Li, <- !nth_aR. now apply F1. }
    clear F1. revert G. generalize (cover_idx (covers i)).
    induction l as [|j l IH]; intros G; simpl; constructor.
    + apply G. now left.
    + apply IH. intros j' Hj'. apply G. now right.
  - exact F2.
Qed.

(* ------------------------------------------------------------------ moment vectors are admitted *)
Lemma map_eq_combine {A B C} (g : A -> C) (f : B -> C) : forall (a : list A) (b : list B),
  map g a = map f b -> forall x y, In (x, y) (combine a b) -> g x = f y.
Proof.
  induction a as [|x0 a IH]; intros [|y0 b] H x y Hin; simpl in *; try contradiction.
  injection H as H0 H. destruct Hin as [E|Hin]; [injection E as <- <-; exact H0 | eauto].
Qed.

Lemma dual_rows_admit_moments : dual_rows_admit_moments_stmt.
Proof.
  intros n lifted_n alpha v c X covers ids st dummy rho t z Hwf Ht [Hz HX] [MV MA].
  pose proof Hwf as (Hal & Hv & Ha & Hdom & Hc & Hids).
  assert (Hnl : (n <= lifted_n)%nat).
  { destruct X as [D|]; simpl in Hdom; [apply Hdom | lia]. }
  assert (Hx : length (firstn n z) = n) by (rewrite firstn_length; lia).
  assert (Vpos : forall j, (j < length alpha)%nat -> 0 <= Vval rho v j).
  { intros j Hj. unfold Vval, nth_sexpr. rewrite (MV j Hj).
    apply Rmult_le_pos; [exact Ht | left; apply exp_pos]. }
  assert (Hrow : forall j, (j < length alpha)%nat -> length (nth j (aR alpha) []) = n).
  { intros j Hj. rewrite nth_aR, map_length. rewrite Forall_forall in Hal. apply Hal.
    apply nth_In. exact Hj. }
  destruct (le_lt_dec (length alpha) 1) as [Hm|Hm].
  { apply dual_blocks_sat_small; auto. }
  apply dual_blocks_sem; auto. split.
  - apply Forall_forall. intros i Hi. apply Vpos. eapply dnontriv_lt; eauto.
  - apply Forall_forall. intros i Hi Hne.
    assert (Him : (i < length alpha)%nat) by (eapply dual_wf_UI_lt; eauto).
    destruct (MA i Him) as [Mmu Mepi].
    fold (nth_sexpr v i) in Mmu, Mepi. fold (Vval rho v i) in Mmu, Mepi.
    assert (HM : forall j, Mval rho n alpha (ids i) i j
                 = dot (vsub (nth i (aR alpha) []) (nth j (aR alpha) []))
                       (vscale (Vval rho v i) (firstn n z))).
    { intros j. now rewrite Mval_real, Mmu, firstn_vscale. }
    assert (HK : forall j, (j < length alpha)%nat ->
      Kexp (- dot (vsub (nth i (aR alpha) []) (nth j (aR alpha) []))
                  (vscale (Vval rho v i) (firstn n z))) (Vval rho v j) (Vval rho v i)).
    { intros j Hj. unfold Vval, nth_sexpr. rewrite (MV j Hj), (MV i Him).
      apply (dual_moment_row n); auto. }
    split.
    + destruct st as [[|]]; unfold rel_sat; cbn [compact_dual]; apply Forall_forall.
      * intros j Hj. rewrite HM. apply HK. eapply dual_wf_cover_lt; eauto.
      * intros [e j] Hej. cbn [fst snd].
        assert (Hj : (j < length alpha)%nat).
        { eapply dual_wf_cover_lt; eauto. eapply in_combine_r; eauto. }
        rewrite (map_eq_combine _ _ _ _ Mepi e j Hej), HM. split; [now apply HK | lra].
    + unfold dom_sat. destruct X as [D|]; [|exact I]. rewrite Mmu.
      destruct Hdom as (_ & HA & Hb & _ & _).
      apply (dual_moment_domain lifted_n); auto.
      * unfold wfm, aR. rewrite Forall_map. revert HA. apply Forall_impl. intros r Hr.
        now rewrite map_length.
      * unfold aR. now rewrite !map_length.
Qed.

(* ------------------------------------------------------------------ compact <-> epigraph *)
Fixpoint lookupZ (id : Z) (l : list (Z * R)) : option R :=
  match l with
  | [] => None
  | (k, x) :: l' => if Z.eqb id k then Some x else lookupZ id l'
  end.

Lemma lookupZ_none : forall id l, ~ In id (map fst l) -> lookupZ id l = None.
Proof.
  intros id. induction l as [|[k x] l IH]; simpl; intros H; auto.
  destruct (Z.eqb_spec id k) as [->|Hne]; [exfalso; apply H; now left|].
  apply IH. intros Hin. apply H. now right.
Qed.

Lemma lookupZ_some : forall l, NoDup (map fst l) -> forall k x, In (k, x) l -> lookupZ k l = Some x.
Proof.
  induction l as [|[k0 x0] l IH]; simpl; intros Hnd k x Hin; [contradiction|].
  inversion Hnd as [|? ? Hk0 Hnd']; subst. destruct Hin as [E|Hin].
  - injection E as <- <-. now rewrite Z.eqb_refl.
  - destruct (Z.eqb_spec k k0) as [->|Hne].
    + exfalso. apply Hk0. apply in_map_iff. exists (k0, x). auto.
    + now apply IH.
Qed.

(* the values (alpha_i - alpha_j).mu_i[:n] given to the epigraph variables *)
Definition epi_assoc (rho : env) (n : nat) (alpha : list (list Q)) (covers : nat -> list bool)
           (ids : nat -> dual_ids) (l : list nat) : list (Z * R) :=
  flat_map (fun i => combine (d_epi (ids i))
                             (map (fun j => Mval rho n alpha (ids i) i j) (cover_idx (covers i)))) l.

Definition extend_epi (rho : env) (n : nat) (alpha : list (list Q)) (covers : nat -> list bool)
           (ids : nat -> dual_ids) : env :=
  fun id => match lookupZ id (epi_assoc rho n alpha covers ids (seq 0 (length alpha))) with
            | Some x => x
            | None => rho id
            end.

Lemma epi_assoc_keys : forall rho n alpha covers ids l,
  (forall i, In i l -> length (d_epi (ids i)) = length (cover_idx (covers i))) ->
  map fst (epi_assoc rho n alpha covers ids l) = flat_map (fun i => d_epi (ids i)) l.
Proof.
  intros rho n alpha covers ids. unfold epi_assoc.
  induction l as [|i l IH]; intros H; simpl; auto.
  rewrite map_app, IH by (intros; apply H; now right).
  rewrite map_fst_combine; [reflexivity|]. rewrite map_length. apply H. now left.
Qed.

(* agreement of two assignments off the epigraph variables *)
Definition agree_off_epi (m : nat) (ids : nat -> dual_ids) (rho rho' : env) : Prop :=
  forall id, (forall i, (i < m)%nat -> ~ In id (d_epi (ids i))) -> rho' id = rho id.

Definition epi_fresh_for (m : nat) (v : list sexpr) (ids : nat -> dual_ids) : Prop :=
  forall i e, (i < m)%nat -> In e (d_epi (ids i)) ->
    (forall k, (k < m)%nat -> ~ In e (d_mu (ids k))) /\
    (forall j, (j < m)%nat -> ~ In e (scalar_variable_ids (nth j v (sconst 0%Q)))).

Lemma agree_transfer : forall m v ids rho rho',
  epi_fresh_for m v ids -> (length v <= m)%nat -> agree_off_epi m ids rho rho' ->
  (forall j, Vval rho' v j = Vval rho v j) /\
  (forall k, (k < m)%nat -> map rho' (d_mu (ids k)) = map rho (d_mu (ids k))).
Proof.
  intros m v ids rho rho' Hf Hv Hag. split.
  - intros j. unfold Vval, nth_sexpr. apply introspection_sound. intros id Hid.
    apply Hag. intros i Hi Hin.
    destruct (le_lt_dec m j) as [Hj|Hj].
    + rewrite nth_overflow in Hid by lia. simpl in Hid. exact Hid.
    + destruct (Hf i id Hi Hin) as [_ F]. exact (F j Hj Hid).
  - intros k Hk. apply map_ext_in. intros id Hid. apply Hag. intros i Hi Hin.
    destruct (Hf i id Hi Hin) as [F _]. exact (F k Hk Hid).
Qed.

Lemma Mval_transfer : forall rho rho' n alpha ids i j,
  map rho' (d_mu ids) = map rho (d_mu ids) -> Mval rho' n alpha ids i j = Mval rho n alpha ids i j.
Proof. intros rho rho' n alpha ids i j H. unfold Mval. now rewrite <- !firstn_map, H. Qed.

Lemma dom_sat_transfer : forall rho rho' v X i ids,
  (forall j, Vval rho' v j = Vval rho v j) -> map rho' (d_mu ids) = map rho (d_mu ids) ->
  (dom_sat rho' v X i ids <-> dom_sat rho v X i ids).
Proof.
  intros rho rho' v X i ids HV Hmu. unfold dom_sat. destruct X as [D|]; [|tauto].
  now rewrite HV, Hmu.
Qed.

Lemma nonneg_transfer : forall rho rho' v (l : list nat),
  (forall j, Vval rho' v j = Vval rho v j) ->
  (Forall (fun i => 0 <= Vval rho' v i) l <-> Forall (fun i => 0 <= Vval rho v i) l).
Proof. intros rho rho' v l HV. apply Forall_iff_ext. intros i _. now rewrite HV. Qed.

Lemma compact_iff_epigraph : compact_iff_epigraph_stmt.
Proof.
  intros n lifted_n alpha v c X covers ids dummy rho Hwf Hnd Hfresh.
  pose proof Hwf as (Hal & Hv & Ha & Hdom & Hc & Hids).
  assert (Hf : epi_fresh_for (length alpha) v ids) by exact Hfresh.
  assert (Hvm : (length v <= (length alpha))%nat) by lia.
  split.
  - (* compact -> epigraph: give the epigraph variables their values *)
    intros H. set (rho' := extend_epi rho n alpha covers ids).
    assert (Hkeys : map fst (epi_assoc rho n alpha covers ids (seq 0 (length alpha)))
                    = flat_map (fun i => d_epi (ids i)) (seq 0 (length alpha))).
    { apply epi_assoc_keys. intros i Hi. apply in_seq in Hi.
      apply (dual_wf_epi_len _ _ _ _ _ _ _ _ Hwf). lia. }
    assert (Hag : agree_off_epi (length alpha) ids rho rho').
    { intros id Hid. unfold rho', extend_epi. rewrite lookupZ_none; [reflexivity|].
      rewrite Hkeys. intros Hin. apply in_flat_map in Hin as [i [Hi Hin]]. apply in_seq in Hi.
      apply (Hid i); [lia | exact Hin]. }
    assert (Hepi : forall i e j, (i < (length alpha))%nat -> In (e, j) (combine (d_epi (ids i)) (cover_idx (covers i))) ->
                     rho' e = Mval rho n alpha (ids i) i j).
    { intros i e j Hi Hin. unfold rho', extend_epi.
      rewrite (lookupZ_some _ (eq_ind_r (fun l => NoDup l) Hnd Hkeys) e (Mval rho n alpha (ids i) i j));
        [reflexivity|].
      unfold epi_assoc. apply in_flat_map. exists i. split; [apply in_seq; lia|].
      rewrite combine_map_r. apply in_map_iff. exists (e, j). auto. }
    destruct (agree_transfer (length alpha) v ids rho rho' Hf Hvm Hag) as [HV Hmu].
    exists rho'. split; [exact Hag|].
    destruct (le_lt_dec (length alpha) 1) as [Hm|Hm].
    { rewrite dual_blocks_sat_small in H |- * by assumption.
      intros j Hj. rewrite HV. now apply H. }
    apply dual_blocks_sem in H as [H1 H2]; auto. apply dual_blocks_sem; auto. split.
    + now apply (nonneg_transfer rho rho').
    + apply Forall_forall. intros i Hi Hne. rewrite Forall_forall in H2.
      assert (Him : (i < (length alpha))%nat) by (eapply dual_wf_UI_lt; eauto).
      destruct (H2 i Hi Hne) as [R D]. split.
      * unfold rel_sat in *. cbn [compact_dual] in *. apply Forall_forall. intros [e j] Hej.
        cbn [fst snd]. rewrite (Hepi i e j Him Hej), !HV, (Mval_transfer rho rho') by (now apply Hmu).
        rewrite Forall_forall in R. split; [|lra]. apply R. eapply in_combine_r; eauto.
      * apply (dom_sat_transfer rho rho'); auto.
  - (* epigraph -> compact: monotonicity of Kexp *)
    intros [rho' [Hag H]].
    destruct (agree_transfer (length alpha) v ids rho rho' Hf Hvm Hag) as [HV Hmu].
    destruct (le_lt_dec (length alpha) 1) as [Hm|Hm].
    { rewrite dual_blocks_sat_small in H |- * by assumption.
      intros j Hj. rewrite <- HV. now apply H. }
    apply dual_blocks_sem in H as [H1 H2]; auto. apply dual_blocks_sem; auto. split.
    + now apply (nonneg_transfer rho rho').
    + apply Forall_forall. intros i Hi Hne. rewrite Forall_forall in H2.
      assert (Him : (i < (length alpha))%nat) by (eapply dual_wf_UI_lt; eauto).
      destruct (H2 i Hi Hne) as [R D]. split.
      * apply rel_sat_kexp in R; [|now apply (dual_wf_epi_len _ _ _ _ _ _ _ _ Hwf)].
        unfold rel_sat. cbn [compact_dual]. revert R. apply Forall_iff_ext. intros j _.
        now rewrite !HV, (Mval_transfer rho rho') by (now apply Hmu).
      * apply (dom_sat_transfer rho rho') in D; auto.
Qed.
