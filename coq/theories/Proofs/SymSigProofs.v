(* Proofs/SymSigProofs.v — the C13 theorems (statements in Proofs/SymSigSpec.v), collected.
   SymSigBag : the generic development over a coefficient type C with an additive semantic map
               phi : C -> R (bag lemma, consolidate, mk, sum, product, without_zeros).
   SymSigOps : iszero_iff_identically_zero, s_mk_eval, s_sum_eval, s_add_eval, s_mul_eval,
               s_scale_eval, s_sub_eval; without_zeros_spec_s_loose_stmt is FALSE as stated
               (without_zeros_spec_s_loose_refuted); its value half (without_zeros_eval_s) and the
               corrected statements without_zeros_spec_s_corrected / _canonical are proved.
   SymSigTree: subst_commutes (and subst_commutes_strong). *)
From SageVerif Require Export Proofs.SymSigSpec Proofs.SymSigBag Proofs.SymSigOps Proofs.SymSigTree.

Definition C13_all :
  iszero_iff_identically_zero_stmt /\ s_mk_eval_stmt /\ without_zeros_spec_s_corrected_stmt /\
  without_zeros_spec_s_canonical_stmt /\ ~ without_zeros_spec_s_loose_stmt /\
  s_add_eval_stmt /\ s_scale_eval_stmt /\ s_mul_eval_stmt /\ s_sub_eval_stmt /\ s_sum_eval_stmt /\
  subst_commutes_stmt :=
  conj iszero_iff_identically_zero (conj s_mk_eval (conj without_zeros_spec_s_corrected
  (conj without_zeros_spec_s_canonical (conj without_zeros_spec_s_loose_refuted
  (conj s_add_eval (conj s_scale_eval (conj s_mul_eval (conj s_sub_eval (conj s_sum_eval
  subst_commutes))))))))).
