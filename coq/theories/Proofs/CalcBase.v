(* Proofs/CalcBase.v — basic facts for the C14 proofs: coordinate update, affine dependence of
   dot products, weighted exponential sums and their derivatives, natural rational exponents. *)
From Coq Require Import Reals List Bool Arith ZArith QArith Qreals Qcanon Lra Lia.
From SageVerif Require Import Math.RVec Model.Signomial Model.SigExpr Model.Calculus
  Proofs.SigSpec Proofs.SigLemmas Proofs.SigRound Proofs.SigMk Proofs.CalcSpec.
Import ListNotations.
Local Open Scope R_scope.

(* ------------------------------------------------------------------ *)
(* upd *)
Lemma upd_same : forall x i, upd x i (nth i x 0) = x.
Proof. induction x; destruct i; simpl; auto. now rewrite IHx. Qed.

Lemma upd_length : forall x i t, length (upd x i t) = length x.
Proof. induction x; destruct i; simpl; auto. Qed.

Lemma dot_upd : forall a x i t, (i < length x)%nat ->
  dot a (upd x i t) = dot a x + nth i a 0 * (t - nth i x 0).
Proof.
  induction a as [|e a IH]; intros x i t Hi.
  - simpl. destruct (upd x i t), x, i; simpl; lra.
  - destruct x as [|v x]; [simpl in Hi; lia|].
    destruct i; simpl.
    + lra.
    + rewrite IH by (simpl in Hi; lia). lra.
Qed.

Lemma nth_rowR : forall a i, nth i (rowR a) 0 = Q2R (nth i a 0%Q).
Proof.
  induction a; destruct i; simpl; auto; try (now rewrite Q2R_0').
Qed.

(* ------------------------------------------------------------------ *)
(* weighted exponential sums *)
Definition wsum (w : qrow * Q -> R) (f : qsig) (x : list R) : R :=
  fold_right (fun t acc => w t * exp (dot (rowR (fst t)) x) + acc) 0 f.

Lemma wsum_cons : forall w t f x, wsum w (t :: f) x = w t * exp (dot (rowR (fst t)) x) + wsum w f x.
Proof. reflexivity. Qed.

Lemma wsum_sig : forall f x, sig_evalR f x = wsum (fun t => Q2R (snd t)) f x.
Proof. reflexivity. Qed.

Lemma wsum_ext : forall w w' f x, (forall t, In t f -> w t = w' t) -> wsum w f x = wsum w' f x.
Proof.
  induction f; intros x H; auto. rewrite !wsum_cons, IHf, H; auto.
  - now left.
  - intros; apply H; now right.
Qed.

Lemma wsum_map : forall w (g : qrow * Q -> qrow * Q) f x, (forall t, fst (g t) = fst t) ->
  wsum w (map g f) x = wsum (fun t => w (g t)) f x.
Proof.
  induction f; intros x H; auto. simpl map. rewrite !wsum_cons, IHf, H; auto.
Qed.

(* one exponential term as a function of the i-th coordinate *)
Lemma exp_term_derive : forall K A B x0,
  derivable_pt_lim (fun t => K * exp (A + B * (t - x0))) x0 (K * B * exp A).
Proof.
  intros K A B x0.
  replace (K * B * exp A) with (K * (exp (A + B * (x0 - x0)) * (0 + B * (1 - 0)))).
  2:{ replace (A + B * (x0 - x0)) with A by ring. ring. }
  apply derivable_pt_lim_scal.
  apply (derivable_pt_lim_comp (fun t => A + B * (t - x0)) exp).
  - apply (derivable_pt_lim_plus (fun _ => A) (fun t => B * (t - x0))).
    + apply derivable_pt_lim_const.
    + apply derivable_pt_lim_scal.
      apply (derivable_pt_lim_minus (fun t => t) (fun _ => x0)).
      * apply derivable_pt_lim_id.
      * apply derivable_pt_lim_const.
  - apply derivable_pt_lim_exp.
Qed.

Lemma wsum_derive : forall w f x i, (i < length x)%nat ->
  derivable_pt_lim (fun t => wsum w f (upd x i t)) (nth i x 0)
                   (wsum (fun t => w t * nth i (rowR (fst t)) 0) f x).
Proof.
  intros w f x i Hi. induction f as [|s f IH].
  - simpl. apply derivable_pt_lim_const.
  - rewrite wsum_cons.
    apply (derivable_pt_lim_ext
             (fun t => w s * exp (dot (rowR (fst s)) x + nth i (rowR (fst s)) 0 * (t - nth i x 0))
                       + wsum w f (upd x i t))).
    + intros t. rewrite wsum_cons, dot_upd; auto.
    + apply (derivable_pt_lim_plus
               (fun t => w s * exp (dot (rowR (fst s)) x + nth i (rowR (fst s)) 0 * (t - nth i x 0)))
               (fun t => wsum w f (upd x i t))); auto.
      apply exp_term_derive.
Qed.

(* ------------------------------------------------------------------ *)
(* natural rational numbers *)
Definition natq (e : Q) : nat := Z.to_nat (Qnum (Qred e)).

Lemma Qred_inject_Z : forall z, Qred (inject_Z z) = inject_Z z.
Proof. intros z. apply Qred_identity. simpl. apply Z.gcd_1_r. Qed.

Lemma is_nat_q_spec : forall e, is_nat_q e = true -> (e == inject_Z (Z.of_nat (natq e)))%Q.
Proof.
  intros e H. unfold is_nat_q in H. apply andb_true_iff in H. destruct H as [H1 H2].
  apply Qeq_bool_iff in H1. apply Z.leb_le in H2.
  unfold natq. rewrite Z2Nat.id; auto.
Qed.

Lemma natq_of : forall e m, (e == inject_Z (Z.of_nat m))%Q -> natq e = m /\ is_nat_q e = true.
Proof.
  intros e m H. apply Qred_complete in H. rewrite Qred_inject_Z in H.
  unfold natq, is_nat_q. rewrite H. simpl Qnum. rewrite Nat2Z.id. split; auto.
  apply andb_true_iff. split.
  - apply Qeq_bool_iff. rewrite <- (Qred_correct e), H. reflexivity.
  - apply Z.leb_le. lia.
Qed.

Lemma natq_compat : forall e e', (e == e')%Q -> natq e = natq e'.
Proof. intros e e' H. unfold natq. now rewrite (Qred_complete _ _ H). Qed.

Lemma is_nat_q_compat : forall e e', (e == e')%Q -> is_nat_q e = true -> is_nat_q e' = true.
Proof.
  intros e e' H Hn. apply is_nat_q_spec in Hn.
  apply (natq_of e' (natq e)). eapply Qeq_trans; [symmetry; exact H|exact Hn].
Qed.

Lemma Q2R_inject_nat : forall m, Q2R (inject_Z (Z.of_nat m)) = INR m.
Proof. intros m. unfold Q2R, inject_Z. simpl. rewrite <- INR_IZR_INZ. field. Qed.

Lemma Q2R_natq : forall e, is_nat_q e = true -> Q2R e = INR (natq e).
Proof.
  intros e H. rewrite (Qeq_eqR _ _ (is_nat_q_spec e H)). apply Q2R_inject_nat.
Qed.

Lemma natq_0 : natq 0%Q = 0%nat.
Proof. reflexivity. Qed.

Lemma is_nat_on_grid : forall e, is_nat_q e = true -> (round7 e == e)%Q.
Proof.
  intros e H. apply is_nat_q_spec in H. apply on_grid_iff.
  exists (Z.of_nat (natq e) * grid)%Z. eapply Qeq_trans; [exact H|].
  unfold Qeq, inject_Z. simpl Qnum. simpl Qden. change (Zpos gridp) with grid. ring.
Qed.

Lemma natq_round7 : forall e, is_nat_q e = true -> natq (round7 e) = natq e /\ is_nat_q (round7 e) = true.
Proof.
  intros e H. pose proof (is_nat_on_grid e H) as Hg. split.
  - now apply natq_compat.
  - apply (is_nat_q_compat e); auto. now symmetry.
Qed.

(* decrement of a positive natural *)
Lemma natq_pred : forall e, is_nat_q e = true -> (0 < natq e)%nat ->
  natq (Qred (e - 1)) = pred (natq e) /\ is_nat_q (Qred (e - 1)) = true.
Proof.
  intros e H Hp. pose proof (is_nat_q_spec e H) as Hs.
  set (m := natq e) in *. clearbody m.
  apply natq_of. rewrite Qred_correct, Hs.
  unfold Qeq, Qminus, Qplus, Qopp, inject_Z. simpl Qnum. simpl Qden.
  rewrite Nat2Z.inj_pred by lia. lia.
Qed.

Lemma qgt_natq : forall e, is_nat_q e = true ->
  ((e ?= 0)%Q = Gt -> (0 < natq e)%nat) /\ ((e ?= 0)%Q <> Gt -> natq e = 0%nat).
Proof.
  intros e H. pose proof (is_nat_q_spec e H) as Hs.
  assert (Hc : (e ?= 0)%Q = (Z.of_nat (natq e) ?= 0)%Z).
  { rewrite (Qcompare_comp _ _ Hs 0%Q 0%Q (Qeq_refl 0%Q)).
    unfold Qcompare, inject_Z. simpl. now rewrite Z.mul_1_r. }
  rewrite Hc. split.
  - intros Hg. apply Z.compare_gt_iff in Hg. lia.
  - intros Hg. destruct (natq e); auto. exfalso. apply Hg. reflexivity.
Qed.

(* rows of naturals *)
Definition natrow (a : qrow) : Prop := Forall (fun q => is_nat_q q = true) a.

Lemma natrow_nth : forall a i, natrow a -> is_nat_q (nth i a 0%Q) = true.
Proof.
  intros a i H. destruct (Nat.lt_ge_cases i (length a)) as [L|L].
  - unfold natrow in H. rewrite Forall_forall in H. apply H. now apply nth_In.
  - rewrite nth_overflow; auto.
Qed.
