(* Proofs/ConGenBase.v — C15: sign tests, the inverse monomial, selection by valid_posy and
   the equivalence of a constraint with its normalisation. *)
From Coq Require Import Reals List Bool Arith ZArith QArith Qreals Lra Lia Qabs.
From SageVerif Require Import Math.RVec Model.Signomial Model.SigExpr Model.SolverForms Model.ConGen
  Proofs.SigSpec Proofs.RelaxSpec Proofs.SigLemmas Proofs.SigRound Proofs.SigMk Proofs.SigOps
  Proofs.ConGenSpec.
Import ListNotations.
Local Open Scope R_scope.

(* ------------------------------------------------------------------ *)
(* sign tests *)
Lemma is_pos_Q : forall c, is_pos c = true <-> (0 < c)%Q.
Proof.
  intros c. unfold is_pos. rewrite (Qgt_alt c 0).
  destruct (c ?= 0)%Q; split; congruence.
Qed.

Lemma is_neg_Q : forall c, is_neg c = true <-> (c < 0)%Q.
Proof.
  intros c. unfold is_neg. rewrite Qlt_alt. destruct (c ?= 0)%Q; split; congruence.
Qed.

Lemma is_pos_R : forall c, is_pos c = true -> 0 < Q2R c.
Proof. intros c H. apply is_pos_Q in H. apply Qlt_Rlt in H. now rewrite Q2R_0' in H. Qed.

Lemma is_neg_R : forall c, is_neg c = true -> Q2R c < 0.
Proof. intros c H. apply is_neg_Q in H. apply Qlt_Rlt in H. now rewrite Q2R_0' in H. Qed.

Lemma is_pos_compat : forall c c', (c == c')%Q -> is_pos c = is_pos c'.
Proof. intros c c' E. unfold is_pos. now rewrite E. Qed.

Lemma is_neg_compat : forall c c', (c == c')%Q -> is_neg c = is_neg c'.
Proof. intros c c' E. unfold is_neg. now rewrite E. Qed.

Lemma not_pos_nz_neg : forall c, is_pos c = false -> qiszero c = false -> is_neg c = true.
Proof.
  intros c Hp Hz. unfold is_pos, is_neg, qiszero in *.
  destruct (Qcompare_spec c 0) as [E|E|E]; auto; try discriminate.
  apply Qeq_bool_iff in E. congruence.
Qed.

(* ------------------------------------------------------------------ *)
(* the inverse monomial *)
Definition neg_row (a : qrow) : qrow := map (fun q => Qred (- q)%Q) a.
Definition inv_row (a : qrow) : qrow := round_row (neg_row a).

Lemma neg_row_length : forall a, length (neg_row a) = length a.
Proof. intros. unfold neg_row. apply map_length. Qed.

Lemma inv_row_length : forall a, length (inv_row a) = length a.
Proof. intros. unfold inv_row. now rewrite round_row_length, neg_row_length. Qed.

Lemma inverse_term_eq : forall a, inverse_term a = [(inv_row a, 1%Q)].
Proof.
  intros a. unfold inverse_term. rewrite q_mk_unfold. unfold rnd. simpl map.
  apply consolidate_id. apply rows_distinct_single.
Qed.

Lemma inverse_term_wf : forall n a, length a = n -> wfsig n (inverse_term a).
Proof.
  intros n a H. rewrite inverse_term_eq. constructor; [|constructor]. simpl. split.
  - now rewrite inv_row_length.
  - apply on_grid_row_round.
Qed.

Lemma inverse_term_pos : forall a x, 0 < sig_evalR (inverse_term a) x.
Proof.
  intros a x. rewrite inverse_term_eq. rewrite sig_evalR_cons. simpl fst; simpl snd.
  unfold sig_evalR at 1. simpl fold_right. rewrite Q2R_1'.
  pose proof (exp_pos (dot (rowR (inv_row a)) x)). lra.
Qed.

Lemma inverse_term_nonempty : forall a, inverse_term a <> [].
Proof. intros a. rewrite inverse_term_eq. discriminate. Qed.

(* ------------------------------------------------------------------ *)
(* normalisation preserves the constraint *)
Lemma In_wfsig : forall n g a c, wfsig n g -> In (a, c) g -> length a = n /\ on_grid_row a.
Proof.
  intros n g a c H Hin. unfold wfsig in H. rewrite Forall_forall in H. apply (H (a, c) Hin).
Qed.

Lemma posy_normalise_iff : posy_normalise_iff_stmt.
Proof.
  intros n g a c x [Hw [Hd Hne]] Hx Hin Hp.
  destruct (In_wfsig n g a c Hw Hin) as [La _].
  rewrite (mul_eval n g (inverse_term a) x Hw (inverse_term_wf n a La)).
  pose proof (inverse_term_pos a x) as P.
  set (u := sig_evalR g x) in *. set (p := sig_evalR (inverse_term a) x) in *.
  split; split; intros H.
  - apply Rmult_le_pos; lra.
  - destruct (Rle_or_lt 0 u) as [K|K]; auto.
    assert (u * p < 0); [|lra]. replace (u * p) with (- ((- u) * p)) by ring.
    assert (0 < - u * p) by (apply Rmult_lt_0_compat; lra). lra.
  - rewrite H. ring.
  - apply Rmult_integral in H. destruct H; auto. lra.
Qed.

(* ------------------------------------------------------------------ *)
(* selection *)
Definition npos (g : qsig) : nat := count (fun t => is_pos (snd t)) g.

(* the normalised form of a constraint with a positive term *)
Definition norm1 (n : nat) (g : qsig) : qsig :=
  match filter (fun t => is_pos (snd t)) g with
  | (a, _) :: _ => q_mul n g (inverse_term a)
  | [] => []
  end.

Lemma valid_posy_cons : forall n g gs,
  valid_posy n (g :: gs) =
  if Nat.leb 2 (npos g) then valid_posy n gs
  else if Nat.eqb (npos g) 0 then
         (if Nat.ltb 0 (count (fun t => is_neg (snd t)) g) then Err 1 else Err 2)
       else match valid_posy n gs with
            | Ok r => Ok (norm1 n g :: r)
            | Err e => Err e
            end.
Proof.
  intros n g gs. cbn [valid_posy]. fold (npos g).
  destruct (Nat.leb 2 (npos g)); auto. destruct (Nat.eqb (npos g) 0) eqn:E0; auto.
  unfold norm1. destruct (filter _ g) as [|[a c] l] eqn:EF.
  - exfalso. apply Nat.eqb_neq in E0. apply E0. unfold npos, count. now rewrite EF.
  - destruct (valid_posy n gs); auto.
Qed.

Lemma valid_posy_ok : forall n gs r, valid_posy n gs = Ok r ->
  r = map (norm1 n) (filter (fun g => Nat.eqb (npos g) 1) gs) /\
  Forall (fun g => npos g <> 0%nat) gs.
Proof.
  intros n gs. induction gs as [|g gs IH]; intros r H.
  - simpl in H. inversion H. split; auto.
  - rewrite valid_posy_cons in H. cbn [filter].
    destruct (Nat.leb 2 (npos g)) eqn:E2.
    + apply Nat.leb_le in E2. destruct (IH r H) as [-> F].
      replace (Nat.eqb (npos g) 1) with false by (symmetry; apply Nat.eqb_neq; lia).
      split; auto. constructor; auto. lia.
    + apply Nat.leb_gt in E2. destruct (Nat.eqb (npos g) 0) eqn:E0.
      * destruct (Nat.ltb _ _); discriminate.
      * apply Nat.eqb_neq in E0. destruct (valid_posy n gs) as [r'|e]; [|discriminate].
        inversion H; subst r. destruct (IH r' eq_refl) as [-> F].
        replace (Nat.eqb (npos g) 1) with true by (symmetry; apply Nat.eqb_eq; lia).
        split; auto.
Qed.

Lemma valid_posy_err : forall n gs,
  (exists e, valid_posy n gs = Err e) <-> exists g, In g gs /\ npos g = 0%nat.
Proof.
  intros n gs. induction gs as [|g gs IH].
  - split; [intros [e H]; discriminate | intros [g [[] _]]].
  - rewrite valid_posy_cons. destruct (Nat.leb 2 (npos g)) eqn:E2.
    + apply Nat.leb_le in E2. rewrite IH. split.
      * intros [g' [Hin Hc]]. exists g'. split; [right|]; auto.
      * intros [g' [[<-|Hin] Hc]]; [lia|]. exists g'; auto.
    + apply Nat.leb_gt in E2. destruct (Nat.eqb (npos g) 0) eqn:E0.
      * apply Nat.eqb_eq in E0. split.
        -- intros _. exists g. split; [left|]; auto.
        -- intros _. destruct (Nat.ltb _ _); eexists; reflexivity.
      * apply Nat.eqb_neq in E0. destruct (valid_posy n gs) as [r'|e].
        -- split; [intros [e He]; discriminate|].
           intros [g' [[<-|Hin] Hc]]; [lia|].
           destruct IH as [_ IH]. destruct IH as [e He]; [exists g'; auto|discriminate].
        -- split; [|intros _; eexists; reflexivity]. intros _.
           destruct IH as [IH _]. destruct IH as [g' [Hin Hc]]; [eexists; reflexivity|].
           exists g'. split; [right|]; auto.
Qed.

Lemma valid_posy_selection : valid_posy_selection_stmt.
Proof.
  intros n gs. split.
  - intros r H. destruct (valid_posy_ok n gs r H) as [-> F]. split; auto.
    now rewrite map_length.
  - apply valid_posy_err.
Qed.
