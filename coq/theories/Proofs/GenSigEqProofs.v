(* Proofs/GenSigEqProofs.v *)
From Coq Require Import List Bool Arith ZArith QArith Qabs.
From SageVerif Require Import Model.Signomial Gen.GenSigEq Proofs.SigSpec Proofs.SigProofs Proofs.GenSigEqSpec.
Import ListNotations.

Lemma gen_query_coeff_equiv : gen_query_coeff_equiv_stmt.
Proof.
  intros f a. unfold gen_query_coeff, query_coeff, dict_lookup. cbv zeta. generalize (round_row a). intro r.
  induction f as [|[k c] f IH]; cbn [find filter fst snd]; [reflexivity|].
  destruct (qrow_eqb k r); [reflexivity|exact IH].
Qed.

Lemma forallb_ext2 {X} (p q : X -> bool) : (forall x, p x = q x) -> forall l, forallb p l = forallb q l.
Proof. intros H l. induction l as [|x l IH]; cbn [forallb]; [reflexivity|]. rewrite H, IH. reflexivity. Qed.

Lemma gen_sig_eq_equiv : gen_sig_eq_equiv_stmt.
Proof.
  intros f g. unfold gen_sig_eq, q_eqb, one_sided_eq.
  assert (E : forall (a b : qsig),
             forallb (fun kv_ => let k := fst kv_ in let v_ := snd kv_ in let w_ := gen_query_coeff b k in
                                 negb (negb (Qle_bool (Qabs (v_ - w_)) (1 # 100000000)))) a
             = forallb (fun t => close (snd t) (query_coeff b (round_row (fst t)))) a).
  { intros a b. apply forallb_ext2. intro t. cbv beta zeta. rewrite gen_query_coeff_equiv, negb_involutive. reflexivity. }
  rewrite !E.
  destruct (Nat.eqb (length f) (length g)); cbn [negb andb]; [|reflexivity].
  destruct (forallb _ f); cbn [negb andb]; [|reflexivity].
  destruct (forallb _ g); reflexivity.
Qed.

Lemma gen_eq_sym : gen_eq_sym_stmt.
Proof. intros f g. rewrite !gen_sig_eq_equiv. apply eq_sym. Qed.

Lemma gen_eq_iff_close : gen_eq_iff_close_stmt.
Proof. intros n f g Hf Hg Df Dg. rewrite gen_sig_eq_equiv. exact (eq_iff_close n f g Hf Hg Df Dg). Qed.
