(* Proofs/FormsSeparate.v — separate_cone_constraints and Mosek._primal_apply. *)
From Coq Require Import Reals List Bool Arith Lia Lra.
From SageVerif Require Import Math.RVec Model.SolverForms Proofs.MathSpec Proofs.FormsSpec
  Proofs.FormsLemmas.
Import ListNotations.
Open Scope R_scope.

(* ------------------------------------------------------------------ sep_scan: structure *)
Definition row_bound (bound : nat) (j : option nat) : Prop :=
  match j with None => True | Some k => (k < bound)%nat end.

Lemma sep_scan_struct : forall (allowed : ctag -> bool) n K next K2 sl rows,
  sep_scan K allowed n next = (K2, sl, rows) ->
  K2 = map (fun co : cone => if allowed (fst co) then co else (T0, snd co)) K /\
  map fst sl = filter (fun co : cone => negb (allowed (fst co))) K /\
  concat (map snd sl) = seq (n + next) (slack_total sl) /\
  Forall (fun s : sepcone => length (snd s) = snd (fst s)) sl /\
  length rows = KsizeM K /\
  Forall (row_bound (next + slack_total sl)) rows.
Proof.
  intros allowed n. induction K as [|[t m] K IH]; intros next K2 sl rows H; simpl in H.
  - injection H as <- <- <-. simpl. repeat split; auto.
  - destruct (allowed t) eqn:Ea.
    + destruct (sep_scan K allowed n next) as [[K2' sl'] rows'] eqn:E.
      injection H as <- <- <-.
      destruct (IH _ _ _ _ E) as [H1 [H2 [H3 [H4 [H5 H6]]]]].
      simpl. rewrite Ea. simpl. split; [|split; [|split; [|split; [|split]]]]; auto.
      * f_equal; exact H1.
      * rewrite app_length, repeat_length. congruence.
      * apply Forall_app. split; auto.
        apply Forall_forall. intros j Hj. apply repeat_spec in Hj. subst. exact I.
    + destruct (sep_scan K allowed n (next + m)) as [[K2' sl'] rows'] eqn:E.
      injection H as <- <- <-.
      destruct (IH _ _ _ _ E) as [H1 [H2 [H3 [H4 [H5 H6]]]]].
      simpl. rewrite Ea. simpl. split; [|split; [|split; [|split; [|split]]]].
      * f_equal; exact H1.
      * f_equal; exact H2.
      * rewrite H3, map_add_seq. rewrite seq_app. f_equal. f_equal. lia.
      * constructor; auto. simpl. now rewrite map_length, seq_length.
      * rewrite app_length, map_length, seq_length. congruence.
      * apply Forall_app. split.
        -- apply Forall_forall. intros j Hj. apply in_map_iff in Hj.
           destruct Hj as [k [<- Hk]]. apply in_seq in Hk. simpl. lia.
        -- eapply Forall_impl; [|exact H6]. intros [k|]; simpl; auto. lia.
Qed.

Lemma length_unit_neg_row : forall w j, row_bound w j ->
  length (unit_neg_row 0 1 Ropp w j) = w.
Proof.
  intros w [k|] H; simpl in *.
  - rewrite app_length, repeat_length. simpl. rewrite repeat_length. lia.
  - apply repeat_length.
Qed.

Lemma wfm_widen : forall n w (A : list (list R)) rows, wfm n A -> Forall (row_bound w) rows ->
  wfm (n + w) (map (fun rj => fst rj ++ unit_neg_row 0 1 Ropp w (snd rj)) (combine A rows)).
Proof.
  intros n w. induction A as [|r A IH]; intros [|j rows] HA Hr; simpl; try constructor.
  - simpl. inversion HA; inversion Hr; subst.
    rewrite app_length, length_unit_neg_row by assumption. reflexivity.
  - apply IH; [inversion HA | inversion Hr]; auto.
Qed.

Lemma separate_structure : separate_structure_stmt.
Proof.
  intros n A b K ds A2 b2 K2 sl HA HlA H.
  unfold separate in H.
  destruct (sep_scan K (fun t => ctag_eqb t T0 || ds t) n 0) as [[K2' sl'] rows] eqn:E.
  injection H as HA2 <- <- <-.
  destruct (sep_scan_struct _ _ _ _ _ _ _ E) as [H1 [H2 [H3 [H4 [H5 H6]]]]].
  rewrite Nat.add_0_r in H3. simpl in H6.
  repeat split; auto.
  - fold (slack_total sl') in HA2. destruct (Nat.eqb (slack_total sl') 0) eqn:Ez.
    + apply Nat.eqb_eq in Ez. rewrite Ez, Nat.add_0_r. subst A2. assumption.
    + subst A2. apply wfm_widen; assumption.
  - fold (slack_total sl') in HA2. destruct (Nat.eqb (slack_total sl') 0); subst A2; auto.
    rewrite map_length, combine_length, H5, <- HlA. apply Nat.min_id.
Qed.

(* ------------------------------------------------------------------ the widened matrix *)
Definition yrow (y : list R) (j : option nat) : R :=
  match j with None => 0 | Some k => nth k y 0 end.

Lemma dot_unit_some : forall k m y,
  dot (repeat 0 k ++ - (1) :: repeat 0 m) y = - nth k y 0.
Proof.
  induction k as [|k IH]; intros m [|h y]; simpl; try ring.
  - rewrite f_dot_repeat0_l. ring.
  - rewrite IH. ring.
Qed.

Lemma dot_unit_neg_row : forall w j y, dot (unit_neg_row 0 1 Ropp w j) y = - yrow y j.
Proof.
  intros w [k|] y; simpl.
  - apply dot_unit_some.
  - rewrite f_dot_repeat0_l. ring.
Qed.

Lemma mv_widen : forall n w (A : list (list R)) rows x y,
  wfm n A -> length x = n -> length rows = length A ->
  mv (map (fun rj => fst rj ++ unit_neg_row 0 1 Ropp w (snd rj)) (combine A rows)) (x ++ y)
  = vsub (mv A x) (map (yrow y) rows).
Proof.
  intros n w. induction A as [|r A IH]; intros [|j rows] x y HA Hx Hl; simpl in *;
    try discriminate; try reflexivity.
  inversion HA; subst. f_equal.
  - rewrite f_dot_app by congruence. rewrite dot_unit_neg_row. ring.
  - apply IH; auto.
Qed.

Lemma yrow_nil : forall rows, map (yrow []) rows = repeat 0 (length rows).
Proof.
  induction rows as [|[k|] rows IH]; simpl; auto; rewrite IH; auto.
  destruct k; reflexivity.
Qed.

(* ------------------------------------------------------------------ sep_scan: semantics *)
Fixpoint sepvec (allowed : ctag -> bool) (K : list cone) (r : list R) : list R :=
  match K with
  | [] => []
  | (t, m) :: K' =>
      if allowed t then sepvec allowed K' (skipn m r)
      else firstn m r ++ sepvec allowed K' (skipn m r)
  end.

Lemma sepvec_length : forall allowed n K next K2 sl rows r,
  sep_scan K allowed n next = (K2, sl, rows) -> length r = KsizeM K ->
  length (sepvec allowed K r) = slack_total sl.
Proof.
  intros allowed n. induction K as [|[t m] K IH]; intros next K2 sl rows r H Hr; simpl in H.
  - injection H as <- <- <-. reflexivity.
  - simpl in Hr. simpl sepvec. destruct (allowed t).
    + destruct (sep_scan K allowed n next) as [[K2' sl'] rows'] eqn:E.
      injection H as <- <- <-. eapply IH; [exact E|]. rewrite skipn_length. lia.
    + destruct (sep_scan K allowed n (next + m)) as [[K2' sl'] rows'] eqn:E.
      injection H as <- <- <-. rewrite app_length, firstn_length.
      rewrite (IH _ _ _ _ (skipn m r) E) by (rewrite skipn_length; lia).
      simpl. lia.
Qed.

Lemma pick_slack : forall n x y next m, length x = n -> (next + m <= length y)%nat ->
  pick (x ++ y) (map (fun j => (n + j)%nat) (seq next m)) = firstn m (skipn next y).
Proof.
  intros n x y next m Hx Hle. unfold pick. rewrite map_map.
  rewrite <- nth_seq_firstn by assumption. apply map_ext.
  intros k. subst n. apply app_nth2_plus.
Qed.

Lemma firstn_app_len' {X} : forall m (a b : list X), length a = m -> firstn m (a ++ b) = a.
Proof. intros; subst; apply firstn_app_len. Qed.
Lemma skipn_app_len' {X} : forall m (a b : list X), length a = m -> skipn m (a ++ b) = b.
Proof. intros; subst; apply skipn_app_len. Qed.

Definition sl_ok (z : list R) (sl : list sepcone) : Prop :=
  Forall (fun s : sepcone => in_cone (sem_tag (fst (fst s))) (pick z (snd s))) sl.

Lemma sep_core : forall allowed n x, length x = n ->
  forall K next K2 sl rows r y,
  sep_scan K allowed n next = (K2, sl, rows) -> length r = KsizeM K ->
  (next + slack_total sl <= length y)%nat ->
  ((in_K (semK K2) (vsub r (map (yrow y) rows)) /\ sl_ok (x ++ y) sl) <->
   (in_K (semK K) r /\ firstn (slack_total sl) (skipn next y) = sepvec allowed K r)).
Proof.
  intros allowed n x Hx.
  induction K as [|[t m] K IH]; intros next K2 sl rows r y H Hr Hy; simpl in H.
  - injection H as <- <- <-. destruct r; [|discriminate]. simpl.
    unfold sl_ok. split; intros; split; auto; constructor.
  - simpl in Hr. destruct (split_len _ _ _ Hr) as [a [b [-> [Ha Hb]]]].
    change (semK ((t, m) :: K)) with ((sem_tag t, m) :: semK K).
    rewrite (in_K_cons_app (sem_tag t) m (semK K) a b Ha).
    simpl sepvec. rewrite (firstn_app_len' m a b Ha), (skipn_app_len' m a b Ha).
    destruct (allowed t).
    + destruct (sep_scan K allowed n next) as [[K2' sl'] rows'] eqn:E.
      injection H as <- <- <-.
      rewrite map_app, map_repeat'. simpl yrow.
      rewrite f_vsub_app by (rewrite repeat_length; exact Ha).
      rewrite f_vsub_repeat0 by exact Ha.
      change (semK ((t, m) :: K2')) with ((sem_tag t, m) :: semK K2').
      rewrite in_K_cons_app by exact Ha.
      pose proof (IH next K2' sl' rows' b y E Hb Hy) as IH'. tauto.
    + destruct (sep_scan K allowed n (next + m)) as [[K2' sl'] rows'] eqn:E.
      injection H as <- <- <-.
      assert (Hst : slack_total ((t, m, map (fun j => (n + j)%nat) (seq next m)) :: sl')
                    = (m + slack_total sl')%nat) by reflexivity.
      rewrite Hst in *.
      assert (Hyb : length (firstn m (skipn next y)) = m).
      { rewrite firstn_length, skipn_length. lia. }
      rewrite map_app, map_map. simpl yrow.
      rewrite nth_seq_firstn by lia.
      rewrite f_vsub_app by congruence.
      change (semK ((T0, m) :: K2')) with ((CZero, m) :: semK K2').
      rewrite in_K_cons_app by (rewrite f_length_vsub; congruence).
      simpl in_cone. rewrite vsub_zero_iff by congruence.
      unfold sl_ok. rewrite Forall_cons_iff. cbn [fst snd].
      rewrite pick_slack by (auto; lia).
      rewrite firstn_add, skipn_add.
      assert (Hy' : (next + m + slack_total sl' <= length y)%nat) by lia.
      pose proof (IH (next + m)%nat K2' sl' rows' b y E Hb Hy') as IH'.
      unfold sl_ok in IH'.
      split.
      * intros [[Hab Hk2] [Hc Hsl]]. subst a.
        destruct IH' as [IH1 _]. destruct (IH1 (conj Hk2 Hsl)) as [Hk Hf].
        repeat split; auto. now rewrite Hf.
      * intros [[Hc Hk] Hf]. apply app_eq_len in Hf; [|congruence].
        destruct Hf as [Hf1 Hf2]. rewrite Hf1.
        destruct IH' as [_ IH2]. destruct (IH2 (conj Hk Hf2)) as [Hk2 Hsl].
        repeat split; auto.
Qed.

Lemma separate_mv : forall n (A : list (list R)) rows w x y,
  wfm n A -> length x = n -> length rows = length A -> length y = w ->
  mv (if Nat.eqb w 0 then A
      else map (fun rj => fst rj ++ unit_neg_row 0 1 Ropp w (snd rj)) (combine A rows)) (x ++ y)
  = vsub (mv A x) (map (yrow y) rows).
Proof.
  intros n A rows w x y HA Hx Hl Hy. destruct (Nat.eqb w 0) eqn:Ez.
  - apply Nat.eqb_eq in Ez. subst w. destruct y; [|discriminate].
    rewrite app_nil_r, yrow_nil, f_vsub_repeat0; auto. now rewrite f_length_mv.
  - eapply mv_widen; eauto.
Qed.

Lemma separate_projection : separate_projection_stmt.
Proof.
  intros n A b K ds A2 b2 K2 sl x HK HA Hx HlA Hlb H.
  unfold separate in H.
  destruct (sep_scan K (fun t => ctag_eqb t T0 || ds t) n 0) as [[K2' sl'] rows] eqn:E.
  injection H as HA2 <- <- <-.
  fold (slack_total sl') in HA2.
  destruct (sep_scan_struct _ _ _ _ _ _ _ E) as [_ [_ [_ [_ [H5 _]]]]].
  assert (Hr : length (vadd (mv A x) b) = KsizeM K).
  { rewrite f_length_vadd; rewrite f_length_mv; congruence. }
  assert (Hmv : forall y, length y = slack_total sl' ->
            vadd (mv A2 (x ++ y)) b = vsub (vadd (mv A x) b) (map (yrow y) rows)).
  { intros y Hy. subst A2. rewrite (separate_mv n A rows _ x y HA Hx) by congruence.
    apply f_vadd_vsub_swap. }
  split.
  - intros Hin.
    set (y := sepvec (fun t => ctag_eqb t T0 || ds t) K (vadd (mv A x) b)).
    assert (Hy : length y = slack_total sl') by (eapply sepvec_length; eauto).
    exists y. split; [exact Hy|]. rewrite (Hmv y Hy).
    apply (sep_core _ n x Hx K 0%nat K2' sl' rows _ y E Hr); [simpl; lia|].
    split; [exact Hin|]. simpl skipn. rewrite <- Hy. apply firstn_all.
  - intros [y [Hy [Hk Hsl]]]. rewrite (Hmv y Hy) in Hk.
    apply (sep_core _ n x Hx K 0%nat K2' sl' rows _ y E Hr); [simpl; lia|].
    split; assumption.
Qed.
