(* Proofs/FormsProofs.v — re-exports the proofs of every statement of Proofs/FormsSpec.v. *)
From SageVerif Require Export Math.RVec Model.SolverForms Proofs.MathSpec Proofs.FormsSpec
  Proofs.FormsLemmas Proofs.FormsEcos Proofs.FormsSeparate Proofs.FormsMosek Proofs.FormsDual.

(* one proof per statement of FormsSpec.v *)
Lemma all_forms_stmts_proved :
  selector_length_stmt /\ csl_spec_stmt /\ ecos_feasible_iff_stmt /\ ecos_error_iff_stmt /\
  separate_structure_stmt /\ separate_projection_stmt /\ mosek_primal_equiv_stmt /\
  dualize_shape_stmt /\ transpose_mv_stmt /\ dualize_weak_stmt /\ mosek_dual_reorder_stmt.
Proof.
  exact (conj selector_length (conj csl_spec (conj ecos_feasible_iff (conj ecos_error_iff
  (conj separate_structure (conj separate_projection (conj mosek_primal_equiv
  (conj dualize_shape (conj transpose_mv (conj dualize_weak mosek_dual_reorder)))))))))).
Qed.
