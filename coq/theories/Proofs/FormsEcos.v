(* Proofs/FormsEcos.v — contiguous_selector_lengths and ECOS.apply. *)
From Coq Require Import Reals List Bool Arith Lia Lra.
From SageVerif Require Import Math.RVec Model.SolverForms Proofs.MathSpec Proofs.FormsSpec
  Proofs.FormsLemmas.
Import ListNotations.
Open Scope R_scope.

(* ------------------------------------------------------------------ csl *)
Lemma csl_aux_true : forall n rest run,
  csl_aux (repeat true n ++ rest) run = csl_aux rest (n + run).
Proof.
  induction n as [|n IH]; intros; simpl; auto.
  rewrite IH. f_equal. lia.
Qed.

Lemma csl_aux_false : forall n rest run, (0 < n)%nat ->
  csl_aux (repeat false n ++ rest) run
  = (match run with O => [] | S _ => [run] end) ++ csl_aux rest 0.
Proof.
  induction n as [|n IH]; intros rest run Hn; [lia|].
  destruct n as [|n].
  - simpl. destruct run; reflexivity.
  - change (repeat false (S (S n)) ++ rest) with (false :: (repeat false (S n) ++ rest)).
    cbn [csl_aux]. destruct run; rewrite IH by lia; reflexivity.
Qed.

Lemma csl_general : forall runs, alternating runs -> forall run,
  csl_aux (flat_map (fun bn => repeat (fst bn) (snd bn)) runs) run =
  match runs with
  | [] => match run with O => [] | S _ => [run] end
  | (true, n) :: rest => (n + run)%nat :: map snd (filter (fun bn => fst bn) rest)
  | (false, n) :: rest =>
      (match run with O => [] | S _ => [run] end) ++ map snd (filter (fun bn => fst bn) rest)
  end.
Proof.
  induction runs as [|[b n] rest IH]; intros Halt run.
  - reflexivity.
  - simpl in Halt. destruct Halt as [Hn [Hne Halt]].
    specialize (IH Halt). simpl flat_map. destruct b.
    + rewrite csl_aux_true. rewrite IH.
      destruct rest as [|[b2 n2] rest'].
      * destruct (n + run)%nat eqn:E; [lia | reflexivity].
      * destruct b2; [congruence|]. simpl.
        destruct (n + run)%nat eqn:E; [lia | reflexivity].
    + rewrite csl_aux_false by assumption. rewrite IH.
      destruct rest as [|[b2 n2] rest'].
      * reflexivity.
      * destruct b2; [|congruence]. simpl. rewrite Nat.add_0_r. reflexivity.
Qed.

Lemma csl_spec : csl_spec_stmt.
Proof.
  intros runs Halt. unfold contiguous_selector_lengths.
  rewrite csl_general by assumption.
  destruct runs as [|[[|] n] rest]; simpl; try reflexivity.
  now rewrite Nat.add_0_r.
Qed.

(* ------------------------------------------------------------------ ECOS.apply *)
Lemma forallb_false_iff {X} (f : X -> bool) : forall l,
  forallb f l = false <-> exists x, In x l /\ f x = false.
Proof.
  induction l as [|a l IH]; simpl.
  - split; [intros H; discriminate H | intros [x [[] _]]].
  - rewrite andb_false_iff, IH. split.
    + intros [H | [x [H1 H2]]]; [exists a; auto | exists x; auto].
    + intros [x [[-> | H1] H2]]; [auto | right; exists x; auto].
Qed.

Lemma ecos_error_iff : ecos_error_iff_stmt.
Proof.
  intros c A b K. unfold ecos_apply.
  match goal with |- context [forallb ?f K] => destruct (forallb f K) eqn:E end; split.
  - intros [e H]; discriminate H.
  - intros [co [Hin Hf]]. rewrite forallb_forall in E.
    rewrite (E co Hin) in Hf. discriminate Hf.
  - intros _. apply forallb_false_iff in E. exact E.
  - intros _. exists 1%nat. reflexivity.
Qed.

Lemma okK_forallb : forall K, okK K -> forallb (fun co : cone => ecos_allowed (fst co)) K = true.
Proof.
  intros K H. apply forallb_forall. intros co Hin.
  unfold okK in H. rewrite Forall_forall in H. apply H. assumption.
Qed.

Lemma ecos_block : forall s (A : list (list R)) b x,
  vsub (mask s b) (mv (negm Ropp (mask s A)) x) = mask s (vadd (mv A x) b).
Proof.
  intros. rewrite f_mv_negm, f_mv_mask, mask_vadd.
  generalize (mask s (mv A x)) (mask s b). clear.
  intros u w. revert u. induction w as [|y w IH]; intros [|z u]; simpl; try reflexivity.
  rewrite IH. f_equal. ring.
Qed.

Lemma ecos_eqrows : forall s (A : list (list R)) b x, length A = length b ->
  (mv (mask s A) x = map Ropp (mask s b) <-> Forall (fun v => v = 0) (mask s (vadd (mv A x) b))).
Proof.
  intros. rewrite f_mv_mask, mask_vadd. apply eq_opp_iff.
  apply mask_length_eq. now rewrite f_length_mv.
Qed.

Lemma ecos_feasible_iff : ecos_feasible_iff_stmt.
Proof.
  intros n c A b K d x HK HA Hx HlA Hlb Happ.
  unfold ecos_apply in Happ.
  match type of Happ with context [forallb ?f K] =>
    rewrite (okK_forallb K HK : forallb f K = true) in Happ end.
  injection Happ as Hd. subst d. split; [|reflexivity].
  unfold ecos_sat. cbn [eA eb eG eh el ee eq_].
  assert (Hr : length (vadd (mv A x) b) = KsizeM K).
  { rewrite f_length_vadd; rewrite f_length_mv; congruence. }
  assert (Hm : forall s, length (mask s b) = length (mv (negm Ropp (mask s A)) x)).
  { intros s. rewrite f_length_mv. unfold negm. rewrite map_length.
    apply mask_length_eq. congruence. }
  rewrite !f_mv_app. rewrite !f_vsub_app by apply Hm. rewrite !ecos_block.
  rewrite ecos_eqrows by congruence.
  set (r := vadd (mv A x) b) in *.
  rewrite (partition_primal K r HK Hr).
  rewrite (count_exp K HK).
  change (fst (Nat.divmod (nexp K * 3) 2 0 2)) with ((nexp K * 3) / 3)%nat.
  rewrite Nat.div_mul by discriminate.
  rewrite !in_K_eq.
  rewrite in_Kg_cons_app by (apply mask_length; rewrite selector_length; congruence).
  match goal with |- context [map (fun n0 : nat => (CSoc, n0)) ?l] =>
    change (map (fun n0 : nat => (CSoc, n0)) l) with (socK K) end.
  change (repeat (CExp, 3%nat) (nexp K)) with (expK K).
  rewrite in_Kg_app
    by (rewrite <- count_soc; apply mask_length; rewrite selector_length; congruence).
  simpl in_cone. tauto.
Qed.
