(* Proofs/MathExp.v — exponential cone facts and epigraph forms. *)
From Coq Require Import Reals List Lra Lia.
From SageVerif Require Import Math.RVec Proofs.MathSpec Proofs.MathVec.
Import ListNotations.
Open Scope R_scope.

Lemma exp_le : forall x y, x <= y -> exp x <= exp y.
Proof.
  intros x y [Hlt|Heq].
  - left. apply exp_increasing. exact Hlt.
  - rewrite Heq. right. reflexivity.
Qed.

Lemma exp_le_inv' : forall x y, exp x <= exp y -> x <= y.
Proof.
  intros x y Hle. destruct (Rle_or_lt x y) as [H|H]; auto.
  apply exp_increasing in H. lra.
Qed.

(* exp (q - 1) >= q *)
Lemma exp_m1_ge : forall q, q <= exp (q - 1).
Proof. intros q. pose proof (exp_ineq1_le (q - 1)) as H. lra. Qed.

Lemma kexp_second_nonneg : kexp_second_nonneg_stmt.
Proof.
  intros x y z [[Hz Hle] | [Hz [Hx Hy]]].
  - pose proof (exp_pos (x / z)) as He.
    pose proof (Rmult_lt_0_compat _ _ Hz He). split; lra.
  - split; lra.
Qed.

Lemma kexp_scale : kexp_scale_stmt.
Proof.
  intros s x y z Hs HK.
  destruct Hs as [Hs | Hs].
  - destruct HK as [[Hz Hle] | [Hz [Hx Hy]]].
    + left. split.
      * apply Rmult_lt_0_compat; assumption.
      * replace (s * x / (s * z)) with (x / z) by (field; split; lra).
        rewrite Rmult_assoc. apply Rmult_le_compat_l; lra.
    + right. subst z. split; [ring|]. split.
      * rewrite <- (Rmult_0_r s). apply Rmult_le_compat_l; lra.
      * apply Rmult_le_pos; lra.
  - subst s. right. split; [ring|]. split; lra.
Qed.

Lemma kexp_dual_pair : kexp_dual_pair_stmt.
Proof.
  intros u v w x y z HD HK. unfold KexpDual in HD.
  pose proof (exp_pos 1) as He.
  destruct HD as [[Hp HDle] | [Hu [Hw Hv]]].
  - (* p := -u > 0 *)
    set (p := - u) in *.
    assert (Hu : u = - p) by (unfold p; ring).
    pose proof (exp_pos (- w / p)) as HE2.
    assert (Hv : 0 < v).
    { pose proof (Rmult_lt_0_compat _ _ Hp HE2) as H1.
      assert (H2 : 0 < exp 1 * v) by lra.
      destruct (Rle_or_lt v 0) as [Hv0|Hv0]; auto.
      exfalso. assert (exp 1 * v <= exp 1 * 0) by (apply Rmult_le_compat_l; lra). lra. }
    destruct HK as [[Hz Hle] | [Hz [Hx Hy]]].
    + (* main case *)
      pose proof (exp_pos (x / z)) as HE1.
      set (q := x / z + - w / p).
      pose proof (exp_m1_ge q) as Hq.
      assert (Hsplit : exp (x / z) * exp (- w / p) = exp 1 * exp (q - 1)).
      { rewrite <- !exp_plus. f_equal. unfold q. ring. }
      assert (Hpzq : p * z * q = p * x - w * z).
      { unfold q. field. split; lra. }
      (* e v y >= p E2 y >= p E2 z E1 = p z e exp(q-1) >= p z e q *)
      assert (Hy : 0 < y).
      { pose proof (Rmult_lt_0_compat _ _ Hz HE1). lra. }
      assert (S1 : p * exp (- w / p) * y <= exp 1 * v * y).
      { apply Rmult_le_compat_r; lra. }
      assert (S2 : p * exp (- w / p) * (z * exp (x / z)) <= p * exp (- w / p) * y).
      { apply Rmult_le_compat_l; [|lra].
        apply Rlt_le. apply Rmult_lt_0_compat; assumption. }
      assert (S3 : p * exp (- w / p) * (z * exp (x / z)) = exp 1 * (p * z * exp (q - 1))).
      { replace (p * exp (- w / p) * (z * exp (x / z)))
          with (p * z * (exp (x / z) * exp (- w / p))) by ring.
        rewrite Hsplit. ring. }
      assert (Hpz : 0 < p * z) by (apply Rmult_lt_0_compat; assumption).
      assert (S4 : p * z * q <= p * z * exp (q - 1)).
      { apply Rmult_le_compat_l; lra. }
      assert (S5 : exp 1 * (p * z * q) <= exp 1 * (v * y)).
      { apply Rle_trans with (exp 1 * (p * z * exp (q - 1))).
        - apply Rmult_le_compat_l; lra.
        - rewrite <- S3. lra. }
      assert (S6 : p * z * q <= v * y).
      { apply Rmult_le_reg_l with (exp 1); assumption. }
      rewrite Hu. lra.
    + (* z = 0, x <= 0, 0 <= y *)
      subst z. rewrite Hu.
      assert (0 <= v * y) by (apply Rmult_le_pos; lra).
      assert (0 <= p * - x) by (apply Rmult_le_pos; lra).
      lra.
  - (* u = 0, 0 <= w, 0 <= v *)
    assert (Hu0 : u = 0) by lra.
    assert (Hv0 : 0 <= v).
    { destruct (Rle_or_lt 0 v) as [H|H]; auto.
      exfalso. assert (exp 1 * v < exp 1 * 0) by (apply Rmult_lt_compat_l; lra). lra. }
    pose proof (kexp_second_nonneg x y z HK) as [Hy Hz].
    assert (0 <= v * y) by (apply Rmult_le_pos; lra).
    assert (0 <= w * z) by (apply Rmult_le_pos; lra).
    rewrite Hu0. lra.
Qed.

Lemma exp_epi_iff : exp_epi_iff_stmt.
Proof.
  intros x t. unfold Kexp. split.
  - intros [[_ H] | [H _]]; [|lra].
    replace (x / 1) with x in H by field. lra.
  - intros H. left. split; [lra|].
    replace (x / 1) with x by field. lra.
Qed.

Lemma kexp_fenchel : kexp_fenchel_stmt.
Proof.
  intros epi c nu HK t.
  assert (HD : KexpDual (- nu) c epi).
  { unfold KexpDual. rewrite Ropp_involutive. exact HK. }
  assert (HP : Kexp t (exp t) 1) by (apply exp_epi_iff; lra).
  pose proof (kexp_dual_pair _ _ _ _ _ _ HD HP) as H. lra.
Qed.

Lemma relent_epi_iff : relent_epi_iff_stmt.
Proof.
  intros x y t. unfold Kexp. split.
  - intros [[Hx Hle] | [Hx [Ht Hy]]].
    + left.
      pose proof (exp_pos (- t / x)) as HE.
      pose proof (Rmult_lt_0_compat _ _ Hx HE) as Hpos.
      assert (Hy : 0 < y) by lra.
      split; [assumption|]. split; [assumption|].
      (* x * exp(-t/x) <= y  ->  ln x - t/x <= ln y *)
      assert (Hln : ln (x * exp (- t / x)) <= ln y).
      { destruct Hle as [Hlt|Heq].
        - left. apply ln_increasing; assumption.
        - rewrite Heq. right. reflexivity. }
      rewrite ln_mult in Hln by assumption. rewrite ln_exp in Hln.
      unfold Rdiv at 1. rewrite ln_mult by (try apply Rinv_0_lt_compat; assumption).
      rewrite ln_Rinv by assumption.
      assert (Hx' : x * (ln x + - t / x) <= x * ln y) by (apply Rmult_le_compat_l; lra).
      replace (x * (ln x + - t / x)) with (x * ln x - t) in Hx' by (field; lra).
      lra.
    + right. split; [assumption|]. split; lra.
  - intros [[Hx [Hy Hle]] | [Hx [Hy Ht]]].
    + left. split; [assumption|].
      unfold Rdiv at 1 in Hle.
      rewrite ln_mult in Hle by (try apply Rinv_0_lt_compat; assumption).
      rewrite ln_Rinv in Hle by assumption.
      (* ln x - t / x <= ln y *)
      assert (Hdiv : ln x + - t / x <= ln y).
      { apply Rmult_le_reg_l with x; [assumption|].
        replace (x * (ln x + - t / x)) with (x * ln x - t) by (field; lra). lra. }
      apply exp_le in Hdiv. rewrite exp_plus in Hdiv.
      rewrite !exp_ln in Hdiv by assumption. exact Hdiv.
    + right. split; [assumption|]. split; lra.
Qed.

Lemma soc_epi_iff : soc_epi_iff_stmt.
Proof.
  intros t xs. simpl.
  pose proof (sumsq_nonneg xs) as Hs.
  split.
  - intros [Ht Hle].
    rewrite <- (sqrt_square t Ht).
    apply sqrt_le_1; try assumption.
    apply Rmult_le_pos; assumption.
  - intros Hle.
    pose proof (sqrt_pos (sumsq xs)) as Hsp.
    assert (Ht : 0 <= t) by lra.
    split; [assumption|].
    apply sqrt_le_0; try assumption.
    + apply Rmult_le_pos; assumption.
    + rewrite (sqrt_square t Ht). exact Hle.
Qed.
