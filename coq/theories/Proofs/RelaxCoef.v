(* Proofs/RelaxCoef.v — C03, part 2: the coefficient cells of the modulated Lagrangian are
   obj - gamma * a  in the basis of its own exponent rows.
   Method: the generic evaluation lemmas of Proofs/SymSigBag.v hold for EVERY map chi that respects row
   equality; instantiated at the indicator chi := [. == r] they become identities between coefficients
   at the row r.  The numeric side reuses coefR of Proofs/SymCorrReal.v / SymCorrOwn.v. *)
From Coq Require Import Reals List Bool Arith ZArith QArith Qreals Lra Lia.
From SageVerif Require Import Math.RVec Model.Expr Model.Signomial Model.SymSig Model.SolverForms Model.SymCorr
  Model.Compile Model.Sage Model.RelaxSig
  Proofs.ExprSpec Proofs.ExprAtoms Proofs.ExprScalar
  Proofs.SigSpec Proofs.SigLemmas Proofs.SigRound Proofs.SigMk Proofs.SigOps Proofs.SigPow
  Proofs.SymCorrSpec Proofs.SymSigSpec Proofs.SymSigBag Proofs.SymSigOps
  Proofs.FormsSpec Proofs.CompileSpec Proofs.SageSpec Proofs.RelaxSpec Proofs.RelaxBase.
From SageVerif Require Proofs.SymCorrBase Proofs.SymCorrReal Proofs.SymCorrOwn Proofs.SymCorrProofs.
Import ListNotations.
Local Open Scope R_scope.

(* ------------------------------------------------------------------ *)
(* the indicator of a row *)
Definition ind (r a : qrow) : R := if qrow_eqb a r then 1 else 0.

Lemma ind_resp : forall r a b, qrow_eqb a b = true -> ind r a = ind r b.
Proof. intros r a b H. unfold ind. now rewrite (qrow_eqb_compat_l a b r H). Qed.

Lemma ind_self : forall r, ind r r = 1.
Proof. intros. unfold ind. now rewrite qrow_eqb_refl. Qed.

(* ------------------------------------------------------------------ *)
(* exponent sums respect row equality; the zero row is neutral *)
Lemma vaddq_compat_l : forall a a' b, qrow_eqb a a' = true -> qrow_eqb (vaddq a b) (vaddq a' b) = true.
Proof.
  induction a as [|x a IH]; intros [|y a'] b H; try discriminate; [reflexivity|].
  destruct b as [|z b]; [reflexivity|].
  cbn [qrow_eqb] in H. apply andb_prop in H as [H1 H2].
  cbn [vaddq qrow_eqb]. apply andb_true_intro. split; [|now apply IH].
  apply Qeq_bool_iff in H1. apply Qeq_bool_iff.
  rewrite !Qred_correct. now rewrite H1.
Qed.

Lemma vaddq_zeros_l : forall n b, length b = n -> qrow_eqb (vaddq (repeat 0%Q n) b) b = true.
Proof. intros n b H. rewrite SymCorrBase.vaddq_comm. subst n. apply vaddq_zeros. Qed.

Lemma vaddq_rzeros_l : forall n b, length b = n ->
  qrow_eqb (vaddq (round_row (repeat 0%Q n)) b) b = true.
Proof.
  intros n b H. apply (qrow_eqb_trans _ (vaddq (repeat 0%Q n) b)).
  - apply vaddq_compat_l, round_row_eqb, on_grid_row_zeros.
  - now apply vaddq_zeros_l.
Qed.

Lemma shift_resp : forall r b a a', qrow_eqb a a' = true -> ind r (vaddq a b) = ind r (vaddq a' b).
Proof. intros. now apply ind_resp, vaddq_compat_l. Qed.

(* ------------------------------------------------------------------ *)
(* generic facts about gev at an indicator *)
Section G.
  Context {C : Type} (phi : C -> R).

  Lemma gev_ext_in : forall chi chi' (f : list (qrow * C)),
    (forall t, In t f -> chi (fst t) = chi' (fst t)) -> gev phi chi f = gev phi chi' f.
  Proof.
    intros chi chi' f. induction f as [|t f IH]; intros H; [reflexivity|].
    rewrite !gev_cons, IH, (H t) by (try (now left); intros; apply H; now right). reflexivity.
  Qed.

  Lemma gev_ind_absent : forall r (L : list (qrow * C)),
    mem_row r (map fst L) = false -> gev phi (ind r) L = 0.
  Proof.
    intros r L. induction L as [|t L IH]; intros H; [reflexivity|].
    cbn [map mem_row] in H. apply orb_false_iff in H as [H1 H2].
    rewrite gev_cons, IH by exact H2. unfold ind. rewrite qrow_eqb_sym, H1. lra.
  Qed.

  (* for pairwise distinct rows the value at the indicator of the j-th row is the j-th coefficient *)
  Lemma gev_nth_ind : forall (L : list (qrow * C)) d j, NoDupR (map fst L) -> (j < length L)%nat ->
    gev phi (ind (fst (nth j L d))) L = phi (snd (nth j L d)).
  Proof.
    induction L as [|t L IH]; intros d j Hn Hj; [simpl in Hj; lia|].
    cbn [map] in Hn. inversion Hn as [|r l Hm Hn']; subst.
    destruct j as [|j]; cbn [nth].
    - rewrite gev_cons, ind_self, (gev_ind_absent _ _ Hm). lra.
    - simpl in Hj. assert (Hj' : (j < length L)%nat) by lia.
      rewrite gev_cons, (IH d j Hn' Hj').
      assert (E : ind (fst (nth j L d)) (fst t) = 0).
      { unfold ind. rewrite (mem_row_false _ _ Hm (fst (nth j L d))); [reflexivity|].
        apply in_map, nth_In, Hj'. }
      rewrite E. lra.
  Qed.
End G.

(* ------------------------------------------------------------------ *)
(* products with a numeric right factor, at any chi *)
Lemma gprod_row_num : forall rho chi (F : ssig) b q,
  gev (value rho) chi (gprod_row s_mul (b, sconst q) F) =
  Q2R q * gev (value rho) (fun a => chi (round_row (vaddq a b))) F.
Proof.
  intros rho chi F b q. induction F as [|[a c] F IH].
  - unfold gev. simpl. lra.
  - unfold gprod_row in *. cbn [map]. rewrite !gev_cons, IH. cbn [fst snd].
    rewrite v_mul, value_sconst.
    + ring.
    + unfold s_mul_ok. rewrite is_constant_sconst. apply orb_true_r.
Qed.

Lemma gprod_raw_num : forall rho chi (F : ssig) (t : qsig),
  gev (value rho) chi (gprod_raw s_mul F (of_numeric t)) =
  rsum (map (fun u => Q2R (snd u) * gev (value rho) (fun a => chi (round_row (vaddq a (fst u)))) F) t).
Proof.
  intros rho chi F t. induction t as [|[b q] t IH]; [reflexivity|].
  unfold gprod_raw, of_numeric in *. cbn [map flat_map fst snd].
  rewrite gev_app, IH, gprod_row_num. reflexivity.
Qed.

Lemma rsum_map_lin : forall (A : Type) (F G : A -> R) c (l : list A),
  rsum (map (fun x => F x - c * G x) l) = rsum (map F l) - c * rsum (map G l).
Proof.
  intros A F G c l. induction l as [|x l IH]; unfold rsum in *; cbn [map fold_right]; [lra|].
  rewrite IH. lra.
Qed.

(* ------------------------------------------------------------------ *)
(* the coefficient of the modulated Lagrangian at a row r *)
Lemma mlag_wf : forall n f' g t, wfsig n f' -> f' <> [] -> wfsig n t ->
  wfs n (mlag n f' g t) /\ NoDupR (map fst (mlag n f' g t)).
Proof.
  intros n f' g t Hw Hne Hwt. destruct (lag0_ok n f' g Hw Hne) as (L1 & _ & _). split.
  - exact (gmul_wf (sconst 0%Q) sadd sconst s_iszero n s_mul _ _ L1 (of_numeric_wfs n t Hwt)).
  - unfold mlag, s_mul_sig. rewrite gmul_unfold. apply gwz_nodup. rewrite gprod_unfold. apply gmk_nodup.
Qed.

Lemma mlag_coef : forall n f' g t rho r, wfsig n f' -> f' <> [] -> wfsig n t ->
  gev (value rho) (ind r) (mlag n f' g t) =
  SymCorrReal.coefR (q_mul n f' t) r - rho g * SymCorrReal.coefR t r.
Proof.
  intros n f' g t rho r Hw Hne Hwt.
  destruct (lag0_ok n f' g Hw Hne) as (L1 & _ & _).
  pose proof (of_numeric_wfs n t Hwt) as T1.
  unfold mlag, s_mul_sig. rewrite gmul_unfold.
  rewrite (gwz_eval (sconst 0%Q) sadd (value rho) (ind r) (v_zero rho) (value_sadd rho) (ind_resp r)
             sconst s_iszero (v_iszero rho) (v_zero rho) n _
             (gprod_wf (sconst 0%Q) sadd n s_mul _ _ L1 T1)).
  rewrite gprod_unfold.
  rewrite (gmk_eval_grid (sconst 0%Q) sadd (value rho) (ind r) (v_zero rho) (value_sadd rho) (ind_resp r) n _
             (gprod_raw_wf n s_mul _ _ L1 T1)).
  rewrite gprod_raw_num.
  (* numeric side *)
  rewrite SymCorrOwn.coefR_q_mul. unfold SymCorrOwn.prodterms, SymCorrReal.coefR.
  rewrite SymCorrReal.rsum_flat_map. rewrite <- rsum_map_lin.
  apply SymCorrReal.rsum_map_ext. intros [b q] Hu. cbn [fst snd].
  assert (Hb : length b = n /\ on_grid_row b).
  { unfold wfsig in Hwt. rewrite Forall_forall in Hwt. exact (Hwt (b, q) Hu). }
  destruct Hb as [Hbl Hbg].
  (* replace the rounded shift by the plain shift on the rows of the Lagrangian *)
  rewrite (gev_ext_in (value rho) (fun a => ind r (round_row (vaddq a b))) (fun a => ind r (vaddq a b))).
  2:{ intros u Hin. apply ind_resp, round_row_eqb, on_grid_row_vaddq; auto.
      unfold wfs in L1. rewrite Forall_forall in L1. exact (proj2 (L1 u Hin)). }
  change (gev (value rho) (fun a => ind r (vaddq a b)) (lagrangian0 n f' g))
    with (sevalchi (fun a => ind r (vaddq a b)) rho (lagrangian0 n f' g)).
  rewrite (lag0_ev n f' g (fun a => ind r (vaddq a b)) rho (shift_resp r b) Hw).
  rewrite (ind_resp r _ _ (vaddq_rzeros_l n b Hbl)).
  rewrite SymCorrReal.evalchi_rsum, map_map. cbn [fst snd].
  rewrite Rmult_minus_distr_l, <- SymCorrReal.rsum_map_scal.
  f_equal.
  - apply SymCorrReal.rsum_map_ext. intros [a c] Hin. cbn [fst snd].
    assert (Ha : on_grid_row a).
    { unfold wfsig in Hw. rewrite Forall_forall in Hw. exact (proj2 (Hw (a, c) Hin)). }
    rewrite (qrow_eqb_compat_l _ _ r (round_row_eqb _ (on_grid_row_vaddq a b Ha Hbg))).
    unfold ind. destruct (qrow_eqb (vaddq a b) r); rewrite ?Q2R_qmul; ring.
  - unfold ind. destruct (qrow_eqb b r); ring.
Qed.

(* ------------------------------------------------------------------ *)
(* reference rows: NoDupR is SymCorrBase's distinct *)
Lemma NoDupR_distinct : forall l, NoDupR l -> SymCorrBase.distinct l.
Proof. intros l H. induction H; cbn [SymCorrBase.distinct]; auto. Qed.

Lemma nth_map_fst : forall (L : ssig) j, nth j (map fst L) [] = fst (nth j L ([], sconst 0%Q)).
Proof. intros. exact (map_nth fst L ([], sconst 0%Q) j). Qed.

Lemma rcv_at : forall n (G : qsig) (L : ssig), good n G -> wfs n L -> NoDupR (map fst L) ->
  length (relative_coeff_vector G (map fst L)) = length L /\
  forall j, (j < length L)%nat ->
    Q2R (nth j (relative_coeff_vector G (map fst L)) 0%Q) =
    SymCorrReal.coefR G (fst (nth j L ([], sconst 0%Q))).
Proof.
  intros n G L (Gw & Gd & _) Lw Ln.
  assert (R1 : Forall (fun r => length r = n /\ on_grid_row r) (map fst L)).
  { unfold wfs in Lw. rewrite Forall_forall in *. intros r Hr.
    apply in_map_iff in Hr as [u [<- Hu]]. now apply Lw. }
  pose proof (SymCorrBase.distinct_nth _ (NoDupR_distinct _ Ln)) as R2.
  destruct (SymCorrProofs.rcv_placement n G (map fst L) Gw Gd R1 R2) as [E1 E2].
  rewrite map_length in E1, E2. split; [exact E1|].
  intros j Hj. rewrite (Qeq_eqR _ _ (E2 j Hj)), nth_map_fst.
  apply SymCorrReal.query_coeff_coefR. now apply SymCorrBase.rows_distinct_distinct.
Qed.

(* ------------------------------------------------------------------ *)
(* the statement, for explicit f' and t *)
Lemma mlag_coeffs : forall n f' g t rho, good n f' -> good n t ->
  let L := mlag n f' g t in
  let a := relative_coeff_vector t (map fst L) in
  let obj := relative_coeff_vector (q_mul n f' t) (map fst L) in
  length a = length L /\ length obj = length L /\
  forall j, (j < length L)%nat ->
    value rho (snd (nth j L ([], sconst 0%Q))) = Q2R (nth j obj 0%Q) - rho g * Q2R (nth j a 0%Q).
Proof.
  intros n f' g t rho (Hw & Hd & Hne) (Hwt & Hdt & Hnt) L a obj.
  destruct (mlag_wf n f' g t Hw Hne Hwt) as [Lw Ln]. fold L in Lw, Ln.
  destruct (rcv_at n t L (conj Hwt (conj Hdt Hnt)) Lw Ln) as [A1 A2].
  destruct (rcv_at n (q_mul n f' t) L (proj2 (mul_good n f' t Hw Hwt Hne Hnt)) Lw Ln) as [O1 O2].
  split; [exact A1|]. split; [exact O1|].
  intros j Hj. unfold a, obj. rewrite (A2 j Hj), (O2 j Hj).
  rewrite <- (gev_nth_ind (value rho) L ([], sconst 0%Q) j Ln Hj).
  unfold L. apply mlag_coef; auto.
Qed.

Lemma lagrangian_coeffs : lagrangian_coeffs_stmt.
Proof.
  intros n f g ms ell rho Hf Hs. rewrite sig_dual_unfold. cbv zeta. intros _ _.
  destruct (fwf_wz n f Hf) as (Hw' & Hd' & Hne').
  destruct (modulator_good n (q_without_zeros n f) g ms ell Hw' Hne' Hs) as [Hgt _].
  exact (mlag_coeffs n _ g _ rho (conj Hw' (conj Hd' Hne')) Hgt).
Qed.
