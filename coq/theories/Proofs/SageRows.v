(* Proofs/SageRows.v — row-value lemmas for Model/Sage.v shared by the primal and the dual side:
   index lists (indices_where, cover_idx), finite sums, entries / entries_e, sum_relent_rows,
   matvec_rows, transposeQ, vsubQ, pad, single-cone blocks. *)
From Coq Require Import Reals List Bool Arith ZArith QArith Qreals Lra Lia.
From SageVerif Require Import Math.RVec Model.Expr Model.SolverForms Model.Compile Model.Sage
  Proofs.MathSpec Proofs.MathProofs Proofs.ExprSpec Proofs.FormsSpec Proofs.FormsLemmas
  Proofs.CompileSpec Proofs.ExprAtoms Proofs.ExprScalar Proofs.CompileRows Proofs.CompileBlocks
  Proofs.SageSpec.
Import ListNotations.
Open Scope R_scope.

(* ------------------------------------------------------------------ lists *)
Lemma nth_map_seq {X} (f : nat -> X) (d : X) : forall m j, (j < m)%nat ->
  nth j (map f (seq 0 m)) d = f j.
Proof.
  intros m j H. rewrite (nth_indep _ d (f 0%nat)) by (now rewrite map_length, seq_length).
  rewrite (map_nth f (seq 0 m) 0%nat j), seq_nth by assumption. reflexivity.
Qed.

Lemma map_combine_self {X Y Z} (g : X * Y -> Z) (h : X -> Y) : forall l,
  map g (combine l (map h l)) = map (fun x => g (x, h x)) l.
Proof. induction l as [|x l IH]; simpl; [reflexivity | now rewrite IH]. Qed.

Lemma filter_combine_seq {X} (f : X -> bool) (d : X) : forall l s,
  map fst (filter (fun ix => f (snd ix)) (combine (seq s (length l)) l))
  = filter (fun j => f (nth (j - s) l d)) (seq s (length l)).
Proof.
  induction l as [|x l IH]; intros s; [reflexivity|].
  cbn [length seq combine filter snd]. rewrite Nat.sub_diag. change (nth 0 (x :: l) d) with x.
  assert (E : filter (fun j => f (nth (j - s) (x :: l) d)) (seq (S s) (length l))
              = filter (fun j => f (nth (j - S s) l d)) (seq (S s) (length l))).
  { apply filter_ext_in. intros j Hj. apply in_seq in Hj.
    replace (j - s)%nat with (S (j - S s)) by lia. reflexivity. }
  destruct (f x); cbn [map fst]; rewrite IH, E; reflexivity.
Qed.

(* indices_where is a filter of the positions *)
Lemma indices_where_filter {X} (f : X -> bool) (d : X) : forall l,
  indices_where f l = filter (fun j => f (nth j l d)) (seq 0 (length l)).
Proof.
  intros l. unfold indices_where. rewrite (filter_combine_seq f d l 0).
  apply filter_ext. intros j. now rewrite Nat.sub_0_r.
Qed.

Lemma indices_where_In {X} (f : X -> bool) (d : X) : forall l j,
  In j (indices_where f l) <-> (j < length l)%nat /\ f (nth j l d) = true.
Proof.
  intros l j. rewrite (indices_where_filter f d), filter_In, in_seq. intuition lia.
Qed.

Lemma NoDup_filter {X} (p : X -> bool) : forall l, NoDup l -> NoDup (filter p l).
Proof.
  induction 1 as [|x l Hx Hl IH]; simpl; [constructor|].
  destruct (p x); auto. constructor; auto. intros H. apply filter_In in H. tauto.
Qed.

Lemma indices_where_NoDup {X} (f : X -> bool) : forall l, NoDup (indices_where f l).
Proof.
  intros l. destruct l as [|d l']; [constructor|].
  rewrite (indices_where_filter f d). apply NoDup_filter, seq_NoDup.
Qed.

Lemma filter_nil_iff {X} (p : X -> bool) : forall l, (forall x, In x l -> p x = false) -> filter p l = [].
Proof.
  induction l as [|x l IH]; intros H; simpl; auto.
  rewrite (H x) by now left. apply IH. intros y Hy. apply H. now right.
Qed.

Lemma filter_eqb_seq : forall p m s, (s <= p < s + m)%nat ->
  filter (fun q => Nat.eqb p q) (seq s m) = [p].
Proof.
  intros p. induction m as [|m IH]; intros s H; [lia|].
  cbn [seq filter]. destruct (Nat.eqb_spec p s) as [->|Hne].
  - f_equal. apply filter_nil_iff.
    intros q Hq. apply in_seq in Hq. apply Nat.eqb_neq. lia.
  - apply IH. lia.
Qed.

(* position of an element of a duplicate-free index list *)
Lemma indices_where_pos : forall (cov : list nat) p, NoDup cov -> (p < length cov)%nat ->
  indices_where (Nat.eqb (nth p cov 0%nat)) cov = [p].
Proof.
  intros cov p Hn Hp. rewrite (indices_where_filter _ 0%nat).
  rewrite <- (filter_eqb_seq p (length cov) 0) by lia.
  apply filter_ext_in. intros q Hq. apply in_seq in Hq.
  destruct (Nat.eqb_spec p q) as [->|Hne]; [apply Nat.eqb_refl|].
  apply Nat.eqb_neq. intros E. apply Hne. apply (proj1 (NoDup_nth cov 0%nat) Hn); auto; lia.
Qed.

Lemma indices_where_none : forall (cov : list nat) j, ~ In j cov ->
  indices_where (Nat.eqb j) cov = [].
Proof.
  intros cov j H. rewrite (indices_where_filter _ 0%nat). apply filter_nil_iff.
  intros q Hq. apply in_seq in Hq. apply Nat.eqb_neq. intros ->. apply H, nth_In. lia.
Qed.

Lemma cover_idx_In : forall cov j, In j (cover_idx cov) <-> (j < length cov)%nat /\ nth j cov false = true.
Proof. intros. unfold cover_idx. apply (indices_where_In (fun b : bool => b) false). Qed.

Lemma cover_idx_NoDup : forall cov, NoDup (cover_idx cov).
Proof. intros. apply indices_where_NoDup. Qed.

Lemma cover_idx_filter : forall cov,
  cover_idx cov = filter (fun j => nth j cov false) (seq 0 (length cov)).
Proof. intros. unfold cover_idx. apply (indices_where_filter (fun b : bool => b) false). Qed.

(* ------------------------------------------------------------------ finite sums *)
Lemma rsum_map {X} (f : X -> R) : forall l, rsum (map f l) = rsumf f l.
Proof. unfold rsum. induction l as [|x l IH]; simpl; [reflexivity|]. now rewrite IH. Qed.

Lemma rsumf_le {X} (f g : X -> R) : forall l, (forall a, In a l -> f a <= g a) -> rsumf f l <= rsumf g l.
Proof.
  induction l as [|x l IH]; intros H; simpl; [lra|].
  pose proof (H x (or_introl eq_refl)). specialize (IH (fun a Ha => H a (or_intror Ha))). lra.
Qed.

Lemma rsumf_nonneg {X} (f : X -> R) : forall l, (forall a, In a l -> 0 <= f a) -> 0 <= rsumf f l.
Proof.
  induction l as [|x l IH]; intros H; simpl; [lra|].
  pose proof (H x (or_introl eq_refl)). specialize (IH (fun a Ha => H a (or_intror Ha))). lra.
Qed.

Lemma rsumf_swap {X Y} (F : X -> Y -> R) : forall l1 l2,
  rsumf (fun i => rsumf (fun j => F i j) l2) l1 = rsumf (fun j => rsumf (fun i => F i j) l1) l2.
Proof.
  induction l1 as [|x l1 IH]; intros l2.
  - simpl. symmetry. apply rsumf_zero. reflexivity.
  - cbn [rsumf fold_right]. change (fold_right (fun a acc => rsumf (fun j => F a j) l2 + acc) 0 l1)
      with (rsumf (fun i => rsumf (fun j => F i j) l2) l1).
    rewrite IH, <- rsumf_plus. reflexivity.
Qed.

Lemma rsumf_pick : forall (f : nat -> R) i l, NoDup l -> In i l ->
  rsumf (fun j => if Nat.eqb j i then f j else 0) l = f i.
Proof.
  intros f i l H. induction H as [|x l Hx Hn IH]; intros Hi; [destruct Hi|].
  simpl. destruct Hi as [->|Hi].
  - rewrite Nat.eqb_refl, rsumf_zero; [lra|].
    intros j Hj. destruct (Nat.eqb_spec j i) as [->|]; [contradiction | reflexivity].
  - destruct (Nat.eqb_spec x i) as [->|]; [contradiction|]. rewrite IH by assumption. lra.
Qed.

(* a sum over 0..m-1 of a function supported on {i} and a filtered sub-list *)
Lemma rsumf_support : forall (f : nat -> R) (p : nat -> bool) m i, (i < m)%nat -> p i = false ->
  (forall j, (j < m)%nat -> j <> i -> p j = false -> f j = 0) ->
  rsumf f (seq 0 m) = f i + rsumf f (filter p (seq 0 m)).
Proof.
  intros f p m i Hi Hpi Hz.
  transitivity (rsumf (fun j => (if Nat.eqb j i then f j else 0) + (if Nat.eqb j i then 0 else f j)) (seq 0 m)).
  { apply rsumf_ext. intros j _. destruct (Nat.eqb j i); lra. }
  rewrite rsumf_plus, rsumf_pick by (try apply seq_NoDup; apply in_seq; lia). f_equal.
  rewrite <- (rsumf_filter _ p).
  - apply rsumf_ext. intros j Hj. apply filter_In in Hj as [_ Hj].
    destruct (Nat.eqb_spec j i) as [->|]; [congruence | reflexivity].
  - intros j Hj Hp. apply in_seq in Hj. destruct (Nat.eqb_spec j i); [reflexivity|]. apply Hz; auto; lia.
Qed.

Lemma rsumf_seq_shift : forall (f : nat -> R) s m, rsumf f (seq (S s) m) = rsumf (fun j => f (S j)) (seq s m).
Proof. intros. now rewrite <- seq_shift, rsumf_map. Qed.

(* ------------------------------------------------------------------ signomials as finite sums *)
Lemma sigeval_rsumf : forall A v x,
  sigeval A v x = rsumf (fun j => nth j v 0 * exp (dot (nth j A []) x)) (seq 0 (length A)).
Proof.
  induction A as [|a A IH]; intros v x; [destruct v; reflexivity|].
  cbn [length seq]. rewrite (rsumf_cons _ _ 0%nat), rsumf_seq_shift.
  destruct v as [|c v]; cbn [sigeval nth].
  - rewrite rsumf_zero; [lra|]. intros j _. destruct j; lra.
  - rewrite IH. reflexivity.
Qed.

Lemma sigeval_sub : forall (A : list (list R)) (v : list R) x (l : list nat),
  sigeval (map (fun j => nth j A []) l) (map (fun j => nth j v 0) l) x
  = rsumf (fun j => nth j v 0 * exp (dot (nth j A []) x)) l.
Proof. induction l as [|j l IH]; simpl; [reflexivity | now rewrite IH]. Qed.

Lemma sigeval_nonneg : forall A v x, Forall (fun c => 0 <= c) v -> 0 <= sigeval A v x.
Proof.
  induction A as [|a A IH]; intros v x H; [destruct v; simpl; lra|].
  destruct v as [|c v]; simpl; [lra|]. inversion H; subst.
  pose proof (exp_pos (dot a x)). specialize (IH v x H3). nra.
Qed.

(* ------------------------------------------------------------------ Q vectors *)
Lemma aR_length : forall alpha, length (aR alpha) = length alpha.
Proof. intros. unfold aR. apply map_length. Qed.

Lemma aR_nth : forall alpha j, nth j (aR alpha) [] = map Q2R (nth j alpha []).
Proof. intros. unfold aR. exact (map_nth (map Q2R) alpha [] j). Qed.

Lemma vsubQ_R : forall a b, map Q2R (vsubQ a b) = vsub (map Q2R a) (map Q2R b).
Proof.
  unfold vsubQ. induction a as [|x a IH]; intros [|y b]; cbn [combine map vsub fst snd]; try reflexivity.
  rewrite IH, EQ2R_Qred. unfold Qminus. rewrite Q2R_plus, Q2R_opp. reflexivity.
Qed.

Lemma vsubQ_length : forall a b, length a = length b -> length (vsubQ a b) = length a.
Proof. intros. unfold vsubQ. rewrite map_length, combine_length. lia. Qed.

Lemma pad_length : forall k r, (length r <= k)%nat -> length (pad k r) = k.
Proof. intros. unfold pad. rewrite app_length, repeat_length. lia. Qed.

Lemma pad_id : forall r, pad (length r) r = r.
Proof. intros. unfold pad. rewrite Nat.sub_diag. apply app_nil_r. Qed.

Lemma pad_exact : forall k r, length r = k -> pad k r = r.
Proof. intros k r <-. apply pad_id. Qed.

Lemma dot_app_zeros : forall a k z, dot (a ++ repeat 0 k) z = dot a (firstn (length a) z).
Proof.
  induction a as [|x a IH]; intros k z.
  - simpl. apply f_dot_repeat0_l.
  - destruct z as [|y z]; simpl; [reflexivity|]. now rewrite IH.
Qed.

Lemma dot_pad : forall k a z, dot (map Q2R (pad k a)) z = dot (map Q2R a) (firstn (length a) z).
Proof.
  intros. unfold pad. rewrite map_app, map_repeat', EQ2R_0, dot_app_zeros, map_length. reflexivity.
Qed.

Lemma pad_nth : forall k alpha j, (j < length alpha)%nat ->
  nth j (map (pad k) alpha) [] = pad k (nth j alpha []).
Proof.
  intros k alpha j H. rewrite (nth_indep _ [] (pad k [])) by (now rewrite map_length).
  apply map_nth.
Qed.

(* ------------------------------------------------------------------ transposeQ / matvec_rows *)
Lemma tmv_cons_col : forall w (M : list (list Q)) v, Forall (fun r => length r = S w) M ->
  tmv (S w) (aR M) v = dot (map Q2R (map (fun r => hd 0%Q r) M)) v :: tmv w (aR (map (fun r => tl r) M)) v.
Proof.
  intros w. induction M as [|r M IH]; intros v H.
  - simpl. reflexivity.
  - inversion H as [|? ? Hr HM]; subst. destruct v as [|e v].
    + simpl. reflexivity.
    + destruct r as [|a r]; [discriminate|].
      cbn [aR map tmv hd tl]. fold (aR M). fold (aR (map (fun r => tl r) M)).
      rewrite (IH v HM). cbn [vscale map vadd dot]. f_equal. ring.
Qed.

Lemma mv_transposeQ : forall w (M : list (list Q)) v, Forall (fun r => length r = w) M ->
  mv (aR (transposeQ w M)) v = tmv w (aR M) v.
Proof.
  induction w as [|w IH]; intros M v H.
  - simpl. clear -H. revert v. induction H as [|r M Hr HM IHM]; intros v; [reflexivity|].
    destruct v as [|e v]; [reflexivity|]. destruct r; [|discriminate]. simpl. reflexivity.
  - cbn [transposeQ aR map mv]. fold (aR (transposeQ w (map (fun r => tl r) M))).
    fold (mv (aR (transposeQ w (map (fun r => tl r) M))) v).
    rewrite tmv_cons_col by assumption. rewrite IH; [reflexivity|].
    apply Forall_forall. intros r Hr. apply in_map_iff in Hr as [r0 [<- Hr0]].
    rewrite Forall_forall in H. specialize (H r0 Hr0). destruct r0; [discriminate|]. simpl in *. lia.
Qed.

Lemma transposeQ_length : forall w M, length (transposeQ w M) = w.
Proof. induction w as [|w IH]; intros M; simpl; [reflexivity | now rewrite IH]. Qed.

Lemma esum_app : forall rho l1 l2, esum rho (l1 ++ l2) = esum rho l1 + esum rho l2.
Proof. intros. unfold esum. apply rsumf_app. Qed.

Lemma qe_val_zero : qe_val qzero = 0.
Proof. unfold qzero. rewrite qe_val_of. apply EQ2R_0. Qed.
Lemma qe_val_one : qe_val qone = 1.
Proof. unfold qone. rewrite qe_val_of. apply EQ2R_1. Qed.
Lemma qe_val_mone : qe_val qmone = -1.
Proof. unfold qmone. rewrite qe_val_of. apply EQ2R_m1. Qed.
Lemma qe_val_qe_e : forall q, qe_val (qe_e q) = exp 1 * Q2R q.
Proof. intros. unfold qe_e. rewrite qe_val_e. now rewrite EQ2R_Qred. Qed.

Lemma matvec_row_val : forall rho (r : list Q) ids,
  esum rho (map (fun ci : Q * Z => (snd ci, qe_of (fst ci))) (combine r ids)) = dot (map Q2R r) (map rho ids).
Proof.
  intros rho. induction r as [|q r IH]; intros [|i ids]; cbn [combine map dot]; try reflexivity.
  rewrite esum_cons, IH. cbn [fst snd]. now rewrite qe_val_of.
Qed.

Lemma matvec_rows_val : forall rho mat ids,
  map (rrow_val rho) (matvec_rows mat ids) = mv (aR mat) (map rho ids).
Proof.
  intros. unfold matvec_rows, mv, aR. rewrite !map_map. apply map_ext. intros r.
  rewrite rrow_val_pair, matvec_row_val, qe_val_zero. lra.
Qed.

Lemma matvec_rows_length : forall mat ids, length (matvec_rows mat ids) = length mat.
Proof. intros. unfold matvec_rows. apply map_length. Qed.

Lemma matvec_rows_off : forall mat ids r, In r (matvec_rows mat ids) -> snd r = qzero.
Proof. intros mat ids r H. unfold matvec_rows in H. apply in_map_iff in H as [x [<- _]]. reflexivity. Qed.

(* rows glued entry-wise: the values add *)
Lemma glued_rows_val : forall rho (L1 L2 : list rrow),
  (forall r, In r L1 -> snd r = qzero) -> (forall r, In r L2 -> snd r = qzero) ->
  map (rrow_val rho) (map (fun rr : rrow * rrow => (fst (fst rr) ++ fst (snd rr), qzero)) (combine L1 L2))
  = vadd (map (rrow_val rho) L1) (map (rrow_val rho) L2).
Proof.
  intros rho. induction L1 as [|r1 L1 IH]; intros [|r2 L2] H1 H2; try reflexivity.
  cbn [combine map vadd]. rewrite IH by (intros r Hr; solve [apply H1; now right | apply H2; now right]).
  f_equal. rewrite rrow_val_pair, esum_app, !rrow_val_eq.
  rewrite (H1 r1), (H2 r2) by now left. cbn [fst snd]. rewrite qe_val_zero. lra.
Qed.

Lemma mv_neg : forall (T : list (list Q)) v,
  mv (aR (map (map (fun q => Qred (- q)%Q)) T)) v = map Ropp (mv (aR T) v).
Proof.
  intros. unfold mv, aR. rewrite !map_map. apply map_ext. intros r. revert v.
  induction r as [|q r IH]; intros [|y v]; cbn [map dot]; try lra.
  rewrite IH, EQ2R_Qred, Q2R_opp. lra.
Qed.

Lemma vadd_opp : forall a b, vadd a (map Ropp b) = vsub a b.
Proof. induction a as [|x a IH]; intros [|y b]; simpl; try reflexivity. now rewrite IH. Qed.

(* ------------------------------------------------------------------ single cones *)
Lemma Forall_zero_vzero : forall v, Forall (fun x => x = 0) v <-> v = vzero (length v).
Proof.
  induction v as [|x v IH]; simpl; [split; auto|]. split.
  - intros H. inversion H; subst. unfold vzero. simpl. f_equal. now apply IH.
  - intros H. unfold vzero in H. simpl in H. injection H as -> Hv. constructor; [reflexivity|]. now apply IH.
Qed.

Lemma block_T0 : forall rho n rows, length rows = n ->
  (block_sat rho ([(T0, n)], rows) <-> map (rrow_val rho) rows = vzero n).
Proof.
  intros rho n rows H. rewrite block_single by assumption. cbn [sem_tag in_cone].
  rewrite Forall_zero_vzero, map_length, H. reflexivity.
Qed.

Lemma block_TPos : forall rho n rows, length rows = n ->
  (block_sat rho ([(TPos, n)], rows) <-> Forall (fun r => 0 <= rrow_val rho r) rows).
Proof.
  intros rho n rows H. rewrite block_single by assumption. cbn [sem_tag in_cone].
  rewrite Forall_map. reflexivity.
Qed.

Lemma zero_in_pos : forall rho n rows,
  block_sat rho ([(T0, n)], rows) -> block_sat rho ([(TPos, n)], rows).
Proof.
  intros rho n rows. unfold block_sat. cbn [fst snd semK map sem_tag in_K in_cone].
  intros [H1 [H2 H3]]. repeat split; auto.
  eapply Forall_impl; [|exact H2]. intros x ->. lra.
Qed.

(* ------------------------------------------------------------------ affine cells *)
Lemma atom_eqb_var_l : forall a b, atom_eqb a b = true -> is_var b = true -> is_var a = true.
Proof. intros [i|k xs] [j|l ys]; simpl; auto; discriminate. Qed.

Lemma affine_cell_terms : forall e, affine_cell e <-> Forall (fun t => is_var (fst t) = true) (terms e).
Proof.
  intros e. unfold affine_cell. rewrite forallb_forall, Forall_forall. split.
  - intros H t Ht. apply keys_cover in Ht. apply mem_atom_iff in Ht as [x [Hx He]].
    eapply atom_eqb_var_l; eauto.
  - intros H a Ha. apply keys_in_terms in Ha. apply in_map_iff in Ha as [t [<- Ht]]. auto.
Qed.

Lemma affine_svar : forall i, affine_cell (svar i).
Proof. intros. apply affine_cell_terms. repeat constructor. Qed.

Lemma affine_sconst : forall q, affine_cell (sconst q).
Proof. intros. apply affine_cell_terms. constructor. Qed.

Lemma affine_sneg : forall e, affine_cell e -> affine_cell (sneg e).
Proof.
  intros e H. apply affine_cell_terms in H. apply affine_cell_terms.
  unfold sneg, sscale_raw. cbn [terms]. rewrite Forall_map. exact H.
Qed.

Lemma affine_sadd : forall a b, affine_cell a -> affine_cell b -> affine_cell (sadd a b).
Proof.
  intros a b Ha Hb. apply affine_cell_terms in Ha, Hb. apply affine_cell_terms.
  unfold sadd. cbn [terms]. apply Forall_app. auto.
Qed.

Lemma value_sneg : forall rho e, value rho (sneg e) = - value rho e.
Proof. intros. unfold sneg. rewrite value_sscale_raw, EQ2R_m1. lra. Qed.

Lemma value_nth : forall rho l j, nth j (map (value rho) l) 0 = value rho (nth j l (sconst 0%Q)).
Proof.
  intros rho l j. rewrite <- (map_nth (value rho) l (sconst 0%Q) j). f_equal.
  rewrite value_sconst. symmetry. apply EQ2R_0.
Qed.

(* ------------------------------------------------------------------ entries *)
Lemma keysum_eq : forall rho e,
  value rho e = rsumf (fun a => Q2R (coeff_of a e) * atom_val rho a) (keys e) + Q2R (off e).
Proof. intros. apply value_by_keys. Qed.

Lemma esum_entries : forall rho neg e, affine_cell e ->
  esum rho (entries neg e) = (if neg then -1 else 1) * (value rho e - Q2R (off e)).
Proof.
  intros rho neg e Ha. rewrite keysum_eq. unfold affine_cell in Ha. unfold entries.
  induction (keys e) as [|a ks IH].
  - simpl. unfold esum; simpl. destruct neg; lra.
  - simpl in Ha. apply andb_prop in Ha as [Hv Ha]. specialize (IH Ha).
    cbn [map]. rewrite esum_cons, rsumf_cons, IH. cbn [fst snd].
    rewrite qe_val_of, (is_var_val rho a Hv). destruct neg; [rewrite Q2R_opp|]; lra.
Qed.

Lemma esum_entries_e : forall rho e, affine_cell e ->
  esum rho (entries_e e) = exp 1 * (value rho e - Q2R (off e)).
Proof.
  intros rho e Ha. rewrite keysum_eq. unfold affine_cell in Ha. unfold entries_e.
  induction (keys e) as [|a ks IH].
  - simpl. unfold esum; simpl. lra.
  - simpl in Ha. apply andb_prop in Ha as [Hv Ha]. specialize (IH Ha).
    cbn [map]. rewrite esum_cons, rsumf_cons, IH. cbn [fst snd].
    rewrite qe_val_qe_e, (is_var_val rho a Hv). lra.
Qed.

Lemma esum_const_ids : forall rho (c : qe) ids,
  esum rho (map (fun t : Z => (t, c)) ids) = qe_val c * rsum (map rho ids).
Proof.
  intros rho c. induction ids as [|i ids IH]; [unfold esum; simpl; lra|].
  cbn [map]. rewrite esum_cons, IH. cbn [fst snd]. unfold rsum. simpl. lra.
Qed.

Lemma row_single_val : forall rho t (c : qe), rrow_val rho ([(t, c)], qzero) = qe_val c * rho t.
Proof. intros. rewrite rrow_val_pair, esum_cons, esum_nil, qe_val_zero. cbn [fst snd]. lra. Qed.

(* ------------------------------------------------------------------ sum_relent_rows *)
Lemma relent_triples : forall rho nu y epi, length y = length nu -> length epi = length nu ->
  Forall affine_cell y ->
  (in_K (repeat (CExp, 3%nat) (length nu))
        (map (rrow_val rho)
           (flat_map (fun nye : Z * sexpr * Z => let '(n_j, y_j, e_j) := nye in
                        [ ([(e_j, qmone)], qzero); (entries_e y_j, qe_e (off y_j)); ([(n_j, qone)], qzero) ])
                     (combine (combine nu y) epi)))
   <-> Forall3 (fun e c v => Kexp (- e) (exp 1 * c) v) (map rho epi) (map (value rho) y) (map rho nu)).
Proof.
  intros rho. induction nu as [|n nu IH]; intros [|yj y] [|ej epi] Hy He Ha; try discriminate.
  - simpl. split; [constructor | reflexivity].
  - inversion Ha as [|? ? Ha1 Ha2]; subst. simpl in Hy, He.
    cbn [length repeat combine flat_map map app]. cbn [in_K firstn skipn length in_cone].
    rewrite (IH y epi) by (auto; lia).
    rewrite !row_single_val, rrow_val_pair, esum_entries_e, qe_val_qe_e, qe_val_mone, qe_val_one by assumption.
    replace (-1 * rho ej) with (- rho ej) by lra.
    replace (exp 1 * (value rho yj - Q2R (off yj)) + exp 1 * Q2R (off yj)) with (exp 1 * value rho yj) by lra.
    replace (1 * rho n) with (rho n) by lra.
    split.
    + intros [_ [H1 H2]]. constructor; auto.
    + intros H. inversion H; subst. auto.
Qed.

Lemma sum_relent_sat : forall rho nu y z epi, length y = length nu -> length epi = length nu ->
  affine_cell z -> Forall affine_cell y ->
  (block_sat rho (sum_relent_rows nu y z epi) <->
   0 <= - value rho z - rsum (map rho epi) /\
   Forall3 (fun e c v => Kexp (- e) (exp 1 * c) v) (map rho epi) (map (value rho) y) (map rho nu)).
Proof.
  intros rho nu y z epi Hy He Hz Ha. unfold sum_relent_rows, block_sat.
  cbn [fst snd semK map]. rewrite map_repeat'. cbn [sem_tag fst snd].
  cbn [in_K firstn skipn length in_cone].
  rewrite (relent_triples rho nu y epi Hy He Ha).
  rewrite rrow_val_pair, esum_app, esum_entries, esum_const_ids, qe_val_mone, qe_val_of, Q2R_opp by assumption.
  replace (-1 * (value rho z - Q2R (off z)) + -1 * rsum (map rho epi) + - Q2R (off z))
    with (- value rho z - rsum (map rho epi)) by lra.
  split.
  - intros [_ [H1 H2]]. inversion H1; subst. auto.
  - intros [H1 H2]. repeat split; auto.
Qed.
