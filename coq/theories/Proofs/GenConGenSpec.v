(* Proofs/GenConGenSpec.v — the selection functions regenerated from constraint_generators.py (Gen/GenConGen.v) decide, constraint
   by constraint, exactly what the hand-written models Model/ConGen.v and Model/PolyDom.v do: the C15 theorems about which
   constraints enter the inferred domain are theorems about the source's own selection logic. *)
From Coq Require Import List Bool Arith QArith.
From SageVerif Require Import Model.Signomial Model.SolverForms Model.ConGen Model.PolyDom Gen.GenConGen.
Import ListNotations.
Close Scope Q_scope.

Definition cvec (g : qsig) : list Q := map snd g.

Definition gen_posy_step_stmt : Prop :=
  forall n g gs,
    valid_posy n (g :: gs) =
    match gen_posy_sel (cvec g) with
    | SelSkip => valid_posy n gs
    | SelRaise => Err 1
    | SelIndexError => Err 2
    | SelKeep => match filter (fun t => is_pos (snd t)) g, valid_posy n gs with
                 | (a, _) :: _, Ok r => Ok (q_mul n g (inverse_term a) :: r)
                 | _, Err e => Err e
                 | [], _ => Err 2
                 end
    end.

Definition gen_monoeq_step_stmt : Prop :=
  forall n g eqs,
    valid_mono_eqs n (g :: eqs) =
    match gen_monoeq_sel (cvec g) with
    | SelKeep => match filter (fun t => is_pos (snd t)) g with
                 | [(a, _)] => [q_mul n g (inverse_term a)]
                 | _ => []
                 end
    | _ => []
    end ++ valid_mono_eqs n eqs.

Definition gen_polyineq_step_stmt : Prop :=
  forall g gs,
    valid_gp_poly_ineqs (g :: gs) =
    match gen_polyineq_sel (all_even g) (Qeq_bool (value_at_zero g) 0%Q) (cvec g) with
    | SelKeep => match valid_gp_poly_ineqs gs with Ok r => Ok (g :: r) | Err e => Err e end
    | SelRaise => Err 1
    | _ => valid_gp_poly_ineqs gs
    end.

Definition gen_polyeq_step_stmt : Prop :=
  forall g eqs,
    valid_gp_poly_eqs (g :: eqs) =
    match gen_polyeq_sel (all_even g) (cvec g) with SelKeep => [g] | _ => [] end ++ valid_gp_poly_eqs eqs.

(* the generated decisions never reach the outcomes the property excludes: an equation is never refused, and the IndexError of the
   inequality selection needs a constraint without any non-zero coefficient *)
Definition gen_sel_ranges_stmt : Prop :=
  (forall c, gen_monoeq_sel c = SelKeep \/ gen_monoeq_sel c = SelSkip) /\
  (forall e c, gen_polyeq_sel e c = SelKeep \/ gen_polyeq_sel e c = SelSkip) /\
  (forall c, gen_posy_sel c = SelIndexError -> count is_pos c = 0%nat /\ count is_neg c = 0%nat) /\
  (forall e z c, gen_polyineq_sel e z c <> SelIndexError).
