(* Proofs/PolyConDualSpec.v — C05, DUAL FORM of the constrained polynomial relaxations (sage_polys.poly_constrained_dual):
   the statements of RelaxConDualSpec hold verbatim for polynomials, with  chi_x a = prod_k x_k^{a_k}  in place of exp(a . x).
   That map is multiplicative only on rows of NATURAL exponents (x^(a+b) = x^a x^b fails for negative x and fractional a), so the
   theorems are stated for "characters on natural rows" and for functions all of whose exponents are natural numbers:
   for every real x with t(x) <> 0 the scaled moment vector  w_j = x^{alpha_j} / t(x)  of the modulated Lagrangian's basis
     - satisfies  a . w = 1  and  obj . w = f(x),
     - is mapped by the moment-reduction array of an inequality multiplier (s_g, g) to  g(x) * x^{alpha_{s_g}}  and by that of an
       equality multiplier to 0 when h(x) = 0.
   With poly_dual_links (PolySpec: |g(x) x^alpha| <= g(x) |x|^alpha, and g(x) |x|^alpha is a moment vector at log|x|) this makes every
   feasible x without zero coordinates a feasible point of the dual problem with objective f(x). *)
From Coq Require Import Reals List Bool Arith ZArith QArith Qreals Lra.
From SageVerif Require Import Math.RVec Model.Signomial Model.SigExpr Model.SolverForms Model.SymCorr Model.RelaxSig
                              Proofs.SigSpec Proofs.SymCorrSpec Proofs.RelaxSpec Proofs.RelaxConDualSpec Proofs.CalcSpec.
Import ListNotations.
Open Scope R_scope.

Definition natrow (a : qrow) : Prop := Forall (fun q => is_nat_q q = true) a.

(* multiplicative on rows of natural exponents, and respecting row equality *)
Definition pcharacter (n : nat) (chi : qrow -> R) : Prop :=
  (forall a b, length a = n -> length b = n -> natrow a -> natrow b -> chi (vaddq a b) = chi a * chi b) /\
  (forall a b, qrow_eqb a b = true -> chi a = chi b).

Definition chi_vec (chi : qrow -> R) (rows : list qrow) (s : R) : list R := map (fun a => s * chi a) rows.

(* 0. the monomial map of a real point is such a character; evalchi at it is polynomial evaluation *)
Definition poly_pcharacter_stmt : Prop :=
  forall n (x : list R), length x = n -> pcharacter n (fun a => monoR a x).
Definition poly_evalchi_stmt : Prop :=
  forall (f : qsig) (x : list R), evalchi (fun a => monoR a x) f = poly_evalR f x.

(* 1. relative coefficient vectors pair with chi-vectors to function values *)
Definition prcv_pairing_stmt : Prop :=
  forall n chi (u : qsig) (ref : list qrow) (s : R),
    pcharacter n chi -> wfsig n u -> rows_distinct u -> ref_ok n ref ->
    rows_contained u ref = true ->
    dot (map Q2R (relative_coeff_vector u ref)) (chi_vec chi ref s) = s * evalchi chi u.

(* 2. moment-reduction arrays map the scaled chi-vector of L's basis to h times the chi-vector of the multiplier's basis *)
Definition pmultiplier_stmt : Prop :=
  forall n chi (s h t L : qsig) C,
    pcharacter n chi ->
    polyrows n s -> wfsig n s -> rows_distinct s -> s <> [] ->
    polyrows n h -> wfsig n h -> rows_distinct h -> h <> [] ->
    polyrows n t -> wfsig n t -> rows_distinct t -> t <> [] ->
    polyrows n L -> wfL n L ->
    evalchi chi t <> 0 ->
    moment_reduction_array true n s (q_mul n h t) L = Ok C ->
    matvecQR C (chi_vec chi (map fst L) (/ evalchi chi t)) = chi_vec chi (map fst s) (evalchi chi h).

(* 3. the dual problem of the constrained polynomial relaxation at the moment vector of a real point *)
Definition pmult_ok (n : nat) (t L : qsig) (m : qsig * qsig * list (list Q)) : Prop :=
  let '(s, g, C) := m in
  polyrows n s /\ wfsig n s /\ rows_distinct s /\ s <> [] /\ polyrows n g /\ wfsig n g /\ rows_distinct g /\ g <> [] /\
  moment_reduction_array true n s (q_mul n g t) L = Ok C.

Definition poly_constrained_dual_point_stmt : Prop :=
  forall n (f t L : qsig) (gms hms : list (qsig * qsig * list (list Q))) (x : list R),
    length x = n -> polyrows n L -> wfL n L ->
    polyrows n f -> wfsig n f -> rows_distinct f -> f <> [] ->
    polyrows n t -> wfsig n t -> rows_distinct t -> t <> [] -> poly_evalR t x <> 0 ->
    rows_contained t (map fst L) = true ->
    rows_contained (q_mul n f t) (map fst L) = true ->
    Forall (pmult_ok n t L) (gms ++ hms) ->
    Forall (fun m => 0 <= poly_evalR (snd (fst m)) x) gms ->
    Forall (fun m => poly_evalR (snd (fst m)) x = 0) hms ->
    let chi := fun a => monoR a x in
    let w := chi_vec chi (map fst L) (/ poly_evalR t x) in
    dot (map Q2R (relative_coeff_vector t (map fst L))) w = 1 /\
    dot (map Q2R (relative_coeff_vector (q_mul n f t) (map fst L))) w = poly_evalR f x /\
    Forall (fun m => exists tau, 0 <= tau /\ matvecQR (snd m) w = chi_vec chi (map fst (fst (fst m))) tau) gms /\
    Forall (fun m => matvecQR (snd m) w = map (fun _ => 0) (fst (fst m))) hms.
