(* Proofs/SigLemmas.v — basic facts for the C12 proofs: Q2R of the reduced operations,
   the row equivalence qrow_eqb and the lexicographic order qrow_ltb, mem_row / insert_row /
   sort_unique / first_seen as duplicate-free covers. *)
From Coq Require Import Reals List Bool Arith ZArith QArith Qreals Lra Lia Qabs.
From SageVerif Require Import Math.RVec Model.Signomial Model.SigExpr Proofs.SigSpec.
Import ListNotations.
Local Open Scope Q_scope.

(* ------------------------------------------------------------------ *)
(* Q2R and the reduced operations *)
Lemma Q2R_Qred : forall q, Q2R (Qred q) = Q2R q.
Proof. intros q. apply Qeq_eqR, Qred_correct. Qed.

Lemma Q2R_qadd : forall a b, Q2R (qadd a b) = (Q2R a + Q2R b)%R.
Proof. intros. unfold qadd. now rewrite Q2R_Qred, Q2R_plus. Qed.

Lemma Q2R_qmul : forall a b, Q2R (qmul a b) = (Q2R a * Q2R b)%R.
Proof. intros. unfold qmul. now rewrite Q2R_Qred, Q2R_mult. Qed.

Lemma Q2R_0' : Q2R 0 = 0%R.
Proof. unfold Q2R. simpl. lra. Qed.

Lemma Q2R_1' : Q2R 1 = 1%R.
Proof. unfold Q2R. simpl. lra. Qed.

Lemma qiszero_true : forall c, qiszero c = true -> Q2R c = 0%R.
Proof.
  intros c H. unfold qiszero in H. apply Qeq_bool_iff in H.
  rewrite (Qeq_eqR _ _ H). apply Q2R_0'.
Qed.

Lemma qiszero_false : forall c, qiszero c = false -> ~ c == 0.
Proof. intros c H. unfold qiszero in H. now apply Qeq_bool_neq. Qed.

(* ------------------------------------------------------------------ *)
(* Qeq_bool as an equivalence *)
Lemma Qeq_bool_sym : forall x y, Qeq_bool x y = Qeq_bool y x.
Proof.
  intros x y. destruct (Qeq_bool x y) eqn:E; symmetry.
  - apply Qeq_bool_iff. apply Qeq_bool_iff in E. now symmetry.
  - destruct (Qeq_bool y x) eqn:E'; auto.
    apply Qeq_bool_iff in E'. apply Qeq_bool_neq in E. exfalso. apply E. now symmetry.
Qed.

(* ------------------------------------------------------------------ *)
(* qrow_eqb *)
Lemma qrow_eqb_refl : forall a, qrow_eqb a a = true.
Proof.
  induction a; simpl; auto. rewrite IHa, andb_true_r. apply Qeq_bool_iff. reflexivity.
Qed.

Lemma qrow_eqb_sym : forall a b, qrow_eqb a b = qrow_eqb b a.
Proof.
  induction a; destruct b; simpl; auto. now rewrite IHa, Qeq_bool_sym.
Qed.

Lemma qrow_eqb_trans : forall a b c, qrow_eqb a b = true -> qrow_eqb b c = true -> qrow_eqb a c = true.
Proof.
  induction a; destruct b, c; simpl; auto; try discriminate.
  intros H1 H2. apply andb_true_iff in H1, H2. destruct H1 as [H1 H1'], H2 as [H2 H2'].
  apply andb_true_iff; split.
  - apply Qeq_bool_iff. apply Qeq_bool_iff in H1, H2. now rewrite H1.
  - eauto.
Qed.

(* equal rows are exchangeable on either side *)
Lemma qrow_eqb_compat_r : forall a b c, qrow_eqb b c = true -> qrow_eqb a b = qrow_eqb a c.
Proof.
  intros a b c H. destruct (qrow_eqb a b) eqn:E1; symmetry.
  - eapply qrow_eqb_trans; eauto.
  - destruct (qrow_eqb a c) eqn:E2; auto.
    rewrite qrow_eqb_sym in H. rewrite <- E1. symmetry. eapply qrow_eqb_trans; eauto.
Qed.

Lemma qrow_eqb_compat_l : forall a b c, qrow_eqb a b = true -> qrow_eqb a c = qrow_eqb b c.
Proof.
  intros a b c H. rewrite (qrow_eqb_sym a c), (qrow_eqb_sym b c). symmetry.
  rewrite qrow_eqb_sym in H. now apply qrow_eqb_compat_r.
Qed.

Lemma qrow_eqb_rowR : forall a b, qrow_eqb a b = true -> rowR a = rowR b.
Proof.
  induction a; destruct b; simpl; auto; try discriminate.
  intros H. apply andb_true_iff in H. destruct H as [H1 H2].
  apply Qeq_bool_iff in H1. f_equal; auto. now apply Qeq_eqR.
Qed.

Lemma qrow_eqb_length : forall a b, qrow_eqb a b = true -> length a = length b.
Proof.
  induction a; destruct b; simpl; auto; try discriminate.
  intros H. apply andb_true_iff in H. destruct H. f_equal; auto.
Qed.

(* ------------------------------------------------------------------ *)
(* qrow_ltb : strict total order modulo qrow_eqb *)
Definition qlt_b (x y : Q) : bool := match x ?= y with Lt => true | _ => false end.

Lemma qlt_b_iff : forall x y, qlt_b x y = true <-> x < y.
Proof.
  intros x y. unfold qlt_b. rewrite Qlt_alt. destruct (x ?= y); split; congruence.
Qed.

Lemma qrow_ltb_cons : forall x a y b,
  qrow_ltb (x :: a) (y :: b) = if Qeq_bool x y then qrow_ltb a b else qlt_b x y.
Proof. reflexivity. Qed.

Lemma qrow_ltb_not_eqb : forall a b, qrow_ltb a b = true -> qrow_eqb a b = false.
Proof.
  induction a; destruct b; try (simpl; auto; discriminate).
  rewrite qrow_ltb_cons. simpl. intros H. destruct (Qeq_bool a q); simpl; auto.
Qed.

Lemma qlt_b_of_lt : forall x y, x < y -> Qeq_bool x y = false /\ qlt_b x y = true.
Proof.
  intros x y L. split; [|now apply qlt_b_iff].
  destruct (Qeq_bool x y) eqn:E; auto. apply Qeq_bool_iff in E. rewrite E in L.
  exfalso. revert L. apply Qlt_irrefl.
Qed.

Lemma qrow_ltb_trans : forall a b c, qrow_ltb a b = true -> qrow_ltb b c = true -> qrow_ltb a c = true.
Proof.
  induction a; destruct b, c; try (simpl; auto; discriminate).
  rewrite !qrow_ltb_cons. intros H1 H2.
  destruct (Qeq_bool a q) eqn:E1, (Qeq_bool q q0) eqn:E2.
  - apply Qeq_bool_iff in E1, E2.
    assert (E3 : Qeq_bool a q0 = true) by (apply Qeq_bool_iff; now rewrite E1).
    rewrite E3. eauto.
  - apply Qeq_bool_iff in E1. apply qlt_b_iff in H2.
    assert (L : a < q0) by (now rewrite E1).
    destruct (qlt_b_of_lt _ _ L) as [-> ->]. reflexivity.
  - apply Qeq_bool_iff in E2. apply qlt_b_iff in H1.
    assert (L : a < q0) by (now rewrite <- E2).
    destruct (qlt_b_of_lt _ _ L) as [-> ->]. reflexivity.
  - apply qlt_b_iff in H1, H2.
    assert (L : a < q0) by (eapply Qlt_trans; eauto).
    destruct (qlt_b_of_lt _ _ L) as [-> ->]. reflexivity.
Qed.

Lemma qrow_ltb_total : forall a b, qrow_eqb a b = false -> qrow_ltb a b = false -> qrow_ltb b a = true.
Proof.
  induction a; destruct b; try (simpl; auto; discriminate).
  rewrite !qrow_ltb_cons. simpl. intros H1 H2. rewrite (Qeq_bool_sym q a).
  destruct (Qeq_bool a q) eqn:E; simpl in *; auto.
  apply qlt_b_iff. apply Qeq_bool_neq in E.
  destruct (Q_dec a q) as [[L|L]|L]; auto; try contradiction.
  apply qlt_b_iff in L. congruence.
Qed.

(* ------------------------------------------------------------------ *)
(* mem_row, duplicate-freeness *)
Inductive NoDupR : list qrow -> Prop :=
| NoDupR_nil : NoDupR []
| NoDupR_cons : forall r l, mem_row r l = false -> NoDupR l -> NoDupR (r :: l).

Lemma mem_row_compat : forall a b l, qrow_eqb a b = true -> mem_row a l = mem_row b l.
Proof.
  induction l; simpl; auto. intros H. rewrite (qrow_eqb_compat_l a b a0 H). f_equal. auto.
Qed.

Lemma mem_row_app : forall r l1 l2, mem_row r (l1 ++ l2) = mem_row r l1 || mem_row r l2.
Proof. induction l1; simpl; intros; auto. now rewrite IHl1, orb_assoc. Qed.

Lemma mem_row_In : forall r l, In r l -> mem_row r l = true.
Proof.
  induction l; simpl; intros H; [contradiction|]. destruct H as [->|H].
  - now rewrite qrow_eqb_refl.
  - rewrite IHl; auto. apply orb_true_r.
Qed.

Lemma mem_row_ex : forall r l, mem_row r l = true -> exists r', In r' l /\ qrow_eqb r r' = true.
Proof.
  induction l; simpl; intros H; [discriminate|]. apply orb_true_iff in H. destruct H as [H|H].
  - exists a. auto.
  - destruct (IHl H) as [r' [? ?]]. exists r'. auto.
Qed.

Lemma mem_row_false : forall r l, mem_row r l = false -> forall r', In r' l -> qrow_eqb r r' = false.
Proof.
  intros r l H r' Hin. destruct (qrow_eqb r r') eqn:E; auto.
  assert (mem_row r l = true); [|congruence].
  rewrite (mem_row_compat r r' l E). now apply mem_row_In.
Qed.

Lemma mem_row_rev : forall r l, mem_row r (rev l) = mem_row r l.
Proof.
  induction l; simpl; auto. rewrite mem_row_app, IHl. simpl. rewrite orb_false_r. apply orb_comm.
Qed.

Lemma NoDupR_snoc : forall l r, NoDupR l -> mem_row r l = false -> NoDupR (l ++ [r]).
Proof.
  induction l; simpl; intros r Hn Hm.
  - constructor; [reflexivity|constructor].
  - inversion Hn; subst. apply orb_false_iff in Hm. destruct Hm as [Hm1 Hm2]. constructor.
    + rewrite mem_row_app, H1. simpl. rewrite qrow_eqb_sym, Hm1. reflexivity.
    + apply IHl; auto.
Qed.

Lemma NoDupR_rev : forall l, NoDupR l -> NoDupR (rev l).
Proof.
  induction l; simpl; intros H; auto. inversion H; subst.
  apply NoDupR_snoc; auto. now rewrite mem_row_rev.
Qed.

(* ------------------------------------------------------------------ *)
(* sortedness: every element is below all later ones *)
Definition lt_all (r : qrow) (l : list qrow) : Prop := Forall (fun y => qrow_ltb r y = true) l.
Inductive ssorted : list qrow -> Prop :=
| ssorted_nil : ssorted []
| ssorted_cons : forall r l, lt_all r l -> ssorted l -> ssorted (r :: l).

Lemma lt_all_not_mem : forall r l, lt_all r l -> mem_row r l = false.
Proof.
  induction 1; simpl; auto. rewrite IHForall, (qrow_ltb_not_eqb _ _ H). reflexivity.
Qed.

Lemma ssorted_NoDupR : forall l, ssorted l -> NoDupR l.
Proof. induction 1; constructor; auto. now apply lt_all_not_mem. Qed.

Lemma lt_all_trans : forall r x l, qrow_ltb r x = true -> lt_all x l -> lt_all r l.
Proof.
  intros r x l H Hl. unfold lt_all in *. rewrite Forall_forall in *. intros y Hy.
  eapply qrow_ltb_trans; eauto.
Qed.

Lemma insert_row_In : forall r l y, In y (insert_row r l) -> y = r \/ In y l.
Proof.
  induction l; simpl; intros y H.
  - destruct H as [<-|[]]. auto.
  - destruct (qrow_eqb r a); [auto|]. destruct (qrow_ltb r a).
    + destruct H as [<-|H]; auto.
    + destruct H as [<-|H]; auto. destruct (IHl _ H); auto.
Qed.

Lemma insert_row_sorted : forall r l, ssorted l -> ssorted (insert_row r l).
Proof.
  induction l; simpl; intros H.
  - constructor; constructor.
  - inversion H; subst. destruct (qrow_eqb r a) eqn:E; auto.
    destruct (qrow_ltb r a) eqn:L.
    + constructor; auto. constructor; auto. eapply lt_all_trans; eauto.
    + constructor; auto. unfold lt_all in *. rewrite Forall_forall in *.
      intros y Hy. apply insert_row_In in Hy. destruct Hy as [->|Hy]; auto.
      apply qrow_ltb_total; auto; now rewrite qrow_eqb_sym.
Qed.

Lemma mem_row_insert : forall r r' l, mem_row r (insert_row r' l) = qrow_eqb r r' || mem_row r l.
Proof.
  induction l; simpl; auto.
  destruct (qrow_eqb r' a) eqn:E.
  - simpl. rewrite (qrow_eqb_compat_r r r' a E).
    destruct (qrow_eqb r a); simpl; auto.
  - destruct (qrow_ltb r' a); simpl; auto.
    rewrite IHl. destruct (qrow_eqb r a), (qrow_eqb r r'); simpl; auto.
Qed.

Lemma insert_row_length : forall r l, ssorted l ->
  length (insert_row r l) = if mem_row r l then length l else S (length l).
Proof.
  induction l; simpl; intros H; auto.
  inversion H; subst. destruct (qrow_eqb r a) eqn:E; simpl; auto.
  destruct (qrow_ltb r a) eqn:L; simpl.
  - rewrite (lt_all_not_mem r l); auto. eapply lt_all_trans; eauto.
  - rewrite IHl; auto. destruct (mem_row r l); auto.
Qed.

(* sort_unique, generalised over the accumulator *)
Definition su_from (acc rows : list qrow) : list qrow := fold_left (fun acc r => insert_row r acc) rows acc.

Lemma su_from_nil : forall acc, su_from acc [] = acc.
Proof. reflexivity. Qed.
Lemma su_from_cons : forall acc a rows, su_from acc (a :: rows) = su_from (insert_row a acc) rows.
Proof. reflexivity. Qed.

Lemma su_from_sorted : forall rows acc, ssorted acc -> ssorted (su_from acc rows).
Proof.
  induction rows; intros acc H; [now rewrite su_from_nil|].
  rewrite su_from_cons. apply IHrows. now apply insert_row_sorted.
Qed.

Lemma su_from_mem : forall rows acc r, mem_row r (su_from acc rows) = mem_row r acc || mem_row r rows.
Proof.
  induction rows; intros.
  - rewrite su_from_nil. simpl. now rewrite orb_false_r.
  - rewrite su_from_cons, IHrows, mem_row_insert. simpl.
    destruct (qrow_eqb r a), (mem_row r acc); simpl; auto.
Qed.

Lemma su_from_In : forall rows acc y, In y (su_from acc rows) -> In y acc \/ In y rows.
Proof.
  induction rows; intros acc y H; [rewrite su_from_nil in H; auto|].
  rewrite su_from_cons in H.
  apply IHrows in H. destruct H as [H|H]; [|right; now right].
  apply insert_row_In in H. destruct H; [right; left; auto|auto].
Qed.

Lemma su_from_length_le : forall rows acc, ssorted acc ->
  (length (su_from acc rows) <= length acc + length rows)%nat.
Proof.
  induction rows; intros acc H; [rewrite su_from_nil; simpl; lia|].
  rewrite su_from_cons.
  specialize (IHrows (insert_row a acc) (insert_row_sorted a acc H)).
  rewrite insert_row_length in IHrows; auto. simpl.
  destruct (mem_row a acc); lia.
Qed.

(* equality of lengths holds exactly when the rows are new and pairwise distinct *)
Lemma su_from_length_eq : forall rows acc, ssorted acc ->
  length (su_from acc rows) = (length acc + length rows)%nat ->
  NoDupR rows /\ forall r, In r rows -> mem_row r acc = false.
Proof.
  induction rows; intros acc H Hlen.
  - split; [constructor|]. intros r [].
  - rewrite su_from_cons in Hlen. simpl in Hlen.
    pose proof (su_from_length_le rows (insert_row a acc) (insert_row_sorted a acc H)) as Hle.
    rewrite insert_row_length in Hle; auto.
    destruct (mem_row a acc) eqn:M; [lia|].
    destruct (IHrows (insert_row a acc) (insert_row_sorted a acc H)) as [Hnd Hnew].
    { rewrite insert_row_length, M; auto. lia. }
    split.
    + constructor; auto.
      destruct (mem_row a rows) eqn:M2; auto.
      apply mem_row_ex in M2. destruct M2 as [r' [Hin He]].
      specialize (Hnew r' Hin). rewrite mem_row_insert in Hnew.
      rewrite qrow_eqb_sym, He in Hnew. discriminate.
    + intros r [<-|Hin]; auto. specialize (Hnew r Hin). rewrite mem_row_insert in Hnew.
      now apply orb_false_iff in Hnew.
Qed.

Lemma su_from_length_nodup : forall rows acc, ssorted acc ->
  NoDupR rows -> (forall r, In r rows -> mem_row r acc = false) ->
  length (su_from acc rows) = (length acc + length rows)%nat.
Proof.
  induction rows; intros acc H Hnd Hnew; [rewrite su_from_nil; simpl; lia|].
  inversion Hnd; subst. rewrite su_from_cons, IHrows; auto.
  - rewrite insert_row_length, Hnew; auto; simpl; auto; lia.
  - now apply insert_row_sorted.
  - intros r Hin. rewrite mem_row_insert, Hnew; [|now right]. rewrite orb_false_r.
    rewrite qrow_eqb_sym. eapply mem_row_false; eauto.
Qed.

Lemma sort_unique_su : forall rows, sort_unique rows = su_from [] rows.
Proof. reflexivity. Qed.

Lemma sort_unique_sorted : forall rows, ssorted (sort_unique rows).
Proof. intros. rewrite sort_unique_su. apply su_from_sorted. constructor. Qed.

Lemma sort_unique_NoDupR : forall rows, NoDupR (sort_unique rows).
Proof. intros. apply ssorted_NoDupR, sort_unique_sorted. Qed.

Lemma sort_unique_mem : forall rows r, mem_row r (sort_unique rows) = mem_row r rows.
Proof. intros. rewrite sort_unique_su, su_from_mem. reflexivity. Qed.

Lemma sort_unique_In : forall rows y, In y (sort_unique rows) -> In y rows.
Proof. intros rows y H. rewrite sort_unique_su in H. apply su_from_In in H. destruct H as [[]|H]; auto. Qed.

Lemma sort_unique_length_eq : forall rows, length (sort_unique rows) = length rows -> NoDupR rows.
Proof.
  intros rows H. rewrite sort_unique_su in H.
  apply (su_from_length_eq rows []); [constructor|auto].
Qed.

Lemma sort_unique_length_nodup : forall rows, NoDupR rows -> length (sort_unique rows) = length rows.
Proof.
  intros rows H. rewrite sort_unique_su.
  rewrite su_from_length_nodup; auto. constructor.
Qed.

Lemma sort_unique_nonempty : forall rows, rows <> [] -> sort_unique rows <> [].
Proof.
  intros [|r rows] H; [congruence|]. intros E.
  pose proof (sort_unique_mem (r :: rows) r) as M. rewrite E in M. simpl in M.
  rewrite qrow_eqb_refl in M. discriminate.
Qed.

(* first_seen *)
Definition fs_from (acc rows : list qrow) : list qrow :=
  fold_left (fun acc r => if mem_row r acc then acc else r :: acc) rows acc.

Lemma fs_from_nil : forall acc, fs_from acc [] = acc.
Proof. reflexivity. Qed.
Lemma fs_from_cons : forall acc a rows,
  fs_from acc (a :: rows) = fs_from (if mem_row a acc then acc else a :: acc) rows.
Proof. reflexivity. Qed.

Lemma fs_from_NoDupR : forall rows acc, NoDupR acc -> NoDupR (fs_from acc rows).
Proof.
  induction rows; intros acc H; [now rewrite fs_from_nil|].
  rewrite fs_from_cons.
  apply IHrows. destruct (mem_row a acc) eqn:M; auto. now constructor.
Qed.

Lemma fs_from_mem : forall rows acc r, mem_row r (fs_from acc rows) = mem_row r acc || mem_row r rows.
Proof.
  induction rows; intros.
  - rewrite fs_from_nil. simpl. now rewrite orb_false_r.
  - rewrite fs_from_cons, IHrows. destruct (mem_row a acc) eqn:M; simpl.
    + destruct (qrow_eqb r a) eqn:E; simpl; auto.
      rewrite (mem_row_compat r a acc E), M. reflexivity.
    + destruct (qrow_eqb r a), (mem_row r acc); simpl; auto.
Qed.

Lemma fs_from_In : forall rows acc y, In y (fs_from acc rows) -> In y acc \/ In y rows.
Proof.
  induction rows; intros acc y H; [rewrite fs_from_nil in H; auto|].
  rewrite fs_from_cons in H.
  apply IHrows in H. destruct H as [H|H]; [|right; now right].
  destruct (mem_row a acc); auto. destruct H; [right; left; auto|auto].
Qed.

Lemma first_seen_NoDupR : forall rows, NoDupR (first_seen rows).
Proof. intros. unfold first_seen. apply NoDupR_rev. apply (fs_from_NoDupR rows []). constructor. Qed.

Lemma first_seen_mem : forall rows r, mem_row r (first_seen rows) = mem_row r rows.
Proof. intros. unfold first_seen. rewrite mem_row_rev. apply (fs_from_mem rows [] r). Qed.

Lemma first_seen_In : forall rows y, In y (first_seen rows) -> In y rows.
Proof.
  intros rows y H. unfold first_seen in H. apply in_rev in H.
  apply (fs_from_In rows []) in H. destruct H as [[]|H]; auto.
Qed.

Lemma first_seen_nonempty : forall rows, rows <> [] -> first_seen rows <> [].
Proof.
  intros [|r rows] H; [congruence|]. intros E.
  pose proof (first_seen_mem (r :: rows) r) as M. rewrite E in M. simpl in M.
  rewrite qrow_eqb_refl in M. discriminate.
Qed.

(* ------------------------------------------------------------------ *)
(* rows_distinct (index formulation) vs NoDupR on the row list *)
Lemma rows_distinct_cons : forall (t : qrow * Q) f,
  rows_distinct (t :: f) <-> mem_row (fst t) (map fst f) = false /\ rows_distinct f.
Proof.
  intros t f. unfold rows_distinct. split.
  - intros H. split.
    + destruct (mem_row (fst t) (map fst f)) eqn:M; auto.
      apply mem_row_ex in M. destruct M as [r' [Hin He]].
      apply in_map_iff in Hin. destruct Hin as [t' [<- Hin]].
      apply (In_nth _ _ (([] : qrow), 0%Q)) in Hin. destruct Hin as [j [Hj Hnth]].
      specialize (H 0%nat (S j)). simpl in H.
      pose proof (H ltac:(lia) ltac:(lia)) as H'. rewrite <- Hnth in He.
      exact (eq_trans (eq_sym He) H').
    + intros i j Hij Hj. apply (H (S i) (S j)); simpl; lia.
  - intros [Hm Hd] i j Hij Hj. destruct j; [lia|]. simpl in Hj. destruct i; simpl.
    + eapply mem_row_false; eauto. apply in_map. apply nth_In. lia.
    + apply Hd; lia.
Qed.

Lemma rows_distinct_NoDupR : forall f, rows_distinct f <-> NoDupR (map fst f).
Proof.
  induction f; simpl.
  - split; [constructor|]. intros _ i j ? Hj. simpl in Hj. lia.
  - rewrite rows_distinct_cons, IHf. split.
    + intros [? ?]. now constructor.
    + intros H. inversion H; subst. auto.
Qed.
