(* Proofs/SigSpec.v — statements of the C12 theorems: the model's Signomial/Polynomial
   arithmetic (Model/Signomial.v, Model/SigExpr.v) is pointwise arithmetic of functions. *)
From Coq Require Import Reals List Bool Arith ZArith QArith Qreals Lra.
From SageVerif Require Import Math.RVec Model.Signomial Model.SigExpr.
Import ListNotations.
Open Scope R_scope.

Definition rowR (a : qrow) : list R := map Q2R a.

(* value of a signomial at x : sum_j c_j exp(alpha_j . x) *)
Definition sig_evalR (f : qsig) (x : list R) : R :=
  fold_right (fun t acc => Q2R (snd t) * exp (dot (rowR (fst t)) x) + acc) 0 f.

(* value of a polynomial at x : sum_j c_j prod_k x_k^alpha_jk (exponents are naturals) *)
Fixpoint monoR (a : qrow) (x : list R) : R :=
  match a, x with
  | e :: a', v :: x' => v ^ (Z.to_nat (Qnum (Qred e))) * monoR a' x'
  | _, _ => 1
  end.
Definition poly_evalR (f : qsig) (x : list R) : R :=
  fold_right (fun t acc => Q2R (snd t) * monoR (fst t) x + acc) 0 f.

(* well-formedness: all rows have width n and lie on the 10^-7 grid (what the constructor produces) *)
Definition on_grid_row (a : qrow) : Prop := Forall (fun q => Qeq (round7 q) q) a.
Definition wfsig (n : nat) (f : qsig) : Prop :=
  Forall (fun t => length (fst t) = n /\ on_grid_row (fst t)) f.
Definition rows_distinct (f : qsig) : Prop :=
  forall i j, (i < j)%nat -> (j < length f)%nat ->
    qrow_eqb (fst (nth i f ([], 0%Q))) (fst (nth j f ([], 0%Q))) = false.
Definition no_zero_coeff (f : qsig) : Prop := Forall (fun t => qiszero (snd t) = false) f.

(* ---- constructor ---- *)
Definition round7_idem_stmt : Prop := forall q, Qeq (round7 (round7 q)) (round7 q).

Definition mk_spec_stmt : Prop :=
  forall n (f : qsig) x, Forall (fun t => length (fst t) = n) f -> length x = n ->
    wfsig n (q_mk f) /\ rows_distinct (q_mk f) /\
    sig_evalR (q_mk f) x = sig_evalR (map (fun t => (round_row (fst t), snd t)) f) x.

Definition mk_on_grid_stmt : Prop :=
  forall n (f : qsig) x, wfsig n f -> length x = n -> sig_evalR (q_mk f) x = sig_evalR f x.

(* ---- binary arithmetic is pointwise; results are well formed, rows distinct, no explicit zeros
   unless the result is the single-term zero function ---- *)
Definition result_ok (n : nat) (f : qsig) : Prop :=
  wfsig n f /\ rows_distinct f /\ (no_zero_coeff f \/ exists r c, f = [(r, c)] /\ qiszero c = true).

Definition add_spec_stmt : Prop :=
  forall n f g x, wfsig n f -> wfsig n g -> rows_distinct f -> rows_distinct g -> f <> [] -> g <> [] -> length x = n ->
    sig_evalR (q_add n f g) x = sig_evalR f x + sig_evalR g x /\ result_ok n (q_add n f g).

Definition sub_spec_stmt : Prop :=
  forall n f g x, wfsig n f -> wfsig n g -> rows_distinct f -> rows_distinct g -> f <> [] -> g <> [] -> length x = n ->
    sig_evalR (q_sub n f g) x = sig_evalR f x - sig_evalR g x /\ result_ok n (q_sub n f g).

Definition mul_spec_stmt : Prop :=
  forall n f g x, wfsig n f -> wfsig n g -> rows_distinct f -> rows_distinct g -> f <> [] -> g <> [] -> length x = n ->
    sig_evalR (q_mul n f g) x = sig_evalR f x * sig_evalR g x /\ result_ok n (q_mul n f g).

Definition scale_spec_stmt : Prop :=
  forall n q f x, wfsig n f -> rows_distinct f -> f <> [] -> length x = n ->
    sig_evalR (q_scale n q f) x = Q2R q * sig_evalR f x /\ result_ok n (q_scale n q f).

Definition add_scalar_spec_stmt : Prop :=
  forall n q f x, wfsig n f -> rows_distinct f -> f <> [] -> length x = n ->
    sig_evalR (q_add_scalar n f q) x = sig_evalR f x + Q2R q /\ result_ok n (q_add_scalar n f q).

Definition pow_nat_spec_stmt : Prop :=
  forall n k f x, wfsig n f -> rows_distinct f -> f <> [] -> length x = n ->
    sig_evalR (q_pow_nat n f k) x = (sig_evalR f x) ^ k.

(* one-term negative integer powers: (c e^{a.x})^p ; the error branch is exactly "not one nonzero term" *)
Definition pow_neg_spec_stmt : Prop :=
  forall n (p : Z) f x, wfsig n f -> length x = n -> (p < 0)%Z ->
    match q_pow_neg f p with
    | Some g => exists a c, filter (fun t => negb (qiszero (snd t))) f = [(a, c)] /\
                            sig_evalR g x = / ((sig_evalR f x) ^ (Z.to_nat (- p)))
    | None => forall a c, filter (fun t => negb (qiszero (snd t))) f <> [(a, c)]
    end.

Definition without_zeros_spec_stmt : Prop :=
  forall n f x, wfsig n f -> length x = n -> sig_evalR (q_without_zeros n f) x = sig_evalR f x.

(* ---- any composition (expression trees): the interpreter's result denotes the pointwise
   value of the expression ---- *)
Fixpoint sem (n : nat) (e : sexp) (x : list R) : R :=
  match e with
  | SMono i => exp (nth i x 0)
  | SLit rows => sig_evalR (map (fun t => (round_row (fst t), snd t)) rows) x
  | SAdd a b => sem n a x + sem n b x
  | SSub a b => sem n a x - sem n b x
  | SMul a b => sem n a x * sem n b x
  | SDiv a b => sem n a x / sem n b x
  | SNeg a => - sem n a x
  | SAddQ a q | SRAddQ q a => sem n a x + Q2R q
  | SSubQ a q => sem n a x - Q2R q
  | SRSubQ q a => Q2R q - sem n a x
  | SMulQ a q => sem n a x * Q2R q
  | SDivQ a q => sem n a x / Q2R q
  | SRDivQ q a => Q2R q / sem n a x
  | SPow a p => if (0 <=? p)%Z then (sem n a x) ^ (Z.to_nat p) else / ((sem n a x) ^ (Z.to_nat (- p)))
  | SWithoutZeros a => sem n a x
  end.

(* literals must have rows of width n; monomial indices in range *)
Fixpoint wfexp (n : nat) (e : sexp) : Prop :=
  match e with
  | SMono i => (i < n)%nat
  | SLit rows => rows <> [] /\ Forall (fun t => length (fst t) = n) rows
  | SAdd a b | SSub a b | SMul a b | SDiv a b => wfexp n a /\ wfexp n b
  | SNeg a | SAddQ a _ | SRAddQ _ a | SSubQ a _ | SRSubQ _ a | SMulQ a _ | SDivQ a _ | SRDivQ _ a
  | SPow a _ | SWithoutZeros a => wfexp n a
  end.

Definition tree_sem_stmt : Prop :=
  forall n e f x, wfexp n e -> length x = n -> eval false n e = Some f ->
    sig_evalR f x = sem n e x /\ wfsig n f /\ rows_distinct f /\ f <> [].

(* ---- equality ---- *)
Definition eq_refl_stmt : Prop := forall n (f : qsig), wfsig n f -> rows_distinct f -> q_eqb f f = true.
Definition eq_sym_stmt : Prop := forall f g : qsig, q_eqb f g = q_eqb g f.
(* up to the fixed tolerance, == holds exactly when the coefficient functions coincide *)
Definition eq_iff_close_stmt : Prop :=
  forall n f g, wfsig n f -> wfsig n g -> rows_distinct f -> rows_distinct g ->
    (q_eqb f g = true <->
     (length f = length g /\
      forall r, In r (map fst f ++ map fst g) -> close (query_coeff f r) (query_coeff g r) = true)).
