(* Proofs/SymCorrBase.v — Reals-free lemmas for the C16 theorems: row equality is an
   equivalence, the 10^-7 grid, row matching on the grid, placement of coefficients by
   relative_coeff_vector, error characterisation and completeness of the symbolic rows. *)
From Coq Require Import List Bool Arith ZArith QArith Qabs Lia.
From SageVerif Require Import Model.Signomial Model.SolverForms Model.SymCorr Proofs.SigSpec.
Import ListNotations.
Local Open Scope Q_scope.
Local Open Scope nat_scope.

(* ------------------------------------------------------------------ *)
(* qrow_eqb is an equivalence                                          *)
(* ------------------------------------------------------------------ *)
Lemma qrow_eqb_refl : forall a, qrow_eqb a a = true.
Proof.
  induction a as [|x a IH]; simpl; auto.
  rewrite IH, andb_true_r. apply Qeq_bool_iff. reflexivity.
Qed.

Lemma Qeq_bool_comm : forall x y, Qeq_bool x y = Qeq_bool y x.
Proof.
  intros x y. destruct (Qeq_bool x y) eqn:E1, (Qeq_bool y x) eqn:E2; auto.
  - apply Qeq_bool_iff in E1. symmetry in E1. apply Qeq_bool_iff in E1. congruence.
  - apply Qeq_bool_iff in E2. symmetry in E2. apply Qeq_bool_iff in E2. congruence.
Qed.

Lemma qrow_eqb_sym : forall a b, qrow_eqb a b = qrow_eqb b a.
Proof.
  induction a as [|x a IH]; destruct b as [|y b]; simpl; auto.
  rewrite IH, Qeq_bool_comm. reflexivity.
Qed.

Lemma qrow_eqb_trans : forall a b c, qrow_eqb a b = true -> qrow_eqb b c = true -> qrow_eqb a c = true.
Proof.
  induction a as [|x a IH]; destruct b as [|y b]; destruct c as [|z c]; simpl; auto; try discriminate.
  intros H1 H2. apply andb_true_iff in H1 as [H1 H1']. apply andb_true_iff in H2 as [H2 H2'].
  apply andb_true_iff; split.
  - apply Qeq_bool_iff. apply Qeq_bool_iff in H1. apply Qeq_bool_iff in H2. rewrite H1. exact H2.
  - eapply IH; eauto.
Qed.

(* equal rows have the same test results *)
Lemma qrow_eqb_congr_l : forall a b c, qrow_eqb a b = true -> qrow_eqb a c = qrow_eqb b c.
Proof.
  intros a b c H. destruct (qrow_eqb b c) eqn:E.
  - eapply qrow_eqb_trans; eauto.
  - destruct (qrow_eqb a c) eqn:E'; auto.
    rewrite qrow_eqb_sym in H. rewrite <- E. symmetry. eapply qrow_eqb_trans; eauto.
Qed.

Lemma qrow_eqb_congr_r : forall a b c, qrow_eqb a b = true -> qrow_eqb c a = qrow_eqb c b.
Proof.
  intros a b c H. rewrite (qrow_eqb_sym c a), (qrow_eqb_sym c b). apply qrow_eqb_congr_l; auto.
Qed.

Lemma qrow_eqb_length : forall a b, qrow_eqb a b = true -> length a = length b.
Proof.
  induction a as [|x a IH]; destruct b as [|y b]; simpl; auto; try discriminate.
  intros H. apply andb_true_iff in H as [_ H]. f_equal; auto.
Qed.

Lemma mem_row_congr : forall l a b, qrow_eqb a b = true -> mem_row a l = mem_row b l.
Proof.
  induction l as [|x l IH]; simpl; intros; auto.
  rewrite (qrow_eqb_congr_l a b x H). f_equal. auto.
Qed.

Lemma mem_row_In : forall l r, In r l -> mem_row r l = true.
Proof.
  induction l as [|x l IH]; simpl; intros r H; [tauto|].
  destruct H as [->|H]; [rewrite qrow_eqb_refl; auto|].
  rewrite IH; auto. apply orb_true_r.
Qed.

Lemma mem_row_ex : forall l r, mem_row r l = true <-> exists x, In x l /\ qrow_eqb r x = true.
Proof.
  induction l as [|x l IH]; simpl; intros r.
  - split; [discriminate|]. intros [x [[] _]].
  - rewrite orb_true_iff, IH. split.
    + intros [H|[y [H1 H2]]]; [exists x; auto | exists y; auto].
    + intros [y [[->|H1] H2]]; [left; auto | right; exists y; auto].
Qed.

Lemma mem_row_false : forall l r, mem_row r l = false <-> forall x, In x l -> qrow_eqb r x = false.
Proof.
  intros l r. split.
  - intros H x Hx. destruct (qrow_eqb r x) eqn:E; auto.
    assert (mem_row r l = true) by (apply mem_row_ex; exists x; auto). congruence.
  - intros H. destruct (mem_row r l) eqn:E; auto.
    apply mem_row_ex in E as [x [H1 H2]]. rewrite H in H2; auto.
Qed.

(* ------------------------------------------------------------------ *)
(* pairwise distinct rows                                              *)
(* ------------------------------------------------------------------ *)
Fixpoint distinct (l : list qrow) : Prop :=
  match l with
  | [] => True
  | r :: l' => mem_row r l' = false /\ distinct l'
  end.

Lemma distinct_of_nth : forall l,
  (forall i j, i < j -> j < length l -> qrow_eqb (nth i l []) (nth j l []) = false) -> distinct l.
Proof.
  induction l as [|r l IH]; simpl; intros H; auto. split.
  - apply mem_row_false. intros x Hx. destruct (In_nth _ _ [] Hx) as [j [Hj <-]].
    apply (H 0 (S j)); lia.
  - apply IH. intros i j Hij Hj. apply (H (S i) (S j)); lia.
Qed.

Lemma rows_distinct_distinct : forall f : qsig, rows_distinct f -> distinct (map fst f).
Proof.
  intros f H. apply distinct_of_nth. intros i j Hij Hj. rewrite map_length in Hj.
  change (@nil Q) with (fst (@nil Q, 0%Q)). rewrite !map_nth. apply H; auto.
Qed.

Lemma distinct_nth : forall l, distinct l ->
  forall i j, i < j -> j < length l -> qrow_eqb (nth i l []) (nth j l []) = false.
Proof.
  induction l as [|r l IH]; simpl; intros Hd i j Hij Hj; [lia|]. destruct Hd as [Hr Hd].
  destruct j as [|j]; [lia|]. destruct i as [|i].
  - rewrite mem_row_false in Hr. apply Hr. apply nth_In. lia.
  - apply IH; auto; lia.
Qed.

Lemma distinct_rows_distinct : forall f : qsig, distinct (map fst f) -> rows_distinct f.
Proof.
  intros f H i j Hij Hj.
  pose proof (distinct_nth _ H i j Hij) as H'. rewrite map_length in H'. specialize (H' Hj).
  change (@nil Q) with (fst (@nil Q, 0%Q)) in H'. rewrite !map_nth in H'. exact H'.
Qed.

(* ------------------------------------------------------------------ *)
(* the 10^-7 grid                                                      *)
(* ------------------------------------------------------------------ *)
Definition gden : positive := 10000000%positive.

Lemma round7_unfold : forall q, round7 q = Qred (round_half_even (q * (grid # 1)) # gden).
Proof. reflexivity. Qed.

Lemma round7_of_grid : forall q k, (q == k # gden)%Q -> (round7 q == q)%Q.
Proof.
  intros [a d] k H. rewrite round7_unfold, Qred_correct.
  unfold Qeq in H. cbn [Qnum Qden] in H.
  assert (Hn : Qnum ((a # d) * (grid # 1)) = (k * Zpos d)%Z).
  { cbn [Qnum Qmult]. unfold grid. change (Zpos gden) with 10000000%Z in H. lia. }
  assert (Hd : Zpos (Qden ((a # d) * (grid # 1))) = Zpos d).
  { cbn [Qden Qmult]. lia. }
  unfold round_half_even. rewrite Hn, Hd.
  rewrite Z.div_mul by discriminate. rewrite Z.mod_mul by discriminate.
  replace (2 * 0 <? Z.pos d)%Z with true by (symmetry; apply Z.ltb_lt; lia).
  unfold Qeq. cbn [Qnum Qden]. lia.
Qed.

Lemma round7_on_grid_ex : forall q, exists k, (round7 q == k # gden)%Q.
Proof. intros q. eexists. rewrite round7_unfold. apply Qred_correct. Qed.

Lemma on_grid_ex : forall q, (round7 q == q)%Q -> exists k, (q == k # gden)%Q.
Proof. intros q H. destruct (round7_on_grid_ex q) as [k Hk]. exists k. rewrite <- H. exact Hk. Qed.

Lemma round7_idem : forall q, (round7 (round7 q) == round7 q)%Q.
Proof. intros q. destruct (round7_on_grid_ex q) as [k Hk]. eapply round7_of_grid; eauto. Qed.

Lemma grid_add : forall x y, (round7 x == x)%Q -> (round7 y == y)%Q -> (round7 (Qred (x + y)) == Qred (x + y))%Q.
Proof.
  intros x y Hx Hy. destruct (on_grid_ex _ Hx) as [k1 H1]. destruct (on_grid_ex _ Hy) as [k2 H2].
  apply round7_of_grid with (k := (k1 + k2)%Z).
  rewrite Qred_correct, H1, H2. unfold Qeq, Qplus. cbn [Qnum Qden].
  change (Zpos (gden * gden)) with (Zpos gden * Zpos gden)%Z. lia.
Qed.

Lemma on_grid_round_row : forall a, on_grid_row (round_row a).
Proof. intros a. unfold on_grid_row, round_row. apply Forall_forall. intros q Hq.
  apply in_map_iff in Hq as [x [<- _]]. apply round7_idem. Qed.

Lemma on_grid_vaddq : forall a b, on_grid_row a -> on_grid_row b -> on_grid_row (vaddq a b).
Proof.
  induction a as [|x a IH]; intros [|y b] Ha Hb; simpl; try constructor.
  - inversion Ha; inversion Hb; subst. apply grid_add; auto.
  - inversion Ha; inversion Hb; subst. apply IH; auto.
Qed.

Lemma round_row_on_grid_eqb : forall a, on_grid_row a -> qrow_eqb (round_row a) a = true.
Proof.
  induction a as [|x a IH]; simpl; intros H; auto. inversion H; subst.
  apply andb_true_iff; split; [apply Qeq_bool_iff; auto | apply IH; auto].
Qed.

Lemma length_round_row : forall a, length (round_row a) = length a.
Proof. intros; unfold round_row; apply map_length. Qed.

Lemma length_vaddq : forall a b, length (vaddq a b) = Nat.min (length a) (length b).
Proof. induction a as [|x a IH]; intros [|y b]; simpl; auto. Qed.

Lemma vaddq_comm : forall a b, vaddq a b = vaddq b a.
Proof.
  induction a as [|x a IH]; intros [|y b]; cbn [vaddq]; auto. f_equal; auto.
  apply Qred_complete. apply Qplus_comm.
Qed.

(* ------------------------------------------------------------------ *)
(* row matching on the grid                                            *)
(* ------------------------------------------------------------------ *)
Lemma close_grid_elem : forall x y, (round7 x == x)%Q -> (round7 y == y)%Q ->
  (match Qcompare (Qabs (y - x)) etol with Lt => true | _ => false end) = Qeq_bool x y.
Proof.
  intros x y Hx Hy. destruct (on_grid_ex _ Hx) as [k1 H1]. destruct (on_grid_ex _ Hy) as [k2 H2].
  assert (E : Qcompare (Qabs (y - x)) etol = Qcompare (Qabs ((k2 # gden) - (k1 # gden))) etol).
  { apply Qcompare_comp; [|reflexivity]. rewrite H1, H2. reflexivity. }
  rewrite E. clear E.
  assert (Hc : Qcompare (Qabs ((k2 # gden) - (k1 # gden))) etol
               = Z.compare (Z.abs (k2 * 10000000 + - k1 * 10000000) * 100000000) (100000000000000)%Z).
  { reflexivity. }
  rewrite Hc. clear Hc.
  destruct (Qeq_bool x y) eqn:Eb.
  - apply Qeq_bool_iff in Eb. rewrite H1, H2 in Eb. unfold Qeq in Eb. cbn [Qnum Qden] in Eb.
    assert (k1 = k2) by (change (Zpos gden) with 10000000%Z in Eb; lia). subst k2.
    replace (k1 * 10000000 + - k1 * 10000000)%Z with 0%Z by lia. reflexivity.
  - assert (k1 <> k2).
    { intros ->. assert (x == y)%Q by (rewrite H1, H2; reflexivity).
      apply Qeq_bool_iff in H. congruence. }
    destruct (Z.compare_spec (Z.abs (k2 * 10000000 + - k1 * 10000000) * 100000000) 100000000000000); auto; lia.
Qed.

Lemma row_corr_grid_base : forall a b, on_grid_row a -> on_grid_row b -> rows_close a b = qrow_eqb a b.
Proof.
  induction a as [|x a IH]; intros [|y b] Ha Hb; cbn [rows_close qrow_eqb]; auto.
  inversion Ha; inversion Hb; subst. rewrite close_grid_elem by auto. f_equal. apply IH; auto.
Qed.

(* ------------------------------------------------------------------ *)
(* find_close on a distinct grid reference                             *)
(* ------------------------------------------------------------------ *)
Lemma find_close_sound : forall ref r off k,
  find_close r ref off = Some k ->
  exists j, k = off + j /\ j < length ref /\ rows_close r (nth j ref []) = true.
Proof.
  induction ref as [|x ref IH]; simpl; intros r off k H; [discriminate|].
  destruct (rows_close r x) eqn:E.
  - inversion H; subst. exists 0. repeat split; auto; lia.
  - apply IH in H as [j [-> [Hj Hc]]]. exists (S j). repeat split; auto; lia.
Qed.

Lemma find_close_complete : forall ref r off j,
  distinct ref -> Forall on_grid_row ref -> on_grid_row r ->
  j < length ref -> qrow_eqb r (nth j ref []) = true ->
  find_close r ref off = Some (off + j).
Proof.
  induction ref as [|x ref IH]; simpl; intros r off j Hd Hg Hr Hj He; [lia|].
  destruct Hd as [Hx Hd]. inversion Hg; subst.
  rewrite row_corr_grid_base by auto.
  destruct j as [|j].
  - rewrite He. f_equal. lia.
  - destruct (qrow_eqb r x) eqn:E.
    + exfalso. rewrite mem_row_false in Hx.
      assert (qrow_eqb x (nth j ref []) = true).
      { rewrite <- (qrow_eqb_congr_l r x _ E). exact He. }
      rewrite Hx in H; [discriminate|]. apply nth_In. lia.
    + rewrite (IH r (S off) j); auto; [f_equal; lia | lia].
Qed.

(* ------------------------------------------------------------------ *)
(* set_nthQ                                                            *)
(* ------------------------------------------------------------------ *)
Lemma set_nthQ_length : forall l k v, length (set_nthQ k v l) = length l.
Proof. induction l as [|y l IH]; intros [|k] v; simpl; auto. Qed.

Lemma set_nthQ_same : forall l k v d, k < length l -> nth k (set_nthQ k v l) d = v.
Proof. induction l as [|y l IH]; intros [|k] v d H; simpl in *; try lia; auto. apply IH; lia. Qed.

Lemma set_nthQ_other : forall l k j v d, k <> j -> nth j (set_nthQ k v l) d = nth j l d.
Proof.
  induction l as [|y l IH]; intros [|k] [|j] v d H; simpl; auto; try lia.
Qed.

(* ------------------------------------------------------------------ *)
(* relative_coeff_vector as a fold over (location, value) pairs        *)
(* ------------------------------------------------------------------ *)
Definition pv (ref : list qrow) (g : qsig) : list (nat * Q) :=
  flat_map (fun t => match find_close (fst t) ref 0 with Some loc => [(loc, snd t)] | None => [] end) g.

Definition place (c : list Q) (lv : nat * Q) : list Q := set_nthQ (fst lv) (snd lv) c.

Lemma fold_left_map_gen : forall (A B X : Type) (f : A -> B -> A) (m : X -> B) l a,
  fold_left f (map m l) a = fold_left (fun a x => f a (m x)) l a.
Proof. induction l as [|x l IH]; simpl; intros; auto. Qed.

Lemma rc_pairs : forall ref (g' g0 : qsig) d,
  let rc := fold_right (fun ir acc =>
                match find_close (snd ir) ref 0 with
                | Some loc => (fst ir :: fst acc, loc :: snd acc)
                | None => acc
                end) ([], []) (combine (seq (length g0) (length g')) (map fst g')) in
  map (fun ij => (snd ij, snd (nth (fst ij) (g0 ++ g') d))) (combine (fst rc) (snd rc)) = pv ref g'.
Proof.
  intros ref. induction g' as [|t g' IH]; intros g0 d; [reflexivity|].
  cbn zeta. cbn [length seq map combine fold_right pv flat_map].
  specialize (IH (g0 ++ [t]) d). cbn zeta in IH.
  rewrite app_length in IH. cbn [length] in IH. rewrite Nat.add_1_r in IH.
  rewrite <- app_assoc in IH. cbn [app] in IH.
  cbn [snd fst].
  destruct (find_close (fst t) ref 0) as [loc|].
  - cbn [fst snd combine map app]. rewrite nth_middle. f_equal. exact IH.
  - cbn [app]. exact IH.
Qed.

Lemma rcv_as_pv : forall (g : qsig) ref,
  relative_coeff_vector g ref = fold_left place (pv ref g) (repeat 0%Q (length ref)).
Proof.
  intros g ref. unfold relative_coeff_vector, row_correspondence.
  pose proof (rc_pairs ref g [] ([], 0%Q)) as H. cbn zeta in H. cbn [length app] in H.
  rewrite map_length.
  destruct (fold_right _ _ _) as [common corr]. cbn [fst snd] in H.
  rewrite <- H. rewrite fold_left_map_gen. reflexivity.
Qed.

Lemma place_fold_length : forall P c, length (fold_left place P c) = length c.
Proof.
  induction P as [|p P IH]; simpl; intros; auto. rewrite IH. apply set_nthQ_length.
Qed.

Lemma filter_nomatch : forall (g : qsig) r,
  mem_row r (map fst g) = false -> filter (fun t => qrow_eqb (fst t) r) g = [].
Proof.
  induction g as [|t g IH]; simpl; intros r H; auto.
  apply orb_false_iff in H as [H1 H2]. rewrite qrow_eqb_sym, H1. auto.
Qed.

Lemma pv_fold_nth : forall ref, distinct ref -> Forall on_grid_row ref ->
  forall (g : qsig) c0 k, distinct (map fst g) -> Forall on_grid_row (map fst g) ->
    k < length ref -> length c0 = length ref ->
    nth k (fold_left place (pv ref g) c0) 0%Q =
    match filter (fun t => qrow_eqb (fst t) (nth k ref [])) g with
    | (_, c) :: _ => c
    | [] => nth k c0 0%Q
    end.
Proof.
  intros ref Hd Hg. induction g as [|t g IH]; intros c0 k Hdg Hgg Hk Hc; [reflexivity|].
  cbn [map distinct] in Hdg. destruct Hdg as [Ht Hdg].
  cbn [map] in Hgg. inversion Hgg as [|? ? Hgt Hgg']; subst.
  cbn [pv flat_map]. rewrite fold_left_app. fold (pv ref g).
  cbn [filter].
  destruct (qrow_eqb (fst t) (nth k ref [])) eqn:E.
  - rewrite (find_close_complete ref (fst t) 0 k) by auto. cbn [Nat.add fold_left].
    rewrite IH; auto; [| unfold place; rewrite set_nthQ_length; auto].
    rewrite filter_nomatch.
    + unfold place. cbn [fst snd]. rewrite set_nthQ_same by lia. destruct t; reflexivity.
    + rewrite <- (mem_row_congr _ _ _ E). exact Ht.
  - destruct (find_close (fst t) ref 0) as [loc|] eqn:F.
    + cbn [fold_left]. rewrite IH; auto; [| unfold place; rewrite set_nthQ_length; auto].
      destruct (filter _ g) as [|[? c] ?]; auto.
      unfold place. cbn [fst snd]. apply set_nthQ_other.
      intros ->. apply find_close_sound in F as [j [Hj [Hj' Hc']]]. simpl in Hj. subst j.
      rewrite row_corr_grid_base in Hc'; auto; [congruence|].
      rewrite Forall_forall in Hg. apply Hg. apply nth_In. auto.
    + cbn [fold_left]. apply IH; auto.
Qed.

Lemma wfsig_rows_grid : forall n (g : qsig), wfsig n g -> Forall on_grid_row (map fst g).
Proof.
  intros n g H. apply Forall_forall. intros r Hr. apply in_map_iff in Hr as [t [<- Ht]].
  unfold wfsig in H. rewrite Forall_forall in H. apply H; auto.
Qed.

Lemma rcv_placement_base : forall (g : qsig) (ref : list qrow),
  distinct (map fst g) -> Forall on_grid_row (map fst g) ->
  distinct ref -> Forall on_grid_row ref ->
  length (relative_coeff_vector g ref) = length ref /\
  forall k, k < length ref ->
    nth k (relative_coeff_vector g ref) 0%Q = query_coeff g (nth k ref []).
Proof.
  intros g ref Hdg Hgg Hd Hg. rewrite rcv_as_pv. split.
  - rewrite place_fold_length. apply repeat_length.
  - intros k Hk. rewrite (pv_fold_nth ref Hd Hg g); auto; [|apply repeat_length].
    unfold query_coeff. destruct (filter _ g) as [|[? c] ?]; auto.
    apply nth_repeat.
Qed.

(* ------------------------------------------------------------------ *)
(* errors                                                              *)
(* ------------------------------------------------------------------ *)
Lemma missing_exponent_base : forall sy n (s h L : qsig),
  (exists e, moment_reduction_array sy n s h L = Err e) <->
  exists r, In r (product_rows sy n s h) /\ mem_row r (map fst L) = false.
Proof.
  intros sy n s h L. unfold moment_reduction_array.
  destruct (forallb _ (product_rows sy n s h)) eqn:E.
  - split; [intros [e He]; discriminate|].
    intros [r [Hr Hm]]. rewrite forallb_forall in E. rewrite E in Hm; auto. discriminate.
  - split; [intros _ | intros _; exists 1; reflexivity].
    destruct (existsb (fun r => negb (mem_row r (map fst L))) (product_rows sy n s h)) eqn:X.
    + apply existsb_exists in X as [r [Hr Hm]]. exists r. split; auto.
      apply negb_true_iff in Hm. exact Hm.
    + exfalso. assert (forallb (fun r => mem_row r (map fst L)) (product_rows sy n s h) = true); [|congruence].
      apply forallb_forall. intros r Hr.
      destruct (mem_row r (map fst L)) eqn:M; auto.
      assert (existsb (fun r => negb (mem_row r (map fst L))) (product_rows sy n s h) = true); [|congruence].
      apply existsb_exists. exists r. rewrite M. auto.
Qed.

(* ------------------------------------------------------------------ *)
(* symbolic rows                                                       *)
(* ------------------------------------------------------------------ *)
Definition sym_pairs (s h : qsig) : list (qrow * Q) :=
  flat_map (fun t2 => map (fun t1 => (round_row (vaddq (fst t1) (fst t2)), snd t2)) s) h.

Lemma in_sym_pairs : forall (s h : qsig) a b ca cb, In (a, ca) s -> In (b, cb) h ->
  In (round_row (vaddq a b), cb) (sym_pairs s h).
Proof.
  intros s h a b ca cb Ha Hb. unfold sym_pairs. apply in_flat_map. exists (b, cb). split; auto.
  apply in_map_iff. exists (a, ca). auto.
Qed.

Lemma symbolic_rows_cover : forall n (s h : qsig) a b ca cb,
  In (a, ca) s -> In (b, cb) h -> qiszero cb = false ->
  mem_row (round_row (vaddq a b)) (product_rows true n s h) = true.
Proof.
  intros n s h a b ca cb Ha Hb Hz. unfold product_rows. fold (sym_pairs s h).
  pose proof (in_sym_pairs s h a b ca cb Ha Hb) as Hin.
  set (r := round_row (vaddq a b)) in *.
  assert (Hkeep : In r (filter (fun r0 => existsb (fun p => qrow_eqb (fst p) r0 && negb (qiszero (snd p))) (sym_pairs s h))
                               (map fst (sym_pairs s h)))).
  { apply filter_In. split.
    - apply in_map_iff. exists (r, cb). auto.
    - apply existsb_exists. exists (r, cb). split; auto. cbn [fst snd].
      rewrite qrow_eqb_refl, Hz. reflexivity. }
  destruct (sym_pairs s h) as [|p [|p' ps]] eqn:E.
  - destruct Hin.
  - destruct Hin as [->|[]]. cbn [fst mem_row]. rewrite qrow_eqb_refl. reflexivity.
  - destruct (filter _ _) as [|x l] eqn:F; [destruct Hkeep|].
    apply mem_row_In. exact Hkeep.
Qed.

(* ------------------------------------------------------------------ *)
(* sort_unique keeps every row of a pairwise distinct list             *)
(* ------------------------------------------------------------------ *)
Lemma insert_row_length_new : forall l r, mem_row r l = false -> length (insert_row r l) = S (length l).
Proof.
  induction l as [|x l IH]; simpl; intros r H; auto.
  apply orb_false_iff in H as [H1 H2]. rewrite H1.
  destruct (qrow_ltb r x); simpl; auto.
Qed.

Lemma In_insert_row : forall l r x, In x (insert_row r l) -> x = r \/ In x l.
Proof.
  induction l as [|y l IH]; simpl; intros r x H.
  - destruct H as [<-|[]]; auto.
  - destruct (qrow_eqb r y); [right; exact H|].
    destruct (qrow_ltb r y); simpl in H.
    + destruct H as [<-|H]; auto.
    + destruct H as [<-|H]; auto. apply IH in H as [->|H]; auto.
Qed.

Lemma mem_insert_row : forall l r x, mem_row x (insert_row r l) = true -> qrow_eqb x r = true \/ mem_row x l = true.
Proof.
  intros l r x H. apply mem_row_ex in H as [y [Hy He]].
  apply In_insert_row in Hy as [->|Hy]; auto.
  right. apply mem_row_ex. exists y; auto.
Qed.

Lemma su_len_gen : forall rows acc, distinct rows -> (forall r, In r rows -> mem_row r acc = false) ->
  length (fold_left (fun acc r => insert_row r acc) rows acc) = length acc + length rows.
Proof.
  induction rows as [|r rows IH]; simpl; intros acc Hd Hacc; [lia|].
  destruct Hd as [Hr Hd]. rewrite IH; auto.
  - rewrite insert_row_length_new by auto. lia.
  - intros r' Hr'. destruct (mem_row r' (insert_row r acc)) eqn:E; auto.
    apply mem_insert_row in E as [E|E].
    + rewrite mem_row_false in Hr. rewrite qrow_eqb_sym in E. rewrite Hr in E; auto.
    + rewrite Hacc in E; auto.
Qed.

Lemma sort_unique_length_distinct : forall rows, distinct rows -> length (sort_unique rows) = length rows.
Proof. intros rows H. unfold sort_unique. rewrite su_len_gen; auto. Qed.

Lemma consolidate_distinct_id : forall (f : qsig), distinct (map fst f) -> consolidate 0%Q qadd f = f.
Proof.
  intros f H. unfold consolidate. rewrite sort_unique_length_distinct by auto.
  rewrite map_length, Nat.eqb_refl. reflexivity.
Qed.

(* injective row maps preserve distinctness *)
Lemma distinct_map_inj : forall (phi : qrow -> qrow) l,
  (forall a b, In a l -> In b l -> qrow_eqb (phi a) (phi b) = true -> qrow_eqb a b = true) ->
  distinct l -> distinct (map phi l).
Proof.
  induction l as [|x l IH]; simpl; intros Hinj Hd; auto. destruct Hd as [Hx Hd]. split.
  - apply mem_row_false. intros y Hy. apply in_map_iff in Hy as [z [<- Hz]].
    destruct (qrow_eqb (phi x) (phi z)) eqn:E; auto.
    apply Hinj in E; auto. rewrite mem_row_false in Hx. rewrite Hx in E; auto.
  - apply IH; auto.
Qed.

Lemma vaddq_cancel : forall a b c, length a = length c -> length b = length c ->
  qrow_eqb (vaddq a c) (vaddq b c) = true -> qrow_eqb a b = true.
Proof.
  induction a as [|x a IH]; intros [|y b] [|z c] Ha Hb H; simpl in Ha, Hb; try discriminate; auto.
  cbn [vaddq qrow_eqb] in *. apply andb_true_iff in H as [H1 H2]. apply andb_true_iff. split.
  - apply Qeq_bool_iff in H1. rewrite !Qred_correct in H1. apply Qeq_bool_iff.
    apply Qplus_inj_r in H1. exact H1.
  - apply (IH b c); auto.
Qed.

Definition shifted (h : qsig) (a : qrow) : qsig := map (fun t => (round_row (vaddq (fst t) a), snd t)) h.

Lemma wfsig_shifted : forall n (h : qsig) a, wfsig n h -> length a = n -> wfsig n (shifted h a).
Proof.
  intros n h a Hh Ha. unfold wfsig, shifted in *. rewrite Forall_forall in *.
  intros t Ht. apply in_map_iff in Ht as [u [<- Hu]]. cbn [fst]. split.
  - rewrite length_round_row, length_vaddq. destruct (Hh u Hu) as [E _]. unfold qrow in *.
    rewrite E, Ha. apply Nat.min_id.
  - apply on_grid_round_row.
Qed.

Lemma distinct_shifted : forall n (h : qsig) a, wfsig n h -> distinct (map fst h) ->
  length a = n -> on_grid_row a -> distinct (map fst (shifted h a)).
Proof.
  intros n h a Hh Hd Ha Hg. unfold shifted. rewrite map_map. cbn [fst].
  rewrite <- (map_map fst (fun r => round_row (vaddq r a))).
  apply distinct_map_inj; auto.
  intros x y Hx Hy E. apply in_map_iff in Hx as [tx [<- Hx]]. apply in_map_iff in Hy as [ty [<- Hy]].
  unfold wfsig in Hh. rewrite Forall_forall in Hh.
  destruct (Hh tx Hx) as [Lx Gx]. destruct (Hh ty Hy) as [Ly Gy].
  apply (vaddq_cancel _ _ a); [unfold qrow in *; congruence | unfold qrow in *; congruence |].
  pose proof (round_row_on_grid_eqb _ (on_grid_vaddq _ _ Gx Hg)) as Ex.
  pose proof (round_row_on_grid_eqb _ (on_grid_vaddq _ _ Gy Hg)) as Ey.
  rewrite qrow_eqb_sym in Ex.
  eapply qrow_eqb_trans; [exact Ex|]. eapply qrow_eqb_trans; [exact E|exact Ey].
Qed.

Lemma shift_sig_shifted : forall n (h : qsig) a, wfsig n h -> distinct (map fst h) ->
  length a = n -> on_grid_row a -> shift_sig h a = shifted h a.
Proof.
  intros n h a Hh Hd Ha Hg. unfold shift_sig, q_mk, mk. rewrite map_map. cbn [fst snd].
  fold (shifted h a). apply consolidate_distinct_id. eapply distinct_shifted; eauto.
Qed.
