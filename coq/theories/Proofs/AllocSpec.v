(* Proofs/AllocSpec.v — statements of the C20 theorems about Model/Alloc.v. *)
From Coq Require Import List Bool Arith ZArith Lia.
From SageVerif Require Import Model.Alloc.
Import ListNotations.

(* ---- a single Variable ---- *)
(* unstructured: consecutive distinct ids, one per component *)
Definition new_var_unstructured_stmt : Prop :=
  forall g sh name g' v, new_var g sh false name = ROk (g', v) ->
    length (v_ids v) = size_of sh /\ NoDup (v_ids v) /\
    (forall i, In i (v_ids v) -> (counter g <= i < counter g')%Z) /\
    v_gen v = generation g /\ generation g' = generation g /\ (counter g <= counter g')%Z.

(* symmetric n x n: entry (i,j) and (j,i) share an id, all other pairs of entries differ *)
Definition entry (n : nat) (ids : list Z) (i j : nat) : Z := nth (i * n + j) ids 0%Z.
Definition new_var_symmetric_stmt : Prop :=
  forall g n name g' v, new_var g [n; n] true name = ROk (g', v) ->
    length (v_ids v) = n * n /\
    (forall i j, i < n -> j < n -> entry n (v_ids v) i j = entry n (v_ids v) j i) /\
    (forall i j k l, i < n -> j < n -> k < n -> l < n ->
       entry n (v_ids v) i j = entry n (v_ids v) k l -> (i = k /\ j = l) \/ (i = l /\ j = k)) /\
    (forall x, In x (v_ids v) -> (counter g <= x < counter g')%Z) /\
    v_gen v = generation g.

(* errors: zero-size shapes and non-square symmetric shapes are rejected without consuming ids *)
Definition new_var_errors_stmt : Prop :=
  forall g sh sym name,
    new_var g sh sym name = RErr <->
    (sym = false /\ size_of sh = 0) \/
    (sym = true /\ forall n, sh <> [n; n] \/ n = 0).

(* ---- histories: within one generation all component ids are pairwise distinct across
   Variables; ids are below the counter; (id, generation) identifies a component ---- *)
Definition ids_unique_stmt : Prop :=
  forall ops,
    let '(g, vs) := run ops in
    (* ids of the current generation are below the counter *)
    (forall v x, In v vs -> v_gen v = generation g -> In x (v_ids v) -> (0 <= x < counter g)%Z) /\
    (* two different Variables of the same generation share no id *)
    (forall i j vi vj, i <> j -> nth_error vs i = Some vi -> nth_error vs j = Some vj ->
       v_gen vi = v_gen vj -> forall x, In x (v_ids vi) -> ~ In x (v_ids vj)) /\
    (* generations never exceed the current one *)
    (forall v, In v vs -> (v_gen v <= generation g)%Z).

(* generated names 'unnamed_var_{k}' are pairwise distinct *)
Definition unnamed_distinct_stmt : Prop :=
  forall ops i j vi vj ki kj,
    i <> j -> nth_error (snd (run ops)) i = Some vi -> nth_error (snd (run ops)) j = Some vj ->
    v_name vi = Unnamed ki -> v_name vj = Unnamed kj -> ki <> kj.

(* clear_variable_indices: restarts ids but moves to a fresh generation *)
Definition clear_separates_stmt : Prop :=
  forall g, counter (clear g) = 0%Z /\ generation (clear g) = (generation g + 1)%Z /\ unnamed (clear g) = unnamed g.

(* ---- pickling protocol ---- *)
Definition reduce_setstate_stmt : Prop :=
  forall base v,
    setstate (v_shape v) (reduce_state base v) = Some (base, true, v).

Definition sv_roundtrip_stmt : Prop :=
  forall n s, sv_parent s = Some n -> sv_roundtrip n s = s.

(* getstate drops the parent link (so that pickling a ScalarVariable does not drag the Variable along) *)
Definition sv_getstate_drops_parent_stmt : Prop :=
  forall s, In (KParent, SVP None) (sv_getstate s) /\
            forall p, In (KParent, SVP (Some p)) (sv_getstate s) -> False.
