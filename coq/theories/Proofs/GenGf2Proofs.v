(* Proofs/GenGf2Proofs.v — simulation between the index-based loops generated from the source and the structural recursion of
   Model/Gf2.v. *)
From Coq Require Import List Bool Arith ZArith Lia.
From SageVerif Require Import Model.Gf2 Model.NpIdioms Gen.GenGf2 Proofs.GenGf2Spec.
Import ListNotations.

(* ---------------------------------------------------------------- list facts *)
Lemma set_row_app {l1 : mat} j r l2 : set_row (length l1 + j) r (l1 ++ l2) = l1 ++ set_row j r l2.
Proof. induction l1 as [|x l1 IH]; cbn [length app Nat.add set_row]; [reflexivity|]. rewrite IH. reflexivity. Qed.

Lemma nth_app_len {X} (l1 l2 : list X) j d : nth (length l1 + j) (l1 ++ l2) d = nth j l2 d.
Proof. rewrite app_nth2 by lia. f_equal. lia. Qed.

Lemma skipn_app_len {X} (l1 l2 : list X) : skipn (length l1) (l1 ++ l2) = l2.
Proof. induction l1; [reflexivity|]. cbn [length app skipn]. assumption. Qed.

Lemma mapi_aux_app {A B} (f : nat -> A -> B) i l1 l2 :
  mapi_aux f i (l1 ++ l2) = mapi_aux f i l1 ++ mapi_aux f (i + length l1) l2.
Proof.
  revert i. induction l1 as [|x l1 IH]; intro i; cbn [app mapi_aux length].
  - rewrite Nat.add_0_r. reflexivity.
  - rewrite IH. replace (i + S (length l1)) with (S i + length l1) by lia. reflexivity.
Qed.

Lemma mapi_aux_id_below {A} (g : nat -> A -> A) i l bound :
  (forall j x, j < bound -> g j x = x) -> i + length l <= bound -> mapi_aux g i l = l.
Proof.
  intro H. revert i. induction l as [|x l IH]; intros i Hb; cbn [mapi_aux length] in *; [reflexivity|].
  rewrite H by lia. rewrite IH by lia. reflexivity.
Qed.

Lemma mapi_aux_map_above {A} (g : nat -> A -> A) (g' : A -> A) i l bound :
  (forall j x, bound <= j -> g j x = g' x) -> bound <= i -> mapi_aux g i l = map g' l.
Proof.
  intro H. revert i. induction l as [|x l IH]; intros i Hb; cbn [mapi_aux map]; [reflexivity|].
  rewrite H by lia. rewrite IH by lia. reflexivity.
Qed.

(* ---------------------------------------------------------------- the pivot search *)
Lemma split_first_one_spec k rows :
  match split_first_one k rows with
  | None => first_one k rows = None /\ Forall (fun r => bit k r = false) rows
  | Some (pre, p, post) => rows = pre ++ p :: post /\ first_one k rows = Some (length pre) /\ bit k p = true
  end.
Proof.
  induction rows as [|r rs IH]; cbn [split_first_one first_one].
  - split; constructor.
  - destruct (bit k r) eqn:Eb.
    + repeat split; assumption.
    + destruct (split_first_one k rs) as [[[pre p] post]|].
      * destruct IH as (E & F & Bp). repeat split; [rewrite E; reflexivity | rewrite F; reflexivity | exact Bp].
      * destruct IH as (F & Hall). split; [rewrite F; reflexivity | constructor; assumption].
Qed.

(* ---------------------------------------------------------------- one iteration *)
Lemma nth_len {X} (l1 : list X) x l2 d : nth (length l1) (l1 ++ x :: l2) d = x.
Proof. induction l1; [reflexivity|]. cbn [length app nth]. assumption. Qed.

Lemma set_row_len (l1 : mat) x l2 r : set_row (length l1) r (l1 ++ x :: l2) = l1 ++ r :: l2.
Proof. induction l1 as [|y l1 IH]; [reflexivity|]. cbn [length app set_row]. rewrite IH. reflexivity. Qed.

Lemma set_row_len_plus (l1 : mat) x l2 r j : set_row (length l1 + S j) r (l1 ++ x :: l2) = l1 ++ x :: set_row j r l2.
Proof. induction l1 as [|y l1 IH]; [reflexivity|]. cbn [length app set_row Nat.add]. rewrite IH. reflexivity. Qed.

Lemma swap_rows_front (top : mat) pre p post :
  swap_rows (length top) (length top + length pre) (top ++ pre ++ p :: post) =
  top ++ p :: match pre with [] => post | r0 :: pre' => pre' ++ r0 :: post end.
Proof.
  unfold swap_rows. destruct pre as [|r0 pre'].
  - cbn [length app]. rewrite Nat.add_0_r. rewrite nth_len. rewrite set_row_len. rewrite set_row_len. reflexivity.
  - cbn [length app]. rewrite nth_len.
    replace (nth (length top + S (length pre')) (top ++ r0 :: pre' ++ p :: post) []) with p.
    + rewrite set_row_len. rewrite set_row_len_plus. rewrite set_row_len. reflexivity.
    + rewrite app_nth2 by lia. replace (length top + S (length pre') - length top) with (S (length pre')) by lia.
      cbn [nth]. rewrite nth_len. reflexivity.
Qed.

Lemma elim_rows_after_front (top : mat) p others k :
  elim_rows_after (length top) k (top ++ p :: others) = top ++ p :: elim_below k p others.
Proof.
  unfold elim_rows_after, mapi, elim_below.
  rewrite nth_len.
  rewrite mapi_aux_app. cbn [mapi_aux Nat.add].
  rewrite (mapi_aux_id_below _ 0 top (S (length top))).
  - f_equal. replace (length top <? length top) with false by (symmetry; apply Nat.ltb_irrefl). cbn [andb]. f_equal.
    apply (mapi_aux_map_above _ (fun r => if bit k r then xorrow r p else r) _ _ (S (length top))); [|lia].
    intros j x Hj. replace (length top <? j) with true by (symmetry; apply Nat.ltb_lt; lia). reflexivity.
  - intros j x Hj. replace (length top <? j) with false by (symmetry; apply Nat.ltb_ge; lia). reflexivity.
  - lia.
Qed.

(* ---------------------------------------------------------------- the forward loop *)
Lemma fwd_sim : forall fn top rest k piv fuel m n,
  length (top ++ rest) = m -> k + fn = n -> (m - length top) + fn <= fuel ->
  (let '(A', _, _, piv') := gen_fwd_loop fuel m n (top ++ rest) (length top) k piv in (A', piv')) = fwd fn k top rest piv.
Proof.
  induction fn as [|f IH]; intros top rest k piv fuel m n Hm Hk Hf.
  - (* k = n *)
    cbn [fwd]. destruct fuel as [|fuel']; cbn [gen_fwd_loop]; [reflexivity|].
    replace (k <? n) with false by (symmetry; apply Nat.ltb_ge; lia). rewrite andb_false_r. reflexivity.
  - cbn [fwd]. destruct rest as [|r rs].
    + (* no rows left: h = m *)
      rewrite app_nil_r in *. destruct fuel as [|fuel']; cbn [gen_fwd_loop]; [reflexivity|].
      replace (length top <? m) with false by (symmetry; apply Nat.ltb_ge; lia). reflexivity.
    + assert (Hh : length top < m) by (rewrite app_length in Hm; cbn [length] in Hm; lia).
      destruct fuel as [|fuel']; [lia|]. cbn [gen_fwd_loop].
      replace (length top <? m) with true by (symmetry; apply Nat.ltb_lt; lia).
      replace (k <? n) with true by (symmetry; apply Nat.ltb_lt; lia). cbn [andb].
      rewrite skipn_app_len.
      pose proof (split_first_one_spec k (r :: rs)) as S.
      destruct (split_first_one k (r :: rs)) as [[[pre p] post]|].
      * destruct S as (E & F & Bp). unfold col_argmax. rewrite F.
        rewrite E. rewrite nth_app_len.
        rewrite nth_len.
        rewrite Bp. cbn [negb].
        rewrite swap_rows_front. rewrite elim_rows_after_front.
        match goal with |- context [elim_below k p ?o] => set (others := o) end.
        assert (Lo : length others = length pre + length post).
        { unfold others. destruct pre; [reflexivity|]. rewrite app_length. cbn [length]. lia. }
        replace (top ++ p :: elim_below k p others) with ((top ++ [p]) ++ elim_below k p others)
          by (rewrite <- app_assoc; reflexivity).
        replace (length top + 1) with (length (top ++ [p])) by (rewrite app_length; reflexivity).
        replace (k + 1) with (S k) by lia.
        apply IH.
        -- clearbody others. rewrite E in Hm. rewrite !app_length in Hm. cbn [length] in Hm.
           rewrite !app_length. unfold elim_below. rewrite map_length. cbn [length].
           destruct pre as [|r0 pre']; cbn [length] in *; rewrite ?app_length; cbn [length]; lia.
        -- lia.
        -- rewrite app_length. cbn [length]. lia.
      * destruct S as (F & Hall). unfold col_argmax. rewrite F. rewrite Nat.add_0_r.
        rewrite nth_len.
        inversion Hall as [|? ? Br Hall']; subst. rewrite Br. cbn [negb].
        replace (k + 1) with (S k) by lia.
        apply IH; lia.
Qed.

Lemma back_subst_aux_fold : forall piv A i,
  back_subst_aux A i piv = fold_left (fun A prpc => back_step A (fst prpc) (snd prpc)) (enumerate_from i piv) A.
Proof.
  induction piv as [|pc piv IH]; intros A i; cbn [back_subst_aux enumerate_from fold_left]; [reflexivity|].
  rewrite IH. reflexivity.
Qed.

Lemma gen_fwd_whole A :
  (let '(A', _, _, piv') := gen_fwd_loop (length A + ncols A) (length A) (ncols A) A 0 0 [] in (A', piv')) = fwd (ncols A) 0 [] A [].
Proof.
  apply (fwd_sim (ncols A) [] A 0 [] (length A + ncols A) (length A) (ncols A)); cbn [app length]; lia.
Qed.

Lemma gen_rref_equiv : gen_rref_equiv_stmt.
Proof.
  intros fo A. unfold gen_mod2rref, mod2rref.
  pose proof (gen_fwd_whole A) as H.
  destruct (gen_fwd_loop (length A + ncols A) (length A) (ncols A) A 0 0 []) as [[[A' h'] k'] piv'].
  rewrite <- H. destruct fo; cbn [negb]; [reflexivity|].
  unfold back_subst. rewrite back_subst_aux_fold. reflexivity.
Qed.

(* ---------------------------------------------------------------- null space basis *)
Lemma fold_seq_enumerate {V} (G : nat -> nat -> V -> V) (p : list nat) : forall p' pre v,
  p = pre ++ p' ->
  fold_left (fun col j => G (nth j p 0) j col) (seq (length pre) (length p')) v =
  fold_left (fun col ip => G (snd ip) (fst ip) col) (enumerate_from (length pre) p') v.
Proof.
  induction p' as [|a p' IH]; intros pre v E; cbn [length seq fold_left enumerate_from fst snd]; [reflexivity|].
  assert (Ha : nth (length pre) p 0 = a) by (rewrite E; apply nth_len).
  rewrite Ha.
  specialize (IH (pre ++ [a]) (G a (length pre) v)).
  rewrite app_length in IH. cbn [length] in IH. rewrite Nat.add_1_r in IH.
  apply IH. rewrite <- app_assoc. exact E.
Qed.

Lemma gen_nullspace_equiv : gen_nullspace_equiv_stmt.
Proof.
  intros n arref p. unfold gen_mod2nullspace_basis, mod2nullspace_basis, free_cols. apply map_ext. intro f.
  unfold basis_vec.
  exact (fold_seq_enumerate (fun pc i col => set_nth pc (bit f (nth i arref [])) col) p p [] _ eq_refl).
Qed.

(* ---------------------------------------------------------------- linsolve *)
Lemma last_rev_hd (l : list nat) d : last l d = hd d (rev l).
Proof.
  induction l as [|a l IH] using rev_ind; [reflexivity|]. rewrite last_last, rev_unit. reflexivity.
Qed.

Lemma enumerate_from_app {X} (l1 l2 : list X) i :
  enumerate_from i (l1 ++ l2) = enumerate_from i l1 ++ enumerate_from (i + length l1) l2.
Proof.
  revert i. induction l1 as [|x l1 IH]; intro i; cbn [app enumerate_from length].
  - rewrite Nat.add_0_r. reflexivity.
  - rewrite IH. replace (i + S (length l1)) with (S i + length l1) by lia. reflexivity.
Qed.

Lemma backloop_sim A1 b1 : forall piv x,
  fst (fold_left (fun st pc => let '(x, row) := st in
                   (set_nth pc (xorb (nth row b1 false) (dotb (skipn (pc + 1) (nth row A1 [])) (skipn (pc + 1) x))) x, row - 1))
                 (rev piv) (x, length piv - 1)) =
  backsolve A1 b1 (rev (enumerate_from 0 piv)) x.
Proof.
  induction piv as [|a q IH] using rev_ind; intro x; [reflexivity|].
  rewrite rev_unit. rewrite enumerate_from_app. cbn [enumerate_from Nat.add]. rewrite rev_unit.
  cbn [fold_left backsolve]. rewrite app_length. cbn [length].
  replace (length q + 1 - 1) with (length q) by lia. rewrite Nat.add_1_r.
  apply IH.
Qed.

Lemma ncols_augment n A b : Forall (fun r => length r = n) A -> length b = length A -> A <> [] -> ncols (augment A b) = S n.
Proof.
  intros F L N. destruct A as [|r A]; [congruence|]. destruct b as [|bi b]; [discriminate|].
  unfold augment. cbn [combine map ncols fst snd]. inversion F; subst. rewrite app_length. cbn [length]. lia.
Qed.

Lemma gen_linsolve_equiv : gen_linsolve_equiv_stmt.
Proof.
  intros n A b F L. unfold gen_mod2linsolve, mod2linsolve, column_stack_vec.
  rewrite gen_rref_equiv. unfold mod2rref.
  assert (Hf : fwd (ncols (augment A b)) 0 [] (augment A b) [] = fwd (S n) 0 [] (augment A b) []).
  { destruct A as [|r A].
    - reflexivity.
    - rewrite (ncols_augment n (r :: A) b F L) by discriminate. reflexivity. }
  rewrite Hf. destruct (fwd (S n) 0 [] (augment A b) []) as [A1 piv].
  assert (Hc : ((0 <? length piv) && Nat.eqb (last piv 0) n) = match rev piv with l :: _ => Nat.eqb l n | [] => false end).
  { rewrite last_rev_hd. rewrite <- rev_length. destruct (rev piv); reflexivity. }
  rewrite Hc. destruct (match rev piv with l :: _ => Nat.eqb l n | [] => false end); [reflexivity|].
  f_equal. apply backloop_sim.
Qed.

(* ---------------------------------------------------------------- transfer of the C18 theorems *)
From SageVerif Require Import Proofs.Gf2Spec Proofs.Gf2Proofs.

Lemma gen_linsolve_sound_complete : gen_linsolve_sound_complete_stmt.
Proof.
  intros n A b W N L. rewrite (gen_linsolve_equiv n A b W L). split.
  - intros x H. exact (linsolve_sound n A b x W N L H).
  - intro H. exact (linsolve_complete n A b W N L H).
Qed.

Lemma gen_rref_kernel : gen_rref_kernel_stmt.
Proof.
  intros fo n A R piv x W N Lx H. rewrite gen_rref_equiv in H. exact (rref_kernel fo n A R piv x W N Lx H).
Qed.

Lemma gen_nullspace_exact : gen_nullspace_exact_stmt.
Proof.
  intros n A R piv W N H x Lx. rewrite gen_rref_equiv in H. rewrite gen_nullspace_equiv.
  exact (proj1 (nullspace_exact n A R piv W N H) x Lx).
Qed.

(* ---------------------------------------------------------------- sign patterns *)
Lemma existsb_map {X Y} (f : Y -> bool) (g : X -> Y) l : existsb f (map g l) = existsb (fun x => f (g x)) l.
Proof. induction l as [|x l IH]; [reflexivity|]. cbn [map existsb]. rewrite IH. reflexivity. Qed.

Lemma length_select {X} (idx : list nat) (l : list X) d : length (select idx l d) = length idx.
Proof. unfold select. apply map_length. Qed.

Lemma if_len_zero {X Y} (l : list X) (a b : Y) :
  (if Nat.eqb (length l) 0 then a else b) = match l with [] => a | _ :: _ => b end.
Proof. destruct l; reflexivity. Qed.

Lemma gen_lsn_equiv : gen_lsn_equiv_stmt.
Proof.
  intros n alpha moments. unfold gen_linear_system_negatives, linear_system_negatives.
  set (a := parmat alpha).
  set (U := filter (fun i => negb (Z.eqb (nth i moments 0%Z) 0) && existsb (fun e => e) (nth i a [])) (seq 0 (length a))).
  rewrite if_len_zero.
  assert (EW : filter (fun j => existsb (fun i => bit j (nth i a [])) U) (seq 0 n) =
               filter (fun j => existsb (fun r => bit j r) (select U a [])) (seq 0 n)).
  { apply filter_ext. intro j. unfold select. rewrite existsb_map. reflexivity. }
  rewrite EW.
  set (W := filter (fun j => existsb (fun r => bit j r) (select U a [])) (seq 0 n)).
  rewrite if_len_zero.
  rewrite gen_linsolve_equiv.
  - destruct U; [reflexivity|]. destruct W; reflexivity.
  - rewrite Forall_map. rewrite Forall_forall. intros r _. apply length_select.
  - rewrite !map_length. unfold select. rewrite map_length. reflexivity.
Qed.

Lemma gen_signs_equiv : gen_signs_equiv_stmt.
Proof.
  intros n alpha moments heuristic all_signs. unfold gen_variable_sign_patterns, variable_sign_patterns.
  rewrite gen_lsn_equiv. destruct (linear_system_negatives n alpha moments) as [x|a1 U W|x0 a1 U W].
  - reflexivity.
  - destruct heuristic; reflexivity.
  - destruct all_signs; [|reflexivity].
    rewrite gen_rref_equiv. destruct (mod2rref false a1) as [arref p].
    rewrite gen_nullspace_equiv. reflexivity.
Qed.

Lemma gen_signs_exact : gen_signs_exact_stmt.
Proof.
  intros n alpha moments W L E. split; [|split].
  - intros all_signs ys H. rewrite gen_signs_equiv in H. exact (signs_sound n alpha moments all_signs ys W L E H).
  - intros heur ys y H Ly C R. rewrite gen_signs_equiv in H. exact (signs_complete n alpha moments heur ys y W L E H Ly C R).
  - intro all_signs. rewrite gen_signs_equiv. exact (signs_none_iff n alpha moments all_signs W L E).
Qed.
