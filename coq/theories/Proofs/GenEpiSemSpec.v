(* Proofs/GenEpiSemSpec.v — the epigraph theorems of C07 restated for the REGENERATED epigraph_conic_form of each atom (Gen/GenEpi.v): the rows the
   source emits for an atom are satisfied by an assignment exactly when the atom's value is at most its epigraph variable *)
From Coq Require Import List Reals ZArith QArith.
From SageVerif Require Import Model.Expr Model.SolverForms Model.Compile Model.TripletIdioms Gen.GenEpi Math.RVec Proofs.ExprSpec Proofs.FormsSpec Proofs.CompileSpec.
Import ListNotations.
Local Open Scope R_scope.

Definition gen_epi_abs_iff_stmt : Prop :=
  forall rho dummy t x, block_sat rho (gen_epi_block dummy t (ANl KAbs [x])) <-> Rabs (aff_val rho x) <= rho t.
Definition gen_epi_pos_iff_stmt : Prop :=
  forall rho dummy t x, block_sat rho (gen_epi_block dummy t (ANl KPos [x])) <-> Rmax (aff_val rho x) 0 <= rho t.
Definition gen_epi_exp_iff_stmt : Prop :=
  forall rho dummy t x, block_sat rho (gen_epi_block dummy t (ANl KExp [x])) <-> exp (aff_val rho x) <= rho t.
Definition gen_epi_norm_iff_stmt : Prop :=
  forall rho dummy t args, block_sat rho (gen_epi_block dummy t (ANl KNorm2 args)) <-> sqrt (sumsq (map (aff_val rho) args)) <= rho t.
Definition gen_epi_relent_iff_stmt : Prop :=
  forall rho dummy t x y,
    block_sat rho (gen_epi_block dummy t (ANl KRelEnt [x; y])) <->
    ((0 < aff_val rho x /\ 0 < aff_val rho y /\ rel_entr (aff_val rho x) (aff_val rho y) <= rho t) \/
     (aff_val rho x = 0 /\ 0 <= aff_val rho y /\ 0 <= rho t)).
