(* Proofs/PolyBase.v — basic facts for the C05 proofs: monomials at |x|, parity of natural rational
   exponents, absolute values of rationals, and the termwise comparison  k*|x|^a <= c*x^a. *)
From Coq Require Import Reals List Bool Arith ZArith QArith Qabs Qreals Lra Lia.
From SageVerif Require Import Math.RVec Model.Expr Model.Signomial Model.SigExpr Model.SymSig Model.PolyRep
  Proofs.ExprSpec Proofs.SigSpec Proofs.SigLemmas Proofs.SigRound Proofs.SigMk
  Proofs.CalcSpec Proofs.CalcBase Proofs.CalcPoly Proofs.PolySpec.
Import ListNotations.
Local Open Scope R_scope.

(* ------------------------------------------------------------------ *)
(* |x| and log|x| *)
Lemma no_zero_cons : forall v x, no_zero_coord (v :: x) <-> v <> 0 /\ no_zero_coord x.
Proof.
  intros v x. unfold no_zero_coord. split.
  - intros H. inversion H; subst. auto.
  - intros [H1 H2]. constructor; auto.
Qed.

Lemma logabs_length : forall x, length (logabs x) = length x.
Proof. intros. unfold logabs. apply map_length. Qed.

Lemma map_exp_logabs : forall x, no_zero_coord x -> map exp (logabs x) = map Rabs x.
Proof.
  induction x as [|v x IH]; intros H; auto.
  apply no_zero_cons in H. destruct H as [Hv Hx].
  unfold logabs in *. simpl. rewrite IH by auto. f_equal.
  apply exp_ln. now apply Rabs_pos_lt.
Qed.

Lemma mono_abs_exp : forall a x, natrow a -> no_zero_coord x ->
  monoR a (map Rabs x) = exp (dot (rowR a) (logabs x)).
Proof. intros a x Ha Hx. rewrite <- (map_exp_logabs x Hx). now apply mono_exp. Qed.

Lemma mono_abs : forall a x, Rabs (monoR a x) = monoR a (map Rabs x).
Proof.
  induction a as [|e a IH]; intros x.
  - simpl. apply Rabs_R1.
  - destruct x as [|v x]; [simpl; apply Rabs_R1|].
    simpl map. rewrite !monoR_cons, Rabs_mult, IH, <- RPow_abs. reflexivity.
Qed.

Lemma mono_abs_nonneg : forall a x, 0 <= monoR a (map Rabs x).
Proof. intros. rewrite <- mono_abs. apply Rabs_pos. Qed.

Lemma mono_between : forall a x,
  - monoR a (map Rabs x) <= monoR a x <= monoR a (map Rabs x).
Proof.
  intros a x. rewrite <- mono_abs. unfold Rabs. destruct (Rcase_abs (monoR a x)); lra.
Qed.

Lemma mono_abs_pos : forall a x, no_zero_coord x -> 0 < monoR a (map Rabs x).
Proof.
  induction a as [|e a IH]; intros x H.
  - simpl. lra.
  - destruct x as [|v x]; [simpl; lra|]. apply no_zero_cons in H. destruct H as [Hv Hx].
    simpl map. rewrite monoR_cons. apply Rmult_lt_0_compat; auto.
    apply pow_lt. now apply Rabs_pos_lt.
Qed.

(* ------------------------------------------------------------------ *)
(* parity *)
Lemma even_natq : forall e, is_even_q e = true -> exists j, natq e = (2 * j)%nat.
Proof.
  intros e H. unfold is_even_q in H. apply Z.even_spec in H. destruct H as [m Hm].
  unfold natq. rewrite Hm. exists (Z.to_nat m). lia.
Qed.

Lemma pow_even_abs : forall v j, v ^ (2 * j) = Rabs v ^ (2 * j).
Proof. intros v j. rewrite !pow_mult, pow2_abs. reflexivity. Qed.

Lemma mono_even : forall a x, row_even a = true -> monoR a x = monoR a (map Rabs x).
Proof.
  induction a as [|e a IH]; intros x H; auto.
  destruct x as [|v x]; auto.
  unfold row_even in H. simpl in H. apply andb_true_iff in H. destruct H as [He Ha].
  simpl map. rewrite !monoR_cons, (IH x Ha).
  destruct (even_natq e He) as [j ->]. now rewrite pow_even_abs.
Qed.

(* ------------------------------------------------------------------ *)
(* absolute values of rationals *)
Lemma Q2R_Qabs : forall q, Q2R (Qabs q) = Rabs (Q2R q).
Proof.
  intros q. apply (Qabs_case q (fun y => Q2R y = Rabs (Q2R q))); intros H.
  - apply Qle_Rle in H. rewrite Q2R_0' in H. rewrite Rabs_right; lra.
  - apply Qle_Rle in H. rewrite Q2R_0' in H. rewrite Q2R_opp, Rabs_left1; lra.
Qed.

Lemma Q2R_qabs_neg : forall q, Q2R (qabs_neg q) = - Rabs (Q2R q).
Proof. intros q. unfold qabs_neg. now rewrite Q2R_Qred, Q2R_opp, Q2R_Qabs. Qed.

(* ------------------------------------------------------------------ *)
(* termwise comparison *)
Lemma term_bound : forall a x k c, natrow a -> no_zero_coord x -> k <= - Rabs c ->
  k * exp (dot (rowR a) (logabs x)) <= c * monoR a x.
Proof.
  intros a x k c Ha Hx Hk. rewrite <- (mono_abs_exp a x Ha Hx).
  pose proof (mono_abs_nonneg a x) as HM. pose proof (mono_abs a x) as HA.
  set (M := monoR a (map Rabs x)) in *. set (m := monoR a x) in *.
  assert (H1 : - (Rabs c * M) <= c * m).
  { rewrite <- HA, <- Rabs_mult. unfold Rabs. destruct (Rcase_abs (c * m)); lra. }
  assert (H2 : k * M <= - Rabs c * M) by (apply Rmult_le_compat_r; auto).
  lra.
Qed.

Lemma term_even : forall a x, natrow a -> no_zero_coord x -> row_even a = true ->
  exp (dot (rowR a) (logabs x)) = monoR a x.
Proof. intros a x Ha Hx He. rewrite <- (mono_abs_exp a x Ha Hx). symmetry. now apply mono_even. Qed.

(* natural rows are on the grid *)
Lemma natrow_on_grid : forall a, natrow a -> on_grid_row a.
Proof.
  intros a H. unfold natrow, on_grid_row in *. rewrite Forall_forall in *. intros q Hq.
  apply is_nat_on_grid. auto.
Qed.
