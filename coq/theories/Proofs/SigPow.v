(* Proofs/SigPow.v — nonnegative integer powers and one-term negative powers. *)
From Coq Require Import Reals List Bool Arith ZArith QArith Qreals Lra Lia Qabs.
From SageVerif Require Import Math.RVec Model.Signomial Model.SigExpr Proofs.SigSpec
  Proofs.SigLemmas Proofs.SigRound Proofs.SigMk Proofs.SigOps.
Import ListNotations.
Local Open Scope R_scope.

Definition q_pow_iter := pow_iter (C:=Q) 0%Q qadd qmul qid qiszero.

Lemma q_pow_nat_0 : forall n f, q_pow_nat n f 0 = qconst n (qid 1).
Proof. reflexivity. Qed.
Lemma q_pow_nat_S : forall n f k, q_pow_nat n f (S k) = q_pow_iter n k (q_mk f) f.
Proof. reflexivity. Qed.
Lemma q_pow_iter_0 : forall n s f, q_pow_iter n 0 s f = s.
Proof. reflexivity. Qed.
Lemma q_pow_iter_S : forall n k s f, q_pow_iter n (S k) s f = q_pow_iter n k (q_mul n s f) f.
Proof. reflexivity. Qed.

Lemma pow_iter_spec : forall n f x, good n f -> forall k s, good n s ->
  sig_evalR (q_pow_iter n k s f) x = sig_evalR s x * sig_evalR f x ^ k /\ good n (q_pow_iter n k s f).
Proof.
  intros n f x [Hwf [Hdf Hnf]]. induction k; intros s [Hws [Hds Hns]].
  - rewrite q_pow_iter_0. split; [simpl; lra|repeat split; auto].
  - rewrite q_pow_iter_S.
    destruct (mul_good n s f Hws Hwf Hns Hnf) as [_ Hg].
    destruct (IHk _ Hg) as [He Hg']. split; auto.
    rewrite He, (mul_eval n); auto. simpl. ring.
Qed.

Lemma mk_good : forall n f, wfsig n f -> f <> [] -> good n (q_mk f).
Proof.
  intros n f H Hn. split; [|split].
  - now apply mk_wf, wfsig_lengths.
  - apply mk_distinct.
  - now apply mk_nonempty.
Qed.

Lemma qconst_good : forall n c, good n (qconst n c).
Proof.
  intros. split; [|split]; [apply qconst_wf|apply qconst_distinct|apply qconst_nonempty].
Qed.

Lemma pow_nat_full : forall n k f x, good n f ->
  sig_evalR (q_pow_nat n f k) x = sig_evalR f x ^ k /\ good n (q_pow_nat n f k).
Proof.
  intros n k f x Hg. destruct k.
  - rewrite q_pow_nat_0. split; [|apply qconst_good].
    rewrite qconst_eval, Q2R_qid, Q2R_1'. reflexivity.
  - rewrite q_pow_nat_S. destruct Hg as [Hw [Hd Hn]].
    destruct (pow_iter_spec n f x (conj Hw (conj Hd Hn)) k (q_mk f) (mk_good n f Hw Hn)) as [He Hg].
    split; auto. rewrite He, (mk_eval_grid n); auto.
Qed.

Lemma pow_nat_spec : pow_nat_spec_stmt.
Proof.
  intros n k f x Hw Hd Hn _. apply pow_nat_full. repeat split; auto.
Qed.

(* ------------------------------------------------------------------ *)
(* negative powers *)
Definition scale_row (p : Z) (a : qrow) : qrow := map (fun x => Qred (inject_Z p * x)%Q) a.

Lemma q_pow_neg_unfold : forall f p,
  q_pow_neg f p = match filter nz f with
                  | [(a, v)] => Some (q_mk [(scale_row p a, qpow_z v p)])
                  | _ => None
                  end.
Proof. reflexivity. Qed.

Lemma Q2R_inject_Z : forall p, Q2R (inject_Z p) = IZR p.
Proof. intros. unfold Q2R, inject_Z. simpl. field. Qed.

Lemma dot_scale_row : forall p a x, dot (rowR (scale_row p a)) x = IZR p * dot (rowR a) x.
Proof.
  induction a; intros x; [simpl; lra|]. destruct x; [simpl; lra|].
  unfold rowR, scale_row in *. cbn [map dot]. rewrite IHa, Q2R_Qred, Q2R_mult, Q2R_inject_Z. ring.
Qed.

Lemma exp_INR_mult : forall m s, exp (INR m * s) = exp s ^ m.
Proof.
  induction m; intros s.
  - simpl. rewrite Rmult_0_l. apply exp_0.
  - rewrite S_INR. replace ((INR m + 1) * s) with (INR m * s + s) by ring.
    rewrite exp_plus, IHm. simpl. ring.
Qed.

Lemma IZR_pos_INR : forall k, IZR (Zpos k) = INR (Pos.to_nat k).
Proof. intros. rewrite INR_IZR_INZ, positive_nat_Z. reflexivity. Qed.

Lemma Q2R_qpow_neg : forall v k, ~ (v == 0)%Q ->
  Q2R (qpow_z v (Zneg k)) = (/ Q2R v) ^ Pos.to_nat k.
Proof.
  intros v k Hv. unfold qpow_z. rewrite Q2R_Qred.
  rewrite RMicromega.Q2RpowerRZ by (right; lia).
  rewrite Q2R_inv by assumption. reflexivity.
Qed.

Lemma sig_evalR_single : forall a c x, sig_evalR [(a, c)] x = Q2R c * exp (dot (rowR a) x).
Proof. intros. unfold sig_evalR. simpl. lra. Qed.

Lemma scale_row_length : forall p a, length (scale_row p a) = length a.
Proof. intros. unfold scale_row. apply map_length. Qed.

Lemma pow_neg_full : forall n (p : Z) f x, wfsig n f -> (p < 0)%Z ->
  match q_pow_neg f p with
  | Some g => (exists a c, filter nz f = [(a, c)] /\
                sig_evalR g x = / (sig_evalR f x ^ Z.to_nat (- p))) /\ good n g
  | None => forall a c, filter nz f <> [(a, c)]
  end.
Proof.
  intros n p f x Hw Hp. rewrite q_pow_neg_unfold.
  destruct (filter nz f) as [|[a v] [|t l]] eqn:K; try (intros; discriminate).
  assert (Hin : In (a, v) f /\ nz (a, v) = true).
  { apply filter_In. rewrite K. now left. }
  destruct Hin as [Hin Hnz].
  assert (Hav : length a = n /\ on_grid_row a).
  { unfold wfsig in Hw. rewrite Forall_forall in Hw. apply (Hw (a, v) Hin). }
  destruct Hav as [Hl Hg].
  assert (Hv : ~ (v == 0)%Q).
  { unfold nz in Hnz. simpl in Hnz. apply negb_true_iff in Hnz. now apply qiszero_false. }
  assert (Hw1 : wfsig n [(scale_row p a, qpow_z v p)]).
  { constructor; [|constructor]. simpl. split.
    - now rewrite scale_row_length.
    - now apply on_grid_row_scale. }
  split.
  - exists a, v. split; auto.
    rewrite (mk_eval_grid n) by assumption.
    rewrite <- (eval_filter_nz f), K, !sig_evalR_single.
    rewrite dot_scale_row.
    destruct p as [|k|k]; try lia.
    rewrite Q2R_qpow_neg by assumption.
    change (- Z.neg k)%Z with (Z.pos k). rewrite Z2Nat.inj_pos.
    change (Z.neg k) with (- Z.pos k)%Z. rewrite opp_IZR, IZR_pos_INR.
    replace (- INR (Pos.to_nat k) * dot (rowR a) x) with (- (INR (Pos.to_nat k) * dot (rowR a) x)) by ring.
    rewrite exp_Ropp, exp_INR_mult, Rpow_mult_distr, Rinv_mult, pow_inv. reflexivity.
  - apply mk_good; auto. discriminate.
Qed.

Lemma pow_neg_spec : pow_neg_spec_stmt.
Proof.
  intros n p f x Hw _ Hp. pose proof (pow_neg_full n p f x Hw Hp) as H.
  destruct (q_pow_neg f p); auto. destruct H as [H _]. exact H.
Qed.
