(* Proofs/PolyDomProofs.v — proofs of the statements of Proofs/PolyDomSpec.v (C15 for polynomials): an even polynomial
   depends on |x| only, so the kept polynomial constraints are signomial constraints in y = log|x| and the signomial
   theorems of ConGenInfer apply. *)
From Coq Require Import Reals List Bool Arith ZArith QArith Qreals Lra Lia.
From SageVerif Require Import Math.RVec Model.Signomial Model.SigExpr Model.SolverForms Model.ConGen Model.PolyDom
  Proofs.SigSpec Proofs.RelaxSpec Proofs.SigLemmas
  Proofs.ConGenSpec Proofs.ConGenBase Proofs.ConGenCons Proofs.ConGenNorm Proofs.ConGenInfer
  Proofs.PolyDomSpec.
Import ListNotations.
Local Open Scope R_scope.

(* ------------------------------------------------------------------ *)
(* 1. one even power *)
Lemma exp_pow_nat : forall k t, exp t ^ k = exp (INR k * t).
Proof.
  induction k as [|k IH]; intros t.
  - simpl. now rewrite Rmult_0_l, exp_0.
  - rewrite S_INR. simpl pow. rewrite IH, <- exp_plus. f_equal. ring.
Qed.

Lemma even_q_R : forall e, is_even_q e = true ->
  Q2R e = IZR (Qnum (Qred e)) /\ (0 <= Qnum (Qred e))%Z /\ exists m, Qnum (Qred e) = (2 * m)%Z.
Proof.
  intros e H. unfold is_even_q in H.
  apply andb_true_iff in H. destruct H as [H He]. apply andb_true_iff in H. destruct H as [Hd Hn].
  apply Pos.eqb_eq in Hd. apply Z.leb_le in Hn. apply Z.even_spec in He.
  split; [|split]; auto.
  rewrite <- (Q2R_Qred e). destruct (Qred e) as [num den]. simpl in *. subst den.
  unfold Q2R. simpl. field.
Qed.

Lemma even_pow_logabs : forall e v, is_even_q e = true -> v <> 0 ->
  v ^ Z.to_nat (Qnum (Qred e)) = exp (Q2R e * ln (Rabs v)).
Proof.
  intros e v He Hv. destruct (even_q_R e He) as [HQ [Hn [m Hm]]].
  rewrite HQ. set (z := Qnum (Qred e)) in *.
  assert (Ez : Z.to_nat z = (2 * Z.to_nat m)%nat) by lia.
  rewrite Ez, pow_mult, <- pow2_abs, <- pow_mult, <- Ez.
  rewrite <- (exp_ln (Rabs v)) at 1 by (now apply Rabs_pos_lt).
  rewrite exp_pow_nat. f_equal. f_equal.
  rewrite INR_IZR_INZ. f_equal. lia.
Qed.

Lemma nonzero_cons : forall v x, nonzero_coords (v :: x) -> v <> 0 /\ nonzero_coords x.
Proof. intros v x H. inversion H; subst. auto. Qed.

Lemma even_mono_logabs : even_mono_logabs_stmt.
Proof.
  intros a. induction a as [|e a IH]; intros x Ha Hl Hx.
  - simpl. now rewrite exp_0.
  - destruct x as [|v x]; [discriminate|].
    simpl in Ha. apply andb_true_iff in Ha. destruct Ha as [He Ha].
    apply nonzero_cons in Hx. destruct Hx as [Hv Hx]. simpl in Hl.
    cbn [monoR]. unfold logabs, rowR. cbn [map dot]. fold (rowR a). fold (logabs x).
    rewrite exp_plus, (even_pow_logabs e v He Hv), (IH x Ha) by (auto; lia). reflexivity.
Qed.

(* ------------------------------------------------------------------ *)
(* 2. even polynomials *)
Lemma even_poly_as_sig : even_poly_as_sig_stmt.
Proof.
  intros n g x Hg Hw Hx Hz. induction g as [|t g IH].
  - reflexivity.
  - simpl in Hg. apply andb_true_iff in Hg. destruct Hg as [Ht Hg].
    inversion Hw; subst. cbn [poly_evalR sig_evalR fold_right].
    fold (poly_evalR g x). fold (sig_evalR g (logabs x)).
    rewrite (IH Hg) by auto. rewrite (even_mono_logabs (fst t) x Ht) by (auto; congruence).
    reflexivity.
Qed.

(* ------------------------------------------------------------------ *)
(* 3. selection *)
Definition keep_ineq (g : qsig) : bool := all_even g && Nat.eqb (count (fun t => is_pos (snd t)) g) 1.

Lemma gp_ineqs_ok : forall gs r, valid_gp_poly_ineqs gs = Ok r -> r = filter keep_ineq gs.
Proof.
  induction gs as [|g gs IH]; intros r H.
  - simpl in H. now inversion H.
  - cbn [valid_gp_poly_ineqs filter] in *. unfold keep_ineq at 1.
    destruct (all_even g && Nat.eqb (count (fun t => is_pos (snd t)) g) 1).
    + destruct (valid_gp_poly_ineqs gs) as [r'|e]; [|discriminate].
      inversion H; subst. f_equal. now apply IH.
    + destruct (all_even g && Nat.eqb (count (fun t => is_pos (snd t)) g) 0
                && negb (Qeq_bool (value_at_zero g) 0%Q)); [discriminate|]. now apply IH.
Qed.

Definition bad_ineq (g : qsig) : Prop :=
  all_even g = true /\ count (fun t => is_pos (snd t)) g = 0%nat /\ Qeq_bool (value_at_zero g) 0%Q = false.

Lemma gp_ineqs_err : forall gs,
  (exists e, valid_gp_poly_ineqs gs = Err e) <-> exists g, In g gs /\ bad_ineq g.
Proof.
  induction gs as [|g gs IH].
  - split; [intros [e H]; discriminate|intros [g [[] _]]].
  - cbn [valid_gp_poly_ineqs].
    destruct (all_even g) eqn:Ee; cbn [andb].
    + destruct (Nat.eqb (count (fun t => is_pos (snd t)) g) 1) eqn:E1.
      * apply Nat.eqb_eq in E1.
        destruct (valid_gp_poly_ineqs gs) as [r'|e].
        -- split; [intros [e H]; discriminate|].
           intros [g' [[<-|Hin] Hb]]; [destruct Hb as [_ [Hc _]]; rewrite Hc in E1; discriminate|].
           destruct IH as [_ IH]. destruct IH as [e He]; [exists g'; auto|discriminate].
        -- split; [|intros _; eexists; reflexivity]. intros _.
           destruct IH as [IH _]. destruct IH as [g' [Hin Hb]]; [eexists; reflexivity|].
           exists g'. split; [right|]; auto.
      * destruct (Nat.eqb (count (fun t => is_pos (snd t)) g) 0) eqn:E0; cbn [andb].
        -- destruct (Qeq_bool (value_at_zero g) 0%Q) eqn:Ev; cbn [negb].
           ++ rewrite IH. split.
              ** intros [g' [Hin Hb]]. exists g'. split; [right|]; auto.
              ** intros [g' [[<-|Hin] Hb]]; [destruct Hb as [_ [_ Hb]]; congruence|]. exists g'; auto.
           ++ split; [|intros _; eexists; reflexivity]. intros _.
              exists g. split; [left; auto|]. apply Nat.eqb_eq in E0. repeat split; auto.
        -- rewrite IH. split.
           ++ intros [g' [Hin Hb]]. exists g'. split; [right|]; auto.
           ++ intros [g' [[<-|Hin] Hb]]; [|exists g'; auto].
              destruct Hb as [_ [Hb _]]. rewrite Hb in E0. discriminate.
    + rewrite IH. split.
      * intros [g' [Hin Hb]]. exists g'. split; [right|]; auto.
      * intros [g' [[<-|Hin] Hb]]; [destruct Hb as [Hb _]; congruence|]. exists g'; auto.
Qed.

Lemma gp_poly_selection : gp_poly_selection_stmt.
Proof.
  intros gs. split.
  - intros r H. apply (gp_ineqs_ok gs r H).
  - apply gp_ineqs_err.
Qed.

(* ------------------------------------------------------------------ *)
(* 4. refusing an even polynomial without positive coefficient is sound *)
Lemma not_pos_R : forall c, is_pos c = false -> Q2R c <= 0.
Proof.
  intros c H. unfold is_pos in H. destruct (Qcompare_spec c 0) as [E|E|E]; [| |discriminate].
  - apply Qeq_eqR in E. rewrite Q2R_0' in E. lra.
  - apply Qlt_Rlt in E. rewrite Q2R_0' in E. lra.
Qed.

Lemma sig_nopos_nonpos : forall (g : qsig) y,
  count (fun t => is_pos (snd t)) g = 0%nat -> sig_evalR g y <= 0.
Proof.
  induction g as [|t g IH]; intros y H.
  - simpl. lra.
  - unfold count in H. cbn [filter] in H. destruct (is_pos (snd t)) eqn:Ep; [discriminate|].
    cbn [sig_evalR fold_right]. fold (sig_evalR g y).
    pose proof (IH y H) as I. pose proof (not_pos_R _ Ep) as N.
    pose proof (exp_pos (dot (rowR (fst t)) y)) as P. nra.
Qed.

Lemma gp_poly_error_sound : gp_poly_error_sound_stmt.
Proof.
  intros n g x Hg Hw Hx Hz Hc.
  rewrite (even_poly_as_sig n g x Hg Hw Hx Hz). now apply sig_nopos_nonpos.
Qed.

(* ------------------------------------------------------------------ *)
(* 5./6. the inferred domain *)
Lemma poly_infer_ok : forall n gts eqs gg ge cg ce lc,
  poly_infer_domain n gts eqs = Ok (gg, ge, (cg, ce, lc)) ->
  gg = filter keep_ineq gts /\ ge = valid_gp_poly_eqs eqs /\ infer_domain n gg ge = Ok (cg, ce, lc).
Proof.
  intros n gts eqs gg ge cg ce lc H. unfold poly_infer_domain in H.
  destruct (valid_gp_poly_ineqs gts) as [r|e] eqn:Ev; [|discriminate].
  destruct (infer_domain n r (valid_gp_poly_eqs eqs)) as [[[a b] c]|e] eqn:Ei; [|discriminate].
  inversion H; subst. split; [|split]; auto. now apply gp_ineqs_ok.
Qed.

Lemma Forall_filter : forall {X} (P : X -> Prop) p l, Forall P l -> Forall P (filter p l).
Proof.
  intros X P p l H. rewrite Forall_forall in *. intros y Hy. apply filter_In in Hy. apply H, Hy.
Qed.

Lemma fwf_widths : forall n g, fwf n g -> Forall (fun t => length (fst t) = n) g.
Proof.
  intros n g [Hw _]. unfold wfsig in Hw. rewrite Forall_forall in *. intros t Ht. apply (Hw t Ht).
Qed.

Lemma logabs_len : forall x, length (logabs x) = length x.
Proof. intros. unfold logabs. apply map_length. Qed.

(* everything that is needed about the kept constraints *)
Record kept_facts (n : nat) (x : list R) (gg ge : list qsig) : Prop := {
  kf_fg : Forall (fwf n) gg;
  kf_fe : Forall (fwf n) ge;
  kf_zg : Forall no_zero_coeff gg;
  kf_ze : Forall no_zero_coeff ge;
  kf_vg : forall g, In g gg -> poly_evalR g x = sig_evalR g (logabs x);
  kf_ve : forall h, In h ge -> poly_evalR h x = sig_evalR h (logabs x);
  kf_pg : forall g, In g gg -> npos g = 1%nat;
  kf_pe : forall h, In h ge -> npos h = 1%nat /\ count (fun t => negb (qiszero (snd t))) h = 2%nat
}.

Lemma kept_facts_hold : forall n gts eqs x,
  Forall (fwf n) gts -> Forall (fwf n) eqs -> Forall no_zero_coeff gts -> Forall no_zero_coeff eqs ->
  length x = n -> nonzero_coords x ->
  kept_facts n x (filter keep_ineq gts) (valid_gp_poly_eqs eqs).
Proof.
  intros n gts eqs x Fg Fe Zg Ze Hx Hz. unfold valid_gp_poly_eqs.
  constructor; try (now apply Forall_filter).
  - intros g Hg. apply filter_In in Hg. destruct Hg as [Hin Hk].
    unfold keep_ineq in Hk. apply andb_true_iff in Hk. destruct Hk as [He _].
    rewrite Forall_forall in Fg. apply (even_poly_as_sig n g x He (fwf_widths n g (Fg g Hin)) Hx Hz).
  - intros h Hh. apply filter_In in Hh. destruct Hh as [Hin Hk].
    apply andb_true_iff in Hk. destruct Hk as [Hk _]. apply andb_true_iff in Hk. destruct Hk as [He _].
    rewrite Forall_forall in Fe. apply (even_poly_as_sig n h x He (fwf_widths n h (Fe h Hin)) Hx Hz).
  - intros g Hg. apply filter_In in Hg. destruct Hg as [Hin Hk].
    unfold keep_ineq in Hk. apply andb_true_iff in Hk. destruct Hk as [_ H1]. now apply Nat.eqb_eq in H1.
  - intros h Hh. apply filter_In in Hh. destruct Hh as [Hin Hk].
    apply andb_true_iff in Hk. destruct Hk as [Hk H1]. apply andb_true_iff in Hk. destruct Hk as [_ H2].
    apply Nat.eqb_eq in H1, H2. split; auto.
Qed.

Lemma Forall_ext_in : forall {X} (P Q : X -> Prop) l,
  (forall y, In y l -> (P y <-> Q y)) -> (Forall P l <-> Forall Q l).
Proof.
  intros X P Q l H. rewrite !Forall_forall. split; intros F y Hy; apply (H y Hy); auto.
Qed.

Lemma iff_and2 : forall A B C D : Prop, (A <-> C) -> (B <-> D) -> (A /\ B <-> C /\ D).
Proof. tauto. Qed.

Lemma poly_infer_contains : poly_infer_contains_stmt.
Proof.
  intros n gts eqs gg ge cg ce lc x Fg Fe Zg Ze Hx Hz H L2 Sg Se.
  destruct (poly_infer_ok _ _ _ _ _ _ _ _ H) as [Eg [Ee Hi]].
  pose proof (kept_facts_hold n gts eqs x Fg Fe Zg Ze Hx Hz) as K. rewrite <- Eg, <- Ee in K.
  destruct K as [Kfg Kfe Kzg Kze Kvg Kve _ _].
  assert (Ly : length (logabs x) = n) by (now rewrite logabs_len).
  apply (infer_contains n gg ge cg ce lc (logabs x) Kfg Kfe Kzg Kze Ly Hi L2).
  - apply (Forall_ext_in (fun g => 0 <= poly_evalR g x)); [intros g Hg; now rewrite (Kvg g Hg)|].
    subst gg. now apply Forall_filter.
  - apply (Forall_ext_in (fun h => poly_evalR h x = 0)); [intros h Hh; now rewrite (Kve h Hh)|].
    subst ge. unfold valid_gp_poly_eqs. now apply Forall_filter.
Qed.

(* a kept constraint and its normalisation *)
Lemma norm1_iff : forall n g y, fwf n g -> length y = n -> npos g = 1%nat ->
  exists a c, filter (fun t => is_pos (snd t)) g = [(a, c)] /\
    norm1 n g = q_mul n g (inverse_term a) /\
    (0 <= sig_evalR g y <-> 0 <= sig_evalR (norm1 n g) y) /\
    (sig_evalR g y = 0 <-> sig_evalR (norm1 n g) y = 0).
Proof.
  intros n g y Hf Hy H1. unfold npos, count in H1. unfold norm1.
  destruct (filter (fun t => is_pos (snd t)) g) as [|[a c] [|? ?]] eqn:EF; try discriminate.
  destruct (filter_head_In _ _ _ _ EF) as [Hin Hp]. simpl in Hp.
  exists a, c. split; [|split]; auto. apply (posy_normalise_iff n g a c y Hf Hy Hin Hp).
Qed.

Lemma poly_infer_exact : poly_infer_exact_stmt.
Proof.
  intros n gts eqs gg ge cg ce lc x Fg Fe Zg Ze Hx Hz H L2.
  destruct (poly_infer_ok _ _ _ _ _ _ _ _ H) as [Eg [Ee Hi]].
  pose proof (kept_facts_hold n gts eqs x Fg Fe Zg Ze Hx Hz) as K. rewrite <- Eg, <- Ee in K.
  destruct K as [Kfg Kfe Kzg Kze Kvg Kve Kpg Kpe].
  assert (Ly : length (logabs x) = n) by (now rewrite logabs_len).
  rewrite (infer_exact n gg ge cg ce lc (logabs x) Kfg Kfe Kzg Kze Ly Hi L2).
  destruct (infer_domain_ok _ _ _ _ _ _ Hi) as [Hv [Hce _]].
  destruct (valid_posy_ok n gg cg Hv) as [Ecg _].
  rewrite filter_all in Ecg
    by (apply Forall_forall; intros g Hg; apply Nat.eqb_eq; now apply Kpg).
  assert (Ece : ce = map (norm1 n) ge).
  { rewrite Hce. unfold valid_mono_eqs. clear - Kpe Kfe Ly.
    induction ge as [|h ge IH]; auto.
    cbn [flat_map map]. destruct (Kpe h (or_introl eq_refl)) as [P1 P2]. rewrite P2.
    replace (Nat.ltb 2 2) with false by reflexivity.
    inversion Kfe; subst.
    destruct (norm1_iff (length (logabs x)) h (logabs x) H1 eq_refl P1) as [a [c [EF [EN _]]]].
    rewrite EF, EN. cbn [app]. f_equal. apply IH; auto.
    intros h' Hh'. apply Kpe. now right. }
  rewrite Ecg, Ece, !Forall_map.
  rewrite Forall_forall in Kfg, Kfe.
  apply iff_and2; apply Forall_ext_in.
  - intros g Hg. destruct (norm1_iff n g (logabs x) (Kfg g Hg) Ly (Kpg g Hg)) as [a [c [_ [_ [I1 _]]]]].
    rewrite (Kvg g Hg). symmetry. exact I1.
  - intros h Hh. destruct (Kpe h Hh) as [P1 _].
    destruct (norm1_iff n h (logabs x) (Kfe h Hh) Ly P1) as [a [c [_ [_ [_ I2]]]]].
    rewrite (Kve h Hh). symmetry. exact I2.
Qed.
