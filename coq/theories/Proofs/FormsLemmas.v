(* Proofs/FormsLemmas.v — list / mask / vector / product-cone lemmas shared by the proofs of
   Proofs/FormsSpec.v (selectors, partition of a product cone by cone type). *)
From Coq Require Import Reals List Bool Arith Lia Lra.
From SageVerif Require Import Math.RVec Model.SolverForms Proofs.MathSpec Proofs.FormsSpec.
Import ListNotations.
Open Scope R_scope.

Notation KsizeM := SolverForms.Ksize (only parsing).
Notation KsizeR := RVec.Ksize (only parsing).

(* ------------------------------------------------------------------ lists *)
Lemma firstn_app_len {X} : forall (a b : list X), firstn (length a) (a ++ b) = a.
Proof. induction a as [|h a IH]; intros; simpl; [reflexivity | now rewrite IH]. Qed.

Lemma skipn_app_len {X} : forall (a b : list X), skipn (length a) (a ++ b) = b.
Proof. induction a as [|h a IH]; intros; simpl; auto. Qed.

Lemma split_len {X} : forall n m (v : list X), length v = (n + m)%nat ->
  exists a b, v = a ++ b /\ length a = n /\ length b = m.
Proof.
  intros n m v H. exists (firstn n v), (skipn n v).
  rewrite firstn_skipn, firstn_length, skipn_length. repeat split; lia.
Qed.

Lemma app_eq_len {X} : forall (a c b d : list X),
  length a = length c -> a ++ b = c ++ d -> a = c /\ b = d.
Proof.
  induction a as [|h a IH]; destruct c as [|h' c]; simpl; intros b d Hl He; try discriminate; auto.
  injection He as He1 He2. injection Hl as Hl. destruct (IH _ _ _ Hl He2). subst; auto.
Qed.

Lemma firstn_add {X} : forall m k (l : list X),
  firstn (m + k) l = firstn m l ++ firstn k (skipn m l).
Proof.
  induction m as [|m IH]; intros; simpl; auto.
  destruct l; simpl; [now rewrite firstn_nil | now rewrite IH].
Qed.

Lemma skipn_add {X} : forall k m (l : list X), skipn m (skipn k l) = skipn (k + m) l.
Proof.
  induction k as [|k IH]; intros; simpl; auto.
  destruct l; simpl; auto. now rewrite skipn_nil.
Qed.

Lemma map_repeat' {X Y} (f : X -> Y) : forall n x, map f (repeat x n) = repeat (f x) n.
Proof. induction n; intros; simpl; congruence. Qed.

Lemma map_add_seq : forall n m next, map (fun j => (n + j)%nat) (seq next m) = seq (n + next) m.
Proof.
  intros n m. induction m as [|m IH]; intros; simpl; auto.
  f_equal. rewrite IH. f_equal. lia.
Qed.

Lemma map_nth_seq {X Y} (f : X -> Y) (d : X) : forall G,
  map (fun i => f (nth i G d)) (seq 0 (length G)) = map f G.
Proof.
  induction G as [|r G IH]; simpl; auto.
  f_equal. rewrite <- seq_shift, map_map. exact IH.
Qed.

Lemma nth_seq_firstn : forall (y : list R) next m, (next + m <= length y)%nat ->
  map (fun k => nth k y 0) (seq next m) = firstn m (skipn next y).
Proof.
  induction y as [|h t IH]; intros next m H; simpl in H.
  - assert (next = 0%nat) by lia. assert (m = 0%nat) by lia. subst. reflexivity.
  - destruct next as [|nx].
    + destruct m as [|m]; [reflexivity|]. simpl. f_equal.
      rewrite <- seq_shift, map_map. simpl.
      rewrite (IH 0%nat m) by lia. reflexivity.
    + rewrite <- seq_shift, map_map. simpl. apply IH. lia.
Qed.

(* ------------------------------------------------------------------ mask / selectors *)
Lemma mask_nil_r {X} : forall s, @mask X s [] = [].
Proof. destruct s; reflexivity. Qed.

Lemma mask_app {X} : forall s1 s2 (a b : list X), length s1 = length a ->
  mask (s1 ++ s2) (a ++ b) = mask s1 a ++ mask s2 b.
Proof.
  induction s1 as [|h s1 IH]; destruct a as [|x a]; simpl; intros b Hl; try discriminate; auto.
  destruct h; rewrite IH by lia; reflexivity.
Qed.

Lemma mask_repeat_true {X} : forall n (a : list X), length a = n -> mask (repeat true n) a = a.
Proof.
  induction n as [|n IH]; destruct a; simpl; intros; try discriminate; auto.
  rewrite IH by lia. reflexivity.
Qed.

Lemma mask_repeat_false {X} : forall n (a : list X), mask (repeat false n) a = [].
Proof. induction n as [|n IH]; destruct a; simpl; auto. Qed.

Lemma mask_selector_cons {X} : forall t n K t' (a b : list X), length a = n ->
  mask (selector ((t, n) :: K) t') (a ++ b) = (if ctag_eqb t' t then a else []) ++ mask (selector K t') b.
Proof.
  intros. simpl selector. rewrite mask_app by (rewrite repeat_length; lia).
  destruct (ctag_eqb t' t); [rewrite mask_repeat_true | rewrite mask_repeat_false]; auto.
Qed.

Lemma mask_map {X Y} (f : X -> Y) : forall s l, mask s (map f l) = map f (mask s l).
Proof.
  induction s as [|h s IH]; destruct l; simpl; auto.
  destruct h; simpl; rewrite IH; reflexivity.
Qed.

Lemma mask_length_eq {X Y} : forall s (a : list X) (b : list Y), length a = length b ->
  length (mask s a) = length (mask s b).
Proof.
  induction s as [|h s IH]; destruct a, b; simpl; intros; try discriminate; auto.
  destruct h; simpl; rewrite (IH a b) by lia; reflexivity.
Qed.

Lemma count_true_app : forall a b, count_true (a ++ b) = (count_true a + count_true b)%nat.
Proof. intros. unfold count_true. now rewrite filter_app, app_length. Qed.

Lemma count_true_repeat : forall b n, count_true (repeat b n) = if b then n else 0%nat.
Proof.
  intros b n. induction n as [|n IH]; simpl; [destruct b; reflexivity|].
  unfold count_true in *. simpl. destruct b; simpl; rewrite IH; reflexivity.
Qed.

Lemma mask_length {X} : forall s (a : list X), length s = length a -> length (mask s a) = count_true s.
Proof.
  induction s as [|h s IH]; destruct a; simpl; intros; try discriminate; auto.
  unfold count_true in *. destruct h; simpl; rewrite IH by lia; reflexivity.
Qed.

Lemma selector_length : selector_length_stmt.
Proof.
  intros K t. induction K as [|[t' n] K IH]; simpl; auto.
  now rewrite app_length, repeat_length, IH.
Qed.

(* ------------------------------------------------------------------ vectors *)
Lemma f_dot_nil_r : forall a, dot a [] = 0.
Proof. destruct a; reflexivity. Qed.

Lemma f_dot_app : forall a a' b b', length a = length b ->
  dot (a ++ a') (b ++ b') = dot a b + dot a' b'.
Proof.
  induction a as [|x a IH]; destruct b as [|y b]; simpl; intros; try discriminate; [ring|].
  rewrite IH by lia. ring.
Qed.

Lemma f_dot_opp_l : forall a b, dot (map Ropp a) b = - dot a b.
Proof.
  induction a as [|x a IH]; destruct b as [|y b]; simpl; try ring.
  rewrite IH. ring.
Qed.

Lemma f_dot_comm : forall a b, dot a b = dot b a.
Proof.
  induction a as [|x a IH]; destruct b as [|y b]; simpl; try ring.
  rewrite IH. ring.
Qed.

Lemma f_dot_repeat0_l : forall n y, dot (repeat 0 n) y = 0.
Proof.
  induction n as [|n IH]; destruct y; simpl; auto. rewrite IH. ring.
Qed.

Lemma f_dot_vadd_r : forall e a b, length a = length b -> length e = length a ->
  dot e (vadd a b) = dot e a + dot e b.
Proof.
  induction e as [|x e IH]; destruct a, b; simpl; intros; try discriminate; [ring|].
  rewrite IH by lia. ring.
Qed.

Lemma f_length_vadd : forall a b, length a = length b -> length (vadd a b) = length a.
Proof.
  induction a as [|x a IH]; destruct b; simpl; intros; try discriminate; auto.
Qed.

Lemma f_length_vsub : forall a b, length a = length b -> length (vsub a b) = length a.
Proof.
  induction a as [|x a IH]; destruct b; simpl; intros; try discriminate; auto.
Qed.

Lemma f_length_mv : forall A x, length (mv A x) = length A.
Proof. intros. unfold mv. apply map_length. Qed.

Lemma f_mv_app : forall A B x, mv (A ++ B) x = mv A x ++ mv B x.
Proof. intros. unfold mv. apply map_app. Qed.

Lemma f_mv_negm : forall M x, mv (negm Ropp M) x = map Ropp (mv M x).
Proof.
  intros. unfold mv, negm. rewrite !map_map. apply map_ext. intros. apply f_dot_opp_l.
Qed.

Lemma f_mv_mask : forall s A x, mv (mask s A) x = mask s (mv A x).
Proof. intros. unfold mv. symmetry. apply mask_map. Qed.

Lemma f_vadd_app : forall a a' b b', length a = length b ->
  vadd (a ++ a') (b ++ b') = vadd a b ++ vadd a' b'.
Proof.
  induction a as [|x a IH]; destruct b; simpl; intros; try discriminate; auto.
  rewrite IH by lia. reflexivity.
Qed.

Lemma f_vsub_app : forall a a' b b', length a = length b ->
  vsub (a ++ a') (b ++ b') = vsub a b ++ vsub a' b'.
Proof.
  induction a as [|x a IH]; destruct b; simpl; intros; try discriminate; auto.
  rewrite IH by lia. reflexivity.
Qed.

Lemma f_vadd_nil_r : forall a, vadd a [] = [].
Proof. destruct a; reflexivity. Qed.

Lemma mask_vadd : forall s a b, mask s (vadd a b) = vadd (mask s a) (mask s b).
Proof.
  induction s as [|h s IH]; intros [|x a] [|y b]; simpl; try reflexivity.
  - now rewrite f_vadd_nil_r.
  - destruct h; simpl; rewrite IH; reflexivity.
Qed.

Lemma f_vsub_repeat0 : forall a n, length a = n -> vsub a (repeat 0 n) = a.
Proof.
  induction a as [|x a IH]; destruct n; simpl; intros; try discriminate; auto.
  rewrite IH by lia. f_equal. ring.
Qed.

Lemma f_vadd_vsub_swap : forall u w b, vadd (vsub u w) b = vsub (vadd u b) w.
Proof.
  induction u as [|x u IH]; intros [|y w] [|z b]; simpl; try reflexivity.
  rewrite IH. f_equal. ring.
Qed.

(* u = -w  <->  u + w = 0 *)
Lemma eq_opp_iff : forall u w, length u = length w ->
  (u = map Ropp w <-> Forall (fun v => v = 0) (vadd u w)).
Proof.
  induction u as [|x u IH]; destruct w as [|y w]; simpl; intros Hl; try discriminate.
  - split; auto.
  - rewrite Forall_cons_iff, <- IH by lia. split.
    + intros H. injection H as H1 H2. split; [lra | auto].
    + intros [H1 H2]. f_equal; [lra | auto].
Qed.

Lemma opp_eq_iff : forall u w, length u = length w ->
  (map Ropp u = w <-> Forall (fun v => v = 0) (vadd u w)).
Proof.
  induction u as [|x u IH]; destruct w as [|y w]; simpl; intros Hl; try discriminate.
  - split; auto.
  - rewrite Forall_cons_iff, <- IH by lia. split.
    + intros H. injection H as H1 H2. split; [lra | auto].
    + intros [H1 H2]. f_equal; [lra | auto].
Qed.

Lemma opp_le_iff : forall u w, length u = length w ->
  (Forall2 Rle (map Ropp u) w <-> Forall (fun v => 0 <= v) (vadd u w)).
Proof.
  induction u as [|x u IH]; destruct w as [|y w]; simpl; intros Hl; try discriminate.
  - split; auto.
  - rewrite Forall_cons_iff, <- IH by lia. split.
    + intros H. inversion H; subst. split; [lra | auto].
    + intros [H1 H2]. constructor; [lra | auto].
Qed.

Lemma vsub_zero_iff : forall a b, length a = length b ->
  (Forall (fun v => v = 0) (vsub a b) <-> a = b).
Proof.
  induction a as [|x a IH]; destruct b as [|y b]; simpl; intros Hl; try discriminate.
  - split; auto.
  - rewrite Forall_cons_iff, IH by lia. split.
    + intros [H1 H2]. f_equal; [lra | auto].
    + intros H. injection H as H1 H2. split; [lra | auto].
Qed.

(* ------------------------------------------------------------------ product cones, generic in
   the membership predicate (in_cone for K, in_dual_cone for K* ) *)
Fixpoint in_Kg (mem : ctype -> list R -> Prop) (K : list (ctype * nat)) (v : list R) : Prop :=
  match K with
  | [] => v = []
  | (t, n) :: K' => length (firstn n v) = n /\ mem t (firstn n v) /\ in_Kg mem K' (skipn n v)
  end.

Lemma in_K_eq : forall K v, in_K K v = in_Kg in_cone K v.
Proof. induction K as [|[t n] K IH]; intros; simpl; [reflexivity | now rewrite IH]. Qed.

Lemma in_Kdual_eq : forall K v, in_Kdual K v = in_Kg in_dual_cone K v.
Proof. induction K as [|[t n] K IH]; intros; simpl; [reflexivity | now rewrite IH]. Qed.

Lemma in_Kg_length : forall mem K v, in_Kg mem K v -> length v = KsizeR K.
Proof.
  intros mem. induction K as [|[t n] K IH]; intros v H; simpl in *.
  - subst; reflexivity.
  - destruct H as [H1 [_ H2]]. apply IH in H2.
    rewrite <- (firstn_skipn n v) at 1. rewrite app_length. lia.
Qed.

Lemma in_Kg_cons_app : forall mem t n K a b, length a = n ->
  (in_Kg mem ((t, n) :: K) (a ++ b) <-> mem t a /\ in_Kg mem K b).
Proof.
  intros mem t n K a b H. subst n. simpl.
  rewrite firstn_app_len, skipn_app_len. tauto.
Qed.

Lemma in_Kg_app : forall mem K1 K2 v1 v2, length v1 = KsizeR K1 ->
  (in_Kg mem (K1 ++ K2) (v1 ++ v2) <-> in_Kg mem K1 v1 /\ in_Kg mem K2 v2).
Proof.
  intros mem. induction K1 as [|[t n] K1 IH]; intros K2 v1 v2 Hl; simpl in Hl.
  - destruct v1; [|discriminate]. simpl. tauto.
  - destruct (split_len _ _ _ Hl) as [a [b [-> [Ha Hb]]]].
    rewrite <- app_assoc. change (((t, n) :: K1) ++ K2) with ((t, n) :: (K1 ++ K2)).
    rewrite !in_Kg_cons_app by assumption. rewrite IH by assumption. tauto.
Qed.

Lemma in_K_cons_app : forall t n K a b, length a = n ->
  (in_K ((t, n) :: K) (a ++ b) <-> in_cone t a /\ in_K K b).
Proof. intros. rewrite !in_K_eq. now apply in_Kg_cons_app. Qed.

(* ------------------------------------------------------------------ cone sequences *)
Definition blocks (K : list cone) : list nat := map snd (filter (fun co => ctag_eqb (fst co) TSoc) K).
Definition nexp (K : list cone) : nat := length (filter (fun co => ctag_eqb (fst co) TExp) K).
Definition socK (K : list cone) : list (ctype * nat) := map (fun n => (CSoc, n)) (blocks K).
Definition expK (K : list cone) : list (ctype * nat) := repeat (CExp, 3%nat) (nexp K).

Lemma KsizeR_semK : forall K, KsizeR (semK K) = KsizeM K.
Proof. induction K as [|[t n] K IH]; simpl; auto. Qed.

Lemma okK_cons : forall t n K, okK ((t, n) :: K) ->
  ecos_allowed t = true /\ (t = TExp -> n = 3%nat) /\ okK K.
Proof. intros t n K H. inversion H as [|? ? [H1 H2] H3]; subst. simpl in *. auto. Qed.

Lemma count_soc : forall K, count_true (selector K TSoc) = KsizeR (socK K).
Proof.
  induction K as [|[t n] K IH]; simpl; auto.
  rewrite count_true_app, count_true_repeat, IH.
  destruct t; simpl; reflexivity.
Qed.

Lemma KsizeR_expK : forall K, KsizeR (expK K) = (nexp K * 3)%nat.
Proof.
  intros K. unfold expK. induction (nexp K) as [|k IH]; simpl in *; lia.
Qed.

Lemma count_exp : forall K, okK K -> count_true (selector K TExp) = (nexp K * 3)%nat.
Proof.
  induction K as [|[t n] K IH]; intros HK; simpl; auto.
  apply okK_cons in HK. destruct HK as [Hal [Hn HK]].
  rewrite count_true_app, count_true_repeat, IH by assumption.
  unfold nexp. simpl. destruct t; simpl; try reflexivity.
  rewrite Hn by reflexivity. reflexivity.
Qed.

Lemma socK_cons : forall t n K,
  socK ((t, n) :: K) = if ctag_eqb t TSoc then (CSoc, n) :: socK K else socK K.
Proof. intros. destruct t; reflexivity. Qed.

Lemma expK_cons : forall t n K,
  expK ((t, n) :: K) = if ctag_eqb t TExp then (CExp, 3%nat) :: expK K else expK K.
Proof. intros. destruct t; reflexivity. Qed.

(* partition of a product cone by cone type *)
Lemma partition_by_type : forall mem : ctype -> list R -> Prop,
  (forall a b, mem CZero (a ++ b) <-> mem CZero a /\ mem CZero b) -> mem CZero [] ->
  (forall a b, mem CPos (a ++ b) <-> mem CPos a /\ mem CPos b) -> mem CPos [] ->
  forall K v, okK K -> length v = KsizeM K ->
  (in_Kg mem (semK K) v <->
   mem CZero (mask (selector K T0) v) /\ mem CPos (mask (selector K TPos) v) /\
   in_Kg mem (socK K) (mask (selector K TSoc) v) /\ in_Kg mem (expK K) (mask (selector K TExp) v)).
Proof.
  intros mem Hz Hz0 Hp Hp0.
  induction K as [|[t n] K IH]; intros v HK Hl; simpl in Hl.
  - destruct v; [|discriminate]. simpl. tauto.
  - apply okK_cons in HK. destruct HK as [Hal [Hn HK]].
    destruct (split_len _ _ _ Hl) as [a [b [-> [Ha Hb]]]].
    rewrite !mask_selector_cons by assumption.
    change (semK ((t, n) :: K)) with ((sem_tag t, n) :: semK K).
    rewrite in_Kg_cons_app by assumption.
    rewrite (IH b HK Hb). rewrite socK_cons, expK_cons.
    destruct t; try discriminate Hal; cbn [ctag_eqb sem_tag app].
    + rewrite Hz. tauto.
    + rewrite Hp. tauto.
    + rewrite in_Kg_cons_app by assumption. tauto.
    + rewrite (Hn eq_refl) in *.
      rewrite in_Kg_cons_app by assumption. tauto.
Qed.

Lemma Forall_app_iff {X} (P : X -> Prop) : forall a b, Forall P (a ++ b) <-> Forall P a /\ Forall P b.
Proof. intros. apply Forall_app. Qed.

Lemma partition_primal : forall K v, okK K -> length v = KsizeM K ->
  (in_K (semK K) v <->
   Forall (fun x => x = 0) (mask (selector K T0) v) /\ Forall (fun x => 0 <= x) (mask (selector K TPos) v) /\
   in_K (socK K) (mask (selector K TSoc) v) /\ in_K (expK K) (mask (selector K TExp) v)).
Proof.
  intros K v HK Hl. rewrite !in_K_eq.
  apply (partition_by_type in_cone); auto; simpl; intros; try apply Forall_app; constructor.
Qed.

Lemma partition_dual : forall K v, okK K -> length v = KsizeM K ->
  (in_Kdual (semK K) v <->
   Forall (fun x => 0 <= x) (mask (selector K TPos) v) /\
   in_Kdual (socK K) (mask (selector K TSoc) v) /\ in_Kdual (expK K) (mask (selector K TExp) v)).
Proof.
  intros K v HK Hl. rewrite !in_Kdual_eq.
  rewrite (partition_by_type in_dual_cone); auto; simpl; intros; try tauto; try apply Forall_app; try constructor.
Qed.
