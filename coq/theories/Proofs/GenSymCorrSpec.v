(* Proofs/GenSymCorrSpec.v — relaxations/symbolic_correspondences.py regenerated from the source (Gen/GenSymCorr.v) is Model/SymCorr.v on every
   input, so the C16 theorems (moment-reduction identity, placement of relative coefficients, error on a missing exponent) are theorems about the
   code generated from the current file, including its tolerance constant. *)
From Coq Require Import List Bool Arith ZArith QArith.
From SageVerif Require Import Model.Signomial Model.SolverForms Model.SymCorr Model.SymCorrIdioms Gen.GenConsts Gen.GenSymCorr.
Import ListNotations.

Definition gen_etol_is_model_stmt : Prop := gen_etol = etol.
Definition gen_row_correspondence_equiv_stmt : Prop := forall a1 a2, gen_row_correspondence a1 a2 = row_correspondence a1 a2.
Definition gen_rcv_equiv_stmt : Prop := forall s ref, gen_relative_coeff_vector s ref = relative_coeff_vector s ref.
Definition gen_mra_equiv_stmt : Prop := forall sy n s h L, gen_moment_reduction_array sy n s h L = moment_reduction_array sy n s h L.

(* the headline identity of C16 restated for the GENERATED moment_reduction_array *)
From Coq Require Import Reals.
From SageVerif Require Import Math.RVec Proofs.SigSpec Proofs.SymCorrSpec.

Definition gen_moment_reduction_identity_stmt : Prop :=
  forall n chi (s h L : qsig) C,
    character n chi -> wfsig n s -> rows_distinct s -> wfsig n h -> rows_distinct h -> wfL n L ->
    s <> [] -> h <> [] ->
    gen_moment_reduction_array true n s h L = Ok C ->
    forall cs, length cs = length s ->
      (evalchi chi (with_coeffs s cs) * evalchi chi h = pairing cs (rowsC C chi L))%R.

Definition gen_missing_exponent_is_error_stmt : Prop :=
  forall sy n s h L, (exists r, In r (product_rows sy n s h) /\ mem_row r (map fst L) = false) ->
    exists e, gen_moment_reduction_array sy n s h L = Err e.
