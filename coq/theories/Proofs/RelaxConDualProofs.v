(* Proofs/RelaxConDualProofs.v — C04, dual form of the constrained relaxations: proofs of the statements of
   Proofs/RelaxConDualSpec.v, by composition of the placement theorem for relative_coeff_vector (C16), the row sums
   of the moment-reduction array (Proofs/SymCorrReal.v) and the product theorem of the signomial arithmetic (C12). *)
From Coq Require Import Reals List Bool Arith ZArith QArith Qreals Lra Lia.
From SageVerif Require Import Math.RVec Model.Signomial Model.SolverForms Model.SymCorr Model.RelaxSig
  Proofs.SigSpec Proofs.SigOps Proofs.SymCorrSpec Proofs.SymCorrBase Proofs.SymCorrReal Proofs.SymCorrProofs
  Proofs.RelaxSpec Proofs.RelaxBase Proofs.RelaxConDualSpec.
Import ListNotations.
Local Open Scope R_scope.

(* ------------------------------------------------------------------ *)
(* sums over a reference basis as dot products *)
Lemma dot_moment_vec : forall (cs : list R) (rows : list qrow) s x,
  dot cs (moment_vec rows s x) = s * dot cs (map (chix x) rows).
Proof.
  induction cs as [|c cs IH]; intros [|r rows] s x; unfold moment_vec in *; cbn [map dot]; try lra.
  rewrite IH. unfold chix. ring.
Qed.

Lemma dot_Lsum : forall chi (F : qrow -> R) (ref : list qrow) (cs : list Q),
  length cs = length ref ->
  (forall k, (k < length ref)%nat -> Q2R (nth k cs 0%Q) = F (nth k ref [])) ->
  dot (map Q2R cs) (map chi ref) = Lsum chi F ref.
Proof.
  intros chi F. induction ref as [|r ref IH]; intros [|c cs] Hl Hn; simpl in Hl; try discriminate.
  - reflexivity.
  - unfold Lsum, rsum in *. cbn [map dot fold_right]. rewrite IH; [|lia|].
    + pose proof (Hn 0%nat ltac:(simpl; lia)) as H0. cbn [nth] in H0. rewrite H0. reflexivity.
    + intros k Hk. apply (Hn (S k)). simpl. lia.
Qed.

Lemma dot_combine : forall chi (L : qsig) (Ci : list Q),
  dot (map Q2R Ci) (map chi (map fst L)) =
  fold_right Rplus 0 (map (fun cl => Q2R (fst cl) * chi (fst (snd cl))) (combine Ci L)).
Proof.
  intros chi. induction L as [|l L IH]; intros [|c Ci]; cbn [map dot combine fold_right fst snd]; try reflexivity.
  rewrite IH. reflexivity.
Qed.

Lemma chix_respects : forall x, respects (chix x).
Proof. intros x a b H. now apply chix_resp. Qed.

(* ------------------------------------------------------------------ *)
(* 1. relative coefficient vectors pair with moment vectors to function values *)
Lemma rows_contained_present : forall (u : qsig) ref, rows_contained u ref = true ->
  forall t, In t u -> mem_row (fst t) ref = true \/ Q2R (snd t) = 0.
Proof.
  intros u ref H t Ht. unfold rows_contained in H. rewrite forallb_forall in H.
  specialize (H t Ht). apply orb_true_iff in H as [H|H]; [right; now apply qiszero_Q2R | now left].
Qed.

Lemma rcv_moment_pairing : rcv_moment_pairing_stmt.
Proof.
  intros n u ref s x Hu Hdu Hx [Hr1 Hr2] Hc.
  destruct (rcv_placement n u ref Hu Hdu Hr1 Hr2) as [E1 E2].
  pose proof (distinct_of_nth ref Hr2) as Hd.
  rewrite dot_moment_vec.
  rewrite (dot_Lsum (chix x) (coefR u) ref _ E1).
  - rewrite (Lsum_coefR (chix x) ref u (chix_respects x) Hd (rows_contained_present u ref Hc)).
    now rewrite evalchi_chix.
  - intros k Hk. rewrite (Qeq_eqR _ _ (E2 k Hk)).
    apply query_coeff_coefR. now apply rows_distinct_distinct.
Qed.

(* ------------------------------------------------------------------ *)
(* 2. the rows of the moment-reduction array, at an arbitrary scaling of the moment vector *)
Lemma mra_row : forall n (s P L : qsig) C x t sc,
  wfsig n s -> wfsig n P -> rows_distinct P -> wfL n L -> length x = n ->
  moment_reduction_array true n s P L = Ok C -> In t s ->
  dot (map Q2R (relative_coeff_vector (shift_sig P (fst t)) (map fst L))) (moment_vec (map fst L) sc x) =
  sc * (chix x (fst t) * sig_evalR P x).
Proof.
  intros n s P L C x t sc Hs HP HdP HL Hx HC Ht.
  pose proof (chix_char n x Hx) as Hchi.
  destruct (wfsig_distinct_ref n L HL) as [HdL HgL].
  unfold wfsig in Hs. rewrite Forall_forall in Hs. destruct (Hs t Ht) as [Lt Gt].
  rewrite dot_moment_vec, dot_combine.
  rewrite (Crow_sum n (chix x) P L (fst t) Hchi HP HdP HL Lt Gt).
  rewrite Lsum_coefR; [| exact (proj2 Hchi) | exact HdL |].
  - rewrite (evalchi_shifted n (chix x) P (fst t) Hchi HP Lt Gt). now rewrite evalchi_chix.
  - intros u Hu. unfold shifted in Hu. apply in_map_iff in Hu as [v [<- Hv]]. cbn [fst snd].
    destruct (qiszero (snd v)) eqn:Z; [right; apply qiszero_Q2R; exact Z | left].
    rewrite vaddq_comm. destruct t as [a ca]. destruct v as [b cb].
    eapply symbolic_present; eauto.
Qed.

Lemma mra_matvec : forall n (s P L : qsig) C x sc,
  wfsig n s -> wfsig n P -> rows_distinct P -> wfL n L -> length x = n ->
  moment_reduction_array true n s P L = Ok C ->
  matvecQR C (moment_vec (map fst L) sc x) = moment_vec (map fst s) (sc * sig_evalR P x) x.
Proof.
  intros n s P L C x sc Hs HP HdP HL Hx HC.
  assert (HCeq : C = map (fun t => relative_coeff_vector (shift_sig P (fst t)) (map fst L)) s).
  { unfold moment_reduction_array in HC. destruct (forallb _ _); [|discriminate]. inversion HC. reflexivity. }
  rewrite HCeq at 1. unfold matvecQR, moment_vec at 2. rewrite !map_map. apply map_ext_in. intros t Ht.
  rewrite (mra_row n s P L C x t sc Hs HP HdP HL Hx HC Ht). unfold chix. ring.
Qed.

Lemma multiplier_moment : multiplier_moment_stmt.
Proof.
  intros n s h t L C x Hs Hds Hsne Hh Hdh Hhne Ht Hdt Htne HL Hx Hpos HC.
  destruct (mul_spec n h t x Hh Ht Hdh Hdt Hhne Htne Hx) as [Ev (Pw & Pd & _)].
  rewrite (mra_matvec n s (q_mul n h t) L C x _ Hs Pw Pd HL Hx HC).
  f_equal. rewrite Ev. field. lra.
Qed.

(* ------------------------------------------------------------------ *)
(* 3. the dual point of the constrained relaxation *)
Lemma wfL_ref_ok : forall n (L : qsig), wfL n L -> ref_ok n (map fst L).
Proof.
  intros n L [Hw Hd]. split.
  - unfold wfsig in Hw. rewrite Forall_forall in *. intros r Hr.
    apply in_map_iff in Hr as [u [<- Hu]]. now apply Hw.
  - apply distinct_nth. now apply rows_distinct_distinct.
Qed.

Lemma moment_vec_zero : forall (rows : list qrow) x, moment_vec rows 0 x = map (fun _ => 0) rows.
Proof. intros rows x. unfold moment_vec. apply map_ext. intros a. ring. Qed.

Lemma constrained_dual_point : constrained_dual_point_stmt.
Proof.
  intros n f t L gms hms x Hx HL Hf Hdf Hfne Ht Hdt Htne Hpos Hc1 Hc2 Hm Hg Hh w.
  pose proof (wfL_ref_ok n L HL) as Hr.
  destruct (mul_spec n f t x Hf Ht Hdf Hdt Hfne Htne Hx) as [Ev (Pw & Pd & _)].
  apply Forall_app in Hm as [Hmg Hmh].
  split; [|split; [|split]].
  - unfold w. rewrite (rcv_moment_pairing n t (map fst L) _ x Ht Hdt Hx Hr Hc1). field. lra.
  - unfold w. rewrite (rcv_moment_pairing n (q_mul n f t) (map fst L) _ x Pw Pd Hx Hr Hc2).
    rewrite Ev. field. lra.
  - rewrite Forall_forall in *. intros m Hin. specialize (Hmg m Hin). specialize (Hg m Hin).
    destruct m as [[s g] C]. cbn [fst snd] in *.
    destruct Hmg as (Hs & Hds & Hsne & Hgw & Hdg & Hgne & HC).
    exists (sig_evalR g x). split; [exact Hg|].
    exact (multiplier_moment n s g t L C x Hs Hds Hsne Hgw Hdg Hgne Ht Hdt Htne HL Hx Hpos HC).
  - rewrite Forall_forall in *. intros m Hin. specialize (Hmh m Hin). specialize (Hh m Hin).
    destruct m as [[s h] C]. cbn [fst snd] in *.
    destruct Hmh as (Hs & Hds & Hsne & Hhw & Hdh & Hhne & HC).
    unfold w. rewrite (multiplier_moment n s h t L C x Hs Hds Hsne Hhw Hdh Hhne Ht Hdt Htne HL Hx Hpos HC).
    rewrite Hh, moment_vec_zero. now rewrite map_map.
Qed.
