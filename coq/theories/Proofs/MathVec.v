(* Proofs/MathVec.v — list/vector algebra over R used by the cone and AGE proofs. *)
From Coq Require Import Reals List Lra Lia.
From SageVerif Require Import Math.RVec Proofs.MathSpec.
Import ListNotations.
Open Scope R_scope.

(* ---- lengths ---- *)
Lemma length_vadd : forall a b, length a = length b -> length (vadd a b) = length a.
Proof.
  induction a as [|x a IH]; intros [|y b] Hl; simpl in *; try discriminate; [reflexivity|].
  f_equal. apply IH. now injection Hl.
Qed.

Lemma length_vsub : forall a b, length a = length b -> length (vsub a b) = length a.
Proof.
  induction a as [|x a IH]; intros [|y b] Hl; simpl in *; try discriminate; [reflexivity|].
  f_equal. apply IH. now injection Hl.
Qed.

Lemma length_vscale : forall s a, length (vscale s a) = length a.
Proof. intros s a. unfold vscale. apply map_length. Qed.

Lemma length_vzero : forall n, length (vzero n) = n.
Proof. intros n. unfold vzero. apply repeat_length. Qed.

Lemma length_mv : forall A z, length (mv A z) = length A.
Proof. intros A z. unfold mv. apply map_length. Qed.

Lemma length_tmv : forall n A eta, wfm n A -> length (tmv n A eta) = n.
Proof.
  intros n A. induction A as [|r A IH]; intros eta Hwf; simpl.
  - apply length_vzero.
  - destruct eta as [|e eta]; [apply length_vzero|].
    inversion Hwf as [|r' A' Hr HA]; subst.
    rewrite length_vadd; rewrite length_vscale; auto.
    rewrite IH; auto.
Qed.

(* ---- dot ---- *)
Lemma dot_nil_r : forall a, dot a [] = 0.
Proof. destruct a; reflexivity. Qed.

Lemma dot_comm : forall a b, dot a b = dot b a.
Proof.
  induction a as [|x a IH]; intros [|y b]; simpl; auto.
  rewrite (IH b). ring.
Qed.

Lemma dot_vzero_l : forall n z, dot (vzero n) z = 0.
Proof.
  induction n as [|n IH]; intros z; simpl; auto.
  destruct z as [|y z]; auto. unfold vzero in IH. rewrite IH. ring.
Qed.

Lemma dot_vscale_l : forall s a z, dot (vscale s a) z = s * dot a z.
Proof.
  intros s. induction a as [|x a IH]; intros [|y z]; simpl; try ring.
  unfold vscale in IH. rewrite IH. ring.
Qed.

Lemma dot_vscale_r : forall s a z, dot a (vscale s z) = s * dot a z.
Proof.
  intros s a z. rewrite dot_comm, dot_vscale_l, dot_comm. reflexivity.
Qed.

Lemma dot_vadd_l : forall a b z, length a = length b ->
  dot (vadd a b) z = dot a z + dot b z.
Proof.
  induction a as [|x a IH]; intros [|y b] z Hl; simpl in *; try discriminate.
  - ring.
  - destruct z as [|w z]; [ring|].
    rewrite IH; [ring|]. now injection Hl.
Qed.

Lemma dot_vadd_r : forall e a b, length a = length b ->
  dot e (vadd a b) = dot e a + dot e b.
Proof.
  intros e a b Hl. rewrite dot_comm, dot_vadd_l by assumption.
  rewrite (dot_comm a), (dot_comm b). reflexivity.
Qed.

Lemma dot_vsub_l : forall a b z, length a = length b ->
  dot (vsub a b) z = dot a z - dot b z.
Proof.
  induction a as [|x a IH]; intros [|y b] z Hl; simpl in *; try discriminate.
  - ring.
  - destruct z as [|w z]; [ring|].
    rewrite IH; [ring|]. now injection Hl.
Qed.

Lemma vsub_eq_zero : forall n a b, length a = n -> length b = n ->
  vsub a b = vzero n -> a = b.
Proof.
  induction n as [|n IH]; intros [|x a] [|y b] Ha Hb Hz; simpl in *; try discriminate; auto.
  injection Hz as Hxy Hrest.
  f_equal; [lra|]. apply IH; auto.
Qed.

Lemma vsub_vzero_r : forall n a, length a = n -> vsub a (vzero n) = a.
Proof.
  induction n as [|n IH]; intros [|x a] Ha; simpl in *; try discriminate; auto.
  f_equal; [ring|]. apply IH. now injection Ha.
Qed.

Lemma vscale_1 : forall a, vscale 1 a = a.
Proof.
  unfold vscale. induction a as [|x a IH]; simpl; [reflexivity|].
  rewrite IH. f_equal. ring.
Qed.

Lemma vscale_vadd : forall s a b, vscale s (vadd a b) = vadd (vscale s a) (vscale s b).
Proof.
  intros s. unfold vscale. induction a as [|x a IH]; intros [|y b]; simpl; try reflexivity.
  rewrite IH. f_equal. ring.
Qed.

Lemma mv_vscale : forall s A z, mv A (vscale s z) = vscale s (mv A z).
Proof.
  intros s A z. unfold mv, vscale at 2. rewrite map_map.
  apply map_ext. intros r. apply dot_vscale_r.
Qed.

(* split of a dot product at position n *)
Lemma dot_firstn_skipn : forall n a b,
  dot a b = dot (firstn n a) (firstn n b) + dot (skipn n a) (skipn n b).
Proof.
  induction n as [|n IH]; intros a b; simpl.
  - ring.
  - destruct a as [|x a]; [simpl; ring|].
    destruct b as [|y b]; [simpl; rewrite dot_nil_r; ring|].
    simpl. rewrite (IH a b). ring.
Qed.

(* ---- sums ---- *)
Lemma sumsq_nonneg : forall l, 0 <= sumsq l.
Proof.
  induction l as [|x l IH]; unfold sumsq in *; simpl; [lra|].
  pose proof (Rle_0_sqr x) as Hx. unfold Rsqr in Hx. lra.
Qed.

Lemma sumsq_cons : forall x l, sumsq (x :: l) = x * x + sumsq l.
Proof. reflexivity. Qed.

Lemma sumsq_vscale : forall s l, sumsq (vscale s l) = s * s * sumsq l.
Proof.
  intros s. unfold sumsq, vscale, rsum. induction l as [|x l IH]; simpl; [ring|].
  rewrite IH. ring.
Qed.

(* the quadratic form a^2 |x|^2 + 2ab <x,y> + b^2 |y|^2 is nonnegative *)
Lemma quad_form_nonneg : forall a b xs ys,
  0 <= a * a * sumsq xs + 2 * a * b * dot xs ys + b * b * sumsq ys.
Proof.
  intros a b. induction xs as [|x xs IH]; intros ys.
  - simpl. pose proof (sumsq_nonneg ys) as Hy.
    pose proof (Rle_0_sqr b) as Hb. unfold Rsqr in Hb.
    unfold sumsq at 1. simpl.
    pose proof (Rmult_le_pos _ _ Hb Hy). lra.
  - destruct ys as [|y ys].
    + rewrite dot_nil_r. pose proof (sumsq_nonneg (x :: xs)) as Hx.
      pose proof (Rle_0_sqr a) as Ha. unfold Rsqr in Ha.
      unfold sumsq at 2. simpl.
      pose proof (Rmult_le_pos _ _ Ha Hx). lra.
    + rewrite !sumsq_cons. simpl.
      specialize (IH ys).
      pose proof (Rle_0_sqr (a * x + b * y)) as Hs. unfold Rsqr in Hs.
      replace (a * a * (x * x + sumsq xs) + 2 * a * b * (x * y + dot xs ys)
               + b * b * (y * y + sumsq ys))
        with ((a * x + b * y) * (a * x + b * y)
              + (a * a * sumsq xs + 2 * a * b * dot xs ys + b * b * sumsq ys)) by ring.
      lra.
Qed.

(* Cauchy-Schwarz *)
Lemma cauchy_schwarz : forall xs ys,
  dot xs ys * dot xs ys <= sumsq xs * sumsq ys.
Proof.
  intros xs ys.
  pose proof (sumsq_nonneg ys) as Hy.
  set (d := dot xs ys). set (sx := sumsq xs). set (sy := sumsq ys).
  destruct (Rle_lt_or_eq_dec 0 sy Hy) as [Hpos | Hzero].
  - pose proof (quad_form_nonneg sy (- d) xs ys) as HQ.
    fold d sx sy in HQ.
    assert (HQ' : 0 <= sy * (sx * sy - d * d)).
    { replace (sy * (sx * sy - d * d))
        with (sy * sy * sx + 2 * sy * - d * d + - d * - d * sy) by ring. exact HQ. }
    assert (0 <= sx * sy - d * d).
    { destruct (Rle_or_lt 0 (sx * sy - d * d)) as [H|H]; auto.
      exfalso. assert (sy * (sx * sy - d * d) < 0).
      { rewrite <- (Rmult_0_r sy). apply Rmult_lt_compat_l; assumption. }
      lra. }
    lra.
  - rewrite <- Hzero. rewrite Rmult_0_r.
    destruct (Req_dec d 0) as [Hd|Hd].
    + rewrite Hd. lra.
    + exfalso.
      pose proof (quad_form_nonneg 1 (- (sx + 1) / (2 * d)) xs ys) as HQ.
      fold d sx sy in HQ. rewrite <- Hzero in HQ.
      replace (1 * 1 * sx + 2 * 1 * (- (sx + 1) / (2 * d)) * d
               + - (sx + 1) / (2 * d) * (- (sx + 1) / (2 * d)) * 0)
        with (-1) in HQ by (field; assumption).
      lra.
Qed.

(* second-order cone pairing *)
Lemma soc_pair : forall t s xs ys,
  0 <= t -> sumsq xs <= t * t -> 0 <= s -> sumsq ys <= s * s ->
  0 <= t * s + dot xs ys.
Proof.
  intros t s xs ys Ht Hx Hs Hy.
  pose proof (cauchy_schwarz xs ys) as HCS.
  pose proof (sumsq_nonneg xs) as Hx0. pose proof (sumsq_nonneg ys) as Hy0.
  set (d := dot xs ys) in *.
  assert (Hprod : sumsq xs * sumsq ys <= (t * t) * (s * s)).
  { apply Rmult_le_compat; assumption. }
  assert (Hts : 0 <= t * s) by (apply Rmult_le_pos; assumption).
  destruct (Rle_or_lt 0 (t * s + d)) as [H|H]; auto.
  exfalso.
  assert (H1 : 0 < - d - t * s) by lra.
  assert (H2 : 0 < - d + t * s) by lra.
  pose proof (Rmult_lt_0_compat _ _ H1 H2) as H3.
  replace ((- d - t * s) * (- d + t * s)) with (d * d - t * t * (s * s)) in H3 by ring.
  lra.
Qed.

(* rsum / dot over Forall-nonneg lists *)
Lemma dot_nonneg : forall a b,
  Forall (fun x => 0 <= x) a -> Forall (fun x => 0 <= x) b -> 0 <= dot a b.
Proof.
  induction a as [|x a IH]; intros b Ha Hb; simpl; [lra|].
  destruct b as [|y b]; [lra|].
  inversion Ha as [|? ? Hx Ha']; subst. inversion Hb as [|? ? Hy Hb']; subst.
  pose proof (Rmult_le_pos _ _ Hx Hy). specialize (IH b Ha' Hb'). lra.
Qed.

Lemma dot_zero_r : forall a b, Forall (fun x => x = 0) b -> dot a b = 0.
Proof.
  induction a as [|x a IH]; intros b Hb; simpl; auto.
  destruct b as [|y b]; auto.
  inversion Hb as [|? ? Hy Hb']; subst. rewrite (IH b Hb'). ring.
Qed.
