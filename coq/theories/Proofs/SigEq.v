(* Proofs/SigEq.v — Signomial.__eq__ : symmetry, reflexivity, characterisation. *)
From Coq Require Import Reals List Bool Arith ZArith QArith Qreals Lra Lia Qabs.
From SageVerif Require Import Math.RVec Model.Signomial Model.SigExpr Proofs.SigSpec
  Proofs.SigLemmas Proofs.SigRound.
Import ListNotations.
Local Open Scope Q_scope.

Lemma eq_sym : eq_sym_stmt.
Proof.
  intros f g. unfold q_eqb. rewrite (Nat.eqb_sym (length f) (length g)).
  destruct (Nat.eqb (length g) (length f)), (one_sided_eq f g), (one_sided_eq g f); reflexivity.
Qed.

Lemma close_refl : forall c, close c c = true.
Proof.
  intros c. unfold close. apply Qle_bool_iff.
  assert (E : c - c == 0) by (unfold Qminus; apply Qplus_opp_r).
  rewrite E. discriminate.
Qed.

Lemma close_sym : forall a b, close a b = close b a.
Proof. intros. unfold close. now rewrite Qabs_Qminus. Qed.

Lemma query_cons : forall (t : qrow * Q) f r,
  query_coeff (t :: f) r = if qrow_eqb (fst t) r then snd t else query_coeff f r.
Proof.
  intros [a c] f r. unfold query_coeff. simpl. destruct (qrow_eqb a r); reflexivity.
Qed.

Lemma query_nil : forall r, query_coeff [] r = 0.
Proof. reflexivity. Qed.

Lemma query_compat : forall f r r', qrow_eqb r r' = true -> query_coeff f r = query_coeff f r'.
Proof.
  induction f; intros r r' H; auto.
  rewrite !query_cons, (IHf r r' H), (qrow_eqb_compat_r (fst a) r r' H). reflexivity.
Qed.

Lemma query_in : forall f t, rows_distinct f -> In t f -> query_coeff f (fst t) = snd t.
Proof.
  induction f; intros t Hd Hin; [contradiction|].
  apply rows_distinct_cons in Hd. destruct Hd as [Hm Hd]. rewrite query_cons.
  destruct Hin as [->|Hin].
  - now rewrite qrow_eqb_refl.
  - rewrite (mem_row_false _ _ Hm (fst t)) by (now apply in_map). auto.
Qed.

Lemma wfsig_grid : forall n f t, wfsig n f -> In t f -> on_grid_row (fst t).
Proof. intros n f t H Hin. unfold wfsig in H. rewrite Forall_forall in H. now apply H. Qed.

Lemma query_round : forall n f g t, wfsig n f -> In t f ->
  query_coeff g (round_row (fst t)) = query_coeff g (fst t).
Proof.
  intros n f g t H Hin. apply query_compat, round_row_eqb. eapply wfsig_grid; eauto.
Qed.

Lemma eq_refl : eq_refl_stmt.
Proof.
  intros n f Hw Hd. unfold q_eqb. rewrite Nat.eqb_refl.
  assert (H : one_sided_eq f f = true).
  { unfold one_sided_eq. apply forallb_forall. intros t Ht.
    rewrite (query_round n f f t Hw Ht), (query_in f t Hd Ht). apply close_refl. }
  rewrite H. reflexivity.
Qed.

Lemma eq_iff_close : eq_iff_close_stmt.
Proof.
  intros n f g Hwf Hwg Hdf Hdg. unfold q_eqb, one_sided_eq. split.
  - intros H. apply andb_true_iff in H. destruct H as [H H2].
    apply andb_true_iff in H. destruct H as [Hl H1].
    apply Nat.eqb_eq in Hl. split; auto.
    rewrite forallb_forall in H1, H2.
    intros r Hr. apply in_app_or in Hr. destruct Hr as [Hr|Hr];
      apply in_map_iff in Hr; destruct Hr as [t [<- Ht]].
    + rewrite (query_in f t Hdf Ht). rewrite <- (query_round n f g t Hwf Ht). now apply H1.
    + rewrite (query_in g t Hdg Ht). rewrite close_sym.
      rewrite <- (query_round n g f t Hwg Ht). now apply H2.
  - intros [Hl H]. apply andb_true_iff. split; [apply andb_true_iff; split|].
    + now apply Nat.eqb_eq.
    + apply forallb_forall. intros t Ht.
      rewrite (query_round n f g t Hwf Ht), <- (query_in f t Hdf Ht).
      apply H. apply in_or_app. left. now apply in_map.
    + apply forallb_forall. intros t Ht.
      rewrite (query_round n g f t Hwg Ht), <- (query_in g t Hdg Ht) at 1.
      rewrite close_sym. apply H. apply in_or_app. right. now apply in_map.
Qed.
