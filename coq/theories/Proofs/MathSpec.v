(* Proofs/MathSpec.v — statements of the real-analysis core used by C01, C02, C03,
   C06, C07, C10 (as named Props; proofs live in Proofs/Math*.v). *)
From Coq Require Import Reals List Lra.
From SageVerif Require Import Math.RVec.
Import ListNotations.
Open Scope R_scope.

Definition wfm (n : nat) (A : list (list R)) : Prop := Forall (fun r => length r = n) A.

(* ---- exponential cone ---- *)
Definition kexp_fenchel_stmt : Prop :=
  forall epi c nu, Kexp (- epi) (exp 1 * c) nu -> forall t, nu * t - epi <= c * exp t.

Definition kexp_second_nonneg_stmt : Prop :=
  forall x y z, Kexp x y z -> 0 <= y /\ 0 <= z.

Definition kexp_scale_stmt : Prop :=
  forall s x y z, 0 <= s -> Kexp x y z -> Kexp (s * x) (s * y) (s * z).

Definition kexp_dual_pair_stmt : Prop :=
  forall u v w x y z, KexpDual u v w -> Kexp x y z -> 0 <= u * x + v * y + w * z.

(* epigraph forms of the nonlinear atoms (coniclifts operators exp / relent / vector2norm) *)
Definition exp_epi_iff_stmt : Prop :=
  forall x t, Kexp x t 1 <-> exp x <= t.

(* scipy.special.rel_entr(x,y) <= t : x ln(x/y) for x,y>0; 0 for x=0,y>=0; +inf otherwise *)
Definition relent_epi_iff_stmt : Prop :=
  forall x y t, Kexp (- t) y x <->
    ((0 < x /\ 0 < y /\ x * ln (x / y) <= t) \/ (x = 0 /\ 0 <= y /\ 0 <= t)).

Definition soc_epi_iff_stmt : Prop :=
  forall t xs, in_cone CSoc (t :: xs) <-> sqrt (sumsq xs) <= t.

(* ---- product cones ---- *)
Definition in_K_length_stmt : Prop :=
  forall K v, in_K K v -> length v = Ksize K.

Definition in_K_scale_stmt : Prop :=
  forall K s v, 0 <= s -> in_K K v -> in_K K (vscale s v).

Definition dualK_pair_stmt : Prop :=
  forall K eta k, in_Kdual K eta -> in_K K k -> 0 <= dot eta k.

Definition tmv_dot_stmt : Prop :=
  forall n A eta z, wfm n A -> length z = n -> length eta = length A ->
    dot (tmv n A eta) z = dot eta (mv A z).

(* ---- AGE certificate soundness (C01): the rows emitted for one AGE cone imply
   nonnegativity of its signomial on X = { x : exists lifted z=[x;w], A z + b in K }.
   alpha_i, alphaJ are the (zero-padded) exponent rows; ci = age_vector[i][i];
   cJ = age_vector[i][cover]; nu, epi, eta the auxiliary variables. ---- *)
Definition age_cert_nonneg_stmt : Prop :=
  forall (n : nat) (alpha_i : list R) (alphaJ : list (list R)) (ci : R) (cJ nu epi : list R)
         (A : list (list R)) (b eta : list R) (K : list (ctype * nat)),
    length alpha_i = n -> wfm n alphaJ -> wfm n A ->
    length b = length A -> length eta = length A ->
    (* first row of sum_relent:  -z - sum epi >= 0  with z = -c_i + eta.b *)
    0 <= ci - dot eta b - rsum epi ->
    (* exponential-cone rows (-epi_j, e*c_j, nu_j) *)
    Forall3 (fun e c v => Kexp (- e) (exp 1 * c) v) epi cJ nu ->
    length alphaJ = length nu ->
    (* balance rows  (alpha_J - alpha_i)^T nu - A^T eta = 0 *)
    vsub (tmv n (map (fun r => vsub r alpha_i) alphaJ) nu) (tmv n A eta) = vzero n ->
    in_Kdual K eta ->
    forall z, length z = n -> in_K K (vadd (mv A z) b) ->
      0 <= ci * exp (dot alpha_i z) + sigeval alphaJ cJ z.

(* ordinary SAGE (X = R^n) *)
Definition age_cert_nonneg_ord_stmt : Prop :=
  forall (n : nat) (alpha_i : list R) (alphaJ : list (list R)) (ci : R) (cJ nu epi : list R),
    length alpha_i = n -> wfm n alphaJ ->
    0 <= ci - rsum epi ->
    Forall3 (fun e c v => Kexp (- e) (exp 1 * c) v) epi cJ nu ->
    length alphaJ = length nu ->
    tmv n (map (fun r => vsub r alpha_i) alphaJ) nu = vzero n ->
    forall z, length z = n ->
      0 <= ci * exp (dot alpha_i z) + sigeval alphaJ cJ z.

(* entries of an AGE vector on its cover are nonnegative *)
Definition age_cover_nonneg_stmt : Prop :=
  forall epi cJ nu, Forall3 (fun e c v => Kexp (- e) (exp 1 * c) v) epi cJ nu ->
    Forall (fun c => 0 <= c) cJ.

(* ---- dual SAGE cone admits moment vectors (C02) ---- *)
(* compact/epigraph row for the pair (i,j): Kexp (-(alpha_i - alpha_j).mu_i) v_j v_i
   with v = t exp(alpha z), mu_i = v_i z *)
Definition dual_moment_row_stmt : Prop :=
  forall n t z alpha_i alpha_j, 0 <= t -> length z = n -> length alpha_i = n -> length alpha_j = n ->
    Kexp (- dot (vsub alpha_i alpha_j) (vscale (t * exp (dot alpha_i z)) z))
         (t * exp (dot alpha_j z)) (t * exp (dot alpha_i z)).

(* A mu_i + v_i b in K *)
Definition dual_moment_domain_stmt : Prop :=
  forall n A b K z s, wfm n A -> length z = n -> length b = length A -> 0 <= s ->
    in_K K (vadd (mv A z) b) -> in_K K (vadd (mv A (vscale s z)) (vscale s b)).

(* ---- weak duality between one primal AGE certificate and dual AGE data (C03) ---- *)
Definition age_pairing_stmt : Prop :=
  forall (n : nat) (alpha_i : list R) (alphaJ : list (list R)) (ci : R) (cJ nu epi : list R)
         (A : list (list R)) (b eta : list R) (K : list (ctype * nat))
         (vi : R) (vJ mu : list R),
    length alpha_i = n -> wfm n alphaJ -> wfm n A ->
    length b = length A -> length eta = length A ->
    0 <= ci - dot eta b - rsum epi ->
    Forall3 (fun e c v => Kexp (- e) (exp 1 * c) v) epi cJ nu ->
    length alphaJ = length nu ->
    vsub (tmv n (map (fun r => vsub r alpha_i) alphaJ) nu) (tmv n A eta) = vzero n ->
    in_Kdual K eta ->
    (* dual side *)
    length mu = n -> length vJ = length alphaJ -> 0 <= vi ->
    Forall2 (fun aj vj => Kexp (- dot (vsub alpha_i aj) mu) vj vi) alphaJ vJ ->
    in_K K (vadd (mv A mu) (vscale vi b)) ->
    0 <= ci * vi + dot cJ vJ.
