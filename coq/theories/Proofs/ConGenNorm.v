(* Proofs/ConGenNorm.v — C15: the exact shape of g * (inverse monomial) and the normal form
   of a normalised constraint. *)
From Coq Require Import Reals List Bool Arith ZArith QArith Qreals Lra Lia Qabs.
From SageVerif Require Import Math.RVec Model.Signomial Model.SigExpr Model.SolverForms Model.ConGen
  Proofs.SigSpec Proofs.RelaxSpec Proofs.SigLemmas Proofs.SigRound Proofs.SigMk Proofs.SigOps
  Proofs.ConGenSpec Proofs.ConGenBase Proofs.ConGenCons.
Import ListNotations.
Local Open Scope Q_scope.

(* ------------------------------------------------------------------ *)
(* entries: x shifted by the rounded negation of y, rounded twice *)
Definition sh1 (y x : Q) : Q := round7 (round7 (Qred (x + round7 (Qred (- y))))).

Lemma on_grid_neg : forall y, on_grid y -> on_grid (Qred (- y)).
Proof.
  intros y H. apply (on_grid_compat (Qred (inject_Z (-1) * y))).
  - rewrite !Qred_correct. unfold inject_Z. ring.
  - now apply on_grid_scale.
Qed.

Lemma sh1_eq : forall y x, on_grid x -> on_grid y -> sh1 y x == x - y.
Proof.
  intros y x Hx Hy. unfold sh1.
  assert (G : on_grid (Qred (x + round7 (Qred (- y))))) by (apply on_grid_plus; auto; apply round7_on_grid).
  pose proof (round7_on_grid (Qred (x + round7 (Qred (- y))))) as G2. unfold on_grid in G, G2.
  rewrite G2, G, Qred_correct. pose proof (on_grid_neg y Hy) as G3. unfold on_grid in G3.
  rewrite G3, Qred_correct. reflexivity.
Qed.

Lemma Qeq_bool_ext : forall p q p' q', (p == q <-> p' == q') -> Qeq_bool p q = Qeq_bool p' q'.
Proof.
  intros p q p' q' H. destruct (Qeq_bool p q) eqn:E1, (Qeq_bool p' q') eqn:E2; auto.
  - apply Qeq_bool_iff in E1. apply H in E1. apply Qeq_bool_iff in E1. congruence.
  - apply Qeq_bool_iff in E2. apply H in E2. apply Qeq_bool_iff in E2. congruence.
Qed.

Lemma sh1_eqb : forall y x x', on_grid x -> on_grid x' -> on_grid y ->
  Qeq_bool (sh1 y x) (sh1 y x') = Qeq_bool x x'.
Proof.
  intros y x x' Hx Hx' Hy. apply Qeq_bool_ext.
  rewrite (sh1_eq y x Hx Hy), (sh1_eq y x' Hx' Hy). unfold Qminus. apply Qplus_inj_r.
Qed.

Lemma sh1_zero : forall y x, on_grid x -> on_grid y -> Qeq_bool (sh1 y x) 0 = Qeq_bool x y.
Proof.
  intros y x Hx Hy. apply Qeq_bool_ext.
  rewrite (sh1_eq y x Hx Hy), <- (Qplus_opp_r y). unfold Qminus. apply Qplus_inj_r.
Qed.

(* rows *)
Definition shrow (a r : qrow) : qrow := round_row (round_row (vaddq r (inv_row a))).

Lemma shrow_cons : forall y a x r, shrow (y :: a) (x :: r) = sh1 y x :: shrow a r.
Proof. reflexivity. Qed.

Lemma shrow_eqb : forall a r r', length r = length a -> length r' = length a ->
  on_grid_row a -> on_grid_row r -> on_grid_row r' ->
  qrow_eqb (shrow a r) (shrow a r') = qrow_eqb r r'.
Proof.
  induction a as [|y a IH]; intros [|x r] [|x' r'] L L' Ga Gr Gr'; try discriminate; auto.
  rewrite !shrow_cons. inversion Ga; inversion Gr; inversion Gr'; subst.
  cbn [qrow_eqb]. rewrite sh1_eqb by assumption. rewrite IH; auto.
Qed.

Lemma shrow_zero : forall a r, length r = length a -> on_grid_row a -> on_grid_row r ->
  is_zero_row (shrow a r) = qrow_eqb r a.
Proof.
  induction a as [|y a IH]; intros [|x r] L Ga Gr; try discriminate; auto.
  rewrite shrow_cons. inversion Ga; inversion Gr; subst.
  cbn [qrow_eqb is_zero_row forallb]. rewrite sh1_zero by assumption. rewrite <- IH; auto.
Qed.

Definition okrow (a r : qrow) : Prop := length r = length a /\ on_grid_row r.

Lemma mem_row_shrow : forall a r l, on_grid_row a -> okrow a r -> Forall (okrow a) l ->
  mem_row (shrow a r) (map (shrow a) l) = mem_row r l.
Proof.
  intros a r l Ga [Lr Gr] H. induction H as [|r' l [L' G'] _ IH]; auto.
  simpl. rewrite IH, shrow_eqb; auto.
Qed.

Lemma NoDupR_shrow : forall a l, on_grid_row a -> Forall (okrow a) l -> NoDupR l ->
  NoDupR (map (shrow a) l).
Proof.
  intros a l Ga H. induction H as [|r l Hr Hl IH]; intros Hn; [constructor|].
  inversion Hn; subst. simpl. constructor; auto. rewrite mem_row_shrow; auto.
Qed.

(* ------------------------------------------------------------------ *)
(* without_zeros on a signomial without zero coefficients *)
Lemma filter_all : forall {X} (p : X -> bool) l, Forall (fun t => p t = true) l -> filter p l = l.
Proof. induction 1; simpl; auto. rewrite H. now f_equal. Qed.

Lemma wz_id : forall n f, no_zero_coeff f -> q_without_zeros n f = f.
Proof.
  intros n f H. unfold q_without_zeros, without_zeros.
  destruct f as [|t [|t' f']]; auto.
  rewrite filter_all, Nat.eqb_refl; auto.
  unfold no_zero_coeff in H. rewrite Forall_forall in *. intros u Hu. now rewrite (H u Hu).
Qed.

(* ------------------------------------------------------------------ *)
(* the product with the inverse monomial *)
Definition shterm (a : qrow) (t : qrow * Q) : qrow * Q := (shrow a (fst t), qmul (snd t) 1).

Lemma qmul_1_eq : forall c, qmul c 1 == c.
Proof. intros. unfold qmul. rewrite Qred_correct. ring. Qed.

Lemma q_mul_inverse : forall n g a, wfsig n g -> rows_distinct g -> no_zero_coeff g ->
  length a = n -> on_grid_row a ->
  q_mul n g (inverse_term a) = map (shterm a) g.
Proof.
  intros n g a Hw Hd Hz La Ga.
  rewrite q_mul_unfold, inverse_term_eq, q_prod_unfold. unfold prod_raw. cbn [flat_map].
  rewrite app_nil_r. unfold prod_row. cbn [fst snd]. rewrite q_mk_unfold. unfold rnd.
  rewrite map_map. cbn [fst snd]. fold (shterm a).
  assert (E : map (fun x : qrow * Q => (round_row (round_row (vaddq (fst x) (inv_row a))), qmul (snd x) 1)) g
              = map (shterm a) g) by reflexivity.
  rewrite E. clear E.
  rewrite consolidate_id.
  - apply wz_id. unfold no_zero_coeff in *. rewrite Forall_forall in *. intros t Ht.
    apply in_map_iff in Ht. destruct Ht as [u [<- Hu]]. simpl.
    specialize (Hz u Hu). unfold qiszero in *.
    rewrite <- Hz. apply Qeq_bool_ext. now rewrite qmul_1_eq.
  - apply rows_distinct_NoDupR. rewrite map_map. cbn [shterm fst].
    rewrite <- (map_map fst (shrow a)). apply NoDupR_shrow; auto.
    + unfold wfsig in Hw. rewrite Forall_forall in *. intros r Hr.
      apply in_map_iff in Hr. destruct Hr as [u [<- Hu]]. destruct (Hw u Hu) as [L G].
      split; auto. rewrite La. exact L.
    + now apply rows_distinct_NoDupR.
Qed.

(* ------------------------------------------------------------------ *)
(* counting *)
Lemma count_zero : forall {X} (p : X -> bool) l y, count p l = 0%nat -> In y l -> p y = false.
Proof.
  unfold count. induction l as [|t l IH]; intros y H Hin; [destruct Hin|].
  destruct Hin as [<-|Hin].
  - simpl in H. destruct (p t); auto. discriminate.
  - simpl in H. destruct (p t); [discriminate|]. auto.
Qed.

Lemma count_one_unique : forall {X} (p : X -> bool) d l j k, count p l = 1%nat ->
  (j < length l)%nat -> (k < length l)%nat ->
  p (nth j l d) = true -> p (nth k l d) = true -> j = k.
Proof.
  intros X p d. induction l as [|t l IH]; intros j k H Hj Hk Pj Pk; [simpl in Hj; lia|].
  unfold count in H. simpl in H. destruct (p t) eqn:E.
  - simpl in H. assert (Z : count p l = 0%nat) by (unfold count; lia).
    destruct j as [|j], k as [|k]; auto; simpl in *.
    + rewrite (count_zero p l _ Z) in Pk; [discriminate|apply nth_In; lia].
    + rewrite (count_zero p l _ Z) in Pj; [discriminate|apply nth_In; lia].
    + rewrite (count_zero p l _ Z) in Pj; [discriminate|apply nth_In; lia].
  - destruct j as [|j]; [simpl in Pj; congruence|]. destruct k as [|k]; [simpl in Pk; congruence|].
    simpl in *. f_equal. apply IH; auto; lia.
Qed.

(* ------------------------------------------------------------------ *)
Lemma nth_map_shterm : forall a g j, (j < length g)%nat ->
  nth j (map (shterm a) g) dflt = shterm a (nth j g dflt).
Proof.
  intros a g j H. rewrite (nth_indep _ dflt (shterm a dflt)) by (now rewrite map_length).
  apply map_nth.
Qed.

Lemma normalised_is_normal : normalised_is_normal_stmt.
Proof.
  intros n g a c [Hw [Hd Hne]] H1 Hin Hp Hz.
  destruct (In_wfsig n g a c Hw Hin) as [La Ga].
  rewrite (q_mul_inverse n g a) by assumption.
  destruct (@In_nth (qrow * Q) g (a, c) dflt Hin) as [k [Hk Ek]]. exists k.
  assert (OK : forall j, (j < length g)%nat -> okrow a (fst (nth j g dflt))).
  { intros j Hj. unfold wfsig in Hw. rewrite Forall_forall in Hw.
    destruct (Hw (nth j g dflt)) as [L G]; [apply nth_In; auto|]. split; auto. rewrite La. exact L. }
  split; [|split].
  - apply const_loc_spec. rewrite map_length. split; auto. split.
    + rewrite nth_map_shterm, Ek by auto. simpl. rewrite shrow_zero; auto. apply qrow_eqb_refl.
    + intros i Hi. rewrite nth_map_shterm by lia. simpl.
      destruct (OK i) as [L G]; [lia|]. rewrite shrow_zero; auto.
      specialize (Hd i k Hi Hk). now rewrite Ek in Hd.
  - rewrite nth_map_shterm, Ek by auto. simpl. now rewrite (is_pos_compat _ _ (qmul_1_eq c)).
  - intros j Hj Hne'. rewrite map_length in Hj. rewrite nth_map_shterm by auto. simpl.
    rewrite (is_neg_compat _ _ (qmul_1_eq _)). apply not_pos_nz_neg.
    + destruct (is_pos (snd (nth j g dflt))) eqn:E; auto. exfalso. apply Hne'.
      apply (count_one_unique (fun t : qrow * Q => is_pos (snd t)) dflt g); auto.
      now rewrite Ek.
    + unfold no_zero_coeff in Hz. rewrite Forall_forall in Hz. apply Hz. now apply nth_In.
Qed.
