(* Proofs/SigProofs.v — C12: the model's Signomial arithmetic is pointwise arithmetic of
   functions.  Collects the proofs of all statements of Proofs/SigSpec.v. *)
From SageVerif Require Export Proofs.SigSpec Proofs.SigLemmas Proofs.SigRound Proofs.SigMk
  Proofs.SigOps Proofs.SigPow Proofs.SigTree Proofs.SigEq.

Lemma C12_all :
  round7_idem_stmt /\ mk_spec_stmt /\ mk_on_grid_stmt /\ add_spec_stmt /\ sub_spec_stmt /\
  mul_spec_stmt /\ scale_spec_stmt /\ add_scalar_spec_stmt /\ pow_nat_spec_stmt /\
  pow_neg_spec_stmt /\ without_zeros_spec_stmt /\ tree_sem_stmt /\ eq_refl_stmt /\
  eq_sym_stmt /\ eq_iff_close_stmt.
Proof.
  exact (conj round7_idem (conj mk_spec (conj mk_on_grid (conj add_spec (conj sub_spec
  (conj mul_spec (conj scale_spec (conj add_scalar_spec (conj pow_nat_spec
  (conj pow_neg_spec (conj without_zeros_spec (conj tree_sem (conj eq_refl
  (conj eq_sym eq_iff_close)))))))))))))).
Qed.
