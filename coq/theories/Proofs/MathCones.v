(* Proofs/MathCones.v — product cones, dual pairing, transpose identity, moment rows. *)
From Coq Require Import Reals List Lra Lia.
From SageVerif Require Import Math.RVec Proofs.MathSpec Proofs.MathVec Proofs.MathExp.
Import ListNotations.
Open Scope R_scope.

Lemma length_firstn_skipn : forall (n : nat) (v : list R),
  length v = (length (firstn n v) + length (skipn n v))%nat.
Proof.
  intros n v. rewrite <- app_length. rewrite firstn_skipn. reflexivity.
Qed.

Lemma in_K_length : in_K_length_stmt.
Proof.
  intros K. induction K as [|[t n] K IH]; intros v HK; simpl in *.
  - subst v. reflexivity.
  - destruct HK as [Hlen [_ Hrest]].
    rewrite (length_firstn_skipn n v). rewrite Hlen. rewrite (IH _ Hrest). reflexivity.
Qed.

Lemma in_Kdual_length : forall K v, in_Kdual K v -> length v = Ksize K.
Proof.
  intros K. induction K as [|[t n] K IH]; intros v HK; simpl in *.
  - subst v. reflexivity.
  - destruct HK as [Hlen [_ Hrest]].
    rewrite (length_firstn_skipn n v). rewrite Hlen. rewrite (IH _ Hrest). reflexivity.
Qed.

Lemma in_cone_scale : forall t s v, 0 <= s -> in_cone t v -> in_cone t (vscale s v).
Proof.
  intros t s v Hs Hc. destruct t; simpl in *.
  - (* zero *)
    unfold vscale. apply Forall_map. eapply Forall_impl; [|exact Hc].
    intros a Ha. simpl in Ha. rewrite Ha. ring.
  - (* pos *)
    unfold vscale. apply Forall_map. eapply Forall_impl; [|exact Hc].
    intros a Ha. simpl in Ha. apply Rmult_le_pos; assumption.
  - (* soc *)
    destruct v as [|t0 xs]; simpl; [exact I|].
    destruct Hc as [Ht0 Hle]. split.
    + apply Rmult_le_pos; assumption.
    + change (map (Rmult s) xs) with (vscale s xs). rewrite sumsq_vscale.
      replace (s * t0 * (s * t0)) with (s * s * (t0 * t0)) by ring.
      apply Rmult_le_compat_l; [|assumption].
      apply Rmult_le_pos; assumption.
  - (* exp *)
    destruct v as [|x [|y [|z [|? ?]]]]; simpl; try contradiction.
    apply kexp_scale; assumption.
Qed.

Lemma in_K_scale : in_K_scale_stmt.
Proof.
  intros K s v Hs. revert v.
  induction K as [|[t n] K IH]; intros v HK; simpl in *.
  - subst v. reflexivity.
  - destruct HK as [Hlen [Hc Hrest]].
    unfold vscale in *. rewrite firstn_map, skipn_map.
    split; [rewrite map_length; exact Hlen|].
    split.
    + apply (in_cone_scale t s _ Hs Hc).
    + apply IH. exact Hrest.
Qed.

Lemma cone_pair : forall t a b, in_dual_cone t a -> in_cone t b -> 0 <= dot a b.
Proof.
  intros t a b Ha Hb. destruct t; simpl in *.
  - rewrite (dot_zero_r a b Hb). lra.
  - apply dot_nonneg; assumption.
  - destruct a as [|s ys]; [simpl; lra|].
    destruct b as [|t0 xs]; [simpl; lra|].
    destruct Ha as [Hs Hys]. destruct Hb as [Ht Hxs]. simpl.
    pose proof (soc_pair s t0 ys xs Hs Hys Ht Hxs) as H. exact H.
  - destruct a as [|u [|v [|w [|? ?]]]]; try contradiction.
    destruct b as [|x [|y [|z [|? ?]]]]; try contradiction.
    simpl. pose proof (kexp_dual_pair u v w x y z Ha Hb) as H. lra.
Qed.

Lemma dualK_pair : dualK_pair_stmt.
Proof.
  intros K. induction K as [|[t n] K IH]; intros eta k He Hk; simpl in *.
  - subst. simpl. lra.
  - destruct He as [_ [Hce Hre]]. destruct Hk as [_ [Hck Hrk]].
    rewrite (dot_firstn_skipn n eta k).
    pose proof (cone_pair t _ _ Hce Hck) as H1.
    pose proof (IH _ _ Hre Hrk) as H2. lra.
Qed.

Lemma tmv_dot : tmv_dot_stmt.
Proof.
  intros n A. induction A as [|r A IH]; intros eta z Hwf Hz Hlen; simpl in *.
  - destruct eta; simpl; try discriminate. apply dot_vzero_l.
  - destruct eta as [|e eta]; simpl in *; try discriminate.
    inversion Hwf as [|r' A' Hr HA]; subst.
    rewrite dot_vadd_l.
    + rewrite dot_vscale_l. rewrite (IH eta z HA eq_refl); [reflexivity|].
      now injection Hlen.
    + rewrite length_vscale, length_tmv; auto.
Qed.

Lemma dual_moment_row : dual_moment_row_stmt.
Proof.
  intros n t z alpha_i alpha_j Ht Hz Hi Hj.
  rewrite dot_vscale_r. rewrite dot_vsub_l by congruence.
  set (di := dot alpha_i z). set (dj := dot alpha_j z).
  pose proof (exp_pos di) as HEi.
  destruct Ht as [Ht | Ht].
  - left. split; [apply Rmult_lt_0_compat; assumption|].
    replace (- (t * exp di * (di - dj)) / (t * exp di)) with (dj + - di)
      by (field; split; lra).
    rewrite exp_plus, exp_Ropp. right. field. lra.
  - right. subst t. split; [ring|]. split; [|lra].
    right. ring.
Qed.

Lemma dual_moment_domain : dual_moment_domain_stmt.
Proof.
  intros n A b K z s Hwf Hz Hb Hs HK.
  rewrite mv_vscale. rewrite <- vscale_vadd.
  apply in_K_scale; assumption.
Qed.
