(* Proofs/AgeInvProofs.v — proofs of the C06 statements of AgeInvSpec.v: invariances of AGE
   certificates (scaling, monotonicity, translation, linear change of variables, permutation) and the
   closed-form circuit case (weighted AM/GM). *)
From Coq Require Import Reals List Lra Lia.
From SageVerif Require Import Math.RVec Proofs.MathSpec Proofs.MathVec Proofs.MathExp
  Proofs.MathCones Proofs.MathAge Proofs.AgeInvSpec.
Import ListNotations.
Open Scope R_scope.

(* ---------------------------------------------------------------- generic helpers ---- *)

Lemma F3_len : forall {A B C} (P : A -> B -> C -> Prop) la lb lc,
  Forall3 P la lb lc -> length la = length lb /\ length lb = length lc.
Proof.
  intros A B C P la lb lc HF. induction HF as [|a b c la lb lc HP HF [IH1 IH2]]; simpl; auto.
Qed.

Lemma rsum_cons : forall x l, rsum (x :: l) = x + rsum l.
Proof. reflexivity. Qed.

Lemma rsum_scale : forall a l, rsum (map (Rmult a) l) = a * rsum l.
Proof.
  intros a. induction l as [|x l IH].
  - unfold rsum. simpl. ring.
  - simpl map. rewrite !rsum_cons, IH. ring.
Qed.

Lemma vscale_cons : forall s x l, vscale s (x :: l) = s * x :: vscale s l.
Proof. reflexivity. Qed.

Lemma vscale_vzero : forall a n, vscale a (vzero n) = vzero n.
Proof.
  intros a. induction n as [|n IH]; [reflexivity|].
  change (vzero (S n)) with (0 :: vzero n). rewrite vscale_cons, IH. f_equal. ring.
Qed.

Lemma vscale_mul : forall a e r, vscale (a * e) r = vscale a (vscale e r).
Proof.
  intros a e r. unfold vscale. rewrite map_map. apply map_ext. intros x. ring.
Qed.

Lemma tmv_nil_l : forall n eta, tmv n [] eta = vzero n.
Proof. reflexivity. Qed.

Lemma tmv_nil_r : forall n A, tmv n A [] = vzero n.
Proof. intros n [|r A]; reflexivity. Qed.

Lemma tmv_cons : forall n r A e eta,
  tmv n (r :: A) (e :: eta) = vadd (vscale e r) (tmv n A eta).
Proof. reflexivity. Qed.

Lemma tmv_vscale : forall n a D nu, tmv n D (vscale a nu) = vscale a (tmv n D nu).
Proof.
  intros n a. induction D as [|r D IH]; intros nu.
  - rewrite !tmv_nil_l. symmetry. apply vscale_vzero.
  - destruct nu as [|e nu].
    + change (vscale a []) with (@nil R). rewrite !tmv_nil_r. symmetry. apply vscale_vzero.
    + rewrite vscale_cons, !tmv_cons, IH, vscale_vadd, vscale_mul. reflexivity.
Qed.

Lemma vadd_swap : forall a b c, vadd a (vadd b c) = vadd b (vadd a c).
Proof.
  induction a as [|x a IH]; intros [|y b] [|z c]; simpl; try reflexivity.
  f_equal; [ring|]. apply IH.
Qed.

Lemma dot_vsub_r : forall e a b, length a = length b ->
  dot e (vsub a b) = dot e a - dot e b.
Proof.
  intros e a b Hl. rewrite dot_comm, dot_vsub_l by assumption.
  rewrite (dot_comm a), (dot_comm b). reflexivity.
Qed.

Lemma mv_vzero : forall M n, mv M (vzero n) = vzero (length M).
Proof.
  intros M n. unfold mv. induction M as [|r M IH]; simpl; [reflexivity|].
  rewrite IH, dot_comm, dot_vzero_l. reflexivity.
Qed.

Lemma mv_vadd : forall M u w, length u = length w ->
  mv M (vadd u w) = vadd (mv M u) (mv M w).
Proof.
  intros M u w Hl. unfold mv. induction M as [|r M IH]; simpl; [reflexivity|].
  rewrite IH, dot_vadd_r by assumption. reflexivity.
Qed.

Lemma mv_vsub : forall M u w, length u = length w ->
  mv M (vsub u w) = vsub (mv M u) (mv M w).
Proof.
  intros M u w Hl. unfold mv. induction M as [|r M IH]; simpl; [reflexivity|].
  rewrite IH, dot_vsub_r by assumption. reflexivity.
Qed.

Lemma tmv_mv : forall n M D, wfm n D ->
  forall nu, tmv (length M) (map (mv M) D) nu = mv M (tmv n D nu).
Proof.
  intros n M. induction D as [|r D IH]; intros Hw nu.
  - simpl map. rewrite !tmv_nil_l. symmetry. apply mv_vzero.
  - destruct nu as [|e nu].
    + rewrite !tmv_nil_r. symmetry. apply mv_vzero.
    + inversion Hw as [|r' D' Hr HD]; subst.
      simpl map. rewrite !tmv_cons, (IH HD).
      rewrite mv_vadd, mv_vscale; [reflexivity|].
      rewrite length_vscale, length_tmv; auto.
Qed.

(* ---------------------------------------------------------------- soundness ---- *)

Lemma age_cert_sound : age_cert_sound_stmt.
Proof.
  intros n alpha_i alphaJ ci cJ Hi Hw [nu [epi [H0 [HF [Hl Hb]]]]] z Hz.
  apply (age_cert_nonneg_ord n alpha_i alphaJ ci cJ nu epi); assumption.
Qed.

(* ---------------------------------------------------------------- scaling ---- *)

Lemma F3_scale : forall a epi cJ nu, 0 <= a ->
  Forall3 (fun e c v => Kexp (- e) (exp 1 * c) v) epi cJ nu ->
  Forall3 (fun e c v => Kexp (- e) (exp 1 * c) v)
          (map (Rmult a) epi) (map (Rmult a) cJ) (map (Rmult a) nu).
Proof.
  intros a epi cJ nu Ha HF.
  induction HF as [|e c v le lc lv HK HF IH]; simpl; constructor; auto.
  replace (- (a * e)) with (a * - e) by ring.
  replace (exp 1 * (a * c)) with (a * (exp 1 * c)) by ring.
  apply kexp_scale; assumption.
Qed.

Lemma age_cert_scale : age_cert_scale_stmt.
Proof.
  intros n alpha_i alphaJ ci cJ a Ha [nu [epi [H0 [HF [Hl Hb]]]]].
  exists (vscale a nu), (map (Rmult a) epi).
  split; [|split; [|split]].
  - rewrite rsum_scale. replace (a * ci - a * rsum epi) with (a * (ci - rsum epi)) by ring.
    apply Rmult_le_pos; assumption.
  - apply F3_scale; assumption.
  - rewrite length_vscale. exact Hl.
  - rewrite tmv_vscale, Hb. apply vscale_vzero.
Qed.

(* ---------------------------------------------------------------- monotonicity ---- *)

Lemma kexp_mono_y : forall x y y' z, Kexp x y z -> y <= y' -> Kexp x y' z.
Proof.
  intros x y y' z [[Hz Hle] | [Hz [Hx Hy]]] Hyy.
  - left. split; lra.
  - right. repeat split; lra.
Qed.

Lemma F3_mono : forall epi cJ nu,
  Forall3 (fun e c v => Kexp (- e) (exp 1 * c) v) epi cJ nu ->
  forall cJ', Forall2 Rle cJ cJ' ->
  Forall3 (fun e c v => Kexp (- e) (exp 1 * c) v) epi cJ' nu.
Proof.
  intros epi cJ nu HF.
  induction HF as [|e c v le lc lv HK HF IH]; intros cJ' H2.
  - inversion H2; subst. constructor.
  - inversion H2 as [|c0 c' l0 lc' Hcc H2']; subst.
    constructor; [|apply IH; assumption].
    apply (kexp_mono_y _ (exp 1 * c)); [assumption|].
    apply Rmult_le_compat_l; [left; apply exp_pos | assumption].
Qed.

Lemma age_cert_mono : age_cert_mono_stmt.
Proof.
  intros n alpha_i alphaJ ci cJ ci' cJ' Hci H2 [nu [epi [H0 [HF [Hl Hb]]]]].
  exists nu, epi. split; [lra|]. split; [|split; assumption].
  apply (F3_mono epi cJ nu); assumption.
Qed.

(* ---------------------------------------------------------------- permutation ---- *)

Lemma age_cert_swap : age_cert_swap_stmt.
Proof.
  intros n alpha_i a1 a2 aJ ci c1 c2 cJ Hi H1 H2 Hw [nu [epi [H0 [HF [Hl Hb]]]]].
  inversion HF as [|e1 c1' v1 le lc lv HK1 HF1]; subst.
  inversion HF1 as [|e2 c2' v2 le2 lc2 lv2 HK2 HF2]; subst.
  exists (v2 :: v1 :: lv2), (e2 :: e1 :: le2).
  split; [|split; [|split]].
  - rewrite !rsum_cons in *. lra.
  - constructor; [assumption|]. constructor; assumption.
  - simpl in *. exact Hl.
  - simpl map in *. rewrite !tmv_cons in *. rewrite vadd_swap. exact Hb.
Qed.

(* ---------------------------------------------------------------- linear change of variables ---- *)

Lemma age_cert_linear : age_cert_linear_stmt.
Proof.
  intros n k alpha_i alphaJ ci cJ M Hi Hw Hk HwM [nu [epi [H0 [HF [Hl Hb]]]]].
  exists nu, epi. split; [assumption|]. split; [assumption|]. split.
  - rewrite map_length. exact Hl.
  - assert (Hmap : map (fun r => vsub r (mv M alpha_i)) (map (mv M) alphaJ)
                   = map (mv M) (map (fun r => vsub r alpha_i) alphaJ)).
    { rewrite !map_map. apply map_ext_in. intros a Ha. symmetry. apply mv_vsub.
      unfold wfm in Hw. rewrite Forall_forall in Hw. rewrite (Hw a Ha). symmetry. exact Hi. }
    rewrite Hmap. subst k.
    rewrite (tmv_mv n M _ (wfm_shiftM n alpha_i alphaJ Hi Hw)).
    unfold shiftM. rewrite Hb. apply mv_vzero.
Qed.

(* ---------------------------------------------------------------- translation ---- *)

Fixpoint tr_epi (E : R) (epi nu ts : list R) : list R :=
  match epi, nu, ts with
  | e :: epi', v :: nu', t :: ts' => E * (e - v * t) :: tr_epi E epi' nu' ts'
  | _, _, _ => []
  end.

Definition tr_c (E : R) (cJ ts : list R) : list R :=
  map (fun ct => fst ct * (E * exp (snd ct))) (combine cJ ts).

Lemma kexp_translate : forall E t e c v, 0 < E ->
  Kexp (- e) (exp 1 * c) v ->
  Kexp (- (E * (e - v * t))) (exp 1 * (c * (E * exp t))) (E * v).
Proof.
  intros E t e c v HE [[Hv Hle] | [Hv [He Hc]]].
  - left. split; [apply Rmult_lt_0_compat; assumption|].
    replace (- (E * (e - v * t)) / (E * v)) with (- e / v + t) by (field; split; lra).
    rewrite exp_plus.
    pose proof (exp_pos t) as Ht.
    assert (HEt : 0 <= E * exp t) by (left; apply Rmult_lt_0_compat; assumption).
    pose proof (Rmult_le_compat_l _ _ _ HEt Hle) as H.
    replace (E * v * (exp (- e / v) * exp t)) with (E * exp t * (v * exp (- e / v))) by ring.
    replace (exp 1 * (c * (E * exp t))) with (E * exp t * (exp 1 * c)) by ring.
    exact H.
  - right. subst v. split; [ring|]. split.
    + replace (- (E * (e - 0 * t))) with (E * - e) by ring.
      rewrite <- (Rmult_0_r E). apply Rmult_le_compat_l; lra.
    + pose proof (exp_pos t) as Ht.
      assert (HEt : 0 <= E * exp t) by (left; apply Rmult_lt_0_compat; assumption).
      replace (exp 1 * (c * (E * exp t))) with ((exp 1 * c) * (E * exp t)) by ring.
      apply Rmult_le_pos; assumption.
Qed.

Lemma F3_translate : forall E, 0 < E -> forall epi cJ nu,
  Forall3 (fun e c v => Kexp (- e) (exp 1 * c) v) epi cJ nu ->
  forall ts, length ts = length nu ->
  Forall3 (fun e c v => Kexp (- e) (exp 1 * c) v)
          (tr_epi E epi nu ts) (tr_c E cJ ts) (vscale E nu).
Proof.
  intros E HE epi cJ nu HF.
  induction HF as [|e c v le lc lv HK HF IH]; intros ts Hts.
  - destruct ts; simpl in *; try discriminate. constructor.
  - destruct ts as [|t ts]; simpl in Hts; try discriminate.
    unfold tr_c. simpl. constructor.
    + apply kexp_translate; assumption.
    + apply IH. now injection Hts.
Qed.

Lemma rsum_tr_epi : forall E epi nu ts, length epi = length nu -> length ts = length nu ->
  rsum (tr_epi E epi nu ts) = E * (rsum epi - dot nu ts).
Proof.
  intros E. unfold rsum. induction epi as [|e epi IH]; intros [|v nu] [|t ts] H1 H2; simpl in *;
    try discriminate.
  - ring.
  - rewrite IH; [ring | now injection H1 | now injection H2].
Qed.

Lemma tr_c_eq : forall n alpha_i x0, length alpha_i = n -> length x0 = n ->
  forall alphaJ cJ, wfm n alphaJ ->
  map (fun ca => fst ca * exp (dot (snd ca) x0)) (combine cJ alphaJ)
  = tr_c (exp (dot alpha_i x0)) cJ (mv (map (fun r => vsub r alpha_i) alphaJ) x0).
Proof.
  intros n alpha_i x0 Hi Hx. unfold tr_c.
  induction alphaJ as [|a alphaJ IH]; intros cJ Hw.
  - destruct cJ; reflexivity.
  - destruct cJ as [|c cJ]; [reflexivity|].
    inversion Hw as [|a' l' Ha Hw']; subst. simpl.
    rewrite (IH cJ Hw'). f_equal.
    rewrite dot_vsub_l by congruence.
    rewrite <- exp_plus. f_equal. f_equal. ring.
Qed.

Lemma age_cert_translate : age_cert_translate_stmt.
Proof.
  intros n alpha_i alphaJ ci cJ x0 Hi Hw Hx HlcJ [nu [epi [H0 [HF [Hl Hb]]]]].
  pose proof (wfm_shiftM n alpha_i alphaJ Hi Hw) as HwD. unfold shiftM in HwD.
  set (D := map (fun r => vsub r alpha_i) alphaJ) in *.
  set (E := exp (dot alpha_i x0)).
  assert (HE : 0 < E) by apply exp_pos.
  destruct (F3_len _ _ _ _ HF) as [Hl1 Hl2].
  assert (HlD : length D = length nu) by (unfold D; rewrite map_length; exact Hl).
  assert (Hts : length (mv D x0) = length nu) by (rewrite length_mv; exact HlD).
  exists (vscale E nu), (tr_epi E epi nu (mv D x0)).
  split; [|split; [|split]].
  - rewrite rsum_tr_epi by congruence.
    rewrite <- (tmv_dot n D nu x0 HwD Hx (eq_sym HlD)), Hb, dot_vzero_l.
    replace (ci * E - E * (rsum epi - 0)) with (E * (ci - rsum epi)) by ring.
    apply Rmult_le_pos; lra.
  - rewrite (tr_c_eq n alpha_i x0 Hi Hx alphaJ cJ Hw). fold D. fold E.
    apply F3_translate; assumption.
  - rewrite length_vscale. exact Hl.
  - fold D. rewrite tmv_vscale, Hb. apply vscale_vzero.
Qed.

(* ---------------------------------------------------------------- circuits ---- *)

Definition circ_epi (T : R) (cJ lam : list R) : list R :=
  map (fun cl => T * snd cl * (ln (T * snd cl / fst cl) - 1)) (combine cJ lam).

Lemma kexp_circuit : forall v c, 0 < v -> 0 < c ->
  Kexp (- (v * (ln (v / c) - 1))) (exp 1 * c) v.
Proof.
  intros v c Hv Hc. left. split; [assumption|].
  replace (- (v * (ln (v / c) - 1)) / v) with (1 + - ln (v / c)) by (field; lra).
  assert (Hvc : 0 < v / c) by (apply Rdiv_lt_0_compat; assumption).
  rewrite exp_plus, exp_Ropp, exp_ln by assumption.
  right. field. split; lra.
Qed.

Lemma F3_circuit : forall T, 0 < T -> forall cJ lam, length cJ = length lam ->
  Forall (fun c => 0 < c) cJ -> Forall (fun l => 0 < l) lam ->
  Forall3 (fun e c v => Kexp (- e) (exp 1 * c) v) (circ_epi T cJ lam) cJ (vscale T lam).
Proof.
  intros T HT. unfold circ_epi.
  induction cJ as [|c cJ IH]; intros [|l lam] Hlen Hc Hl; simpl in *; try discriminate.
  - constructor.
  - inversion Hc as [|? ? Hc0 Hc']; subst. inversion Hl as [|? ? Hl0 Hl']; subst.
    constructor.
    + apply kexp_circuit; [apply Rmult_lt_0_compat|]; assumption.
    + apply IH; auto.
Qed.

Lemma rsum_circ_epi : forall T, 0 < T -> forall cJ lam, length cJ = length lam ->
  Forall (fun c => 0 < c) cJ -> Forall (fun l => 0 < l) lam ->
  rsum (circ_epi T cJ lam)
  = T * ((ln T - 1) * rsum lam
         - rsum (map (fun cl => snd cl * ln (fst cl / snd cl)) (combine cJ lam))).
Proof.
  intros T HT. unfold circ_epi, rsum.
  induction cJ as [|c cJ IH]; intros [|l lam] Hlen Hc Hl; simpl in *; try discriminate.
  - ring.
  - inversion Hc as [|? ? Hc0 Hc']; subst. inversion Hl as [|? ? Hl0 Hl']; subst.
    rewrite IH by auto.
    assert (Hcl : 0 < c / l) by (apply Rdiv_lt_0_compat; assumption).
    replace (T * l / c) with (T * / (c / l)) by (field; split; lra).
    rewrite ln_mult by (try assumption; apply Rinv_0_lt_compat; assumption).
    rewrite ln_Rinv by assumption.
    ring.
Qed.

Lemma circuit_number_pos : forall cJ lam, 0 < circuit_number cJ lam.
Proof. intros. unfold circuit_number. apply exp_pos. Qed.

Lemma circuit_cert_exists : circuit_cert_exists_stmt.
Proof.
  intros n alpha_0 alphaJ cJ lam beta Hi Hw HlcJ Hllam Hc Hl Hsum Hbal Hbeta.
  pose proof (circuit_number_pos cJ lam) as HT.
  set (T := circuit_number cJ lam) in *.
  assert (Hlen : length cJ = length lam) by congruence.
  exists (vscale T lam), (circ_epi T cJ lam).
  split; [|split; [|split]].
  - rewrite (rsum_circ_epi T HT cJ lam Hlen Hc Hl), Hsum.
    assert (HlnT : ln T = rsum (map (fun cl => snd cl * ln (fst cl / snd cl)) (combine cJ lam))).
    { unfold T, circuit_number. apply ln_exp. }
    rewrite <- HlnT.
    replace (- beta - T * ((ln T - 1) * 1 - ln T)) with (T - beta) by ring. lra.
  - apply F3_circuit; assumption.
  - rewrite length_vscale. symmetry. exact Hllam.
  - rewrite tmv_vscale, Hbal. apply vscale_vzero.
Qed.

Lemma circuit_amgm : circuit_amgm_stmt.
Proof.
  intros n alpha_0 alphaJ cJ lam z Hi Hw HlcJ Hllam Hc Hl Hsum Hbal Hz.
  assert (Hcert : age_cert n alpha_0 alphaJ (- circuit_number cJ lam) cJ).
  { apply (circuit_cert_exists n alpha_0 alphaJ cJ lam (circuit_number cJ lam)); auto. lra. }
  pose proof (age_cert_sound n alpha_0 alphaJ _ cJ Hi Hw Hcert z Hz) as H. lra.
Qed.

Lemma sigeval_balanced : forall T d0 xs, 0 < T ->
  forall alphaJ cJ lam, length cJ = length lam ->
  Forall (fun c => 0 < c) cJ -> Forall (fun l => 0 < l) lam ->
  Forall2 (fun a cl => dot a xs = d0 + ln (snd cl * T / fst cl)) alphaJ (combine cJ lam) ->
  length cJ = length alphaJ ->
  sigeval alphaJ cJ xs = T * exp d0 * rsum lam.
Proof.
  intros T d0 xs HT. unfold rsum.
  induction alphaJ as [|a alphaJ IH]; intros [|c cJ] [|l lam] Hlen Hc Hl H2 HlenA;
    simpl in *; try discriminate.
  - ring.
  - inversion Hc as [|? ? Hc0 Hc']; subst. inversion Hl as [|? ? Hl0 Hl']; subst.
    inversion H2 as [|a' cl' la' lcl' Hrow H2']; subst. simpl in Hrow.
    rewrite (IH cJ lam) by auto.
    rewrite Hrow, exp_plus, exp_ln.
    + field. lra.
    + apply Rdiv_lt_0_compat; [apply Rmult_lt_0_compat|]; assumption.
Qed.

Lemma circuit_exact : circuit_exact_stmt.
Proof.
  intros n alpha_0 alphaJ cJ lam beta xs Hi Hw HlcJ Hllam Hc Hl Hsum Hxs H2 Hnn.
  pose proof (circuit_number_pos cJ lam) as HT.
  set (T := circuit_number cJ lam) in *.
  assert (Hlen : length cJ = length lam) by congruence.
  assert (H2' : Forall2 (fun a cl => dot a xs = dot alpha_0 xs + ln (snd cl * T / fst cl))
                        alphaJ (combine cJ lam)).
  { clear - H2 Hw Hi. revert H2. generalize (combine cJ lam) as L.
    induction Hw as [|a alphaJ Ha Hw IH]; intros L H2; inversion H2; subst; constructor.
    - rewrite dot_vsub_l in * by congruence. lra.
    - apply IH. assumption. }
  pose proof (sigeval_balanced T (dot alpha_0 xs) xs HT alphaJ cJ lam Hlen Hc Hl H2' HlcJ) as Hev.
  specialize (Hnn xs Hxs). rewrite Hev, Hsum in Hnn.
  pose proof (exp_pos (dot alpha_0 xs)) as HE.
  destruct (Rle_or_lt beta T) as [H|H]; [assumption|exfalso].
  assert (0 < (beta - T) * exp (dot alpha_0 xs)) by (apply Rmult_lt_0_compat; lra).
  lra.
Qed.
