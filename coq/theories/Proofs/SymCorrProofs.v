(* Proofs/SymCorrProofs.v — the C16 theorems (statements in Proofs/SymCorrSpec.v).
   Supporting developments: SymCorrBase (grid, row matching, placement), SymCorrSort
   (sort_unique), SymCorrReal (characters, sums, builders' identity), SymCorrOwn (numeric identity). *)
From Coq Require Import List Bool Arith ZArith QArith.
From SageVerif Require Import Model.Signomial Model.SolverForms Model.SymCorr
  Proofs.SigSpec Proofs.SymCorrSpec.
From SageVerif Require Export Proofs.SymCorrBase Proofs.SymCorrSort Proofs.SymCorrReal Proofs.SymCorrOwn.
Import ListNotations.

Lemma sig_character : sig_character_stmt.
Proof. exact sig_character_proof. Qed.

Lemma row_corr_grid : row_corr_grid_stmt.
Proof. exact row_corr_grid_base. Qed.

Lemma rcv_placement : rcv_placement_stmt.
Proof.
  intros n g ref Hg Hdg Href Hdref.
  assert (Hr : Forall on_grid_row ref).
  { rewrite Forall_forall in *. intros r Hin. apply (Href r Hin). }
  destruct (rcv_placement_base g ref (rows_distinct_distinct g Hdg) (wfsig_rows_grid n g Hg)
              (distinct_of_nth ref Hdref) Hr) as [Hlen Hnth].
  split; [exact Hlen|]. intros k Hk. rewrite (Hnth k Hk). reflexivity.
Qed.

Lemma moment_reduction_identity : moment_reduction_identity_stmt.
Proof. exact moment_reduction_identity_proof. Qed.

Lemma moment_reduction_own : moment_reduction_own_stmt.
Proof. exact moment_reduction_own_proof. Qed.

Lemma missing_exponent_is_error : missing_exponent_is_error_stmt.
Proof. exact missing_exponent_base. Qed.

Lemma symbolic_rows_complete : symbolic_rows_complete_stmt.
Proof. intros n s h a b ca cb Ha Hb Hz _. eapply symbolic_rows_cover; eauto. Qed.

Print Assumptions sig_character.
Print Assumptions row_corr_grid.
Print Assumptions rcv_placement.
Print Assumptions moment_reduction_identity.
Print Assumptions moment_reduction_own.
Print Assumptions missing_exponent_is_error.
Print Assumptions symbolic_rows_complete.
